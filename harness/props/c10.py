"""C10 — ray/plane/triangle intersection is geometrically sound for every orientation.

Proof: coq/theories/C10 (reference geometry over R) + coq/tie/C10_Tie*.v.
Tie to /repo (B1, translator): get_triangle_normal, intersect_w_surface(_batch), is_it_on_triangle(_batch)
of both APIs are cut from the current sources, executed symbolically (tracer/) and emitted as Coq
definitions; Coq proves them equal to the reference model for all reals (field/ring), and proves the
property's clauses directly on the traced definitions.  The translator is validated on every run by
evaluating the traced terms numerically against the real functions.  Direct oracles run the property
on the implementation (float) and provide replayable failing inputs.
"""
import json, math
import numpy as np
import torch
from tracer.recipes import c10 as recipe
from tracer import emit

PROPS = ['C10_normal_perp', 'C10_normal_unit', 'C10_normal_nonzero', 'C10_hit_on_ray', 'C10_hit_on_plane',
         'C10_hit_on_triangle_plane', 'C10_dist_scale_invariant', 'C10_bary_correct', 'C10_inside_iff',
         'C10_same_side_iff', 'C10_parallel_no_solution', 'C10_instance']
TOL32, TOL64 = 2e-4, 1e-9


def api():
    import odak.learn.raytracing as lr
    import odak.raytracing as nr
    return lr, nr


# ---------------------------------------------------------------- generators
def rot(rng):
    q = np.array([rng.gauss(0, 1) for _ in range(4)]); q /= np.linalg.norm(q)
    a, b, c, d = q
    return np.array([[a*a+b*b-c*c-d*d, 2*(b*c-a*d), 2*(b*d+a*c)], [2*(b*c+a*d), a*a-b*b+c*c-d*d, 2*(c*d-a*b)], [2*(b*d-a*c), 2*(c*d+a*b), a*a-b*b-c*c+d*d]])


def frame(n):
    n = np.asarray(n, float); n = n / np.linalg.norm(n)
    h = np.array([1., 0, 0]) if abs(n[0]) < 0.9 else np.array([0, 1., 0])
    e1 = np.cross(n, h); e1 /= np.linalg.norm(e1); e2 = np.cross(n, e1)
    return e1, e2, n


def tri_with_normal(n, rng, scale=1.0, centre=None):
    e1, e2, n = frame(n)
    c = np.array([rng.uniform(-2, 2) for _ in range(3)]) if centre is None else np.asarray(centre, float)
    ang = sorted(rng.uniform(0, 2 * math.pi) for _ in range(3))
    while min(ang[1] - ang[0], ang[2] - ang[1], ang[0] + 2 * math.pi - ang[2]) < 0.5:
        ang = sorted(rng.uniform(0, 2 * math.pi) for _ in range(3))
    pts = [c + scale * rng.uniform(0.6, 1.4) * (math.cos(a) * e1 + math.sin(a) * e2) for a in ang]
    if rng.random() < 0.5: pts = pts[::-1]
    return np.array(pts)


def gen_cases(ctx, n):
    """list of dict(tri, o, d, kind, al, be): the ray aims at t0 + al (t2-t0) + be (t1-t0)"""
    rng = ctx.rng
    fam = [(1, -1, 0), (1, 1, -2), (2, -1, -1), (-1, -1, -1), (0, 0, 1), (0, 0, -1), (1, 0, 0), (0, -1, 0), (1, 1, 1), (-3, 1, 1), (1, -2, 1)]
    out = []
    for i in range(n):
        scale = 10 ** rng.uniform(-2, 2) if i % 4 == 0 else 1.0
        if i % 3 == 0:
            nrm = np.array(fam[(i // 3) % len(fam)], float); kind = 'family%s' % (fam[(i // 3) % len(fam)],)
        else:
            nrm = rot(rng)[:, 2]; kind = 'random'
        tri = tri_with_normal(nrm, rng, scale)
        r = rng.random()
        if r < 0.45: al, be = rng.uniform(0.08, 0.4), rng.uniform(0.08, 0.4); where = 'inside'
        elif r < 0.9:
            al, be = rng.choice([(-0.3, 0.5), (0.5, -0.3), (0.7, 0.7), (1.4, -0.1), (-0.2, -0.2), (0.1, 1.2)]); where = 'outside'
        else: al, be = rng.choice([(0.5, 0.5), (0.0, 0.3), (0.3, 0.0)]); where = 'edge'
        target = tri[0] + al * (tri[2] - tri[0]) + be * (tri[1] - tri[0])
        nn = np.cross(tri[0] - tri[1], tri[2] - tri[1]); nn /= np.linalg.norm(nn)
        e1, e2, _ = frame(nn)
        side = rng.choice([-1, 1])
        tilt = rng.uniform(-0.8, 0.8) * e1 + rng.uniform(-0.8, 0.8) * e2
        o = target + side * scale * rng.uniform(0.5, 3) * (nn + tilt)
        d = target - o; d /= np.linalg.norm(d)
        mode = 'toward'
        m = rng.random()
        if m < 0.12: d = -d; mode = 'behind'
        elif m < 0.24:
            d = math.cos(rng.uniform(0, 6)) * e1 + math.sin(rng.uniform(0, 6)) * e2; d /= np.linalg.norm(d); mode = 'parallel'
        exact = mode == 'parallel' and kind in ('family(0, 0, 1)', 'family(0, 0, -1)', 'family(1, 0, 0)', 'family(0, -1, 0)')
        out.append({'tri': tri.tolist(), 'o': o.tolist(), 'd': d.tolist(), 'kind': kind, 'where': where, 'mode': mode, 'al': al, 'be': be, 'scale': scale, 'exact_parallel': exact,
                    'form': 'f32' if i % 7 == 3 else None})
    # integer-typed inputs (an ordinary way to write an axis-aligned ray and a triangle on lattice points): NumPy API receives int64 arrays
    k = 0
    while k < max(4, n // 6):
        tri = np.array([[rng.randint(-6, 6) for _ in range(3)] for _ in range(3)], float)
        nn = np.cross(tri[0] - tri[1], tri[2] - tri[1])
        ax = rng.randrange(3); sgn = rng.choice([-1, 1])
        if np.linalg.norm(nn) < 4 or abs(nn[ax]) / np.linalg.norm(nn) < 0.2: continue
        d = np.zeros(3); d[ax] = sgn
        o = np.array([rng.randint(-5, 5) for _ in range(3)], float)
        t_signed = float(np.dot(nn, tri[0] - o) / np.dot(nn, d))
        if abs(t_signed) < 0.25: continue
        out.append({'tri': tri.tolist(), 'o': o.tolist(), 'd': d.tolist(), 'kind': 'lattice', 'where': 'any', 'mode': 'toward' if t_signed > 0 else 'behind', 'al': 0.0, 'be': 0.0, 'scale': 1.0, 'exact_parallel': False, 'form': 'int'})
        k += 1
    return out


# ---------------------------------------------------------------- direct oracles
def run_torch(c):
    lr, _ = api()
    tri = torch.tensor(c['tri'], dtype=torch.float32); ray = torch.tensor([[c['o'], c['d']]], dtype=torch.float32)
    nrm = lr.get_triangle_normal(tri)
    normal, dist, iray, inorm, check = lr.intersect_w_triangle(ray, tri)
    return nrm.numpy().astype(float), normal.numpy().astype(float), dist.numpy().astype(float), check.numpy()


def run_numpy(c):
    _, nr = api()
    dt = {'int': np.int64, 'f32': np.float32}.get(c.get('form'), float)
    tri = np.array(c['tri'], float).astype(dt); ray = np.array([c['o'], c['d']], float).astype(dt)
    nrm = nr.get_triangle_normal(tri)
    normal, dist = nr.intersect_w_surface(ray, tri)
    res = nr.intersect_w_triangle(ray, tri)
    hitflag = not (isinstance(res[0], int) and res[0] == 0)
    return nrm, normal, dist, hitflag


def oracle_case(inp):
    """All clauses of the property for one (triangle, ray) pair in one API."""
    c, which = inp, inp['api']
    tri = np.array(c['tri'], float); o = np.array(c['o'], float); d = np.array(c['d'], float)
    tol = TOL32 if (which == 'torch' or c.get('form') == 'f32') else TOL64
    if c.get('form') == 'f32':          # the oracle judges the values the function received
        tri = tri.astype(np.float32).astype(float); o = o.astype(np.float32).astype(float); d = d.astype(np.float32).astype(float)
    raw = np.cross(tri[0] - tri[1], tri[2] - tri[1]); nhat = raw / np.linalg.norm(raw)
    L = max(np.linalg.norm(tri[0] - tri[1]), np.linalg.norm(tri[2] - tri[1]), np.linalg.norm(tri[2] - tri[0]))
    ext = max(L, np.linalg.norm(o - tri[0]))
    out = []
    if which == 'torch':
        nrm, normal, dist, check = run_torch(c)
        n = nrm[1]; hit = normal[0, 0]; hn = normal[0, 1]; t = float(dist[0, 0]); flag = bool(check[0, 0])
    else:
        nrm, normal, dist, flag = run_numpy(c)
        n = nrm[1]; hit = normal[0]; hn = normal[1]; t = float(dist[0])
    fin = bool(np.all(np.isfinite(n))) and float(np.linalg.norm(n)) > 1e-6
    out.append(('normal_finite_nonzero', fin, 'finite, non-zero', n.tolist()))
    if fin:
        perp = max(abs(np.dot(n, tri[0] - tri[1])), abs(np.dot(n, tri[2] - tri[1]))) / (np.linalg.norm(n) * L)
        out.append(('normal_perpendicular', perp <= 50 * tol, '<= %g' % (50 * tol), perp))
        out.append(('hit_normal_is_plane_normal', bool(np.all(np.isfinite(hn))) and np.linalg.norm(np.cross(hn, nhat)) <= 50 * tol * max(1e-30, np.linalg.norm(hn)) and np.linalg.norm(hn) > 1e-6, 'parallel to the plane normal, non-zero', hn.tolist()))
    nd = float(np.dot(nhat, d))
    if abs(nd) > 0.05:                                  # well-conditioned, not parallel
        t_true = float(np.dot(nhat, tri[0] - o) / nd); hit_true = o + t_true * d
        okf = bool(np.all(np.isfinite(hit)))
        out.append(('hit_finite', okf, 'finite', hit.tolist()))
        if okf:
            e_plane = abs(np.dot(nhat, hit - tri[0])) / ext
            out.append(('hit_on_plane', e_plane <= 100 * tol, '<= %g' % (100 * tol), e_plane))
            e_ray = np.linalg.norm(hit - (o + t * d)) / ext
            out.append(('hit_at_reported_distance', e_ray <= 100 * tol, 'o + dist*d == hit (dist=%r)' % t, {'hit': hit.tolist(), 'o+dist*d': (o + t * d).tolist(), 'signed_distance': t_true}))
            # flag: compare with exact barycentrics when the point is clearly inside / outside
            v0, v1, v2 = tri[2] - tri[0], tri[1] - tri[0], hit_true - tri[0]
            G = np.array([[v0 @ v0, v0 @ v1], [v0 @ v1, v1 @ v1]]); al, be = np.linalg.solve(G, [v0 @ v2, v1 @ v2])
            m = min(al, be, 1 - al - be)
            # barycentric margins are only meaningful in float32 for triangles that are not slivers (area / longest side^2)
            if abs(m) > 0.02 and (which != 'torch' or np.linalg.norm(raw) / (L * L) > 0.1):
                out.append(('flag_iff_inside', flag == (m > 0), m > 0, flag))
    elif c.get('exact_parallel'):
        missed = (not flag) and (not np.all(np.isfinite(hit)) or not flag)
        out.append(('parallel_flagged_miss', missed, 'flag False', {'flag': flag, 'hit': [str(x) for x in hit.tolist()]}))
        if which == 'torch':
            out.append(('parallel_no_coordinates', not bool(np.all(np.isfinite(hit))), 'NaN coordinates', [str(x) for x in hit.tolist()]))
    return out


def oracle_batch(inp):
    """batched intersection == each pair separately (PyTorch)"""
    lr, _ = api()
    tris = torch.tensor(inp['tris'], dtype=torch.float32); rays = torch.tensor(inp['rays'], dtype=torch.float32)
    nb, db, _, _, cb = lr.intersect_w_triangle_batch(rays, tris)
    out = []
    worst = 0.0; flags_ok = True; shape_ok = tuple(nb.shape) == (len(inp['tris']), len(inp['rays']), 2, 3) and tuple(cb.shape) == (len(inp['tris']), len(inp['rays']))
    out.append(('batch_shapes', shape_ok, 'triangles x rays', [list(nb.shape), list(cb.shape)]))
    if shape_ok:
        for i in range(len(inp['tris'])):
            tri = np.array(inp['tris'][i], float)
            raw = np.cross(tri[0] - tri[1], tri[2] - tri[1]); nhat = raw / np.linalg.norm(raw)
            for j in range(len(inp['rays'])):
                o = np.array(inp['rays'][j][0], float); d = np.array(inp['rays'][j][1], float)
                nd = float(nhat @ d)
                n1, d1, _, _, c1 = lr.intersect_w_triangle(rays[j:j + 1], tris[i])
                a = nb[i, j].numpy().astype(float); b = n1[0].numpy().astype(float)
                if abs(nd) < 0.05:
                    # ill-conditioned in float32.  Whether d.n rounds to exactly 0 (NaN coordinates) or to ~1e-8 (huge finite ones) depends on the
                    # order of the float32 operations, which differs between the batched and the single formula unless the plane is axis-aligned
                    # (those exactly-parallel families are judged by oracle_case): here only the hit flags must agree
                    if abs(nd) < 1e-4: flags_ok = flags_ok and bool(cb[i, j]) == bool(c1[0, 0])
                    continue
                both_nan = np.isnan(a) & np.isnan(b)
                diff = np.where(both_nan, 0, np.abs(a - b))
                scale = max(1.0, float(np.nanmax(np.abs(b))) if np.isfinite(b).any() else 1.0)
                worst = max(worst, float(np.nanmax(diff)) / scale if not np.isnan(diff).any() else float('inf'))
                hit = o + (nhat @ (tri[0] - o)) / nd * d
                v0, v1, v2 = tri[2] - tri[0], tri[1] - tri[0], hit - tri[0]
                G = np.array([[v0 @ v0, v0 @ v1], [v0 @ v1, v1 @ v1]]); al, be = np.linalg.solve(G, [v0 @ v2, v1 @ v2])
                if abs(min(al, be, 1 - al - be)) > 0.02:
                    flags_ok = flags_ok and bool(cb[i, j]) == bool(c1[0, 0])
        out.append(('batch_equals_single_values', worst <= 1e-5, '<= 1e-5', worst))
        out.append(('batch_equals_single_flags', flags_ok, True, flags_ok))
    return out


def oracle_multiray(inp):
    """the single-triangle functions called with SEVERAL rays return, row by row, what they return for each ray alone
    (both APIs); the glue outputs of the batched function list exactly the hitting pairs"""
    lr, nr = api()
    out = []
    tri = np.array(inp['tri'], float); rays = np.array(inp['rays'], float)
    raw = np.cross(tri[0] - tri[1], tri[2] - tri[1]); nhat = raw / np.linalg.norm(raw)
    good = [abs(float(nhat @ r[1])) > 0.05 for r in rays]
    # PyTorch
    t32 = torch.tensor(tri, dtype=torch.float32); r32 = torch.tensor(rays, dtype=torch.float32)
    nm, dm = lr.intersect_w_surface(r32, t32)
    ok_shape = tuple(nm.shape) == (len(rays), 2, 3) and dm.numel() == len(rays)
    out.append(('torch_multiray_shapes', ok_shape, [len(rays), 2, 3], [list(nm.shape), list(dm.shape)]))
    if ok_shape:
        worst = 0.0
        for j in range(len(rays)):
            if not good[j]: continue
            n1, d1 = lr.intersect_w_surface(r32[j:j + 1], t32)
            sc = max(1.0, float(n1.abs().max()))
            worst = max(worst, float((nm[j] - n1[0]).abs().max()) / sc, abs(float(dm.reshape(-1)[j]) - float(d1.reshape(-1)[0])) / sc)
        out.append(('torch_multiray_equals_single', worst <= 1e-5, '<= 1e-5', worst))
    # NumPy
    try:
        nn, dn = nr.intersect_w_surface(rays, tri)
        dn = np.asarray(dn, float).reshape(-1)
        ok_shape = tuple(np.shape(nn)) == (len(rays), 2, 3) and dn.shape == (len(rays),)
        out.append(('numpy_multiray_shapes', ok_shape, [len(rays), 2, 3], [list(np.shape(nn)), list(dn.shape)]))
        if ok_shape:
            worst = 0.0
            for j in range(len(rays)):
                if not good[j]: continue
                n1, d1 = nr.intersect_w_surface(rays[j], tri)
                sc = max(1.0, float(np.abs(n1).max()))
                worst = max(worst, float(np.abs(nn[j] - n1).max()) / sc, abs(float(dn[j]) - float(np.asarray(d1).reshape(-1)[0])) / sc)
            out.append(('numpy_multiray_equals_single', worst <= 1e-9, '<= 1e-9', worst))
    except Exception as e:
        out.append(('numpy_multiray_no_exception', False, 'one row per ray', repr(e)))
    try:
        res = nr.intersect_w_triangle(rays, tri)
        out.append(('numpy_triangle_accepts_documented_ray_batch', True, True, True))
    except Exception as e:
        out.append(('numpy_triangle_accepts_documented_ray_batch', False, 'a result for the documented (n x 2 x 3) ray list', repr(e)[:200]))
    # glue of the batched function: one entry per hitting pair, in row-major (triangle, ray) order, carrying that pair's data
    tris = torch.stack([t32, t32 + torch.tensor([0.3, -0.2, 0.4])])
    nb, dist_l, ray_l, nrm_l, cb = lr.intersect_w_triangle_batch(r32, tris)
    okg = True; detail = None
    groups = [i for i in range(tris.shape[0]) if int(cb[i].sum()) > 0]
    if not (len(dist_l) == len(ray_l) == len(nrm_l) == len(groups)):
        okg = False; detail = {'groups_with_hits': len(groups), 'lists': [len(dist_l), len(ray_l), len(nrm_l)]}
    else:
        for gi, i in enumerate(groups):
            idx = [j for j in range(len(rays)) if bool(cb[i, j])]
            if list(ray_l[gi].shape) != [len(idx), 2, 3] or list(nrm_l[gi].shape) != [len(idx), 2, 3] or dist_l[gi].numel() != len(idx):
                okg = False; detail = {'triangle': i, 'expected_hits': len(idx), 'shapes': [list(ray_l[gi].shape), list(nrm_l[gi].shape), list(dist_l[gi].shape)]}; break
            for a, j in enumerate(idx):
                n1, d1, _, _, _ = lr.intersect_w_triangle(r32[j:j + 1], tris[i])
                sc = max(1.0, float(n1.abs().max()))
                e = max(float((ray_l[gi][a] - r32[j]).abs().max()), float((nrm_l[gi][a] - n1[0]).abs().max()) / sc, abs(float(dist_l[gi].reshape(-1)[a]) - float(d1.reshape(-1)[0])) / sc)
                if e > 1e-5:
                    okg = False; detail = {'triangle': i, 'ray': j, 'max_deviation': e}; break
            if not okg: break
    out.append(('batch_lists_carry_the_hitting_pairs', okg, 'per triangle with hits: the rays that hit it, their hit normals and distances', detail))
    return out


ORACLES = {'case': oracle_case, 'batch': oracle_batch, 'multiray': oracle_multiray}


def apply_oracle(ctx, name, inp):
    try:
        res = ORACLES[name](inp)
    except Exception as e:
        res = [('no_exception', False, 'a result', repr(e))]
    bad = 0
    fn = {'torch': 'odak.learn.raytracing.intersect_w_triangle', 'numpy': 'odak.raytracing.intersect_w_surface'}.get(inp.get('api'), 'odak.learn.raytracing.intersect_w_triangle_batch')
    if name == 'multiray': fn = 'intersect_w_surface / intersect_w_triangle with several rays'
    for clause, ok, exp, obs in res:
        if not ok:
            bad += 1
            ctx.violation(fn, clause, dict(inp, oracle=name), exp, obs)
    return bad, res


# ---------------------------------------------------------------- translator self-check
def self_check(ctx, g, cases):
    lr, nr = api()
    bad = 0; n = 0
    for c in cases:
        if c['mode'] == 'parallel':
            continue
        tri = np.array(c['tri'], float); o = np.array(c['o'], float); d = np.array(c['d'], float)
        env = {}
        for i in range(3):
            for j in range(3): env['t_%d_%d' % (i, j)] = tri[i, j]
        for j in range(3): env['r_0_0_%d' % j] = o[j]; env['r_0_1_%d' % j] = d[j]
        nrm = nr.get_triangle_normal(tri); normal, dist = nr.intersect_w_surface(np.array([o, d]), tri)
        pairs = [('n_normal_%d' % k, nrm[1, k]) for k in range(3)] + [('n_hit_%d' % k, normal[0, k]) for k in range(3)] + [('n_dist', dist[0])]
        t32 = torch.tensor(tri, dtype=torch.float32); r32 = torch.tensor([[o, d]], dtype=torch.float32)
        tn = lr.get_triangle_normal(t32).numpy(); nn, dd = lr.intersect_w_surface(r32, t32)
        env32 = {k: float(np.float32(v)) for k, v in env.items()}
        pairs32 = [('t_normal_%d' % k, tn[1, k]) for k in range(3)] + [('t_hit_%d' % k, nn[0, 0, k].item()) for k in range(3)] + [('t_dist', dd[0, 0].item())]
        for name, val in pairs:
            n += 1
            if not emit.close(g.evalf(name, env), val, 1e-8, 1e-10): bad += 1; ctx.log('self-check mismatch', name, g.evalf(name, env), val)
        for name, val in pairs32:
            n += 1
            if not emit.close(g.evalf(name, env32), val, 2e-3, 2e-4 * c['scale']): bad += 1; ctx.log('self-check mismatch', name, g.evalf(name, env32), val)
        p = tri[0] + c['al'] * (tri[2] - tri[0]) + c['be'] * (tri[1] - tri[0])
        if c['where'] != 'edge':
            for j in range(3): env32['p_0_%d' % j] = float(np.float32(p[j]))
            fl = bool(lr.is_it_on_triangle(torch.tensor([p], dtype=torch.float32), t32)[0, 0])
            n += 1
            if bool(g.evalf('t_flag', env32)) != fl: bad += 1; ctx.log('self-check flag mismatch', c)
    ctx.traces += n
    ctx.obligation('translator-self-check(traced terms = real functions on %d values)' % n, bad == 0 and n > 0, '%d mismatches' % bad)


def run(ctx):
    ctx.rule = ('triangles with random orientation (quaternion) plus a structured family of normals whose components sum to 0 or '
                'below, scales 1e-2..1e2, rays aimed at barycentric targets inside / outside / on edges, from either side, '
                'reversed (plane behind) or parallel; non-trivial = non-parallel well-conditioned pair where all clauses were '
                'evaluated; distinct by (api, triangle, ray)')
    ctx.trusted += ['tracer/shim.py + tracer/recipes/c10.py (translator; validated each run by the numeric self-check)',
                    'torch/numpy kernels (mm, bmm, cross, sqrt): modelled as exact real arithmetic; float rounding not modelled',
                    'glue of intersect_w_triangle(_batch) (masking, repeat, split) is exercised by the direct oracles only',
                    'NumPy is_it_on_triangle (python control flow on values) is covered by theorem C10_same_side_iff + oracles, not traced',
                    'intersect_w_circle and planar_mesh.mirror are not covered; the parallel-ray clause is checked by oracles on exactly parallel rays only (nan_to_num is the identity on finite reals in the tracer)']
    ctx.gate()
    ctx.ensure_theories(['theories/C10/Props.vo'])
    ctx.theorems('OdakV.C10.Props', PROPS)
    # B1
    try:
        g = recipe.trace()
        ctx.programs = len(g.defs)
        ctx.obligation('translator:trace(%d definitions, %d nodes)' % (len(g.defs), g.total_size()), True)
    except Exception as e:
        g = None
        ctx.obligation('translator:trace', False, repr(e))
    ncase = 1500 if ctx.thorough else 240
    cases = gen_cases(ctx, ncase)
    if g is not None:
        ctx.compile_tie('GenC10', g.text(), [['C10_TieA', 'C10_TieB', 'C10_TieC', 'C10_TieD', 'C10_TieE', 'C10_TieF', 'C10_TieG0', 'C10_TieG1'], ['C10_TieProps', 'C10_TiePropsB']])
        self_check(ctx, g, cases[:120])
        ctx.sample({'traced_definition': 't_normal_0', 'coq': __import__('tracer.shim').shim.coq(g.by_name['t_normal_0'][1])[:400]})
    # direct oracles
    for c in cases:
        for which in ('torch', 'numpy'):
            inp = dict(c, api=which)
            bad, res = apply_oracle(ctx, 'case', inp)
            ctx.case('%s/%s/%s/%s' % (which, c['kind'].split('(')[0], c['where'], c['mode']), (which, str(c['tri']), str(c['o']), str(c['d'])), nontrivial=len(res) >= 5)
        if len(ctx.samples) < 4:
            ctx.sample({'tri': c['tri'], 'o': c['o'], 'd': c['d'], 'kind': c['kind'], 'mode': c['mode']})
    for k in range(0, min(len(cases), 400 if ctx.thorough else 60), 6):
        grp = cases[k:k + 6]
        inp = {'tris': [c['tri'] for c in grp[:3]], 'rays': [[c['o'], c['d']] for c in grp]}
        apply_oracle(ctx, 'batch', inp)
        ctx.case('batch/3x%d' % len(grp), ('b', k))
        apply_oracle(ctx, 'multiray', {'tri': grp[0]['tri'], 'rays': [[c['o'], c['d']] for c in grp]})
        ctx.case('multiray/%d' % len(grp), ('m', k))


def search(ctx):
    for c in gen_cases(ctx, 3000):
        for which in ('torch', 'numpy'):
            apply_oracle(ctx, 'case', dict(c, api=which))
        if len(ctx.viol) > 3:
            return


def replay(ctx, rec):
    if rec.get('no_failing_input_found'):
        print('replay names broken obligations only:', json.dumps(rec['broken_obligations'])[:3000]); return 1
    inp = dict(rec['input']); name = inp.pop('oracle')
    res = ORACLES[name](inp)
    for r in res:
        print(('FAIL ' if not r[1] else 'ok   ') + r[0], '' if r[1] else 'expected=%s observed=%s' % (r[2], r[3]))
    return 1 if [r for r in res if not r[1]] else 0
