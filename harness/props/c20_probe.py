"""Empirical validation of the C20 classification tables (tracer/recipes/c20.py), run on every check.

For a library function (dotted name) or a method name, call it on small fresh arrays / tensors / lists of
several dtypes with a battery of argument patterns and observe
    writes   : an argument (or the receiver) is not bit-identical after the call
    aliases  : the result (or an item of it) shares memory with an argument / the receiver, or IS one of them
A table entry that says `fresh` (result shares nothing, nothing written) must never be observed aliasing or
writing; an entry that says `alias` / `load` must never be observed writing.  Unknown library functions are
classified from the observation (tracer/mutir.py asks `classify_library`).  The battery is finite: this is a
test of the tables, not a proof; it is what replaces blind trust in them.
"""
import importlib, io, contextlib, warnings
import numpy as np
import torch

from harness.props import c20_snapshot as S


# ------------------------------------------------------------------ memory overlap
def _leaves(x, depth=0):
    if isinstance(x, (np.ndarray, torch.Tensor)):
        yield x
    elif isinstance(x, (list, tuple)) and depth < 3:
        for v in x:
            yield from _leaves(v, depth + 1)
    elif isinstance(x, dict) and depth < 3:
        for v in x.values():
            yield from _leaves(v, depth + 1)
    elif hasattr(x, '_fields') and depth < 3:
        for v in x:
            yield from _leaves(v, depth + 1)


def _np_of(t):
    if isinstance(t, np.ndarray):
        return t
    try:
        tt = t.detach()
        if tt.is_conj():
            return None
        if tt.is_complex():
            tt = torch.view_as_real(tt)
        return tt.numpy()
    except Exception:
        return None


def shares(a, b):
    """do two arrays / tensors share memory (views, same storage, numpy<->torch bridges)?"""
    if a is b:
        return True
    if isinstance(a, torch.Tensor) and isinstance(b, torch.Tensor):
        try:
            if a.numel() and b.numel() and a.untyped_storage().data_ptr() == b.untyped_storage().data_ptr():
                return True
        except Exception:
            pass
    x, y = _np_of(a), _np_of(b)
    if x is None or y is None or x.size == 0 or y.size == 0:
        return False
    try:
        return bool(np.shares_memory(x, y))
    except Exception:
        return bool(np.may_share_memory(x, y))


def containers(x, depth=0):
    if isinstance(x, (list, dict, set)) and depth < 3:
        yield x
        for v in (x.values() if isinstance(x, dict) else x):
            yield from containers(v, depth + 1)
    elif isinstance(x, tuple) and depth < 3:
        for v in x:
            yield from containers(v, depth + 1)


def observe(call, operands):
    """run call(); returns None if it raised, else (writes, aliases)"""
    before = S.snap(operands)
    sink = io.StringIO()
    try:
        with warnings.catch_warnings(), contextlib.redirect_stderr(sink), contextlib.redirect_stdout(sink):
            warnings.simplefilter('ignore')
            r = call()
    except BaseException:
        return None
    writes = S.diff(before, S.snap(operands)) is not None
    aliases = False
    ops = list(_leaves(operands))
    for o in _leaves(r):
        if any(shares(o, a) for a in ops):
            aliases = True
            break
    if not aliases:
        conts = [id(c) for c in containers(operands)]
        if any(id(c) in conts for c in containers(r)) or (isinstance(r, (list, dict, set)) and id(r) in conts):
            aliases = True
    return writes, aliases


# ------------------------------------------------------------------ sample operands
def _np_samples():
    base = np.arange(12, dtype=np.float64).reshape(3, 4) / 7. + 0.25
    out = []
    for dt in (np.float64, np.float32, np.int64, np.int32, np.uint8, np.uint16, np.complex128, np.complex64, np.bool_):
        out.append(lambda dt=dt: (base * 3).astype(dt))
    out.append(lambda: np.arange(4, dtype=np.float64) + 1.)          # 1-d
    out.append(lambda: np.eye(3) * 2. + 1.)                          # square
    return out


def _t_samples():
    base = torch.arange(12, dtype=torch.float64).reshape(3, 4) / 7. + 0.25
    out = []
    for dt in (torch.float32, torch.float64, torch.int64, torch.int32, torch.uint8, torch.complex64, torch.bool):
        out.append(lambda dt=dt: (base * 3).to(dt))
    out.append(lambda: torch.arange(4, dtype=torch.float32) + 1.)
    out.append(lambda: torch.eye(3) * 2. + 1.)
    out.append(lambda: (base * 3).to(torch.float32).reshape(1, 1, 3, 4))
    return out


def _mask(x):
    try:
        return abs(x) > 1
    except Exception:
        return x != 0


_NS = {'np': np, 'numpy': np, 'torch': torch, 'True': True, 'False': False, 'None': None}


def _kwargs(kwspec, x):
    """keyword arguments of a call shape: literal values as written in the source, else a value by name"""
    out = [{}]
    for name, lit in kwspec:
        vals = None
        if lit is not None:
            try:
                vals = [eval(lit, {'__builtins__': {}}, dict(_NS, math=__import__('math')))]
            except Exception:
                vals = None
        if vals is None:
            vals = {'axis': [0], 'dim': [0], 'dims': [(0,)], 'axes': [(1, 0)], 'dtype': [x.dtype], 'copy': [False, True], 'keepdim': [True], 'keepdims': [True],
                    'inplace': [True, False], 'out': [x.copy() if isinstance(x, np.ndarray) else x.clone()], 'indexing': ['ij'], 'shifts': [1],
                    'device': ['cpu'], 'requires_grad': [False], 'decimals': [0], 'min': [0.5], 'max': [2.], 'n': [0, 1], 'k': [0, 1], 'size': [(6, 8)],
                    'scale_factor': [2], 'mode': [None], 'padding': ['same'], 'order': ['C'], 'shape': [(4, 3)], 'newshape': [(4, 3)],
                    'a_min': [0.5], 'a_max': [2.], 'nan': [0.], 'num': [4], 'repeats': [2], 'reps': [2], 'shift': [1], 'sign': [1]}.get(name)
            if vals is None:
                return None                                   # a keyword we cannot supply: this shape cannot be probed
        vals = [v for v in vals if not (name == 'mode' and v is None)] or [None]
        if name == 'mode' and vals == [None]:
            return None
        out = [dict(d, **{name: v}) for d in out for v in vals]
    return out


_SECOND = lambda x, y: [y, 1, 0, 2., (4, 3), -1, [0, 1], x.dtype, (1, 0), (0, 1), [2, 2], 12, (2, 6)]
_THIRD = lambda x, y: [y, 0, 1, 0., 1., (0, 1)]


def _patterns(mk, npos, kwspec):
    """argument patterns [(args, kwargs)] with exactly npos positional arguments and the given keywords,
    built from fresh operands (mk() makes one)"""
    x, y = mk(), mk()
    kws = _kwargs(kwspec, x)
    if kws is None:
        return []
    if npos == 0:
        pos = [()]
    elif npos == 1:
        pos = [(x,), ([x, y],), ((x, y),), ((4, 3),), (5,), ([1., 2., 3.],), (x.tolist(),)]
    elif npos == 2:
        pos = [(x, v) for v in _SECOND(x, y)] + [(0., 1.), ((3, 4), 1.)]
    elif npos == 3:
        pos = [(x, v, w) for v in _SECOND(x, y)[:6] for w in _THIRD(x, y)] + [(_mask(x), x, y), (0., 1., 5), (x, y, y)]
    else:
        pos = [(x, y) + tuple([0, 1, 1, 0, 1][:npos - 2]), (x, 1) + tuple([0, 1, 1, 0, 1][:npos - 2]), (x, y, y) + tuple([0, 1, 1][:npos - 3])]
    out = []
    for a in pos:
        for k in kws:
            out.append((a, k))
    return out


def _resolve(dotted):
    parts = dotted.split('.')
    for k in range(len(parts), 0, -1):
        try:
            obj = importlib.import_module('.'.join(parts[:k]))
        except Exception:
            continue
        try:
            for p in parts[k:]:
                obj = getattr(obj, p)
        except AttributeError:
            return None
        return obj
    return None


_CACHE = {}


def _run(calls_iter):
    calls, writes, aliases, ex = 0, False, False, ''
    for label, call, operands in calls_iter:
        o = observe(call, operands)
        if o is None:
            continue
        calls += 1
        if (o[0] and not writes) or (o[1] and not aliases):
            ex = label()
        writes, aliases = writes or o[0], aliases or o[1]
    return {'calls': calls, 'writes': writes, 'aliases': aliases, 'example': ex} if calls else None


def probe_library(dotted, npos=1, kwspec=()):
    """observation of a library function under one call shape (number of positional arguments, keywords):
    {'calls': n, 'writes': bool, 'aliases': bool, 'example': str}, or None if no sample call succeeded"""
    key = (dotted, npos, tuple(kwspec))
    if key in _CACHE:
        return _CACHE[key]
    f = _resolve(dotted)
    res = None
    if callable(f):
        root = dotted.split('.')[0]
        kinds = [_np_samples()] if root == 'numpy' else [_t_samples()] if root == 'torch' else [_np_samples(), _t_samples()]

        def gen():
            for samples in kinds:
                for mk in samples:
                    # fresh operands for every single call, so that a writing call cannot damage the next one
                    n = len(_patterns(mk, npos, kwspec))
                    for i in range(n):
                        args, kwargs = _patterns(mk, npos, kwspec)[i]
                        yield (lambda a=args, k=kwargs: '%s(%s)' % (dotted, ', '.join([_show(v) for v in a] + ['%s=%s' % (q, _show(w)) for q, w in k.items()])),
                               lambda a=args, k=kwargs: f(*a, **k), (args, kwargs))
        res = _run(gen())
        if res is None and kwspec:
            # keywords we could not supply: retry with the ones that matter for sharing memory only
            keep = tuple(k for k in kwspec if k[0] in ('copy', 'out', 'inplace', 'dim', 'axis', 'dtype'))
            if keep != tuple(kwspec):
                res = probe_library(dotted, npos, keep)
                if res is None and any(k[0] in ('dim', 'axis', 'dtype') for k in keep):
                    res = probe_library(dotted, npos, tuple(k for k in keep if k[0] in ('copy', 'out', 'inplace')))
    _CACHE[key] = res
    return res


def _show(a):
    if isinstance(a, np.ndarray):
        return 'ndarray[%s%s]' % (a.dtype, list(a.shape))
    if isinstance(a, torch.Tensor):
        return 'tensor[%s%s]' % (str(a.dtype).replace('torch.', ''), list(a.shape))
    if isinstance(a, (list, tuple)):
        return type(a).__name__ + '(' + ', '.join(_show(v) for v in a) + ')'
    return repr(a)


_MCACHE = {}


def _has(o, name):
    try:
        return hasattr(o, name)
    except Exception:
        return True


def probe_method(name, npos=0, kwspec=(), containers_too=False):
    """the same for a method name, on ndarray / tensor receivers (and list / dict receivers on request)"""
    key = (name, npos, tuple(kwspec), containers_too)
    if key in _MCACHE:
        return _MCACHE[key]
    recvs = _np_samples() + _t_samples()
    if containers_too:
        recvs = recvs + [lambda: [np.ones(2), np.zeros(2)], lambda: {'a': np.ones(2), 'b': [1, 2]}, lambda: [3, 1, 2]]

    def gen():
        for mk in recvs:
            r0 = mk()
            if not _has(r0, name):
                continue
            if isinstance(r0, dict):
                pats = [((), {}), (('a',), {}), (('zz', None), {}), (({'c': 1},), {})]
                pats = [p for p in pats if len(p[0]) == npos] if not kwspec else []
            elif isinstance(r0, list):
                pats = [((), {}), ((0,), {}), ((1,), {}), ((r0[0],), {}), (([5],), {}), ((0, 7), {})]
                pats = [p for p in pats if len(p[0]) == npos] if not kwspec else []
            else:
                # positional patterns for a method are the library patterns without the leading operand
                pats = [(a[1:], k) for a, k in _patterns(mk, npos + 1, kwspec) if len(a) == npos + 1 and a[0] is not None and isinstance(a[0], type(r0))]
            for i in range(len(pats)):
                r = mk()
                if isinstance(r0, (dict, list)):
                    args, kwargs = pats[i]
                else:
                    fresh = [(a[1:], k) for a, k in _patterns(mk, npos + 1, kwspec) if len(a) == npos + 1 and isinstance(a[0], type(r0))]
                    args, kwargs = fresh[i]
                yield (lambda r=r, a=args, k=kwargs: '%s.%s(%s)' % (_show(r), name, ', '.join([_show(v) for v in a] + ['%s=%s' % (q, _show(w)) for q, w in k.items()])),
                       lambda r=r, a=args, k=kwargs: getattr(r, name)(*a, **k), (r, args, kwargs))
    res = _run(gen())
    _MCACHE[key] = res
    return res


def classify_library(dotted, npos=1, kwspec=()):
    """classification of a library function that is in no table, under the call shape used in the source:
    'write' | 'alias' | 'fresh' | None (cannot be probed)"""
    if dotted.rsplit('.', 1)[-1].endswith('_') and not dotted.rsplit('.', 1)[-1].startswith('_'):
        return 'write'                                            # torch in-place naming convention
    if any(k == 'out' for k, _ in kwspec):
        return 'write'
    p = probe_library(dotted, npos, kwspec)
    if p is None:
        return None
    return 'write' if p['writes'] else 'alias' if p['aliases'] else 'fresh'
