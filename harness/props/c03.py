"""C03 — propagation is linear and shift-equivariant (superposition principle).

Proof: coq/theories/Wave/Fields.v + coq/theories/C03/Props.v: custom / centered / conv_centered / fraun are
linear in the field for every kernel and aperture, map 0 to 0, and commute with whole-pixel circular
translations (from the modulation law of the DFT).
Tie (B1, every run): every propagation function traced at the operator level is one of these forms and the
kernel is requested without reference to the field (coq/tie/Wave_TieP.v: traced_linear, traced_zero,
traced_shift, traced_numpy_linear, traced_fraunhofer_linear).  Kernel builders take no field argument at all
(structural).  Direct oracles check superposition and translation on every method of both APIs.
"""
import json, math
import numpy as np
import torch
from harness import wave_common as W

PROPS = ['C03_linear', 'C03_zero_to_zero', 'C03_linear_numpy_fresnel', 'C03_linear_numpy_impulse_response',
         'C03_linear_fraunhofer', 'C03_shift_equivariant', 'C03_upsample_linear', 'C03_upsample_zero', 'C03_shift_equivariant_numpy_fresnel', 'C03_zero_to_zero_other_forms']
T_METHODS = ['Angular Spectrum', 'Bandlimited Angular Spectrum', 'Transfer Function Fresnel', 'Impulse Response Fresnel',
             'Seperable Impulse Response Fresnel', 'Incoherent Angular Spectrum', 'custom', 'Fraunhofer']
N_METHODS = ['Angular Spectrum', 'Bandlimited Angular Spectrum', 'Transfer Function Fresnel', 'Impulse Response Fresnel', 'Fraunhofer', 'Fraunhofer Inverse',
             'Rayleigh-Sommerfeld']
TOL = {'torch': 2e-4, 'numpy': 1e-9}


def make_P(inp):
    api, m = inp['api'], inp['method']
    lam, dx, z = inp['lam'], inp['dx'], inp['z']
    if api == 'torch':
        kernel = None
        ap = 1.
        rng = np.random.default_rng(inp['fseed'] + 7)
        h, w = inp['shape'][-2:]
        if m == 'custom':
            kernel = torch.tensor(rng.standard_normal((h, w)) + 1j * rng.standard_normal((h, w)), dtype=torch.complex64)
        if inp.get('aperture'):
            ap = torch.tensor(rng.uniform(0, 1, (h, w)), dtype=torch.float32)
        return lambda x: W.t_prop(x, m, z, dx, lam, aperture=ap, kernel=kernel, samples=(2, 2, 1, 1), scale=inp.get('scale', 1))
    if api == 'propagator':
        from odak.learn.wave import propagator
        h, w = inp['shape'][-2:]
        apt = None
        if inp.get('aperture'):
            yy, xx = np.meshgrid(np.linspace(-1, 1, h), np.linspace(-1, 1, w), indexing='ij')
            apt = torch.tensor(np.exp(-(xx ** 2 + yy ** 2) / 0.6), dtype=torch.float32)          # apodised (non-binary) aperture
        p = propagator(resolution=[h, w], wavelengths=[lam, lam * 1.2], pixel_pitch=dx, number_of_depth_layers=2, volume_depth=abs(z) + 1e-9, aperture=apt,
                       image_location_offset=z, propagation_type=m, propagator_type=inp.get('ptype', 'forward'), back_and_forth_distance=2 * abs(z) + 1.0,
                       aperture_samples=[2, 2, 1, 1])
        return lambda x: p(x if isinstance(x, torch.Tensor) else torch.tensor(x, dtype=torch.complex64), inp.get('channel', 1), inp.get('depth', 1))
    return lambda x: W.n_prop(x, m, z, dx, lam)


def oracle_linear(inp):
    rng = np.random.default_rng(inp['fseed'])
    shape = tuple(inp['shape'])
    u, v = W.cfield(rng, shape), W.cfield(rng, shape)
    ut, vt = u, v
    if inp.get('dtype') and inp['api'] in ('torch', 'numpy'):
        # u and v handed over in another documented form (real, integer, double precision); the combination a u + b v stays complex
        ut, vt = W.typed(u, inp['api'], inp['dtype']), W.typed(v, inp['api'], inp['dtype'])
        u, v = W.to_np(ut).astype(complex), W.to_np(vt).astype(complex)
    a, b = complex(*rng.standard_normal(2)), complex(*rng.standard_normal(2))
    if inp.get('special') == 'a0': a = 0j
    P = make_P(inp)
    tol = TOL['numpy' if (W.tol_key(inp) == 'numpy' and inp['method'] != 'Rayleigh-Sommerfeld') else 'torch']   # numpy Rayleigh-Sommerfeld accumulates in complex64
    pu, pv = W.to_np(P(ut)), W.to_np(P(vt))
    comb = W.to_np(P(a * u + b * v))
    ref = a * pu + b * pv
    scale = max(1e-30, np.abs(pu).max(), np.abs(pv).max())
    out = [('finite', bool(np.isfinite(comb).all()), True, False)]
    e = float(np.abs(comb - ref).max() / scale)
    out.append(('superposition', e <= tol * (1 + abs(a) + abs(b)), '<= %g' % tol, e))
    # homogeneity far from unit amplitude (a weak field is still a field: nothing may be thresholded away, nothing may saturate)
    for sc in (1e-9, 3e6):
        ps = W.to_np(P(sc * u))
        es = float(np.abs(ps - sc * pu).max()) / max(1e-300, sc * float(np.abs(pu).max()))          # python floats: float32 / 1e-300 would be 0 / 0
        out.append(('homogeneity_extreme_scale', bool(np.isfinite(ps).all()) and es <= 4 * tol, '<= %g at scale %g' % (4 * tol, sc), es))
    z0 = W.to_np(P(np.zeros(shape, dtype=complex)))
    out.append(('zero_to_zero', float(np.abs(z0).max()) == 0.0, 0.0, float(np.abs(z0).max())))
    return out


def oracle_shift(inp):
    """circular translation by whole pixels commutes with the convolution-type methods (no Fourier padding, scale 1)"""
    rng = np.random.default_rng(inp['fseed'])
    shape = tuple(inp['shape'])
    u = W.cfield(rng, shape)
    P = make_P(inp)
    s, t = inp['shift']
    tol = TOL[W.tol_key(inp)]
    a = W.to_np(P(np.roll(u, (s, t), axis=(-2, -1))))
    b = np.roll(W.to_np(P(u)), (s, t), axis=(-2, -1))
    e = float(np.abs(a - b).max() / max(1e-30, np.abs(b).max()))
    return [('shift_equivariance', e <= 5 * tol, '<= %g' % (5 * tol), e)]


ORACLES = {'linear': oracle_linear, 'shift': oracle_shift}


def apply_oracle(ctx, name, inp):
    try:
        res = ORACLES[name](inp)
    except Exception as e:
        res = [('no_exception', False, 'a result', repr(e))]
    bad = 0
    fn = {'torch': 'odak.learn.wave.propagate_beam', 'numpy': 'odak.wave.propagate_beam', 'propagator': 'odak.learn.wave.propagator.__call__'}[inp['api']]
    for clause, ok, exp, obs in res:
        if not ok:
            bad += 1
            ctx.violation('%s[%s]' % (fn, inp['method']), clause, dict(inp, oracle=name), exp, obs)
    return bad


def gen_inputs(ctx, n):
    rng = ctx.rng
    out = []
    shapes = [(4, 4), (5, 5), (5, 8), (7, 6), (8, 8), (9, 12), (3, 3), (12, 7)]
    for i in range(n):
        shape = list(shapes[i % len(shapes)])
        lam = rng.uniform(0.4, 0.7); dx = lam * rng.uniform(0.9, 5.0); z = rng.choice([-1, 1]) * rng.uniform(2.0, 30.0)   # 0.9 / 1.2 >= 1/sqrt 2: valid for the propagator's second wavelength too
        for m in T_METHODS:
            shp = ([2] + shape) if (i % 3 == 0 and m not in ('Fraunhofer',)) else shape
            base = {'api': 'torch', 'method': m, 'shape': shp, 'lam': lam, 'dx': dx, 'z': z, 'fseed': rng.randrange(10 ** 6), 'aperture': i % 2 == 1 and m != 'Fraunhofer', 'dtype': W.DTYPES['torch'][(i + len(m)) % 5]}
            out.append(('linear', dict(base, special='a0' if i % 5 == 4 else None)))
            if m in ('Impulse Response Fresnel', 'Seperable Impulse Response Fresnel') and max(shape) <= 8:
                out.append(('linear', dict(base, shape=shape, scale=2 + (i % 2), aperture=False, fseed=rng.randrange(10 ** 6))))
            if m != 'Fraunhofer':
                out.append(('shift', dict(base, shape=shape, shift=[rng.randint(-shape[0], shape[0]), rng.randint(-shape[1], shape[1])])))
        for m in N_METHODS:
            if m == 'Rayleigh-Sommerfeld' and (i % 4 or shape[0] * shape[1] > 40): continue
            shp = shape if m != 'Rayleigh-Sommerfeld' else [shape[0], shape[0]]
            base = {'api': 'numpy', 'method': m, 'shape': shp, 'lam': lam, 'dx': dx, 'z': z, 'fseed': rng.randrange(10 ** 6), 'dtype': W.DTYPES['numpy'][(i + len(m)) % 5]}
            out.append(('linear', base))
            if m in ('Angular Spectrum', 'Bandlimited Angular Spectrum', 'Transfer Function Fresnel', 'Impulse Response Fresnel'):
                out.append(('shift', dict(base, shift=[rng.randint(-3, 3), rng.randint(-3, 3)])))
        if i % 2 == 0 and min(shape) >= 5:
            for m, pt in (('Bandlimited Angular Spectrum', 'back and forth'), ('Angular Spectrum', 'forward'), ('Transfer Function Fresnel', 'back and forth')):
                base = {'api': 'propagator', 'method': m, 'ptype': pt, 'shape': shape, 'lam': lam, 'dx': dx, 'z': abs(z), 'fseed': rng.randrange(10 ** 6), 'channel': (i // 2) % 2, 'depth': (i // 4) % 2, 'aperture': m != 'Angular Spectrum'}
                out.append(('linear', base))
    return out


def run(ctx):
    ctx.rule = ('pairs of random complex fields with random complex coefficients (incl. a = 0), random whole-pixel shifts incl. '
                'wrap-around and zero, every PyTorch method (8) and NumPy method (6), the propagator forward model, with and without '
                'grey apertures, odd / non-square / batched grids; distinct by full input; all cases non-trivial')
    ctx.trusted += ['tracer (see C01)', 'float rounding not modelled: superposition within %g (float32) / %g (float64)' % (TOL['torch'], TOL['numpy']),
                    'scale > 1 (upsampling) paths and Fourier-domain padding are exercised by oracles only / excluded by the statement']
    ctx.gate()
    ctx.ensure_theories(['theories/C03/Props.vo'], extra_dirs=['C09'])
    ctx.theorems('OdakV.C03.Props', PROPS)
    W.trace_and_tie(ctx)
    try:
        from tracer.recipes import wave as recipe
        gu = recipe.upsampled()
        ctx.programs += len(gu.defs)
        ctx.obligation('translator:trace-upsampling(scale=2 path of both impulse-response methods, %d definitions)' % len(gu.defs), True)
        ctx.compile_tie('GenWaveUp', gu.text(), [['Wave_TieUp']])
    except Exception as e:
        ctx.obligation('translator:trace-upsampling', False, repr(e))
    W.dft_instance(ctx)
    W.fft_contracts(ctx)
    for name, inp in gen_inputs(ctx, 40 if ctx.thorough else 8):
        apply_oracle(ctx, name, inp)
        ctx.case('%s/%s/%s' % (name, inp['api'], inp['method']), json.dumps(inp, sort_keys=True))
        if len(ctx.samples) < 5 and name == 'shift': ctx.sample(inp)


def search(ctx):
    for name, inp in gen_inputs(ctx, 40):
        apply_oracle(ctx, name, inp)
        if len(ctx.viol) > 3: return


def replay(ctx, rec):
    if rec.get('no_failing_input_found'):
        print('replay names broken obligations only:', json.dumps(rec['broken_obligations'])[:3000]); return 1
    inp = dict(rec['input']); name = inp.pop('oracle')
    res = ORACLES[name](inp)
    for r in res:
        print(('FAIL ' if not r[1] else 'ok   ') + r[0], '' if r[1] else 'expected=%s observed=%s' % (r[2], r[3]))
    return 1 if [r for r in res if not r[1]] else 0
