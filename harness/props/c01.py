"""C01 — free-space propagation conserves optical energy and never creates it.

Proof: coq/theories/Wave/{Fields,Kernels,Steps}.v + coq/theories/C01/Props.v (all grids n x m, all fields,
kernels with unit-modulus samples; band limit / aperture with |K A| <= 1; idempotent masks).
Tie (B1, every run): the kernel builders of both APIs are traced per pixel with symbolic dx, wavelength,
distance (unit modulus, additivity, published formula proved in coq/tie/Wave_TieK_*.v) and every propagation
function is traced at the operator level and proved to be the documented forward model
(coq/tie/Wave_TieP.v, incl. traced_energy_conserved / traced_energy_never_created).
The FFT/shift contracts are validated numerically against torch.fft / numpy.fft; direct oracles measure
energies on the implementation.
"""
import json, math
import numpy as np
import torch
from harness import wave_common as W

PROPS = ['C01_energy_conserved', 'C01_energy_conserved_numpy_fresnel', 'C01_energy_never_created',
         'C01_energy_never_created_numpy_fresnel', 'C01_second_pass_energy', 'C01_mask_idempotent',
         'C01_phasor_unit', 'C01_masked_phasor_le', 'C01_mask_is_idempotent', 'C01_all_grid_frequencies_propagate',
         'C01_contracts_satisfiable']
TOL = {'torch': 1e-5, 'numpy': 1e-12}     # observed on 150 thorough configurations: 4.5e-7 (float32), 8e-16 (float64)


def configs(ctx, n):
    """(lam, dx, z): all satisfy dx >= lam/sqrt2 (the statement's guard); physical and normalised units"""
    rng = ctx.rng
    out = []
    zs = [0.0, 1e-6, -1e-6, 1e-3, -1e-3, 5e-3, -0.02, 0.3, -1.0, 10.0]
    for i in range(n):
        lam = rng.choice([405e-9, 515e-9, 639e-9, rng.uniform(380e-9, 780e-9)])
        r = rng.random()
        dx = lam / math.sqrt(2) * 1.0005 if r < 0.25 else (lam * rng.uniform(0.72, 3) if r < 0.5 else rng.choice([3.74e-6, 8e-6, rng.uniform(1e-6, 2e-5)]))
        out.append((lam, dx, zs[i % len(zs)] if i % 3 else rng.uniform(-0.05, 0.05)))
    return out


def binary_aperture(rng, shape):
    h, w = shape[-2:]
    yy, xx = np.meshgrid(np.arange(h) - h / 2, np.arange(w) - w / 2, indexing='ij')
    kind = rng.choice(['disc', 'random', 'half', 'all', 'none'])
    if kind == 'disc': return ((xx ** 2 + yy ** 2) <= (min(h, w) / 3.0) ** 2) * 1.0
    if kind == 'random': return np.array([[rng.random() < 0.6 for _ in range(w)] for _ in range(h)]) * 1.0
    if kind == 'half': return (xx < 0) * 1.0
    if kind == 'all': return np.ones((h, w))
    return np.zeros((h, w))


# ---------------------------------------------------------------- oracles
def oracle_conserve(inp):
    """AS / TF, no aperture, no crop: E_out == E_in"""
    rng = np.random.default_rng(inp['fseed'])
    u = W.typed(W.cfield(rng, tuple(inp['shape']), inp.get('kind', 'random')), inp['api'], inp.get('dtype'))
    out = []
    e0 = W.energy(u)
    if inp['api'] == 'torch':
        r = W.t_prop(u, inp['method'], inp['z'], inp['dx'], inp['lam'])
    else:
        r = W.n_prop(u, inp['method'], inp['z'], inp['dx'], inp['lam'])
    rn = W.to_np(r)
    out.append(('finite', bool(np.isfinite(rn).all()), True, False))
    out.append(('shape_kept', list(rn.shape) == list(inp['shape']), inp['shape'], list(rn.shape)))
    e1 = W.energy(r)
    ok = abs(e1 - e0) <= TOL[W.tol_key(inp)] * max(e0, 1e-30) if e0 > 0 else e1 <= 1e-20
    out.append(('energy_conserved', ok, e0, e1))
    if inp['api'] == 'torch' and min(inp['shape'][-2:]) >= 5:
        # 'without cropping' also covers padding without cropping: zero_padding = [True, False, False] propagates on the doubled grid and returns it
        rp = W.t_prop(u, inp['method'], inp['z'], inp['dx'], inp['lam'], zero_padding=(True, False, False))
        want = list(inp['shape'][:-2]) + [2 * inp['shape'][-2], 2 * inp['shape'][-1]]
        out.append(('padded_uncropped_shape', list(rp.shape) == want, want, list(rp.shape)))
        ep = W.energy(rp)
        out.append(('energy_conserved_padded_uncropped', abs(ep - e0) <= TOL['torch'] * max(e0, 1e-30) if e0 > 0 else ep <= 1e-20, e0, ep))
    if inp['api'] == 'torch' and len(inp['shape']) == 2:
        # the same kernel object handed to consecutive calls (first through a binary aperture, then without): the second call still
        # conserves energy and the kernel the caller holds is still unit-modulus (observation point: modulus of get_propagation_kernel)
        import random
        L = W.lw(); h, w = inp['shape']
        K = L.get_propagation_kernel(nu=h, nv=w, dx=inp['dx'], wavelength=inp['lam'], distance=inp['z'], propagation_type=inp['method'])
        out.append(('kernel_unit_modulus', float((K.abs() - 1).abs().max()) <= 1e-5, 1.0, float(K.abs().max())))
        ap = torch.tensor(binary_aperture(random.Random(inp['fseed']), inp['shape']), dtype=torch.float32)
        W.t_prop(u, 'custom', inp['z'], inp['dx'], inp['lam'], aperture=ap, kernel=K)
        r2 = W.t_prop(u, 'custom', inp['z'], inp['dx'], inp['lam'], kernel=K)
        e2 = W.energy(r2)
        out.append(('energy_conserved_with_reused_kernel', abs(e2 - e0) <= TOL['torch'] * max(e0, 1e-30) if e0 > 0 else e2 <= 1e-20, e0, e2))
        out.append(('kernel_unit_modulus_after_use', float((K.abs() - 1).abs().max()) <= 1e-5, 1.0, [float(K.abs().min()), float(K.abs().max())]))
    return out


def oracle_never_created(inp):
    """band-limited method and binary Fourier-plane apertures: E_out <= E_in; second pass removes nothing more"""
    rng = np.random.default_rng(inp['fseed'])
    u = W.typed(W.cfield(rng, tuple(inp['shape']), inp.get('kind', 'random')), inp['api'], inp.get('dtype'))
    e0 = W.energy(u)
    out = []
    tol = TOL[W.tol_key(inp)]
    if inp['api'] == 'torch':
        ap = 1.
        if inp.get('aperture_seed') is not None:
            import random
            ap = torch.tensor(binary_aperture(random.Random(inp['aperture_seed']), inp['shape']), dtype=torch.float32)
        r1 = W.t_prop(u, inp['method'], inp['z'], inp['dx'], inp['lam'], aperture=ap)
        r2 = W.t_prop(r1, inp['method'], inp['z'], inp['dx'], inp['lam'], aperture=ap)
        if inp.get('aperture_seed') is not None:
            # the bare mask (kernel = None): applying it twice equals applying it once
            m1 = W.t_prop(u, 'custom', 0., inp['dx'], inp['lam'], aperture=ap, kernel=None)
            m2 = W.t_prop(m1, 'custom', 0., inp['dx'], inp['lam'], aperture=ap, kernel=None)
            d = float((m2 - m1).abs().max()); sc = max(1e-30, float(m1.abs().max()))
            out.append(('binary_aperture_idempotent', d <= 1e-5 * max(sc, float(np.abs(u).max())), 0.0, d))
    else:
        r1 = W.n_prop(u, inp['method'], inp['z'], inp['dx'], inp['lam'])
        r2 = W.n_prop(r1, inp['method'], inp['z'], inp['dx'], inp['lam'])
    e1, e2 = W.energy(r1), W.energy(r2)
    out.append(('finite', bool(np.isfinite(W.to_np(r1)).all()), True, False))
    out.append(('energy_never_created', e1 <= e0 * (1 + tol) + 1e-30, '<= %r' % e0, e1))
    out.append(('second_pass_removes_nothing', abs(e2 - e1) <= 2 * tol * max(e0, 1e-30), e1, e2))
    return out


ORACLES = {'conserve': oracle_conserve, 'never_created': oracle_never_created}
FN = {'torch': 'odak.learn.wave.propagate_beam', 'numpy': 'odak.wave.propagate_beam'}


def apply_oracle(ctx, name, inp):
    try:
        res = ORACLES[name](inp)
    except Exception as e:
        res = [('no_exception', False, 'a result', repr(e))]
    bad = 0
    for clause, ok, exp, obs in res:
        if not ok:
            bad += 1
            ctx.violation('%s[%s]' % (FN[inp['api']], inp['method']), clause, dict(inp, oracle=name), exp, obs)
    return bad


def gen_inputs(ctx, ncfg):
    cfgs = configs(ctx, ncfg)
    sz = W.sizes(ctx)
    rng = ctx.rng
    out = []
    i = 0
    for (lam, dx, z) in cfgs:
        shape = list(sz[i % len(sz)]); i += 1
        kind = ['random', 'random', 'delta', 'const', 'random', 'zero'][i % 6]
        for api in ('torch', 'numpy'):
            for method in ('Angular Spectrum', 'Transfer Function Fresnel'):
                shp = list(shape)
                if api == 'torch' and i % 5 == 0: shp = [2, 3] + shp                     # batched 4-D
                elif api == 'torch' and i % 5 == 1: shp = [3] + shp                       # batched 3-D
                if api == 'numpy' and min(shp) < 2: continue                               # numpy grids need >= 2 samples (division by n-1 is fine, but 1xk fields are not supported by np.meshgrid-based code paths identically)
                out.append(('conserve', {'api': api, 'method': method, 'shape': shp, 'lam': lam, 'dx': dx, 'z': z, 'kind': kind, 'fseed': rng.randrange(10 ** 6), 'dtype': W.DTYPES[api][i % 5]}))
            shp = list(shape)
            if api == 'numpy' and min(shp) < 2: continue
            out.append(('never_created', {'api': api, 'method': 'Bandlimited Angular Spectrum', 'shape': shp, 'lam': lam, 'dx': dx, 'z': z * (1000 if i % 2 else 1), 'kind': kind, 'fseed': rng.randrange(10 ** 6), 'dtype': W.DTYPES[api][(i + 2) % 5]}))
            if api == 'torch':
                m = ['Angular Spectrum', 'Bandlimited Angular Spectrum', 'Transfer Function Fresnel'][i % 3]
                out.append(('never_created', {'api': 'torch', 'method': m, 'shape': shp, 'lam': lam, 'dx': dx, 'z': z, 'kind': kind, 'fseed': rng.randrange(10 ** 6), 'aperture_seed': rng.randrange(10 ** 6)}))
    return out


def run(ctx):
    ctx.rule = ('fields (random complex, delta, constant, zero) on grids incl. 1xk, odd, non-square, batched 3-D/4-D; '
                '(wavelength, pitch, distance) drawn inside the guard dx >= lambda/sqrt2 incl. its edge, z of both signs, 0, near, far; '
                'non-trivial = non-zero field whose energies were compared; distinct by (api, method, shape, lam, dx, z, field seed)')
    ctx.trusted += ['tracer (tracer/shim.py, tracer/opshim.py, tracer/recipes/wave.py): shape-generic code traced at a 3x4 (kernels) / symbolic (pipelines) instance; validated by the numeric self-check',
                    'float32/float64 rounding is not modelled: energies compared within %g (torch) / %g (numpy)' % (TOL['torch'], TOL['numpy']),
                    'evanescent configurations (dx < lambda/sqrt2) are outside the statement and not generated']
    ctx.gate()
    ctx.ensure_theories(['theories/C01/Props.vo'])
    ctx.theorems('OdakV.C01.Props', PROPS)
    g = W.trace_and_tie(ctx)
    if g is not None:
        W.kernel_self_check(ctx, g)
    W.dft_instance(ctx)
    W.fft_contracts(ctx)
    for name, inp in gen_inputs(ctx, 120 if ctx.thorough else 26):
        apply_oracle(ctx, name, inp)
        ctx.case('%s/%s/%s/%dd' % (name, inp['api'], inp['method'], len(inp['shape'])), (name, json.dumps(inp, sort_keys=True)), nontrivial=inp['kind'] != 'zero')
        if len(ctx.samples) < 5 and inp['shape'][-1] % 2 == 1:
            ctx.sample(inp)


def search(ctx):
    for name, inp in gen_inputs(ctx, 200):
        apply_oracle(ctx, name, inp)
        if len(ctx.viol) > 3: return


def replay(ctx, rec):
    if rec.get('no_failing_input_found'):
        print('replay names broken obligations only:', json.dumps(rec['broken_obligations'])[:3000]); return 1
    inp = dict(rec['input']); name = inp.pop('oracle')
    res = ORACLES[name](inp)
    for r in res:
        print(('FAIL ' if not r[1] else 'ok   ') + r[0], '' if r[1] else 'expected=%s observed=%s' % (r[2], r[3]))
    return 1 if [r for r in res if not r[1]] else 0
