"""C13 — rotations are rigid and consistent across modes, APIs and inverses.

Proof: coq/theories/C13 (reference model over R: axis matrices from any (c, s) on the unit circle, the five
mode products, rotate_point(s) with origin/offset, NumPy's zero-angle shortcut, reversed-mode inverse,
tilt_towards, degree periodicity) + coq/tie/C13_Tie*.v.
Tie to /repo, B1 (translator): rotmatx/y/z, rotate_point, rotate_points, get_rotation_matrix, tilt_towards (both
APIs) and bring_plane_to_origin are cut from the current sources, executed symbolically (tracer/) and emitted as
Coq definitions; Coq proves them equal to the model for all reals and restates the property on the traced
definitions (C13_TieProps.v).  The translator is validated each run against the real functions (self-check).
Tie, B2 (correspondence): the Q mirror of the model is executed inside Coq on the generated cases and compared with
what the implementation returned; its cos/sin table is produced by mpmath and every entry is proved by Coq Interval
(on the same run) to be within 1e-20 of the true value.
Direct oracles state every clause on the real implementation and give replayable failing inputs.
"""
import json, math
import numpy as np
import torch
import mpmath
from harness.common import qlit
from tracer.recipes import c13 as recipe
from tracer import emit

mpmath.mp.prec = 240
MODES = ['XYZ', 'XZY', 'YXZ', 'ZXY', 'ZYX']
REV = {'XYZ': 'ZYX', 'ZYX': 'XYZ', 'YXZ': 'ZXY', 'ZXY': 'YXZ'}
PROPS = ['C13_axis_cs_rigid', 'C13_products_cs_rigid', 'C13_axis_orthonormal', 'C13_axis_det1',
         'C13_rotation_matrix_orthonormal', 'C13_rotation_matrix_det1', 'C13_rotate_dist', 'C13_rotate_dist2',
         'C13_origin_fixed', 'C13_origin_to_offset', 'C13_zero_angles_id', 'C13_zero_angles_matrix',
         'C13_offset_translation', 'C13_mode_XYZ', 'C13_mode_XZY', 'C13_mode_YXZ', 'C13_mode_ZXY', 'C13_mode_ZYX',
         'C13_rotate_is_matrix', 'C13_modes_differ', 'C13_reverse_mode_table', 'C13_inverse_reversed',
         'C13_inverse_general', 'C13_bring_to_origin_inverse', 'C13_bring_to_origin_defined', 'C13_numpy_torch_same',
         'C13_deg_period', 'C13_deg_period_axis', 'C13_right_angles', 'C13_tilt_towards_points',
         'C13_qrotate_sound', 'C13_qnp_rotate_points_sound', 'C13_qclose_sound', 'C13_instance']
NOT_OFFERED = (UnboundLocalError, NameError, KeyError, NotImplementedError, ValueError)
FN = {('numpy', 'rotmatx'): 'odak.tools.rotmatx', ('numpy', 'rotmaty'): 'odak.tools.rotmaty', ('numpy', 'rotmatz'): 'odak.tools.rotmatz',
      ('torch', 'rotmatx'): 'odak.learn.tools.rotmatx', ('torch', 'rotmaty'): 'odak.learn.tools.rotmaty', ('torch', 'rotmatz'): 'odak.learn.tools.rotmatz',
      ('torch', 'get_rotation_matrix'): 'odak.learn.tools.get_rotation_matrix',
      ('numpy', 'rotate_point'): 'odak.tools.rotate_point', ('numpy', 'rotate_points'): 'odak.tools.rotate_points',
      ('torch', 'rotate_points'): 'odak.learn.tools.rotate_points',
      ('numpy', 'tilt_towards'): 'odak.tools.tilt_towards', ('torch', 'tilt_towards'): 'odak.learn.tools.tilt_towards',
      ('numpy', 'bring_plane_to_origin'): 'odak.raytracing.bring_plane_to_origin'}


def api():
    import odak.tools.transformation as nt
    import odak.learn.tools.transformation as tt
    import odak.raytracing.primitives as rp
    return nt, tt, rp


# ---------------------------------------------------------------- reference (independent of odak)
def cs(a):
    """correctly rounded cos / sin of an angle given in degrees (the float is taken exactly)"""
    x = mpmath.mpf(float(a)) * mpmath.pi / 180
    return float(mpmath.cos(x)), float(mpmath.sin(x))


def axis(ax, a):
    c, s = cs(a)
    if ax == 'x': return np.array([[1., 0, 0], [0, c, -s], [0, s, c]])
    if ax == 'y': return np.array([[c, 0, s], [0, 1., 0], [-s, 0, c]])
    return np.array([[c, -s, 0], [s, c, 0], [0, 0, 1.]])


def ref_matrix(mode, ang):
    m = {'X': axis('x', ang[0]), 'Y': axis('y', ang[1]), 'Z': axis('z', ang[2])}
    return m[mode[2]] @ m[mode[1]] @ m[mode[0]]          # first letter is applied first


def ref_rotate(mode, ang, pts, origin, offset):
    pts = np.asarray(pts, float).reshape(-1, 3)
    return (ref_matrix(mode, ang) @ (pts - np.asarray(origin, float)).T).T + np.asarray(origin, float) + np.asarray(offset, float)


def tol_angle(dtype, angles):
    s = sum(abs(float(a)) for a in angles)
    return (2e-13 + 6e-17 * s) if dtype == 'float64' else (4e-6 + 4e-9 * s)


def tdt(dtype):
    return torch.float64 if dtype == 'float64' else torch.float32


def rep(dtype, v):
    """the value the API will actually see (float32 inputs are rounded before the call)"""
    return float(np.float32(v)) if dtype == 'float32' else float(v)


# ---------------------------------------------------------------- calling the implementation
def call_axis(which, fn, angle, form, dtype):
    nt, tt, _ = api()
    if which == 'numpy':
        f = getattr(nt, fn)
        arg = {'float': float(angle), 'int': int(angle), 'np0': np.float64(angle)}[form]
        return np.asarray(f(arg), float)
    f = getattr(tt, fn)
    arg = {'tensor1': lambda: torch.tensor([angle], dtype=tdt(dtype)), 'tensor0': lambda: torch.tensor(angle, dtype=tdt(dtype)),
           'float': lambda: float(angle), 'int': lambda: int(angle)}[form]()
    return f(arg).detach().numpy().astype(float)


def call_grm(angles, mode, form, dtype):
    _, tt, _ = api()
    dt = tdt(dtype)
    if form == 'default':
        return tt.get_rotation_matrix(tilt_order=mode).detach().numpy().astype(float)
    arg = {'list': lambda: [float(a) for a in angles], 'tensor3': lambda: torch.tensor(angles, dtype=dt),
           'tensor31': lambda: torch.tensor(angles, dtype=dt).reshape(3, 1),
           'list_tensor1': lambda: [torch.tensor([a], dtype=dt) for a in angles]}[form]()
    return tt.get_rotation_matrix(arg, tilt_order=mode).detach().numpy().astype(float)


def call_rotate(which, fn, mode, angles, points, origin, offset, dtype, single=False, omit=()):
    """returns (result (n,3) float array, (rotx, roty, rotz) or None).  Fresh copies are handed in: the NumPy
    functions subtract the origin in place (property C20's concern)."""
    nt, tt, _ = api()
    kw = {}
    if which == 'numpy':
        pts = np.array(points[0] if single else points, dtype=float)
        if 'origin' not in omit: kw['origin'] = [float(v) for v in origin]
        if 'offset' not in omit: kw['offset'] = [float(v) for v in offset]
        if fn == 'rotate_point':
            r, rx, ry, rz = nt.rotate_point(pts, angles=[float(a) for a in angles], mode=mode, **kw)
            return np.asarray(r, float).reshape(-1, 3), (np.asarray(rx, float), np.asarray(ry, float), np.asarray(rz, float))
        r = nt.rotate_points(pts, angles=[float(a) for a in angles], mode=mode, **kw)
        return np.asarray(r, float).reshape(-1, 3), None
    dt = tdt(dtype)
    pts = torch.tensor(points[0] if single else points, dtype=dt)
    if 'origin' not in omit: kw['origin'] = torch.tensor(origin, dtype=dt)
    if 'offset' not in omit: kw['offset'] = torch.tensor(offset, dtype=dt)
    r, rx, ry, rz = tt.rotate_points(pts, angles=torch.tensor(angles, dtype=dt), mode=mode, **kw)
    g = lambda t: t.detach().numpy().astype(float)
    return g(r).reshape(-1, 3), (g(rx), g(ry), g(rz))


def orth_err(R):
    return float(max(np.abs(R.T @ R - np.eye(3)).max(), np.abs(R @ R.T - np.eye(3)).max()))


def pair_dists(P):
    P = np.asarray(P, float)
    return np.array([np.linalg.norm(P[i] - P[j]) for i in range(len(P)) for j in range(i + 1, len(P))])


# ---------------------------------------------------------------- direct oracles
def oracle_matrix(inp):
    """one matrix-valued call: orthonormal, det +1, equal to the stated product, identity at zero, 360-periodic"""
    which, fn, form, dtype = inp['api'], inp['fn'], inp['form'], inp.get('dtype', 'float64')
    mode = inp.get('mode', 'XYZ')
    angles = [rep(dtype, a) for a in inp['angles']]
    out = []

    def get(ang):
        if fn == 'get_rotation_matrix':
            return call_grm(ang, mode, form, dtype)
        return call_axis(which, fn, ang[0], form, dtype)
    try:
        R = get(angles)
    except Exception as e:
        return [('no_exception', False, 'a 3x3 matrix', repr(e))]
    out.append(('shape_3x3', R.shape == (3, 3), [3, 3], list(R.shape)))
    if R.shape != (3, 3):
        return out
    tol = tol_angle(dtype, angles)
    base = 2e-15 if dtype == 'float64' else 1e-6
    out.append(('finite', bool(np.isfinite(R).all()), 'finite', R.tolist()))
    out.append(('orthonormal', orth_err(R) <= 8 * base, '<= %g' % (8 * base), orth_err(R)))
    out.append(('det_plus_one', abs(np.linalg.det(R) - 1) <= 8 * base, '1 +- %g' % (8 * base), float(np.linalg.det(R))))
    ref = ref_matrix(mode, angles) if fn == 'get_rotation_matrix' else axis(fn[-1], angles[0])
    if tol < 1e-3:
        err = float(np.abs(R - ref).max())
        out.append(('matches_stated_product', err <= tol, '<= %g from %s' % (tol, np.round(ref, 6).tolist()), {'err': err, 'got': R.tolist()}))
    if all(a == 0 for a in angles):
        out.append(('zero_angles_identity', float(np.abs(R - np.eye(3)).max()) <= base, 'identity', R.tolist()))
    k = inp.get('turns')
    if k:
        shifted = [rep(dtype, a + 360.0 * kk) for a, kk in zip(angles, k)]
        exact = all(s == a + 360.0 * kk for s, a, kk in zip(shifted, angles, k))
        if exact:
            try:
                R2 = get(shifted)
                t2 = tol_angle(dtype, angles) + tol_angle(dtype, shifted)
                if t2 < 1e-3:
                    out.append(('whole_turns_do_not_matter', float(np.abs(R2 - R).max()) <= t2, '<= %g' % t2, float(np.abs(R2 - R).max())))
            except Exception as e:
                out.append(('no_exception', False, 'a 3x3 matrix', repr(e)))
    return out


def oracle_rotate(inp):
    """rotate_point / rotate_points of one API on one cloud"""
    which, fn, mode, dtype = inp['api'], inp['fn'], inp['mode'], inp.get('dtype', 'float64')
    single = bool(inp.get('single')); omit = tuple(inp.get('omit', ()))
    angles = [rep(dtype, a) for a in inp['angles']]
    P = [[rep(dtype, v) for v in p] for p in inp['points']]
    origin = [0.0, 0.0, 0.0] if 'origin' in omit else [rep(dtype, v) for v in inp['origin']]
    offset = [0.0, 0.0, 0.0] if 'offset' in omit else [rep(dtype, v) for v in inp['offset']]
    if single: P = P[:1]
    out = []
    try:
        r, mats = call_rotate(which, fn, mode, angles, P, origin, offset, dtype, single, omit)
    except Exception as e:
        return [('no_exception', False, 'rotated points', repr(e))]
    n = len(P)
    out.append(('shape', r.shape == (n, 3), [n, 3], list(r.shape)))
    if r.shape != (n, 3):
        return out
    Pn = np.array(P, float); o = np.array(origin); f = np.array(offset)
    scale = float(max(np.abs(Pn - o).max(), np.abs(o).max(), np.abs(f).max(), 1e-300))
    eps = 3e-15 if dtype == 'float64' else 2e-6
    tol = tol_angle(dtype, angles)
    out.append(('finite', bool(np.isfinite(r).all()), 'finite', r.tolist()))
    if tol < 1e-3:
        ref = ref_rotate(mode, angles, Pn, o, f)
        err = float(np.abs(r - ref).max())
        out.append(('mode_is_stated_product', err <= (tol + 4 * eps) * scale, '<= %g' % ((tol + 4 * eps) * scale), {'err': err, 'got': r.tolist(), 'reference': ref.tolist()}))
    if n >= 2:
        d0, d1 = pair_dists(Pn), pair_dists(r)
        err = float(np.abs(d0 - d1).max())
        out.append(('pairwise_distances_preserved', err <= 16 * eps * scale, '<= %g' % (16 * eps * scale), {'err': err, 'before': d0.tolist()[:6], 'after': d1.tolist()[:6]}))
    try:
        r0, _ = call_rotate(which, fn, mode, angles, [origin], origin, offset, dtype, single, omit)
        err = float(np.abs(r0[0] - (o + f)).max())
        out.append(('origin_fixed', err <= 8 * eps * scale, (o + f).tolist(), r0[0].tolist()))
    except Exception as e:
        out.append(('no_exception', False, 'rotated origin', repr(e)))
    if 'offset' not in omit:
        try:
            rz, _ = call_rotate(which, fn, mode, angles, P, origin, [0.0, 0.0, 0.0], dtype, single, omit)
            err = float(np.abs(r - (rz + f)).max())
            out.append(('offset_is_translation', err <= 8 * eps * scale, '<= %g' % (8 * eps * scale), err))
        except Exception as e:
            out.append(('no_exception', False, 'rotated points (zero offset)', repr(e)))
    if all(a == 0 for a in angles):
        err = float(np.abs(r - (Pn + f)).max())
        out.append(('zero_angles_identity', err <= 4 * eps * scale, (Pn + f).tolist(), r.tolist()))
    if mats is not None:
        ok = True; worst = 0.0
        for ax, M, a in zip('xyz', mats, angles):
            try:
                own = call_axis(which, 'rotmat' + ax, a, 'float' if which == 'numpy' else 'tensor1', dtype)
            except Exception:
                own = axis(ax, a)
            worst = max(worst, float(np.abs(M - own).max()) if M.shape == (3, 3) else float('inf'), orth_err(M) if M.shape == (3, 3) else float('inf'))
        out.append(('returned_axis_matrices', worst <= 8 * (2e-15 if dtype == 'float64' else 1e-6), 'rotmatx/y/z of the angles, orthonormal', worst))
    return out


def oracle_inverse(inp):
    """rotate, then rotate back with negated angles in the reversed order (bring_plane_to_origin / by hand)"""
    which, mode, dtype = inp['api'], inp['mode'], inp.get('dtype', 'float64')
    angles = [rep(dtype, a) for a in inp['angles']]
    P = [[rep(dtype, v) for v in p] for p in inp['points']]
    center = [rep(dtype, v) for v in inp['center']]
    single = bool(inp.get('single'))
    if single: P = P[:1]
    _, _, rp = api()
    Pn = np.array(P, float); c = np.array(center)
    scale = float(max(np.abs(Pn).max(), np.abs(c).max(), 1e-300))
    eps = 3e-15 if dtype == 'float64' else 2e-6
    out = []
    try:
        q, _ = call_rotate(which, 'rotate_points', mode, angles, P, [0.0, 0.0, 0.0], center, dtype, single)
    except Exception as e:
        return [('no_exception', False, 'rotated points', repr(e))]
    if which == 'numpy':
        arg = np.array(q[0] if single else q, dtype=float)
        arg0 = arg.copy(); cen = np.array(center, dtype=float); angl = list(angles)
        try:
            back = np.asarray(rp.bring_plane_to_origin(arg, None, center=cen, angles=angl, mode=mode), float)
            out.append(('arguments_unchanged', bool((arg == arg0).all()) and bool((cen == np.array(center, dtype=float)).all()) and angl == list(angles),
                        {'points': arg0.tolist(), 'center': list(center), 'angles': list(angles)}, {'points': arg.tolist(), 'center': cen.tolist(), 'angles': angl}))
            ok_shape = back.size == Pn.size
            out.append(('bring_plane_shape', ok_shape, list(Pn.shape), list(back.shape)))
            if ok_shape:
                err = float(np.abs(back.reshape(-1, 3) - Pn).max())
                out.append(('bring_plane_restores_points', err <= 24 * eps * scale, '<= %g' % (24 * eps * scale), {'err': err, 'got': back.tolist()}))
        except NOT_OFFERED as e:
            if mode in REV:
                out.append(('no_exception', False, 'the points before the rotation', repr(e)))
            else:
                out.append(('reverse_order_not_offered', True, None, repr(e)))
        except Exception as e:
            out.append(('no_exception', False, 'the points before the rotation', repr(e)))
    if mode in REV:
        try:
            shifted = (q - c).tolist()
            back2, _ = call_rotate(which, 'rotate_points', REV[mode], [-a for a in angles], shifted, [0.0, 0.0, 0.0], [0.0, 0.0, 0.0], dtype, single)
            err = float(np.abs(back2 - Pn).max())
            out.append(('negated_reversed_restores_points', err <= 24 * eps * scale, '<= %g' % (24 * eps * scale), {'err': err, 'got': back2.tolist()}))
        except Exception as e:
            out.append(('no_exception', False, 'the points before the rotation', repr(e)))
    return out


def oracle_same(inp):
    """NumPy and PyTorch versions on the same arguments"""
    mode, dtype = inp['mode'], inp.get('dtype', 'float64')
    angles = [rep(dtype, a) for a in inp['angles']]
    P = [[rep(dtype, v) for v in p] for p in inp['points']]
    origin = [rep(dtype, v) for v in inp['origin']]; offset = [rep(dtype, v) for v in inp['offset']]
    Pn = np.array(P, float)
    scale = float(max(np.abs(Pn - np.array(origin)).max(), np.abs(np.array(origin)).max(), np.abs(np.array(offset)).max(), 1e-300))
    tol = (1e-14 + 1e-16 * sum(abs(a) for a in angles)) if dtype == 'float64' else tol_angle('float32', angles) + 4e-6
    out = []
    try:
        rn, _ = call_rotate('numpy', 'rotate_points', mode, angles, P, origin, offset, 'float64')
        rt, mt = call_rotate('torch', 'rotate_points', mode, angles, P, origin, offset, dtype)
        r1 = np.array([call_rotate('numpy', 'rotate_point', mode, angles, [p], origin, offset, 'float64', single=True)[0][0] for p in P])
        if tol < 1e-3:
            out.append(('rotate_points_numpy_equals_torch', float(np.abs(rn - rt).max()) <= tol * scale, '<= %g' % (tol * scale), {'err': float(np.abs(rn - rt).max()), 'numpy': rn.tolist(), 'torch': rt.tolist()}))
        out.append(('rotate_point_equals_rotate_points', float(np.abs(rn - r1).max()) <= 1e-14 * scale, '<= %g' % (1e-14 * scale), float(np.abs(rn - r1).max())))
        for ax, a in zip('xyz', angles):
            mn = call_axis('numpy', 'rotmat' + ax, a, 'float', 'float64'); mtt = call_axis('torch', 'rotmat' + ax, a, 'tensor1', dtype)
            if tol < 1e-3:
                out.append(('rotmat%s_numpy_equals_torch' % ax, float(np.abs(mn - mtt).max()) <= tol, '<= %g' % tol, float(np.abs(mn - mtt).max())))
        G = call_grm(angles, mode, 'tensor31', dtype)
        nt, _, _ = api()
        X, Y, Z = nt.rotmatx(angles[0]), nt.rotmaty(angles[1]), nt.rotmatz(angles[2])
        m = {'X': X, 'Y': Y, 'Z': Z}
        if tol < 1e-3:
            out.append(('get_rotation_matrix_is_numpy_product', float(np.abs(G - m[mode[2]] @ m[mode[1]] @ m[mode[0]]).max()) <= 3 * tol, '<= %g' % (3 * tol), float(np.abs(G - m[mode[2]] @ m[mode[1]] @ m[mode[0]]).max())))
            z0 = [0.0, 0.0, 0.0]
            rt0, _ = call_rotate('torch', 'rotate_points', mode, angles, P, z0, z0, dtype)
            s0 = float(max(np.abs(Pn).max(), 1e-300))
            out.append(('rotate_points_applies_get_rotation_matrix', float(np.abs(rt0 - (G @ Pn.T).T).max()) <= (3 * tol + (1e-14 if dtype == 'float64' else 4e-6)) * s0, 'G @ p', float(np.abs(rt0 - (G @ Pn.T).T).max())))
    except Exception as e:
        out.append(('no_exception', False, 'results from both APIs', repr(e)))
    return out


def oracle_tilt(inp):
    """tilt_towards: angles (0, theta, phi) that turn +z into the unit vector lookat -> location"""
    which = inp['api']
    nt, tt, _ = api()
    loc = [float(v) for v in inp['location']]; look = [float(v) for v in inp['lookat']]
    d = np.array(loc) - np.array(look); n = np.linalg.norm(d)
    out = []
    try:
        ang = (nt if which == 'numpy' else tt).tilt_towards(list(loc), list(look))
        ang = [float(a) for a in ang]
    except Exception as e:
        return [('no_exception', False, 'three angles', repr(e))]
    out.append(('three_finite_angles', len(ang) == 3 and all(math.isfinite(a) for a in ang), 'finite', ang))
    if len(ang) != 3 or not all(math.isfinite(a) for a in ang):
        return out
    out.append(('first_angle_zero', ang[0] == 0, 0, ang[0]))
    loose = bool(inp.get('boundary'))
    tol = ((1e-7 if loose else 1e-11) if which == 'numpy' else (3e-3 if loose else 2e-5))
    want = d / n
    got_ref = ref_rotate('XYZ', ang, [[0.0, 0.0, 1.0]], [0, 0, 0], [0, 0, 0])[0]
    out.append(('tilted_z_axis_points_from_lookat_to_location', float(np.abs(got_ref - want).max()) <= tol, want.tolist(), got_ref.tolist()))
    try:
        own, _ = call_rotate(which, 'rotate_points', 'XYZ', ang, [[0.0, 0.0, 1.0]], [0.0, 0, 0], [0.0, 0, 0], 'float64' if which == 'numpy' else 'float32')
        out.append(('own_rotation_of_z_axis', float(np.abs(own[0] - want).max()) <= tol + (0 if which == 'numpy' else 4e-6), want.tolist(), own[0].tolist()))
    except Exception as e:
        out.append(('no_exception', False, 'rotated z axis', repr(e)))
    try:
        other = [float(a) for a in (tt if which == 'numpy' else nt).tilt_towards(list(loc), list(look))]
        da = max(abs(a - b) for a, b in zip(ang, other))
        da = min(da, abs(da - 360.0))
        out.append(('numpy_equals_torch_angles', da <= (0.2 if loose else 2e-3), '<= %g deg' % (0.2 if loose else 2e-3), {'this': ang, 'other': other}))
    except Exception as e:
        out.append(('no_exception', False, 'angles from the other API', repr(e)))
    return out


def oracle_reuse(inp):
    """aliasing / reuse: the origin IS the point object, the same objects are used again for the way back and for a
    second identical call, NumPy arrays and zero-copy torch views of them; no argument may change"""
    which, mode, dtype = inp['api'], inp['mode'], inp.get('dtype', 'float64')
    nt, tt, _ = api()
    angles = [rep(dtype, a) for a in inp['angles']]
    P = [[rep(dtype, v) for v in p] for p in inp['points']]
    O = [rep(dtype, v) for v in inp['origin']]
    F = [rep(dtype, v) for v in inp['offset']]
    npdt = np.float64 if dtype == 'float64' else np.float32
    eps = 3e-15 if dtype == 'float64' else 2e-6
    Pn = np.array(P, float); On = np.array(O, float); Fn = np.array(F, float)
    scale = float(max(np.abs(Pn - On).max(), np.abs(On).max(), np.abs(Fn).max(), np.abs(Pn).max(), 1e-300))
    tol = (tol_angle(dtype, angles) + 8 * eps) * scale
    out = []

    if which == 'numpy':
        mk = lambda v: np.array(v, dtype=npdt)
        val = lambda x: np.array(x, dtype=float)
        ang = lambda sign: [sign * a for a in angles]

        def rot(pts, a, m, **kw):
            if inp.get('fn') == 'rotate_point':
                return np.array([np.asarray(nt.rotate_point(pts[i], angles=a, mode=m, **kw)[0], float) for i in range(len(pts))])
            return np.asarray(nt.rotate_points(pts, angles=a, mode=m, **kw), float).reshape(-1, 3)
    else:
        dt = tdt(dtype)
        if inp.get('via') == 'from_numpy':
            mk = lambda v: torch.from_numpy(np.array(v, dtype=npdt))
        else:
            mk = lambda v: torch.tensor(v, dtype=dt)
        val = lambda x: x.detach().numpy().astype(float).copy()
        ang = lambda sign: torch.tensor([sign * a for a in angles], dtype=dt)

        def rot(pts, a, m, **kw):
            return tt.rotate_points(pts, angles=a, mode=m, **kw)[0].detach().numpy().astype(float).reshape(-1, 3)
    try:
        # (a) the origin is the very object that is rotated
        piv = mk([P[0]])
        if which == 'numpy' and inp.get('fn') == 'rotate_point':
            piv = mk(P[0]); r = np.asarray(nt.rotate_point(piv, angles=ang(1), mode=mode, origin=piv)[0], float).reshape(-1, 3)
        elif which == 'numpy':
            r = rot(piv, ang(1), mode, origin=piv.reshape(-1)) if inp.get('flat_origin') else rot(piv, ang(1), mode, origin=piv)
        else:
            r = rot(piv, ang(1), mode, origin=piv)
        err = float(np.abs(r[0] - Pn[0]).max())
        out.append(('origin_is_point_stays_fixed', err <= tol, Pn[0].tolist(), r[0].tolist()))
        out.append(('arguments_unchanged', float(np.abs(val(piv).reshape(-1) - Pn[0]).max()) == 0.0, Pn[0].tolist(), val(piv).reshape(-1).tolist()))
        # (b) same objects, two identical calls, arguments intact
        pts = mk(P); org = mk(O); off = mk(F); a1 = ang(1)
        r1 = rot(pts, a1, mode, origin=org, offset=off)
        r2 = rot(pts, a1, mode, origin=org, offset=off)
        out.append(('repeated_identical_calls_agree', float(np.abs(r1 - r2).max()) == 0.0, r1.tolist(), r2.tolist()))
        same = float(np.abs(val(pts) - Pn).max()) == 0.0 and float(np.abs(val(org) - On).max()) == 0.0 and float(np.abs(val(off) - Fn).max()) == 0.0
        if which == 'torch':
            same = same and float(np.abs(val(a1) - np.array(angles)).max()) == 0.0
        out.append(('arguments_unchanged', same, {'points': Pn.tolist(), 'origin': O, 'offset': F}, {'points': val(pts).tolist(), 'origin': val(org).tolist(), 'offset': val(off).tolist()}))
        if tol_angle(dtype, angles) < 1e-3:
            ref = ref_rotate(mode, angles, Pn, On, Fn)
            out.append(('second_call_is_stated_product', float(np.abs(r2 - ref).max()) <= tol, ref.tolist(), r2.tolist()))
        # (c) there and back about a non-zero origin with the same objects, compared with what was passed in
        if mode in REV:
            fw = rot(pts, a1, mode, origin=org)
            fwo = mk(fw.tolist())
            bk = rot(fwo, ang(-1), REV[mode], origin=org)
            now = val(pts)
            out.append(('there_and_back_restores_the_passed_points', float(np.abs(bk - now).max()) <= 3 * tol and float(np.abs(bk - Pn).max()) <= 3 * tol, Pn.tolist(), bk.tolist()))
        # (d) NumPy arrays and zero-copy torch views of the same memory give the same answer, in either order
        if inp.get('via') == 'from_numpy' or which == 'numpy':
            pa = np.array(P, dtype=npdt); oa = np.array(O, dtype=npdt)
            pt_, ot_ = torch.from_numpy(pa), torch.from_numpy(oa)
            ta = torch.tensor(angles, dtype=tdt(dtype))
            if inp.get('torch_first', True):
                rt = tt.rotate_points(pt_, angles=ta, mode=mode, origin=ot_)[0].detach().numpy().astype(float).reshape(-1, 3)
                rn = np.asarray(nt.rotate_points(pa, angles=list(angles), mode=mode, origin=oa), float).reshape(-1, 3)
            else:
                rn = np.asarray(nt.rotate_points(pa, angles=list(angles), mode=mode, origin=oa), float).reshape(-1, 3)
                rt = tt.rotate_points(pt_, angles=ta, mode=mode, origin=ot_)[0].detach().numpy().astype(float).reshape(-1, 3)
            t2 = tol if dtype == 'float64' else tol + (tol_angle('float32', angles) + 4e-6) * scale
            out.append(('shared_memory_numpy_equals_torch', float(np.abs(rt - rn).max()) <= t2, rn.tolist(), rt.tolist()))
            out.append(('shared_memory_arguments_unchanged', float(np.abs(pa.astype(float) - Pn).max()) == 0.0 and float(np.abs(oa.astype(float) - On).max()) == 0.0, Pn.tolist(), pa.tolist()))
    except Exception as e:
        out.append(('no_exception', False, 'results', repr(e)))
    return out


CALLERS = {'np.grid_sample': ('numpy', 'odak.tools.grid_sample'), 'np.box_volume_sample': ('numpy', 'odak.tools.box_volume_sample'),
           'np.circular_sample': ('numpy', 'odak.tools.circular_sample'), 'np.circular_uniform_sample': ('numpy', 'odak.tools.circular_uniform_sample'),
           'np.circular_uniform_random_sample': ('numpy', 'odak.tools.circular_uniform_random_sample'),
           'np.define_plane': ('numpy', 'odak.raytracing.define_plane'), 't.grid_sample': ('torch', 'odak.learn.tools.grid_sample'),
           't.define_plane': ('torch', 'odak.learn.raytracing.define_plane')}


def call_caller(fn, no, size, center, angles, seed=0):
    """(samples (n,3) float64, returned matrices or None) of a function that forwards to rotate_point(s)"""
    import odak.tools.sample as ns_
    import odak.learn.tools.sample as ts_
    import odak.raytracing.primitives as nprim
    import odak.learn.raytracing.primitives as tprim
    c = [float(v) for v in center]; a = [float(v) for v in angles]
    if fn == 'np.grid_sample': return np.asarray(ns_.grid_sample(no=list(no[:2]), size=list(size[:2]), center=c, angles=a), float), None
    if fn == 'np.box_volume_sample': return np.asarray(ns_.box_volume_sample(no=list(no), size=list(size), center=c, angles=a), float), None
    if fn == 'np.circular_sample': return np.asarray(ns_.circular_sample(no=list(no[:2]), radius=float(size[0]), center=c, angles=a), float), None
    if fn == 'np.circular_uniform_sample': return np.asarray(ns_.circular_uniform_sample(no=list(no[:2]), radius=float(size[0]), center=c, angles=a), float), None
    if fn == 'np.circular_uniform_random_sample':
        np.random.seed(seed)
        return np.asarray(ns_.circular_uniform_random_sample(no=list(no[:2]), radius=float(size[0]), center=c, angles=a), float), None
    if fn == 'np.define_plane': return np.asarray(nprim.define_plane(np.array(c), angles=a), float), None
    if fn == 't.grid_sample':
        r, rx, ry, rz = ts_.grid_sample(no=list(no[:2]), size=list(size[:2]), center=c, angles=a)
        g = lambda t: t.detach().numpy().astype(float)
        return g(r), (g(rx), g(ry), g(rz))
    if fn == 't.define_plane':
        return tprim.define_plane(torch.tensor(c), angles=torch.tensor(a)).detach().numpy().astype(float), None
    raise KeyError(fn)


def oracle_caller(inp):
    """functions that forward to rotate_point(s): result = R(tilt) * (their own untilted samples at the origin) + centre,
    with tilt and centre both non-zero; NumPy = PyTorch; consistent with the matrices they return"""
    fn = inp['fn']; which = CALLERS[fn][0]
    no, size, seed = inp['no'], inp['size'], inp.get('seed', 0)
    dtype = 'float64' if which == 'numpy' else 'float32'
    center = [rep(dtype, v) for v in inp['center']]; angles = [rep(dtype, v) for v in inp['angles']]
    out = []
    try:
        flat, _ = call_caller(fn, no, size, [0.0, 0.0, 0.0], [0.0, 0.0, 0.0], seed)
        res, mats = call_caller(fn, no, size, center, angles, seed)
    except Exception as e:
        return [('no_exception', False, 'samples', repr(e))]
    out.append(('shape', res.shape == flat.shape and res.ndim == 2 and res.shape[1] == 3, list(flat.shape), list(res.shape)))
    if res.shape != flat.shape or res.ndim != 2:
        return out
    c = np.array(center)
    scale = float(max(np.abs(flat).max(), np.abs(c).max(), 1e-300))
    eps = 3e-15 if dtype == 'float64' else 2e-6
    tol = (tol_angle(dtype, angles) + 8 * eps) * scale
    want = (ref_matrix('XYZ', angles) @ flat.T).T + c
    err = float(np.abs(res - want).max())
    out.append(('tilt_then_translate_to_centre', err <= tol, '<= %g from R*flat + centre' % tol, {'err': err, 'got': res[:3].tolist(), 'want': want[:3].tolist()}))
    d0, d1 = pair_dists(flat[:6]), pair_dists(res[:6])
    if len(d0):
        out.append(('pairwise_distances_preserved', float(np.abs(d0 - d1).max()) <= 16 * eps * scale + tol, 'as untilted', float(np.abs(d0 - d1).max())))
    if fn in ('np.grid_sample', 't.grid_sample') and no[0] % 2 == 1 and no[1] % 2 == 1:
        mid = res[(no[0] // 2) * no[1] + no[1] // 2]
        out.append(('grid_centre_at_centre', float(np.abs(mid - c).max()) <= tol, center, mid.tolist()))
    if fn == 'np.box_volume_sample' or fn.startswith('np.circular'):
        pass
    if fn in ('np.grid_sample', 't.grid_sample', 'np.define_plane', 't.define_plane'):
        other = {'np.grid_sample': 't.grid_sample', 't.grid_sample': 'np.grid_sample', 'np.define_plane': 't.define_plane', 't.define_plane': 'np.define_plane'}[fn]
        try:
            ro, _ = call_caller(other, no, size, center, angles, seed)
            t32 = (tol_angle('float32', angles) + 16e-6) * scale
            ok = ro.shape == res.shape and float(np.abs(ro - res).max()) <= t32
            out.append(('numpy_equals_torch', ok, '<= %g' % t32, float(np.abs(ro - res).max()) if ro.shape == res.shape else list(ro.shape)))
        except Exception as e:
            out.append(('no_exception', False, 'samples from the other API', repr(e)))
    if mats is not None:
        M = mats[2] @ mats[1] @ mats[0]
        err = float(np.abs(res - ((M @ flat.T).T + c)).max())
        out.append(('consistent_with_returned_matrices', err <= tol, '<= %g from rotz*roty*rotx*flat + centre' % tol, err))
        worst = max(float(np.abs(m - axis(ax, a)).max()) for m, ax, a in zip(mats, 'xyz', angles))
        out.append(('returned_axis_matrices', worst <= tol_angle(dtype, angles) + 8 * eps, 'rotmatx/y/z of the tilt', worst))
    return out


def oracle_ray_from_angles(inp):
    """NOT run by run(): odak.raytracing.create_ray_from_angles (outside C13's anchor files) -- start = point, direction = R e_z"""
    from odak.raytracing import create_ray_from_angles
    p = [float(v) for v in inp['point']]; a = [float(v) for v in inp['angles']]; mode = inp.get('mode', 'XYZ')
    try:
        ray = np.asarray(create_ray_from_angles(np.array(p), np.array(a), mode=mode), float).reshape(2, 3)
    except Exception as e:
        return [('no_exception', False, 'a ray', repr(e))]
    want = ref_matrix(mode, a) @ np.array([0.0, 0.0, 1.0])
    return [('ray_starts_at_point', float(np.abs(ray[0] - np.array(p)).max()) <= 1e-12, p, ray[0].tolist()),
            ('ray_direction_is_rotated_z_axis', float(np.abs(ray[1] - want).max()) <= 1e-9, want.tolist(), ray[1].tolist())]


ORACLES = {'caller': oracle_caller, 'ray_from_angles': oracle_ray_from_angles, 'reuse': oracle_reuse, 'matrix': oracle_matrix, 'rotate': oracle_rotate, 'inverse': oracle_inverse, 'same': oracle_same, 'tilt': oracle_tilt}


def fn_of(name, inp):
    if name == 'matrix': return FN[(inp['api'], inp['fn'])]
    if name == 'rotate': return FN[(inp['api'], inp['fn'])]
    if name == 'inverse': return FN[('numpy', 'bring_plane_to_origin')] if inp['api'] == 'numpy' else FN[('torch', 'rotate_points')]
    if name == 'caller': return CALLERS[inp['fn']][1]
    if name == 'ray_from_angles': return 'odak.raytracing.create_ray_from_angles'
    if name == 'reuse': return FN[(inp['api'], inp.get('fn', 'rotate_points'))]
    if name == 'same': return 'odak.tools.rotate_points|odak.learn.tools.rotate_points'
    return FN[(inp['api'], 'tilt_towards')]


def apply_oracle(ctx, name, inp):
    try:
        res = ORACLES[name](inp)
    except Exception as e:
        res = [('no_exception', False, 'a result', repr(e))]
    bad = 0
    for clause, ok, exp, obs in res:
        if not ok:
            bad += 1
            ctx.violation(fn_of(name, inp), clause, dict(inp, oracle=name), exp, obs)
    return bad, res


# ---------------------------------------------------------------- generators
BOUNDARY_ANGLES = [0.0, -0.0, 90.0, -90.0, 180.0, -180.0, 270.0, -270.0, 360.0, -360.0, 720.0, 45.0, 30.0, 1e-12, -1e-9,
                   89.99999999999999, 450.0, 3600.0, 36000.0 + 30.0, 1e4 + 0.5, -123456.75, 1e6, -1e6, 1e6 + 0.5]
HUGE_ANGLES = [1e9, -1e12, 1e15]


def gen_angle(rng, kind=None):
    r = rng.random() if kind is None else {'uniform': 0.1, 'boundary': 0.6, 'near': 0.8, 'large': 0.95}[kind]
    if r < 0.5: return rng.uniform(-360.0, 360.0)
    if r < 0.75: return rng.choice(BOUNDARY_ANGLES)
    if r < 0.85: return 90.0 * rng.randint(-8, 8) + rng.choice([0.0, 1e-9, -1e-7, 0.125])
    return rng.choice([-1, 1]) * 10 ** rng.uniform(3, 6)


def gen_angles(rng, i):
    k = i % 8
    if k == 0: return [0.0, 0.0, 0.0]
    if k == 1:
        a = [0.0, 0.0, 0.0]; a[rng.randrange(3)] = gen_angle(rng); return a
    if k == 2: return [rng.choice(BOUNDARY_ANGLES) for _ in range(3)]
    return [gen_angle(rng) for _ in range(3)]


def gen_vec(rng, s):
    return [rng.gauss(0, s) for _ in range(3)]


def gen_cloud(rng, i):
    n = [1, 2, 3, 4, 7, 3, 5, 2][i % 8]
    s = [1.0, 1.0, 1e-3, 1e3, 1.0, 10.0][i % 6]
    pts = [gen_vec(rng, s) for _ in range(n)]
    origin = [0.0, 0.0, 0.0] if i % 3 == 0 else gen_vec(rng, s)
    offset = [0.0, 0.0, 0.0] if i % 4 == 1 else gen_vec(rng, s)
    return pts, origin, offset


def gen_rotate_cases(ctx, n):
    rng = ctx.rng
    out = []
    # every API, every single axis alone (the other two angles exactly zero), every pair
    for which, fn, dtype in (('numpy', 'rotate_points', 'float64'), ('numpy', 'rotate_point', 'float64'), ('torch', 'rotate_points', 'float64')):
        for pat in ((1, 0, 0), (0, 1, 0), (0, 0, 1), (1, 1, 0), (0, 1, 1), (1, 0, 1)):
            pts, origin, offset = gen_cloud(rng, len(out))
            inp = {'api': which, 'fn': fn, 'mode': MODES[len(out) % 5], 'angles': [rng.uniform(-180, 180) * k for k in pat], 'points': pts,
                   'origin': origin, 'offset': offset, 'dtype': dtype}
            if fn == 'rotate_point': inp['single'] = True
            out.append(inp)
    for i in range(n):
        pts, origin, offset = gen_cloud(rng, i)
        angles = gen_angles(rng, i)
        if i % 29 == 7: angles[rng.randrange(3)] = rng.choice(HUGE_ANGLES)
        mode = MODES[i % 5]
        which, fn, dtype = [('numpy', 'rotate_points', 'float64'), ('numpy', 'rotate_point', 'float64'), ('torch', 'rotate_points', 'float64'),
                            ('torch', 'rotate_points', 'float32'), ('numpy', 'rotate_points', 'float64'), ('torch', 'rotate_points', 'float64')][i % 6]
        inp = {'api': which, 'fn': fn, 'mode': mode, 'angles': angles, 'points': pts, 'origin': origin, 'offset': offset, 'dtype': dtype}
        if fn == 'rotate_point' or i % 11 == 3: inp['single'] = True
        if i % 13 == 5: inp['omit'] = ['origin', 'offset']
        elif i % 13 == 6: inp['omit'] = ['origin']
        if dtype == 'float32':
            inp['angles'] = [a if abs(a) <= 1e6 else 1e6 for a in angles]
        out.append(inp)
    return out


def gen_matrix_cases(ctx, n):
    rng = ctx.rng
    out = []
    for a in BOUNDARY_ANGLES + HUGE_ANGLES:
        for ax in 'xyz':
            out.append({'api': 'numpy', 'fn': 'rotmat' + ax, 'form': 'float', 'angles': [a], 'dtype': 'float64', 'turns': [1]})
            out.append({'api': 'torch', 'fn': 'rotmat' + ax, 'form': 'tensor1', 'angles': [a], 'dtype': 'float64', 'turns': [-2]})
            if abs(a) <= 1e6:
                out.append({'api': 'torch', 'fn': 'rotmat' + ax, 'form': 'tensor1', 'angles': [a], 'dtype': 'float32'})
    forms_t = ['tensor1', 'tensor0', 'float', 'tensor1', 'int']
    for i in range(n):
        a = gen_angle(rng)
        ax = 'xyz'[i % 3]
        which = ['numpy', 'torch'][i % 2]
        if which == 'numpy':
            form = ['float', 'np0', 'int'][i % 3]
        else:
            form = forms_t[(i // 2) % 5]
        if form == 'int': a = float(round(a))
        dtype = 'float32' if which == 'torch' and (i % 4 == 0 or form in ('float', 'int')) else 'float64'   # python numbers become float32 tensors
        if dtype == 'float32' and abs(a) > 1e6: a = math.copysign(1e6, a)
        out.append({'api': which, 'fn': 'rotmat' + ax, 'form': form, 'angles': [a], 'dtype': dtype,
                    'turns': [rng.randint(-3, 3)] if float(a * 8).is_integer() else None})
    gforms = ['tensor31', 'tensor3', 'list', 'list_tensor1']
    out.append({'api': 'torch', 'fn': 'get_rotation_matrix', 'form': 'default', 'angles': [0.0, 0.0, 0.0], 'mode': 'XYZ', 'dtype': 'float32'})
    for i in range(n):
        ang = gen_angles(rng, i)
        dtype = 'float32' if i % 5 == 4 else 'float64'
        if dtype == 'float32': ang = [a if abs(a) <= 1e6 else 1e6 for a in ang]
        form = gforms[i % 4]
        if form == 'list': dtype = 'float32'            # python floats become float32 tensors
        if dtype == 'float32': ang = [a if abs(a) <= 1e6 else 1e6 for a in ang]
        out.append({'api': 'torch', 'fn': 'get_rotation_matrix', 'form': form, 'angles': ang, 'mode': MODES[i % 5], 'dtype': dtype,
                    'turns': [rng.randint(-2, 2) for _ in range(3)] if all(float(a * 8).is_integer() for a in ang) else None})
    for m in MODES:
        out.append({'api': 'torch', 'fn': 'get_rotation_matrix', 'form': 'default', 'angles': [0.0, 0.0, 0.0], 'mode': m, 'dtype': 'float32'})
    return out


def gen_inverse_cases(ctx, n):
    rng = ctx.rng
    out = []
    for i in range(n):
        pts, _, center = gen_cloud(rng, i)
        if i % 4 == 0: pts = [gen_vec(rng, 1.0) for _ in range(3)]           # exactly three points
        angles = gen_angles(rng, i + 3)
        which, dtype = [('numpy', 'float64'), ('numpy', 'float64'), ('torch', 'float64'), ('torch', 'float32')][i % 4] if i % 8 else ('numpy', 'float64')
        if dtype == 'float32': angles = [a if abs(a) <= 1e4 else 1e4 for a in angles]
        inp = {'api': which, 'mode': MODES[i % 5], 'angles': angles, 'points': pts, 'center': center, 'dtype': dtype}
        if i % 9 == 4: inp['single'] = True
        out.append(inp)
    return out


def gen_same_cases(ctx, n):
    rng = ctx.rng
    out = []
    for i in range(n):
        pts, origin, offset = gen_cloud(rng, i)
        angles = gen_angles(rng, i + 1)
        dtype = 'float32' if i % 4 == 3 else 'float64'
        if dtype == 'float32': angles = [a if abs(a) <= 1e6 else 1e6 for a in angles]
        out.append({'mode': MODES[i % 5], 'angles': angles, 'points': pts, 'origin': origin, 'offset': offset, 'dtype': dtype})
    return out


def distinct3(rng, s):
    """three non-zero values with pairwise distinct magnitudes and mixed signs"""
    while True:
        v = [rng.choice([-1, 1]) * rng.uniform(0.2, 1.0) * s for _ in range(3)]
        if min(abs(abs(v[0]) - abs(v[1])), abs(abs(v[0]) - abs(v[2])), abs(abs(v[1]) - abs(v[2]))) > 0.05 * s:
            return v


def gen_caller_cases(ctx, n):
    """tilt and centre BOTH non-zero with distinct x, y, z, for every forwarding function; plus tilt-only / centre-only"""
    rng = ctx.rng
    out = []
    fns = list(CALLERS)
    for i in range(n):
        fn = fns[i % len(fns)]
        k = i // len(fns)
        center = distinct3(rng, [1.0, 10.0, 0.05][k % 3]); angles = distinct3(rng, 180.0)
        if k % 5 == 3: center = [0.0, 0.0, 0.0]
        if k % 5 == 4: angles = [0.0, 0.0, 0.0]
        if k % 7 == 5: angles = [rng.choice([90.0, -90.0, 180.0, 270.0, 45.0, 360.0 + 30.0]) for _ in range(3)]
        no = [[5, 7, 3], [4, 3, 2], [3, 3, 3], [2, 2, 2], [6, 5, 4]][k % 5]
        if fn == 'np.circular_uniform_sample': no = [no[0] + 1, 6 + no[1], 1]
        size = [rng.uniform(0.5, 8.0), rng.uniform(0.5, 8.0), rng.uniform(0.5, 8.0)]
        out.append({'fn': fn, 'no': no, 'size': size, 'center': center, 'angles': angles, 'seed': rng.randrange(10 ** 6)})
    return out


def gen_joint_rotate_cases(ctx, n):
    """rotate_point / rotate_points of both APIs with angles, origin AND offset all non-zero, pairwise different vectors
    with distinct x, y, z"""
    rng = ctx.rng
    out = []
    combos = [('numpy', 'rotate_points', 'float64'), ('numpy', 'rotate_point', 'float64'), ('torch', 'rotate_points', 'float64'), ('torch', 'rotate_points', 'float32')]
    for i in range(n):
        which, fn, dtype = combos[i % 4]
        s = [1.0, 10.0, 0.1][i % 3]
        inp = {'api': which, 'fn': fn, 'mode': MODES[(i // 4) % 5], 'angles': distinct3(rng, 180.0), 'points': [distinct3(rng, s) for _ in range(1 + i % 4)],
               'origin': distinct3(rng, s), 'offset': distinct3(rng, 3 * s), 'dtype': dtype}
        if fn == 'rotate_point': inp['single'] = True
        out.append(inp)
    return out


def gen_reuse_cases(ctx, n):
    rng = ctx.rng
    out = []
    for i in range(n):
        pts, origin, offset = gen_cloud(rng, i)
        if len(pts) < 2: pts = pts + [gen_vec(rng, 1.0)]
        origin = gen_vec(rng, [1.0, 10.0, 1e-3][i % 3])              # never zero: a zero origin hides aliasing
        angles = gen_angles(rng, 3 + i % 5)                           # never all zero
        which, fn, dtype, via = [('torch', 'rotate_points', 'float64', 'native'), ('numpy', 'rotate_points', 'float64', None),
                                 ('torch', 'rotate_points', 'float32', 'from_numpy'), ('numpy', 'rotate_point', 'float64', None),
                                 ('torch', 'rotate_points', 'float64', 'from_numpy'), ('numpy', 'rotate_points', 'float32', None)][i % 6]
        angles = [a if abs(a) <= 1e4 else math.copysign(1e4, a) for a in angles]
        inp = {'api': which, 'fn': fn, 'mode': MODES[i % 5], 'angles': angles, 'points': pts, 'origin': origin, 'offset': offset,
               'dtype': dtype, 'torch_first': i % 2 == 0}
        if via: inp['via'] = via
        if i % 4 == 1: inp['flat_origin'] = True
        out.append(inp)
    return out


def gen_tilt_cases(ctx, n):
    rng = ctx.rng
    out = []
    bnd = [[0, 0, 1], [0, 0, -1], [1, 0, 0], [-1, 0, 0], [0, 1, 0], [0, -1, 0], [1, 1, 0], [-1, -1, 0], [0, 1, 1], [0, -1, 1], [1e-6, 0, 1], [0, 1e-9, -1], [-1, 1e-12, 0], [1, 1, 1]]
    for b in bnd:
        for which in ('numpy', 'torch'):
            look = gen_vec(rng, 1.0) if which == 'numpy' else [0.0, 0.0, 0.0]
            s = rng.choice([1.0, 2.5, 100.0])
            out.append({'api': which, 'location': [look[k] + s * b[k] for k in range(3)], 'lookat': look, 'boundary': True})
    for i in range(n):
        while True:
            d = gen_vec(rng, 1.0); nn = math.sqrt(sum(v * v for v in d))
            if nn > 0.2 and abs(d[2]) / nn < 0.97 and math.hypot(d[0], d[1]) / nn > 0.05: break
        look = gen_vec(rng, [1.0, 10.0][i % 2])
        s = [1.0, 0.01, 50.0][i % 3]
        out.append({'api': ['numpy', 'torch'][i % 2], 'location': [look[k] + s * d[k] for k in range(3)], 'lookat': look})
    return out


# ---------------------------------------------------------------- B2: the model executed inside Coq
PRE = 'From Coq Require Import QArith Bool List.\nFrom OdakV Require Import C13.Model.\nOpen Scope Q_scope.\n'
DEN = 2 ** 70


TABLE = {}


def qtab(a):
    """(cos, sin) of a degrees as dyadic rationals with 70 fractional bits (remembered for validate_table)"""
    a = float(a)
    if a not in TABLE:
        x = mpmath.mpf(a) * mpmath.pi / 180
        TABLE[a] = (int(mpmath.nint(mpmath.cos(x) * DEN)), int(mpmath.nint(mpmath.sin(x) * DEN)))
    f = lambda n: '(%s # %d)' % (('%d' % n) if n >= 0 else '(%d)' % n, DEN)
    return '(%s, %s)' % (f(TABLE[a][0]), f(TABLE[a][1]))


def validate_table(ctx):
    """every table entry is proved (Coq Interval, on this run) to be within 1e-20 of the true cos / sin of its angle"""
    import fractions
    goals = []
    for a, (nc, ns) in sorted(TABLE.items()):
        fr = fractions.Fraction(a)
        arg = '((%d / %d) * (PI / 180))' % (fr.numerator, fr.denominator) if fr >= 0 else '((- (%d / %d)) * (PI / 180))' % (-fr.numerator, fr.denominator)
        for fn, n in (('cos', nc), ('sin', ns)):
            val = '(%d / %d)' % (n, DEN) if n >= 0 else '(- (%d / %d))' % (-n, DEN)
            goals.append('Goal Rabs (%s %s - %s) <= 1 / 100000000000000000000. Proof. interval with (i_prec 140). Qed.' % (fn, arg, val))
    head = 'From Coq Require Import Reals.\nFrom Interval Require Import Tactic.\nOpen Scope R_scope.\n'
    files = [('table_%d' % (k // 50), head + '\n'.join(goals[k:k + 50]) + '\n') for k in range(0, len(goals), 50)]
    res = ctx.coqc_many(files, 600)
    bad = [(f[0], o[-600:]) for f, (ok, o) in zip(files, res) if not ok]
    ctx.obligation('cos-sin-table proved by Interval (%d entries, |error| <= 1e-20)' % len(goals), not bad and len(goals) > 0, str(bad[:2]))


def qv(v):
    return '(%s, %s, %s)' % tuple(qlit(float(x)) for x in v)


def correspondence(ctx, cases):
    """rotate_point / rotate_points (both APIs, float64) and bring_plane_to_origin against the Q mirror in Coq"""
    nt, tt, rp = api()
    terms, meta = [], []
    for c in cases:
        mode, angles = c['mode'], [float(a) for a in c['angles']]
        if sum(abs(a) for a in angles) > 4e6:
            continue
        tol = 1e-12 + 1e-16 * sum(abs(a) for a in angles)
        kind = c['kind']
        pts = c['points']; origin = c['origin']; offset = c['offset']
        scale = max(max(abs(v) for p in pts for v in p), max(abs(v) for v in origin), max(abs(v) for v in offset), 1e-300)
        try:
            if kind == 'np_rotate_points':
                r = np.asarray(nt.rotate_points(np.array(pts, float), angles=list(angles), mode=mode, origin=list(origin), offset=list(offset)), float).reshape(-1, 3)
            elif kind == 'np_rotate_point':
                r = np.array([np.asarray(nt.rotate_point(np.array(p, float), angles=list(angles), mode=mode, origin=list(origin), offset=list(offset))[0], float) for p in pts])
            elif kind == 't_rotate_points':
                r = tt.rotate_points(torch.tensor(pts, dtype=torch.float64), angles=torch.tensor(angles, dtype=torch.float64), mode=mode,
                                     origin=torch.tensor(origin, dtype=torch.float64), offset=torch.tensor(offset, dtype=torch.float64))[0].numpy().reshape(-1, 3)
            else:                                             # bring_plane_to_origin(points, center=origin, angles, mode)
                if mode not in REV: continue
                r = np.asarray(rp.bring_plane_to_origin(np.array(pts, float), None, center=list(origin), angles=list(angles), mode=mode), float).reshape(-1, 3)
        except Exception as e:
            ctx.violation(FN[('numpy', 'bring_plane_to_origin')] if kind == 'bpo' else FN[('torch' if kind[0] == 't' else 'numpy', 'rotate_points' if 'points' in kind else 'rotate_point')],
                          'no_exception', dict(c, oracle='coq'), 'a result', repr(e))
            continue
        if not np.isfinite(r).all():
            continue
        zero = all(a == 0 for a in angles)
        mi = MODES.index(mode)
        cstab = '(%s, %s, %s)' % tuple(qtab(-a if kind == 'bpo' else a) for a in angles)
        checks = []
        for p, rr in zip(pts, r):
            if kind == 'bpo':
                model = 'match qbring_to_origin (mode_of_nat %d) %s cs o %s with Some v => v | None => (1000000, 1000000, 1000000) end' % (
                    mi, 'true' if zero else 'false', qv(p))
            elif kind == 'np_rotate_points':
                model = 'qnp_rotate_points (mode_of_nat %d) %s cs %s o f' % (mi, 'true' if zero else 'false', qv(p))
            else:
                model = 'qrotate (mode_of_nat %d) cs %s o f' % (mi, qv(p))
            checks.append('qclose tol (%s) %s' % (model, qv(rr)))
        terms.append('(let cs := %s in let o := %s in let f := %s in let tol := %s in qunit (1 # 1000000000000000000) cs && %s)%%bool' % (
            cstab, qv(origin), qv(offset), qlit(tol * scale), ' && '.join(checks)))
        meta.append((c, pts, r.tolist()))
    vals = ctx.coq_eval(PRE, terms, label='model_vs_impl', chunk=20)
    validate_table(ctx)
    bad = 0
    for v, (c, p, rr) in zip(vals, meta):
        if v is None:
            continue
        ctx.traces += len(p)
        ctx.case('coq/%s/%s' % (c['kind'], 'zero' if all(a == 0 for a in c['angles']) else 'general'), ('coq', c['kind'], c['mode'], str(c['angles']), str(p)))
        if v != 'true':
            bad += 1
            fnn = FN[('numpy', 'bring_plane_to_origin')] if c['kind'] == 'bpo' else FN[('torch' if c['kind'][0] == 't' else 'numpy', 'rotate_points' if 'points' in c['kind'] else 'rotate_point')]
            ctx.violation(fnn, 'equals_model_executed_in_coq', dict(c, oracle='coq', point=p), 'the Q model within tolerance', rr)
    ctx.obligation('correspondence:model-in-Coq = implementation (%d calls, %d points)' % (len(meta), sum(len(m[1]) for m in meta)), bad == 0 and len(meta) > 0, '%d disagreements' % bad)


def oracle_coq(inp):
    """replay of a correspondence case: the same comparison against the independent float64 reference"""
    c = inp; nt, tt, rp = api()
    kind, mode, angles = c['kind'], c['mode'], c['angles']
    pts, origin, offset = c['points'], c['origin'], c['offset']
    if kind == 'bpo':
        r = np.asarray(rp.bring_plane_to_origin(np.array(pts, float), None, center=list(origin), angles=list(angles), mode=mode), float).reshape(-1, 3)
        ref = (ref_matrix(mode, angles).T @ (np.array(pts, float) - np.array(origin)).T).T
    else:
        which = 'torch' if kind[0] == 't' else 'numpy'
        r, _ = call_rotate(which, 'rotate_points', mode, angles, pts, origin, offset, 'float64')
        ref = ref_rotate(mode, angles, pts, origin, offset)
    scale = max(float(np.abs(np.array(pts)).max()), float(np.abs(np.array(origin)).max()), float(np.abs(np.array(offset)).max()), 1e-300)
    tol = 1e-12 + 1e-16 * sum(abs(a) for a in angles)
    return [('equals_model_executed_in_coq', float(np.abs(r - ref).max()) <= tol * scale, ref.tolist(), r.tolist())]


ORACLES['coq'] = oracle_coq


def gen_coq_cases(ctx, n):
    rng = ctx.rng
    out = []
    kinds = ['np_rotate_points', 'np_rotate_point', 't_rotate_points', 'bpo']
    for i in range(n):
        pts, origin, offset = gen_cloud(rng, i)
        pts = pts[:3]
        angles = gen_angles(rng, i)
        kind = kinds[i % 4]
        if kind == 'bpo':
            offset = [0.0, 0.0, 0.0]
            if i % 8 == 3: pts = (pts + [gen_vec(rng, 1.0) for _ in range(3)])[:3]
        out.append({'kind': kind, 'mode': MODES[(i // 4) % 5], 'angles': angles, 'points': pts, 'origin': origin, 'offset': offset})
    return out


# ---------------------------------------------------------------- translator self-check
def self_check(ctx, g, ncase):
    nt, tt, rp = api()
    rng = ctx.rng
    bad = 0; n = 0

    def cmp(name, env, val, rtol=1e-9, atol=1e-11):
        nonlocal bad, n
        n += 1
        got = g.evalf(name, env)
        if not emit.close(got, val, rtol, atol):
            bad += 1
            if bad <= 5: ctx.log('self-check mismatch', name, got, val)
    for i in range(ncase):
        angles = gen_angles(rng, i)
        angles = [a if abs(a) <= 1e4 else math.copysign(1e4, a) for a in angles]
        pts, origin, offset = gen_cloud(rng, 1)                     # two points, unit scale
        mode = MODES[i % 5]
        env = {'a': angles[0]}
        for k in range(3):
            env['a_%d' % k] = angles[k]; env['o_%d' % k] = origin[k]; env['f_%d' % k] = offset[k]; env['p_%d' % k] = pts[0][k]
            env['p_0_%d' % k] = pts[0][k]; env['p_1_%d' % k] = pts[1][k]; env['c_%d' % k] = origin[k]
        for ax in 'xyz':
            mn = getattr(nt, 'rotmat' + ax)(angles[0]); mt = getattr(tt, 'rotmat' + ax)(torch.tensor([angles[0]], dtype=torch.float64)).numpy()
            for r in range(3):
                for c in range(3):
                    cmp('n_rotmat%s_%d_%d' % (ax, r, c), env, mn[r, c]); cmp('t_rotmat%s_%d_%d' % (ax, r, c), env, mt[r, c])
        r1 = nt.rotate_point(np.array(pts[0], float), angles=list(angles), mode=mode, origin=list(origin), offset=list(offset))[0]
        r2 = nt.rotate_points(np.array(pts, float), angles=list(angles), mode=mode, origin=list(origin), offset=list(offset))
        r3 = tt.rotate_points(torch.tensor(pts, dtype=torch.float64), angles=torch.tensor(angles, dtype=torch.float64), mode=mode,
                              origin=torch.tensor(origin, dtype=torch.float64), offset=torch.tensor(offset, dtype=torch.float64))[0].numpy()
        G = tt.get_rotation_matrix(torch.tensor(angles, dtype=torch.float64).reshape(3, 1), tilt_order=mode).numpy()
        for k in range(3):
            cmp('n_rp_%s_%d' % (mode, k), env, r1[k])
            for j in range(2):
                cmp('n_rps_%s_%d_%d' % (mode, j, k), env, r2[j, k]); cmp('t_rps_%s_%d_%d' % (mode, j, k), env, r3[j, k])
            for c in range(3):
                cmp('t_grm_%s_%d_%d' % (mode, k, c), env, G[k, c])
        if all(a == 0 for a in angles):
            for j in range(2):
                for k in range(3): cmp('n_rpz_%s_%d_%d' % (mode, j, k), env, r2[j, k])
        if mode in REV:
            b = np.asarray(rp.bring_plane_to_origin(np.array(pts, float), None, center=list(origin), angles=list(angles), mode=mode)).reshape(-1, 3)
            for j in range(2):
                for k in range(3): cmp('n_bpo_%s_%d_%d' % (mode, j, k), env, b[j, k])
        # forwarding callers (traced with 2 x 2 grids / 2 x 1 x 2 boxes)
        size = [rng.uniform(0.5, 4.0) for _ in range(3)]; cen = origin
        for k in range(3): env['s_%d' % k] = size[k]; env['q_%d' % k] = cen[k]
        for fn, pre, nn, flatpre in (('np.grid_sample', 'n_grid', [2, 2, 1], 'n_grid0'), ('t.grid_sample', 't_grid', [2, 2, 1], 't_grid0'),
                                     ('np.box_volume_sample', 'n_box', [2, 1, 2], 'n_box0'), ('np.define_plane', 'n_plane', None, 'n_plane0'),
                                     ('t.define_plane', 't_plane', None, 't_plane0')):
            rr, _ = call_caller(fn, nn or [2, 2, 1], size, cen, angles, 0)
            r0, _ = call_caller(fn, nn or [2, 2, 1], size, [0.0, 0.0, 0.0], [0.0, 0.0, 0.0], 0)
            lo = fn.startswith('t.')
            # float32 results: the absolute error scales with the size of the terms that are added (rotated extent + centre), not with the result
            mag = 1.0 + max(abs(x) for x in list(size) + list(cen))
            for j in range(rr.shape[0]):
                for k in range(3):
                    cmp('%s_%d_%d' % (pre, j, k), env, rr[j, k], 1e-5 if lo else 1e-9, 2e-5 * mag if lo else 1e-11)
                    cmp('%s_%d_%d' % (flatpre, j, k), env, r0[j, k], 1e-5 if lo else 1e-9, 2e-5 * mag if lo else 1e-11)
        loc, look = gen_vec(rng, 1.0), gen_vec(rng, 1.0)
        for k in range(3): env['l_%d' % k] = loc[k]; env['k_%d' % k] = look[k]
        tn = nt.tilt_towards(list(loc), list(look)); tq = tt.tilt_towards(list(loc), list(look))
        for k in range(3):
            cmp('n_tilt_%d' % k, env, tn[k]); cmp('t_tilt_%d' % k, env, tq[k], 1e-5, 2e-4)
    ctx.traces += n
    ctx.obligation('translator-self-check(traced terms = real functions on %d values)' % n, bad == 0 and n > 0, '%d mismatches' % bad)


# ---------------------------------------------------------------- run
def run_oracles(ctx, scale=1):
    n_or = 0
    for inp in gen_matrix_cases(ctx, 60 * scale):
        bad, res = apply_oracle(ctx, 'matrix', inp); n_or += 1
        ctx.case('matrix/%s/%s/%s/%s' % (inp['api'], inp['fn'], inp['form'], inp['dtype']), ('m', inp['api'], inp['fn'], inp['form'], inp['dtype'], str(inp['angles']), inp.get('mode')), nontrivial=len(res) >= 4)
    for inp in gen_rotate_cases(ctx, 180 * scale):
        bad, res = apply_oracle(ctx, 'rotate', inp); n_or += 1
        ctx.case('rotate/%s/%s/%s/%s' % (inp['api'], inp['fn'], inp['mode'], inp['dtype']), ('r', json.dumps(inp, sort_keys=True)), nontrivial=len(res) >= 5)
        if len(ctx.samples) < 3 and not all(a == 0 for a in inp['angles']):
            ctx.sample({'oracle': 'rotate', 'input': inp, 'clauses': [r[0] for r in res]})
    for inp in gen_inverse_cases(ctx, 80 * scale):
        bad, res = apply_oracle(ctx, 'inverse', inp); n_or += 1
        ctx.case('inverse/%s/%s/%dpts' % (inp['api'], inp['mode'], 1 if inp.get('single') else len(inp['points'])), ('i', json.dumps(inp, sort_keys=True)), nontrivial=len(res) >= 2)
        if inp['mode'] == 'XZY' and inp['api'] == 'numpy' and 'xzy_reverse' not in ctx.extra:
            ctx.extra['xzy_reverse'] = [r[0] + ': ' + str(r[3]) for r in res if r[0] in ('reverse_order_not_offered', 'bring_plane_restores_points')][:1]
    for inp in gen_same_cases(ctx, 60 * scale):
        bad, res = apply_oracle(ctx, 'same', inp); n_or += 1
        ctx.case('same/%s/%s' % (inp['mode'], inp['dtype']), ('s', json.dumps(inp, sort_keys=True)), nontrivial=len(res) >= 5)
    for inp in gen_joint_rotate_cases(ctx, 40 * scale):
        bad, res = apply_oracle(ctx, 'rotate', inp); n_or += 1
        ctx.case('rotate-joint/%s/%s/%s/%s' % (inp['api'], inp['fn'], inp['mode'], inp['dtype']), ('rj', json.dumps(inp, sort_keys=True)), nontrivial=len(res) >= 5)
        bad, res = apply_oracle(ctx, 'same', {k: inp[k] for k in ('mode', 'angles', 'points', 'origin', 'offset', 'dtype')}); n_or += 1
    for inp in gen_caller_cases(ctx, 64 * scale):
        bad, res = apply_oracle(ctx, 'caller', inp); n_or += 1
        both = any(inp['center']) and any(inp['angles'])
        ctx.case('caller/%s/%s' % (inp['fn'], 'tilt+centre' if both else 'one-of'), ('c', json.dumps(inp, sort_keys=True)), nontrivial=both and len(res) >= 3)
        if both and len(ctx.samples) < 6:
            ctx.sample({'oracle': 'caller', 'input': inp, 'clauses': [r[0] for r in res]})
    for inp in gen_reuse_cases(ctx, 48 * scale):
        bad, res = apply_oracle(ctx, 'reuse', inp); n_or += 1
        ctx.case('reuse/%s/%s/%s/%s' % (inp['api'], inp['fn'], inp['dtype'], inp.get('via', 'native')), ('u', json.dumps(inp, sort_keys=True)), nontrivial=len(res) >= 5)
    for inp in gen_tilt_cases(ctx, 40 * scale):
        bad, res = apply_oracle(ctx, 'tilt', inp); n_or += 1
        ctx.case('tilt/%s/%s' % (inp['api'], 'boundary' if inp.get('boundary') else 'generic'), ('t', json.dumps(inp, sort_keys=True)), nontrivial=len(res) >= 4)
        if len(ctx.samples) < 5 and not inp.get('boundary'):
            ctx.sample({'oracle': 'tilt', 'input': inp, 'clauses': [r[0] for r in res]})
    ctx.extra['oracle_calls'] = n_or


def run(ctx):
    ctx.rule = ('angle triples: uniform in [-360, 360], boundary list (0, -0, +-90/180/270/360, 720, 3600, near-90, 1e-12, 1e4..1e6, '
                '1e9..1e15 for rigidity only), all-zero and single-axis triples; five modes; clouds of 1, 2, 3, 4, 5, 7 points at scales '
                '1e-3..1e3 with zero / random origin and offset, omitted arguments, single 1-D points; NumPy float64, PyTorch float64 and '
                'float32; API forms of the angle argument (float, int, 0-d / 1-element tensor, list, [3] and [3,1] tensors, defaults); '
                'aliasing / reuse stream (non-zero origins): origin is the point object, repeated identical calls, there-and-back with the same '
                'objects, NumPy arrays shared with zero-copy torch views, arguments compared before/after; '
                'non-trivial = all clauses of the oracle evaluated; distinct by full input')
    ctx.trusted += ['tracer/shim.py + tracer/recipes/c13.py incl. the if-conversion of the NumPy zero-angle test (translator; validated each run by the numeric self-check)',
                    'torch/numpy kernels (mm, dot, cos, sin, sqrt, arccos, arctan2, deg2rad): modelled as exact real functions; float rounding is not modelled, '
                    'the oracles and the Coq correspondence bound it by stated tolerances',
                    'cos/sin table handed to the Q mirror comes from mpmath; every entry is re-proved on each run by Coq Interval to be within 1e-20 of the true value (so mpmath is not trusted); '
                    'the step from "implementation = Q model at the table" to "implementation = real model" uses that the model is 3*|p|-Lipschitz in the table (not formalised)',
                    'shape handling of the real functions (unsqueeze, reshape of single points, .T) is exercised by the oracles; the tracer sees fixed shapes (2 points)']
    ctx.assumptions += ['the PyTorch get_rotation_matrix / rotmat* are traced with 1-element angle tensors ([3,1] input); other accepted forms are covered by the oracles',
                        'mode strings outside XYZ/XZY/YXZ/ZXY/ZYX are outside the property (the library raises UnboundLocalError); so is the reverse of XZY']
    ctx.gate()
    ctx.ensure_theories(['theories/C13/Props.vo'])
    ctx.theorems('OdakV.C13.Props', PROPS)
    ctx.log('theories built, %d theorems checked' % len(PROPS))
    # B1
    try:
        g = recipe.trace()
        ctx.programs = len(g.defs)
        ctx.extra['if_converted'] = g.info
        ctx.obligation('translator:trace(%d definitions, %d nodes)' % (len(g.defs), g.total_size()), True)
    except Exception as e:
        g = None
        ctx.obligation('translator:trace', False, repr(e))
    if g is not None:
        ctx.compile_tie('GenC13', g.text(), [['C13_TieA', 'C13_TieB', 'C13_TieC', 'C13_TieD', 'C13_TieE'], ['C13_TieProps']])
        try:
            self_check(ctx, g, 60 if ctx.thorough else 20)
        except Exception as e:
            ctx.obligation('translator-self-check', False, repr(e))
        ctx.sample({'traced_definition': 't_grm_ZXY_0_1', 'coq': __import__('tracer.shim').shim.coq(g.by_name['t_grm_ZXY_0_1'][1])[:300]})
    ctx.log('B1 done: tie files compiled, translator self-check run')
    # B2
    correspondence(ctx, gen_coq_cases(ctx, 3000 if ctx.thorough else 160))
    ctx.log('B2 done: model executed in Coq on the generated cases')
    # direct oracles
    run_oracles(ctx, 25 if ctx.thorough else 1)
    ctx.log('direct oracles done')


def search(ctx):
    for k in range(4):
        run_oracles(ctx, 3)
        if ctx.viol:
            return


def replay(ctx, rec):
    if rec.get('no_failing_input_found'):
        print('replay names broken obligations only:', json.dumps(rec['broken_obligations'])[:3000]); return 1
    inp = dict(rec['input']); name = inp.pop('oracle')
    inp.pop('point', None)
    try:
        res = ORACLES[name](inp)
    except Exception as e:
        res = [('no_exception', False, 'a result', repr(e))]
    for r in res:
        print(('FAIL ' if not r[1] else 'ok   ') + r[0], '' if r[1] else 'expected=%s observed=%s' % (str(r[2])[:300], str(r[3])[:300]))
    return 1 if [r for r in res if not r[1]] else 0
