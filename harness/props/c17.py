"""C17 — losses vanish at identity, are non-negative, and do not depend on call history.

Proof: coq/theories/C17 (closed-form losses over R on pixel lists of any length; histogram loss over Q;
caching state machines with free statistics and a heap of gaze lists / tensors, history independence IFF
the cache key holds every argument by value).
Tie to /repo, re-checked on every run:
  B1  the closed-form losses (wrapped MSE, total variation, multiplane / perceptual multiplane __call__,
      PSNR, speckle contrast, phase gradient) are cut from the current sources, executed symbolically and
      proved equal to the model for all reals (coq/tie/C17_Tie{A,B,C}.v); numeric translator self-check.
  B2  (a) torch.histc / histogram_loss against the Q model evaluated inside Coq on the same dyadic images;
      (b) the state machines are run inside Coq (vm_compute) on the same call histories as the real loss
      objects (calls, new gaze lists, gaze lists edited in place, tensors edited in place, new sizes); the
      descriptor the model returns is evaluated with fresh objects and compared with what the object with
      the history returned; the implementation's cache behaviour is OBSERVED as well (calls of the LOD-map
      helpers and of the pyramid constructor are counted per loss call) and compared with the model's
      recompute / reuse events: a reuse by the code where the model recomputes means a cache key that misses
      an argument (gaze moves from 1e-6 to 0.3, one coordinate only, few-ulp target edits are in the histories).
Direct oracles state every clause on the implementation and give replayable failing inputs.
"""
import json, math, re
import numpy as np
import torch
from harness.common import zlit, qlit, listlit
from tracer import emit

PROPS = ['C17_rvb_history_iff', 'C17_rvb_history_independent', 'C17_flag_from_self_refuted', 'C17_ms_tv_nonneg', 'C17_ms_tv_uniform', 'C17_speckle_uniform_window', 'C17_speckle_finite_refuted', 'C17_speckle_finite_partial',
         'C17_stats_loss_nonneg', 'C17_stats_loss_identity', 'C17_metameric_value_nonneg', 'C17_metameric_value_identity',
         'C17_blur_lowpass_value_nonneg', 'C17_blur_lowpass_value_identity', 'C17_blur_match_value_nonneg', 'C17_metamer_mse_value_nonneg',
         'C17_metamer_mse_value_zero', 'C17_lod_hit_iff_key', 'C17_lod_miss_recomputes', 'C17_metameric_reuse_iff_key', 'C17_metamer_mse_reuse_iff_key',
         'C17_mse_nonneg', 'C17_mse_zero_iff', 'C17_multiplane_nonneg', 'C17_multiplane_zero',
         'C17_perceptual_multiplane_nonneg', 'C17_perceptual_multiplane_zero',
         'C17_wmse_nonneg', 'C17_wmse_sum_nonneg', 'C17_wmse_zero', 'C17_wmse_sum_zero', 'C17_wmse_closed',
         'C17_wmse_term_periodic', 'C17_wmse_periodic', 'C17_wmse_sum_periodic',
         'C17_tv_nonneg', 'C17_tv_uniform', 'C17_psnr_antitone',
         'C17_speckle_nonneg', 'C17_speckle_uniform', 'C17_speckle_variance_nonneg', 'C17_speckle_clamp_noop',
         'C17_phase_gradient_nonneg', 'C17_phase_gradient_zero', 'C17_phase_gradient_uniform_interior',
         'C17_hist_zero', 'C17_hist_nonneg', 'C17_hist_bins_in_range',
         'C17_blur_history_iff', 'C17_metameric_history_iff', 'C17_metamer_mse_history_iff',
         'C17_blur_history_independent', 'C17_metameric_history_independent', 'C17_metamer_mse_history_independent',
         'C17_metameric_fresh_descriptor', 'C17_legacy_metameric_refuted', 'C17_legacy_metamer_mse_refuted',
         'C17_legacy_blur_refuted', 'C17_legacy_metameric_size_crash', 'C17_instance']
PRE = ('From Coq Require Import ZArith List QArith. Import ListNotations.\n'
       'From OdakV Require Import C17.Model.\nOpen Scope Z_scope.')
ZERO_TOL = 1e-12          # "zero at identity": identical computations on both sides, nothing to round (deterministic
                          # because ./check pins OMP_NUM_THREADS=1: the reduction order is then fixed)
GU = 1000000              # gaze unit of the model: a model gaze (gx, gy) denotes [gx / GU, gy / GU]
T = 100000                # one tenth
SPECKLE_TOL = 1e-4        # speckle loss of a uniform positive image (float32 cancellation residue ~1e-6)
HIST_RTOL = 1e-6


def api():
    import odak.learn.perception as P
    import odak.learn.wave.loss as WL
    import odak.learn.tools.loss as TL
    import odak.learn.perception.image_quality_losses as IQ
    return P, WL, TL, IQ


def rand_tensor(shape, seed, scale=1.0, shift=0.0, dtype=torch.float32):
    g = torch.Generator().manual_seed(int(seed) % (2 ** 31))
    return (torch.rand(*shape, generator=g, dtype=torch.float64) * scale + shift).to(dtype)


def fin(v):
    return bool(torch.isfinite(torch.as_tensor(v)).all())


def val(v):
    v = torch.as_tensor(v)
    return float(v) if v.numel() == 1 else [float(x) for x in v.reshape(-1)[:8]]


# ================================================================ gaze-contingent losses (state machines)
# configuration codes of the model (Model.v: cfg): the arguments besides shape and gaze that select the pooling map.
# Code 0 is the default every constructor / blur() falls back to.
CFGS = [
    {'alpha': 0.2, 'real_image_width': 0.2, 'real_viewing_distance': 0.7, 'mode': 'quadratic', 'equi': False},
    {'alpha': 0.2, 'real_image_width': 0.2, 'real_viewing_distance': 0.7, 'mode': 'quadratic', 'equi': True},
    {'alpha': 0.2, 'real_image_width': 0.2, 'real_viewing_distance': 0.7, 'mode': 'linear', 'equi': False},
    {'alpha': 0.2, 'real_image_width': 0.2, 'real_viewing_distance': 0.7, 'mode': 'linear', 'equi': True},
    {'alpha': 0.3, 'real_image_width': 0.2, 'real_viewing_distance': 0.7, 'mode': 'quadratic', 'equi': False},
    {'alpha': 0.2, 'real_image_width': 0.3, 'real_viewing_distance': 0.7, 'mode': 'quadratic', 'equi': False},
    {'alpha': 0.2, 'real_image_width': 0.2, 'real_viewing_distance': 0.5, 'mode': 'quadratic', 'equi': False},
]
KINDS = {
    # name: (machine id in Model.v, constructor, configuration code the object is constructed with)
    'blur_lowpass': (1, lambda P: P.BlurLoss(blur_source=True), 0),
    'blur_match': (1, lambda P: P.BlurLoss(blur_source=False, alpha=0.3), 4),
    'metameric': (2, lambda P: P.MetamericLoss(n_pyramid_levels=2, n_orientations=2), 0),
    'metameric_radial': (2, lambda P: P.MetamericLoss(n_pyramid_levels=2, n_orientations=2, use_l2_foveal_loss=False, use_radial_weight=True), 0),
    'metameric_fullres': (2, lambda P: P.MetamericLoss(n_pyramid_levels=2, n_orientations=1, use_l2_foveal_loss=False, use_fullres_l0=True, mode='linear'), 2),
    'metamer_mse': (3, lambda P: P.MetamerMSELoss(n_pyramid_levels=2, n_orientations=2), 0),
    'metameric_uniform': (2, lambda P: P.MetamericLossUniform(n_pyramid_levels=2, n_orientations=2, pooling_size=8), 0),
    # non-default configurations: equirectangular mode (the gaze is a pair of angles), linear mode, the other flag combinations
    'blur_lowpass_equi': (1, lambda P: P.BlurLoss(blur_source=True, equi=True), 1),
    'blur_match_linear_equi': (1, lambda P: P.BlurLoss(blur_source=False, mode='linear', equi=True), 3),
    'metameric_equi': (2, lambda P: P.MetamericLoss(n_pyramid_levels=2, n_orientations=2, equi=True), 1),
    'metameric_plain_linear_equi': (2, lambda P: P.MetamericLoss(n_pyramid_levels=2, n_orientations=1, use_l2_foveal_loss=False, mode='linear', equi=True), 3),
    'metameric_radial_fullres': (2, lambda P: P.MetamericLoss(n_pyramid_levels=2, n_orientations=1, use_l2_foveal_loss=False, use_fullres_l0=True, use_radial_weight=True), 0),
    'metamer_mse_equi': (3, lambda P: P.MetamerMSELoss(n_pyramid_levels=2, n_orientations=2, equi=True), 1),
}
BASE_KINDS = ('blur_lowpass', 'blur_match', 'metameric', 'metameric_radial', 'metameric_fullres', 'metamer_mse', 'metameric_uniform')


def kind_equi(kind):
    return CFGS[KINDS[kind][2]]['equi']


SHAPES = {3032: (1, 3, 32, 32), 3048: (1, 3, 48, 48), 1032: (1, 1, 32, 32), 3040: (1, 3, 40, 32), 3024: (1, 3, 24, 32), 3025: (1, 3, 25, 30), 1024: (1, 1, 24, 32)}


def content_tensor(content, base_seed=0):
    """the tensor denoted by a model content (shape code, data id); data 0 is the all-zero tensor"""
    code, d = content
    if d >= 100:
        # data 100 + k: tensor k with ONE pixel (all channels) moved by 2e-6 relative (1e-6 absolute on zeros): a few ulp,
        # enough to survive odak's own preprocessing (RGB -> YCrCb rounds a 1-ulp change of one channel away, and the
        # cache legitimately compares the converted target) and far below allclose / isclose default tolerances
        x = content_tensor((code, d - 100), base_seed).clone()
        x[0, :, 0, 0] = x[0, :, 0, 0] * (1 + 2e-6) + (1e-6 if d == 100 else 0.0)
        return x
    if d == 0:
        return torch.zeros(*SHAPES[code])
    return rand_tensor(SHAPES[code], 7919 * d + code + base_seed)


def gaze_val(g, equi=False):
    """the Python gaze list denoted by a model gaze; in equirectangular mode the gaze is (yaw, pitch) in radians"""
    if equi:
        return [(g[0] / GU - 0.5) * 2 * math.pi * 0.95, (g[1] / GU - 0.5) * math.pi * 0.95]
    return [g[0] / GU, g[1] / GU]


class Counters:
    """Counts, while active, the calls of the helpers that (re)compute cached values: the LOD-map builders used by
    RadiallyVaryingBlur and SpatialSteerablePyramid.construct_pyramid (one per statistics computation)."""
    def __init__(self):
        self.lod = 0; self.pyr = 0; self.ok = True; self._undo = []

    def __enter__(self):
        try:
            import odak.learn.perception.radially_varying_blur as rvb
            import odak.learn.perception.spatial_steerable_pyramid as ssp
            for name in ('make_pooling_size_map_lod', 'make_equi_pooling_size_map_lod'):
                orig = getattr(rvb, name)
                def wrapped(*a, _o=orig, **k):
                    self.lod += 1
                    return _o(*a, **k)
                setattr(rvb, name, wrapped); self._undo.append((rvb, name, orig))
            cls = ssp.SpatialSteerablePyramid
            orig = cls.construct_pyramid
            def wrapped(obj, *a, _o=orig, **k):
                self.pyr += 1
                return _o(obj, *a, **k)
            cls.construct_pyramid = wrapped; self._undo.append((cls, 'construct_pyramid', orig))
        except Exception:
            self.ok = False
        return self

    def __exit__(self, *a):
        for obj, name, orig in reversed(self._undo):
            setattr(obj, name, orig)
        return False


def call_loss(kind, obj, img, tgt, gaze):
    try:
        if kind == 'metameric_uniform':
            v = obj(img, tgt)
        else:
            v = obj(img, tgt, gaze=gaze)
        return float(v)
    except Exception as e:
        return 'crash:' + type(e).__name__


class Fresh:
    """memoised values of FRESH loss objects: (kind, image content, target content, gaze value)"""
    def __init__(self):
        self.memo = {}

    def __call__(self, kind, ci, ct, g):
        key = (kind, tuple(ci), tuple(ct), None if kind == 'metameric_uniform' else tuple(g))
        if key not in self.memo:
            P = api()[0]
            obj = KINDS[kind][1](P)
            self.memo[key] = call_loss(kind, obj, content_tensor(ci), content_tensor(ct), gaze_val(g, kind_equi(kind)))
        return self.memo[key]


def run_history(kind, env, ops):
    """Run a history on ONE real loss object.  env = {'tensors': [content...], 'gazes': [(gx,gy)...]};
    ops = ['call', i, t, g] | ['setgaze', g, [gx, gy]] | ['setdata', t, d].  Gaze lists and tensors are real
    heap objects: the same list / tensor object is passed again after being edited in place.
    Returns one record per call: (observed, image content, target content, gaze value at call time)."""
    P = api()[0]
    obj = KINDS[kind][1](P)
    contents = [tuple(c) for c in env['tensors']]
    tensors = [content_tensor(c) for c in contents]
    gvals = [tuple(g) for g in env['gazes']]
    eq = kind_equi(kind)
    gazes = [gaze_val(g, eq) for g in gvals]
    out = []
    for op in ops:
        if op[0] == 'call':
            _, i, t, g = op[:4]
            with Counters() as cnt:
                v = call_loss(kind, obj, tensors[i], tensors[t], gazes[g])
            out.append((v, contents[i], contents[t], gvals[g], (cnt.lod, cnt.pyr) if cnt.ok else None))
        elif op[0] == 'setgaze':
            _, g, v = op
            gazes[g][0], gazes[g][1] = gaze_val(v, eq)                   # in place: same list object
            gvals[g] = tuple(v)
        elif op[0] == 'setdata':
            _, t, d = op
            contents[t] = (contents[t][0], d)
            with torch.no_grad():
                tensors[t].copy_(content_tensor(contents[t]))             # in place: same tensor object
    return out


def close(a, b):
    if isinstance(a, str) or isinstance(b, str):
        return isinstance(a, str) and isinstance(b, str)      # both crash
    if not (math.isfinite(a) and math.isfinite(b)):
        return (math.isnan(a) and math.isnan(b)) or a == b
    return abs(a - b) <= 1e-9 + 1e-6 * max(abs(a), abs(b))


def coq_env(env):
    return '{| e_tensor := %s; e_gaze := %s |}' % (
        listlit(['(%s, %s)' % (zlit(c[0]), zlit(c[1])) for c in env['tensors']]),
        listlit(['(%s, %s)' % (zlit(g[0]), zlit(g[1])) for g in env['gazes']]))


def coq_ops(ops, cfg=0):
    out = []
    for op in ops:
        if op[0] == 'call': out.append('Call %d%%nat %d%%nat %d%%nat %s' % (op[1], op[2], op[3], zlit(op[4] if len(op) > 4 else cfg)))
        elif op[0] == 'setgaze': out.append('SetGaze %d%%nat (%s, %s)' % (op[1], zlit(op[2][0]), zlit(op[2][1])))
        else: out.append('SetData %d%%nat %s' % (op[1], zlit(op[2])))
    return listlit(out)


def parse_runs(s):
    """'[[2; 3032; 1; ...]; [0]]' -> [[2, 3032, 1, ...], [0]]"""
    return [[int(x) for x in re.findall(r'-?\d+', inner)] for inner in re.findall(r'\[([^\[\]]*)\]', s)] if s.strip() != '[]' else []


def eval_descriptor(fresh, kind, d):
    """value denoted by a model result, computed with fresh objects (None: not expressible that way).
    Encodings (Model.v enc_out): lod = [shape, cfg, gx, gy]"""
    c0 = KINDS[kind][2]
    if d[0] == 0:
        return 'crash'
    if d[0] == 1:                                   # BlurOut img tgt lod
        if d[6] != c0: return None
        return fresh(kind, (d[1], d[2]), (d[3], d[4]), (d[7], d[8]))
    if d[0] == 2:                                   # MetOut img lod1 (Stats tgt lod2)
        if kind != 'metameric_uniform' and ((d[5], d[6]) != (d[11], d[12]) or d[4] != c0 or d[10] != c0):
            return None
        return fresh(kind, (d[1], d[2]), (d[7], d[8]), (d[5], d[6]))
    if d[0] == 3:                                   # MseOut img (Metamer tgt lod)
        if d[6] != c0: return None
        return fresh(kind, (d[1], d[2]), (d[3], d[4]), (d[7], d[8]))
    raise ValueError(d)


def gen_histories(ctx):
    """(label, env, ops) — exhaustive short histories over 2 gazes x 2 targets x 2 sizes, the boundary classes
    named by the property (incl. gaze moves at every scale from 1e-6 to 0.3, one coordinate only, few-ulp target
    edits), and random histories with in-place edits.  Gazes are in units of 1/GU."""
    rng = ctx.rng
    hs = []
    base = {'tensors': [(3032, 1), (3032, 2), (3032, 3), (3048, 4), (3048, 5), (3048, 6)], 'gazes': [(5 * T, 5 * T), (1 * T, 9 * T)]}
    opts = [(0, t, g) for t in (1, 2) for g in (0, 1)] + [(3, t, g) for t in (4, 5) for g in (0, 1)]
    depth = 3 if ctx.thorough else 2
    def rec(prefix):
        if prefix:
            hs.append(('exhaustive%d' % len(prefix), base, [['call', i, t, g] for (i, t, g) in prefix]))
        if len(prefix) < depth:
            for o in opts:
                rec(prefix + [o])
    rec([])
    # boundary classes
    b = {'tensors': [(3032, 1), (3032, 2), (3032, 0), (3048, 3), (3048, 4), (1032, 5), (1032, 6), (3032, 7), (3032, 102), (3032, 100)],
         'gazes': [(5 * T, 5 * T), (1 * T, 9 * T), (5 * T, 5 * T)]}
    hs += [
        ('same-target-new-gaze', b, [['call', 0, 1, 0], ['call', 0, 1, 1], ['call', 0, 1, 0]]),
        ('same-target-equal-gaze-other-list', b, [['call', 0, 1, 0], ['call', 0, 1, 2], ['call', 7, 1, 2]]),
        ('gaze-edited-in-place', b, [['call', 0, 1, 0], ['setgaze', 0, [2 * T, 8 * T]], ['call', 0, 1, 0], ['setgaze', 0, [5 * T, 5 * T]], ['call', 0, 1, 0]]),
        ('gaze-edited-in-place-twice', b, [['call', 0, 1, 1], ['setgaze', 1, [9 * T, 1 * T]], ['setgaze', 1, [0, 0]], ['call', 7, 1, 1], ['call', 0, 1, 0]]),
        ('new-size', b, [['call', 0, 1, 0], ['call', 3, 4, 0], ['call', 0, 1, 0]]),
        ('new-size-new-gaze', b, [['call', 3, 4, 1], ['call', 0, 1, 0], ['call', 3, 4, 0]]),
        ('new-channels', b, [['call', 0, 1, 0], ['call', 5, 6, 0], ['call', 0, 1, 0]]),
        ('zero-target-first', b, [['call', 2, 2, 0], ['call', 0, 1, 0], ['call', 0, 2, 0]]),
        ('zero-target-later', b, [['call', 0, 1, 0], ['call', 0, 2, 0], ['call', 2, 2, 1]]),
        ('target-edited-in-place', b, [['call', 0, 1, 0], ['setdata', 1, 9], ['call', 0, 1, 0], ['setdata', 1, 2], ['call', 0, 1, 0]]),
        ('target-zeroed-in-place', b, [['call', 0, 1, 0], ['setdata', 1, 0], ['call', 0, 1, 0]]),
        ('target-few-ulp-in-place', b, [['call', 0, 1, 0], ['setdata', 1, 102], ['call', 0, 1, 0], ['setdata', 1, 2], ['call', 0, 1, 0]]),
        ('target-few-ulp-other-tensor', b, [['call', 0, 1, 0], ['call', 0, 8, 0], ['call', 0, 1, 0], ['call', 0, 2, 0], ['call', 0, 9, 0]]),
        ('image-is-target', b, [['call', 1, 1, 0], ['call', 0, 1, 0], ['call', 1, 1, 1]]),
        ('shape-mismatch-raises-and-leaves-state', b, [['call', 0, 1, 0], ['call', 3, 1, 0], ['call', 0, 1, 1], ['call', 0, 1, 0]]),
        ('image-changes-only', b, [['call', 0, 1, 0], ['call', 7, 1, 0], ['setdata', 7, 8], ['call', 7, 1, 0]]),
    ]
    # gaze moves at several scales, through a new list and through an in-place edit, both / one coordinate
    for step in (1, 1000, 50000, 80000, 300000):            # 1e-6, 1e-3, 0.05, 0.08, 0.3
        for (dx, dy) in ((step, step), (step, 0), (0, -step)):
            g0 = (rng.choice([3, 4, 5, 6]) * T + rng.randint(0, 999) * 7, rng.choice([3, 4, 5, 6]) * T + rng.randint(0, 999) * 3)
            g1 = (g0[0] + dx, g0[1] + dy)
            e = {'tensors': [(3032, 1), (3032, 2), (3032, 3)], 'gazes': [g0, g1]}
            tag = 'gaze-step-%g%s' % (step / GU, '' if dx and dy else '-one-coordinate')
            hs.append((tag + '-new-list', e, [['call', 0, 1, 0], ['call', 0, 1, 1], ['call', 2, 1, 0]]))
            hs.append((tag + '-in-place', e, [['call', 0, 1, 0], ['setgaze', 0, list(g1)], ['call', 0, 1, 0], ['setgaze', 0, list(g0)], ['call', 2, 1, 0]]))
    # random histories (off-grid gazes, small and large moves, 1-ulp data variants)
    n = 60 if ctx.thorough else 14
    def rgaze(near=None):
        if near is not None and rng.random() < 0.6:
            st = rng.choice([1, 10, 1000, 20000, 50000, 80000])
            return (max(0, min(GU, near[0] + rng.choice([-st, 0, st]))), max(0, min(GU, near[1] + rng.choice([-st, 0, st]))))
        return (rng.randint(0, GU), rng.randint(0, GU)) if rng.random() < 0.7 else (rng.randint(0, 10) * T, rng.randint(0, 10) * T)
    for k in range(n):
        codes = [rng.choice([3032, 3032, 3048, 1032]) for _ in range(3)]
        tens = []
        for c in codes:
            d = rng.randint(0, 9)
            tens += [(c, d), (c, rng.choice([rng.randint(1, 9), d + 100]))]
        g0 = rgaze()
        gz = [g0, rgaze(g0), rgaze(g0)]
        env = {'tensors': tens, 'gazes': list(gz)}
        ops = []
        for _ in range(rng.randint(4, 9)):
            r = rng.random()
            if r < 0.6:
                t = rng.randrange(len(tens))
                same = [j for j in range(len(tens)) if tens[j][0] == tens[t][0]]
                i = rng.choice(same) if rng.random() < 0.95 else rng.randrange(len(tens))
                ops.append(['call', i, t, rng.randrange(3)])
            elif r < 0.85:
                j = rng.randrange(3); gz[j] = rgaze(gz[j])
                ops.append(['setgaze', j, list(gz[j])])
            else:
                ops.append(['setdata', rng.randrange(len(tens)), rng.choice([rng.randint(0, 9), rng.randint(100, 109)])])
        if not any(o[0] == 'call' for o in ops):
            ops.append(['call', 0, 0, 0])
        hs.append(('random', env, ops))
    return hs


def oracle_history(inp):
    """the value returned for (image, target, gaze) is what a fresh object returns, whatever came before"""
    kind, env, ops = inp['kind'], inp['env'], inp['ops']
    fresh = inp.get('_fresh') or Fresh()
    recs = inp.get('_recs') or run_history(kind, env, ops)      # (_recs: the run the correspondence just made on this history)
    out = []
    for k, (obs, ci, ct, g, _) in enumerate(recs):
        exp = fresh(kind, ci, ct, g)
        ok = close(obs, exp)
        clause = 'history_independent'
        if isinstance(obs, str) and not isinstance(exp, str):
            clause = 'no_exception_after_history'
        out.append((clause, ok, {'call': k, 'fresh_object': exp}, {'call': k, 'object_with_history': obs}))
    return out


# ================================================================ stateless clauses
def oracle_wmse(inp):
    TL = api()[2]
    dt = torch.float64 if inp.get('dtype') == 'float64' else torch.float32
    a = rand_tensor(inp['shape'], inp['seed'], inp['scale'], -inp['scale'] / 2, dt)
    b = rand_tensor(inp['shape'], inp['seed'] + 1, inp['scale'], -inp['scale'] / 2, dt)
    red = inp.get('reduction', 'mean')
    f = lambda x, y: TL.wrapped_mean_squared_error(x, y, reduction=red)
    v = f(a, b)
    n = a.numel() if red == 'sum' else 1
    tol = (2e-5 if dt == torch.float32 else 1e-12) * max(1.0, inp['scale']) * n
    out = [('finite', fin(v), 'finite', val(v)), ('nonneg', float(v) >= 0, '>= 0', val(v)),
           ('zero_at_identity', abs(float(f(a, a))) <= ZERO_TOL, 0.0, val(f(a, a)))]
    k = torch.tensor(inp['shifts'], dtype=dt).reshape(-1)[:a.numel()]
    ks = torch.zeros(a.numel(), dtype=dt); ks[:k.numel()] = k
    a2 = (a.double() + 2 * math.pi * ks.reshape(a.shape).double()).to(dt)
    v2 = f(a2, b)
    ptol = tol + (4e-6 if dt == torch.float32 else 1e-13) * (inp['scale'] + 2 * math.pi * float(ks.abs().max())) * n * 4
    out.append(('periodic_2pi', abs(float(v2) - float(v)) <= ptol, val(v), val(v2)))
    closed = (2 - 2 * torch.cos(a.double() - b.double()))
    closed = closed.mean() if red == 'mean' else closed.sum()
    out.append(('closed_form_2_minus_2cos', abs(float(closed) - float(v)) <= tol * 4, float(closed), val(v)))
    return out


def oracle_tv(inp):
    TL = api()[2]
    shape = inp['shape']
    if inp.get('uniform') is not None:
        x = torch.full(shape, float(inp['uniform']))
        if inp.get('per_channel') and len(shape) >= 3:
            for c in range(shape[-3]):
                x[..., c, :, :] = float(inp['uniform']) * (c + 1)
        v = TL.total_variation_loss(x)
        out = [('uniform_zero', abs(float(v)) <= ZERO_TOL and fin(v), 0.0, val(v))]
        if min(shape[-2:]) >= 2 ** inp.get('levels', 2):        # every pyramid level keeps at least one pixel
            vm = TL.multi_scale_total_variation_loss(x, levels=inp.get('levels', 2))
            out.append(('uniform_zero_multiscale', abs(float(vm)) <= ZERO_TOL and fin(vm), 0.0, val(vm)))
        return out
    x = rand_tensor(shape, inp['seed'], inp.get('scale', 1.0))
    v = TL.total_variation_loss(x)
    out = [('finite', fin(v), 'finite', val(v)), ('nonneg', float(v) >= 0, '>= 0', val(v))]
    if min(shape[-2:]) >= 2 ** inp.get('levels', 2):
        vm = TL.multi_scale_total_variation_loss(x, levels=inp.get('levels', 2))
        out += [('finite_multiscale', fin(vm), 'finite', val(vm)), ('nonneg_multiscale', float(vm) >= float(v) - 1e-6 * abs(float(v)), '>= single scale', [val(vm), val(v)])]
    if x.numel() > 1 and float(x.max() - x.min()) > 0 and min(shape[-2:]) > 1:
        out.append(('positive_when_not_uniform', float(v) > 0, '> 0', val(v)))
    return out


def oracle_hist(inp):
    TL = api()[2]
    x = rand_tensor(inp['shape'], inp['seed']); y = rand_tensor(inp['shape'], inp['seed'] + 1, inp.get('scale', 1.0))
    bins = inp.get('bins', 32); lim = inp.get('limits', [0., 1.])
    v = TL.histogram_loss(x, y, bins=bins, limits=lim); z = TL.histogram_loss(x, x.clone(), bins=bins, limits=lim)
    return [('finite', fin(v), 'finite', val(v)), ('nonneg', float(v) >= 0, '>= 0', val(v)),
            ('zero_at_identity', abs(float(z)) <= ZERO_TOL, 0.0, val(z))]


def make_multiplane(inp):
    WL = api()[1]
    c, h, w = inp['shape']
    img = rand_tensor((c, h, w), inp['seed']); dep = rand_tensor((h, w), inp['seed'] + 5)
    if inp.get('flat_depth') is not None:
        dep = torch.full((h, w), float(inp['flat_depth']))
    kw = dict(target_blur_size=inp.get('blur_size', 3), number_of_planes=inp['planes'], scheme=inp.get('scheme', 'defocus'),
              blur_ratio=inp.get('blur_ratio', 0.25), reduction=inp.get('reduction', 'mean'))
    if inp.get('perceptual'):
        return WL.perceptual_multiplane_loss(img, dep, additional_loss_weights={}, **kw)
    return WL.multiplane_loss(img, dep, weights=inp.get('weights', [1., 2.1, 0.6]), **kw)


def oracle_multiplane(inp):
    ml = make_multiplane(inp)
    targets, focus, depth = ml.get_targets()
    pid = inp.get('plane_id')
    tgt = targets[pid] if pid is not None else focus
    img = rand_tensor(tuple(tgt.shape), inp['seed'] + 9, inp.get('scale', 1.0))
    v = ml(img, tgt, pid) if pid is not None else ml(img, tgt)
    z = ml(tgt.clone(), tgt, pid) if pid is not None else ml(tgt.clone(), tgt)
    v1 = ml(img, tgt, pid) if pid is not None else ml(img, tgt)
    zmax = float(torch.as_tensor(z).abs().max())
    return [('finite', fin(v), 'finite', val(v)), ('nonneg', bool((torch.as_tensor(v) >= 0).all()), '>= 0', val(v)),
            ('zero_at_identity', zmax <= ZERO_TOL, 0.0, val(z)),
            ('repeatable', bool(torch.equal(torch.as_tensor(v), torch.as_tensor(v1))), val(v), val(v1))]


def oracle_psnr(inp):
    IQ = api()[3]
    t = rand_tensor(inp['shape'], inp['seed']); n = rand_tensor(inp['shape'], inp['seed'] + 1, 1.0, -0.5)
    e1, e2 = inp['e_small'], inp['e_large']
    p = IQ.PSNR()
    v1 = p(t + e1 * n, t, peak_value=inp.get('peak', 1.0)); v2 = p(t + e2 * n, t, peak_value=inp.get('peak', 1.0))
    return [('finite', fin(v1) and fin(v2), 'finite', [val(v1), val(v2)]),
            ('grows_as_error_shrinks', float(v1) > float(v2), 'psnr(e=%g) > psnr(e=%g)' % (e1, e2), [val(v1), val(v2)])]


def oracle_speckle(inp):
    WL = api()[1]
    sc = WL.speckle_contrast(kernel_size=inp['kernel'], step_size=tuple(inp.get('step', (1, 1))))
    if inp.get('uniform') is not None:
        x = torch.full(tuple(inp['shape']), float(inp['uniform']))
        v = sc(x)
        return [('uniform_finite', fin(v), 'finite', val(v)), ('uniform_zero', fin(v) and 0 <= float(v) <= SPECKLE_TOL, '0 (<= %g)' % SPECKLE_TOL, val(v))]
    if inp.get('dark') is not None:            # a non-negative intensity with a dark block at least as large as the window
        x = rand_tensor(tuple(inp['shape']), inp['seed'], 1.0, 0.05)
        r0, c0, n = inp['dark']
        x[..., r0:r0 + n, c0:c0 + n] = 0.0
        v = sc(x)
        return [('finite_dark_window', fin(v), 'finite', val(v))]
    x = rand_tensor(tuple(inp['shape']), inp['seed'], inp.get('scale', 1.0), inp.get('shift', 0.05))
    if inp.get('flat'):                       # nearly uniform: the cancellation regime
        x = torch.full(tuple(inp['shape']), float(inp['flat'])) + 1e-4 * (x - 0.5)
    v = sc(x)
    return [('finite', fin(v), 'finite', val(v)), ('nonneg', fin(v) and float(v) >= 0, '>= 0', val(v))]


def oracle_phase_gradient(inp):
    WL = api()[1]
    pg = WL.phase_gradient()
    h, w = inp['shape']
    if inp.get('uniform') is not None:
        c = float(inp['uniform'])
        x = torch.full((h, w), c)
        e = pg.functional_conv2d(x.reshape(1, 1, h, w))
        inner = e[0, 0, 1:-1, 1:-1]
        v0 = pg(torch.zeros(h, w))
        return [('zero_phase_zero', abs(float(v0)) <= ZERO_TOL, 0.0, val(v0)),
                ('uniform_interior_zero', bool((inner.abs() <= 1e-6 * max(1.0, abs(c))).all()), 0.0, val(inner.abs().max()) if inner.numel() else 0.0),
                ('uniform_finite_nonneg', fin(pg(x)) and float(pg(x)) >= 0, '>= 0', val(pg(x)))]
    x = rand_tensor((h, w), inp['seed'], inp.get('scale', 2 * math.pi))
    v = pg(x); v4 = pg(x.reshape(1, 1, h, w))
    return [('finite', fin(v), 'finite', val(v)), ('nonneg', float(v) >= 0, '>= 0', val(v)),
            ('same_for_2d_and_4d_input', float(v) == float(v4), val(v), val(v4))]


def oracle_gaze_loss(inp):
    """fresh object: finite, non-negative, zero at identity"""
    P = api()[0]
    kind = inp['kind']; code = inp['code']
    mk = KINDS[kind][1]
    img = content_tensor((code, inp['img'])); tgt = content_tensor((code, inp['tgt']))
    if inp.get('scale'):
        img = img * inp['scale']; tgt = tgt * inp['scale']
    g = gaze_val(inp['gaze'], kind_equi(kind))
    v = call_loss(kind, mk(P), img, tgt, g)
    out = [('no_exception', not isinstance(v, str), 'a value', v)]
    if isinstance(v, str):
        return out
    out += [('finite', math.isfinite(v), 'finite', v), ('nonneg', v >= 0, '>= 0', v)]
    if kind.startswith('metamer_mse'):
        # the loss compares the image with the METAMER of the target: its zero is at image = that metamer
        obj = mk(P); met = obj.gen_metamer(tgt, g)
        z = call_loss(kind, mk(P), met, tgt, g)
        out.append(('zero_at_target_metamer', (not isinstance(z, str)) and abs(z) <= ZERO_TOL, 0.0, z))
    elif not kind.startswith('blur_match'):
        z = call_loss(kind, mk(P), tgt.clone(), tgt, g)
        out.append(('zero_at_identity', (not isinstance(z, str)) and abs(z) <= ZERO_TOL, 0.0, z))
    v2 = call_loss(kind, mk(P), img, tgt, g)
    out.append(('two_fresh_objects_agree', close(v, v2), v, v2))
    return out


def oracle_stateless(inp):
    return {'wmse': oracle_wmse, 'tv': oracle_tv, 'hist': oracle_hist, 'multiplane': oracle_multiplane, 'psnr': oracle_psnr,
            'speckle': oracle_speckle, 'phase_gradient': oracle_phase_gradient, 'gaze_loss': oracle_gaze_loss}[inp['family']](inp)


ORACLES = {'stateless': oracle_stateless, 'history': oracle_history}      # + 'rvb' (defined below)
FN = {'wmse': 'odak.learn.tools.wrapped_mean_squared_error', 'tv': 'odak.learn.tools.total_variation_loss',
      'hist': 'odak.learn.tools.histogram_loss', 'multiplane': 'odak.learn.wave.multiplane_loss', 'psnr': 'odak.learn.perception.PSNR',
      'speckle': 'odak.learn.wave.speckle_contrast', 'phase_gradient': 'odak.learn.wave.phase_gradient'}
CLS = {'blur_lowpass_equi': 'BlurLoss', 'blur_match_linear_equi': 'BlurLoss', 'metameric_equi': 'MetamericLoss', 'metameric_plain_linear_equi': 'MetamericLoss',
       'metameric_radial_fullres': 'MetamericLoss', 'metamer_mse_equi': 'MetamerMSELoss',
       'blur_lowpass': 'BlurLoss', 'blur_match': 'BlurLoss', 'metameric': 'MetamericLoss', 'metameric_radial': 'MetamericLoss',
       'metameric_fullres': 'MetamericLoss', 'metamer_mse': 'MetamerMSELoss', 'metameric_uniform': 'MetamericLossUniform'}


def fname(name, inp):
    if name in ('rvb', 'rvb_history'):
        return 'odak.learn.perception.RadiallyVaryingBlur'
    if name == 'history' or inp.get('family') == 'gaze_loss':
        return 'odak.learn.perception.' + CLS[inp['kind']]
    if inp.get('family') == 'multiplane' and inp.get('perceptual'):
        return 'odak.learn.wave.perceptual_multiplane_loss'
    return FN[inp['family']]


def apply_oracle(ctx, name, inp, fresh=None, recs=None):
    arg = dict(inp)
    if fresh is not None:
        arg['_fresh'] = fresh
    if recs is not None:
        arg['_recs'] = recs
    try:
        res = ORACLES[name](arg)
    except Exception as e:
        res = [('no_exception', False, 'a result', repr(e)[:300])]
    bad = 0
    seen = ctx.extra.setdefault('_reported', {})
    for clause, ok, exp, obs in res:
        if not ok:
            bad += 1
            key = fname(name, inp) + '/' + clause
            seen[key] = seen.get(key, 0) + 1
            if seen[key] <= 3:                       # a few inputs per (function, clause); the rest is counted only
                ctx.violation(fname(name, inp), clause, dict(inp, oracle=name), exp, obs)
    return bad, res


# ================================================================ RadiallyVaryingBlur.blur as a state machine (model machine 4)
def rvb_call(obj, x, cfg, gaze):
    c = CFGS[cfg]
    return obj.blur(x, c['alpha'], c['real_image_width'], c['real_viewing_distance'], gaze, c['mode'], c['equi'])


class FreshBlur:
    def __init__(self): self.memo = {}
    def __call__(self, ci, cfg, g):
        key = (tuple(ci), cfg, tuple(g))
        if key not in self.memo:
            import odak.learn.perception as P
            try:
                self.memo[key] = rvb_call(P.RadiallyVaryingBlur(), content_tensor(ci), cfg, gaze_val(g))
            except Exception as e:
                self.memo[key] = 'crash:' + type(e).__name__
        return self.memo[key]


def run_rvb_history(env, ops):
    """ops: ['call', i, _, g, cfg] | setgaze | setdata on ONE RadiallyVaryingBlur; the configuration is an argument of every call"""
    import odak.learn.perception as P
    obj = P.RadiallyVaryingBlur()
    contents = [tuple(c) for c in env['tensors']]
    tensors = [content_tensor(c) for c in contents]
    gvals = [tuple(g) for g in env['gazes']]
    gazes = [gaze_val(g) for g in gvals]
    out = []
    for op in ops:
        if op[0] == 'call':
            _, i, _, g, cfg = op
            with Counters() as cnt:
                try:
                    y = rvb_call(obj, tensors[i], cfg, gazes[g])
                except Exception as e:
                    y = 'crash:' + type(e).__name__
            out.append((y, contents[i], cfg, gvals[g], cnt.lod if cnt.ok else None))
        elif op[0] == 'setgaze':
            _, g, v = op
            gazes[g][0], gazes[g][1] = gaze_val(v); gvals[g] = tuple(v)
        else:
            _, t, d = op
            contents[t] = (contents[t][0], d)
            with torch.no_grad():
                tensors[t].copy_(content_tensor(contents[t]))
    return out


def same_blur(a, b):
    if isinstance(a, str) or isinstance(b, str):
        return isinstance(a, str) and isinstance(b, str)
    return tuple(a.shape) == tuple(b.shape) and bool(torch.allclose(a, b, rtol=1e-6, atol=1e-7, equal_nan=True))


def oracle_rvb_history(inp):
    """every blur(image, configuration, centre) on an object with a history equals the blur of a fresh object"""
    fresh = inp.get('_fresh') or FreshBlur()
    out = []
    for k, (y, ci, cfg, g, _) in enumerate(run_rvb_history(inp['env'], inp['ops'])):
        f = fresh(ci, cfg, g)
        ok = same_blur(y, f)
        diff = None if isinstance(y, str) or isinstance(f, str) or tuple(y.shape) != tuple(f.shape) else float((y - f).abs().max())
        out.append(('blur_history_independent', ok, {'call': k, 'configuration': CFGS[cfg], 'fresh_object': 'its blur'},
                    {'call': k, 'max_abs_difference_to_fresh': diff, 'object_with_history': y if isinstance(y, str) else 'a tensor'}))
    return out


def gen_rvb_histories(ctx):
    rng = ctx.rng
    hs = []
    e = {'tensors': [(3024, 1), (3025, 2), (1024, 3), (3024, 4)], 'gazes': [(430000, 610000), (700000, 250000)]}
    n = len(CFGS)
    for c1 in range(n):
        for c2 in range(n):
            hs.append(('cfg%d-then-cfg%d' % (c1, c2), e,
                       [['call', 0, 0, 0, c1], ['call', 0, 0, 0, c2], ['call', 0, 0, 1, c2], ['setgaze', 1, [310000, 520000]], ['call', 3, 3, 1, c2], ['call', 0, 0, 0, c1]]))
    for k in range(30 if ctx.thorough else 8):
        ops = []
        for _ in range(rng.randint(4, 9)):
            r = rng.random()
            if r < 0.7: ops.append(['call', rng.randrange(4), 0, rng.randrange(2), rng.choice([0, 0, 1, 1, 2, 3, 4, 5, 6])])
            elif r < 0.9: ops.append(['setgaze', rng.randrange(2), [rng.randint(100000, 900000), rng.randint(100000, 900000)]])
            else: ops.append(['setdata', rng.randrange(4), rng.randint(1, 9)])
        ops.append(['call', 0, 0, 0, rng.randrange(n)])
        hs.append(('random', e, ops))
    return hs


def rvb_machine_correspondence(ctx):
    hs = gen_rvb_histories(ctx)
    terms = []
    for (_, env, ops) in hs:
        terms.append('machine_run 4 repaired 0 %s %s' % (coq_env(env), coq_ops(ops)))
        terms.append('machine_events 4 repaired 0 %s %s' % (coq_env(env), coq_ops(ops)))
    vals = ctx.coq_eval(PRE, terms, label='rvbmachine', chunk=60)
    fresh = FreshBlur()
    mism = 0; total = 0; stale = []; noinstr = 0
    for hi_, (label, env, ops) in enumerate(hs):
        pr = None if vals[2 * hi_] is None else parse_runs(vals[2 * hi_]); ev = None if vals[2 * hi_ + 1] is None else parse_runs(vals[2 * hi_ + 1])
        inp = {'env': env, 'ops': ops, 'label': label}
        try:
            recs = run_rvb_history(env, ops)
        except Exception as ex:
            ctx.violation('odak.learn.perception.RadiallyVaryingBlur', 'no_exception', dict(inp, oracle='rvb_history'), 'a result', repr(ex)[:300]); mism += 1
            continue
        if pr is None or ev is None or len(pr) != len(recs) or len(ev) != len(recs):
            mism += 1; continue
        for c, ((y, ci, cfg, g, lod), d) in enumerate(zip(recs, pr)):
            total += 1; ctx.traces += 1
            # descriptor [4, shape, data, shape, cfg, gx, gy]: the blur of a fresh object with THAT configuration and gaze
            exp = fresh((d[1], d[2]), d[4], (d[5], d[6])) if d[0] == 4 else 'crash'
            if not same_blur(y, exp):
                mism += 1
                if mism <= 4: ctx.log('RadiallyVaryingBlur machine/implementation disagree: %s call %d: model=%s' % (label, c, d))
            if isinstance(y, str): continue
            if lod is None: noinstr += 1
            elif ev[c][1] == 1 and lod == 0:
                stale.append({'history': label, 'call': c, 'ops': ops})
        ctx.case('rvb-history/%s' % ('pair' if label.startswith('cfg') else label), json.dumps(inp), nontrivial=True)
        arg = dict(inp); arg['_fresh'] = fresh
        for clause, ok, expd, obs in oracle_rvb_history(arg):
            if not ok:
                key = 'rvbhist/' + clause
                seen = ctx.extra.setdefault('_reported', {}); seen[key] = seen.get(key, 0) + 1
                if seen[key] <= 3:
                    ctx.violation('odak.learn.perception.RadiallyVaryingBlur', clause, dict(inp, oracle='rvb_history'), expd, obs)
    ctx.obligation('correspondence:RadiallyVaryingBlur-machine(model run in Coq = implementation on %d blur calls of %d histories over %d configurations, every ordered pair)' % (total, len(hs), len(CFGS)),
                   mism == 0 and total > 0, '%d calls disagree' % mism)
    ctx.obligation('correspondence:RadiallyVaryingBlur-cache-events(the LOD map is reused only where the model reuses it)', not stale and noinstr == 0,
                   ('first: %s' % json.dumps(stale[0])[:400]) if stale else ('instrumentation missing' if noinstr else ''))


# ================================================================ RadiallyVaryingBlur: the cache key, argument by argument
RVB_BASE = {'alpha': 0.2, 'real_image_width': 0.2, 'real_viewing_distance': 0.7, 'centre': [0.43, 0.61], 'mode': 'quadratic', 'equi': False}


def rvb_args(a):
    return dict(alpha=a['alpha'], real_image_width=a['real_image_width'], real_viewing_distance=a['real_viewing_distance'],
                centre=list(a['centre']), mode=a['mode'], equi=a['equi'])


def oracle_rvb(inp):
    """blur(image, args2) after blur(image1, args1) on the same object = blur(image, args2) on a fresh object;
    also reports whether the LOD helper ran on the second call (structural, see rvb_key_check)"""
    import odak.learn.perception as P
    a1, a2 = inp['first'], inp['second']
    x1 = rand_tensor(tuple(a1['shape']), inp['seed']); x2 = rand_tensor(tuple(a2['shape']), inp['seed'] + 1)
    r = P.RadiallyVaryingBlur()
    r.blur(x1, **rvb_args(a1))
    with Counters() as cnt:
        y = r.blur(x2, **rvb_args(a2))
    f = P.RadiallyVaryingBlur().blur(x2, **rvb_args(a2))
    same = tuple(y.shape) == tuple(f.shape) and bool(torch.allclose(y, f, rtol=1e-6, atol=1e-7))
    inp['_lod_calls'] = cnt.lod if cnt.ok else None
    return [('blur_history_independent', same, 'the blur of a fresh object', {'max_abs_difference': float((y - f).abs().max()) if tuple(y.shape) == tuple(f.shape) else 'shape'})]


def gen_rvb(ctx):
    rng = ctx.rng
    cases = []
    shape = [1, 3, 24, 32]
    def first():
        a = dict(RVB_BASE); a['centre'] = [round(rng.uniform(0.2, 0.8), 4), round(rng.uniform(0.2, 0.8), 4)]; a['shape'] = list(shape); return a
    def variants(a):
        out = [('none', dict(a))]
        for st in (1e-6, 1e-3, 0.05, 0.08, 0.3):
            for (dx, dy) in ((st, 0), (0, -st), (st, st)):
                b = dict(a); b['centre'] = [a['centre'][0] + dx, a['centre'][1] + dy]; out.append(('centre%+g,%+g' % (dx, dy), b))
        for key in ('alpha', 'real_image_width', 'real_viewing_distance'):
            for rel in (1e-6, 1e-3, 0.08, 0.5):
                b = dict(a); b[key] = a[key] * (1 + rel); out.append(('%s*(1%+g)' % (key, rel), b))
        b = dict(a); b['mode'] = 'linear'; out.append(('mode', b))
        b = dict(a); b['equi'] = True; out.append(('equi', b))
        for sh in ([1, 3, 24, 33], [1, 3, 25, 32], [1, 1, 24, 32], [1, 3, 32, 24]):
            b = dict(a); b['shape'] = sh; out.append(('shape%s' % sh, b))
        return out
    for rep in range(2 if ctx.thorough else 1):
        a = first()
        vs = variants(a)
        for name, b in vs:
            cases.append({'family': 'rvb', 'change': name, 'first': a, 'second': b, 'seed': rng.randrange(10 ** 6)})
            if name in ('mode', 'equi') or name.startswith('shape') or name.endswith('(1+0.5)'):
                cases.append({'family': 'rvb', 'change': 'back from ' + name, 'first': b, 'second': a, 'seed': rng.randrange(10 ** 6)})
        for _ in range(6):                                  # two arguments at once
            (n1, b1), (n2, b2) = rng.sample(vs[1:], 2)
            b = dict(a)
            for k_ in b1:
                if b1[k_] != a[k_]: b[k_] = b1[k_]
            for k_ in b2:
                if b2[k_] != a[k_]: b[k_] = b2[k_]
            cases.append({'family': 'rvb', 'change': n1 + ' & ' + n2, 'first': a, 'second': b, 'seed': rng.randrange(10 ** 6)})
    return cases


def rvb_key_check(ctx):
    missed = []; n = 0; noinstr = 0
    for inp in gen_rvb(ctx):
        arg = dict(inp)
        try:
            res = oracle_rvb(arg)
        except Exception as e:
            res = [('no_exception', False, 'a result', repr(e)[:300])]
        for clause, ok, exp, obs in res:
            if not ok:
                ctx.violation('odak.learn.perception.RadiallyVaryingBlur', clause, dict(inp, oracle='rvb'), exp, obs)
        changed = inp['first'] != inp['second']
        lod = arg.get('_lod_calls')
        n += 1; ctx.traces += 1
        ctx.case('rvb-key/%s' % ('unchanged' if not changed else inp['change'].split('*')[0].split('+')[0].split('-')[0].split('[')[0]), json.dumps(inp, sort_keys=True))
        if lod is None:
            noinstr += 1
        elif changed and lod == 0:
            missed.append(inp['change'])
    ctx.obligation('structure:RadiallyVaryingBlur-cache-key(every changed argument forces a new LOD map: %d argument changes at several scales)' % n,
                   not missed and n > 0 and noinstr == 0, ('reused after a change of: %s' % missed[:8]) if missed else ('instrumentation missing' if noinstr else ''))


# ================================================================ generators for the stateless clauses
def gen_stateless(ctx):
    rng = ctx.rng
    n = 4 if ctx.thorough else 1
    cs = []
    for k in range(24 * n):
        shape = rng.choice([[4, 4], [1, 7], [3, 8, 8], [1, 3, 6, 5], [1, 1, 16, 16], [2, 3, 4, 4], [1]])
        cs.append({'family': 'wmse', 'shape': shape, 'seed': rng.randrange(10 ** 6), 'scale': rng.choice([0.0, 1e-3, 1.0, 6.0, 6.2831853, 20.0, 100.0]),
                   'reduction': rng.choice(['mean', 'sum']), 'dtype': rng.choice(['float32', 'float64']),
                   'shifts': [rng.randint(-3, 3) for _ in range(rng.randint(1, 12))]})
    for k in range(16 * n):
        shape = rng.choice([[5, 7], [3, 8, 8], [1, 3, 9, 4], [1, 1], [1, 6], [6, 1], [2, 2], [1, 1, 16, 16], [3, 1, 1]])
        cs.append({'family': 'tv', 'shape': shape, 'seed': rng.randrange(10 ** 6), 'scale': rng.choice([1.0, 1e-20, 1e4, 255.0])})
    for u in [0.0, 0.1, 0.3, 0.5, 0.7, 1.0, 2.0, -3.5, 1e-20, 1e4]:
        cs.append({'family': 'tv', 'shape': rng.choice([[8, 8], [3, 8, 8], [1, 3, 8, 12], [1, 1], [1, 9]]), 'uniform': u, 'per_channel': rng.random() < 0.5})
    for k in range(10 * n):
        cs.append({'family': 'hist', 'shape': rng.choice([[8, 8], [3, 8, 8], [1, 3, 8, 8], [1, 1, 5, 7], [1, 8, 8]]), 'seed': rng.randrange(10 ** 6),
                   'bins': rng.choice([1, 2, 8, 32, 33]), 'limits': rng.choice([[0., 1.], [0.25, 0.75], [-1., 2.]]), 'scale': rng.choice([1.0, 0.5, 2.0])})
    for k in range(14 * n):
        planes = rng.choice([1, 2, 3, 4])
        cs.append({'family': 'multiplane', 'shape': [rng.choice([1, 3]), rng.choice([8, 12]), rng.choice([8, 10])], 'planes': planes,
                   'seed': rng.randrange(10 ** 6), 'plane_id': rng.choice([None] + list(range(planes))), 'scheme': rng.choice(['defocus', 'naive']),
                   'perceptual': rng.random() < 0.4, 'reduction': rng.choice(['mean', 'sum']), 'scale': rng.choice([1.0, 0.0, 10.0]),
                   'flat_depth': rng.choice([None, None, None, 0.0, 1.0, 0.5])})
    for k in range(10 * n):
        # conditioning: errors well above the float32 spacing of the pixel values, enough pixels to average over
        e1 = 10 ** rng.uniform(-3, -0.5)
        cs.append({'family': 'psnr', 'shape': rng.choice([[3, 8, 8], [1, 3, 6, 6], [16, 16], [4, 4]]), 'seed': rng.randrange(10 ** 6),
                   'e_small': e1, 'e_large': e1 * rng.choice([1.2, 1.5, 3.0, 100.0]), 'peak': rng.choice([1.0, 255.0, 0.5])})
    for k in range(12 * n):
        ks = rng.choice([2, 3, 7, 11]); side = ks + rng.randint(0, 9)
        cs.append({'family': 'speckle', 'shape': rng.choice([[side, side + 2], [1, 1, side, side]]), 'kernel': ks, 'step': rng.choice([[1, 1], [2, 3], [3, 3]]),
                   'seed': rng.randrange(10 ** 6), 'scale': rng.choice([1.0, 1e-3, 100.0]), 'shift': rng.choice([0.05, 0.5])})
    for u in [0.05, 0.1, 0.3, 0.5, 0.7, 1.0, 2.0, 4.0] + [round(rng.uniform(0.05, 4.0), 3) for _ in range(6 * n)]:
        ks = rng.choice([2, 3, 7, 11]); side = ks + rng.choice([0, 1, 5, 21])
        cs.append({'family': 'speckle', 'shape': [side, side], 'kernel': ks, 'step': rng.choice([[1, 1], [2, 2]]), 'uniform': u})
    for k in range(6 * n):
        cs.append({'family': 'speckle', 'shape': [12, 12], 'kernel': rng.choice([3, 11]), 'seed': rng.randrange(10 ** 6), 'flat': rng.choice([0.3, 0.5, 1.0, 2.0])})
    for k in range(2 * n):                         # dark windows (zero-padded or masked intensities): open finding
        ks = rng.choice([2, 3, 5])
        cs.append({'family': 'speckle', 'shape': [12, 14], 'kernel': ks, 'step': [1, 1], 'seed': rng.randrange(10 ** 6), 'dark': [rng.randint(0, 4), rng.randint(0, 4), ks + rng.randint(0, 3)]})
    cs.append({'family': 'speckle', 'shape': [8, 8], 'kernel': 3, 'step': [1, 1], 'seed': 1, 'dark': [0, 0, 8]})
    for k in range(8 * n):
        cs.append({'family': 'phase_gradient', 'shape': [rng.randint(3, 12), rng.randint(3, 12)], 'seed': rng.randrange(10 ** 6), 'scale': rng.choice([6.2831853, 1.0, 1e-3, 1e3])})
    for u in [0.0, 0.7, 3.14159, -2.0, 100.0]:
        cs.append({'family': 'phase_gradient', 'shape': [rng.randint(3, 9), rng.randint(3, 9)], 'uniform': u})
    for kind in KINDS:
        for k in range(3 * n):
            # MetamerMSELoss documents RGB input only (its metamer generator converts RGB -> YCrCb unconditionally)
            cs.append({'family': 'gaze_loss', 'kind': kind, 'code': rng.choice([3032, 3048, 3040] + ([] if kind.startswith('metamer_mse') else [1032])), 'img': rng.randint(1, 9), 'tgt': rng.randint(1, 9),
                       'gaze': rng.choice([[rng.randint(0, 10) * T, rng.randint(0, 10) * T], [rng.randint(0, GU), rng.randint(0, GU)]])})
        # boundary: zero target / zero image, gaze on a corner, tiny and large intensities
        cs.append({'family': 'gaze_loss', 'kind': kind, 'code': 3032, 'img': 1, 'tgt': 0, 'gaze': [5 * T, 5 * T]})
        cs.append({'family': 'gaze_loss', 'kind': kind, 'code': 3032 if kind.startswith('metamer_mse') else 1032, 'img': 0, 'tgt': 0, 'gaze': [0, 0]})
        cs.append({'family': 'gaze_loss', 'kind': kind, 'code': 3032, 'img': 2, 'tgt': 3, 'gaze': [GU, GU], 'scale': rng.choice([1e-6, 50.0])})
    return cs


# ================================================================ B1: translator self-check
def self_check(ctx, g):
    P, WL, TL, IQ = api()
    rng = np.random.default_rng(ctx.seed)
    bad = 0; n = 0

    def cmp(name, env, value, rtol, atol):
        nonlocal bad, n
        n += 1
        got = g.evalf(name, env)
        if not emit.close(got, float(value), rtol, atol):
            bad += 1; ctx.log('self-check mismatch', name, got, float(value))

    for rep in range(6):
        a = rng.uniform(-7, 7, (2, 2)); b = rng.uniform(-7, 7, (2, 2))
        env = {'a_%d_%d' % (i, j): a[i, j] for i in range(2) for j in range(2)}; env.update({'b_%d_%d' % (i, j): b[i, j] for i in range(2) for j in range(2)})
        cmp('w_mean', env, TL.wrapped_mean_squared_error(torch.tensor(a), torch.tensor(b)), 1e-9, 1e-12)
        cmp('w_sum', env, TL.wrapped_mean_squared_error(torch.tensor(a), torch.tensor(b), reduction='sum'), 1e-9, 1e-12)
        f = rng.uniform(-2, 2, (2, 3)); cmp('tv2d', {'f_%d_%d' % (i, j): f[i, j] for i in range(2) for j in range(3)}, TL.total_variation_loss(torch.tensor(f)), 1e-9, 1e-12)
        f = rng.uniform(-2, 2, (2, 2, 2)); cmp('tv3d', {'f_%d_%d_%d' % (c, i, j): f[c, i, j] for c in range(2) for i in range(2) for j in range(2)}, TL.total_variation_loss(torch.tensor(f)), 1e-9, 1e-12)
        # multiplane: a real object without running its constructor (only __call__ is traced)
        x = rng.uniform(0, 1, (1, 1, 2)); t = rng.uniform(0, 1, (1, 1, 2)); m = rng.integers(0, 2, (2, 1, 1, 2)).astype(float); w = rng.uniform(0, 3, 3); v = rng.uniform(0, 3, 3)
        env = {'w%d' % k: w[k] for k in range(3)}; env.update({'v%d' % k: v[k] for k in range(3)})
        env.update({'x_0_0_%d' % j: x[0, 0, j] for j in range(2)}); env.update({'t_0_0_%d' % j: t[0, 0, j] for j in range(2)})
        env.update({'m_%d_0_0_%d' % (p, j): m[p, 0, 0, j] for p in range(2) for j in range(2)})
        o = WL.multiplane_loss.__new__(WL.multiplane_loss); o.weights = list(w); o.masks = torch.tensor(m); o.loss_function = torch.nn.MSELoss(reduction='mean')
        cmp('mp_all', env, o(torch.tensor(x), torch.tensor(t)), 1e-9, 1e-12)
        cmp('mp_plane1', env, o(torch.tensor(x), torch.tensor(t), 1), 1e-9, 1e-12)
        o = WL.perceptual_multiplane_loss.__new__(WL.perceptual_multiplane_loss); o.masks = torch.tensor(m)
        o.l2_loss_fn = torch.nn.MSELoss(reduction='mean'); o.l1_loss_fn = torch.nn.L1Loss(reduction='mean')
        o.base_loss_weights = {'base_l2_loss': w[0], 'loss_l2_mask': w[1], 'loss_l2_cor': w[2], 'base_l1_loss': v[0], 'loss_l1_mask': v[1], 'loss_l1_cor': v[2]}
        o.additional_loss_weights = {}; o.return_components = False
        cmp('pmp_all', env, o(torch.tensor(x), torch.tensor(t)), 1e-9, 1e-12)
        # speckle contrast / phase gradient on a 3 x 3 float32 image
        im = rng.uniform(0.2, 1.5, (3, 3)).astype(np.float32)
        env = {'i_0_0_%d_%d' % (i, j): float(im[i, j]) for i in range(3) for j in range(3)}
        sc = WL.speckle_contrast(kernel_size=2, step_size=(1, 1))
        c = sc.functional_conv2d(torch.tensor(im).reshape(1, 1, 3, 3))
        for u in range(2):
            for vv in range(2):
                cmp('sc_%d_%d' % (u, vv), env, c[0, 0, u, vv], 5e-3, 1e-4)
        cmp('sc_loss', env, sc(torch.tensor(im)), 1e-2, 1e-6)
        pg = WL.phase_gradient()
        e = pg.functional_conv2d(torch.tensor(im).reshape(1, 1, 3, 3))
        for u in range(3):
            for vv in range(3):
                cmp('pg_%d_%d' % (u, vv), env, e[0, 0, u, vv], 1e-4, 1e-5)
        cmp('pg_loss_t', env, pg(torch.tensor(im)), 1e-4, 1e-6)
        # the combination of statistics maps (real objects without their constructors) and multi-scale total variation
        sa = [rng.uniform(-1, 1, (1, 1, 1, 2)), rng.uniform(-1, 1, (1, 1, 1, 1))]; ta = [rng.uniform(-1, 1, (1, 1, 1, 2)), rng.uniform(-1, 1, (1, 1, 1, 1))]
        env = {'sa_0_0_0_0': sa[0][0, 0, 0, 0], 'sa_0_0_0_1': sa[0][0, 0, 0, 1], 'sb_0_0_0_0': sa[1][0, 0, 0, 0],
               'ta_0_0_0_0': ta[0][0, 0, 0, 0], 'ta_0_0_0_1': ta[0][0, 0, 0, 1], 'tb_0_0_0_0': ta[1][0, 0, 0, 0]}
        o = P.MetamericLoss.__new__(P.MetamericLoss); o.use_radial_weight = False
        cmp('met_stats_t', env, o.metameric_loss_stats([torch.tensor(z) for z in sa], [torch.tensor(z) for z in ta], [0.5, 0.5]), 1e-9, 1e-12)
        o = P.MetamericLossUniform.__new__(P.MetamericLossUniform)
        cmp('metu_stats_t', env, o.metameric_loss_stats([torch.tensor(z) for z in sa], [torch.tensor(z) for z in ta]), 1e-9, 1e-12)
        f = rng.uniform(-2, 2, (1, 1, 2, 4))
        cmp('mstv_t', {'f_0_0_%d_%d' % (i, j): f[0, 0, i, j] for i in range(2) for j in range(4)}, TL.multi_scale_total_variation_loss(torch.tensor(f), levels=2), 1e-9, 1e-12)
        p = rng.uniform(0, 1, (2, 2)); t2 = rng.uniform(0, 1, (2, 2)); peak = float(rng.choice([1.0, 255.0, 0.5]))
        env = {'p_%d_%d' % (i, j): p[i, j] for i in range(2) for j in range(2)}; env.update({'t_%d_%d' % (i, j): t2[i, j] for i in range(2) for j in range(2)}); env['peak'] = peak
        cmp('psnr_t', env, IQ.PSNR()(torch.tensor(p), torch.tensor(t2), peak_value=peak), 1e-9, 1e-12)
    ctx.traces += n
    ctx.obligation('translator-self-check(traced terms = real functions on %d values)' % n, bad == 0 and n > 0, '%d mismatches' % bad)


# ================================================================ B2 (a): histogram loss inside Coq
def hist_correspondence(ctx):
    TL = api()[2]
    rng = ctx.rng
    terms, meta = [], []
    for k in range(40 if ctx.thorough else 14):
        C = rng.choice([1, 3]); h, w = rng.choice([(4, 4), (6, 5), (8, 8)])
        bins = rng.choice([2, 4, 8, 16, 32]); lo, hi = rng.choice([(0.0, 1.0), (0.25, 0.75), (0.0, 0.5), (-0.5, 1.5)])
        den = rng.choice([16, 64, 256])
        fa = [[[rng.randint(-den // 4, den + den // 4) / den for _ in range(w)] for _ in range(h)] for _ in range(C)]
        ga = [[[rng.randint(-den // 4, den + den // 4) / den for _ in range(w)] for _ in range(h)] for _ in range(C)]
        if k % 5 == 0:
            ga = fa
        if k % 7 == 3:                       # boundary: values exactly on the limits and on bin edges
            fa[0][0][0] = lo; fa[0][0][1] = hi; fa[0][1][0] = lo + (hi - lo) / bins
        f = torch.tensor(fa, dtype=torch.float32); g_ = torch.tensor(ga, dtype=torch.float32)
        v = float(TL.histogram_loss(f, g_, bins=bins, limits=[lo, hi]))
        lit = lambda arr: listlit([listlit([qlit(x) for row in ch for x in row]) for ch in arr])
        terms.append('(Qclose %s (hist_loss %s %s %s %s %s) %s)%%Q' % (qlit(HIST_RTOL), zlit(bins), qlit(lo), qlit(hi), lit(fa), lit(ga), qlit(v)))
        meta.append({'C': C, 'h': h, 'w': w, 'bins': bins, 'limits': [lo, hi], 'observed': v})
    vals = ctx.coq_eval(PRE, terms, label='hist', chunk=8)
    bad = 0
    for v, m in zip(vals, meta):
        ctx.case('hist-correspondence/bins%d' % m['bins'], json.dumps(m), nontrivial=m['observed'] > 0); ctx.traces += 1
        if v != 'true':
            bad += 1
            if bad <= 3: ctx.log('histogram model/implementation disagree:', m, v)
    ctx.obligation('correspondence:histogram_loss(model in Coq = implementation within %g on %d dyadic images)' % (HIST_RTOL, len(meta)), bad == 0 and len(meta) > 0, '%d disagreements' % bad)
    if meta:
        ctx.sample({'histogram_case': meta[0], 'coq_term_head': terms[0][:160]})


# ================================================================ B2 (b): the state machines inside Coq
def uniform_ops(ops):
    """MetamericLossUniform takes no gaze: the machine is run with one constant gaze"""
    return [['call', o[1], o[2], 0] if o[0] == 'call' else o for o in ops if o[0] != 'setgaze']


def observed_events(kind, counts):
    """(target value recomputed, LOD map recomputed) from the helper call counts of one loss call"""
    lod, pyr = counts
    if kind.startswith('blur'):
        return (False, lod > 0)
    if kind.startswith('metamer_mse'):
        return (pyr > 0, lod > 0)
    return (pyr > 1, lod > 0)                      # one pyramid for the image, one more when the target is analysed again


EXHAUSTIVE_KINDS = ('blur_lowpass', 'metameric', 'metamer_mse')          # one configuration per class runs the exhaustive 2-call family


def kind_histories(kind, hs, thorough=False):
    """which histories a loss configuration is run on.  Quick tier: the exhaustive family of <= 2 calls for one configuration
    per class; the other configurations run all boundary histories, and (the non-default ones) every second gaze-step and
    random history, alternating with the position of the configuration so that each history is run by several of them."""
    pos = list(KINDS).index(kind)
    for hi_, (label, env, ops) in enumerate(hs):
        if kind == 'metameric_uniform' and label.startswith('gaze-step'):
            continue                                  # takes no gaze
        if not thorough:
            if label.startswith('exhaustive') and kind not in EXHAUSTIVE_KINDS:
                continue
            if kind not in BASE_KINDS and (label.startswith('gaze-step') or label == 'random') and (hi_ + pos) % 2:
                continue
        yield hi_, label, env, ops


def machine_correspondence(ctx, hs, fresh):
    # one model run per (machine, construction configuration) and history
    combos = {}
    for kind, (mach, _, c0) in KINDS.items():
        key = 'uniform' if kind == 'metameric_uniform' else (mach, c0)
        combos.setdefault(key, set()).update(hi_ for hi_, _, _, _ in kind_histories(kind, hs, ctx.thorough))
    terms, index = [], []
    for key, his in sorted(combos.items(), key=str):
        for hi_ in sorted(his):
            _, env, ops = hs[hi_]
            if key == 'uniform':
                terms.append('machine_events 2 repaired 0 %s %s' % (coq_env(env), coq_ops(uniform_ops(ops)))); index.append((key, hi_, 'events'))
                continue
            mach, c0 = key
            terms.append('machine_run %d repaired %d %s %s' % (mach, c0, coq_env(env), coq_ops(ops, c0))); index.append((key, hi_, 'repaired'))
            terms.append('machine_events %d repaired %d %s %s' % (mach, c0, coq_env(env), coq_ops(ops, c0))); index.append((key, hi_, 'events'))
            if c0 == 0:
                terms.append('machine_run %d legacy %d %s %s' % (mach, c0, coq_env(env), coq_ops(ops, c0))); index.append((key, hi_, 'legacy'))
    vals = ctx.coq_eval(PRE, terms, label='machines', chunk=150)
    table = {ix: (None if v is None else parse_runs(v)) for ix, v in zip(index, vals)}
    mism = 0; total = 0; legacy_like = 0
    ev_total = 0; stale_hits = []; extra_recomputes = 0; no_instr = 0
    for kind, (mach, _, c0) in KINDS.items():
        for hi_, label, env, ops in kind_histories(kind, hs, ctx.thorough):
            inp = {'kind': kind, 'env': env, 'ops': ops, 'label': label}
            try:
                recs = run_history(kind, env, ops)
            except Exception as e:
                ctx.violation(fname('history', inp), 'no_exception', dict(inp, oracle='history'), 'a result', repr(e)[:300]); mism += 1
                continue
            pr, pl = table.get(((mach, c0), hi_, 'repaired')), table.get(((mach, c0), hi_, 'legacy'))
            ev = table.get(('uniform', hi_, 'events')) if kind == 'metameric_uniform' else table.get(((mach, c0), hi_, 'events'))
            ncalls = sum(1 for o in ops if o[0] == 'call')
            if pr is None or ev is None or len(pr) != ncalls or len(ev) != ncalls or len(recs) != ncalls:
                mism += 1; continue
            diverged = False
            for c, ((obs, ci, ct, g, counts), d) in enumerate(zip(recs, pr)):
                total += 1; ctx.traces += 1
                exp = eval_descriptor(fresh, kind, d)
                ok = exp is not None and close(obs, exp)
                if not ok:
                    mism += 1
                    lv = eval_descriptor(fresh, kind, pl[c]) if pl and len(pl) == ncalls else None
                    if lv is not None and close(obs, lv): legacy_like += 1
                    if mism <= 6:
                        ctx.log('machine/implementation disagree: %s %s call %d: model(repaired)=%s -> %s, implementation=%s%s' % (
                            kind, label, c, d, exp, obs, '  [= the LEGACY discipline model]' if lv is not None and close(obs, lv) else ''))
                # cache behaviour: the code may recompute more often than the model, never less
                if isinstance(obs, str):
                    if d[0] != 0:
                        # the code raised where the model has no exception (e.g. MetamerMSELoss on a 1-channel image, which it
                        # documents as unsupported; a fresh object raises as well): the object's state after an exception is not
                        # modelled, so the cache events of the rest of this history are not compared
                        diverged = True
                    continue
                if diverged:
                    continue
                if counts is None:
                    no_instr += 1; continue
                ev_total += 1
                o_ref, o_lod = observed_events(kind, counts)
                m_ref, m_lod = bool(ev[c][0]), bool(ev[c][1])
                if kind == 'metameric_uniform':
                    m_lod = False
                for what, m, o in (('target statistics / metamer', m_ref, o_ref), ('LOD map', m_lod, o_lod)):
                    if m and not o:
                        stale_hits.append({'kind': kind, 'history': label, 'call': c, 'reused': what, 'env': env, 'ops': ops, 'helper_calls(lod, pyramid)': list(counts)})
                        if len(stale_hits) <= 4:
                            ctx.log('cache key misses an argument: %s %s call %d REUSED its cached %s where the model recomputes (ops=%s, gazes=%s)' % (kind, label, c, what, ops, env['gazes']))
                    elif o and not m:
                        extra_recomputes += 1
            ctx.case('history/%s/%s' % (kind, label), (kind, json.dumps(env), json.dumps(ops)), nontrivial=ncalls >= 2)
            apply_oracle(ctx, 'history', inp, fresh, recs)           # the direct oracle on the same history gives the replayable input
            if len(ctx.samples) < 5 and label in ('gaze-edited-in-place', 'new-size') and kind in ('metameric', 'blur_lowpass'):
                ctx.sample({'kind': kind, 'history': label, 'ops': ops, 'model_descriptors': pr, 'model_events[target recomputed, lod recomputed]': ev,
                            'implementation': [r[0] for r in recs], 'implementation_helper_calls(lod, pyramid)': [r[4] for r in recs]})
    detail = '%d of %d calls disagree (%d of them behave like the legacy discipline model)' % (mism, total, legacy_like)
    ctx.obligation('correspondence:state-machines(model run in Coq = implementation on %d calls of %d histories x %d loss configurations)' % (total, len(hs), len(KINDS)),
                   mism == 0 and total > 0, detail)
    ctx.obligation('correspondence:cache-events(the code reuses a cached value only where the model does: %d calls observed)' % ev_total,
                   not stale_hits and ev_total > 0 and no_instr == 0,
                   ('%d reuses where the model recomputes, first: %s' % (len(stale_hits), json.dumps(stale_hits[0])[:600]) if stale_hits else '') +
                   (' instrumentation points missing (make_pooling_size_map_lod / make_equi_pooling_size_map_lod in radially_varying_blur, SpatialSteerablePyramid.construct_pyramid)' if no_instr else ''))
    ctx.extra['history_calls_compared'] = total
    ctx.extra['cache_event_calls_compared'] = ev_total
    ctx.extra['calls_where_code_recomputes_more_than_model(allowed)'] = extra_recomputes
    ctx.extra['cache_reuses_where_model_recomputes'] = stale_hits[:20]


def run(ctx):
    ctx.rule = ('closed-form losses: random tensors over ranks 1-4, scales 0..1e4, both reductions, float32/float64, plus a boundary stream '
                '(uniform images incl. 0, 1, 2, exact dyadics; 1-pixel sides; zero targets; nearly uniform speckle windows; kernel = image size). '
                'Gaze-contingent losses (7 configurations of BlurLoss, MetamericLoss, MetamericLossUniform, MetamerMSELoss): every history of '
                'at most %d calls over 2 gaze lists x 2 targets x 2 sizes, the boundary histories of the property (same target / new gaze, equal '
                'gaze in another list, gaze list edited in place, new size, new channel count, zero target first / later, target edited in place, '
                'image is target, shape mismatch), random histories with in-place edits; each call compared with a fresh object. '
                'non-trivial = history with >= 2 calls, or a stateless case whose clauses were all evaluated; distinct by full input') % (3 if ctx.thorough else 2)
    ctx.trusted += ['tracer/shim.py + tracer/recipes/c17.py (translator; validated each run by the numeric self-check); in the recipe nn.MSELoss/L1Loss, '
                    'F.conv2d and log10 are given by their contracts (mean of squared/absolute differences, strided zero-padded cross-correlation, ln/ln 10)',
                    'float rounding is not modelled: theorems are over R (and Q for the histogram); float effects (speckle cancellation) are covered by the oracles only',
                    'the statistics, LOD maps and metamers are free constructors in the state-machine model: pyramid, blur and metamer numerics are observed through fresh objects, not modelled',
                    'harness/props/c17.py heap emulation (same list / tensor objects passed again), descriptor evaluation with fresh objects, comparators',
                    'torch kernels (conv2d, histc, interpolate, sin/cos) external']
    ctx.assumptions += ['MetamerMSELoss compares the image with the metamer of the target, so its zero is at image = gen_metamer(target, gaze) '
                        '(for image = target it returns the distance to the metamer, e.g. 0.047: by design, not reported)',
                        'BlurLoss(blur_source=False) is zero at image = blurred target only; the property names the blurred-source variant',
                        'speckle contrast sigma/mean is undefined for zero mean: uniform images are taken with non-zero intensity',
                        'phase_gradient has no target: zero for zero phase; for a uniform phase the response is zero away from the zero-padded border',
                        'loss configuration is fixed at construction; attributes are not mutated between calls',
                        'multiplane weights are non-negative']
    ctx.gate()
    ctx.ensure_theories(['theories/C17/Props.vo', 'theories/C17/TieTac.vo'])
    ctx.theorems('OdakV.C17.Props', PROPS)
    # ---- B1
    try:
        from tracer.recipes import c17 as recipe
        g = recipe.trace()
        ctx.programs = len(g.defs)
        ctx.obligation('translator:trace(%d definitions, %d nodes)' % (len(g.defs), g.total_size()), True)
    except Exception as e:
        g = None
        ctx.obligation('translator:trace', False, repr(e))
    if g is not None:
        ctx.compile_tie('GenC17', g.text(), [['C17_TieA', 'C17_TieB', 'C17_TieC', 'C17_TieD']])
        try:
            self_check(ctx, g)
        except Exception as e:
            ctx.obligation('translator-self-check', False, repr(e))
        ctx.sample({'traced_definition': 'tv2d', 'coq': __import__('tracer.shim').shim.coq(g.by_name['tv2d'][1])[:300]})
    # ---- B2
    ctx.log('B1 done; B2 histogram')
    hist_correspondence(ctx)
    ctx.log('B2 state machines')
    fresh = Fresh()
    hs = gen_histories(ctx)
    machine_correspondence(ctx, hs, fresh)
    ctx.log('RadiallyVaryingBlur key / machine')
    ORACLES['rvb'] = oracle_rvb
    rvb_key_check(ctx)
    rvb_machine_correspondence(ctx)
    ctx.exhaustive = True
    ctx.extra['exhaustive_domain'] = 'all histories of <= %d calls over 2 gaze lists x 2 targets x 2 image sizes, for each of %d loss configurations' % (3 if ctx.thorough else 2, len(KINDS))
    ctx.log('stateless oracles')
    # ---- direct oracles: stateless clauses
    n_or = 0
    for inp in gen_stateless(ctx):
        bad, res = apply_oracle(ctx, 'stateless', inp); n_or += 1
        ctx.case('stateless/%s%s' % (inp['family'], '/' + inp['kind'] if 'kind' in inp else ''), json.dumps(inp, sort_keys=True), nontrivial=len(res) >= 2)
        if len(ctx.samples) < 6 and inp['family'] in ('speckle', 'wmse') and bad == 0:
            ctx.sample({'input': inp, 'clauses': [(r[0], r[1]) for r in res]})
    ctx.extra['oracle_calls'] = n_or
    ctx.extra['failing_clause_counts'] = ctx.extra.pop('_reported', {})


def search(ctx):
    """Obligations broke without a failing input from run(): look further out."""
    old = ctx.thorough
    try:
        ctx.thorough = True                       # four times the stateless cases, fresh random draws
        for inp in gen_stateless(ctx):
            apply_oracle(ctx, 'stateless', inp)
            if len(ctx.viol) > 3: return
        ctx.thorough = False                      # histories: new random draws at the quick depth (bounded time)
        fresh = Fresh()
        # a cache that reuses its value after small gaze moves: sweep the step size for a move that changes the value
        for step in (2, 20, 200, 2000, 5000, 10000, 20000, 35000, 65000, 90000, 150000, 250000):
            for (dx, dy) in ((step, 0), (0, step), (step, step)):
                g0 = (430000, 610000); g1 = (g0[0] + dx, g0[1] + dy)
                e = {'tensors': [(3032, 1), (3032, 2), (3032, 3)], 'gazes': [g0, g1]}
                for ops in ([['call', 0, 1, 0], ['call', 0, 1, 1]], [['call', 0, 1, 0], ['setgaze', 0, list(g1)], ['call', 0, 1, 0]]):
                    for kind in KINDS:
                        apply_oracle(ctx, 'history', {'kind': kind, 'env': e, 'ops': ops, 'label': 'search-gaze-step'}, fresh)
            if len(ctx.viol) > 3: return
        for (label, env, ops) in gen_histories(ctx):
            if label.startswith('exhaustive'):
                continue
            for kind in KINDS:
                apply_oracle(ctx, 'history', {'kind': kind, 'env': env, 'ops': ops, 'label': label}, fresh)
            if len(ctx.viol) > 3: return
    finally:
        ctx.thorough = old


ORACLES['rvb'] = oracle_rvb
ORACLES['rvb_history'] = oracle_rvb_history


def replay(ctx, rec):
    if rec.get('no_failing_input_found'):
        print('replay names broken obligations only:', json.dumps(rec['broken_obligations'])[:3000]); return 1
    inp = dict(rec['input']); name = inp.pop('oracle')
    res = ORACLES[name](inp)
    for r in res:
        print(('FAIL ' if not r[1] else 'ok   ') + r[0], '' if r[1] else 'expected=%s observed=%s' % (r[2], r[3]))
    return 1 if [r for r in res if not r[1]] else 0
