"""C15 — colour-space conversions invert each other and match the published standards.

Proof: coq/theories/C15 (code model with the code's constants + published references; round trips, BT.601 /
IEC 61966-2-1 / CIE agreement, white, greys, monotonicity and knees, HSV six sectors, LMS under the pinverse
contract, opponent table).
Tie to /repo, every run:
  B1  all 13 conversion functions are cut from the current odak/learn/perception/color_conversion.py, executed
      symbolically on a [2,3,1,2] batch (tracer/recipes/c15.py) and emitted as Coq definitions; coq/tie/C15_Tie*.v
      prove each output entry EQUAL to the model function of its own pixel for all reals, and restate the round
      trips on the traced definitions.  The translator is validated numerically against the real functions.
  B2  the layout dispatch of srgb_to_lab / lab_to_srgb (channel-first / channel-last / batch / rejected) is
      evaluated inside Coq (lab_dispatch) and compared with what the implementation does on generated shapes.
Direct oracles state every clause on the real (float32) implementation and give replayable failing inputs.
"""
import colorsys, itertools, json, math
import numpy as np
import torch
import re
from harness.common import zlit, listlit, ALLOWED_AXIOM_PREFIXES
from tracer.recipes import c15 as recipe
from tracer import emit

MOD = 'odak.learn.perception.color_conversion'
PROPS = ['C15_mat3_err', 'C15_ycrcb_roundtrip', 'C15_ycrcb_matches_bt601', 'C15_ycrcb_in_range', 'C15_xyz_roundtrip', 'C15_white_Y',
         'C15_xyz_matches_iec', 'C15_xyz_chromaticities', 'C15_lab_matrix_chromaticities', 'C15_gamma_roundtrip',
         'C15_gamma_decode_monotone', 'C15_gamma_endpoints', 'C15_gamma_encode_monotone_refuted',
         'C15_gamma_encode_monotone_partial', 'C15_gamma_knee', 'C15_gamma_matches_iec', 'C15_hsv_roundtrip',
         'C15_grey_zero_chroma', 'C15_white_lab', 'C15_black_lab', 'C15_lab_roundtrip', 'C15_lab_f_matches_cie', 'C15_lab_matches_cie', 'C15_lab_white_is_d65',
         'C15_lab_layout', 'C15_lab_layout_old_refuted', 'C15_third_stage_table', 'C15_third_stage_old_refuted',
         'C15_lms_roundtrip', 'C15_instance']
TIE_STAGES = [['C15_TieTac'], ['C15_TieA', 'C15_TieB', 'C15_TieC', 'C15_TieD', 'C15_TieE'],
              ['C15_TiePropsA', 'C15_TiePropsH', 'C15_TiePropsB', 'C15_TiePropsC']]

# round-trip tolerances on the float32 implementation: the bound proved over R plus float32 rounding
RT_TOL = {'ycrcb': 1.0e-3 + 2e-6, 'gamma': 1e-7 + 2e-6, 'xyz': 1e-5 + 6e-6, 'hsv': 1e-8 + 3e-6, 'lab': 1e-5 + 6e-5}
# agreement with the independent published formula (its printed constants have 3-4 digits)
REF_TOL = {'ycrcb': 5e-4, 'lin': 2e-6, 'enc': 2e-6, 'xyz': 1e-3, 'hsv_h': 2e-5, 'hsv_s': 2e-5, 'hsv_v': 0.0, 'lab_L': 0.05, 'lab_ab': 0.15}
F32 = np.float32


def cc():
    import odak.learn.perception.color_conversion as m
    return m


# ---------------------------------------------------------------- independent references (float64, from the standards)
def ref_ycrcb(p):
    r, g, b = p[..., 0], p[..., 1], p[..., 2]
    y = 0.299 * r + 0.587 * g + 0.114 * b
    return np.stack([y, 0.5 + (r - y) / 1.402, 0.5 + (b - y) / 1.772], -1)


def ref_lin(x):
    x = np.asarray(x, float)
    return np.where(x > 0.04045, ((np.maximum(x, 0.04045) + 0.055) / 1.055) ** 2.4, x / 12.92)


def ref_enc(y):
    y = np.asarray(y, float)
    return np.where(y > 0.0031308, 1.055 * np.maximum(y, 0.0031308) ** (1 / 2.4) - 0.055, 12.92 * y)


IEC_M = np.array([[0.4124, 0.3576, 0.1805], [0.2126, 0.7152, 0.0722], [0.0193, 0.1192, 0.9505]])
D65 = IEC_M.sum(1)          # white point of that matrix: (0.9505, 1.0000, 1.0890)


def ref_xyz(p):
    return p @ IEC_M.T


def ref_hsv(p):
    out = np.zeros_like(p)
    for i, (r, g, b) in enumerate(p.reshape(-1, 3)):
        h, s, v = colorsys.rgb_to_hsv(float(r), float(g), float(b))
        out.reshape(-1, 3)[i] = (2 * math.pi * h, s, v)
    return out


def ref_lab(p):
    xyz = ref_lin(p) @ IEC_M.T / D65
    d = 6 / 29
    f = np.where(xyz > d ** 3, np.cbrt(xyz), xyz / (3 * d * d) + 4 / 29)
    return np.stack([116 * f[..., 1] - 16, 500 * (f[..., 0] - f[..., 1]), 200 * (f[..., 1] - f[..., 2])], -1)


# ---------------------------------------------------------------- images from pixel lists
def image_of(pixels, shape):
    """pixels: list of [c0,c1,c2]; shape [3,m,n] or [k,3,m,n]; pixel i goes to position i (row major over k,m,n), cyclically."""
    p = np.array(pixels, dtype=np.float64)
    if len(shape) == 3:
        c, m, n = shape; k = None
        idx = np.arange(m * n) % len(p)
        img = p[idx].reshape(m, n, 3).transpose(2, 0, 1)
    else:
        k, c, m, n = shape
        idx = np.arange(k * m * n) % len(p)
        img = p[idx].reshape(k, m, n, 3).transpose(0, 3, 1, 2)
    return torch.tensor(img, dtype=torch.float32)


def pixels_of(t):
    """[k,3,m,n] or [3,m,n] tensor -> (N,3) float64 in the order image_of uses"""
    a = t.detach().numpy().astype(np.float64)
    if a.ndim == 3:
        return a.transpose(1, 2, 0).reshape(-1, 3)
    return a.transpose(0, 2, 3, 1).reshape(-1, 3)


CONV = {
    'ycrcb': ('rgb_2_ycrcb', 'ycrcb_2_rgb'), 'gamma': ('rgb_to_linear_rgb', 'linear_rgb_to_rgb'),
    'xyz': ('linear_rgb_to_xyz', 'xyz_to_linear_rgb'), 'hsv': ('rgb_to_hsv', 'hsv_to_rgb'), 'lab': ('srgb_to_lab', 'lab_to_srgb'),
}


def as4(t):
    return t if t.dim() == 4 else t.unsqueeze(0)


# ---------------------------------------------------------------- direct oracles
def oracle_roundtrip(inp):
    """forward then inverse returns the starting colours; shape contract; batch entries = single images"""
    m = cc(); fwd, inv = (getattr(m, n) for n in CONV[inp['conv']])
    img = image_of(inp['pixels'], inp['shape'])
    out = []
    y = fwd(img)
    z = inv(y)
    want = list(img.shape) if inp['conv'] == 'lab' or img.dim() == 4 else [1] + list(img.shape)
    out.append(('shape_contract', list(y.shape) == want and list(z.shape) == want, want, [list(y.shape), list(z.shape)]))
    fin = bool(torch.isfinite(y).all()) and bool(torch.isfinite(z).all())
    out.append(('finite', fin, 'finite values', 'non-finite'))
    if list(z.shape) == want and fin:
        err = float((z.reshape(img.shape).double() - img.double()).abs().max())
        out.append(('roundtrip', err <= RT_TOL[inp['conv']], '<= %g' % RT_TOL[inp['conv']], err))
    if img.dim() == 4 and list(y.shape) == want:
        worst = 0.0
        for k in range(img.shape[0]):
            yk = fwd(img[k]); worst = max(worst, float((yk.reshape(y[k].shape) - y[k]).abs().max()))
        out.append(('batch_equals_single', worst <= 1e-6, '<= 1e-6', worst))
    return out


def oracle_reference(inp):
    """each forward conversion against an independent float64 implementation of the published formula"""
    m = cc(); img = image_of(inp['pixels'], inp['shape']); p = pixels_of(img)
    out = []
    c = inp['conv']
    if c == 'ycrcb':
        got = pixels_of(m.rgb_2_ycrcb(img)); e = float(np.abs(got - ref_ycrcb(p)).max())
        out.append(('matches_bt601', e <= REF_TOL['ycrcb'], '<= %g' % REF_TOL['ycrcb'], e))
        rng_ok = bool((got >= -1e-6).all() and (got <= 1 + 1e-6).all())
        out.append(('ycrcb_in_unit_range', rng_ok, '[0,1]', [float(got.min()), float(got.max())]))
    elif c == 'gamma':
        got = pixels_of(m.rgb_to_linear_rgb(img)); e = float(np.abs(got - ref_lin(p)).max())
        out.append(('decode_matches_iec61966', e <= REF_TOL['lin'], '<= %g' % REF_TOL['lin'], e))
        got = pixels_of(m.linear_rgb_to_rgb(img)); e = float(np.abs(got - ref_enc(p)).max())
        out.append(('encode_matches_iec61966', e <= REF_TOL['enc'], '<= %g' % REF_TOL['enc'], e))
    elif c == 'xyz':
        got = pixels_of(m.linear_rgb_to_xyz(img)); e = float(np.abs(got - ref_xyz(p)).max())
        out.append(('matches_iec_matrix', e <= REF_TOL['xyz'], '<= %g' % REF_TOL['xyz'], e))
    elif c == 'hsv':
        got = pixels_of(m.rgb_to_hsv(img)); ref = ref_hsv(p)
        M = p.max(1); d = M - p.min(1)
        dh = np.abs(got[:, 0] - ref[:, 0]); dh = np.minimum(dh, 2 * math.pi - dh)
        cond = d > 1e-3                       # hue is ill-conditioned when the chroma vanishes
        eh = float((dh * cond).max()) if cond.any() else 0.0
        tol_h = 5e-7 / (float(d[cond].min()) if cond.any() else 1.0) + REF_TOL['hsv_h']
        out.append(('hue_matches_hexcone', eh <= tol_h, '<= %g' % tol_h, eh))
        es = float(np.abs(got[:, 1] - ref[:, 1] * (M / (M + 1e-8)))[M > 0].max()) if (M > 0).any() else 0.0
        out.append(('saturation_matches_hexcone', es <= REF_TOL['hsv_s'], '<= %g (with the documented eps)' % REF_TOL['hsv_s'], es))
        out.append(('value_is_max', float(np.abs(got[:, 2] - M).max()) == 0.0, 0.0, float(np.abs(got[:, 2] - M).max())))
        hr = bool((got[:, 0] >= 0).all() and (got[:, 0] <= 2 * math.pi + 1e-6).all())
        out.append(('hue_in_0_2pi', hr, '[0, 2pi]', [float(got[:, 0].min()), float(got[:, 0].max())]))
    elif c == 'lab':
        got = pixels_of(m.srgb_to_lab(img)); ref = ref_lab(p)
        eL = float(np.abs(got[:, 0] - ref[:, 0]).max()); eab = float(np.abs(got[:, 1:] - ref[:, 1:]).max())
        out.append(('L_matches_cie', eL <= REF_TOL['lab_L'], '<= %g' % REF_TOL['lab_L'], eL))
        out.append(('ab_match_cie', eab <= REF_TOL['lab_ab'], '<= %g' % REF_TOL['lab_ab'], eab))
    return out


def oracle_anchors(inp):
    """white -> Y = 1, L* = 100, a* = b* = 0; black; greys have zero chroma and saturation"""
    m = cc(); out = []
    levels = inp['levels']
    img = image_of([[v, v, v] for v in levels], [3, 1, len(levels)])
    ycc = pixels_of(m.rgb_2_ycrcb(img)); hsv = pixels_of(m.rgb_to_hsv(img)); lab = pixels_of(m.srgb_to_lab(img))
    xyz = pixels_of(m.linear_rgb_to_xyz(img))
    e = float(np.abs(ycc[:, 1:] - 0.5).max()); out.append(('grey_ycrcb_chroma_zero', e <= 1e-6, '<= 1e-6', e))
    e = float(np.abs(ycc[:, 0] - np.array(levels, dtype=np.float32)).max()); out.append(('grey_luma_is_level', e <= 1e-6, '<= 1e-6', e))
    e = float(np.abs(hsv[:, 1]).max()); out.append(('grey_saturation_zero', e == 0.0, 0.0, e))
    e = float(np.abs(lab[:, 1:]).max()); out.append(('grey_lab_chroma_zero', e <= 2e-3, '<= 2e-3', e))
    e = float(np.abs(xyz[:, 1] - np.array(levels, dtype=np.float32)).max()); out.append(('grey_Y_is_level', e <= 2e-6, '<= 2e-6', e))
    w = image_of([[1.0, 1.0, 1.0], [0.0, 0.0, 0.0]], [3, 1, 2])
    xyzw = pixels_of(m.linear_rgb_to_xyz(w)); labw = pixels_of(m.srgb_to_lab(w))
    out.append(('white_Y_is_1', abs(xyzw[0, 1] - 1) <= 1e-6, 1.0, float(xyzw[0, 1])))
    out.append(('white_L_is_100', abs(labw[0, 0] - 100) <= 1e-3, 100.0, float(labw[0, 0])))
    out.append(('white_ab_zero', float(np.abs(labw[0, 1:]).max()) <= 1e-3, 0.0, labw[0, 1:].tolist()))
    out.append(('black_is_origin', float(np.abs(labw[1]).max()) <= 1e-4 and float(np.abs(xyzw[1]).max()) == 0.0, 0.0, [labw[1].tolist(), xyzw[1].tolist()]))
    return out


def oracle_curve(inp):
    """transfer curves: monotone (encoding: up to the 3e-8 step of the standard's constants) and continuous at the knee"""
    m = cc(); out = []
    xs = np.array(sorted(set(F32(v) for v in inp['xs'])), dtype=np.float32)
    img = torch.tensor(xs).reshape(1, 1, 1, -1).repeat(1, 3, 1, 1)
    for name, fn, knee, step in (('decode', m.rgb_to_linear_rgb, 0.04045, 0.0), ('encode', m.linear_rgb_to_rgb, 0.0031308, 3e-8)):
        y = fn(img)[0, 0, 0].numpy().astype(np.float64)
        lo = xs <= F32(knee)
        for side, sel in (('below_knee', lo), ('above_knee', ~lo)):
            ys = y[sel]; xsel = xs[sel]
            if len(ys) < 2: continue
            drop = np.maximum.accumulate(ys)[:-1] - ys[1:]
            bad = np.where(drop > 2.5e-7 * np.abs(ys[1:]) + 1e-12)[0]       # 2 ulp of float32 pow
            out.append(('%s_monotone_%s' % (name, side), len(bad) == 0, 'non-decreasing (2 ulp)',
                        None if len(bad) == 0 else {'x': float(xsel[bad[0] + 1]), 'drop': float(drop[bad[0]])}))
        if lo.any() and (~lo).any():
            gap = float(y[lo].max() - y[~lo].min())
            out.append(('%s_step_at_knee_bounded' % name, gap <= step + 1e-9, 'values above the knee >= values below it - %g' % step, gap))
    for name, fn, knee in (('decode', m.rgb_to_linear_rgb, 0.04045), ('encode', m.linear_rgb_to_rgb, 0.0031308)):
        k = F32(knee); pts = [k]
        for _ in range(3): pts.append(np.nextafter(pts[-1], F32(1)))
        for _ in range(3): pts.insert(0, np.nextafter(pts[0], F32(0)))
        t = torch.tensor(np.array(pts, dtype=np.float32)).reshape(1, 1, 1, -1).repeat(1, 3, 1, 1)
        y = fn(t)[0, 0, 0].numpy().astype(np.float64)
        jump = float(np.abs(np.diff(y)).max())
        out.append(('%s_continuous_at_knee' % name, jump <= 1e-7, '<= 1e-7 between neighbouring floats', jump))
    e0 = [float(m.rgb_to_linear_rgb(torch.tensor([[[[v]]] * 3]))[0, 0, 0, 0]) for v in (0.0, 1.0)] + \
         [float(m.linear_rgb_to_rgb(torch.tensor([[[[v]]] * 3]))[0, 0, 0, 0]) for v in (0.0, 1.0)]
    out.append(('endpoints', max(abs(e0[0]), abs(e0[1] - 1), abs(e0[2]), abs(e0[3] - 1)) <= 1e-6, [0, 1, 0, 1], e0))
    return out


def oracle_knee(inp):
    """exact monotonicity over the neighbouring float32 values around a knee"""
    m = cc(); fn = m.rgb_to_linear_rgb if inp['curve'] == 'decode' else m.linear_rgb_to_rgb
    pts = np.array(ulps(inp['x0'], range(-inp['n'], inp['n'] + 1)), dtype=np.float32)
    y = fn(torch.tensor(pts).reshape(1, 1, 1, -1).repeat(1, 3, 1, 1))[0, 0, 0].numpy().astype(np.float64)
    d = np.diff(y); k = int(d.argmin())
    obs = {'x': float(pts[k]), 'next_x': float(pts[k + 1]), 'f(x)': float(y[k]), 'f(next_x)': float(y[k + 1])}
    return [('%s_monotone_across_knee' % inp['curve'], float(d.min()) >= 0.0, 'non-decreasing over consecutive floats', obs),
            ('%s_knee_step_bounded' % inp['curve'], float(d.min()) >= -3.1e-8, 'no step below -3e-8', obs)]


def make_display(spec):
    m = cc()
    wl = np.linspace(400, 700, 301)
    sp = np.stack([a * np.exp(-0.5 * ((wl - mu) / sg) ** 2) for (mu, sg, a) in spec])
    import logging
    logging.disable(logging.WARNING)
    try:
        d = m.display_color_hvs(read_spectrum='tensor', primaries_spectrum=torch.tensor(sp, dtype=torch.float32))
    finally:
        logging.disable(logging.NOTSET)
    return d, sp


def oracle_lms(inp):
    """cone x spectrum matrix, primaries -> LMS -> primaries (independent primaries), opponent table; batches"""
    d, sp = make_display(inp['spectra']); out = []
    cones = np.stack([d.l_normalized.numpy(), d.m_normalized.numpy(), d.s_normalized.numpy()]).astype(np.float64)
    T = sp.astype(np.float32).astype(np.float64) @ cones.T                     # [primary, cone]
    got = d.lms_tensor.numpy().astype(np.float64)
    e = float(np.abs(got - T).max() / max(1e-30, np.abs(T).max()))
    out.append(('lms_matrix_is_cones_x_spectra', e <= 1e-5, '<= 1e-5 relative', e))
    e = float(np.abs(d.primaries_tensor.numpy().astype(np.float64) - T.T).max() / max(1e-30, np.abs(T).max()))
    out.append(('primaries_matrix_is_transpose', e <= 1e-5, '<= 1e-5 relative', e))
    img = image_of(inp['pixels'], inp['shape'])
    lms = d.primaries_to_lms(img)
    want = pixels_of(img) @ got
    e = float(np.abs(pixels_of(lms) - want).max() / max(1.0, np.abs(want).max()))
    out.append(('primaries_to_lms_is_matrix_product', e <= 1e-5, '<= 1e-5', e))
    cond = float(np.linalg.cond(got))
    if cond < 1e4:
        back = d.lms_to_primaries(lms)
        ok_shape = list(back.shape) == list(img.shape)
        out.append(('lms_roundtrip_shape', ok_shape, list(img.shape), list(back.shape)))
        if ok_shape:
            e = float((back.double() - img.double()).abs().max())
            out.append(('lms_roundtrip', e <= 2e-6 * cond + 1e-6, '<= 2e-6 * cond(%.3g)' % cond, e))
    third = pixels_of(d.second_to_third_stage(lms)); l = pixels_of(lms)
    table = np.stack([(l[:, 1] + l[:, 2]) - l[:, 0], (l[:, 0] + l[:, 2]) - l[:, 1], l[:, 0] + l[:, 1] + l[:, 2]], -1)
    for c, nm in enumerate(('third_stage_channel0_is_M_plus_S_minus_L', 'third_stage_channel1_is_L_plus_S_minus_M', 'third_stage_channel2_is_L_plus_M_plus_S')):
        e = float(np.abs(third[:, c] - table[:, c]).max() / max(1.0, np.abs(table).max()))
        out.append((nm, e <= 1e-5, '<= 1e-5', e))
    return out


def classify_lab(shape, which='srgb_to_lab'):
    """what the implementation does with an argument of this shape (observed through values, not through the source)"""
    m = cc(); fn = getattr(m, which)
    g = np.random.RandomState(sum((i + 1) * s for i, s in enumerate(shape)))
    x = torch.tensor(g.rand(*shape), dtype=torch.float32) if which == 'srgb_to_lab' else \
        torch.tensor(g.rand(*shape) * 50 + 10, dtype=torch.float32)
    try:
        y = fn(x)
    except Exception as e:
        return 'Rejected', repr(e)[:120]
    if len(shape) == 4:
        ok = y.dim() == 4 and y.shape[0] == shape[0]
        if ok:
            for k in range(shape[0]):
                ok = ok and bool(torch.allclose(y[k], fn(x[k]), atol=1e-6))
        return ('Batch' if ok else 'Other'), list(y.shape)
    if len(shape) != 3:
        return 'Other', list(y.shape)
    # per-pixel evaluation through a 1 x 2 channel-first image (unambiguous: last extent 2)
    def per_pixel(p):
        t = torch.tensor(np.array(p, dtype=np.float64).reshape(1, 1, 3).repeat(2, axis=1).transpose(2, 0, 1), dtype=torch.float32)
        return fn(t)[:, 0, 0].numpy().astype(np.float64)
    a = x.numpy().astype(np.float64)
    res = {}
    if shape[0] == 3:
        ref = np.stack([per_pixel(a[:, i, j]) for i in range(shape[1]) for j in range(shape[2])], 0).reshape(shape[1], shape[2], 3).transpose(2, 0, 1)
        res['ChannelFirst'] = list(y.shape) == [3, shape[1], shape[2]] and float(np.abs(y.numpy() - ref).max()) <= 1e-3
    if shape[2] == 3:
        ref = np.stack([per_pixel(a[i, j, :]) for i in range(shape[0]) for j in range(shape[1])], 0).reshape(shape[0], shape[1], 3).transpose(2, 0, 1)
        res['ChannelLast'] = list(y.shape) == [3, shape[0], shape[1]] and float(np.abs(y.numpy() - ref).max()) <= 1e-3
    hits = [k for k, v in res.items() if v]
    if len(hits) == 1:
        return hits[0], list(y.shape)
    if len(hits) == 2:
        return 'Ambiguous', list(y.shape)
    return 'Other', list(y.shape)


def oracle_lab_layout(inp):
    """every documented shape [3 x m x n] is converted pixel by pixel as channel-first; [k x 3 x m x n] as a batch"""
    out = []
    for which in ('srgb_to_lab', 'lab_to_srgb'):
        got, detail = classify_lab(inp['shape'], which)
        want = 'ChannelFirst' if len(inp['shape']) == 3 else 'Batch'
        out.append(('%s_layout' % which, got == want, want, [got, detail]))
    return out


ORACLES = {'roundtrip': oracle_roundtrip, 'reference': oracle_reference, 'anchors': oracle_anchors, 'curve': oracle_curve, 'knee': oracle_knee,
           'lms': oracle_lms, 'lab_layout': oracle_lab_layout}
FUNC_OF = {'ycrcb': 'rgb_2_ycrcb', 'gamma': 'rgb_to_linear_rgb', 'xyz': 'linear_rgb_to_xyz', 'hsv': 'rgb_to_hsv', 'lab': 'srgb_to_lab'}


def function_name(name, inp, clause):
    if name == 'lms':
        return MOD + '.display_color_hvs.' + ('second_to_third_stage' if clause.startswith('third') else
                                              'lms_to_primaries' if clause.startswith('lms_roundtrip') else 'primaries_to_lms')
    if name == 'lab_layout':
        return MOD + '.' + clause.split('_layout')[0]
    if name in ('curve', 'knee'):
        return MOD + '.' + ('rgb_to_linear_rgb' if clause.startswith('decode') else 'linear_rgb_to_rgb')
    if name == 'anchors':
        return MOD + '.' + ('srgb_to_lab' if 'lab' in clause or 'white_L' in clause or 'white_ab' in clause or 'black' in clause else
                            'rgb_to_hsv' if 'saturation' in clause else 'linear_rgb_to_xyz' if '_Y_' in clause else 'rgb_2_ycrcb')
    if name == 'reference' and clause.startswith('encode'):
        return MOD + '.linear_rgb_to_rgb'
    return MOD + '.' + FUNC_OF[inp['conv']]


def apply_oracle(ctx, name, inp):
    try:
        res = ORACLES[name](inp)
    except Exception as e:
        res = [('no_exception', False, 'a result', repr(e)[:300])]
    bad = 0
    for clause, ok, exp, obs in res:
        if not ok:
            bad += 1
            ctx.violation(function_name(name, inp, clause), clause, dict(inp, oracle=name), exp, obs)
    return bad, res


# ---------------------------------------------------------------- generators
def ulps(v, ks):
    out = []
    for k in ks:
        x = F32(v)
        for _ in range(abs(k)):
            x = np.nextafter(x, F32(2) if k > 0 else F32(-1))
        out.append(float(x))
    return out


def boundary_pixels(rng):
    """the boundary classes the property lists"""
    corners = [list(map(float, c)) for c in itertools.product([0, 1], repeat=3)]
    greys = [[v, v, v] for v in (0.0, 1 / 255, 0.04045, 0.0031308, 0.2, 0.5, 0.75, 254 / 255, 1.0)]
    thr = []
    for t in (0.04045, 0.0031308, 0.008856451679035631 ** (1 / 2.4) * 1.055 - 0.055, 0.08):
        for v in ulps(t, (-2, -1, 0, 1, 2)):
            thr += [[v, v, v], [v, 0.5, 1.0], [1.0, v, 0.0], [0.3, 0.9, v]]
    edges = []
    for _ in range(12):
        c = [rng.random() for _ in range(3)]
        i = rng.randrange(3); c[i] = float(rng.choice([0, 1])); edges.append(list(c))
        j = (i + 1 + rng.randrange(2)) % 3; c2 = list(c); c2[j] = float(rng.choice([0, 1])); edges.append(c2)
    ties = []                                           # HSV sector boundaries: two equal channels, in every order
    for _ in range(6):
        a, b = sorted([rng.random(), rng.random()])
        ties += [[b, b, a], [b, a, b], [a, b, b], [a, a, b], [a, b, a], [b, a, a]]
    dark = [[rng.random() * 10 ** -k for _ in range(3)] for k in (3, 5, 7) for _ in range(3)]
    near = [[1 - rng.random() * 1e-6 for _ in range(3)] for _ in range(3)]
    return corners + greys + thr + edges + ties + dark + near


def random_pixels(rng, n):
    out = []
    for i in range(n):
        if i % 3 == 0:                                  # saturated, one hue sector at a time
            h = rng.random(); s = rng.uniform(0.2, 1); v = rng.uniform(0.05, 1)
            out.append(list(colorsys.hsv_to_rgb(h, s, v)))
        else:
            out.append([rng.random() for _ in range(3)])
    return out


SHAPES3 = [[3, m, n] for m, n in ((1, 1), (1, 2), (2, 1), (3, 3), (4, 3), (3, 5), (5, 4), (7, 6), (2, 9))]


def gen_shape(rng, conv, i):
    if i % 2 == 0:
        return [rng.randint(1, 4), 3, rng.randint(1, 6), rng.choice([1, 2, 3, 3, 4, 5, 7])]
    return list(SHAPES3[(i // 2) % len(SHAPES3)])


def gen_spectra(rng, well=True):
    mus = [rng.uniform(600, 670), rng.uniform(520, 570), rng.uniform(430, 480)] if well else [rng.uniform(420, 680) for _ in range(3)]
    return [[mu, rng.uniform(8, 25), rng.uniform(0.5, 1.0)] for mu in mus]


# ---------------------------------------------------------------- translator self-check
def self_check(ctx, g):
    m = cc(); rng = ctx.rng
    bad = 0; n = 0
    def env_of(x, name='x'):
        return {'%s%s' % (name, ''.join('_%d' % i for i in idx)): float(x[idx]) for idx in np.ndindex(*x.shape)}
    def cmp(names_vals, env, rtol, atol, circular=()):
        nonlocal bad, n
        for name, val in names_vals:
            got = g.evalf(name, env); n += 1
            ok = emit.close(got, val, rtol, atol)
            if not ok and name in circular:
                d = abs(float(got) - float(val)); ok = min(d, abs(2 * math.pi - d)) <= 1e-4
            if not ok:
                bad += 1; ctx.log('self-check mismatch', name, got, val)
    for rep in range(6):
        pix = random_pixels(rng, 4) if rep else [[0.0, 0.0, 0.0], [1.0, 1.0, 1.0], [0.2, 0.2, 0.9], [0.03, 0.5, 0.002]]
        x = image_of(pix, [2, 3, 1, 2])
        xe = env_of(x.numpy().astype(np.float64))
        for fn, pre in recipe.PIXELWISE:
            if fn == 'hsv_to_rgb':
                inp = m.rgb_to_hsv(x); inp[:, 1] = inp[:, 1] * 0.9 + 0.05
            elif fn == 'ycrcb_2_rgb':
                inp = m.rgb_2_ycrcb(x)
            else:
                inp = x
            ie = env_of(inp.numpy().astype(np.float64))
            y = getattr(m, fn)(inp).numpy().astype(np.float64)
            cmp([('%s_%d_%d_%d' % (pre, b, c, j), y[b, c, 0, j]) for b in range(2) for c in range(3) for j in range(2)], ie, 2e-5, 2e-6,
                circular=['hsv_%d_0_%d' % (b, j) for b in range(2) for j in range(2)] if fn == 'rgb_to_hsv' else ())
            y3 = getattr(m, fn)(inp[0]).numpy().astype(np.float64)
            cmp([('%s3_%d_%d' % (pre, c, j), y3[0, c, 0, j]) for c in range(3) for j in range(2)], ie, 2e-5, 2e-6,
                circular=['hsv3_0_%d' % j for j in range(2)] if fn == 'rgb_to_hsv' else ())
        x3 = x[0]
        le = {'x_%d_0_%d' % (c, j): float(x3[c, 0, j]) for c in range(3) for j in range(2)}
        lab = m.srgb_to_lab(x3)
        cmp([('lab_%d_%d' % (c, j), float(lab[c, 0, j])) for c in range(3) for j in range(2)], le, 2e-5, 5e-4)
        labin = lab.clone()
        le2 = {'x_%d_0_%d' % (c, j): float(labin[c, 0, j]) for c in range(3) for j in range(2)}
        back = m.lab_to_srgb(labin)
        cmp([('ilab_%d_%d' % (c, j), float(back[c, 0, j])) for c in range(3) for j in range(2)], le2, 2e-4, 2e-5)
        d, _ = make_display(gen_spectra(rng))
        tm = d.lms_tensor.numpy().astype(np.float64); tp = d.lms_tensor.pinverse().double().numpy()
        env = dict(xe); env.update(env_of(tm, 'tm')); env.update(env_of(tp, 'tp'))
        y = d.primaries_to_lms(x).numpy().astype(np.float64); z = d.lms_to_primaries(x).numpy().astype(np.float64)
        w = d.second_to_third_stage(x).numpy().astype(np.float64)
        scale = float(np.abs(tp).max())
        cmp([('p2l_%d_%d_%d' % (b, c, j), y[b, c, 0, j]) for b in range(2) for c in range(3) for j in range(2)], env, 1e-5, 1e-5 * float(np.abs(tm).max()))
        cmp([('l2p_%d_%d_%d' % (b, c, j), z[b, c, 0, j]) for b in range(2) for c in range(3) for j in range(2)], env, 1e-5, 1e-5 * scale)
        cmp([('third_%d_%d_%d' % (b, c, j), w[b, c, 0, j]) for b in range(2) for c in range(3) for j in range(2)], env, 1e-5, 1e-6)
    ctx.traces += n
    ctx.obligation('translator-self-check(traced terms = real functions on %d values)' % n, bad == 0 and n > 0, '%d mismatches' % bad)


# ---------------------------------------------------------------- B2: layout dispatch evaluated inside Coq
LAYOUT_PRE = 'From Coq Require Import ZArith List.\nFrom OdakV Require Import C15.Model.\nImport ListNotations.\nOpen Scope Z_scope.'


def layout_shapes(rng, thorough):
    s = [[3, m, n] for m in (1, 2, 3, 4, 5) for n in (1, 2, 3, 4, 7)]
    s += [[m, n, 3] for m in (1, 2, 4, 5) for n in (1, 2, 3, 4)]
    s += [[k, 3, m, n] for k in (1, 2, 3) for m in (1, 3, 4) for n in (2, 3, 5)]
    s += [[2, 4, 5, 3], [3, 5], [5, 3], [7], [1, 2, 3, 4, 5], [4, 5, 6], [2, 5, 4]]
    for _ in range(60 if thorough else 12):
        s.append([3, rng.randint(1, 9), rng.randint(1, 9)])
    return s


def correspondence_layout(ctx):
    shapes = layout_shapes(ctx.rng, ctx.thorough)
    vals = ctx.coq_eval(LAYOUT_PRE, ['lab_dispatch %s' % listlit([zlit(v) for v in s]) for s in shapes], label='layout', chunk=200)
    mism = 0
    for s, v in zip(shapes, vals):
        if v is None:
            continue
        for which in ('srgb_to_lab', 'lab_to_srgb'):
            got, detail = classify_lab(s, which)
            # shapes that are neither [3,..] nor [..,3] are outside both documented layouts: the model says
            # ChannelFirst (no permutation); the implementation then fails or produces something else
            comparable = not (len(s) == 3 and s[0] != 3 and s[2] != 3)
            ok = (got == v) or (got == 'Ambiguous') or not comparable
            ctx.case('layout/%s/rank%d/%s' % (which, len(s), v), (which, tuple(s)), nontrivial=comparable)
            ctx.traces += 1
            if not ok:
                mism += 1
                if mism <= 5:
                    ctx.log('layout: model=%s implementation=%s shape=%s %s %s' % (v, got, s, which, detail))
    ctx.obligation('correspondence:lab-layout(model = implementation on %d shapes x 2 functions)' % len(shapes), mism == 0, '%d disagreements' % mism)


# ---------------------------------------------------------------- Print Assumptions, several files in parallel
def theorems_parallel(ctx, module, names, nfiles=4):
    """Same obligations as ctx.theorems (one per theorem: it exists in the compiled module and depends only on
    allowed axioms).  `Print Assumptions` costs 5 s of CPU for every theorem that rests on Interval, so the theorems
    are grouped: each file checks that every theorem of its group exists (`Check`) and prints the assumptions of
    the tuple of the group's proofs, whose axioms are the union of the members' axioms."""
    groups = [names[k::nfiles] for k in range(nfiles) if names[k::nfiles]]
    files = []
    for k, grp in enumerate(groups):
        lines = ['Require Import %s.' % module]
        for n in grp:
            lines.append('Goal True. idtac "@@THM %s". exact I. Qed.' % n)
            lines.append('Check %s.' % n)
        lines.append('Goal True. idtac "@@BUNDLE". exact I. Qed.')
        lines.append('Definition c15_bundle_%d := %s.' % (k, ' '.join('(pair %s' % n for n in grp[:-1]) + ' ' + grp[-1] + ')' * (len(grp) - 1)))
        lines.append('Print Assumptions c15_bundle_%d.' % k)
        lines.append('Goal True. idtac "@@END". exact I. Qed.')
        files.append(('Assumptions_C15_%d' % k, '\n'.join(lines) + '\n'))
    res = ctx.coqc_many(files, 600)
    for grp, (ok, out) in zip(groups, res):
        head, _, tail = out.partition('@@BUNDLE')
        b = tail.split('@@END')[0]
        closed = 'Closed under the global context' in b
        ax = [] if closed else [a for a in re.findall(r"^([A-Za-z_][\w.']*)\s*:", b, flags=re.M) if a != 'Axioms' and not a.startswith('c15_bundle')]
        bad = [a for a in ax if not a.startswith(ALLOWED_AXIOM_PREFIXES)]
        ctx.axioms.update(a for a in ax if a.startswith(ALLOWED_AXIOM_PREFIXES))
        blocks = re.split(r'@@THM (\S+)', head)
        seen = {blocks[i]: blocks[i + 1] for i in range(1, len(blocks) - 1, 2)}
        for n in grp:
            present = ok and n in seen and re.search(r'^%s\s*$|^%s\s*:' % (re.escape(n), re.escape(n)), seen[n], flags=re.M) is not None
            good = present and '@@END' in tail and (closed or bool(ax)) and not bad
            ctx.obligation('theorem:%s.%s' % (module, n), good,
                           ('non-stdlib axioms in the group: %s' % bad) if bad else ('' if good else out[-800:]))


# ---------------------------------------------------------------- run
def run_oracles(ctx, n_random, n_curve):
    rng = ctx.rng
    bp = boundary_pixels(rng)
    i = 0
    for conv in CONV:
        # boundary stream: all boundary pixels in one single image and one batch
        for shape in ([3, 1, len(bp)], [2, 3, len(bp) // 2 + 1, 1]):
            inp = {'conv': conv, 'pixels': bp, 'shape': shape}
            apply_oracle(ctx, 'roundtrip', inp); ctx.case('roundtrip/%s/boundary' % conv, (conv, 'b', tuple(shape)))
        apply_oracle(ctx, 'reference', {'conv': conv, 'pixels': [p for p in bp if max(p) >= 1e-3], 'shape': [3, 1, len(bp)]})
        ctx.case('reference/%s/boundary' % conv, (conv, 'rb'))
        for k in range(n_random):
            shape = gen_shape(rng, conv, k)
            npx = int(np.prod(shape)) // 3
            pix = random_pixels(rng, min(npx, 24))
            if k % 4 == 3:
                pix[rng.randrange(len(pix))] = rng.choice(bp)
            inp = {'conv': conv, 'pixels': pix, 'shape': shape}
            bad, res = apply_oracle(ctx, 'roundtrip', inp)
            ctx.case('roundtrip/%s/%s' % (conv, 'batch' if len(shape) == 4 else 'single'), (conv, str(pix), tuple(shape)), nontrivial=len(res) >= 3)
            if len(ctx.samples) < 4 and k == 0:
                ctx.sample({'oracle': 'roundtrip', 'conv': conv, 'shape': shape, 'first_pixel': pix[0], 'clauses': [[c, ok, str(obs)[:60]] for c, ok, _, obs in res]})
            bad, res = apply_oracle(ctx, 'reference', inp)
            ctx.case('reference/%s' % conv, (conv, 'r', str(pix)))
            i += 1
    apply_oracle(ctx, 'anchors', {'levels': [0.0, 1 / 255, 0.0031308, 0.04045, 0.1, 0.2, 1 / 3, 0.5, 0.7, 0.9, 254 / 255, 1.0] + [rng.random() for _ in range(12)]})
    ctx.case('anchors', ('anchors', 0))
    for k in range(n_curve):
        xs = [rng.random() for _ in range(400)] + ulps(0.04045, range(-8, 9)) + ulps(0.0031308, range(-8, 9)) + [0.0, 1.0] + \
             [rng.uniform(0.0030, 0.0033) for _ in range(100)] + [rng.uniform(0.040, 0.041) for _ in range(100)]
        apply_oracle(ctx, 'curve', {'xs': xs}); ctx.case('curve', ('curve', k))
    for curve, x0 in (('decode', 0.04045), ('encode', 0.0031308)):
        for n in (2, 8, 32):
            apply_oracle(ctx, 'knee', {'curve': curve, 'x0': x0, 'n': n}); ctx.case('knee/%s' % curve, ('knee', curve, n))
    for k in range(max(4, n_random // 3)):
        shape = [rng.randint(1, 3), 3, rng.randint(1, 4), rng.randint(1, 4)]
        inp = {'spectra': gen_spectra(rng, well=(k % 4 != 3)), 'pixels': random_pixels(rng, 6) + [[0, 0, 0], [1, 1, 1], [1, 0, 0]], 'shape': shape}
        bad, res = apply_oracle(ctx, 'lms', inp)
        ctx.case('lms/%s' % ('independent' if len(res) >= 8 else 'ill-conditioned'), ('lms', k, str(inp['spectra'])), nontrivial=len(res) >= 8)
    for s in [[3, 1, 3], [3, 3, 3], [3, 4, 3], [3, 3, 4], [3, 5, 2], [2, 3, 4, 3], [1, 3, 3, 3], [3, 3, 2, 5]] + [[3, rng.randint(1, 8), rng.choice([3, rng.randint(1, 8)])] for _ in range(6)]:
        apply_oracle(ctx, 'lab_layout', {'shape': s}); ctx.case('lab_layout/rank%d' % len(s), ('ll', tuple(s)))


def run(ctx):
    ctx.rule = ('pixels: uniform in [0,1]^3 and saturated colours sector by sector, plus a boundary stream (cube corners, edges and '
                'faces, greys, primaries, the piecewise thresholds 0.04045 / 0.0031308 / Lab knee +- 2 ulp, HSV sector ties, near-black, '
                'near-white); images [3,m,n] and batches [k,3,m,n] with m,n in 1..9 incl. width 3; a case is non-trivial when the '
                'conversion returned the contracted shape and the round-trip clause was evaluated; distinct by (conversion, pixels, shape)')
    ctx.trusted += ['tracer/shim.py + tracer/recipes/c15.py (translator; validated each run by the numeric self-check); binary64 constants the '
                    'source computes at run time are read as their shortest decimal', 'torch kernels (pow, where, max, gather, matmul, remainder, floor, '
                    'pinverse) modelled as exact real operations; float32 rounding is not modelled (oracle tolerances carry it)',
                    'torch.pinverse: contract T Q = I for independent primaries (Section hypothesis); construct_matrix_lms and the batched glue for '
                    'general H x W are exercised by the direct oracles only (traced at 2 x 3 x 1 x 2)']
    ctx.assumptions += ['colours in gamut [0,1]^3 (round trips of HSV need only non-negative channels)',
                        'display primaries linearly independent (pseudo-inverse contract) for the LMS round trip']
    ctx.gate()
    ctx.ensure_theories(['theories/C15/Props.vo'])
    theorems_parallel(ctx, 'OdakV.C15.Props', PROPS)
    if ctx.thorough: ctx.coqchk('OdakV.C15.Props')
    try:
        g = recipe.trace()
        ctx.programs = len(g.defs)
        ctx.obligation('translator:trace(%d definitions, %d nodes)' % (len(g.defs), g.total_size()), True)
    except Exception as e:
        g = None
        ctx.obligation('translator:trace', False, repr(e))
    if g is not None:
        ctx.compile_tie('GenC15', g.text(), TIE_STAGES)
        self_check(ctx, g)
        ctx.sample({'traced_definition': 'enc_0_0_0', 'coq': __import__('tracer.shim').shim.coq(g.by_name['enc_0_0_0'][1])[:300]})
    correspondence_layout(ctx)
    run_oracles(ctx, 250 if ctx.thorough else 14, 20 if ctx.thorough else 2)
    ctx.extra['oracle_tolerances'] = {'roundtrip': RT_TOL, 'reference': REF_TOL}


def search(ctx):
    for _ in range(30):
        run_oracles(ctx, 20, 1)
        if len(ctx.viol) > 3:
            return


def replay(ctx, rec):
    if rec.get('no_failing_input_found'):
        print('replay names broken obligations only:', json.dumps(rec['broken_obligations'])[:3000]); return 1
    inp = dict(rec['input']); name = inp.pop('oracle')
    res = ORACLES[name](inp)
    for r in res:
        print(('FAIL ' if not r[1] else 'ok   ') + r[0], '' if r[1] else 'expected=%s observed=%s' % (r[2], r[3]))
    return 1 if [r for r in res if not r[1]] else 0
