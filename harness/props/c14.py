"""C14 — generated rays and sample points lie where their description says.

Proof: coq/theories/C14 (rays from two points, all pairs, spherical-cap rays, tilted lattices; for ALL reals,
counts, tilts, limits and draws U, V in [0, 1]).
Tie to /repo, B1: the constructors and generators of both APIs are cut from the current sources, executed
symbolically with symbolic random draws (tracer/recipes/c14.py) and proved equal to the model for all reals
(coq/tie/C14_Tie{A,B1,B2,C1,C2,C3}.v), where the property's clauses are restated on the traced definitions; the translator
is validated numerically on every run.  B2: the index order of the lattices / all-pairs / light-to-ray
assignment and the rational axis coordinates are evaluated inside Coq (vm_compute) and compared with the
implementation's rows for many counts.  Direct oracles state every clause on the real implementation.
"""
import json, math
import numpy as np
import torch
from harness.common import qlit, listlit, parse_zlist
from tracer.recipes import c14 as recipe
from tracer import emit

PROPS = ['C14_two_points_unit', 'C14_two_points_reach', 'C14_two_points_reach_unique', 'C14_zero_length_iff',
         'C14_all_pairs_count', 'C14_all_pairs_nth', 'C14_all_pairs_sound', 'C14_batch_count', 'C14_batch_sound',
         'C14_cap_within_limit', 'C14_cap_c2_refuted', 'C14_cap_c2_angle_refuted', 'C14_cap_c2_partial', 'C14_cap_unit',
         'C14_tilt_preserves_angle', 'C14_lum_within_limit', 'C14_lum_axis_unit', 'C14_grid_lum_count', 'C14_grid_lum_sound',
         'C14_placed_rel', 'C14_placed_dist', 'C14_sphere_on', 'C14_circle_in', 'C14_circle_rim', 'C14_circle_uniform_in', 'C14_count_circle_uniform', 'C14_circle_random_in', 'C14_count_circle_random', 'C14_grid_in', 'C14_grid_extent',
         'C14_grid_single_refuted', 'C14_box_in', 'C14_count_grid', 'C14_count_circle', 'C14_count_sphere', 'C14_count_box',
         'C14_lattice2_nth', 'C14_lattice3_nth', 'C14_grid_coordQ_R', 'C14_box_coordQ_R', 'C14_closeQ_sound', 'C14_instance']
PRE = ('From Coq Require Import List QArith. Import ListNotations.\nFrom OdakV Require Import C14.Model.\nOpen Scope Q_scope.')
TOL32, TOL64 = 1e-6, 1e-12          # relative to the scale of the configuration (used with factors 10 and 100)
COS_TOL32 = 5e-6                    # cosine of the deviation, float32 rays


def api():
    import odak.learn.raytracing as lr, odak.raytracing as nr, odak.tools as nt, odak.learn.tools as lt
    return lr, nr, nt, lt


# ---------------------------------------------------------------- independent geometry (float64)
def rotm(angles):
    a, b, g = [math.radians(float(x)) for x in angles]
    rx = np.array([[1, 0, 0], [0, math.cos(a), -math.sin(a)], [0, math.sin(a), math.cos(a)]])
    ry = np.array([[math.cos(b), 0, math.sin(b)], [0, 1, 0], [-math.sin(b), 0, math.cos(b)]])
    rz = np.array([[math.cos(g), -math.sin(g), 0], [math.sin(g), math.cos(g), 0], [0, 0, 1]])
    return rz @ ry @ rx


def rel(points, centre, angles):
    """coordinates of the points in the tilted frame attached to the centre (columns: ex, ey, ez)"""
    return (np.asarray(points, float) - np.asarray(centre, float)) @ rotm(angles)


def grid_axis(s, n):
    return [s * i / (n - 1) - s / 2 for i in range(n)] if n > 1 else [-s / 2]


def to_np(x):
    return x.detach().cpu().numpy().astype(float) if isinstance(x, torch.Tensor) else np.asarray(x, float)


def scale_of(*xs):
    return max([1.0] + [float(np.max(np.abs(np.asarray(x, float)))) for x in xs if np.size(x)])


# ---------------------------------------------------------------- direct oracles
# Every oracle is split into prep(inp) -> (callable, argument objects built ONCE) and check(inp, raw result) -> clauses.
# run_oracle calls the implementation inp['calls'] times (default 1) with the SAME argument objects and evaluates every
# clause on every call against the description in `inp` (the pristine copy: it is JSON and never handed to odak), plus
# `arguments_unchanged`: bitwise comparison of every tensor / array / list argument with a copy taken before the first call.
def snapshot(x):
    if isinstance(x, torch.Tensor): return x.detach().clone()
    if isinstance(x, np.ndarray): return x.copy()
    if isinstance(x, (list, tuple)): return [snapshot(y) for y in x]
    return x


def same_bits(a, b):
    if isinstance(a, torch.Tensor):
        return isinstance(b, torch.Tensor) and a.dtype == b.dtype and a.shape == b.shape and a.detach().numpy().tobytes() == b.detach().numpy().tobytes()
    if isinstance(a, np.ndarray):
        return isinstance(b, np.ndarray) and a.dtype == b.dtype and a.shape == b.shape and a.tobytes() == b.tobytes()
    if isinstance(a, (list, tuple)):
        return isinstance(b, (list, tuple)) and len(a) == len(b) and all(same_bits(x, y) for x, y in zip(a, b))
    if isinstance(a, float):
        return isinstance(b, float) and np.float64(a).tobytes() == np.float64(b).tobytes()
    return type(a) == type(b) and a == b


def describe(x):
    return to_np(x).tolist() if isinstance(x, (torch.Tensor, np.ndarray)) else x


def as_arg(v, inp, default='list'):
    """NumPy-API argument: the (nested) python list itself, or a float64 array (inp['args'], else `default`)"""
    return np.array(v, float) if inp.get('args', default) == 'array' else json.loads(json.dumps(v))


def run_oracle(name, inp):
    f, args = PREP[name](inp)
    snaps = [snapshot(x) for x in args]
    out = []
    for call in range(int(inp.get('calls', 1))):
        sfx = '' if call == 0 else '@call%d' % (call + 1)
        raw = f(*args)
        out += [(cl + sfx, ok, e, o) for cl, ok, e, o in CHECK[name](inp, raw)]
        changed = [i for i, (x, y) in enumerate(zip(args, snaps)) if not same_bits(x, y)]
        out.append(('arguments_unchanged' + sfx, not changed, 'arguments as passed: %s' % [describe(snaps[i]) for i in changed],
                    {'argument %d' % i: describe(args[i]) for i in changed}))
    return out


def prep_two_points(inp):
    lr, nr, nt, _ = api()
    which = inp['api']
    if which == 'torch':
        return lr.create_ray_from_two_points, [torch.tensor(inp['p0'], dtype=torch.float32), torch.tensor(inp['p1'], dtype=torch.float32)]
    if which == 'numpy':
        if max(len(inp['p0']), len(inp['p1'])) == 1:
            return nr.create_ray_from_two_points, [as_arg(inp['p0'][0], inp), as_arg(inp['p1'][0], inp)]
        return nr.create_ray_from_two_points, [as_arg(inp['p0'], inp, 'array'), as_arg(inp['p1'], inp, 'array')]
    # batch_of_rays: equal counts, or ONE entry / ONE exit point shared by all rays (given as [3] or [1 x 3])
    p0, p1 = np.array(inp['p0'], float), np.array(inp['p1'], float)
    return nt.batch_of_rays, [p0[0].copy() if len(p0) == 1 and inp.get('flat') else p0, p1[0].copy() if len(p1) == 1 and inp.get('flat') else p1]


def check_two_points(inp, raw):
    """rays from point pairs: unit cosines, origin = start, end reached after the distance; NaN flag iff zero length"""
    p0, p1, which = np.array(inp['p0'], float), np.array(inp['p1'], float), inp['api']
    m = max(len(p0), len(p1))
    ray = to_np(raw)
    tol = TOL32 if which == 'torch' else TOL64
    if which == 'torch':
        p0, p1 = p0.astype(np.float32).astype(float), p1.astype(np.float32).astype(float)
    if len(p0) == 1: p0 = np.repeat(p0, m, axis=0)
    if len(p1) == 1: p1 = np.repeat(p1, m, axis=0)
    out = [('ray_count', ray.reshape(-1, 2, 3).shape[0] == m, m, list(ray.shape))]
    if not out[0][1]:
        return out
    ray = ray.reshape(m, 2, 3)
    out.append(('origin_is_start', bool(np.array_equal(ray[:, 0], p0)), 'start points', ray[:, 0].tolist()))
    for i in range(m):
        dist = float(np.linalg.norm(p1[i] - p0[i])); d = ray[i, 1]
        if dist == 0:
            out.append(('zero_length_flagged_nan', bool(np.all(np.isnan(d))), 'NaN cosines', [str(x) for x in d])); continue
        sc = scale_of(p0[i], p1[i])
        if dist < 1e-3 * sc:
            continue                                   # ill-conditioned difference: only the flag is examined
        okf = bool(np.all(np.isfinite(d)))
        out.append(('cosines_finite', okf, 'finite', [str(x) for x in d]))
        if okf:
            out.append(('cosines_unit', abs(float(np.linalg.norm(d)) - 1) <= 10 * tol, '|d| = 1', float(np.linalg.norm(d))))
            end = ray[i, 0] + dist * d
            out.append(('reaches_end_after_distance', float(np.max(np.abs(end - p1[i]))) <= 100 * tol * sc, p1[i].tolist(), end.tolist()))
    return out


def prep_all_pairs(inp):
    lr, _, _, _ = api()
    return lr.create_ray_from_all_pairs, [torch.tensor(inp['starts'], dtype=torch.float32), torch.tensor(inp['ends'], dtype=torch.float32)]


def check_all_pairs(inp, raw):
    s, e = np.array(inp['starts'], np.float32), np.array(inp['ends'], np.float32)
    ray = to_np(raw)
    m, n = len(s), len(e)
    out = [('one_ray_per_pair', list(ray.shape) == [m * n, 2, 3], [m * n, 2, 3], list(ray.shape))]
    if not out[0][1]:
        return out
    s, e = s.astype(float), e.astype(float)
    ok_o, ok_u, ok_r, ok_n, worst = True, True, True, True, None
    for i in range(m):
        for j in range(n):
            r = ray[i * n + j]; dist = float(np.linalg.norm(e[j] - s[i])); sc = scale_of(s[i], e[j])
            if not np.array_equal(r[0], s[i]): ok_o = False; worst = worst or [i, j, r[0].tolist()]
            if dist == 0:
                ok_n = ok_n and bool(np.all(np.isnan(r[1]))); continue
            if dist < 1e-3 * sc: continue
            if not np.all(np.isfinite(r[1])) or abs(np.linalg.norm(r[1]) - 1) > 10 * TOL32: ok_u = False; worst = worst or [i, j, r[1].tolist()]
            elif np.max(np.abs(r[0] + dist * r[1] - e[j])) > 100 * TOL32 * sc: ok_r = False; worst = worst or [i, j, (r[0] + dist * r[1]).tolist(), e[j].tolist()]
    out.append(('row_major_origin', ok_o, 'row i*n+j starts at start i', worst))
    out.append(('cosines_unit', ok_u, '|d| = 1', worst))
    out.append(('row_major_reaches_end', ok_r, 'row i*n+j reaches end j after the distance', worst))
    out.append(('zero_length_flagged_nan', ok_n, 'NaN cosines', None))
    return out


def lum_clauses(ray, limit, tilt):
    d = ray[:, 1]
    axis = rotm(tilt) @ np.array([0., 0., 1.])
    out = []
    fin = bool(np.all(np.isfinite(ray)))
    out.append(('rays_finite', fin, 'finite', None if fin else 'non-finite entries'))
    if fin and len(d):
        nrm = np.linalg.norm(d, axis=1)
        out.append(('cosines_unit', float(np.max(np.abs(nrm - 1))) <= 10 * TOL32, '|d| = 1', [float(nrm.min()), float(nrm.max())]))
        cosdev = d @ axis / nrm
        worst = float(np.min(cosdev))
        out.append(('deviation_within_limit', worst >= math.cos(math.radians(limit)) - COS_TOL32,
                    'angle to the tilted axis (tilt %s deg) <= %r deg' % (list(tilt), limit), 'max deviation %.6f deg' % math.degrees(math.acos(max(-1., min(1., worst))))))
    return out


def prep_point_lum(inp):
    lr, _, _, _ = api()
    torch.manual_seed(inp['seed'])
    return lr.create_ray_from_point_w_luminous_angle, [torch.tensor(inp['origin'], dtype=torch.float32), inp['num'], torch.tensor(inp['tilt'], dtype=torch.float32), float(inp['limit'])]


def check_point_lum(inp, raw):
    org = np.array(inp['origin'], np.float32)
    ray = to_np(raw)
    out = [('ray_count', list(ray.shape) == [inp['num'], 2, 3], [inp['num'], 2, 3], list(ray.shape))]
    if not out[0][1]:
        return out
    out.append(('origin_as_stated', bool(np.all(ray[:, 0] == org.astype(float))), org.tolist(), ray[:3, 0].tolist()))
    return out + lum_clauses(ray, inp['limit'], np.array(inp['tilt'], np.float32).astype(float))


def prep_grid_lum(inp):
    lr, _, _, _ = api()
    torch.manual_seed(inp['seed'])
    return lr.create_ray_from_grid_w_luminous_angle, [torch.tensor(inp['centre'], dtype=torch.float32), list(inp['size']), list(inp['no']),
                                                     torch.tensor(inp['tilt'], dtype=torch.float32), inp['per'], float(inp['limit'])]


def check_grid_lum(inp, raw):
    n0, n1 = inp['no']; per = inp['per']; S = n0 * n1
    cen = np.array(inp['centre'], np.float32).astype(float); tilt = np.array(inp['tilt'], np.float32).astype(float)
    ray = to_np(raw)
    out = [('ray_count', list(ray.shape) == [per * S, 2, 3], [per * S, 2, 3], list(ray.shape))]
    if not out[0][1]:
        return out
    sc = scale_of(cen, inp['size'])
    lights = np.array([[x, y, 0.] for x in grid_axis(inp['size'][0], n0) for y in grid_axis(inp['size'][1], n1)]) @ rotm(tilt).T + cen
    # every ray starts at one of the lights, every light emits exactly `per` rays (which ray belongs to which light is not prescribed)
    dmat = np.max(np.abs(ray[:, None, 0, :] - lights[None, :, :]), axis=2)
    err = float(np.max(np.min(dmat, axis=1)))
    out.append(('origins_are_the_lights', err <= 100 * TOL32 * sc, 'every origin is a grid light', err))
    sep = min([float(np.max(np.abs(lights[a] - lights[b]))) for a in range(S) for b in range(a)] + [float('inf')])
    if err <= 100 * TOL32 * sc and sep > 1000 * TOL32 * sc:
        counts = np.bincount(np.argmin(dmat, axis=1), minlength=S).tolist()
        out.append(('rays_per_light', counts == [per] * S, [per] * S, counts))
    q = rel(ray[:, 0], cen, tilt)
    inside = float(np.max(np.abs(q[:, 0]))) <= inp['size'][0] / 2 + 100 * TOL32 * sc and float(np.max(np.abs(q[:, 1]))) <= inp['size'][1] / 2 + 100 * TOL32 * sc \
        and float(np.max(np.abs(q[:, 2]))) <= 100 * TOL32 * sc
    out.append(('origins_in_tilted_rectangle', inside, 'inside size/2 and in the plane', np.max(np.abs(q), axis=0).tolist()))
    return out + lum_clauses(ray, inp['limit'], tilt)


def shape_in(q, half, tol, plane=True):
    return [float(np.max(np.abs(q[:, k]))) <= half[k] + tol for k in range(3)]


def prep_grid(inp):
    _, _, nt, lt = api()
    if inp['api'] == 'numpy':
        return (lambda no, size, c, a: nt.grid_sample(no=no, size=size, center=c, angles=a)), [list(inp['no']), list(inp['size']), as_arg(inp['centre'], inp), as_arg(inp['angles'], inp)]
    return (lambda no, size, c, a: lt.grid_sample(no=no, size=size, center=c, angles=a)[0]), [list(inp['no']), list(inp['size']), list(inp['centre']), list(inp['angles'])]


def check_grid(inp, raw):
    n0, n1 = inp['no']; sx, sy = inp['size']; which = inp['api']
    pts = to_np(raw)
    if which == 'numpy':
        tol = TOL64; cen, ang = np.array(inp['centre'], float), np.array(inp['angles'], float)
    else:
        tol = TOL32; cen, ang = np.array(inp['centre'], np.float32).astype(float), np.array(inp['angles'], np.float32).astype(float)
    out = [('requested_count', list(pts.shape) == [n0 * n1, 3], [n0 * n1, 3], list(pts.shape))]
    if not out[0][1]:
        return out
    sc = scale_of(cen, [sx, sy]); t = 100 * tol * sc
    fin = bool(np.all(np.isfinite(pts)))
    out.append(('points_finite', fin, 'finite', None if fin else 'non-finite entries'))
    if not fin:
        return out
    q = rel(pts, cen, ang)
    ok = shape_in(q, [sx / 2, sy / 2, 0], t)
    out.append(('in_tilted_rectangle', all(ok[:2]), '|u| <= %r, |v| <= %r' % (sx / 2, sy / 2), np.max(np.abs(q), axis=0).tolist()))
    out.append(('in_tilted_plane', ok[2], 'w = 0', float(np.max(np.abs(q[:, 2])))))
    # an axis with >= 2 points spans exactly the requested size about the centre (a single row / column cannot span a size:
    # for it only membership above is required, wherever the implementation puts it)
    ext, want = [], []
    for ax, (nn, ss) in enumerate(((n0, sx), (n1, sy))):
        if nn >= 2:
            ext += [float(q[:, ax].min()), float(q[:, ax].max())]; want += [-ss / 2, ss / 2]
    if ext:
        out.append(('spans_requested_size_about_centre', max(abs(a - b) for a, b in zip(ext, want)) <= t, want, ext))
    return out


def prep_box(inp):
    _, _, nt, _ = api()
    return (lambda no, size, c, a: nt.box_volume_sample(no=no, size=size, center=c, angles=a)), [list(inp['no']), list(inp['size']), as_arg(inp['centre'], inp), as_arg(inp['angles'], inp)]


def check_box(inp, raw):
    n = inp['no']; s = inp['size']
    pts = to_np(raw)
    cnt = n[0] * n[1] * n[2]
    out = [('requested_count', list(pts.shape) == [cnt, 3], [cnt, 3], list(pts.shape))]
    if not out[0][1]:
        return out
    sc = scale_of(inp['centre'], s); t = 100 * TOL64 * sc
    q = rel(pts, inp['centre'], inp['angles'])
    ok = shape_in(q, [s[0] / 2, s[1] / 2, s[2] / 2], t)
    out.append(('in_tilted_box', all(ok), 'within size/2 on every tilted axis', np.max(np.abs(q), axis=0).tolist()))
    ext = [float(q[:, k].min()) for k in range(3)] + [float(q[:, k].max()) for k in range(3)]
    want = [-(s[k] / 2 - s[k] / n[k] / 2) for k in range(3)] + [s[k] / 2 - s[k] / n[k] / 2 for k in range(3)]
    out.append(('cells_centred_about_centre', max(abs(a - b) for a, b in zip(ext, want)) <= t, want, ext))
    return out


def prep_circle(inp):
    _, _, nt, _ = api()
    if 'seed' in inp:
        np.random.seed(inp['seed'])
    fn = getattr(nt, inp['fn'])
    return (lambda no, rad, c, a: fn(no=no, radius=rad, center=c, angles=a)), [list(inp['no']), inp['radius'], as_arg(inp['centre'], inp), as_arg(inp['angles'], inp)]


def check_circle(inp, raw):
    n = inp['no']; rad = inp['radius']; fn = inp['fn']
    pts = to_np(raw)
    out = []
    rings = [int(n[1] * i / n[0]) for i in range(n[0])]            # circular_uniform_sample: ring i carries floor(no1 * i / no0) points (ring radii: B2 only)
    want = {'circular_sample': n[0] * n[1], 'circular_uniform_random_sample': n[0] * n[1], 'circular_uniform_sample': sum(rings)}[fn]
    out.append(('requested_count', list(pts.shape) == [want, 3], [want, 3], list(pts.shape)))
    if not out[0][1]:
        return out
    if pts.size == 0:
        return out
    sc = scale_of(inp['centre'], [rad]); t = 100 * TOL64 * sc
    fin = bool(np.all(np.isfinite(pts)))
    out.append(('points_finite', fin, 'finite', None if fin else 'non-finite entries'))
    if not fin:
        return out
    q = rel(pts, inp['centre'], inp['angles'])
    r = np.linalg.norm(q[:, :2], axis=1)
    out.append(('in_tilted_plane', float(np.max(np.abs(q[:, 2]))) <= t, 'w = 0', float(np.max(np.abs(q[:, 2])))))
    out.append(('inside_circle', float(r.max()) <= rad + t, 'distance to the centre <= %r' % rad, float(r.max())))
    if fn == 'circular_sample':
        out.append(('outer_ring_has_requested_radius', abs(float(r.max()) - rad) <= t, rad, float(r.max())))
    return out


def prep_sphere(inp):
    _, _, nt, _ = api()
    fn = getattr(nt, inp['fn'])
    return (lambda no, rad, c: fn(no=no, radius=rad, center=c)), [list(inp['no']), inp['radius'], as_arg(inp['centre'], inp)]


def check_sphere(inp, raw):
    n = inp['no']; rad = inp['radius']
    pts = to_np(raw)
    out = [('requested_count', list(pts.shape) == [n[0] * n[1], 3], [n[0] * n[1], 3], list(pts.shape))]
    if not out[0][1]:
        return out
    sc = scale_of(inp['centre'], [rad]); t = 100 * TOL64 * sc
    dist = np.linalg.norm(pts - np.array(inp['centre'], float), axis=1)
    out.append(('on_sphere_about_centre', float(np.max(np.abs(dist - rad))) <= t, 'distance to the centre = %r' % rad, [float(dist.min()), float(dist.max())]))
    return out


PREP = {'two_points': prep_two_points, 'all_pairs': prep_all_pairs, 'point_lum': prep_point_lum, 'grid_lum': prep_grid_lum,
        'grid': prep_grid, 'box': prep_box, 'circle': prep_circle, 'sphere': prep_sphere}
CHECK = {'two_points': check_two_points, 'all_pairs': check_all_pairs, 'point_lum': check_point_lum, 'grid_lum': check_grid_lum,
         'grid': check_grid, 'box': check_box, 'circle': check_circle, 'sphere': check_sphere}
ORACLES = {name: (lambda inp, name=name: run_oracle(name, inp)) for name in PREP}
FUNCTION = {'two_points': lambda i: {'torch': 'odak.learn.raytracing.create_ray_from_two_points', 'numpy': 'odak.raytracing.create_ray_from_two_points',
                                     'batch_of_rays': 'odak.tools.batch_of_rays'}[i['api']],
            'all_pairs': lambda i: 'odak.learn.raytracing.create_ray_from_all_pairs',
            'point_lum': lambda i: 'odak.learn.raytracing.create_ray_from_point_w_luminous_angle',
            'grid_lum': lambda i: 'odak.learn.raytracing.create_ray_from_grid_w_luminous_angle',
            'grid': lambda i: 'odak.tools.grid_sample' if i['api'] == 'numpy' else 'odak.learn.tools.grid_sample',
            'box': lambda i: 'odak.tools.box_volume_sample', 'circle': lambda i: 'odak.tools.' + i['fn'], 'sphere': lambda i: 'odak.tools.' + i['fn']}


def apply_oracle(ctx, name, inp):
    try:
        res = ORACLES[name](inp)
    except Exception as e:
        res = [('no_exception[%s]' % type(e).__name__, False, 'a result', repr(e))]
    bad = 0
    for clause, ok, exp, obs in res:
        if not ok:
            bad += 1
            ctx.violation(FUNCTION[name](inp), clause, dict(inp, oracle=name), exp, obs)
    return bad, res


# ---------------------------------------------------------------- generators
def r3(rng, lo, hi):
    return [rng.uniform(lo, hi) for _ in range(3)]


def gen_centre(rng, k):
    """centres with distinct x, y, z; every fourth from a fixed family with very different magnitudes"""
    fam = [[1., 20., 300.], [-7., 3., 0.5], [0., 0., 0.], [100., -0.25, 12.], [-3., -30., 300.], [0.001, 5., -50.]]
    if k % 4 == 0:
        return list(fam[(k // 4) % len(fam)])
    while True:
        c = r3(rng, -50, 50)
        if min(abs(c[0] - c[1]), abs(c[1] - c[2]), abs(c[0] - c[2])) > 0.5:
            return c


def gen_tilt(rng, k):
    fam = [[0., 0., 0.], [30., -30., 0.], [90., 0., 0.], [45., 45., -90.], [0., 90., 0.], [0., 0., 90.], [0., 45., 0.], [180., -90., 270.], [0., 0., 1e-3], [30., 0., 0.], [10., 20., 30.], [-120., 75., 15.]]
    if k % 3 == 0:
        return list(fam[(k // 3) % len(fam)])
    return r3(rng, -180, 180)


def gen_limit(rng, k):
    fam = [0., 90., 30., 1e-3, 45., 60., 89.9, 1., 10., 75.]
    return fam[(k // 2) % len(fam)] if k % 2 == 0 else rng.uniform(0, 90)


def gen_size(rng):
    return 10 ** rng.uniform(-2, 2)


def gen_pairs(rng, m, k):
    s = 10 ** rng.uniform(-3, 3) if k % 3 == 0 else 1.0
    p0 = [[s * rng.uniform(-5, 5) for _ in range(3)] for _ in range(m)]
    p1 = []
    for i in range(m):
        c = rng.random()
        if c < 0.15:                                          # axis aligned
            q = list(p0[i]); q[rng.randrange(3)] += s * rng.choice([-1, 1]) * rng.uniform(0.5, 4)
        elif c < 0.25:                                        # coincident (boundary: NaN flag)
            q = list(p0[i])
        elif c < 0.35:                                        # close but resolvable
            q = [p0[i][j] + s * rng.uniform(-1, 1) * 1e-2 for j in range(3)]
        else:
            q = [s * rng.uniform(-5, 5) for _ in range(3)]
        p1.append(q)
    return p0, p1


def gen_inputs(ctx, n):
    """list of (oracle name, input, category)"""
    rng = ctx.rng
    out = []
    for k in range(n):
        m = rng.choice([1, 1, 2, 3, 5, 9])
        p0, p1 = gen_pairs(rng, m, k)
        for which in ('torch', 'numpy', 'batch_of_rays'):
            out.append(('two_points', {'api': which, 'p0': p0, 'p1': p1}, 'two_points/%s/m%d' % (which, min(m, 2))))
        # batch_of_rays: the documented broadcast shapes (one entry / one exit point for n rays), as [3] or [1 x 3]
        q0, q1 = gen_pairs(rng, rng.choice([2, 3, 6]), k)
        out.append(('two_points', {'api': 'batch_of_rays', 'p0': q0[:1], 'p1': q1, 'flat': bool(k % 2)}, 'two_points/batch_of_rays/one_entry'))
        out.append(('two_points', {'api': 'batch_of_rays', 'p0': q0, 'p1': q1[:1], 'flat': bool(k % 2)}, 'two_points/batch_of_rays/one_exit'))
        mm, nn = rng.randint(1, 5), rng.randint(1, 5)
        s, _ = gen_pairs(rng, mm, k); e, _ = gen_pairs(rng, nn, k + 1)
        if k % 5 == 0: e[0] = list(s[0])
        out.append(('all_pairs', {'starts': s, 'ends': e}, 'all_pairs/%dx%d' % (min(mm, 2), min(nn, 2))))
        lim = gen_limit(rng, k)
        out.append(('point_lum', {'origin': gen_centre(rng, k), 'num': rng.choice([1, 7, 200, 2000]), 'tilt': gen_tilt(rng, k), 'limit': lim,
                                  'seed': rng.randrange(2 ** 31)}, 'point_lum/limit%s' % ('0' if lim == 0 else '90' if lim == 90 else 'mid')))
        no = [rng.randint(1, 5), rng.randint(1, 5)]
        out.append(('grid_lum', {'centre': gen_centre(rng, k), 'size': [gen_size(rng), gen_size(rng)], 'no': no, 'tilt': gen_tilt(rng, k),
                                 'per': rng.choice([1, 3, 50]), 'limit': gen_limit(rng, k), 'seed': rng.randrange(2 ** 31)},
                    'grid_lum/%s' % ('single' if min(no) == 1 else 'lattice')))
        no = [rng.randint(2, 8), rng.randint(2, 8)]
        if k % 6 == 3: no[rng.randrange(2)] = 1                # boundary: a single row / column
        g = {'no': no, 'size': [gen_size(rng), gen_size(rng)], 'centre': gen_centre(rng, k), 'angles': gen_tilt(rng, k)}
        for which in ('numpy', 'torch'):
            out.append(('grid', dict(g, api=which), 'grid/%s/%s' % (which, 'single' if min(no) == 1 else 'untilted' if not any(g['angles']) else 'tilted')))
        out.append(('box', {'no': [rng.randint(1, 5), rng.randint(1, 5), rng.randint(1, 4)], 'size': [gen_size(rng) for _ in range(3)],
                            'centre': gen_centre(rng, k), 'angles': gen_tilt(rng, k)}, 'box/%s' % ('untilted' if k % 30 == 0 else 'tilted')))
        cn = [rng.randint(1, 7), rng.randint(1, 7)]
        for fn in ('circular_sample', 'circular_uniform_sample', 'circular_uniform_random_sample'):
            c = {'fn': fn, 'no': cn if fn != 'circular_uniform_sample' else [rng.randint(2, 6), rng.randint(4, 12)], 'radius': gen_size(rng),
                 'centre': gen_centre(rng, k), 'angles': gen_tilt(rng, k)}
            if fn == 'circular_uniform_random_sample': c['seed'] = rng.randrange(2 ** 31)
            out.append(('circle', c, 'circle/' + fn))
        sn = [rng.randint(1, 7), rng.randint(1, 7)]
        out.append(('sphere', {'fn': 'sphere_sample', 'no': sn, 'radius': gen_size(rng), 'centre': gen_centre(rng, k)}, 'sphere/sphere_sample'))
        sq = rng.randint(1, 7)
        un = [sq, sq] if k % 7 else [sq, sq + 1]              # boundary: non-square request
        out.append(('sphere', {'fn': 'sphere_sample_uniform', 'no': un, 'radius': gen_size(rng), 'centre': gen_centre(rng, k)},
                    'sphere/uniform/%s' % ('square' if un[0] == un[1] else 'non-square')))
    # reuse family: every case again with the SAME argument objects passed two and three times (float32 tensors for the
    # PyTorch API; float64 arrays and plain lists for the NumPy API); every clause on every call + arguments_unchanged
    reuse = []
    for idx, (name, inp, cat) in enumerate(out):
        calls = 2 + idx % 2
        variant = dict(inp, calls=calls)
        numpy_api = FUNCTION[name](inp).startswith('odak.tools') or FUNCTION[name](inp) == 'odak.raytracing.create_ray_from_two_points'
        if numpy_api and inp.get('api') != 'batch_of_rays' and (idx // 2) % 2:
            many = name == 'two_points' and max(len(inp['p0']), len(inp['p1'])) > 1
            variant['args'] = 'list' if many else 'array'          # the other container than the base case uses
        reuse.append((name, variant, 'reuse%d/%s%s' % (calls, cat, '/' + variant['args'] if 'args' in variant else '')))
    return out + reuse


# ---------------------------------------------------------------- B2: model evaluated inside Coq
def parse_tuples(s, k):
    nums = parse_zlist(s)
    return [tuple(nums[i:i + k]) for i in range(0, len(nums), k)]


def q3(p):
    return '(%s, %s, %s)' % (qlit(p[0]), qlit(p[1]), qlit(p[2]))


def correspondence(ctx):
    lr, nr, nt, lt = api()
    rng = ctx.rng
    cnt = 90 if ctx.thorough else 9
    terms, meta = [], []
    for t in range(cnt):
        n0, n1, n2 = rng.randint(1, 7), rng.randint(1, 7), rng.randint(1, 4)
        terms.append('idx2 %d %d' % (n0, n1)); meta.append(('idx2', n0, n1))
        terms.append('idx3 %d %d %d' % (n0, n1, n2)); meta.append(('idx3', n0, n1, n2))
        per = rng.randint(1, 4)
        terms.append('lum_origin_index %d %d %d' % (n0, n1, per)); meta.append(('lum', n0, n1, per))
        c0, c1 = rng.randint(1, 7), rng.randint(1, 14)
        terms.append('cu_counts %d %d' % (c0, c1)); meta.append(('cu', c0, c1))
        # rational axis coordinates, untilted, exact inputs (floats are dyadic rationals)
        g0, g1 = max(n0, 2), max(n1, 2)
        sx, sy, sz = [float(np.float32(gen_size(rng))) for _ in range(3)]
        c = [float(np.float32(x)) for x in gen_centre(rng, t + 1)]
        for which in ('numpy', 'torch'):
            if which == 'numpy':
                pts = to_np(nt.grid_sample(no=[g0, g1], size=[sx, sy], center=list(c), angles=[0., 0., 0.])); tol = 100 * TOL64 * scale_of(c, [sx, sy])
            else:
                pts = to_np(lt.grid_sample(no=[g0, g1], size=[sx, sy], center=list(c), angles=[0., 0., 0.])[0]); tol = 100 * TOL32 * scale_of(c, [sx, sy])
            terms.append('close_list %s (grid_flatQ %s %s %d %d %s) %s' % (qlit(tol), qlit(sx), qlit(sy), g0, g1, q3(c), listlit([q3(p) for p in pts.tolist()])))
            meta.append(('gridQ', which, g0, g1))
        pts = to_np(nt.box_volume_sample(no=[n0, n1, n2], size=[sx, sy, sz], center=list(c), angles=[0., 0., 0.]))
        terms.append('close_list %s (box_flatQ %s %s %s %d %d %d %s) %s' % (qlit(100 * TOL64 * scale_of(c, [sx, sy, sz])), qlit(sx), qlit(sy), qlit(sz), n0, n1, n2, q3(c),
                                                                         listlit([q3(p) for p in pts.tolist()])))
        meta.append(('boxQ', n0, n1, n2))
    vals = ctx.coq_eval(PRE, terms, label='lattices', chunk=40)
    bad = 0
    for v, m in zip(vals, meta):
        if v is None:
            bad += 1; continue
        ctx.traces += 1
        ok = True
        if m[0] in ('gridQ', 'boxQ'):
            ok = v.strip() == 'true'
            ctx.case('B2/%s' % m[0], m)
        elif m[0] == 'idx2':
            _, n0, n1 = m
            order = parse_tuples(v, 2)
            ok = len(order) == n0 * n1
            cen, ang, rad = gen_centre(rng, 1), gen_tilt(rng, 1), gen_size(rng)
            R = rotm(ang)
            if ok:
                # the implementation's rows follow the model's order (closed forms evaluated in float64 on Coq's index list)
                if n0 >= 2 and n1 >= 2:
                    sx, sy = gen_size(rng), gen_size(rng)
                    pts = to_np(nt.grid_sample(no=[n0, n1], size=[sx, sy], center=list(cen), angles=list(ang)))
                    exp = np.array([[grid_axis(sx, n0)[i], grid_axis(sy, n1)[j], 0.] for i, j in order]) @ R.T + np.array(cen)
                    ok = ok and pts.shape == exp.shape and float(np.max(np.abs(pts - exp))) <= 100 * TOL64 * scale_of(cen, [sx, sy])
                pts = to_np(nt.circular_sample(no=[n0, n1], radius=rad, center=list(cen), angles=list(ang)))
                exp = np.array([[(j + 1) / n1 * rad * math.cos((i + 1) / n0 * 2 * math.pi), (j + 1) / n1 * rad * math.sin((i + 1) / n0 * 2 * math.pi), 0.] for i, j in order]) @ R.T + np.array(cen)
                ok = ok and pts.shape == exp.shape and float(np.max(np.abs(pts - exp))) <= 100 * TOL64 * scale_of(cen, [rad])
                pts = to_np(nt.sphere_sample(no=[n0, n1], radius=rad, center=list(cen)))
                exp = np.array([[rad * math.sin(math.pi / n0 * i) * math.cos(2 * math.pi / n1 * j), rad * math.sin(math.pi / n0 * i) * math.sin(2 * math.pi / n1 * j),
                                 rad * math.cos(math.pi / n0 * i)] for i, j in order]) + np.array(cen)
                ok = ok and pts.shape == exp.shape and float(np.max(np.abs(pts - exp))) <= 100 * TOL64 * scale_of(cen, [rad])
                # all pairs: row r is (start i, end j)
                s = np.array([r3(rng, -5, 5) for _ in range(n0)], np.float32); e = np.array([r3(rng, -5, 5) for _ in range(n1)], np.float32)
                ray = to_np(lr.create_ray_from_all_pairs(torch.tensor(s), torch.tensor(e)))
                ok = ok and len(ray) == len(order)
                for r, (i, j) in enumerate(order):
                    dd = (e[j].astype(float) - s[i].astype(float)); dd /= np.linalg.norm(dd)
                    ok = ok and bool(np.array_equal(ray[r, 0], s[i].astype(float))) and float(np.max(np.abs(ray[r, 1] - dd))) <= 10 * TOL32
            ctx.case('B2/idx2', m)
        elif m[0] == 'cu':
            _, c0, c1 = m
            rings = parse_zlist(v)
            cen, ang, rad = gen_centre(rng, 5), gen_tilt(rng, 4), gen_size(rng)
            pts = to_np(nt.circular_uniform_sample(no=[c0, c1], radius=rad, center=list(cen), angles=list(ang)))
            ok = len(rings) == c0 and len(pts) == sum(rings)
            if ok and len(pts):
                # the implementation's rows are ring after ring, ring i at radius i/no0 * radius with the model's number of points
                rr = np.linalg.norm(rel(pts.reshape(-1, 3), cen, ang)[:, :2], axis=1)
                exp = np.array([i / c0 * rad for i in range(c0) for _ in range(rings[i])])
                ok = float(np.max(np.abs(rr - exp))) <= 100 * TOL64 * scale_of(cen, [rad])
            ctx.case('B2/cu_counts', m)
        elif m[0] == 'idx3':
            _, n0, n1, n2 = m
            order = parse_tuples(v, 3)
            cen, ang = gen_centre(rng, 2), gen_tilt(rng, 2); s = [gen_size(rng) for _ in range(3)]
            pts = to_np(nt.box_volume_sample(no=[n0, n1, n2], size=list(s), center=list(cen), angles=list(ang)))
            ax = [[i * (s[k] / n) + s[k] / n / 2 - s[k] / 2 for i in range(n)] for k, n in enumerate((n0, n1, n2))]
            exp = np.array([[ax[0][i], ax[1][j], ax[2][k]] for i, j, k in order]).reshape(-1, 3) @ rotm(ang).T + np.array(cen)
            ok = len(order) == n0 * n1 * n2 and pts.shape == exp.shape and float(np.max(np.abs(pts - exp))) <= 100 * TOL64 * scale_of(cen, s)
            ctx.case('B2/idx3', m)
        else:
            _, n0, n1, per = m
            light_of_ray = parse_zlist(v)
            cen, ang = gen_centre(rng, 3), gen_tilt(rng, 3); sx, sy = gen_size(rng), gen_size(rng)
            torch.manual_seed(rng.randrange(2 ** 31))
            ray = to_np(lr.create_ray_from_grid_w_luminous_angle(torch.tensor(cen, dtype=torch.float32), [sx, sy], [n0, n1], torch.tensor(ang, dtype=torch.float32), per, 20.))
            lights = to_np(lt.grid_sample(no=[n0, n1], size=[sx, sy], center=list(cen), angles=list(ang))[0])
            ok = len(light_of_ray) == per * n0 * n1 == len(ray)
            if ok:
                for k, s_ in enumerate(light_of_ray):
                    ok = ok and float(np.max(np.abs(ray[k, 0] - lights[s_]))) <= 100 * TOL32 * scale_of(cen, [sx, sy])
            ctx.case('B2/lum_origin_index', m)
        if not ok:
            bad += 1
            if bad <= 5: ctx.log('model/implementation disagree:', m, (v or '')[:200])
    ctx.obligation('correspondence:lattice-order-and-axis-coordinates(model evaluated in Coq = implementation on %d cases)' % len(meta), bad == 0 and len(meta) > 0,
                   '%d disagreements' % bad)


# ---------------------------------------------------------------- B1: translator self-check
class FixedRand:
    """torch.rand replaced by prescribed draws while the real function runs"""
    def __init__(s, draws): s.draws = list(draws)
    def __enter__(s):
        s.old = torch.rand
        torch.rand = lambda *a, **k: torch.tensor(s.draws.pop(0), dtype=torch.float32)
        return s
    def __exit__(s, *a):
        torch.rand = s.old
        return False


def self_check(ctx, g):
    lr, nr, nt, lt = api()
    rng = ctx.rng
    bad = n = 0

    def cmp(name, env, val, rtol, atol):
        nonlocal bad, n
        n += 1
        got = g.evalf(name, env)
        if not emit.close(got, float(val), rtol, atol):
            bad += 1
            if bad <= 8: ctx.log('self-check mismatch', name, got, float(val))

    f32 = lambda x: float(np.float32(x))
    for rep in range(6):
        a = np.array([[f32(rng.uniform(-5, 5)) for _ in range(3)] for _ in range(2)]); b = np.array([[f32(rng.uniform(-5, 5)) for _ in range(3)] for _ in range(3)])
        env = {}
        for i in range(2):
            for k in range(3): env['a_%d_%d' % (i, k)] = a[i, k]
        for i in range(3):
            for k in range(3): env['b_%d_%d' % (i, k)] = b[i, k]
        for k in range(3): env['a_%d' % k] = a[0, k]; env['b_%d' % k] = b[0, k]
        rt = lr.create_ray_from_two_points(torch.tensor(a, dtype=torch.float32), torch.tensor(b[:2], dtype=torch.float32)).numpy()
        rn = nr.create_ray_from_two_points(a, b[:2]); r1 = nr.create_ray_from_two_points(a[0], b[0]); rb = nt.batch_of_rays(a.copy(), b[:2].copy())
        ap = lr.create_ray_from_all_pairs(torch.tensor(a, dtype=torch.float32), torch.tensor(b, dtype=torch.float32)).numpy()
        for k in range(3):
            cmp('n_two_o_%d' % k, env, r1[0, k], 1e-9, 1e-12); cmp('n_two_d_%d' % k, env, r1[1, k], 1e-9, 1e-12)
            for i in range(2):
                cmp('t_two_o_%d_%d' % (i, k), env, rt[i, 0, k], 1e-5, 1e-6); cmp('t_two_d_%d_%d' % (i, k), env, rt[i, 1, k], 1e-5, 1e-6)
                cmp('n_twob_o_%d_%d' % (i, k), env, rn[i, 0, k], 1e-9, 1e-12); cmp('n_twob_d_%d_%d' % (i, k), env, rn[i, 1, k], 1e-9, 1e-12)
                cmp('n_bat_o_%d_%d' % (i, k), env, rb[i, 0, k], 1e-9, 1e-12); cmp('n_bat_d_%d_%d' % (i, k), env, rb[i, 1, k], 1e-9, 1e-12)
            for r in range(6):
                cmp('t_ap_o_%d_%d' % (r, k), env, ap[r, 0, k], 1e-5, 1e-6); cmp('t_ap_d_%d_%d' % (r, k), env, ap[r, 1, k], 1e-5, 1e-6)
        # NaN guard: coincident points make the traced guard true and the real cosines NaN
        env2 = dict(env);
        for k in range(3): env2['b_0_%d' % k] = env2['a_0_%d' % k]; env2['b_%d' % k] = env2['a_%d' % k]
        b2 = b.copy(); b2[0] = a[0]
        rt2 = lr.create_ray_from_two_points(torch.tensor(a, dtype=torch.float32), torch.tensor(b2[:2], dtype=torch.float32)).numpy()
        r12 = nr.create_ray_from_two_points(a[0], b2[0])
        rb1 = nt.batch_of_rays(a[0].copy(), b[:2].copy()); rbn = nt.batch_of_rays(a.copy(), b[0].copy())
        for k in range(3):
            for i in range(2):
                cmp('n_bat1n_o_%d_%d' % (i, k), env, rb1[i, 0, k], 1e-9, 1e-12); cmp('n_bat1n_d_%d_%d' % (i, k), env, rb1[i, 1, k], 1e-9, 1e-12)
                cmp('n_batn1_o_%d_%d' % (i, k), env, rbn[i, 0, k], 1e-9, 1e-12); cmp('n_batn1_d_%d_%d' % (i, k), env, rbn[i, 1, k], 1e-9, 1e-12)
        for name, real in (('t_two_guard_0', rt2[0, 1]), ('n_two_guard', r12[1]), ('t_two_guard_1', rt2[1, 1])):
            n += 1
            if bool(g.evalf(name, env2)) != bool(np.all(np.isnan(real))): bad += 1; ctx.log('self-check guard mismatch', name)
        # luminous rays with prescribed draws
        org, tl, cen = [f32(x) for x in r3(rng, -9, 9)], [f32(x) for x in gen_tilt(rng, rep + 1)], [f32(x) for x in gen_centre(rng, rep + 1)]
        lim = f32(rng.uniform(1, 90)); sz = [f32(gen_size(rng)), f32(gen_size(rng))]
        u = [f32(rng.random()) for _ in range(8)]; v = [f32(rng.random()) for _ in range(8)]
        env = {'lim': lim, 'sz_0': sz[0], 'sz_1': sz[1]}
        for k in range(3): env['o_%d' % k] = org[k]; env['tl_%d' % k] = tl[k]; env['c_%d' % k] = cen[k]
        for k in range(8): env['u_%d' % k] = u[k]; env['v_%d' % k] = v[k]
        with FixedRand([u[:2], v[:2]]):
            rp = lr.create_ray_from_point_w_luminous_angle(torch.tensor(org), 2, torch.tensor(tl), lim).numpy()
        with FixedRand([u, v]):
            rg = lr.create_ray_from_grid_w_luminous_angle(torch.tensor(cen), sz, recipe.GL_NO, torch.tensor(tl), recipe.GL_RAYS, lim).numpy()
        sc = scale_of(cen, sz)
        for k in range(3):
            for r in range(2):
                cmp('t_pl_o_%d_%d' % (r, k), env, rp[r, 0, k], 1e-5, 1e-6); cmp('t_pl_d_%d_%d' % (r, k), env, rp[r, 1, k], 2e-4, 2e-5)
            for r in range(8):
                cmp('t_gl_o_%d_%d' % (r, k), env, rg[r, 0, k], 1e-4, 1e-5 * sc); cmp('t_gl_d_%d_%d' % (r, k), env, rg[r, 1, k], 2e-4, 2e-5)
        # sample generators (zero angles take the traced short-cut path)
        ang = [0., 0., 0.] if rep == 0 else gen_tilt(rng, rep + 1)
        if rep and not any(ang): ang = [10., 20., 30.]
        rad = gen_size(rng); s3 = [gen_size(rng) for _ in range(3)]
        env = {'rad': rad, 'sz_0': s3[0], 'sz_1': s3[1], 'sz_2': s3[2]}
        for k in range(3): env['c_%d' % k] = cen[k]; env['an_%d' % k] = ang[k]
        zero = bool(g.evalf('n_grid0_pc', env))
        n += 1
        if zero != (not any(ang)) or bool(g.evalf('n_box0_pc', env)) != zero or bool(g.evalf('n_circ0_pc', env)) != zero: bad += 1; ctx.log('self-check path condition mismatch', ang)
        tag = '0' if zero else ''
        sc = scale_of(cen, s3, [rad])
        pg = nt.grid_sample(recipe.GRID_NO, s3[:2], list(cen), list(ang)); pb = nt.box_volume_sample(recipe.BOX_NO, list(s3), list(cen), list(ang))
        pcirc = nt.circular_sample(recipe.CIRC_NO, rad, list(cen), list(ang)); ps = nt.sphere_sample(recipe.SPH_NO, rad, list(cen)); pu = nt.sphere_sample_uniform([2, 2], rad, list(cen))
        ptg = lt.grid_sample(recipe.GRID_NO, s3[:2], list(cen), list(ang))[0].numpy()
        pcu = nt.circular_uniform_sample(recipe.CU_NO, rad, list(cen), list(ang))
        env['u_0'], env['u_1'], env['v_0'], env['v_1'] = u[0], u[1], v[0], v[1]
        draws = [np.array(u[:2]), 2 * np.pi * np.array(v[:2])]
        old_uniform = np.random.uniform
        np.random.uniform = lambda lo, hi, size: draws.pop(0)
        try:
            pcur = nt.circular_uniform_random_sample(recipe.CUR_NO, rad, list(cen), list(ang))
        finally:
            np.random.uniform = old_uniform
        n += 1
        if pcu.shape != (4, 3) or pcur.shape != (4, 3) or bool(g.evalf('n_cu0_pc', env)) != zero or bool(g.evalf('n_cur0_pc', env)) != zero:
            bad += 1; ctx.log('self-check circular_uniform shape / path mismatch', pcu.shape, pcur.shape)
        else:
            for k in range(3):
                for r in range(4):
                    cmp('n_cu%s_%d_%d' % (tag, r, k), env, pcu[r, k], 1e-9, 1e-10 * sc); cmp('n_cur%s_%d_%d' % (tag, r, k), env, pcur[r, k], 1e-9, 1e-10 * sc)
        for k in range(3):
            for r in range(6):
                cmp('n_grid%s_%d_%d' % (tag, r, k), env, pg[r, k], 1e-9, 1e-10 * sc); cmp('n_sph_%d_%d' % (r, k), env, ps[r, k], 1e-9, 1e-10 * sc)
                cmp('t_grid_%d_%d' % (r, k), env, ptg[r, k], 1e-4, 2e-5 * sc)
            for r in range(8): cmp('n_box%s_%d_%d' % (tag, r, k), env, pb[r, k], 1e-9, 1e-10 * sc)
            for r in range(4):
                cmp('n_circ%s_%d_%d' % (tag, r, k), env, pcirc[r, k], 1e-9, 1e-10 * sc); cmp('n_sphu_%d_%d' % (r, k), env, pu[r, k], 1e-9, 1e-10 * sc)
    ctx.traces += n
    ctx.obligation('translator-self-check(traced terms = real functions on %d values)' % n, bad == 0 and n > 0, '%d mismatches' % bad)


# ---------------------------------------------------------------- entry points
def run(ctx):
    ctx.rule = ('point pairs at scales 1e-3..1e3 (random, axis aligned, close, coincident); 1..5 x 1..5 all-pairs; luminous rays for limits 0..90 deg '
                '(family 0, 1e-3, 1, 10, 30, 45, 60, 75, 89.9, 90 and uniform), tilts from a boundary family (zero, components cancelling to 0, single axis, multiples of 90) and '
                'uniform in [-180, 180]^3, RNG seeds from the run seed; lattices with counts 1..8, sizes 1e-2..1e2, centres with pairwise distinct '
                'coordinates (family incl. (1, 20, 300)); non-trivial = every clause of the oracle evaluated; distinct by (oracle, input)')
    ctx.trusted += ['tracer/shim.py + tracer/recipes/c14.py incl. its three local extensions (symbolic torch.rand, recorded NaN guard, recorded path '
                    'conditions); validated each run by the numeric self-check',
                    'torch/numpy kernels (matmul, norm, sqrt, sin, cos, acos, linspace, meshgrid, mgrid, reshape, repeat): exact real arithmetic in the model; '
                    'float rounding not modelled (oracle tolerances: float32 %g, float64 %g relative, cosine %g)' % (TOL32, TOL64, COS_TOL32),
                    'torch.rand returns values in [0, 1) (the theorems assume 0 <= U <= 1); the RNG itself is exercised through seeds only',
                    'B1 covers lattices of the traced sizes (2x3, 2x2x2, 2x2; 2x2 lights x 2 rays) for all reals; other counts by the model theorems + B2 + oracles',
                    'circular_uniform_sample / circular_uniform_random_sample: B1 at the traced sizes ([2,8]: ring 1 with 4 points; 2 radii x 2 angles with symbolic draws), '
                    'np.random.uniform(lo, hi, n) modelled as lo + (hi - lo) * draws in [0, 1]; other counts by the model theorems + B2 (ring occupancy) + oracles']
    ctx.assumptions += ['grid lattices need at least 2 points per axis to span a size (theorem hypothesis); limits 0..180 deg; sizes and radii >= 0']
    ctx.gate()
    ctx.ensure_theories(['theories/C14/Props.vo'])
    ctx.theorems('OdakV.C14.Props', PROPS)
    ctx.log('theorems checked')
    # B1
    try:
        g = recipe.trace()
        ctx.programs = len(g.defs)
        ctx.obligation('translator:trace(%d definitions, %d nodes; numpy rotate_points paths %s)' % (len(g.defs), g.total_size(), g.info.get('n_grid_paths')), True)
    except Exception as e:
        g = None
        ctx.obligation('translator:trace', False, repr(e))
    if g is not None:
        ctx.log('traced %d definitions' % len(g.defs))
        ctx.compile_tie('GenC14', g.text(), [['C14_TieA', 'C14_TieB1', 'C14_TieB2', 'C14_TieC1', 'C14_TieC2', 'C14_TieC3']], timeout=900)
        ctx.log('tie files compiled')
        try:
            self_check(ctx, g)
        except Exception as e:
            ctx.obligation('translator-self-check', False, repr(e))
        from tracer import shim
        ctx.sample({'traced_definition': 't_pl_d_0_2', 'coq': shim.coq(g.by_name['t_pl_d_0_2'][1])[:500]})
    # B2
    ctx.log('self-check done')
    try:
        correspondence(ctx)
    except Exception as e:                      # the implementation raised inside a correspondence case: the oracles below give the input
        ctx.obligation('correspondence:lattice-order-and-axis-coordinates', False, 'implementation raised %r' % (e,))
    ctx.log('correspondence done')
    # direct oracles
    for name, inp, cat in gen_inputs(ctx, 1200 if ctx.thorough else 40):
        bad, res = apply_oracle(ctx, name, inp)
        ctx.case('oracle/' + cat, (name, json.dumps(inp, sort_keys=True)), nontrivial=len(res) >= 2)
        if len(ctx.samples) < 5 and name in ('point_lum', 'grid', 'sphere'):
            ctx.sample({'oracle': name, 'input': inp, 'clauses': [[c, ok] for c, ok, _, _ in res]})


def search(ctx):
    for name, inp, cat in gen_inputs(ctx, 120):
        apply_oracle(ctx, name, inp)
        if len(ctx.viol) > 6:
            return


def replay(ctx, rec):
    if rec.get('no_failing_input_found'):
        print('replay names broken obligations only:', json.dumps(rec['broken_obligations'])[:3000]); return 1
    inp = dict(rec['input']); name = inp.pop('oracle')
    try:
        res = ORACLES[name](inp)
    except Exception as e:
        res = [('no_exception[%s]' % type(e).__name__, False, 'a result', repr(e))]
    for r in res:
        print(('FAIL ' if not r[1] else 'ok   ') + r[0], '' if r[1] else 'expected=%s observed=%s' % (r[2], r[3]))
    return 1 if [r for r in res if not r[1]] else 0
