"""C12 — iterative geometric solvers always terminate and flag what they cannot solve.

Proof: coq/theories/C12 (+ the Newton model of C11).  Unrepaired refract loop: every step under total internal
reflection is >= sqrt(b - a^2) long (never converges), a quadratic on which it provably runs for ever, a
near-critical input on which it returned a number (refuted); repaired loop: at most `cap` bodies, TIR -> NaN,
unconverged -> NaN, a returned number is an iterate that passed the exit test; batches; the secant loop of
intersect_parametric with its counter (<= iter_no_limit + 1 bodies, a returned distance comes from a tested point
on the surface, a miss or a zero-length direction is flagged); the fixed-length loop of the PyTorch
intersect_w_sphere and its flag.
Tie to /repo, every run: B1 — loop body / guard / epilogue of `refract`, the secant step, guard and counter test
of intersect_parametric, the sphere / cylinder kernels and the residual / flag of the PyTorch intersect_w_sphere
are traced from the current sources and proved equal to the model's pieces (coq/tie/C11_TieB.v, C12_TieA.v),
the shape of the functions around the pieces is checked structurally; B2 — the executable copy of the refract
model (proved equal to the model, C12_executable_model_correct) is evaluated inside Coq on watchdog cases and
predicts returned / flagged and the number of loop bodies, which the implementation must reproduce with
max_iterations = count and count - 1.
Every call that may hang runs in a worker process under a watchdog (harness/props/c12_watchdog.py).
"""
import json, math, fractions
import numpy as np
import torch
from tracer.recipes import c11 as recipe11, c12 as recipe
from tracer import emit, shim
from harness.common import qlit
from harness.props.c12_watchdog import Guard

Fr = fractions.Fraction
PROPS = ['C12_newton_tir_diverges', 'C12_unrepaired_terminates_refuted', 'C12_unrepaired_flags_refuted', 'C12_refract_terminates',
         'C12_tir_flagged', 'C12_unflagged_is_converged', 'C12_negative_error_flagged', 'C12_newton_converges',
         'C12_refract_run_is_C11_model', 'C12_batch_terminates_and_rows_sound', 'C12_executable_model_correct',
         'C12_secant_bounded', 'C12_secant_exit_on_surface', 'C12_secant_exit_is_step_from_tested_point', 'C12_secant_batch_bounded',
         'C12_secant_batch_rows_on_surface', 'C12_secant_batch_miss_flagged', 'C12_batch_guard_unrepaired_refuted', 'C12_secant_miss_flagged', 'C12_zero_direction_flagged',
         'C12_parametric_no_exception_refuted', 'C12_parametric_no_exception_partial', 'C12_sphere_fixed_steps',
         'C12_sphere_flag_sound', 'C12_sphere_miss_flagged', 'C12_sphere_behind_flagged', 'C12_sphere_behind_unrepaired_refuted', 'C12_instance']
F_REFR = 'odak.learn.raytracing.refract'
F_PAR = 'odak.raytracing.intersect_parametric'
F_TSPH = 'odak.learn.raytracing.intersect_w_sphere'
TOL32 = 2e-5
# CPU seconds a call may consume (the watchdog measures the worker's CPU time, so machine load cannot raise an alarm;
# a default-limit miss of the secant loop is 100001 bodies, about 5 CPU s; 5000 optimiser steps about 5 CPU s)
WATCHDOG = {'refract': 10.0, 'parametric': 60.0, 'torch_sphere': 120.0}


def api():
    import odak.learn.raytracing as lr
    import odak.raytracing as nr
    return lr, nr


def f32(x):
    return np.asarray(x, dtype=np.float32).astype(float)


# ---------------------------------------------------------------- worker side (runs under the watchdog)
def w_refract(inp):
    lr, _ = api()
    rays = torch.tensor(inp['rays'], dtype=torch.float32); nrms = torch.tensor(inp['normals'], dtype=torch.float32)
    kw = {}
    if inp.get('error') is not None: kw['error'] = inp['error']
    if inp.get('cap') is not None: kw['max_iterations'] = inp['cap']
    return lr.refract(rays, nrms, inp['n1'], inp['n2'], **kw).tolist()


def w_parametric(inp):
    _, nr = api()
    ray = np.array(inp['ray'], float)
    surf = np.array(inp['surface'], float)
    if inp['fn'] == 'intersect_w_sphere':
        normal, dist = nr.intersect_w_sphere(ray, surf)
    elif inp['fn'] == 'intersect_w_cylinder':
        normal, dist = nr.intersect_w_cylinder(ray, surf)
    else:
        kw = {k: inp[k] for k in ('target_error', 'iter_no_limit') if inp.get(k) is not None}
        f, nf = (nr.sphere_function, nr.get_sphere_normal) if inp['kind'] == 'sphere' else (nr.cylinder_function, nr.get_cylinder_normal)
        dist, normal = nr.intersect_parametric(ray, surf, f, nf, **kw)
    flag_d = dist is False or (isinstance(dist, (bool, np.bool_)) and not dist)
    flag_n = normal is False or (isinstance(normal, (bool, np.bool_)) and not normal)
    return {'flag_distance': bool(flag_d), 'flag_normal': bool(flag_n),
            'distance': None if flag_d else np.asarray(dist, float).reshape(-1).tolist(),
            'normal': None if flag_n else np.asarray(normal, float).reshape(-1).tolist()}


def w_parametric_counted(inp):
    """intersect_parametric on one ray and a sphere, with a surface function that counts its evaluations"""
    _, nr = api()
    cnt = [0]
    def f(point, surf):
        cnt[0] += 1
        return nr.sphere_function(point, surf)
    dist, normal = nr.intersect_parametric(np.array(inp['ray'], float), np.array(inp['surface'], float), f, nr.get_sphere_normal,
                                           target_error=inp['target_error'], iter_no_limit=inp['iter_no_limit'])
    flag = dist is False or (isinstance(dist, (bool, np.bool_)) and not dist)
    return {'flag': bool(flag), 'distance': None if flag else float(np.asarray(dist, float).reshape(-1)[0]), 'evals': cnt[0]}


def w_torch_sphere(inp):
    lr, _ = api()
    rays = torch.tensor(inp['rays'], dtype=torch.float32); sph = torch.tensor([inp['sphere']], dtype=torch.float32)
    kw = {k2: inp[k] for k, k2 in (('steps', 'number_of_steps'), ('lr', 'learning_rate'), ('thr', 'error_threshold')) if inp.get(k) is not None}
    ir, inn, dist, check = lr.intersect_w_sphere(rays, sph, **kw)
    return {'distance': dist.detach().tolist(), 'check': [bool(c) for c in check.tolist()], 'n_rays': int(ir.shape[0]), 'n_normals': int(inn.shape[0]),
            'ray_points': ir[:, 0].detach().tolist()}


# ---------------------------------------------------------------- parent side
_GUARDS = {}


class NoReturn(Exception):
    pass


def guarded(kind, fn, inp):
    g = _GUARDS.get(kind)
    if g is None:
        g = _GUARDS[kind] = Guard('harness.props.c12', timeout=WATCHDOG[kind], max_timeouts=3)
    k, val = g.call(fn, inp)
    if k == 'timeout':
        raise NoReturn('no return (watchdog: %s)' % val if val else 'not called: the watchdog expired %d times already' % g.timeouts)
    if k == 'exc':
        raise RuntimeError(val)
    return val


# ---------------------------------------------------------------- exact classification of refraction inputs
def classify_refract(d, n, n1, n2):
    """'tir' / 'transmit' / 'edge' / 'degenerate' from the float32 inputs, exactly (rationals)"""
    if not (np.all(np.isfinite(d)) and np.all(np.isfinite(n))):
        return 'degenerate'
    dq = [Fr(float(x)) for x in f32(d)]; nq = [Fr(float(x)) for x in f32(n)]
    dd = sum(x * x for x in dq); nn = sum(x * x for x in nq); dn = sum(x * y for x, y in zip(dq, nq))
    if dd == 0 or nn == 0:
        return 'degenerate'
    mu2 = Fr(n1 / n2) ** 2
    cos2 = dn * dn / (dd * nn)
    s = mu2 * (1 - cos2)                       # (mu sin t1)^2
    if cos2 < Fr(1, 10 ** 4):
        return 'edge' if s <= 1 else ('tir' if s > 1 + Fr(2, 100000) else 'edge')
    if s > 1 + Fr(2, 100000): return 'tir'
    if s < 1 - Fr(1, 1000): return 'transmit'
    return 'edge'


def oracle_refract(inp):
    """refract returns (watchdog), flags rows without a refracted ray by NaN cosines and never returns a wrong number"""
    m = len(inp['rays']); err = 0.01 if inp.get('error') is None else inp['error']
    n1, n2 = inp['n1'], inp['n2']
    out = np.array(guarded('refract', 'w_refract', inp), float)
    res = [('output_shape', out.shape == (m, 2, 3), '%d x 2 x 3' % m, list(out.shape))]
    if out.shape != (m, 2, 3):
        return res
    bad = {'tir_flagged': [], 'degenerate_flagged': [], 'unflagged_is_a_solution': [], 'transmitted_ray_found': [], 'origin_is_hit_point': []}
    for i in range(m):
        d = np.array(inp['rays'][i][1], float); nr_ = inp['normals'][0 if len(inp['normals']) == 1 else i]
        n = np.array(nr_[1], float); p = np.array(nr_[0], float)
        cls = classify_refract(d, n, n1, n2)
        r = out[i, 1]; flagged = bool(np.all(np.isnan(r)))
        if np.all(np.isfinite(p)) and not np.allclose(out[i, 0], f32(p), rtol=0, atol=0):
            bad['origin_is_hit_point'].append((i, out[i, 0].tolist()))
        if cls == 'tir' and not flagged: bad['tir_flagged'].append((i, r.tolist()))
        if cls == 'degenerate' and not flagged: bad['degenerate_flagged'].append((i, r.tolist()))
        if not flagged:
            ok = bool(np.all(np.isfinite(r))) and cls in ('transmit', 'edge')
            if ok:
                dd, nn = f32(d), f32(n); nh = nn / np.linalg.norm(nn)
                rl = np.linalg.norm(r)
                s1 = np.linalg.norm(np.cross(dd, nh)) / np.linalg.norm(dd); s2 = np.linalg.norm(np.cross(r, nh)) / rl
                tol = max(err, 0.0) + 5 * TOL32
                ok = abs(rl - 1) <= tol and abs(n1 * s1 - n2 * s2) <= max(n1, n2) * tol and (r @ nh) * (dd @ nh) >= -tol
            if not ok: bad['unflagged_is_a_solution'].append((i, cls, r.tolist()))
        if cls == 'transmit' and flagged and err >= 1e-3 and inp.get('cap') is None:
            bad['transmitted_ray_found'].append((i, r.tolist()))
    for k, v in bad.items():
        res.append((k, not v, 'no such row', v[:3]))
    return res


# ---------------------------------------------------------------- exact classification of ray / surface pairs
def quad_coeffs(inp):
    """f(t) = A t^2 + 2 B t + C along the ray, in float64 from the inputs (sphere or infinite cylinder)"""
    o = np.array(inp['ray'][0], float); d = np.array(inp['ray'][1], float); s = np.array(inp['surface'], float)
    if inp['kind'] == 'sphere':
        w = o - s[:3]
        return float(d @ d), float(w @ d), float(w @ w - s[3] ** 2)
    ax = s[4:7] - s[:3]; L2 = float(ax @ ax)
    wx, dx = np.cross(o - s[:3], ax), np.cross(d, ax)
    return float(dx @ dx) / L2, float(wx @ dx) / L2, float(wx @ wx) / L2 - s[3] ** 2


def surf_f(inp, t):
    A, B, C = quad_coeffs(inp)
    return A * t * t + 2 * B * t + C


def classify_surface(inp):
    if not np.all(np.isfinite(np.array(inp['ray'], float))):
        return 'degenerate'
    A, B, C = quad_coeffs(inp)
    scale = max(1.0, abs(C))
    if A < 1e-12:
        return 'miss' if abs(C) > 1e-3 * scale else 'edge'
    disc = B * B - A * C
    if disc < -1e-6 * scale * A:
        fmin = C - B * B / A                                   # minimum of f over the whole line
        return 'miss' if abs(fmin) > 1e-3 * scale else 'edge'
    if disc < 1e-6 * scale * A:
        return 'edge'
    t1, t2 = (-B - math.sqrt(disc)) / A, (-B + math.sqrt(disc)) / A
    if t2 < -1e-3:
        # both intersections behind the origin: along t >= 0, f >= f(0) = C > 0
        return 'miss' if C > 1e-3 * scale else 'edge'
    return 'hit'


def oracle_parametric_batch(inp):
    """NumPy secant intersection on a BATCH of rays: either the whole batch is flagged (False, False) or every returned
    row is a converged solution: a row that has no solution (or was not iterated to convergence) must not come back as a number"""
    binp = dict(inp); binp['ray'] = inp['rays']
    r = guarded('parametric', 'w_parametric', binp)
    res = [('flags_agree', r['flag_distance'] == r['flag_normal'], 'distance and normal both False or both values', [r['flag_distance'], r['flag_normal']])]
    if not r['flag_distance']:
        dist = r['distance']
        ok = len(dist) == len(inp['rays'])
        res.append(('one_distance_per_ray', ok, len(inp['rays']), len(dist)))
        if ok:
            tol = 1e-8 if inp.get('target_error') is None else inp['target_error']
            bad = []
            for k, ray in enumerate(inp['rays']):
                one = dict(inp, ray=ray)
                cls = classify_surface(one)
                t = dist[k]
                if not math.isfinite(t):
                    continue                                     # a NaN row is a flag
                if cls in ('miss', 'degenerate'):
                    bad.append({'row': k, 'class': cls, 'distance': t}); continue
                A, B, C = quad_coeffs(one)
                if not (t >= 0 and abs(surf_f(one, t)) <= 10 * tol + 1e-6 * max(1.0, abs(C))):
                    bad.append({'row': k, 'class': cls, 'distance': t, 'f': surf_f(one, t)})
            res.append(('unflagged_rows_are_on_surface', not bad, 'every finite row satisfies |f(o + dist d)| <= 10 target_error + 1e-6 scale', bad[:4]))
    return res


def oracle_parametric(inp):
    """NumPy secant intersection (sphere / cylinder): returns, flags a miss, and an unflagged distance is on the surface"""
    if inp.get('rays') is not None:
        return oracle_parametric_batch(inp)
    r = guarded('parametric', 'w_parametric', inp)
    cls = classify_surface(inp)
    res = [('flags_agree', r['flag_distance'] == r['flag_normal'], 'distance and normal both False or both values', [r['flag_distance'], r['flag_normal']])]
    if cls in ('miss', 'degenerate'):
        res.append(('miss_flagged', r['flag_distance'], 'False, False', r['distance']))
    nan_marked = (not r['flag_distance']) and len(r['distance']) >= 1 and all(isinstance(x, float) and math.isnan(x) for x in r['distance'])
    # the property accepts NaN as an explicit mark ("NaN, False or a cleared hit flag"): a NaN distance is a flagged result, not a wrong number
    if not r['flag_distance'] and not nan_marked:
        dist = r['distance']
        tol = 1e-8 if inp.get('target_error') is None else inp['target_error']
        A, B, C = quad_coeffs(inp) if cls != 'degenerate' else (0, 0, 0)
        ok = len(dist) == 1 and math.isfinite(dist[0]) and dist[0] >= 0
        val = surf_f(inp, dist[0]) if ok else None
        # the point that was tested is within `tol`; the returned distance is one more secant step from it
        ok = ok and abs(val) <= 10 * tol + 1e-6 * max(1.0, abs(C))
        res.append(('unflagged_is_on_surface', ok, '|f(o + dist d)| <= 10 target_error + 1e-6 scale, dist >= 0', {'distance': dist, 'f': val, 'class': cls}))
    if inp.get('expect_root') is not None:
        # a well-conditioned hit (generator `clear-hit`): the solver must find it (the secant iteration may settle on either intersection)
        roots = inp['expect_root']
        got = None if r['flag_distance'] else r['distance'][0]
        res.append(('clear_hit_is_solved', got is not None and any(abs(got - t) <= 1e-5 * max(1.0, t) for t in roots), 'distance = one of %r (analytic intersections along the ray)' % (roots,), got))
    return res


def oracle_torch_sphere(inp):
    """PyTorch gradient search: fixed number of steps (returns), the flag is sound, selections match the flags"""
    r = guarded('torch_sphere', 'w_torch_sphere', inp)
    thr = 1e-2 if inp.get('thr') is None else inp['thr']
    m = len(inp['rays'])
    res = [('lengths', len(r['distance']) == m and len(r['check']) == m, m, [len(r['distance']), len(r['check'])])]
    if not res[0][1]:
        return res
    res.append(('selection_matches_flags', r['n_rays'] == sum(r['check']) and r['n_normals'] == sum(r['check']), sum(r['check']), [r['n_rays'], r['n_normals']]))
    unsound, missflag = [], []
    for i in range(m):
        one = {'ray': inp['rays'][i], 'surface': inp['sphere'], 'kind': 'sphere'}
        cls = classify_surface(one)
        if r['check'][i]:
            t = r['distance'][i]
            v = surf_f(one, t) if math.isfinite(t) else float('nan')
            if not (t >= 0 and abs(v) <= 5 * thr + 1e-4 * max(1.0, inp['sphere'][3] ** 2)):     # the residual is tested one optimiser step earlier
                unsound.append((i, t, v))
            if cls in ('miss', 'degenerate'):
                A, B, C = quad_coeffs(one) if cls == 'miss' else (0, 0, 0)
                fmin = abs(C - B * B / A) if (cls == 'miss' and A > 1e-12 and B * B - A * C < 0) else (abs(C) if cls == 'miss' else float('inf'))
                if fmin > 10 * thr:
                    missflag.append((i, cls, t))
    res.append(('flag_sound', not unsound, 'flagged rays are on the sphere (|f| <= 5 error_threshold) at a distance >= 0', unsound[:3]))
    res.append(('miss_flagged', not missflag, 'rays that miss are not flagged', missflag[:3]))
    return res


ORACLES = {'refract': oracle_refract, 'parametric': oracle_parametric, 'torch_sphere': oracle_torch_sphere}
FN = {'refract': F_REFR, 'parametric': F_PAR, 'torch_sphere': F_TSPH}


def run_oracle(name, inp):
    try:
        return ORACLES[name](inp)
    except NoReturn as e:
        return [('returns', False, 'a result within %g CPU s' % WATCHDOG[name], str(e))]
    except Exception as e:
        return [('no_exception', False, 'a result or a flag', repr(e))]


def apply_oracle(ctx, name, inp):
    res = run_oracle(name, inp)
    fn = FN[name] if name != 'parametric' else 'odak.raytracing.%s' % inp['fn']
    for clause, ok, exp, obs in res:
        if not ok:
            ctx.violation(fn, clause, dict(inp, oracle=name), exp, obs)
    return res


# ---------------------------------------------------------------- generators
def unit(rng):
    while True:
        v = np.array([rng.gauss(0, 1) for _ in range(3)])
        if np.linalg.norm(v) > 1e-3:
            return v / np.linalg.norm(v)


def dir_at(nhat, theta, rng):
    t = np.cross(nhat, unit(rng))
    while np.linalg.norm(t) < 1e-3: t = np.cross(nhat, unit(rng))
    t /= np.linalg.norm(t)
    return -math.cos(theta) * nhat + math.sin(theta) * t


def gen_refract(ctx, n):
    """mostly inputs WITHOUT a refracted ray or at the boundary: total internal reflection at all margins, the
    critical angle, grazing and zero-length directions, zero normals, NaN, unattainable / zero / negative
    tolerances, tiny caps, batches mixing solvable and unsolvable rows"""
    rng = ctx.rng
    ez = np.array([0.0, 0.0, 1.0])
    out = []
    def ray(d): return [[rng.uniform(-1, 1) for _ in range(3)], [float(x) for x in d]]
    def nrm(v): return [[rng.uniform(-1, 1) for _ in range(3)], [float(x) for x in v]]
    crit = math.asin(1 / 1.5)
    fixed = [
        ('tir/60deg', [ray(dir_at(ez, math.radians(60), rng))], [nrm(ez)], 1.5, 1.0, None, None),
        ('tir/long-normal', [ray(dir_at(ez, math.radians(70), rng))], [nrm(ez * 250.0)], 1.5, 1.0, None, None),
        ('tir/short-normal', [ray(dir_at(ez, math.radians(70), rng))], [nrm(ez * -0.004)], 2.4, 1.0, None, None),
        ('tir/just-beyond-critical', [ray(dir_at(ez, crit + 2e-3, rng))], [nrm(ez)], 1.5, 1.0, None, None),
        ('tir/just-beyond-critical-tight', [ray(dir_at(ez, crit + 2e-3, rng))], [nrm(ez)], 1.5, 1.0, 1e-5, None),
        ('tir/beyond-critical-by-3e-5', [ray(dir_at(ez, crit + 3e-5, rng))], [nrm(ez)], 1.5, 1.0, None, None),
        ('tir/beyond-critical-by-3e-5/long-normal', [ray(dir_at(ez, crit + 3e-5, rng))], [nrm(ez * 40.0)], 1.5, 1.0, 0.05, None),
        ('critical-angle', [ray(dir_at(ez, crit, rng))], [nrm(ez)], 1.5, 1.0, None, None),
        ('just-inside-critical', [ray(dir_at(ez, crit - 2e-3, rng))], [nrm(ez)], 1.5, 1.0, None, None),
        ('grazing/to-denser', [ray([1.0, 0.0, 0.0])], [nrm(ez)], 1.0, 1.5, None, None),
        ('grazing/equal', [ray([1.0, 0.0, 0.0])], [nrm(ez)], 1.0, 1.0, None, None),
        ('grazing/to-rarer', [ray([0.0, 1.0, 0.0])], [nrm(ez)], 1.5, 1.0, None, None),
        ('zero-direction', [ray([0.0, 0.0, 0.0])], [nrm(ez)], 1.0, 1.5, None, None),
        ('zero-normal', [ray(dir_at(ez, 0.3, rng))], [nrm([0.0, 0.0, 0.0])], 1.0, 1.5, None, None),
        ('nan-direction', [ray([float('nan'), 0.0, -1.0])], [nrm(ez)], 1.0, 1.5, None, None),
        ('batch/tir+ok', [ray(dir_at(ez, math.radians(10), rng)), ray(dir_at(ez, math.radians(60), rng)), ray(dir_at(ez, math.radians(25), rng))], [nrm(ez)], 1.5, 1.0, None, None),
        ('batch/nan+zero+ok', [ray([float('nan'), 0.0, -1.0]), ray([0.0, 0.0, 0.0]), ray(dir_at(ez, 0.4, rng))], [nrm(ez), nrm(ez), nrm(ez * 3)], 1.0, 1.5, None, None),
    ]
    for kind, rays, nrms, n1, n2, err, cap in fixed:
        out.append({'rays': rays, 'normals': nrms, 'n1': n1, 'n2': n2, 'error': err, 'cap': cap, 'kind': kind})
    for i in range(n):
        n1, n2 = rng.choice([(1.5, 1.0), (2.4, 1.0), (1.33, 1.0), (1.0, 1.5), (1.5, 1.33), (1.0, 1.0)])
        mu = n1 / n2
        m = rng.choice([1, 1, 2, 3])
        err = rng.choice([None, None, 1e-4, 1e-7, 1e-12, 0.0, -1.0])
        cap = rng.choice([None, None, None, 1, 3])
        nrms, rays, kinds = [], [], []
        for j in range(m):
            nv = unit(rng) * (10 ** rng.uniform(-3, 3)) * rng.choice([-1, 1]); nh = nv / np.linalg.norm(nv)
            nrms.append(nrm(nv))
            what = rng.choice(['tir', 'tir', 'ok', 'near'] if mu > 1 else ['ok', 'graze', 'ok'])
            if what == 'tir':
                th = rng.uniform(min(math.asin(min(1.0, 1 / mu)) + 0.03, 1.5), 1.55)
            elif what == 'near':
                th = math.asin(min(1.0, 1 / mu)) + rng.choice([-1, 1]) * 10 ** rng.uniform(-6, -2)
            elif what == 'graze':
                th = math.pi / 2 - 10 ** rng.uniform(-7, -2)
            else:
                th = rng.uniform(0, 0.9 * (math.asin(min(1.0, 0.97 / mu))))
            rays.append(ray(dir_at(nh * rng.choice([-1, 1]), th, rng))); kinds.append(what)
        out.append({'rays': rays, 'normals': nrms, 'n1': n1, 'n2': n2, 'error': err, 'cap': cap,
                    'kind': 'random/%s/err=%s/cap=%s' % ('+'.join(sorted(set(kinds))), err, cap)})
    return out


def gen_parametric(ctx, n):
    rng = ctx.rng
    _, nr = api()
    out = []
    sph = [0.0, 0.0, 10.0, 3.0]
    cyl = [float(x) for x in nr.define_cylinder([0.0, 0.0, 10.0], 3.0, [0.0, 0.0, 0.0])]
    named = {'hit': [[0, 0, 0], [0, 0, 1]], 'hit-oblique': [[1, 0.5, 0], [0.05, 0.02, 1]], 'miss': [[5, 0, 0], [0, 0, 1]],
             'graze': [[3, 0, 0], [0, 0, 1]], 'near-miss': [[3.0005, 0, 0], [0, 0, 1]], 'inside': [[0, 0, 10], [0, 0, 1]],
             'inside-off-centre': [[1, 0, 9], [0.3, 0.2, 1]], 'behind': [[0, 0, 20], [0, 0, 1]], 'pointing-away': [[0, 0, 0], [0, 0, -1]],
             'zero-direction': [[0, 0, 0], [0, 0, 0]], 'on-surface': [[0, 0, 7], [0, 0, 1]], 'nan': [[0, 0, 0], [float('nan'), 0, 1]],
             'far': [[0, 0, -900], [0, 0, 1]]}
    for k, (o, d) in named.items():
        d = np.array(d, float)
        if np.isfinite(d).all() and np.linalg.norm(d) > 0: d = d / np.linalg.norm(d)
        # default limits through the public wrappers (a miss takes iter_no_limit + 1 = 100001 bodies), and a short limit
        out.append({'fn': 'intersect_w_sphere', 'kind': 'sphere', 'surface': sph, 'ray': [o, d.tolist()], 'case': k})
        out.append({'fn': 'intersect_parametric', 'kind': 'sphere', 'surface': sph, 'ray': [o, d.tolist()], 'iter_no_limit': 500, 'case': k + '/limit500'})
    cyl_named = {'along-axis': [[0, 0, 0], [0, 0, 1]], 'parallel-outside': [[5, 0, 0], [0, 0, 1]], 'on-surface-parallel': [[3, 0, 0], [0, 0, 1]],
                 'across': [[-8, 0.5, 4], [1, 0, 0]], 'across-oblique': [[-8, 0.5, 4], [1, 0.1, 0.3]], 'miss': [[-8, 5, 4], [1, 0, 0]],
                 'graze': [[-8, 3, 4], [1, 0, 0]], 'inside': [[1, 0, 9], [0.3, 0.2, 1]], 'behind': [[8, 0, 4], [1, 0, 0]], 'zero-direction': [[1, 1, 1], [0, 0, 0]]}
    for k, (o, d) in cyl_named.items():
        d = np.array(d, float)
        if np.linalg.norm(d) > 0: d = d / np.linalg.norm(d)
        out.append({'fn': 'intersect_w_cylinder' if k in ('across', 'miss', 'along-axis', 'zero-direction') else 'intersect_parametric', 'kind': 'cylinder', 'surface': cyl,
                    'ray': [o, d.tolist()], 'iter_no_limit': None if k in ('across', 'miss', 'along-axis', 'zero-direction') else 500, 'case': 'cyl/' + k})
    # tolerances, incl. the ones at and above the initial dummy error 100
    for te in (1e-12, 1e-3, 1.0, 99.0, 100.0, 1e4):
        out.append({'fn': 'intersect_parametric', 'kind': 'sphere', 'surface': sph, 'ray': [[0.5, 0.2, 0], (np.array([0.02, 0.01, 1]) / np.linalg.norm([0.02, 0.01, 1])).tolist()],
                    'target_error': te, 'iter_no_limit': 500, 'case': 'tolerance=%g' % te})
    for lim in (0, 1, 2):
        out.append({'fn': 'intersect_parametric', 'kind': 'sphere', 'surface': sph, 'ray': [[0, 0, 0], [0.0, 0.0, 1.0]], 'iter_no_limit': lim, 'case': 'limit=%d' % lim})
    # batches: solvable rays together with a ray that has no solution, in every position
    okr = [[[0.0, 0.0, 0.0], [0.0, 0.0, 1.0]], [[1.0, 0.5, 0.0], (np.array([0.05, 0.02, 1.0]) / np.linalg.norm([0.05, 0.02, 1.0])).tolist()], [[-1.0, 0.3, 1.0], [0.0, 0.0, 1.0]]]
    for name_, badr in (('zero-direction', [[0.5, 0.0, 0.0], [0.0, 0.0, 0.0]]), ('miss', [[5.0, 0.0, 0.0], [0.0, 0.0, 1.0]]), ('nan', [[0.0, 0.0, 0.0], [float('nan'), 0.0, 1.0]])):
        for pos in range(4):
            rays = okr[:pos] + [badr] + okr[pos:]
            out.append({'fn': 'intersect_w_sphere' if name_ != 'miss' else 'intersect_parametric', 'kind': 'sphere', 'surface': sph, 'rays': rays,
                        'iter_no_limit': None if name_ != 'miss' else 300, 'case': 'batch/%s@%d' % (name_, pos)})
    out.append({'fn': 'intersect_w_sphere', 'kind': 'sphere', 'surface': sph, 'rays': okr, 'case': 'batch/all-solvable'})
    # batches of every size 1..5 (incl. exactly two rays); rows that start outside, inside, on the surface, behind or miss, in
    # every position (a row that starts inside has a NEGATIVE residual while the others are positive)
    zdir = [0.0, 0.0, 1.0]
    pool = {'outside': [[0.0, 0.0, 0.0], zdir], 'outside2': [[1.0, 0.0, 0.0], zdir], 'inside': [[0.0, 0.0, 10.0], zdir], 'inside2': [[0.0, 0.0, 9.5], zdir],
            'inside3': [[0.5, 0.2, 11.0], zdir], 'on': [[0.0, 0.0, 7.0], zdir], 'miss': [[5.0, 0.0, 0.0], zdir], 'behind': [[0.0, 0.0, 20.0], zdir]}
    mixes = [['outside'], ['inside'], ['outside', 'outside2'], ['outside', 'inside'], ['inside', 'outside'], ['inside', 'inside2'], ['outside', 'miss'],
             ['outside', 'inside', 'outside2'], ['inside2', 'outside', 'outside2'], ['outside', 'outside2', 'inside3'], ['outside', 'on', 'inside'],
             ['outside', 'inside', 'outside2', 'inside2'], ['behind', 'outside', 'inside'], ['inside', 'outside', 'inside2', 'outside2', 'inside3'],
             ['outside', 'outside2', 'inside', 'miss', 'inside2']]
    for mix in mixes:
        lim = 400 if ('miss' in mix or 'behind' in mix) else None
        out.append({'fn': 'intersect_w_sphere' if lim is None else 'intersect_parametric', 'kind': 'sphere', 'surface': sph, 'rays': [pool[k] for k in mix],
                    'iter_no_limit': lim, 'case': 'batch%d/%s' % (len(mix), '+'.join(mix))})
    for m in (2, 3):                                   # cylinders: batches of rays across the axis
        out.append({'fn': 'intersect_w_cylinder', 'kind': 'cylinder', 'surface': cyl, 'rays': [[[-8.0, 0.5 * (j + 1), 4.0], [1.0, 0.0, 0.0]] for j in range(m)],
                    'case': 'cyl/batch%d' % m})
    # clear hits: the solver must FIND them (one of the intersections along the ray), from outside and from inside
    for i in range(max(12, n // 2)):
        kind = rng.choice(['sphere', 'cylinder'])
        c = np.array([rng.uniform(-3, 3) for _ in range(3)]); r = 10 ** rng.uniform(-1, 1)
        inside = rng.random() < 0.4
        if kind == 'sphere':
            surf = [float(x) for x in c] + [float(r)]
            o = c + unit(rng) * r * (rng.uniform(0.0, 0.7) if inside else rng.choice([1.5, 4.0, 30.0]))
            aim = c + unit(rng) * r * rng.uniform(0.0, 0.8)
            d = unit(rng) if inside else (aim - o) / np.linalg.norm(aim - o)
        else:
            surf = [float(x) for x in nr.define_cylinder(c, r, [rng.uniform(-60, 60), rng.uniform(-60, 60), 0.0])]
            ax = np.array(surf[4:7]) - np.array(surf[:3]); ax /= np.linalg.norm(ax)
            def perp():
                v = np.cross(ax, unit(rng))
                while np.linalg.norm(v) < 0.2: v = np.cross(ax, unit(rng))
                return v / np.linalg.norm(v)
            o = c + ax * rng.uniform(-2, 2) + perp() * r * (rng.uniform(0.0, 0.7) if inside else rng.choice([1.5, 4.0, 30.0]))
            aim = c + ax * rng.uniform(-2, 2) + perp() * r * rng.uniform(0.0, 0.8)
            d = unit(rng) if inside else (aim - o) / np.linalg.norm(aim - o)
            if np.linalg.norm(np.cross(d, ax)) < 0.3:
                continue                                # nearly along the axis: ill-conditioned
        case = {'fn': 'intersect_parametric', 'kind': kind, 'surface': surf, 'ray': [o.tolist(), d.tolist()], 'iter_no_limit': 2000}
        A, B, C = quad_coeffs(case); disc = B * B - A * C
        if disc <= 0 or A < 1e-9:
            continue
        roots = [t for t in ((-B - math.sqrt(disc)) / A, (-B + math.sqrt(disc)) / A) if t > 1e-3]
        if not roots:
            continue
        out.append(dict(case, expect_root=roots, case='clear-hit/%s/%s' % (kind, 'inside' if inside else 'outside')))
    for i in range(n):
        kind = rng.choice(['sphere', 'cylinder'])
        c = np.array([rng.uniform(-3, 3) for _ in range(3)]); r = 10 ** rng.uniform(-1, 1)
        if kind == 'sphere':
            surf = [float(x) for x in c] + [float(r)]
        else:
            surf = [float(x) for x in nr.define_cylinder(c, r, [rng.uniform(-60, 60), rng.uniform(-60, 60), 0.0])]
        o = c + unit(rng) * r * rng.choice([0.3, 0.9, 1.0, 1.5, 4.0, 30.0])
        aim = c + unit(rng) * r * rng.choice([0.0, 0.5, 0.999, 1.0, 1.001, 1.5, 3.0])
        d = aim - o
        d = d / np.linalg.norm(d) if np.linalg.norm(d) > 1e-9 else np.zeros(3)
        if rng.random() < 0.15: d = -d
        out.append({'fn': 'intersect_parametric', 'kind': kind, 'surface': surf, 'ray': [o.tolist(), d.tolist()], 'iter_no_limit': rng.choice([200, 2000]), 'case': 'random/' + kind})
    return out


def gen_torch_sphere(ctx, n, steps):
    rng = ctx.rng
    out = []
    sph = [0.0, 0.0, 3.0, 2.0]
    named = [[[0, 0, 0], [0, 0, 1]], [[0.3, 0.2, 0], [0.05, 0.02, 1]], [[5, 0, 0], [0, 0, 1]], [[2, 0, 0], [0, 0, 1]], [[2.002, 0, 0], [0, 0, 1]],
             [[0, 0, 3], [0, 0, 1]], [[0.5, 0, 2.5], [0.3, 0.2, 1]], [[0, 0, 9], [0, 0, 1]], [[0, 0, 0], [0, 0, -1]], [[0, 0, 0], [0, 0, 0]],
             [[0, 0, 1], [0, 0, 1]], [[0, 0, 0], [float('nan'), 0, 1]]]
    rays = []
    for o, d in named:
        d = np.array(d, float)
        if np.isfinite(d).all() and np.linalg.norm(d) > 0: d = d / np.linalg.norm(d)
        rays.append([o, d.tolist()])
    out.append({'rays': rays, 'sphere': sph, 'steps': steps, 'lr': None, 'thr': None, 'case': 'named-batch'})
    out.append({'rays': rays[:1], 'sphere': sph, 'steps': None, 'lr': None, 'thr': None, 'case': 'single/default-steps'})
    out.append({'rays': rays[2:3], 'sphere': sph, 'steps': steps, 'lr': None, 'thr': None, 'case': 'single/miss'})
    out.append({'rays': rays[9:10], 'sphere': sph, 'steps': 1, 'lr': None, 'thr': None, 'case': 'single/zero-direction/1-step'})
    for i in range(n):
        m = rng.choice([4, 16, 40])
        c = np.array([rng.uniform(-1, 1), rng.uniform(-1, 1), rng.uniform(1.5, 3.0)]); r = rng.uniform(0.5, 1.5)
        rr = []
        for j in range(m):
            o = np.array([rng.uniform(-1, 1), rng.uniform(-1, 1), rng.uniform(-0.5, 0.5)])
            aim = c + unit(rng) * r * rng.choice([0.0, 0.5, 0.9, 1.0, 1.1, 2.0])
            d = (aim - o) / np.linalg.norm(aim - o)
            rr.append([o.tolist(), d.tolist()])
        out.append({'rays': rr, 'sphere': [float(x) for x in c] + [float(r)], 'steps': steps, 'lr': rng.choice([None, 0.05]), 'thr': rng.choice([None, 1e-3]), 'case': 'random/%d' % m})
    return out


# ---------------------------------------------------------------- B2: the model, evaluated inside Coq, predicts the implementation
def exact_run(d, n, mu, err, cap):
    """exact simulation (rationals), used ONLY to select cases whose decisions have a clear margin in float32"""
    dq = [Fr(float(x)) for x in d]; nq = [Fr(float(x)) for x in n]
    div = sum(x * x for x in nq); dn = sum(x * y for x, y in zip(dq, nq))
    if div == 0 or dn == 0: return None
    a = mu * dn / div; b = (mu * mu - 1) / div
    if abs(a * a - b) < Fr(1, 50) * abs(b if b != 0 else 1): return None
    if a * a < b: return ('flag', 0)
    t = -b / 2 / a
    for k in range(1, cap + 1):
        if t + a == 0: return None
        t2 = t - (t * t + 2 * a * t + b) / (2 * (t + a))
        e2 = (t - t2) ** 2 * div
        e2f = float(e2); lim = err * err if err >= 0 else -1.0
        if err >= 0 and (0.25 * float(lim) <= e2f <= 4 * float(lim)): return None          # too close to call in float32
        if err >= 0 and e2 <= lim: return ('ok', k)
        t = t2
        if t.denominator.bit_length() > 20000: return None
    return ('flag', cap)


def b2_cases(ctx, n):
    rng = ctx.rng
    cases = []
    tries = 0
    while len(cases) < n and tries < 40 * n:
        tries += 1
        n1, n2 = rng.choice([(1.0, 1.5), (1.5, 1.0), (1.33, 1.0), (1.0, 2.4), (2.4, 1.0), (1.0, 1.0)])
        mu = Fr(n1 / n2)
        nv = f32(unit(rng) * (10 ** rng.uniform(-2, 2)) * rng.choice([-1, 1])); nh = nv / np.linalg.norm(nv)
        th = rng.uniform(0.02, 1.5)
        d = f32(dir_at(nh * rng.choice([-1, 1]), th, rng))
        err = rng.choice([0.01, 0.01, 1e-3, 1e-4, -0.5])
        cap = rng.choice([1, 2, 3, 1000, 1000])
        ex = exact_run(d, nv, mu, Fr(err), min(cap, 4))
        if ex is None or (ex[0] == 'flag' and cap > 4 and ex[1] != 0):
            continue                                                   # would need more than 4 exact iterations inside Coq (rationals double in size per step)
        want = {'tirflag': 2, 'ok': 4, 'capflag': 3}
        kind = 'tirflag' if ex == ('flag', 0) else ('ok' if ex[0] == 'ok' else 'capflag')
        if sum(1 for c in cases if c['class'] == kind) >= max(2, n * want[kind] // 8):
            continue
        cases.append({'d': d.tolist(), 'n': nv.tolist(), 'n1': n1, 'n2': n2, 'error': err, 'cap': cap, 'class': kind})
    return cases


def b2(ctx, cases):
    pre = 'From Coq Require Import QArith ZArith.\nFrom OdakV Require Import C12.Model.'
    terms = []
    for c in cases:
        terms.append('let r := refract_caseQ %d %s %s in (match fst r with ConvergedQ _ => 1%%Z | UndefinedQ => 2%%Z | OutOfFuelQ => 3%%Z end, Z.of_nat (snd r))'
                     % (min(c['cap'], 5), ' '.join(qlit(x) for x in c['d'] + c['n']), qlit(Fr(c['n1'] / c['n2'])) + ' ' + qlit(Fr(c['error']))))
    vals = ctx.coq_eval(pre, terms, label='refract_model', chunk=3, timeout=300)
    bad = 0
    for c, v in zip(cases, vals):
        if v is None:
            bad += 1; continue
        nums = [int(x) for x in __import__('re').findall(r'-?\d+', v.replace('%Z', ''))]
        cls, count = nums[0], nums[1]
        ray = {'rays': [[[0.0, 0.0, 0.0], c['d']]], 'normals': [[[0.5, -0.25, 2.0], c['n']]], 'n1': c['n1'], 'n2': c['n2'], 'error': c['error']}
        def real(cap):
            try:
                o = np.array(guarded('refract', 'w_refract', dict(ray, cap=cap)), float)
                return 'ok' if np.all(np.isfinite(o[0, 1])) else 'flag'
            except NoReturn:
                return 'no-return'
            except Exception as e:
                return 'exception %r' % (e,)
        got = real(c['cap'])
        pred = 'ok' if cls == 1 else 'flag'
        checks = [('outcome', pred, got)]
        if cls == 1:
            checks.append(('returns with max_iterations = %d (model count)' % count, 'ok', real(count)))
            if count >= 1:
                checks.append(('flagged with max_iterations = %d' % (count - 1), 'flag', real(count - 1)))
        for what, p, gt in checks:
            ctx.traces += 1
            if p != gt:
                bad += 1
                ctx.violation(F_REFR, 'model_predicts_outcome', dict(ray, cap=c['cap'], oracle='refract', check=what), 'model (Coq): %s after %d bodies' % (pred, count), gt)
        ctx.case('model/%s' % c['class'], json.dumps(c, sort_keys=True))
        if len(ctx.samples) < 5:
            ctx.sample({'refract_case': c, 'coq_model': {'class': {1: 'Converged', 2: 'flagged (TIR / undefined)', 3: 'flagged (cap)'}[cls], 'loop_bodies': count}, 'implementation': got})
    ctx.obligation('model-in-coq predicts the implementation (%d cases: outcome, loop bodies)' % len(cases), bad == 0 and len(cases) > 0, '%d disagreements' % bad)


# ---------------------------------------------------------------- translator self-check (numeric)
def compose_secant(g, ray, sph, tol, limit, init):
    """the traced pieces of intersect_parametric (kernel point, secant step, counter, exits, loop condition after the pass, NaN
    test) composed as the model composes them — first pass unconditional, then while the condition held after the
    previous pass — one ray and a sphere, in float64; returns (distance or None for the flag, kernel evaluations)"""
    envr = {'r_0_%d_%d' % (j, k): float(ray[j][k]) for j in range(2) for k in range(3)}
    envs = dict(envr, **{'s_%d' % i: float(sph[i]) for i in range(4)})
    d0, d1, e0, it, evals = float(init['d0']), float(init['d1']), float(init['e0']), int(init['iter_no']), 0
    while True:
        e1n = g.evalf('g_sphere_err', dict(envs, x=d1)); evals += 1
        point = [g.evalf('g_kernel_point_%d' % k, dict(envr, d1=d1)) for k in range(3)]
        st = {'d0': d0, 'd1': d1, 'e0': e0, 'e1': e1n}
        ret = g.evalf('g_sec_ret', st)
        d0, d1, e0, e1 = g.evalf('g_sec_d0', st), g.evalf('g_sec_next', st), g.evalf('g_sec_e0', st), g.evalf('g_sec_e1', st)
        stop = g.evalf('g_sec_stop', {'iter_no': float(it), 'limit': float(limit)})       # a function of the counter before the pass
        cont = g.evalf('g_sec_continue', {'iter_no': float(it), 'e1': e1n, 'tol': tol})
        it = int(g.evalf('g_sec_count', {'iter_no': float(it)}))
        if stop:
            return None, evals
        if math.isnan(sum(point)):                     # the NaN exit: np.isnan(np.sum(point)) (false over R, see g_sec_stop)
            return None, evals
        if not cont:
            return ret, evals
        if evals > limit + 5:
            raise RuntimeError('composed secant loop does not stop')


def self_check_secant(ctx, g, init):
    """the COMPOSED loop (traced pieces iterated as the model iterates them) against the real intersect_parametric: same flag, same
    distance, same number of kernel evaluations — this ties the glue (which state goes into which piece) numerically"""
    rng = ctx.rng
    sph = [0.3, -0.2, 6.0, 2.0]
    rays = [[[0, 0, 0], [0, 0, 1.0]], [[0.5, 0.2, 0], [0.02, 0.05, 1.0]], [[0.3, -0.2, 6.5], [0.3, 0.1, 1.0]], [[0.3, -0.2, 4.0], [0, 0, 1.0]], [[4.0, 0, 0], [0, 0, 1.0]],
            [[0, 0, 12.0], [0, 0, 1.0]], [[0, 0, 0], [0, 0, 0.0]], [[2.3, -0.2, 0], [0, 0, 1.0]]]
    for _ in range(12):
        o = np.array(sph[:3]) + unit(rng) * rng.choice([0.5, 1.0, 3.0, 8.0]) * 2.0
        aim = np.array(sph[:3]) + unit(rng) * rng.choice([0.0, 1.0, 1.9, 2.5])
        rays.append([o.tolist(), ((aim - o) / np.linalg.norm(aim - o)).tolist()])
    bad = 0; n = 0
    for ray in rays:
        d = np.array(ray[1], float)
        if np.linalg.norm(d) > 0: ray = [ray[0], (d / np.linalg.norm(d)).tolist()]
        for tol, limit in ((1e-8, 60), (1e-3, 25)):
            want = guarded('parametric', 'w_parametric_counted', {'ray': ray, 'surface': sph, 'target_error': tol, 'iter_no_limit': limit})
            got_d, got_n = compose_secant(g, ray, sph, tol, limit, init)
            ok = (got_d is None) == want['flag'] and got_n == want['evals'] and (got_d is None or emit.close(got_d, want['distance'], 1e-9, 1e-12))
            n += 1
            if not ok:
                bad += 1; ctx.log('composed secant loop differs', ray, tol, limit, (got_d, got_n), want)
    ctx.traces += n
    ctx.obligation('translator-self-check(composed secant loop = intersect_parametric on %d runs: flag, distance, kernel evaluations)' % n, bad == 0 and n > 0, '%d mismatches' % bad)


def self_check(ctx, g, info):
    _, nr = api()
    lr, _ = api()
    rng = ctx.rng
    bad = n = 0
    def cmp(name, got, want, rtol=1e-9, atol=1e-11):
        nonlocal bad, n
        n += 1
        if not emit.close(got, want, rtol, atol):
            bad += 1; ctx.log('self-check mismatch', name, got, want)
    for _ in range(40):
        d0, d1, e0, e1 = rng.uniform(0, 5), rng.uniform(0, 5), rng.uniform(-50, 150), rng.uniform(-50, 100)
        dist, err = nr.propagate_parametric_intersection_error([d0, d1], [e0, e1])
        env = {'d0': d0, 'd1': d1, 'e0': e0, 'e1': e1}
        for name, want in (('g_sec_d0', dist[0]), ('g_sec_next', dist[1]), ('g_sec_e0', err[0]), ('g_sec_e1', err[1])):
            cmp(name, g.evalf(name, env), float(want))
        ray = np.array([[rng.uniform(-2, 2) for _ in range(3)], unit(rng).tolist()]); x = rng.uniform(0, 8)
        sph = np.array([rng.uniform(-2, 2), rng.uniform(-2, 2), rng.uniform(2, 8), rng.uniform(0.5, 3)])
        cyl = nr.define_cylinder(sph[:3], sph[3], [rng.uniform(-50, 50), rng.uniform(-50, 50), 0.0])
        env = {'r_0_%d_%d' % (j, k): ray[j, k] for j in range(2) for k in range(3)}; env['x'] = x
        e, p = nr.intersection_kernel_for_parametric_surfaces(x, ray, sph, nr.sphere_function)
        cmp('g_sphere_err', g.evalf('g_sphere_err', dict(env, **{'s_%d' % i: sph[i] for i in range(4)})), float(np.asarray(e).reshape(-1)[0]))
        e, p = nr.intersection_kernel_for_parametric_surfaces(x, ray, cyl, nr.cylinder_function)
        cmp('g_cyl_err', g.evalf('g_cyl_err', dict(env, **{'c_%d' % i: cyl[i] for i in range(7)})), float(np.asarray(e).reshape(-1)[0]))
    # PyTorch flag of intersect_w_sphere: with number_of_steps = 1 the residual is tested at the initial distance 0 and the
    # returned distance is the one after the single optimiser step
    for _ in range(10):
        sph = [rng.uniform(-1, 1), rng.uniform(-1, 1), rng.uniform(1, 3), rng.uniform(0.5, 2)]
        o = (np.array(sph[:3]) + unit(rng) * sph[3] * rng.choice([1.0, 1.0, 1.3, 0.5])).tolist()
        ray = [o, unit(rng).tolist()]
        thr = rng.choice([1e-2, 1.0, 10.0])
        r = guarded('torch_sphere', 'w_torch_sphere', {'rays': [ray], 'sphere': sph, 'steps': 1, 'lr': None, 'thr': thr})
        env32 = {'r_0_%d_%d' % (j, k): float(np.float32(ray[j][k])) for j in range(2) for k in range(3)}
        env32.update({'s_0_%d' % i: float(np.float32(sph[i])) for i in range(4)}); env32.update({'x_0': 0.0, 'y_0': r['distance'][0], 'thr': thr})
        resid = abs(sum((env32['r_0_0_%d' % k] - env32['s_0_%d' % k]) ** 2 for k in range(3)) - env32['s_0_3'] ** 2)
        if abs(resid - thr) > 1e-4 * max(1.0, thr) and abs(r['distance'][0]) > 1e-9:        # away from the float32 decision boundaries
            cmp('g_ts_check', bool(g.evalf('g_ts_check', env32)), bool(r['check'][0]))
    ctx.traces += n
    ctx.obligation('translator-self-check(traced terms = real functions on %d values)' % n, bad == 0 and n > 0, '%d mismatches' % bad)


def structure(ctx, info12, info11):
    """what is not a formula: how the loops are entered and left"""
    from harness.props import c11
    if info11 is not None:
        c11.loop_control(ctx, info11)
        ctx.obligation('refract:loop-has-an-iteration-cap', info11['has_cap'] and info11.get('guard_reads_cap', False),
                       'guard: %s (the exact form `counter < cap` is the tie lemma g_rf_guard1_ok)' % info11['guard_src'])
    if info12 is not None:
        ini = info12['init']
        ok = ini.get('d0') == 0 and ini.get('d1') == 0.1 and ini.get('e0') == 150 and ini.get('iter_no') == 0 and ini.get('e1_old', 100) == 100
        ctx.obligation('intersect_parametric:initial-state(distances 0 and 0.1, previous error 150, counter 0)', ok, '%r (held in: %r)' % (ini, info12.get('roles')))
        ctx.obligation('intersect_parametric:first-pass-is-unconditional', bool(info12.get('first_pass_unconditional')), 'loop condition: %s' % info12.get('guard'))
        ctx.obligation('intersect_parametric:defaults(target_error=1e-8, iter_no_limit=100000)', info12['defaults'] == {'target_error': 1e-08, 'iter_no_limit': 100000}, repr(info12['defaults']))


def run(ctx):
    ctx.rule = ('refract: total internal reflection at every margin (incl. just beyond the critical angle and long / short normals), the critical '
                'angle, grazing and zero-length directions, zero normals, NaN, requested errors 1e-2 .. 1e-12, 0 and negative, caps 1 / 3 / '
                'default, batches mixing solvable and unsolvable rows; intersect_parametric / intersect_w_sphere / intersect_w_cylinder (NumPy): '
                'hit, oblique, miss, graze, near miss, start inside / on the surface / far away, sphere behind, zero-length and NaN directions, '
                'rays along / parallel to a cylinder axis, target_error 1e-12 .. 1e4, iter_no_limit 0 .. default, random pairs; PyTorch '
                'intersect_w_sphere: the same classes in batches, default and reduced step counts.  Every call runs under a watchdog.  '
                'non-trivial = a case whose clauses were all evaluated; distinct by input')
    ctx.trusted += ['tracer (shim + recipes c11/c12: cut of `refract` at its while statement, pieces of intersect_parametric and intersect_w_sphere); validated by the numeric self-check',
                    'IEEE semantics of inf/NaN (a zero denominator becomes NaN within two secant steps and is caught by the isnan test; NaN compares false in the refract guard): modelled as the outcomes Undefined / Flagged, not derived',
                    'torch.optim.AdamW and autograd: an arbitrary state transformer `opt` in the model (only the number of steps and the flag are claimed)',
                    'wall-clock: observed under the watchdog (10 s refract, 40 s secant with the default 100001-body limit, 90 s optimiser), not proved',
                    'float rounding is not modelled; B2 cases are selected with a factor-4 margin in eps^2 so that float32 and exact arithmetic take the same exit']
    ctx.gate()
    ctx.ensure_theories(['theories/C12/Props.vo'], extra_dirs=['C11'])
    ctx.theorems('OdakV.C12.Props', PROPS)
    # B1
    g11, info11 = emit.Gen(), None
    try:
        info11 = recipe11.trace_refract(g11, with_guard=True)
        ctx.obligation('translator:trace-refract(%d definitions)' % len(g11.defs), True)
    except Exception as e:
        ctx.obligation('translator:trace-refract', False, repr(e))
    ctx.compile_tie('GenC11', g11.text(), [['C11_TieB']])
    g12, info12 = None, None
    try:
        g12, info12 = recipe.trace()
        ctx.obligation('translator:trace-parametric+sphere(%d definitions)' % len(g12.defs), True)
    except Exception as e:
        ctx.obligation('translator:trace-parametric+sphere', False, repr(e))
    ctx.programs = len(g11.defs) + (len(g12.defs) if g12 else 0)
    ctx.compile_tie('GenC12', g12.text() if g12 else emit.Gen().text(), [['C12_TieA']])
    structure(ctx, info12, info11)
    if g12 is not None:
        try:
            self_check(ctx, g12, info12)
        except Exception as e:
            ctx.obligation('translator-self-check', False, repr(e))
        try:
            self_check_secant(ctx, g12, info12['init'])
        except Exception as e:
            ctx.obligation('translator-self-check(composed secant loop)', False, repr(e))
        ctx.sample({'traced_definition': 'g_sec_next', 'coq': shim.coq(g12.by_name['g_sec_next'][1]), 'guard': info12['guard'], 'roles': info12['roles'],
                    'in_loop_exits': shim.coq(g12.by_name['g_sec_stop'][1])})
    # B2 + direct oracles, all under the watchdog
    ctx.log('B1 done; evaluating the model inside Coq (B2)')
    b2(ctx, b2_cases(ctx, 24 if ctx.thorough else 10))
    ctx.log('B2 done; refract under the watchdog')
    for c in gen_refract(ctx, 400 if ctx.thorough else 70):
        res = apply_oracle(ctx, 'refract', c)
        ctx.case('refract/%s' % c['kind'].split('/err')[0], json.dumps(c, sort_keys=True), nontrivial=len(res) >= 5)
    ctx.log('NumPy secant intersections under the watchdog')
    for c in gen_parametric(ctx, 300 if ctx.thorough else 50):
        res = apply_oracle(ctx, 'parametric', c)
        ctx.case('parametric/%s/%s' % (c['fn'], c['case'].split('=')[0]), json.dumps(c, sort_keys=True), nontrivial=len(res) >= 2)
        if c['case'] in ('miss', 'graze'):
            ctx.sample({'case': c, 'result': [r[0] + ('' if r[1] else ' FAILED') for r in res]})
    ctx.log('PyTorch sphere search under the watchdog')
    for c in gen_torch_sphere(ctx, 20 if ctx.thorough else 4, 600 if ctx.thorough else 300):
        res = apply_oracle(ctx, 'torch_sphere', c)
        ctx.case('torch_sphere/%s' % c['case'], json.dumps(c, sort_keys=True), nontrivial=len(res) >= 4, n=len(c['rays']))
    ctx.extra['watchdog'] = {k: {'calls': g.calls, 'expired': g.timeouts, 'timeout_s': g.timeout} for k, g in _GUARDS.items()}
    for g in _GUARDS.values():
        g.close()


def search(ctx):
    for c in gen_refract(ctx, 300):
        apply_oracle(ctx, 'refract', c)
        if len(ctx.viol) > 4: break
    for c in gen_parametric(ctx, 150):
        apply_oracle(ctx, 'parametric', c)
    for c in gen_torch_sphere(ctx, 4, 300):
        apply_oracle(ctx, 'torch_sphere', c)
    for g in _GUARDS.values():
        g.close()


def replay(ctx, rec):
    if rec.get('no_failing_input_found'):
        print('replay names broken obligations only:', json.dumps(rec['broken_obligations'])[:3000]); return 1
    inp = dict(rec['input']); name = inp.pop('oracle'); inp.pop('check', None)
    res = run_oracle(name, inp)
    for r in res:
        print(('FAIL ' if not r[1] else 'ok   ') + r[0], '' if r[1] else 'expected=%s observed=%s' % (r[2], r[3]))
    for g in _GUARDS.values():
        g.close()
    return 1 if [r for r in res if not r[1]] else 0
