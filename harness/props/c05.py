"""C05 - the PyTorch light and ray models are differentiable with correct, finite gradients.

Proof (coq/theories/C05): a deep embedding `expr` of the scalar formulas, its symbolic derivative `Dg`/`D`, proved to
be the derivative (Coquelicot `is_derive`) on the domain described by the side conditions `conds`, also through
`torch.where` selections, index arithmetic and shared sub-terms (straight-line programs, forward-mode tangents:
C05_ssa_correct); the tangent expressions are singularity free on that domain (finite); for the FFT-based entry
points, which are linear maps, the gradient of sum_k w_k |(P u)_k|^2 in closed form for ANY matrix P
(C05_phase_grad / C05_amp_grad / C05_jvp_linear); the `where(x > t, k x^c + k0, ...)` nonlinearity of the Lab
conversions as found (NaN gradient at black: C05_lab_refuted) and as repaired.

Tie to /repo, every run:
 B1  every scalar entry point is cut from the current source, traced (tracer/recipes/c05.py), emitted as a program of
     `expr`; Coq checks well-formedness and computes tangent expressions and side conditions by vm_compute; committed
     tie file coq/tie/C05_TieA.v proves, for the traced colour conversions, that all singularity side conditions
     hold on the whole documented input range (only branch thresholds remain).  Translator self-check: the emitted
     program evaluated numerically reproduces the real function.
 B2  the tangents evaluated at sampled valid points are compared with torch.autograd.grad of the REAL function
     (rel. 1e-3 float32 / 1e-7 float64) and isfinite; Coq's exact rational evaluation cross-checks the numeric
     evaluator; for the FFT-based entry points the columns P e_j are read off the implementation and the closed
     forms are compared with autograd (phase, amplitude, complex field, jvp), first and cached propagator call.
Model-free sweep (harness/props/c05_sweep.py): every public function / method of the anchored files is enumerated from the
current source and must have a call recipe or a documented exclusion (fail closed); on the real code a gradient must exist
w.r.t. every tensor parameter, be finite and equal central finite differences.
Direct oracles: autograd vs central finite differences, finiteness on a boundary stream (black, white, primaries,
saturated and out-of-gamut colours, ...), no autograd break (.detach/.item/.numpy/torch.tensor(tensor)) on a
parameter's path (AST pass), cache holds detached kernels.
"""
import json, math, os
from fractions import Fraction
import numpy as np
import torch
from tracer import deep, shim
from tracer.recipes import c05 as R
from harness.props import c05_sweep as S

PROPS = ['C05_D_correct', 'C05_D_correct_selected', 'C05_dom_mdom', 'C05_grad_finite', 'C05_grad_correct', 'C05_conds_iff',
         'C05_dom_of_split', 'C05_evalQ_sound', 'C05_chain_rule', 'C05_ssa_correct', 'C05_tangent_finite',
         'C05_phase_grad', 'C05_amp_grad', 'C05_jvp_linear',
         'C05_where_pow_fixed_same_value', 'C05_where_pow_fixed_dom', 'C05_where_pow_partial', 'C05_lab_refuted', 'C05_lab_fixed',
         'C05_instance']
PRE = 'From Coq Require Import QArith List. Import ListNotations.\nRequire Import OdakV.C05.Model.\n'
TOL = {'f32': 1e-3, 'f64': 1e-7}
FD_TOL = {'f32': 3e-2, 'f64': 1e-5}
MARGIN = 2e-2               # valid points keep every side condition at least this far from failing
LUM_N = 3


def mods():
    import odak.learn.wave as lw, odak.learn.raytracing as lr, odak.learn.perception as lp
    return {'torch': torch, 'lw': lw, 'lr': lr, 'lp': lp}


# ================================================================================ entries
def default_config(seed):
    rng = np.random.default_rng(seed)
    return {'lum_point': [[float(x) for x in rng.uniform(0.05, 0.95, LUM_N)] for _ in range(2)],
            'lum_grid': [[float(x) for x in rng.uniform(0.05, 0.95, 4 * 2)] for _ in range(2)],
            'mesh_rays': [[[0.2, -0.1, 1.0], [0.05, 0.1, -0.99]], [[-0.2, 0.25, 1.5], [0.0, 0.05, -1.0]], [[-0.3, -0.2, 1.2], [0.1, 0.0, -1.0]]],
            'mesh_heights': [[[0.02], [-0.03]], [[0.05], [0.01]]],
            'mp_seed': int(seed) % 1000}


def norm_rays(rays):
    r = np.array(rays, dtype=np.float64)
    r[:, 1] /= np.linalg.norm(r[:, 1], axis=1, keepdims=True)
    return r.astype(np.float32)


def mesh_hits(T, cfg):
    lr = T['lr']
    rays = torch.tensor(norm_rays(cfg['mesh_rays']))
    mesh = lr.planar_mesh(size=torch.tensor([1., 1.]), number_of_meshes=torch.tensor([2, 2]), heights=torch.tensor(cfg['mesh_heights'], dtype=torch.float32))
    hits = []
    for ti, t in enumerate(mesh.get_triangles()):
        check = lr.intersect_w_triangle(rays, t)[4].reshape(-1)
        ids = [i for i in range(len(check)) if bool(check[i])]
        if ids: hits.append((ti, ids))
    return hits


def multiplane(T, cfg):
    from odak.learn.wave.loss import multiplane_loss
    rng = np.random.default_rng(cfg['mp_seed'])
    img = torch.tensor(rng.uniform(0.1, 0.9, (3, 3, 4)), dtype=torch.float32)
    depth = torch.tensor(rng.uniform(0, 1, (3, 4)), dtype=torch.float32)
    return multiplane_loss(img, depth, target_blur_size=3, number_of_planes=3, scheme='defocus')


def build_entries(T, cfg, only=None):
    """list of (entry or None, error) per group; a group that cannot be traced is a broken obligation"""
    groups = [('wave', lambda: R.wave_entries(T)), ('ray', lambda: R.ray_entries(T)), ('refract', lambda: R.refract_entries(T)),
              ('mesh', lambda: [R.mesh_entry(T, norm_rays(cfg['mesh_rays']), mesh_hits(T, cfg))]),
              ('luminous', lambda: R.luminous_entries(T, cfg['lum_point'], cfg['lum_grid'])),
              ('colour', lambda: R.colour_entries(T)), ('loss', lambda: R.loss_entries(T, multiplane(T, cfg)))]
    out, errs = [], []
    for g, f in groups:
        if only is not None and g != only: continue
        try:
            out += f()
        except Exception as e:
            errs.append((g, repr(e)))
    return out, errs


# ================================================================================ samplers (valid points)
def unit3(rng):
    v = np.array([rng.gauss(0, 1) for _ in range(3)]); return v / np.linalg.norm(v)


def sample_point(e, rng, cfg):
    """a structured, mostly valid point of the entry's input domain: dict param -> array"""
    U = lambda a, b, shp: np.array([rng.uniform(a, b) for _ in range(int(np.prod(shp)))]).reshape(shp)
    n = e.name
    if e.group == 'wave':
        p = {}
        for pn, shp in e.params:
            if pn in ('am',): p[pn] = U(0.3, 1.5, shp) * np.array([rng.choice([-1, 1]) for _ in range(int(np.prod(shp)))]).reshape(shp)
            elif pn == 'ph': p[pn] = U(-3.1, 3.1, shp)
            else: p[pn] = None
        for pre in ('f', 'g'):
            if pre + 'r' in p:
                shp = dict(e.params)[pre + 'r']; mag = U(0.3, 1.5, shp); ang = U(-3.1, 3.1, shp)
                p[pre + 'r'], p[pre + 'i'] = mag * np.cos(ang), mag * np.sin(ang)
        return p
    if n == 'create_ray_from_two_points':
        a = U(-2, 2, (1, 3)); return {'a': a, 'b': a + unit3(rng) * rng.uniform(0.5, 3)}
    if n == 'propagate_ray':
        return {'r': np.stack([U(-2, 2, (3,)), unit3(rng)])[None], 'd': U(-3, 3, (1,))}
    if n in ('get_triangle_normal', 'intersect_w_surface', 'intersect_w_triangle'):
        nrm = unit3(rng); h = np.array([1., 0, 0]) if abs(nrm[0]) < 0.9 else np.array([0, 1., 0])
        e1 = np.cross(nrm, h); e1 /= np.linalg.norm(e1); e2 = np.cross(nrm, e1)
        c = U(-1, 1, (3,)); ang = sorted(rng.uniform(0, 2 * math.pi) for _ in range(3))
        while min(ang[1] - ang[0], ang[2] - ang[1], ang[0] + 2 * math.pi - ang[2]) < 0.7:
            ang = sorted(rng.uniform(0, 2 * math.pi) for _ in range(3))
        tri = np.array([c + rng.uniform(0.7, 1.3) * (math.cos(a) * e1 + math.sin(a) * e2) for a in ang])
        if n == 'get_triangle_normal': return {'t': tri}
        al, be = rng.uniform(0.15, 0.35), rng.uniform(0.15, 0.35)
        target = tri[0] + al * (tri[2] - tri[0]) + be * (tri[1] - tri[0])
        o = target + rng.choice([-1, 1]) * rng.uniform(1, 3) * (nrm + rng.uniform(-0.5, 0.5) * e1 + rng.uniform(-0.5, 0.5) * e2)
        d = target - o; d /= np.linalg.norm(d)
        return {'r': np.stack([o, d])[None], 't': tri}
    if n == 'reflect':
        nn = unit3(rng) * rng.uniform(0.5, 2)
        return {'r': np.stack([U(-2, 2, (3,)), unit3(rng)])[None], 'n': np.stack([U(-2, 2, (3,)), nn])[None]}
    if e.group == 'refract':
        nn = unit3(rng); d = unit3(rng)
        while abs(d @ nn) < 0.45: d = unit3(rng)
        if d @ nn < 0: d = -d
        return {'v': np.stack([U(-1, 1, (3,)), d])[None], 'n': np.stack([U(-1, 1, (3,)), nn * rng.uniform(0.8, 1.25)])[None]}
    if e.group == 'mesh':
        return {'h': np.array(cfg['mesh_heights']) + U(-0.004, 0.004, (2, 2, 1))}
    if e.group == 'luminous':
        k = 'o' if 'o' in dict(e.params) else 'c'
        return {k: U(-1, 1, (3,)), 'tl': U(-40, 40, (3,))}
    if e.group == 'colour':
        if e.domain == 'unit': return {'x': U(0.06, 0.94, R.CSHAPE)}
        if e.domain == 'hsv':
            x = U(0.1, 0.9, R.CSHAPE); x[0] = U(0.05, 6.2, R.CSHAPE[1:]); return {'x': x}
        if e.domain == 'lab':
            rgb = torch.tensor(U(0.1, 0.9, R.CSHAPE), dtype=torch.float32)
            return {'x': mods()['lp'].srgb_to_lab(rgb).numpy().astype(np.float64)}
    if e.group == 'loss':
        p = {pn: U(0.05, 0.95, shp) for pn, shp in e.params}
        if n.startswith('wrapped'): p = {pn: U(-3, 3, shp) for pn, shp in e.params}
        return p
    raise KeyError(n)


def boundary_points(e, rng, cfg):
    """(label, point, expectation): 'smooth' = a valid input that is not a documented non-smooth point (gradient must be
    finite and match finite differences), 'finite' = gradient must be finite (the value itself jumps: no finite differences),
    'nonsmooth' = documented (only recorded: no exception, value finite or NaN by design)"""
    out = []
    if e.group == 'colour':
        C = lambda r, g, b: {'x': np.array([[[r, r]], [[g, g]], [[b, b]]], dtype=np.float64) * np.ones(R.CSHAPE)}
        if e.domain == 'unit':
            out += [('black', C(0, 0, 0), 'smooth'), ('white', C(1, 1, 1), 'smooth' if e.name != 'rgb_to_hsv' else 'nonsmooth'),
                    ('red', C(1, 0, 0), 'smooth' if e.name != 'rgb_to_hsv' else 'nonsmooth'), ('green', C(0, 1, 0), 'smooth' if e.name != 'rgb_to_hsv' else 'nonsmooth'),
                    ('blue', C(0, 0, 1), 'smooth' if e.name != 'rgb_to_hsv' else 'nonsmooth'), ('dark', C(0.001, 0.002, 0.0005), 'smooth'),
                    ('one black channel', C(0.5, 0.0, 0.25), 'smooth'), ('grey', C(0.5, 0.5, 0.5), 'smooth' if e.name != 'rgb_to_hsv' else 'nonsmooth')]
            if e.name == 'rgb_to_hsv': out[0] = ('black', C(0, 0, 0), 'nonsmooth')
        if e.domain == 'lab':
            lp = mods()['lp']
            for lab, rgb in (('lab of black', (0, 0, 0)), ('lab of red', (1, 0, 0)), ('lab of blue', (0, 0, 1)), ('lab of white', (1, 1, 1)), ('lab of dark', (0.001, 0.002, 0.0005))):
                x = lp.srgb_to_lab(torch.tensor(C(*rgb)['x'], dtype=torch.float32)).numpy().astype(np.float64)
                out.append((lab, {'x': x}, 'smooth'))
            out.append(('out of gamut', {'x': np.array([[[60., 30.]], [[90., -100.]], [[-90., 60.]]])}, 'smooth'))
            out.append(('L = 0, a = b = 0', C(0, 0, 0), 'smooth'))
        if e.domain == 'hsv':
            out += [('s = 0', {'x': np.array([[[1.0, 2.0]], [[0., 0.]], [[0.5, 0.7]]])}, 'smooth'), ('v = 0', {'x': np.array([[[1.0, 4.0]], [[0.5, 0.2]], [[0., 0.]]])}, 'smooth'),
                    ('h = 0', {'x': np.array([[[0., 0.]], [[0.5, 0.2]], [[0.5, 0.7]]])}, 'nonsmooth')]
    if e.name == 'calculate_amplitude':
        out.append(('zero field', {'fr': np.zeros((2, 2)), 'fi': np.zeros((2, 2))}, 'nonsmooth'))
        out.append(('real axis', {'fr': np.array([[1., -2.], [0.5, -0.25]]), 'fi': np.zeros((2, 2))}, 'smooth'))
    if e.name == 'calculate_phase':
        out.append(('negative real axis', {'fr': -np.array([[1., 2.], [0.5, 0.25]]), 'fi': np.zeros((2, 2))}, 'finite'))
        out.append(('imaginary axis', {'fr': np.zeros((2, 2)), 'fi': np.array([[1., -2.], [0.5, -0.25]])}, 'smooth'))
        out.append(('zero field', {'fr': np.zeros((2, 2)), 'fi': np.zeros((2, 2))}, 'nonsmooth'))
    if e.name == 'generate_complex_field':
        out.append(('zero amplitude', {'am': np.zeros((2, 2)), 'ph': np.array([[0., 1.], [2., 3.]])}, 'smooth'))
        out.append(('phase 0 and pi', {'am': np.ones((2, 2)), 'ph': np.array([[0., math.pi], [-math.pi, 2 * math.pi]])}, 'smooth'))
    if e.name == 'create_ray_from_two_points':
        out.append(('coincident points', {'a': np.array([[1., 2., 3.]]), 'b': np.array([[1., 2., 3.]])}, 'nonsmooth'))
        out.append(('axis aligned', {'a': np.array([[0., 0., 0.]]), 'b': np.array([[0., 0., 2.]])}, 'smooth'))
    if e.name == 'reflect':
        out.append(('normal incidence', {'r': np.array([[[0., 0., 1.], [0., 0., -1.]]]), 'n': np.array([[[0., 0., 0.], [0., 0., 1.]]])}, 'smooth'))
        out.append(('grazing', {'r': np.array([[[0., 0., 1.], [1., 0., 0.]]]), 'n': np.array([[[0., 0., 0.], [0., 0., 1.]]])}, 'smooth'))
    if e.name in ('intersect_w_surface', 'intersect_w_triangle'):
        tri = np.array([[0., 0., 0.], [1., 0., 0.], [0., 1., 0.]])
        out.append(('axis aligned', {'r': np.array([[[0.2, 0.2, 1.], [0., 0., -1.]]]), 't': tri}, 'smooth'))
        out.append(('parallel ray', {'r': np.array([[[0.2, 0.2, 1.], [1., 0., 0.]]]), 't': tri}, 'nonsmooth'))
    if e.name == 'PSNR':
        x = np.array([[0.2, 0.4], [0.6, 0.8]]); out.append(('identical images', {'x': x, 'y': x.copy()}, 'nonsmooth'))
    if e.name.startswith('total_variation'):
        shp = dict(e.params)['x']; out.append(('constant image', {'x': np.full(shp, 0.5)}, 'smooth')); out.append(('zeros', {'x': np.zeros(shp)}, 'smooth'))
    if e.name.startswith('wrapped'):
        x = np.array([[0., 1.], [2., 3.]]); out.append(('identical', {'x': x, 'y': x.copy()}, 'smooth')); out.append(('2 pi apart', {'x': x, 'y': x + 2 * math.pi}, 'smooth'))
    if e.name.startswith('multiplane'):
        shp = dict(e.params)['x']; out.append(('identical', {'x': np.full(shp, 0.5), 'y': np.full(shp, 0.5)}, 'smooth')); out.append(('zeros', {'x': np.zeros(shp), 'y': np.zeros(shp)}, 'smooth'))
    return out


# ================================================================================ the real function and its gradient
def tdtype(e):
    return torch.float64 if e.dtype == 'f64' else torch.float32


def real_objective(e, point, need_grad=True):
    """(objective value, gradient as flat numpy array or None where autograd found no path, per-parameter flags)"""
    dt = tdtype(e)
    params = {pn: torch.tensor(np.asarray(point[pn], dtype=np.float64).reshape(shp), dtype=dt, requires_grad=need_grad) for pn, shp in e.params}
    out = e.real(params)
    if isinstance(out, (list, tuple)): out = S.cat(*out)
    if torch.is_complex(out): out = torch.cat((out.real.reshape(-1), out.imag.reshape(-1)))
    w = torch.tensor([float(R.weight(i)) for i in range(out.numel())], dtype=out.dtype)
    obj = (out.reshape(-1) * w).sum()
    if not need_grad:
        return float(obj), None, None
    leaves = e.real.leaves() if hasattr(e.real, 'leaves') else [params[pn] for pn, _ in e.params]
    if not obj.requires_grad:
        return float(obj), np.zeros(e.nvars), [False] * len(leaves)
    gs = torch.autograd.grad(obj, leaves, allow_unused=True)
    flat = np.concatenate([(g if g is not None else torch.zeros_like(l)).detach().numpy().reshape(-1).astype(np.float64) for g, l in zip(gs, leaves)])
    return float(obj), flat, [g is not None for g in gs]


def round_point(e, point):
    """the point as the implementation sees it (float32 inputs are rounded first)"""
    dt = np.float32 if e.dtype == 'f32' else np.float64
    return {pn: np.asarray(point[pn], dtype=np.float64).reshape(shp).astype(dt).astype(np.float64) for pn, shp in e.params}


def central_difference(e, point):
    """(central finite-difference gradient, absolute noise level of it)"""
    rel = 1e-6 if e.dtype == 'f64' else 1e-3
    eps = 2.3e-16 if e.dtype == 'f64' else 1.2e-7
    base = e.env_of(point)
    g = np.zeros(e.nvars)
    fmax, hmin = 0.0, 1.0
    for i in range(e.nvars):
        h = rel * max(abs(base[i]), 0.05)
        vals = []
        for sgn in (1, -1):
            v = list(base); v[i] += sgn * h
            p2, off = {}, 0
            for pn, shp in e.params:
                sz = int(np.prod(shp)); p2[pn] = np.array(v[off:off + sz]).reshape(shp); off += sz
            p2 = round_point(e, p2)
            vals.append((real_objective(e, p2, need_grad=False)[0], e.env_of(p2)[i]))
        hh = vals[0][1] - vals[1][1]
        g[i] = (vals[0][0] - vals[1][0]) / hh if hh != 0 else float('nan')
        fmax = max(fmax, abs(vals[0][0]), abs(vals[1][0])); hmin = min(hmin, abs(hh) if hh else h)
    return g, 30 * eps * (fmax + 1.0) / hmin


def jsonable(point):
    return {k: np.asarray(v, dtype=np.float64).tolist() for k, v in point.items()}


def rel_err(a, b):
    a, b = np.asarray(a, float), np.asarray(b, float)
    if not (np.all(np.isfinite(a)) and np.all(np.isfinite(b))): return float('inf')
    return float(np.abs(a - b).max() / max(1e-9, np.abs(b).max(), np.abs(a).max()))


# ================================================================================ oracles
def oracle_grad(inp, entry=None):
    """clauses of the property at one input of one scalar entry point (replayable: the entry is rebuilt from the current source)"""
    T = mods()
    if entry is None:
        ents, errs = build_entries(T, inp['config'], only=inp['group'])
        entry = [x for x in ents if x.name == inp['entry']]
        if not entry: return [('entry_point_traceable', False, 'traceable', str(errs))]
        entry = entry[0]
    e = entry
    point = round_point(e, {k: np.array(v) for k, v in inp['point'].items()})
    res = []
    try:
        val, g, used = real_objective(e, point)
    except Exception as ex:
        return [('no_exception', False, 'a gradient', repr(ex))]
    fin = bool(np.all(np.isfinite(g)))
    res.append(('gradient_finite', fin, 'no NaN/Inf', [str(x) for x in g.tolist()] if not fin else 'finite'))
    if inp.get('proven') is not None:
        pv = np.array(inp['proven'], dtype=float)
        if np.abs(pv).max() > 1e-9:
            nz = [bool(np.abs(pv[s]).max() > 1e-9) for s in param_slices(e)]
            ok = all(u or not z for u, z in zip(used, nz))
            res.append(('gradient_path_exists', ok, 'autograd reaches every parameter the output depends on', {'reached': used, 'proven_nonzero': nz}))
        if fin:
            err = rel_err(g, pv)
            res.append(('gradient_equals_proven_derivative', err <= TOL[e.dtype], '<= %g (relative, max norm)' % TOL[e.dtype], {'rel_err': err, 'autograd': g.tolist(), 'proven': pv.tolist()}))
    if inp.get('fd', True) and fin:
        fd, noise = central_difference(e, point)
        if np.all(np.isfinite(fd)):
            tol = FD_TOL[e.dtype] * inp.get('fd_slack', 1.0)
            err = float(np.abs(g - fd).max()); allowed = tol * max(float(np.abs(g).max()), float(np.abs(fd).max())) + noise
            res.append(('gradient_equals_central_difference', err <= allowed, '<= %.3g (rel %g + float noise %.2g)' % (allowed, tol, noise),
                        {'max_abs_err': err, 'autograd': g.tolist(), 'central_difference': fd.tolist()}))
    return res


def param_slices(e):
    out, off = [], 0
    for pn, shp in e.params:
        sz = int(np.prod(shp)); out.append(slice(off, off + sz)); off += sz
    return out


# ---- FFT-based entry points: linear maps, closed-form gradients
FFT_METHODS = ['Angular Spectrum', 'Bandlimited Angular Spectrum', 'Transfer Function Fresnel', 'Impulse Response Fresnel',
               'Seperable Impulse Response Fresnel', 'Fraunhofer', 'custom', 'Incoherent Angular Spectrum']


def fft_function(inp):
    lw = mods()['lw']
    lam, dx, z = inp['lam'], inp['dx'], inp['z']
    k = 2 * math.pi / lam
    H, W = inp['shape']
    kernel = None
    if inp['method'] == 'custom':
        ph = np.array(inp['kernel_phase'])
        kernel = torch.tensor(np.exp(1j * ph), dtype=torch.complex64)
    ap = 1.
    if inp.get('aperture') is not None:
        ap = torch.tensor(np.array(inp['aperture']), dtype=torch.float32)

    def f(u):
        return lw.propagate_beam(u, k, z, dx, lam, propagation_type=inp['method'], kernel=kernel, zero_padding=list(inp['zero_padding']),
                                 aperture=ap, scale=1, samples=[2, 2, 1, 1])
    return f


def columns(f, H, W):
    cols = []
    for j in range(H * W):
        b = torch.zeros(H * W, dtype=torch.complex64); b[j] = 1.0
        cols.append(f(b.reshape(H, W)).detach().reshape(-1).numpy().astype(np.complex128))
    return np.stack(cols, axis=1)                      # K x n


def closed_forms(P, a, phi, w):
    u = a * np.exp(1j * phi)
    Pu = P @ u
    c = np.conj(Pu) * w                                # K
    g_phi = 2 * np.real((c @ P) * 1j * u)
    g_amp = 2 * np.real((c @ P) * np.exp(1j * phi))
    g_re = 2 * np.real(c @ P)
    g_im = 2 * np.real((c @ P) * 1j)
    return Pu, g_phi, g_amp, g_re, g_im


def linear_clauses(f, H, W, inp, tag=''):
    lw = mods()['lw']
    n = H * W
    a = np.array(inp['amp'], dtype=np.float64); phi = np.array(inp['phase'], dtype=np.float64)
    res = []
    P = columns(f, H, W)
    K = P.shape[0]
    w = np.array([float(R.weight(i)) for i in range(K)])
    Pu, g_phi, g_amp, g_re, g_im = closed_forms(P, a, phi, w)
    scale = max(1e-12, float(np.abs(Pu).max()))
    at = torch.tensor(a.reshape(H, W), dtype=torch.float32, requires_grad=True)
    pt = torch.tensor(phi.reshape(H, W), dtype=torch.float32, requires_grad=True)
    out = f(lw.generate_complex_field(at, pt)).reshape(-1)
    lin = float(np.abs(out.detach().numpy().astype(np.complex128) - Pu).max() / scale)
    res.append((tag + 'oracle_valid:output_is_matrix_times_field', lin <= 2e-4, '<= 2e-4 (C03 linearity)', lin))
    wt = torch.tensor(w, dtype=torch.float32)
    obj = (wt * (out.real ** 2 + out.imag ** 2)).sum()
    ga, gp = torch.autograd.grad(obj, [at, pt], allow_unused=True)
    for name, g, ref in (('phase', gp, g_phi), ('amplitude', ga, g_amp)):
        if g is None:
            res.append((tag + '%s_gradient_path_exists' % name, False, 'a gradient', None)); continue
        g = g.detach().numpy().reshape(-1).astype(np.float64)
        fin = bool(np.all(np.isfinite(g)))
        res.append((tag + '%s_gradient_finite' % name, fin, 'finite', 'finite' if fin else [str(x) for x in g.tolist()]))
        if fin:
            err = rel_err(g, ref)
            res.append((tag + '%s_gradient_equals_closed_form' % name, err <= 1e-3, '<= 1e-3', {'rel_err': err, 'autograd': g.tolist(), 'closed_form': ref.tolist()}))
    # complex field as the parameter (real and imaginary parts), and the Jacobian-vector product
    u = a * np.exp(1j * phi)
    ur = torch.tensor(u.real.reshape(H, W), dtype=torch.float32, requires_grad=True); ui = torch.tensor(u.imag.reshape(H, W), dtype=torch.float32, requires_grad=True)
    out2 = f(torch.complex(ur, ui)).reshape(-1)
    obj2 = (wt * (out2.real ** 2 + out2.imag ** 2)).sum()
    gr, gi = torch.autograd.grad(obj2, [ur, ui])
    err = max(rel_err(gr.numpy().reshape(-1), g_re), rel_err(gi.numpy().reshape(-1), g_im))
    res.append((tag + 'field_gradient_equals_closed_form', err <= 1e-3, '<= 1e-3', err))
    v = np.array(inp['direction_re']) + 1j * np.array(inp['direction_im'])
    try:
        vr = torch.tensor(v.real.reshape(H, W), dtype=torch.float32); vi = torch.tensor(v.imag.reshape(H, W), dtype=torch.float32)
        fn = lambda x, y: torch.view_as_real(f(torch.complex(x, y)))
        _, jv = torch.autograd.functional.jvp(fn, (ur.detach(), ui.detach()), (vr, vi))
        jv = torch.view_as_complex(jv.contiguous()).reshape(-1).numpy().astype(np.complex128)
        Pv = P @ v
        err = float(np.abs(jv - Pv).max() / max(1e-12, np.abs(Pv).max()))
        res.append((tag + 'jvp_equals_map_of_direction', err <= 1e-3, '<= 1e-3', err))
    except Exception as ex:
        res.append((tag + 'jvp_computable', False, 'a Jacobian-vector product', repr(ex)))
    return res


def oracle_fft(inp):
    H, W = inp['shape']
    try:
        return linear_clauses(fft_function(inp), H, W, inp)
    except Exception as ex:
        return [('no_exception', False, 'gradients', repr(ex))]


def make_propagator(inp):
    from odak.learn.wave import propagator
    return propagator(resolution=list(inp['shape']), wavelengths=[inp['lam'], inp['lam'] * 1.2], pixel_pitch=inp['dx'], number_of_frames=1,
                      number_of_depth_layers=2, volume_depth=inp['z'] / 2, image_location_offset=inp['z'], propagation_type=inp['method'],
                      propagator_type=inp['ptype'], back_and_forth_distance=inp['z'] * 3, aperture_samples=[2, 2, 1, 1])


def oracle_propagator(inp):
    """first (kernel generated) and second (kernel from the cache) call of propagator.__call__"""
    H, W = inp['shape']
    res = []
    try:
        for ch, dp in ((0, 0), (1, 1)):
            p = make_propagator(inp)
            f = lambda u: p(u, ch, dp)
            first = linear_clauses(f, H, W, inp, tag='first_call:')          # the very first column evaluation generates the kernel
            res += [r for r in first if not r[1]] or first[:1]
            gen = bool(p.generated_kernels[dp, ch])
            res.append(('kernel_cached_after_first_call', gen, True, gen))
            res += linear_clauses(f, H, W, inp, tag='cached_call:')
            # a fresh object asked once with a field that requires grad: the cache must not keep the graph
            p2 = make_propagator(inp)
            at = torch.tensor(np.array(inp['amp']).reshape(H, W), dtype=torch.float32, requires_grad=True)
            pt = torch.tensor(np.array(inp['phase']).reshape(H, W), dtype=torch.float32, requires_grad=True)
            o1 = p2(mods()['lw'].generate_complex_field(at, pt), ch, dp)
            det = (not p2.kernels.requires_grad) and p2.kernels.grad_fn is None
            res.append(('cache_holds_detached_kernels', det, 'requires_grad False, no grad_fn', {'requires_grad': bool(p2.kernels.requires_grad)}))
            g1 = torch.autograd.grad((o1.abs() ** 2).sum(), pt, retain_graph=False)[0]
            o2 = p2(mods()['lw'].generate_complex_field(at, pt), ch, dp)
            g2 = torch.autograd.grad((o2.abs() ** 2).sum(), pt)[0]
            err = rel_err(g1.numpy(), g2.numpy())
            res.append(('cached_call_gradient_equals_first_call_gradient', err <= 1e-5, '<= 1e-5', err))
    except Exception as ex:
        res.append(('no_exception', False, 'gradients', repr(ex)))
    return res


def oracle_structure(inp):
    """no `torch.tensor(<expression of a differentiable tensor parameter>)` (a fresh leaf: always cuts the graph).  The other
    candidates (.detach/.item/.numpy/.tolist) are only listed in the evidence: whether they sit on a gradient path is decided
    dynamically by the clauses gradient_path_exists / *_equals_proven_derivative."""
    hits = tainted_breakers(only=inp.get('function'))
    key = inp.get('function')
    bad = hits.get(key, []) if key else [h for v in hits.values() for h in v]
    return [('no_autograd_break_on_parameter_path', not bad, 'none', bad)]


DIFF_PARAMS = {'field', 'phase', 'amplitude', 'input_field', 'ray', 'vector', 'normvector', 'normal', 'input_ray', 'triangle', 'points',
               'x0y0z0', 'x1y1z1', 'origin', 'center', 'tilt', 'xyz', 'abg', 'image', 'frame', 'predictions', 'rays', 'hologram_phases', 'point', 'angles'}


def tainted_breakers(only=None):
    import ast
    res = {}
    for rel in R.ANCHOR_FILES:
        path = os.path.join(shim.REPO, rel)
        if not os.path.exists(path): continue
        src = open(path).read()
        tree = ast.parse(src)
        funcs = []
        for n in tree.body:
            if isinstance(n, ast.FunctionDef): funcs.append((n.name, n))
            if isinstance(n, ast.ClassDef): funcs += [(n.name + '.' + m.name, m) for m in n.body if isinstance(m, ast.FunctionDef)]
        for name, fn in funcs:
            key = '%s:%s' % (rel, name)
            if only is not None and key != only: continue
            taint = {a.arg for a in fn.args.args} & DIFF_PARAMS

            def names_of(node):
                skip = set()
                for x in ast.walk(node):
                    if isinstance(x, ast.Attribute) and x.attr in ('shape', 'device', 'dtype'):
                        skip |= {id(y) for y in ast.walk(x.value)}
                    if isinstance(x, ast.Call) and isinstance(x.func, ast.Name) and x.func.id == 'len':
                        skip |= {id(y) for a in x.args for y in ast.walk(a)}
                return {x.id for x in ast.walk(node) if isinstance(x, ast.Name) and id(x) not in skip}
            for _ in range(4):
                for st in ast.walk(fn):
                    if isinstance(st, ast.Assign) and names_of(st.value) & taint:
                        for t in st.targets:
                            taint |= {x.id for x in ast.walk(t) if isinstance(x, ast.Name) and isinstance(x.ctx, ast.Store)}
            hits = []
            for c in ast.walk(fn):
                if not isinstance(c, ast.Call): continue
                f = c.func
                if isinstance(f, ast.Attribute) and f.attr == 'tensor' and isinstance(f.value, ast.Name) and f.value.id == 'torch' and c.args and names_of(c.args[0]) & taint:
                    hits.append([c.lineno, 'torch.tensor(<%s>)' % ','.join(sorted(names_of(c.args[0]) & taint)), ' '.join(ast.get_source_segment(src, c).split())[:100]])
            if hits: res[key] = sorted(hits)
    return res


def directional_difference(e, point, g, rng, ndir=3, ncoord=10):
    """central differences along a few random sign vectors and a few single coordinates vs the autograd gradient:
    list of (autograd directional derivative, finite difference, noise allowance)"""
    rel = 1e-6 if e.dtype == 'f64' else 1e-3
    eps = 2.3e-16 if e.dtype == 'f64' else 1.2e-7
    base = np.array(e.env_of(point))
    dirs = [np.array([rng.choice([-1.0, 1.0]) for _ in range(e.nvars)]) for _ in range(ndir)]
    for i in rng.sample(range(e.nvars), min(ncoord, e.nvars)):
        v = np.zeros(e.nvars); v[i] = 1.0; dirs.append(v)
    out = []
    for v in dirs:
        h = rel * max(0.05, float(np.abs(base[v != 0]).max()))
        vals = []
        for sgn in (1, -1):
            x = base + sgn * h * v
            p2, off = {}, 0
            for pn, shp in e.params:
                sz = int(np.prod(shp)); p2[pn] = x[off:off + sz].reshape(shp); off += sz
            p2 = round_point(e, p2)
            vals.append((real_objective(e, p2, need_grad=False)[0], np.array(e.env_of(p2))))
        step = vals[0][1] - vals[1][1]                       # the step actually taken after rounding to the working precision
        nv = float(np.abs(v).sum())
        fd = vals[0][0] - vals[1][0]
        # a kink inside the stencil (clamp, knee of a transfer curve, max/min): the two one-sided differences disagree with each other.  The
        # property is stated away from non-smooth points, and a wrong gradient does not make the one-sided differences disagree, so such a
        # direction says nothing about the gradient and is left out
        try:
            f0 = real_objective(e, round_point(e, point), need_grad=False)[0]
            fwd, bwd = vals[0][0] - f0, f0 - vals[1][0]
            noise0 = 100 * eps * (max(abs(vals[0][0]), abs(vals[1][0])) + 1.0)
            if abs(fwd - bwd) > 0.3 * max(abs(fwd), abs(bwd)) + noise0:
                continue
        except Exception:
            pass
        # rounding noise of the two function values; it grows with the number of inputs perturbed at once (a +-1 direction over all of them)
        out.append((float(g @ step), fd, 100 * eps * (max(abs(vals[0][0]), abs(vals[1][0])) + 1.0) * (1.0 + 0.25 * nv ** 0.5), float(np.abs(g).max() * np.abs(step).max() * (nv ** 0.5))))
    return out


def oracle_sweep(inp):
    """the property itself on one public entry point (no model): a gradient exists w.r.t. every tensor parameter, is finite and
    matches central finite differences.  Replayable: the recipe is rebuilt from (key, variant, seed)."""
    import random as _random
    try:
        e = S.build(inp['key'], inp['variant'], inp['seed'])
        point = round_point(e, e.point)
        val, g, used = real_objective(e, point)
    except Exception as ex:
        return [('no_exception', False, 'a gradient', repr(ex)[:400])]
    res = [('gradient_path_exists', all(used), 'autograd reaches every tensor parameter', {pn: bool(u) for (pn, _), u in zip(e.params, used)})]
    fin = bool(np.all(np.isfinite(g))) and math.isfinite(val)
    res.append(('gradient_finite', fin, 'no NaN/Inf', 'finite' if fin else {'value': str(val), 'non_finite_entries': int((~np.isfinite(g)).sum()), 'of': int(g.size)}))
    if fin and all(used) and e.fd:
        tol = FD_TOL[e.dtype] * e.fd_slack
        worst = None
        for dd, fd, noise, scale in directional_difference(e, point, g, _random.Random(inp['seed'] + 1)):
            allowed = tol * max(abs(dd), abs(fd), 0.02 * scale) + noise
            if worst is None or abs(dd - fd) - allowed > worst[0]: worst = (abs(dd - fd) - allowed, dd, fd, allowed)
        if worst is None: worst = (0.0, 0.0, 0.0, 0.0)          # every sampled direction crossed a kink: nothing to compare at this point
        res.append(('gradient_equals_central_difference', worst[0] <= 0, 'directional derivatives within rel %g + float noise' % tol,
                    {'autograd_directional': worst[1], 'central_difference': worst[2], 'allowed': worst[3]}))
    return res


def oracle_sequence(inp):
    """several objectives on ONE stateful object, each with its own plain backward (no retain_graph): every one must
    back-propagate without exception, give a finite gradient and the gradient a fresh object gives for it alone"""
    try:
        q = S.build_sequence(inp['recipe'], inp['seed'])
        obj, leaves = q.fresh()
    except Exception as ex:
        return [('no_exception', False, 'an object', repr(ex)[:300])]
    res = []
    for k, (label, fn, compare) in enumerate(q.objectives):
        tag = 'objective %d (%s)' % (k + 1, label)
        try:
            o2, l2 = q.fresh()
            ref = torch.autograd.grad(fn(o2, l2), l2, allow_unused=True)
        except Exception as ex:
            res.append(('fresh_object_differentiable', False, 'a gradient on a fresh object', {'at': tag, 'error': repr(ex)[:300]})); continue
        try:
            val = fn(obj, leaves)
            g = torch.autograd.grad(val, leaves, allow_unused=True)            # plain backward: the graph is freed
        except Exception as ex:
            res.append(('sequence_no_exception', False, 'objective after objective differentiable on one object', {'at': tag, 'error': repr(ex)[:300]})); continue
        for j, (a, b, cmp_) in enumerate(zip(g, ref, compare)):
            if not cmp_: continue
            if a is None or b is None:
                res.append(('sequence_gradient_path_exists', False, 'a gradient reaches this parameter, on the fresh object and in the sequence', {'at': tag, 'leaf': j, 'fresh': b is not None, 'sequence': a is not None})); continue
            a, b = a.detach().numpy().astype(float), b.detach().numpy().astype(float)
            fin = bool(np.all(np.isfinite(a)))
            if not fin:
                res.append(('sequence_gradient_finite', False, 'finite', {'at': tag, 'leaf': j})); continue
            err = rel_err(a, b)
            res.append(('sequence_gradient_equals_fresh_object', err <= 1e-4, '<= 1e-4', {'at': tag, 'leaf': j, 'rel_err': err}))
    # report one line per clause (the first failure of each, else the pass)
    out = {}
    for r in res:
        if r[0] not in out or (out[r[0]][1] and not r[1]): out[r[0]] = r
    return list(out.values())


ORACLES = {'grad': oracle_grad, 'sweep': oracle_sweep, 'sequence': oracle_sequence, 'fft': oracle_fft, 'propagator': oracle_propagator, 'structure': oracle_structure}
FN = {'wave': 'odak.learn.wave', 'ray': 'odak.learn.raytracing', 'refract': 'odak.learn.raytracing.refract', 'mesh': 'odak.learn.raytracing.planar_mesh.mirror',
      'luminous': 'odak.learn.raytracing', 'colour': 'odak.learn.perception', 'loss': 'odak.learn'}


def fn_of(name, inp):
    if name == 'grad':
        base = inp['entry']
        for suf in ('_plane_all', '_plane_1', '_mean', '_sum', '_3d', '_complex'):
            if base.endswith(suf): base = base[:-len(suf)]
        if inp['group'] == 'refract': return 'odak.learn.raytracing.refract'
        if inp['group'] == 'mesh': return FN['mesh']
        return '%s.%s' % (FN[inp['group']], base)
    if name == 'sequence': return 'odak.learn:' + inp['recipe']
    if name == 'sweep': return inp['key'].replace('odak/', 'odak.').replace('/', '.').replace('.py:', '.')
    if name == 'fft': return 'odak.learn.wave.propagate_beam'
    if name == 'propagator': return 'odak.learn.wave.propagator.__call__'
    return inp.get('function', 'odak.learn')


def apply_oracle(ctx, name, inp, **kw):
    try:
        res = ORACLES[name](inp, **kw)
    except Exception as e:
        res = [('no_exception', False, 'a result', repr(e))]
    bad = 0
    for clause, ok, exp, obs in res:
        if not ok:
            bad += 1
            ctx.violation(fn_of(name, inp), clause.split(':')[-1] if name != 'grad' else clause, dict(inp, oracle=name), exp, obs)
    return bad, res


# ================================================================================ generators for the FFT group
def fft_cases(ctx, count):
    rng = ctx.rng
    out = []
    shapes = [(5, 5), (5, 6), (6, 5), (6, 6)]
    zps = [(True, False, True), (False, False, False), (True, True, True), (True, False, False), (False, True, False)]
    i = 0
    while len(out) < count:
        m = FFT_METHODS[i % len(FFT_METHODS)]; zp = zps[(i // len(FFT_METHODS)) % len(zps)]; shp = shapes[(i // 3) % len(shapes)]
        i += 1
        H, W = shp
        lam = rng.uniform(0.4, 0.7); dx = lam * rng.uniform(0.75, 6.0); z = rng.choice([-1, 1]) * rng.uniform(1.0, 40.0)
        inp = {'method': m, 'shape': list(shp), 'zero_padding': list(zp), 'lam': lam, 'dx': dx, 'z': z,
               'amp': [rng.uniform(0.2, 1.5) for _ in range(H * W)], 'phase': [rng.uniform(-3.1, 3.1) for _ in range(H * W)],
               'direction_re': [rng.gauss(0, 1) for _ in range(H * W)], 'direction_im': [rng.gauss(0, 1) for _ in range(H * W)]}
        kh, kw = (2 * H, 2 * W) if zp[0] else (H, W)
        if m == 'custom': inp['kernel_phase'] = [[rng.uniform(-3, 3) for _ in range(kw)] for _ in range(kh)]
        if i % 4 == 0: inp['aperture'] = [[rng.uniform(0.2, 1.0) for _ in range(kw)] for _ in range(kh)]
        if i % 9 == 0: inp['amp'][0] = 0.0                                  # boundary: a dark pixel (|u| = 0 in the input is smooth for phase/amplitude parametrisation)
        out.append(inp)
    return out


def propagator_cases(ctx, count):
    rng = ctx.rng
    out = []
    for i in range(count):
        H, W = [(5, 6), (6, 5), (6, 6)][i % 3]
        lam = rng.uniform(0.4, 0.7)
        out.append({'method': ['Bandlimited Angular Spectrum', 'Angular Spectrum', 'Transfer Function Fresnel', 'Impulse Response Fresnel'][i % 4],
                    'ptype': ['back and forth', 'forward'][(i // 2) % 2], 'shape': [H, W], 'lam': lam, 'dx': lam * rng.uniform(1.0, 5.0), 'z': rng.uniform(2.0, 10.0),
                    'amp': [rng.uniform(0.2, 1.5) for _ in range(H * W)], 'phase': [rng.uniform(-3.1, 3.1) for _ in range(H * W)],
                    'direction_re': [rng.gauss(0, 1) for _ in range(H * W)], 'direction_im': [rng.gauss(0, 1) for _ in range(H * W)]})
    return out


# ================================================================================ run
def coq_reports(ctx, ents):
    text = PRE + '\n'.join(e.coq() for e in ents)
    res = ctx.coq_eval(text, [e.query() for e in ents], label='report', chunk=8, timeout=240)
    progs = {}
    bad = []
    for e, r in zip(ents, res):
        if r is None:
            bad.append(e.name); continue
        t = deep.parse(r)
        if t[1] != ('true',):
            bad.append(e.name + ':not-well-formed'); continue
        progs[e.name] = deep.Program(e.nvars, e.program(), t[2])
    ctx.obligation('coq:programs-well-formed-and-differentiated(%d traced entry points: wf = true, tangent expressions and side conditions computed by vm_compute)' % len(ents),
                   not bad and len(progs) == len(ents), 'failed: %s' % bad)
    return progs


def refract_pick(ents, progs, point):
    """the unrolled trace whose value reproduces the implementation at this point (= its iteration count)"""
    best = None
    for e in ents:
        if e.group != 'refract' or e.name not in progs: continue
        val = real_objective(e, point, need_grad=False)[0]
        v = progs[e.name].run(np.array([e.env_of(point)]))[0][0]
        err = abs(v - val) / max(1e-9, abs(val))
        if best is None or err < best[0] - 1e-9: best = (err, e)
    return best


def exact_crosscheck(ctx, ents, progs):
    """Coq evaluates the gradient of the rational entry points exactly (evalQ over `D` of the inlined objective);
    the numeric evaluator + forward-mode threading used everywhere else must agree"""
    names = ['total_variation_loss', 'propagate_ray', 'rgb_2_ycrcb', 'ycrcb_2_rgb', 'linear_rgb_to_xyz', 'multiplane_loss_plane_1', 'reflect']
    terms, meta = [], []
    for e in ents:
        if e.name not in names or e.name not in progs: continue
        tree = progs[e.name].inline()
        if deep.tree_size(tree) > 6000: continue
        for k in range(2):
            pt = [Fraction(ctx.rng.randint(-40, 40), ctx.rng.choice([7, 8, 9, 16])) + Fraction(1, 97) for _ in range(e.nvars)]
            terms.append('gradQ %d %s (envQ %s)' % (e.nvars, deep.coq_text(tree), '[' + '; '.join(deep.qtext(q) for q in pt) + ']'))
            meta.append((e, pt))
    if not terms:
        return ctx.obligation('correspondence:numeric-evaluator-vs-Coq-exact-rationals', False, 'no rational entry point available')
    res = ctx.coq_eval(PRE, terms, label='exactq', chunk=4, timeout=240)
    bad, n = 0, 0
    for (e, pt), r in zip(meta, res):
        if r is None: bad += 1; continue
        t = deep.parse(r)
        if any(x[0] != 'Some' for x in t[1:]): continue          # a division by zero at this rational point: not comparable
        exact = np.array([float(x[1]) for x in t[1:]])
        _, g, _, _ = progs[e.name].run(np.array([[float(q) for q in pt]]))
        n += len(exact)
        if rel_err(g[0], exact) > 1e-11:
            bad += 1; ctx.log('exact cross-check mismatch', e.name, g[0].tolist(), exact.tolist())
    ctx.traces += n
    ctx.sample({'exact_crosscheck': meta[0][0].name, 'point': [str(q) for q in meta[0][1]][:6], 'coq_exact_gradient': (res[0] or '')[:300]})
    return ctx.obligation('correspondence:numeric-evaluator-vs-Coq-exact-rationals(%d gradient components of %d entry points, rel 1e-11)' % (n, len({m[0].name for m in meta})), bad == 0 and n > 0, '%d mismatches' % bad)


def colour_tie(ctx, ents):
    """B1 tie file: all singularity side conditions of the traced colour conversions hold on the whole input range"""
    cents = [e for e in ents if e.group == 'colour']
    if len(cents) != len(R.COLOUR):
        return ctx.obligation('tie:C05_TieA', False, 'colour conversions not traced')
    gen = ('(* GENERATED on every run by the tracer from the current /repo sources. Do not edit. *)\n' + PRE
           + '\n'.join(e.coq() for e in cents))
    return ctx.compile_tie('GenC05', gen, [['C05_TieA']], timeout=400)


def run(ctx):
    ctx.level = 'partial'
    ctx.rule = ('per traced entry point: structured valid points (well-shaped triangles hit inside, unit directions, in-gamut colours, '
                'fields away from 0) re-drawn until every Coq-computed side condition has margin >= %g, plus a boundary stream '
                '(black / white / primaries / saturated and out-of-gamut colours / zero field / axes / coincident points / parallel rays / '
                'identical images); FFT group: all 8 propagation types x 5 zero-padding modes x grids 5x5..6x6, apertures, dark pixels; '
                'sweep: every recipe of harness/props/c05_sweep.py at 2 (quick) / 8 (thorough) random valid points; '
                'non-trivial = gradient compared with the proven derivative or with central differences; distinct by (entry, point)' % MARGIN)
    ctx.trusted += ['tracer/shim.py + tracer/recipes/c05.py + tracer/deep.py (translator to `expr` programs; validated each run by the numeric self-check against the real functions)',
                    'tracer/deep.py evalv/Program.run (numeric evaluation of Coq\'s tangent terms, forward-mode threading licensed by C05_ssa_correct; cross-checked each run against Coq\'s exact rational evaluation)',
                    'torch autograd engine and torch kernels: float rounding not modelled (tolerances 1e-3 float32 / 1e-7 float64)',
                    'FFT-based entry points are treated as linear maps (C03); their matrix columns are read off the implementation; fft2/ifft2 not modelled here',
                    'refract: the Newton step count is read off the implementation (value match); planar_mesh: the hit pattern is read off the implementation',
                    'unrolled tensors: entry points are traced at small fixed shapes (2x2 fields, 1 ray, 1 triangle, 3x1x2 images)']
    ctx.assumptions += ['UNPROVED model assumption behind "finite": reverse-mode autograd yields NaN/Inf only through a singular local derivative of an operation on the path '
                        '(also in the branch torch.where does not select); the theorems show the absence of such singular sub-expressions, the engine itself is only observed',
                        'documented non-smooth points are excluded: field = 0 for amplitude / phase, branch thresholds of the colour conversions, ties of max/min and hue sector borders, '
                        'coincident points, parallel rays, degenerate triangles, zero normals, total internal reflection, mesh edges, identical images for PSNR']
    ctx.gate()
    ctx.ensure_theories(['theories/C05/Props.vo'])
    ctx.theorems('OdakV.C05.Props', PROPS)
    T = mods()
    cfg = default_config(ctx.seed)
    # ---------------- structural pass
    hits = tainted_breakers()
    ctx.extra['autograd_breakers_listed'] = R.structural_scan()
    ctx.extra['autograd_breakers_on_parameter_paths'] = hits
    for key in sorted(hits):
        apply_oracle(ctx, 'structure', {'function': key})
    ctx.case('structure/ast-pass', ('ast', len(hits)))
    # ---------------- model-free sweep over every public entry point of the anchored files (fail closed)
    sweep(ctx, 8 if ctx.thorough else 2)
    # ---------------- B1: trace, Coq report
    ents, errs = build_entries(T, cfg)
    ctx.programs = len(ents)
    ctx.obligation('translator:trace(%d entry points, %d instructions)' % (len(ents), sum(len(e.program()) for e in ents) if not errs else 0), not errs and len(ents) >= 30, str(errs))
    progs = coq_reports(ctx, ents)
    colour_tie(ctx, ents)
    ctx.extra['side_conditions'] = {e.name: sorted({c[0] for cs in progs[e.name].conds for c in cs}) for e in ents if e.name in progs}
    ctx.extra['documented_nonsmooth_points'] = {e.name: e.nonsmooth for e in ents if e.nonsmooth}
    exact_crosscheck(ctx, ents, progs)
    # ---------------- B2 + direct oracles on valid points
    npts = 150 if ctx.thorough else 10
    selfbad, selfn, worst = 0, 0, {}
    refr = [e for e in ents if e.group == 'refract']
    todo = [e for e in ents if e.group != 'refract' and e.name in progs] + ([refr[0]] if refr else [])
    for e in todo:
        got, tries = 0, 0
        while got < npts and tries < npts * 30:
            tries += 1
            point = round_point(e, sample_point(e, ctx.rng, cfg))
            ee = e
            if e.group == 'refract':
                pick = refract_pick(ents, progs, point)
                if pick is None or pick[0] > 2e-5: continue
                ee = pick[1]
            prog = progs[ee.name]
            val, g, mm, lab = prog.run(np.array([ee.env_of(point)]))
            if not (mm[0] >= MARGIN) or not np.all(np.isfinite(g[0])):
                ctx.case('%s/%s/redrawn-near-nonsmooth' % (e.group, e.name), None, nontrivial=False); continue
            got += 1
            rv = real_objective(ee, point, need_grad=False)[0]
            selfn += 1
            if not abs(rv - val[0]) <= (2e-4 if ee.dtype == 'f32' else 1e-9) * max(1.0, abs(val[0])):
                selfbad += 1; ctx.log('self-check mismatch', ee.name, rv, val[0])
            inp = {'entry': ee.name, 'group': ee.group, 'config': cfg, 'point': jsonable(point), 'proven': g[0].tolist(), 'kind': 'valid', 'fd': got <= 3}
            bad, res = apply_oracle(ctx, 'grad', inp, entry=ee)
            for r in res:
                if r[0] == 'gradient_equals_proven_derivative' and isinstance(r[3], dict): worst[e.name] = max(worst.get(e.name, 0.0), r[3]['rel_err'])
            ctx.case('%s/%s/valid' % (e.group, e.name), (ee.name, str(inp['point'])))
            if len(ctx.samples) < 5 and got == 1 and e.name in ('srgb_to_lab', 'intersect_w_surface', 'reflect'):
                ctx.sample({'entry': ee.name, 'point': inp['point'], 'proven_gradient': g[0].tolist()[:6], 'tangent_of_last_instruction': deep.show(prog.tangents[-1], 4)[:300]})
        if got < npts:
            ctx.obligation('generator:valid-points(%s)' % e.name, False, 'only %d of %d points inside the domain after %d draws' % (got, npts, tries))
    ctx.traces += selfn
    ctx.obligation('translator-self-check(emitted programs = real functions on %d points of %d entry points)' % (selfn, len(todo)), selfbad == 0 and selfn > 0, '%d mismatches' % selfbad)
    ctx.extra['worst_rel_err_autograd_vs_proven'] = {k: float('%.3g' % v) for k, v in worst.items()}
    # ---------------- boundary stream
    for e in ents:
        if e.name not in progs or e.group == 'refract': continue
        for label, point, expect in boundary_points(e, ctx.rng, cfg):
            point = round_point(e, point)
            prog = progs[e.name]
            val, g, mm, lab = prog.run(np.array([e.env_of(point)]))
            inp = {'entry': e.name, 'group': e.group, 'config': cfg, 'point': jsonable(point), 'kind': 'boundary:' + label, 'fd_slack': 3.0}
            if expect == 'nonsmooth':
                try:
                    real_objective(e, point)
                    ctx.case('%s/%s/boundary-documented-nonsmooth' % (e.group, e.name), (e.name, label), nontrivial=False)
                except Exception as ex:
                    ctx.violation(fn_of('grad', inp), 'no_exception', dict(inp, oracle='grad'), 'a result (possibly NaN by design)', repr(ex))
                continue
            if expect == 'finite': inp['fd'] = False     # the value jumps here (branch cut) although the gradient formula is continuous
            if mm[0] > 1e-6 and np.all(np.isfinite(g[0])):
                inp['proven'] = g[0].tolist()            # inside the autograd-safe domain: the proven derivative applies
            apply_oracle(ctx, 'grad', inp, entry=e)
            ctx.case('%s/%s/boundary-%s' % (e.group, e.name, 'in-domain' if 'proven' in inp else 'outside-autograd-safe-domain'), (e.name, label))
    # ---------------- FFT-based entry points
    for inp in fft_cases(ctx, 480 if ctx.thorough else 40):
        bad, res = apply_oracle(ctx, 'fft', inp)
        ctx.case('fft/%s/zp=%s' % (inp['method'], ''.join('TF'[not b] for b in inp['zero_padding'])), ('fft', inp['method'], str(inp['zero_padding']), str(inp['shape']), inp['z']), nontrivial=len(res) >= 6)
    for inp in propagator_cases(ctx, 32 if ctx.thorough else 4):
        bad, res = apply_oracle(ctx, 'propagator', inp)
        ctx.case('propagator/%s/%s' % (inp['method'], inp['ptype']), ('prop', inp['method'], inp['ptype'], str(inp['shape'])))
    if len(ctx.samples) < 6:
        ctx.sample({'fft_case': {k: v for k, v in fft_cases(ctx, 1)[0].items() if k in ('method', 'shape', 'zero_padding', 'lam', 'dx', 'z')}})


def sweep(ctx, nseeds):
    eps, missing, stale = S.classify()
    ctx.obligation('sweep:every-public-entry-point-classified(%d public functions / methods of %d anchored files: %d with a call recipe, %d documented exclusions)'
                   % (len(eps), len(S.ANCHORS), len([k for k in eps if k in S.RECIPES]), len([k for k in eps if k in S.EXCLUDED])),
                   not missing, 'neither a recipe nor a documented exclusion in harness/props/c05_sweep.py: %s' % missing)
    ctx.extra['sweep_exclusions'] = {k: S.EXCLUDED[k] for k in eps if k in S.EXCLUDED}
    ctx.extra['sweep_stale_table_entries'] = stale
    for key in eps:
        for v in range(len(S.RECIPES.get(key, []))):
            for k in range(1 if key.endswith('intersect_w_sphere') else nseeds):
                inp = {'key': key, 'variant': v, 'seed': ctx.rng.randrange(10 ** 6)}
                bad, res = apply_oracle(ctx, 'sweep', inp)
                ctx.case('sweep/%s' % key.split(':')[1], (key, v, inp['seed']), nontrivial=len(res) >= 3)
    # call sequences on one stateful object
    cls = S.classes()
    unknown = [c for c in cls if c not in S.STATEFUL and c not in S.STATELESS]
    ctx.obligation('sweep:every-class-of-the-anchored-files-has-a-call-sequence-recipe(%d classes, %d sequence recipes)' % (len(cls), len(S.SEQUENCES)),
                   not unknown and all(r in S.SEQUENCES for rs in S.STATEFUL.values() for r in rs), 'unclassified classes: %s' % unknown)
    for name in sorted(S.SEQUENCES):
        for k in range(max(1, nseeds // 2)):
            inp = {'recipe': name, 'seed': ctx.rng.randrange(10 ** 6)}
            bad, res = apply_oracle(ctx, 'sequence', inp)
            ctx.case('sequence/%s' % name, (name, inp['seed']))


def search(ctx):
    """an obligation broke without a concrete failing input: hunt on the implementation (finite differences arbitrate)"""
    T = mods()
    cfg = default_config(ctx.seed)
    ents, errs = build_entries(T, cfg)
    sweep(ctx, 6)
    for key in sorted(tainted_breakers()):
        apply_oracle(ctx, 'structure', {'function': key})
    for e in ents:
        if e.group == 'refract' and e.name != 'refract_k1': continue
        for label, point, expect in boundary_points(e, ctx.rng, cfg):
            if expect == 'smooth':
                apply_oracle(ctx, 'grad', {'entry': e.name, 'group': e.group, 'config': cfg, 'point': jsonable(round_point(e, point)), 'kind': 'boundary:' + label, 'fd_slack': 3.0}, entry=e)
        for _ in range(30):
            point = round_point(e, sample_point(e, ctx.rng, cfg))
            apply_oracle(ctx, 'grad', {'entry': e.name, 'group': e.group, 'config': cfg, 'point': jsonable(point), 'kind': 'search'}, entry=e)
        if len(ctx.viol) > 3: return
    for inp in fft_cases(ctx, 80):
        apply_oracle(ctx, 'fft', inp)
        if len(ctx.viol) > 3: return


def replay(ctx, rec):
    if rec.get('no_failing_input_found'):
        print('replay names broken obligations only:', json.dumps(rec['broken_obligations'])[:3000]); return 1
    inp = dict(rec['input']); name = inp.pop('oracle')
    res = ORACLES[name](inp)
    for r in res:
        print(('FAIL ' if not r[1] else 'ok   ') + r[0], '' if r[1] else 'expected=%s observed=%s' % (r[2], str(r[3])[:600]))
    return 1 if [r for r in res if not r[1]] else 0
