"""C20 test-corpus oracle (runs in a subprocess): one of odak's own test files is executed with every
odak function and method wrapped by a snapshot check — arguments (not `self`) and the function's own
default-argument objects are deep-snapshotted before the call and compared bit for bit afterwards.

usage: c20_corpus.py <repo> <test file relative to repo> [max snapshots per function] [cpu seconds]
prints one line `@@C20 {json}`.
"""
import functools, importlib, importlib.util, inspect, io, json, os, sys, time, contextlib


def main():
    repo, test = sys.argv[1], sys.argv[2]
    limit = int(sys.argv[3]) if len(sys.argv) > 3 else 6
    cpu = int(sys.argv[4]) if len(sys.argv) > 4 else 0
    if cpu:
        # a CPU-time budget (independent of the load of the machine); on SIGXCPU the partial result is still reported
        import resource, signal

        def on_xcpu(signum, frame):
            raise TimeoutError('cpu-limit %ds' % cpu)
        signal.signal(signal.SIGXCPU, on_xcpu)
        resource.setrlimit(resource.RLIMIT_CPU, (cpu, cpu + 20))
    sys.path.insert(0, repo)
    sys.path.insert(0, os.path.dirname(os.path.dirname(os.path.dirname(os.path.abspath(__file__)))))
    os.chdir(repo)
    os.environ.setdefault('MPLBACKEND', 'Agg')
    from harness.props import c20_snapshot as S
    funcs = S.all_defaults()                       # imports odak and its sub-packages
    counts, viol, calls = {}, [], [0]
    active = [0]

    def wrap(q, f, is_method):
        @functools.wraps(f)
        def w(*args, **kwargs):
            n = counts.get(q, 0)
            if n >= limit or active[0] > 6:
                return f(*args, **kwargs)
            counts[q] = n + 1
            calls[0] += 1
            watched = (args[1:] if is_method else args, kwargs)
            try:
                b = S.snap(watched)
                bd = S.snap((f.__defaults__, f.__kwdefaults__))
            except Exception:
                return f(*args, **kwargs)
            active[0] += 1
            try:
                return f(*args, **kwargs)
            finally:
                active[0] -= 1
                try:
                    d = S.diff(b, S.snap(watched))
                    if d:
                        viol.append({'function': q, 'clause': 'arguments_unchanged', 'diff': d, 'call': n})
                    d = S.diff(bd, S.snap((f.__defaults__, f.__kwdefaults__)))
                    if d:
                        viol.append({'function': q, 'clause': 'defaults_unchanged', 'diff': d, 'call': n})
                except Exception:
                    pass
        w.__c20_wrapped__ = True
        return w

    wrappers = {}
    for q, f in funcs.items():
        if getattr(f, '__c20_wrapped__', False):
            continue
        is_method = '.' in f.__qualname__ and '<locals>' not in f.__qualname__
        if '.' not in f.__qualname__ and f.__name__.startswith('_') and not f.__name__.startswith('__'):
            continue                                   # private module-level helper: not an entry point of the library
        if f.__name__ in ('__repr__', '__str__', '__len__', '__getitem__', '__iter__', '__next__', '__getattr__', '__setattr__'):
            continue
        wrappers[id(f)] = (f, wrap(q, f, is_method))
    for mn, mod in list(sys.modules.items()):
        if not (mn == 'odak' or mn.startswith('odak.')) or mod is None:
            continue
        for name, obj in list(vars(mod).items()):
            if inspect.isfunction(obj) and id(obj) in wrappers:
                setattr(mod, name, wrappers[id(obj)][1])
            elif inspect.isclass(obj) and (obj.__module__ or '').startswith('odak'):
                for mname, meth in list(vars(obj).items()):
                    if inspect.isfunction(meth) and id(meth) in wrappers:
                        try:
                            setattr(obj, mname, wrappers[id(meth)][1])
                        except Exception:
                            pass
    err = None
    t0 = time.time()
    sink = io.StringIO()
    try:
        spec = importlib.util.spec_from_file_location('c20_corpus_test', os.path.join(repo, test))
        mod = importlib.util.module_from_spec(spec)
        with contextlib.redirect_stdout(sink), contextlib.redirect_stderr(sink):
            spec.loader.exec_module(mod)
            for tn in [n for n in vars(mod) if n == 'test' or n.startswith('test_')]:
                if callable(getattr(mod, tn)) and getattr(getattr(mod, tn), '__module__', '') == 'c20_corpus_test':
                    getattr(mod, tn)()
    except SystemExit as e:
        err = 'SystemExit(%r)' % (e.code,)
    except BaseException as e:                            # the test's own failures are not C20's business
        err = repr(e)[:300]
    out = {'test': test, 'cpu_limit_hit': bool(err and 'cpu-limit' in err), 'snapshots': calls[0], 'functions': sorted(counts), 'violations': viol[:200], 'error': err, 'seconds': round(time.time() - t0, 2)}
    sys.__stdout__.write('@@C20 ' + json.dumps(out) + '\n')
    sys.__stdout__.flush()
    os._exit(0)


if __name__ == '__main__':
    main()
