"""Regenerates /verif/MANIFEST.json from the table below (run: /venv/bin/python harness/manifest.py)."""
import json, os
VERIF = os.path.dirname(os.path.dirname(os.path.abspath(__file__)))

# every claimed property has harness/props/cXX.meta.json: {technique, level_text, level_note, design_ref}
CLAIMED = {}
for f in sorted(os.listdir(os.path.join(VERIF, 'harness', 'props'))):
    if f.endswith('.meta.json'):
        d = json.load(open(os.path.join(VERIF, 'harness', 'props', f)))
        CLAIMED[f[:3].upper()] = (d['technique'], d['level_text'], d['level_note'], d.get('design_ref', 'DESIGN.md 4'))
# only properties integrated (fixes cherry-picked, check green on /repo) are claimed: harness/claimed.json
INTEGRATED = set(json.load(open(os.path.join(VERIF, 'harness', 'claimed.json'))))
CLAIMED = {k: v for k, v in CLAIMED.items() if k in INTEGRATED}
PENDING = {}
if os.path.exists(os.path.join(VERIF, 'harness', 'not_claimed.json')):
    PENDING = json.load(open(os.path.join(VERIF, 'harness', 'not_claimed.json')))


def main():
    props = [json.loads(l) for l in open(os.path.join(VERIF, 'properties.jsonl'))]
    checks, na = [], []
    for p in props:
        i = p['id']
        if i in CLAIMED:
            tech, text, note, ref = CLAIMED[i]
            checks.append({
                'property_id': i,
                'quick_cmd': './check %s --tier quick' % i,
                'thorough_cmd': './check %s --tier thorough' % i,
                'evidence_file': '/verif/evidence/%s.json' % i,
                'replay_cmd_template': './check %s --replay {path}' % i,
                'engine': 'coq-harness',
                'level_claimed': {'category': 'proof', 'text': text, 'design_ref': ref},
                'level_note': note,
                'technique': tech,
            })
        else:
            na.append({'property_id': i, 'reason': PENDING.get(i, 'check not built yet in this session (work in progress; see DESIGN.md section 4 for the plan)')})
    m = {
        'version': 1,
        'setup_cmd': 'mkdir -p /verif/build && cd /verif/coq && ./mkproject.sh && (timeout 3000 make -k -j16 > /verif/build/setup.log 2>&1; tail -3 /verif/build/setup.log; true)',
        'hooks': {'guard': 'ODAK_VERIF', 'enable': 'no hooks are needed: every observation point is public API; ./check sets ODAK_VERIF=1 for uniformity only',
                  'baseline_off_cmd': 'cd /repo && /venv/bin/python -m pytest -ra -q -p no:cacheprovider --timeout=900 --continue-on-collection-errors',
                  'source_commits': [], 'add_only': True},
        'engines': [{'name': 'coq-harness', 'path': '/verif/check', 'serves_properties': sorted(CLAIMED),
                     'kind_free_text': 'Coq 8.16 theories (coq/theories) + Python harness that regenerates translator output / correspondence case files from /repo on every run and compiles them with coqc'}],
        'checks': checks,
        'not_applicable': na,
        'notes': 'Known findings: /verif/known_findings.json. Seeded changes: /verif/seeded/. Design: /verif/DESIGN.md.',
    }
    json.dump(m, open(os.path.join(VERIF, 'MANIFEST.json'), 'w'), indent=1)
    print('claimed', len(checks), 'not claimed', len(na))


if __name__ == '__main__':
    main()
