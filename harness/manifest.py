"""Regenerates /verif/MANIFEST.json from the table below (run: /venv/bin/python harness/manifest.py)."""
import json, os
VERIF = os.path.dirname(os.path.dirname(os.path.abspath(__file__)))

# id -> (technique, level text, level note, design ref)   for every claimed property
CLAIMED = {
 'C08': ('Coq proof (lia over Z offsets, all shapes/sizes/layouts) + in-Coq model execution vs implementation, exhaustive over small shapes',
         'Theorems in coq/theories/C08/Props.v prove crop(pad x)=x, size, zeros-only, centre mapping, NumPy=PyTorch placement and layout lemmas for every h,w>=1 and size>=shape. The model is tied to /repo on every run by evaluating its executable definitions inside Coq (vm_compute) on the same shapes/sizes/layouts the implementation is run on (exhaustive up to 22x22 quick / 40x40 thorough, placement read exactly from arrays of distinct integers), plus direct oracles on the implementation that yield the replay.',
         'Trusted: Coq kernel + vm_compute; the hand-written model of the index arithmetic and rank/layout dispatch (validated by the correspondence); numpy/torch slicing and np.pad observed, not modelled; dtype handling observed on real and complex inputs only.',
         'DESIGN.md 4/C08'),
 'C10': ('Coq proof over R (field/ring/nra on 3-vectors) + translation validation: odak functions traced symbolically from /repo and proved equal to the reference model on every run',
         'coq/theories/C10/Props.v proves normal perpendicular/unit/non-zero, hit on ray at the reported distance and on the plane, scale invariance, exact barycentric flag, same-side equivalence, parallel = no solution, for all real triangles of non-zero area. Tie (every run): tracer/ executes the current source of get_triangle_normal, intersect_w_surface(_batch), is_it_on_triangle(_batch) (both APIs) symbolically, emits Coq definitions, and coq/tie/C10_Tie*.v proves them equal to the model for all reals and restates the property clauses on the traced definitions (traced_normal_sound, traced_torch_hit_sound, traced_flag_exact, batch = map of singles). The translator is validated numerically against the real functions each run; direct oracles on the implementation supply replayable failing inputs.',
         'Trusted: Coq kernel; Reals axioms (sig_forall_dec, sig_not_dec, functional_extensionality_dep); the tracer (shim + recipe), validated by the self-check; float rounding and torch/numpy kernels modelled as exact real arithmetic; masking/splitting glue of intersect_w_triangle(_batch) and the NumPy python-level is_it_on_triangle covered by oracles only. Open finding: NumPy returns |distance| (tie states n_dist = |t|).',
         'DESIGN.md 4/C10'),
}
PENDING = {}


def main():
    props = [json.loads(l) for l in open(os.path.join(VERIF, 'properties.jsonl'))]
    checks, na = [], []
    for p in props:
        i = p['id']
        if i in CLAIMED:
            tech, text, note, ref = CLAIMED[i]
            checks.append({
                'property_id': i,
                'quick_cmd': './check %s --tier quick' % i,
                'thorough_cmd': './check %s --tier thorough' % i,
                'evidence_file': '/verif/evidence/%s.json' % i,
                'replay_cmd_template': './check %s --replay {path}' % i,
                'engine': 'coq-harness',
                'level_claimed': {'category': 'proof', 'text': text, 'design_ref': ref},
                'level_note': note,
                'technique': tech,
            })
        else:
            na.append({'property_id': i, 'reason': PENDING.get(i, 'check not built yet in this session (work in progress; see DESIGN.md section 4 for the plan)')})
    m = {
        'version': 1,
        'setup_cmd': 'cd /verif/coq && coq_makefile -f _CoqProject -o Makefile && timeout 3000 make -j16',
        'hooks': {'guard': 'ODAK_VERIF', 'enable': 'no hooks are needed: every observation point is public API; ./check sets ODAK_VERIF=1 for uniformity only',
                  'baseline_off_cmd': 'cd /repo && /venv/bin/python -m pytest -ra -q -p no:cacheprovider --timeout=900 --continue-on-collection-errors',
                  'source_commits': [], 'add_only': True},
        'engines': [{'name': 'coq-harness', 'path': '/verif/check', 'serves_properties': sorted(CLAIMED),
                     'kind_free_text': 'Coq 8.16 theories (coq/theories) + Python harness that regenerates translator output / correspondence case files from /repo on every run and compiles them with coqc'}],
        'checks': checks,
        'not_applicable': na,
        'notes': 'Known findings: /verif/known_findings.json. Seeded changes: /verif/seeded/. Design: /verif/DESIGN.md.',
    }
    json.dump(m, open(os.path.join(VERIF, 'MANIFEST.json'), 'w'), indent=1)
    print('claimed', len(checks), 'not claimed', len(na))


if __name__ == '__main__':
    main()
