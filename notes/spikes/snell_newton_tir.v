From Coq Require Import Reals Lra Lia Nsatz Psatz.
Open Scope R_scope.
(* refract: out = mu d + t n ; t^2 + 2 a t + b = 0 ; a = mu (d.n)/nn ; b = (mu^2-1)/nn *)
Lemma refract_unit dx dy dz nx ny nz mu t :
  dx*dx+dy*dy+dz*dz = 1 -> nx*nx+ny*ny+nz*nz <> 0 ->
  let nn := nx*nx+ny*ny+nz*nz in
  let a := mu*(dx*nx+dy*ny+dz*nz)/nn in
  let b := (mu*mu-1)/nn in
  t*t + 2*a*t + b = 0 ->
  (mu*dx+t*nx)*(mu*dx+t*nx)+(mu*dy+t*ny)*(mu*dy+t*ny)+(mu*dz+t*nz)*(mu*dz+t*nz) = 1.
Proof.
  intros Hd Hn nn a b Hq. subst a b nn.
  assert (Hp: t*t*(nx*nx+ny*ny+nz*nz) + 2*mu*(dx*nx+dy*ny+dz*nz)*t + (mu*mu-1) =
    (t*t + 2*(mu*(dx*nx+dy*ny+dz*nz)/(nx*nx+ny*ny+nz*nz))*t + (mu*mu-1)/(nx*nx+ny*ny+nz*nz)) * (nx*nx+ny*ny+nz*nz)) by (field; exact Hn).
  rewrite Hq in Hp. clear Hq.
  nsatz.
Qed.
(* rotation orthonormal *)
Lemma rotx_orth c s : c*c+s*s=1 -> (c*c + (-s)*(-s) = 1) /\ (c*s + (-s)*c = 0).
Proof. intros; split; nsatz. Qed.
(* TIR: AM-GM bound *)
Lemma newton_tir y D : D > 0 -> y <> 0 -> Rabs (y - (y*y - D)/(2*y)) >= sqrt D.
Proof.
  intros HD Hy.
  replace (y - (y*y - D)/(2*y)) with ((y*y + D)/(2*y)) by (field; assumption).
  unfold Rdiv. rewrite Rabs_mult. rewrite Rabs_inv.
  assert (Hy2: 0 <= y*y) by (apply Rle_0_sqr).
  rewrite (Rabs_pos_eq (y*y+D)) by lra.
  rewrite Rabs_mult. rewrite (Rabs_pos_eq 2) by lra.
  assert (Hs: sqrt D * sqrt D = D) by (apply sqrt_sqrt; lra).
  assert (Hs0: 0 <= sqrt D) by apply sqrt_pos.
  assert (Ha: 0 < Rabs y) by (apply Rabs_pos_lt; assumption).
  assert (Hyy: y*y = Rabs y * Rabs y) by (rewrite <- Rabs_mult; rewrite Rabs_pos_eq; nra).
  apply Rle_ge. apply Rmult_le_reg_r with (2*Rabs y); [lra|].
  replace ((y*y+D) * /(2*Rabs y) * (2*Rabs y)) with (y*y+D) by (field; lra).
  pose proof (Rle_0_sqr (Rabs y - sqrt D)) as Hsq. unfold Rsqr in Hsq. nra.
Qed.
Print Assumptions newton_tir.
