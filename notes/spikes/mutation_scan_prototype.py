import ast, sys, os, glob
ALIAS_FUNCS={'asarray','as_tensor','from_numpy','asanyarray','ascontiguousarray'}
ALIAS_METH={'reshape','view','squeeze','unsqueeze','permute','transpose','to','detach','float','double','contiguous','swapaxes','ravel','T','real','imag','expand','flatten','numpy','cpu','cuda','type','view_as','narrow','unbind','split','chunk'}
MUT_METH={'append','extend','insert','pop','remove','sort','reverse','update','setdefault','clear','fill','fill_','resize_','copy_','zero_','add_','sub_','mul_','div_','clamp_','requires_grad_','put','itemset','popitem','squeeze_','unsqueeze_','normal_','uniform_','set_'}
def base_name(n):
    while isinstance(n,(ast.Subscript,ast.Attribute)): n=n.value
    if isinstance(n,ast.Call) and isinstance(n.func,ast.Attribute) and n.func.attr in ALIAS_METH: return base_name(n.func.value)
    if isinstance(n,ast.Call):
        f=n.func; nm=f.attr if isinstance(f,ast.Attribute) else getattr(f,'id',None)
        if nm in ALIAS_FUNCS and n.args: return base_name(n.args[0])
        return None
    return n.id if isinstance(n,ast.Name) else None
def is_alias_expr(n):
    return base_name(n)
res=[]
for path in glob.glob('/repo/odak/**/*.py',recursive=True):
    if '/visualize/' in path: continue
    tree=ast.parse(open(path).read())
    for fn in ast.walk(tree):
        if not isinstance(fn,ast.FunctionDef): continue
        params=[a.arg for a in fn.args.args+fn.args.kwonlyargs if a.arg!='self']
        taint=set(params); changed=True
        assigns=[n for n in ast.walk(fn) if isinstance(n,ast.Assign)]
        while changed:
            changed=False
            for a in assigns:
                b=is_alias_expr(a.value)
                if b in taint:
                    for t in a.targets:
                        for tt in (t.elts if isinstance(t,ast.Tuple) else [t]):
                            if isinstance(tt,ast.Name) and tt.id not in taint: taint.add(tt.id); changed=True
        flags=[]
        for n in ast.walk(fn):
            if isinstance(n,ast.AugAssign):
                b=base_name(n.target)
                if b in taint: flags.append((n.lineno,'aug',ast.unparse(n)[:70]))
            elif isinstance(n,ast.Assign):
                for t in n.targets:
                    if isinstance(t,(ast.Subscript,)) :
                        b=base_name(t)
                        if b in taint: flags.append((n.lineno,'setitem',ast.unparse(n)[:70]))
            elif isinstance(n,ast.Call) and isinstance(n.func,ast.Attribute) and n.func.attr in MUT_METH:
                b=base_name(n.func.value)
                if b in taint: flags.append((n.lineno,'meth',ast.unparse(n)[:70]))
        if flags: res.append((path.replace('/repo/odak/',''),fn.name,flags))
print(len(res),'functions flagged')
for p,f,fl in res:
    print(p,f)
    for x in fl[:4]: print('    ',x)
