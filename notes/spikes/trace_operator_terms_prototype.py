# operator-term tracing prototype: torch `custom`, numpy angular_spectrum / transfer_function_fresnel
import ast, numpy as np, math, sys
sys.path.insert(0,'/tmp/spike')
from trace import E, T, wrap, lift
class Op:
    __array_ufunc__ = None
    def __init__(s,op,*a): s.op=op; s.a=a
    def _lit(s,o):
        if isinstance(o,Op): return o
        if isinstance(o,np.ndarray): return Op('lit',id(o)) if o.ndim else Op('const',o.item())
        return Op('const',o)
    def __mul__(s,o): return Op('mul',s,s._lit(o))
    def __rmul__(s,o): return Op('mul',s._lit(o),s)
    def __truediv__(s,o): return Op('mul',s,Op('inv',s._lit(o)))
    @property
    def shape(s): return (3,2)
    @property
    def device(s): return 'cpu'
    def coq(s,names):
        if s.op=='var': return s.a[0]
        if s.op=='lit': return names.get(s.a[0],'LIT')
        if s.op=='const':
            v=s.a[0]; return '(fconst %s)'%(v.coq() if isinstance(v,E) else repr(v))
        return '(%s %s)'%(s.op,' '.join(x.coq(names) for x in s.a))
class FFT:
    fft2=staticmethod(lambda x: Op('F',x)); ifft2=staticmethod(lambda x: Op('Finv',x))
    fftshift=staticmethod(lambda x: Op('S',x) if isinstance(x,Op) else Op('S',Op('lit',id(x))))
    ifftshift=staticmethod(lambda x: Op('Sinv',x) if isinstance(x,Op) else Op('Sinv',Op('lit',id(x))))
class Shim: pass
def mk(fftattr=True):
    sh=Shim(); sh.fft=FFT; sh.pi=E('var','PI')
    sh.exp=lift('exp'); sh.sqrt=lift('sqrt'); sh.abs=lift('Rabs')
    sh.linspace=lambda a,b,n,**k: wrap([E('var','g%d'%i) for i in range(n)])
    def meshgrid(x,y,indexing='xy'):
        X,Y=np.meshgrid(np.asarray(x,dtype=object),np.asarray(y,dtype=object),indexing=indexing); return wrap(X),wrap(Y)
    sh.meshgrid=meshgrid
    sh.ones=lambda shape: Op('one')
    return sh
def load(path,name,ns):
    tree=ast.parse(open(path).read())
    fn=[n for n in tree.body if isinstance(n,ast.FunctionDef) and n.name==name][0]
    exec(compile(ast.Module([fn],[]),path,'exec'),ns); return ns[name]
# torch custom
torch=mk()
def zero_pad(x): return Op('pad',x)
f=load('/repo/odak/learn/wave/classical.py','custom',{'torch':torch,'zero_pad':zero_pad,'type':type})
u=Op('var','u'); K=Op('var','K'); A=Op('var','A')
print('custom       :',f(u,K,zero_padding=False,aperture=A).coq({}))
print('custom A=1.  :',f(u,K,zero_padding=False,aperture=1.).coq({}))
# numpy
npsh=mk()
for name in ['angular_spectrum','transfer_function_fresnel','band_limited_angular_spectrum']:
    try:
        g=load('/repo/odak/wave/classical.py',name,{'np':npsh,'float':lambda x:x})
        r=g(u,E('var','k'),E('var','z'),E('var','dx'),E('var','lam'))
        print(name,':',r.coq({}))
    except Exception as e: print(name,'EXC',repr(e)[:200])
