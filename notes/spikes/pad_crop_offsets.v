(* C08 spike: offsets of zero_pad / crop_center as the code computes them, over Z *)
From Coq Require Import ZArith Lia.
Open Scope Z_scope.
Ltac Zify.zify_post_hook ::= Z.to_euclidean_division_equations.
(* torch: pad to size s (default 2h): start = s/2 - h/2 ; crop default of an H-sided array: q = H/4, len = H/2 *)
Definition pad_start (s h : Z) := s / 2 - h / 2.
Definition crop_q_code (H : Z) := H / 4.            (* what the code does *)
Definition crop_q_fixed (H : Z) := H / 2 - (H / 2) / 2.  (* candidate repair *)
Definition crop_len (H : Z) := H / 2.
Lemma pad_fits s h : 0 <= h <= s -> 0 <= pad_start s h /\ pad_start s h + h <= s.
Proof. unfold pad_start. lia. Qed.
Lemma pad_centre h : 0 <= h -> pad_start (2*h) h + h / 2 = (2*h) / 2.
Proof. unfold pad_start. lia. Qed.
Lemma crop_len_ok h : 0 <= h -> crop_len (2*h) = h.
Proof. unfold crop_len. lia. Qed.
Lemma crop_pad_even h : 0 <= h -> h mod 2 = 0 -> crop_q_code (2*h) = pad_start (2*h) h.
Proof. unfold crop_q_code, pad_start. lia. Qed.
Lemma crop_pad_code_refuted : exists h, 5 <= h /\ crop_q_code (2*h) <> pad_start (2*h) h.
Proof. exists 5. vm_compute. split; [discriminate|discriminate]. Qed.
Lemma crop_pad_odd_off_by_one h : 0 <= h -> h mod 2 = 1 -> pad_start (2*h) h = crop_q_code (2*h) + 1.
Proof. unfold crop_q_code, pad_start. lia. Qed.
Lemma crop_pad_fixed h : 0 <= h -> crop_q_fixed (2*h) = pad_start (2*h) h.
Proof. unfold crop_q_fixed, pad_start. lia. Qed.
(* numpy: hx = int(ceil(h)/2) = h/2 ; total = h + 2*(h/2) *)
Lemma numpy_pad_total_refuted : exists h, 1 <= h /\ h + 2 * (h / 2) <> 2 * h.
Proof. exists 5. vm_compute. split; discriminate. Qed.
(* explicit size: numpy start = ceil((s-h)/2), torch start = s/2 - h/2 *)
Definition np_start (s h : Z) := (s - h + 1) / 2.
Lemma explicit_offsets_differ : exists s h, 0 < h <= s /\ np_start s h <> pad_start s h.
Proof. exists 11, 6. vm_compute. repeat split; discriminate. Qed.
(* C18: pyramid padding *)
Definition req (h d : Z) := ((h + d - 1) / d) * d.
Lemma req_multiple h d : 0 < d -> 0 <= h -> (req h d) mod d = 0 /\ h <= req h d < h + d.
Proof. unfold req. intros Hd Hh. split. apply Z.mod_mul; lia.
  pose proof (Z.div_mod (h + d - 1) d ltac:(lia)) as E. pose proof (Z.mod_pos_bound (h + d - 1) d Hd) as B.
  set (q := (h + d - 1) / d) in *. set (r := (h + d - 1) mod d) in *. clearbody q r. nia. Qed.
Lemma req_noop h d : 0 < d -> 0 <= h -> h mod d = 0 -> req h d = h.
Proof. unfold req. intros Hd Hh Hm.
  apply Z.div_exact in Hm; [|lia]. set (k := h / d) in *. clearbody k. subst h.
  replace (d * k + d - 1) with (k * d + (d - 1)) by ring. rewrite Z.div_add_l by lia. rewrite Z.div_small by lia. ring. Qed.
