From Coq Require Import Reals Lra.
From Interval Require Import Tactic.
Open Scope R_scope.
Goal Rabs (Rpower ((0.04045+0.055)/1.055) 2.4 - 0.04045/12.92) <= 1e-7.
Proof. interval with (i_prec 60). Qed.
Goal forall x, 0.040449 <= x <= 0.04045 -> Rabs (1.055 * Rpower (x/12.92) (1/2.4) - 0.055 - x) <= 1e-6.
Proof. intros. interval with (i_bisect x, i_prec 60). Qed.
