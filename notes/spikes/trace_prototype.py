import ast, inspect, types, numpy as np, math, textwrap
class E:
    def __init__(s,op,*a): s.op=op; s.a=a
    def _b(s,o,op,rev=False):
        o=o if isinstance(o,E) else E('const',o)
        return E(op,o,s) if rev else E(op,s,o)
    def __add__(s,o): return s._b(o,'+')
    def __radd__(s,o): return s._b(o,'+',True)
    def __sub__(s,o): return s._b(o,'-')
    def __rsub__(s,o): return s._b(o,'-',True)
    def __mul__(s,o): return s._b(o,'*')
    def __rmul__(s,o): return s._b(o,'*',True)
    def __truediv__(s,o): return s._b(o,'/')
    def __rtruediv__(s,o): return s._b(o,'/',True)
    def __neg__(s): return E('neg',s)
    def __pow__(s,o): return E('pow',s,o)
    def coq(s):
        if s.op=='var': return s.a[0]
        if s.op=='const':
            v=s.a[0]
            return '(%s)'%repr(v) if v<0 else repr(v)
        if s.op in '+-*/': return '(%s %s %s)'%(s.a[0].coq(),s.op,s.a[1].coq())
        if s.op=='neg': return '(- %s)'%s.a[0].coq()
        if s.op=='pow': return '(%s ^ %d)'%(s.a[0].coq(),s.a[1])
        return '(%s %s)'%(s.op,' '.join(x.coq() for x in s.a))
class T(np.ndarray):
    def unsqueeze(s,d): return np.expand_dims(s,d).view(T)
    def to(s,*a,**k): return s
    def size(s,d=None): return s.shape if d is None else s.shape[d]
    @property
    def device(s): return 'cpu'
def wrap(a): return np.asarray(a,dtype=object).view(T)
def lift(f):
    def g(x):
        if isinstance(x,np.ndarray): return np.vectorize(lambda e: E(f,e if isinstance(e,E) else E('const',e)),otypes=[object])(x).view(T)
        return E(f,x if isinstance(x,E) else E('const',x))
    return g
class Shim: pass
torch=Shim()
torch.cos=lift('cos'); torch.sin=lift('sin')
torch.deg2rad=lambda x: x*E('var','(PI/180)')
torch.ones=lambda n,**k: wrap([E('const',1)]*n)
torch.zeros=lambda *n,**k: wrap(np.full(n[0] if isinstance(n[0],tuple) else n,E('const',0),dtype=object))
torch.zeros_like=lambda x,**k: wrap(np.full(x.shape,E('const',0),dtype=object))
torch.stack=lambda xs,**k: wrap(np.stack([np.asarray(x,dtype=object) for x in xs]))
torch.mm=lambda a,b: wrap(np.dot(a,b))
torch.amax=lambda x: max(x.tolist())
torch.tensor=lambda x: wrap(x)
def load(path,name):
    src=open(path).read(); tree=ast.parse(src)
    fn=[n for n in tree.body if isinstance(n,ast.FunctionDef) and n.name==name][0]
    ns={'torch':torch,'math':math,'int':int}
    exec(compile(ast.Module([fn],[]),path,'exec'),ns); return ns
if __name__=='__main__':
  ns=load('/repo/odak/learn/tools/transformation.py','rotmatx')
  R=ns['rotmatx'](wrap([E('var','a')]))
  print(R.shape); print(R[1,2].coq())
  ns=load('/repo/odak/learn/raytracing/boundary.py','reflect')
  ray=wrap([[E('var','o%d'%i) for i in range(3)],[E('var','d%d'%i) for i in range(3)]])
  nrm=wrap([[E('var','p%d'%i) for i in range(3)],[E('var','n%d'%i) for i in range(3)]])
  out=ns['reflect'](ray,nrm)
  print(out.shape, out[0,1,0].coq())
