From Coq Require Import PrimFloat Uint63 ZArith List.
Import ListNotations.
Open Scope float_scope.
(* round a binary64 value to binary32 (normal range only), RNE, via Veltkamp-style: x + c - c with c = 2^(52-23)*... use scaling *)
(* method: split using multiplication by (2^29+1) *)
Definition to32 (x : float) : float :=
  let c := 536870913 in  (* 2^29 + 1 *)
  let p := x * c in
  let q := x - p in
  q + p.
(* save_image model, float32: v/cmax * (2^d-1), trunc *)
Definition step (cmax lev : float) (v : float) : float :=
  let a := to32 (v / cmax) in
  to32 (to32 (a * 1) * lev).
Definition trunc_ok (cmax lev : float) (n : nat) : bool :=
  let v := of_uint63 (Uint63.of_Z (Z.of_nat n)) in
  let r := step cmax lev v in
  (* truncation toward zero equals v iff v <= r < v+1 *)
  andb (PrimFloat.leb v r) (PrimFloat.ltb r (v + 1)).
Definition sweep (cmax lev : float) (n : nat) := forallb (trunc_ok cmax lev) (seq 0 n).
Time Eval vm_compute in sweep 255 255 256.
Time Eval vm_compute in sweep 65535 65535 65536.
Eval vm_compute in (to32 0.1, to32 (1/3)).
Eval vm_compute in step 255 255 77.
