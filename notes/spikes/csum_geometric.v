From Coq Require Import Reals Lra Lia Arith.
From Coquelicot Require Import Complex.
Open Scope R_scope. Open Scope C_scope.
Fixpoint Csum (n : nat) (f : nat -> C) : C :=
  match n with O => RtoC 0 | S k => Cplus (Csum k f) (f k) end.
Fixpoint Cpow (z : C) (n : nat) : C := match n with O => RtoC 1 | S k => Cmult z (Cpow z k) end.
Lemma Csum_ext n f g : (forall i, (i < n)%nat -> f i = g i) -> Csum n f = Csum n g.
Proof. induction n as [|n IH]; intros H; simpl; [reflexivity|]. rewrite IH, H; auto. Qed.
Lemma Csum_scal n c f : Csum n (fun i => c * f i) = c * Csum n f.
Proof. induction n as [|n IH]; simpl; [ring|rewrite IH; ring]. Qed.
Lemma Csum_plus n f g : Csum n (fun i => f i + g i) = Csum n f + Csum n g.
Proof. induction n as [|n IH]; simpl; [ring|rewrite IH; ring]. Qed.
Lemma Csum_switch n m (f : nat -> nat -> C) :
  Csum n (fun i => Csum m (fun j => f i j)) = Csum m (fun j => Csum n (fun i => f i j)).
Proof. induction n as [|n IH]; simpl.
  - induction m as [|m IHm]; simpl; [reflexivity|rewrite <- IHm; ring].
  - rewrite IH. rewrite <- Csum_plus. reflexivity. Qed.
Lemma geom (r:C) (n:nat) : (1 - r) * Csum n (fun j => Cpow r j) = 1 - Cpow r n.
Proof. induction n as [|n IH]; simpl; [ring|]. 
  replace ((1 - r) * (Csum n (fun j => Cpow r j) + Cpow r n)) with ((1-r) * Csum n (fun j => Cpow r j) + (1-r)*Cpow r n) by ring.
  rewrite IH. ring. Qed.
Lemma geom_zero (r:C) (n:nat) : r <> 1 -> Cpow r n = 1 -> Csum n (fun j => Cpow r j) = 0.
Proof. intros Hr Hn. pose proof (geom r n) as H. rewrite Hn in H.
  replace (1 - 1) with (RtoC 0) in H by ring.
  destruct (Ceq_dec (Csum n (fun j => Cpow r j)) 0) as [E|E]; [exact E|].
  exfalso. assert (H1 : 1 - r <> 0). { intro K. apply Hr. 
    replace r with (1 - (1 - r)) by ring. rewrite K. ring. }
  apply (Cmult_neq_0 _ _ H1 E). exact H. Qed.
Print Assumptions geom_zero.
