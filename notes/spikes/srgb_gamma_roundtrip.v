From Coq Require Import Reals Lra.
From Interval Require Import Tactic.
Open Scope R_scope.
(* sRGB transfer functions as in the code (decimal constants exact) *)
Definition to_lin (x : R) : R := if Rlt_dec 0.04045 x then Rpower ((x + 0.055) / 1.055) 2.4 else x / 12.92.
Definition to_srgb (y : R) : R := if Rlt_dec 0.0031308 y then 1.055 * Rpower y (1 / 2.4) - 0.055 else 12.92 * y.
Lemma pow_branch_rt x : 0.04045 < x -> 1.055 * Rpower (Rpower ((x + 0.055) / 1.055) 2.4) (1 / 2.4) - 0.055 = x.
Proof. intros Hx. rewrite Rpower_mult. replace (2.4 * (1 / 2.4)) with 1 by (field; lra). rewrite Rpower_1; [field; lra|].
  apply Rdiv_lt_0_compat; lra. Qed.
Lemma knee_val : 0.0031308 < Rpower ((0.04045 + 0.055) / 1.055) 2.4.
Proof. interval with (i_prec 100). Qed.
Lemma pow_above_knee x : 0.04045 < x -> 0.0031308 < Rpower ((x + 0.055) / 1.055) 2.4.
Proof. intros Hx. apply Rlt_trans with (Rpower ((0.04045 + 0.055) / 1.055) 2.4); [exact knee_val|].
  apply Rlt_Rpower_l; [lra|]. split; [apply Rdiv_lt_0_compat; lra|]. apply Rmult_lt_compat_r; lra. Qed.
Theorem gamma_rt x : 0 <= x <= 1 -> Rabs (to_srgb (to_lin x) - x) <= 1e-6.
Proof. intros Hx. unfold to_lin. destruct (Rlt_dec 0.04045 x) as [H|H].
  - unfold to_srgb. destruct (Rlt_dec 0.0031308 (Rpower ((x + 0.055) / 1.055) 2.4)) as [K|K].
    + rewrite (pow_branch_rt x H). replace (x - x) with 0 by ring. rewrite Rabs_R0. lra.
    + exfalso. apply K. apply pow_above_knee. exact H.
  - unfold to_srgb. destruct (Rlt_dec 0.0031308 (x / 12.92)) as [K|K].
    + assert (0.040449936 < x <= 0.04045) by lra. interval with (i_bisect x, i_prec 60).
    + replace (12.92 * (x / 12.92) - x) with 0 by (field; lra). rewrite Rabs_R0. lra. Qed.
Print Assumptions gamma_rt.
