From Coq Require Import Reals Lra Lia Arith.
From Coquelicot Require Import Complex.
Open Scope R_scope. Open Scope C_scope.
Fixpoint Cpow (z : C) (n : nat) : C := match n with O => RtoC 1 | S k => Cmult z (Cpow z k) end.
Definition Cexpi (t : R) : C := (cos t, sin t).
Lemma Cexpi_add a b : Cexpi (a + b) = Cexpi a * Cexpi b.
Proof. unfold Cexpi, Cmult; simpl. rewrite cos_plus, sin_plus. f_equal; ring. Qed.
Lemma Cexpi_0 : Cexpi 0 = 1.
Proof. unfold Cexpi. rewrite cos_0, sin_0. reflexivity. Qed.
Lemma Cexpi_pow t k : Cpow (Cexpi t) k = Cexpi (INR k * t).
Proof. induction k as [|k IH]; [simpl; rewrite Rmult_0_l, Cexpi_0; reflexivity|].
  cbn [Cpow]. rewrite IH, <- Cexpi_add. f_equal. rewrite S_INR. ring. Qed.
Lemma Cexpi_mod t : Cmod (Cexpi t) = 1%R.
Proof. unfold Cmod, Cexpi; simpl. replace (cos t * (cos t * 1) + sin t * (sin t * 1))%R with 1%R by (pose proof (sin2_cos2 t) as H; unfold Rsqr in H; lra). apply sqrt_1. Qed.
Lemma Cexpi_conj t : Cconj (Cexpi t) = Cexpi (- t).
Proof. unfold Cconj, Cexpi; simpl. rewrite cos_neg, sin_neg. reflexivity. Qed.
Section Root.
Variable n : nat. Hypothesis n_pos : (0 < n)%nat.
Definition th : R := (- (2 * PI / INR n))%R.
Definition w := Cexpi th. Definition wi := Cexpi (- th).
Lemma INRn : (0 < INR n)%R. Proof. apply lt_0_INR. exact n_pos. Qed.
Lemma w_n : Cpow w n = 1.
Proof. unfold w. rewrite Cexpi_pow. unfold th. replace (INR n * - (2 * PI / INR n))%R with (- (2 * PI))%R by (field; pose proof INRn; lra).
  unfold Cexpi. rewrite cos_neg, sin_neg, cos_2PI, sin_2PI. unfold RtoC. f_equal. ring. Qed.
Lemma w_wi : w * wi = 1.
Proof. unfold w, wi. rewrite <- Cexpi_add. replace (th + - th)%R with 0%R by ring. apply Cexpi_0. Qed.
Lemma w_conj : Cconj w = wi.
Proof. unfold w, wi. apply Cexpi_conj. Qed.
Lemma cos_lt_1 x : (0 < x < 2 * PI)%R -> (cos x < 1)%R.
Proof. intros Hx. replace x with (2 * (x / 2))%R by field. rewrite cos_2a_sin.
  assert (0 < sin (x / 2))%R by (apply sin_gt_0; lra). nra. Qed.
Lemma w_prim d : (0 < d < n)%nat -> Cpow w d <> 1.
Proof. intros Hd E. unfold w in E. rewrite Cexpi_pow in E. unfold Cexpi, RtoC in E. inversion E as [[Hc Hs]].
  unfold th in Hc. replace (INR d * - (2 * PI / INR n))%R with (- (INR d * (2 * PI / INR n)))%R in Hc by ring.
  rewrite cos_neg in Hc.
  assert (0 < INR d < INR n)%R by (split; [apply lt_0_INR; lia|apply lt_INR; lia]).
  assert (0 < INR d * (2 * PI / INR n) < 2 * PI)%R.
  { pose proof PI_RGT_0. split.
    - apply Rmult_lt_0_compat; [lra|]. apply Rdiv_lt_0_compat; lra.
    - replace (2 * PI)%R with (INR n * (2 * PI / INR n))%R at 2 by (field; lra).
      apply Rmult_lt_compat_r; [apply Rdiv_lt_0_compat; lra|lra]. }
  pose proof (cos_lt_1 _ H0). lra. Qed.
End Root.
Print Assumptions w_prim.
