From Coq Require Import Reals Lra Nsatz.
Open Scope R_scope.
(* 3x3 matrices as 9-tuples, row major *)
Definition M3 := (R*R*R*R*R*R*R*R*R)%type.
Definition mm (A B : M3) : M3 :=
  let '(a11,a12,a13,a21,a22,a23,a31,a32,a33) := A in
  let '(b11,b12,b13,b21,b22,b23,b31,b32,b33) := B in
  (a11*b11+a12*b21+a13*b31, a11*b12+a12*b22+a13*b32, a11*b13+a12*b23+a13*b33,
   a21*b11+a22*b21+a23*b31, a21*b12+a22*b22+a23*b32, a21*b13+a22*b23+a23*b33,
   a31*b11+a32*b21+a33*b31, a31*b12+a32*b22+a33*b32, a31*b13+a32*b23+a33*b33).
Definition tr (A : M3) : M3 := let '(a11,a12,a13,a21,a22,a23,a31,a32,a33) := A in (a11,a21,a31,a12,a22,a32,a13,a23,a33).
Definition I3 : M3 := (1,0,0,0,1,0,0,0,1).
Definition det (A : M3) : R := let '(a11,a12,a13,a21,a22,a23,a31,a32,a33) := A in
  a11*(a22*a33-a23*a32) - a12*(a21*a33-a23*a31) + a13*(a21*a32-a22*a31).
Definition rotx c s : M3 := (1,0,0, 0,c,-s, 0,s,c).
Definition roty c s : M3 := (c,0,s, 0,1,0, -s,0,c).
Definition rotz c s : M3 := (c,-s,0, s,c,0, 0,0,1).
Ltac m3eq := unfold mm, tr, I3, rotx, roty, rotz; repeat f_equal; nsatz.
Lemma rotx_orth c s : c*c+s*s=1 -> mm (tr (rotx c s)) (rotx c s) = I3.
Proof. intros H. m3eq. Qed.
Lemma xyz_orth cx sx cy sy cz sz : cx*cx+sx*sx=1 -> cy*cy+sy*sy=1 -> cz*cz+sz*sz=1 ->
  let Rm := mm (rotz cz sz) (mm (roty cy sy) (rotx cx sx)) in mm (tr Rm) Rm = I3 /\ det Rm = 1.
Proof. intros Hx Hy Hz Rm. subst Rm. split; [m3eq|unfold det, mm, rotx, roty, rotz; nsatz]. Qed.
(* inverse: XYZ then ZYX with negated angles (cos even, sin odd) *)
Lemma xyz_inverse cx sx cy sy cz sz : cx*cx+sx*sx=1 -> cy*cy+sy*sy=1 -> cz*cz+sz*sz=1 ->
  mm (mm (rotx cx (-sx)) (mm (roty cy (-sy)) (rotz cz (-sz)))) (mm (rotz cz sz) (mm (roty cy sy) (rotx cx sx))) = I3.
Proof. intros Hx Hy Hz. m3eq. Qed.
(* C12/C11: Newton on f(t)=t^2+2at+b: residual after a step equals the step squared *)
Lemma newton_residual a b t : t + a <> 0 ->
  let t' := t - (t*t+2*a*t+b)/(2*(t+a)) in t'*t' + 2*a*t' + b = (t'-t)*(t'-t).
Proof. intros H t'. subst t'. field. exact H. Qed.
(* Babylonian form: y' - s = (y-s)^2/(2y) *)
Lemma newton_contract y s : y <> 0 -> (y*y + s*s)/(2*y) - s = (y-s)*(y-s)/(2*y).
Proof. intros. field. assumption. Qed.
(* snell in cross-product form is linear *)
Lemma snell_cross mu t dx dy dz nx ny nz :
  let ox := mu*dx+t*nx in let oy := mu*dy+t*ny in let oz := mu*dz+t*nz in
  (oy*nz-oz*ny = mu*(dy*nz-dz*ny)) /\ (oz*nx-ox*nz = mu*(dz*nx-dx*nz)) /\ (ox*ny-oy*nx = mu*(dx*ny-dy*nx)).
Proof. intros. subst ox oy oz. repeat split; ring. Qed.
(* luminous cap *)
Lemma cap_ok ca U : -1 <= ca <= 1 -> 0 <= U <= 1 -> ca <= 1 - U*(1-ca).
Proof. intros. nra. Qed.
Lemma cap_c2_refuted : exists ca U, -1 <= ca <= 1 /\ 0 <= U <= 1 /\ 1 - 2*U*(1-ca) < ca.
Proof. exists (1/2), (3/4). lra. Qed.
