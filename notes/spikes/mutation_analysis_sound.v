From Coq Require Import List Arith Bool Lia.
Import ListNotations.
Definition var := nat. Definition loc := nat.
Inductive stmt :=
| SSkip | SFresh (x : var) | SAlias (x : var) (ys : list var) | SMut (x : var)
| SSeq (s1 s2 : stmt) | SIf (s1 s2 : stmt) | SLoop (s : stmt).
Record st := { env : var -> option loc; heap : loc -> nat; next : loc }.
Definition upd {A} (f : nat -> A) (k : nat) (v : A) := fun i => if Nat.eqb i k then v else f i.
Inductive exec : stmt -> st -> st -> Prop :=
| ESkip s : exec SSkip s s
| EFresh x s c : exec (SFresh x) s {| env := upd (env s) x (Some (next s)); heap := upd (heap s) (next s) c; next := S (next s) |}
| EAliasF x ys s c : exec (SAlias x ys) s {| env := upd (env s) x (Some (next s)); heap := upd (heap s) (next s) c; next := S (next s) |}
| EAliasA x ys s y l : In y ys -> env s y = Some l ->
    exec (SAlias x ys) s {| env := upd (env s) x (Some l); heap := heap s; next := next s |}
| EMut x s l c : env s x = Some l -> exec (SMut x) s {| env := env s; heap := upd (heap s) l c; next := next s |}
| EMutU x s : env s x = None -> exec (SMut x) s s
| ESeq a b s1 s2 s3 : exec a s1 s2 -> exec b s2 s3 -> exec (SSeq a b) s1 s3
| EIfL a b s1 s2 : exec a s1 s2 -> exec (SIf a b) s1 s2
| EIfR a b s1 s2 : exec b s1 s2 -> exec (SIf a b) s1 s2
| ELoop0 a s : exec (SLoop a) s s
| ELoopS a s1 s2 s3 : exec a s1 s2 -> exec (SLoop a) s2 s3 -> exec (SLoop a) s1 s3.
Definition mem (x : var) (t : list var) := existsb (Nat.eqb x) t.
Fixpoint ok (t : list var) (p : stmt) : bool :=
  match p with
  | SSkip | SFresh _ => true
  | SAlias x ys => orb (negb (existsb (fun y => mem y t) ys)) (mem x t)
  | SMut x => negb (mem x t)
  | SSeq a b | SIf a b => andb (ok t a) (ok t b)
  | SLoop a => ok t a
  end.
Lemma mem_In x t : mem x t = true <-> In x t.
Proof. unfold mem. rewrite existsb_exists. split.
  - intros [y [Hy E]]. apply Nat.eqb_eq in E. subst. exact Hy.
  - intros H. exists x. split; [exact H|apply Nat.eqb_refl]. Qed.
Section Sound.
Variable t : list var. Variable n0 : loc. Variable h0 : loc -> nat.
Definition Inv (s : st) : Prop :=
  n0 <= next s /\ (forall x l, env s x = Some l -> l < next s) /\
  (forall x l, env s x = Some l -> l < n0 -> In x t) /\
  (forall l, l < n0 -> heap s l = h0 l).
Lemma step_inv p s1 s2 : exec p s1 s2 -> ok t p = true -> Inv s1 -> Inv s2.
Proof.
  induction 1 as [s|x s c|x ys s c|x ys s y l Hy Hl|x s l c Hl|x s Hl|a b s1 s2 s3 H1 IH1 H2 IH2
                 |a b s1 s2 H1 IH1|a b s1 s2 H1 IH1|a s|a s1 s2 s3 H1 IH1 H2 IH2];
    cbn [ok]; intros Hok [Hn [Hb [Ht Hh]]]; try (apply andb_prop in Hok; destruct Hok as [Ha Hb']).
  - repeat split; assumption.
  - (* fresh *) unfold Inv; cbn. repeat split.
    + lia.
    + intros x' l'. unfold upd. destruct (Nat.eqb x' x); intros E; [inversion E; lia|apply Hb in E; lia].
    + intros x' l'. unfold upd. destruct (Nat.eqb x' x); intros E Hl'; [inversion E; lia|eapply Ht; eauto].
    + intros l Hl. unfold upd. destruct (Nat.eqb l (next s)) eqn:E; [apply Nat.eqb_eq in E; lia|auto].
  - unfold Inv; cbn. repeat split.
    + lia.
    + intros x' l'. unfold upd. destruct (Nat.eqb x' x); intros E; [inversion E; lia|apply Hb in E; lia].
    + intros x' l'. unfold upd. destruct (Nat.eqb x' x); intros E Hl'; [inversion E; lia|eapply Ht; eauto].
    + intros l Hl. unfold upd. destruct (Nat.eqb l (next s)) eqn:E; [apply Nat.eqb_eq in E; lia|auto].
  - (* alias *) unfold Inv; cbn. repeat split; try assumption.
    + intros x' l'. unfold upd. destruct (Nat.eqb x' x); intros E; [inversion E; subst; eauto|eauto].
    + intros x' l'. unfold upd. destruct (Nat.eqb x' x) eqn:Ex; intros E Hl'; [|eapply Ht; eauto].
      inversion E; subst l'. apply Nat.eqb_eq in Ex. subst x'.
      apply orb_prop in Hok. destruct Hok as [Hno|Hin]; [|apply mem_In; exact Hin].
      apply negb_true_iff in Hno. exfalso.
      assert (existsb (fun y0 => mem y0 t) ys = true).
      { apply existsb_exists. exists y. split; [exact Hy|]. apply mem_In. eapply Ht; eauto. }
      congruence.
  - (* mut *) unfold Inv; cbn. repeat split; try assumption.
    intros l' Hl'. unfold upd. destruct (Nat.eqb l' l) eqn:E; [|auto].
    apply Nat.eqb_eq in E. subst l'. exfalso. apply negb_true_iff in Hok.
    assert (mem x t = true) by (apply mem_In; eapply Ht; eauto). congruence.
  - repeat split; assumption.
  - apply IH2; [exact Hb'|]. apply IH1; [exact Ha|]. repeat split; assumption.
  - apply IH1; [exact Ha|repeat split; assumption].
  - apply IH1; [exact Hb'|repeat split; assumption].
  - repeat split; assumption.
  - apply IH2; [exact Hok|]. apply IH1; [exact Hok|repeat split; assumption].
Qed.
End Sound.
Theorem analysis_sound t p s1 s2 :
  ok t p = true -> exec p s1 s2 ->
  (forall x l, env s1 x = Some l -> l < next s1 /\ In x t) ->
  forall l, l < next s1 -> heap s2 l = heap s1 l.
Proof.
  intros Hok Hex Hparams l Hl.
  assert (I : Inv t (next s1) (heap s1) s2).
  { eapply step_inv; eauto. repeat split; auto.
    - intros x l' E. apply Hparams in E. tauto.
    - intros x l' E _. apply Hparams in E. tauto. }
  destruct I as [_ [_ [_ Hh]]]. auto.
Qed.
Print Assumptions analysis_sound.
