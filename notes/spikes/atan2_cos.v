From Coq Require Import Reals Lra Psatz.
Open Scope R_scope.
Definition atan2 (y x : R) : R :=
  if Rlt_dec 0 x then atan (y / x)
  else if Rlt_dec x 0 then (if Rle_dec 0 y then atan (y / x) + PI else atan (y / x) - PI)
  else if Rlt_dec 0 y then PI / 2 else if Rlt_dec y 0 then - (PI / 2) else 0.
Lemma hyp_pos x y : x <> 0 \/ y <> 0 -> 0 < x*x + y*y.
Proof. intros [H|H]; nra. Qed.
Lemma sqrt_ratio x y : x <> 0 -> sqrt (1 + (y/x)²) = sqrt (x*x+y*y) / Rabs x.
Proof. intros Hx. replace (1 + (y/x)²) with ((x*x+y*y) / (x*x)) by (unfold Rsqr; field; exact Hx).
  rewrite sqrt_div_alt by nra. f_equal. replace (x*x) with (Rsqr x) by reflexivity. apply sqrt_Rsqr_abs. Qed.
Lemma cos_atan2 y x : x <> 0 \/ y <> 0 -> cos (atan2 y x) = x / sqrt (x*x + y*y).
Proof. intros Hnz. pose proof (hyp_pos x y Hnz) as Hp. assert (Hs : 0 < sqrt (x*x+y*y)) by (apply sqrt_lt_R0; exact Hp).
  unfold atan2. destruct (Rlt_dec 0 x) as [Hx|Hx].
  - rewrite cos_atan, sqrt_ratio by lra. rewrite Rabs_pos_eq by lra. field. split; lra.
  - destruct (Rlt_dec x 0) as [Hx'|Hx'].
    + destruct (Rle_dec 0 y).
      * rewrite neg_cos, cos_atan, sqrt_ratio by lra. rewrite Rabs_left by lra. field. split; lra.
      * replace (atan (y/x) - PI) with (- (- atan (y/x) + PI)) by ring.
        rewrite cos_neg, neg_cos, cos_neg, cos_atan, sqrt_ratio by lra. rewrite Rabs_left by lra. field. split; lra.
    + assert (x = 0) by lra. subst x. unfold Rdiv. rewrite Rmult_0_l.
      destruct (Rlt_dec 0 y); [apply cos_PI2|]. destruct (Rlt_dec y 0); [rewrite cos_neg; apply cos_PI2|]. exfalso. destruct Hnz; lra.
Qed.
Print Assumptions cos_atan2.
