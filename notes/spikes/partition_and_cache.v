From Coq Require Import Reals Lra List Bool Lia Arith.
Import ListNotations.
Open Scope R_scope.
(* C16: masks from an arbitrary quantiser partition the pixels *)
Definition mask (rho : nat) (i : nat) : bool := Nat.eqb rho i.
Lemma masks_partition n rho : (rho < n)%nat -> exists! i, (i < n)%nat /\ mask rho i = true.
Proof. intros H. exists rho. split; [split; [exact H|apply Nat.eqb_refl]|].
  intros j [_ Hj]. apply Nat.eqb_eq in Hj. exact Hj. Qed.
Fixpoint count_true (l : list bool) : nat := match l with [] => 0 | b :: t => (if b then 1 else 0) + count_true t end.
Lemma count_masks n rho : (rho < n)%nat -> count_true (map (mask rho) (seq 0 n)) = 1%nat.
Proof. revert rho. induction n as [|n IH]; intros rho H; [lia|].
  rewrite seq_S, map_app. simpl.
  assert (A: forall l1 l2, count_true (l1 ++ l2) = (count_true l1 + count_true l2)%nat) by (induction l1; simpl; intros; [reflexivity|rewrite IHl1; lia]).
  rewrite A. simpl. unfold mask at 2. destruct (Nat.eqb rho n) eqn:E.
  - apply Nat.eqb_eq in E. subst rho.
    assert (Z: forall m k, (k >= m)%nat -> count_true (map (mask k) (seq 0 m)) = 0%nat).
    { induction m as [|m IHm]; intros k Hk; [reflexivity|]. rewrite seq_S, map_app, A. simpl. rewrite IHm by lia.
      unfold mask. destruct (Nat.eqb k m) eqn:E'; [apply Nat.eqb_eq in E'; lia|reflexivity]. }
    rewrite Z by lia. reflexivity.
  - apply Nat.eqb_neq in E. rewrite IH by lia. reflexivity. Qed.
(* slice_rgbd_targets: half-open intervals, last closed, over a sorted list of positions *)
Fixpoint slices (p0 : R) (ps : list R) (d : R) : list bool :=
  match ps with
  | [] => []
  | [p1] => [if Rle_dec p0 d then (if Rle_dec d p1 then true else false) else false]
  | p1 :: rest => (if Rle_dec p0 d then (if Rlt_dec d p1 then true else false) else false) :: slices p1 rest d
  end.
Fixpoint sorted (p0 : R) (ps : list R) : Prop := match ps with [] => True | p1 :: r => p0 <= p1 /\ sorted p1 r end.
Lemma slices_cons2 p0 p1 p2 r d : slices p0 (p1 :: p2 :: r) d = (if Rle_dec p0 d then (if Rlt_dec d p1 then true else false) else false) :: slices p1 (p2 :: r) d.
Proof. reflexivity. Qed.
Lemma slices_none p0 ps d : sorted p0 ps -> d < p0 -> count_true (slices p0 ps d) = 0%nat.
Proof. revert p0. induction ps as [|p1 r IH]; intros p0 Hs Hd; [reflexivity|].
  destruct Hs as [H01 Hs]. destruct r as [|p2 r'].
  - simpl. destruct (Rle_dec p0 d); [lra|reflexivity].
  - rewrite slices_cons2. destruct (Rle_dec p0 d); [lra|]. cbn [count_true]. rewrite IH; [reflexivity|exact Hs|lra]. Qed.
Lemma last_default (x : R) l d1 d2 : last (x :: l) d1 = last (x :: l) d2.
Proof. revert x. induction l as [|y l IH]; intros x; [reflexivity|]. change (last (y :: l) d1 = last (y :: l) d2). apply IH. Qed.
Lemma slices_partition p0 ps d : ps <> [] -> sorted p0 ps -> p0 <= d <= last ps p0 -> count_true (slices p0 ps d) = 1%nat.
Proof. revert p0. induction ps as [|p1 r IH]; intros p0 Hne Hs Hd; [congruence|].
  destruct Hs as [H01 Hs]. destruct r as [|p2 r'].
  - simpl in *. destruct (Rle_dec p0 d); [|lra]. destruct (Rle_dec d p1); [reflexivity|lra].
  - rewrite slices_cons2. destruct (Rle_dec p0 d) as [_|]; [|lra]. destruct (Rlt_dec d p1) as [Hlt|Hge].
    + cbn [count_true]. rewrite slices_none; [reflexivity|exact Hs|exact Hlt].
    + cbn [count_true]. rewrite IH; [reflexivity|discriminate|exact Hs|].
      split; [lra|]. destruct Hd as [_ Hd]. change (last (p1 :: p2 :: r') p0) with (last (p2 :: r') p0) in Hd. rewrite (last_default p2 r' p1 p0). exact Hd. Qed.
(* C06: cache invariant and history independence *)
Section Cache.
Variables (key kernel field : Type) (key_eqb : key -> key -> bool).
Hypothesis key_eqb_spec : forall a b, key_eqb a b = true <-> a = b.
Variable gen : key -> kernel. Variable apply : kernel -> field -> field.
Definition state := key -> option kernel.
Definition init : state := fun _ => None.
Definition call (s : state) (op : key * field) : state * field :=
  let '(k, u) := op in
  let h := match s k with Some h => h | None => gen k end in
  ((fun k' => if key_eqb k' k then Some h else s k'), apply h u).
Definition Inv (s : state) := forall k h, s k = Some h -> h = gen k.
Lemma call_inv s op : Inv s -> Inv (fst (call s op)).
Proof. destruct op as [k u]. intros HI k' h. simpl. destruct (key_eqb k' k) eqn:E.
  - apply key_eqb_spec in E. subst k'. intros Hs. inversion Hs; subst. destruct (s k) eqn:Es; [apply HI; exact Es|reflexivity].
  - apply HI. Qed.
Lemma call_fresh s op : Inv s -> snd (call s op) = snd (call init op).
Proof. destruct op as [k u]. intros HI. simpl. destruct (s k) eqn:Es; [rewrite (HI _ _ Es)|]; reflexivity. Qed.
Fixpoint run (s : state) (ops : list (key * field)) : list field :=
  match ops with [] => [] | op :: r => snd (call s op) :: run (fst (call s op)) r end.
Theorem history_independent ops : run init ops = map (fun op => snd (call init op)) ops.
Proof. assert (G: forall s, Inv s -> run s ops = map (fun op => snd (call init op)) ops).
  { induction ops as [|op r IH]; intros s HI; [reflexivity|]. simpl. rewrite (call_fresh s op HI). f_equal. apply IH. apply call_inv. exact HI. }
  apply G. intros k h H. discriminate. Qed.
End Cache.
Print Assumptions history_independent.
