From Coq Require Import Reals Lra Lia Arith FunctionalExtensionality.
From Coquelicot Require Import Complex.
Open Scope R_scope.
Definition fld := nat -> nat -> C.
Fixpoint Rsum (n : nat) (f : nat -> R) : R := match n with O => 0 | S k => Rsum k f + f k end.
Lemma Rsum_ext n f g : (forall i, (i < n)%nat -> f i = g i) -> Rsum n f = Rsum n g.
Proof. induction n as [|n IH]; intros H; simpl; [reflexivity|]. rewrite IH, H; auto. Qed.
Lemma Rsum_le n f g : (forall i, (i < n)%nat -> f i <= g i) -> Rsum n f <= Rsum n g.
Proof. induction n as [|n IH]; intros H; simpl; [lra|]. assert (f n <= g n) by auto. assert (Rsum n f <= Rsum n g) by auto. lra. Qed.
Definition n2 (z : C) : R := fst z * fst z + snd z * snd z.
Lemma n2_mult a b : n2 (Cmult a b) = n2 a * n2 b.
Proof. unfold n2, Cmult; simpl. ring. Qed.
Section Pipeline.
Variables n m : nat.
Definition energy (u : fld) : R := Rsum n (fun i => Rsum m (fun j => n2 (u i j))).
Definition fmul (x y : fld) : fld := fun i j => Cmult (x i j) (y i j).
Definition fadd (x y : fld) : fld := fun i j => Cplus (x i j) (y i j).
Definition fscal (a : C) (x : fld) : fld := fun i j => Cmult a (x i j).
Definition fone : fld := fun _ _ => RtoC 1.
Variables F Finv S Sinv : fld -> fld.
Variable N : R.
Hypothesis N_pos : 0 < N.
Hypothesis F_add : forall u v, F (fadd u v) = fadd (F u) (F v).
Hypothesis F_scal : forall a u, F (fscal a u) = fscal a (F u).
Hypothesis Finv_add : forall u v, Finv (fadd u v) = fadd (Finv u) (Finv v).
Hypothesis Finv_scal : forall a u, Finv (fscal a u) = fscal a (Finv u).
Hypothesis Finv_F : forall u, Finv (F u) = u.
Hypothesis F_Finv : forall u, F (Finv u) = u.
Hypothesis parseval : forall u, energy (F u) = N * energy u.
Hypothesis S_Sinv : forall u, S (Sinv u) = u.
Hypothesis Sinv_S : forall u, Sinv (S u) = u.
Hypothesis S_energy : forall u, energy (S u) = energy u.
Hypothesis S_add : forall u v, S (fadd u v) = fadd (S u) (S v).
Hypothesis S_scal : forall a u, S (fscal a u) = fscal a (S u).
Hypothesis Sinv_add : forall u v, Sinv (fadd u v) = fadd (Sinv u) (Sinv v).
Hypothesis Sinv_scal : forall a u, Sinv (fscal a u) = fscal a (Sinv u).
Definition custom (u K A : fld) : fld := Finv (Sinv (fmul (fmul K A) (fmul (S (F u)) A))).
Lemma Sinv_energy u : energy (Sinv u) = energy u.
Proof. rewrite <- (S_energy (Sinv u)). rewrite S_Sinv. reflexivity. Qed.
Lemma Finv_energy u : energy (Finv u) = energy u / N.
Proof. pose proof (parseval (Finv u)) as H. rewrite F_Finv in H. rewrite H. field. lra. Qed.
Lemma fmul_one_r x : fmul x fone = x.
Proof. extensionality i; extensionality j. unfold fmul, fone. ring. Qed.
Lemma energy_fmul_unit K x : (forall i j, (i<n)%nat -> (j<m)%nat -> n2 (K i j) = 1) -> energy (fmul K x) = energy x.
Proof. intros HK. unfold energy. apply Rsum_ext; intros i Hi. apply Rsum_ext; intros j Hj.
  unfold fmul. rewrite n2_mult, HK by assumption. ring. Qed.
Lemma energy_fmul_le K x : (forall i j, (i<n)%nat -> (j<m)%nat -> n2 (K i j) <= 1) -> energy (fmul K x) <= energy x.
Proof. intros HK. unfold energy. apply Rsum_le; intros i Hi. apply Rsum_le; intros j Hj.
  unfold fmul. rewrite n2_mult. assert (0 <= n2 (x i j)) by (unfold n2; nra). specialize (HK i j Hi Hj).
  assert (0 <= n2 (K i j)) by (unfold n2; nra). nra. Qed.
Theorem custom_energy_unit u K : (forall i j, (i<n)%nat -> (j<m)%nat -> n2 (K i j) = 1) ->
  energy (custom u K fone) = energy u.
Proof. intros HK. unfold custom. rewrite Finv_energy, Sinv_energy, !fmul_one_r.
  rewrite energy_fmul_unit by exact HK. rewrite S_energy, parseval. field. lra. Qed.
Theorem custom_energy_le u K A : (forall i j, (i<n)%nat -> (j<m)%nat -> n2 (Cmult (Cmult (K i j) (A i j)) (A i j)) <= 1) ->
  energy (custom u K A) <= energy u.
Proof. intros HK. unfold custom. rewrite Finv_energy, Sinv_energy.
  replace (fmul (fmul K A) (fmul (S (F u)) A)) with (fmul (fun i j => Cmult (Cmult (K i j) (A i j)) (A i j)) (S (F u))).
  2:{ extensionality i; extensionality j. unfold fmul. ring. }
  pose proof (energy_fmul_le _ (S (F u)) HK) as H. rewrite S_energy, parseval in H.
  apply Rmult_le_reg_r with N; [lra|]. unfold Rdiv. rewrite Rmult_assoc, Rinv_l by lra. lra. Qed.
Theorem custom_compose u K1 K2 : custom (custom u K1 fone) K2 fone = custom u (fmul K1 K2) fone.
Proof. unfold custom. rewrite !fmul_one_r. rewrite F_Finv, S_Sinv. f_equal. f_equal.
  extensionality i; extensionality j. unfold fmul. ring. Qed.
Theorem custom_id u : custom u fone fone = u.
Proof. unfold custom. rewrite !fmul_one_r.
  replace (fmul fone (S (F u))) with (S (F u)) by (extensionality i; extensionality j; unfold fmul, fone; ring).
  rewrite Sinv_S, Finv_F. reflexivity. Qed.
Lemma fmul_add_r K x y : fmul K (fadd x y) = fadd (fmul K x) (fmul K y).
Proof. extensionality i; extensionality j. unfold fmul, fadd. ring. Qed.
Lemma fmul_scal_r K a x : fmul K (fscal a x) = fscal a (fmul K x).
Proof. extensionality i; extensionality j. unfold fmul, fscal. ring. Qed.
Lemma fmul_add_l A x y : fmul (fadd x y) A = fadd (fmul x A) (fmul y A).
Proof. extensionality i; extensionality j. unfold fmul, fadd. ring. Qed.
Lemma fmul_scal_l A a x : fmul (fscal a x) A = fscal a (fmul x A).
Proof. extensionality i; extensionality j. unfold fmul, fscal. ring. Qed.
Theorem custom_linear a b u v K A : custom (fadd (fscal a u) (fscal b v)) K A = fadd (fscal a (custom u K A)) (fscal b (custom v K A)).
Proof. unfold custom. rewrite F_add, !F_scal, S_add, !S_scal, fmul_add_l, !fmul_scal_l, fmul_add_r, !fmul_scal_r,
  Sinv_add, !Sinv_scal, Finv_add, !Finv_scal. reflexivity. Qed.
End Pipeline.
Print Assumptions custom_energy_le.
