From Coq Require Import Reals Lra List Arith FunctionalExtensionality.
From Coquelicot Require Import Coquelicot.
Open Scope R_scope.
Inductive expr :=
| Var (i : nat) | Cst (c : R) | Add (a b : expr) | Mul (a b : expr) | Div (a b : expr)
| Sin (a : expr) | Cos (a : expr) | Sqrt (a : expr).
Definition envT := nat -> R.
Fixpoint eval (e : expr) (r : envT) : R :=
  match e with
  | Var i => r i | Cst c => c | Add a b => eval a r + eval b r | Mul a b => eval a r * eval b r
  | Div a b => eval a r / eval b r | Sin a => sin (eval a r) | Cos a => cos (eval a r)
  | Sqrt a => sqrt (eval a r) end.
Fixpoint dom (e : expr) (r : envT) : Prop :=
  match e with
  | Var _ | Cst _ => True
  | Add a b | Mul a b => dom a r /\ dom b r
  | Div a b => dom a r /\ dom b r /\ eval b r <> 0
  | Sin a | Cos a => dom a r
  | Sqrt a => dom a r /\ 0 < eval a r end.
Fixpoint D (x : nat) (e : expr) : expr :=
  match e with
  | Var i => if Nat.eqb i x then Cst 1 else Cst 0
  | Cst _ => Cst 0
  | Add a b => Add (D x a) (D x b)
  | Mul a b => Add (Mul (D x a) b) (Mul a (D x b))
  | Div a b => Div (Add (Mul (D x a) b) (Mul (Cst (-1)) (Mul a (D x b)))) (Mul b b)
  | Sin a => Mul (Cos a) (D x a)
  | Cos a => Mul (Mul (Cst (-1)) (Sin a)) (D x a)
  | Sqrt a => Div (D x a) (Mul (Cst 2) (Sqrt a)) end.
Definition upd (r : envT) (x : nat) (t : R) : envT := fun i => if Nat.eqb i x then t else r i.
Lemma upd_same r x : upd r x (r x) = r.
Proof. apply functional_extensionality. intros i. unfold upd. destruct (Nat.eqb i x) eqn:E; [apply Nat.eqb_eq in E; subst|]; reflexivity. Qed.

Ltac fin := unfold plus, scal, mult, minus, opp; cbn; unfold mult; cbn.
Lemma add_case (f g : R -> R) x0 a b : is_derive f x0 a -> is_derive g x0 b -> is_derive (fun t => f t + g t) x0 (a + b).
Proof. intros Hf Hg. apply (is_derive_plus f g x0 a b Hf Hg). Qed.
Lemma mul_case (f g : R -> R) x0 a b : is_derive f x0 a -> is_derive g x0 b ->
  is_derive (fun t => f t * g t) x0 (a * g x0 + f x0 * b).
Proof. intros Hf Hg. evar_last. apply (is_derive_mult f g x0 a b Hf Hg). intros; apply Rmult_comm. fin. ring. Qed.
Lemma div_case (f g : R -> R) x0 a b : is_derive f x0 a -> is_derive g x0 b -> g x0 <> 0 ->
  is_derive (fun t => f t / g t) x0 ((a * g x0 + -1 * (f x0 * b)) / (g x0 * g x0)).
Proof. intros Hf Hg Hz. evar_last. apply (is_derive_div f g x0 a b Hf Hg Hz). fin. field. exact Hz. Qed.
Lemma sin_case (f : R -> R) x0 a : is_derive f x0 a -> is_derive (fun t => sin (f t)) x0 (cos (f x0) * a).
Proof. intros Hf. evar_last. apply (is_derive_comp sin f x0 _ a (is_derive_sin (f x0)) Hf). fin. ring. Qed.
Lemma cos_case (f : R -> R) x0 a : is_derive f x0 a -> is_derive (fun t => cos (f t)) x0 (-1 * sin (f x0) * a).
Proof. intros Hf. evar_last. apply (is_derive_comp cos f x0 _ a (is_derive_cos (f x0)) Hf). fin. ring. Qed.
Lemma sqrt_case (f : R -> R) x0 a : is_derive f x0 a -> 0 < f x0 -> is_derive (fun t => sqrt (f t)) x0 (a / (2 * sqrt (f x0))).
Proof. intros Hf Hp. apply (is_derive_sqrt f x0 a Hf Hp). Qed.
Theorem D_correct x e r : dom e r ->
  is_derive (fun t => eval e (upd r x t)) (r x) (eval (D x e) r).
Proof.
  assert (E: forall e0, eval e0 (upd r x (r x)) = eval e0 r) by (intros; rewrite upd_same; reflexivity).
  induction e as [i|c|a IHa b IHb|a IHa b IHb|a IHa b IHb|a IHa|a IHa|a IHa]; cbn [eval D dom]; intros Hd.
  - unfold upd. destruct (Nat.eqb i x) eqn:Ex; cbn [eval].
    + apply (is_derive_id (r x)).
    + apply (@is_derive_const R_AbsRing R_NormedModule (r i) (r x)).
  - apply (@is_derive_const R_AbsRing R_NormedModule c (r x)).
  - destruct Hd as [Ha Hb]. apply add_case; auto.
  - destruct Hd as [Ha Hb]. pose proof (mul_case _ _ _ _ _ (IHa Ha) (IHb Hb)) as H. cbv beta in H. rewrite !E in H. exact H.
  - destruct Hd as [Ha [Hb Hz]]. pose proof (div_case _ _ _ _ _ (IHa Ha) (IHb Hb)) as H. cbv beta in H. rewrite !E in H. apply H. exact Hz.
  - pose proof (sin_case _ _ _ (IHa Hd)) as H. cbv beta in H. rewrite !E in H. exact H.
  - pose proof (cos_case _ _ _ (IHa Hd)) as H. cbv beta in H. rewrite !E in H. exact H.
  - destruct Hd as [Ha Hp]. pose proof (sqrt_case _ _ _ (IHa Ha)) as H. cbv beta in H. rewrite !E in H. apply H. exact Hp.
Qed.
Print Assumptions D_correct.
