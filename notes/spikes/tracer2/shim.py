"""Prototype symbolic shim (design-phase spike): numpy object arrays of Expr nodes."""
import ast, fractions, math, numpy as np

class E:
    def __init__(s, op, *a): s.op, s.a = op, a
    @staticmethod
    def lift(x):
        if isinstance(x, E): return x
        if isinstance(x, (bool, np.bool_)): return E('const', int(x))
        if isinstance(x, (int, np.integer)): return E('const', int(x))
        if isinstance(x, (float, np.floating)): return E('const', float(x))
        if isinstance(x, complex): raise TypeError('complex constant in real expr')
        raise TypeError('cannot lift %r' % (type(x),))
    def _bin(s, o, op, rev=False):
        if isinstance(o, np.ndarray): return NotImplemented
        o = E.lift(o)
        return E(op, o, s) if rev else E(op, s, o)
    def __add__(s, o): return s._bin(o, '+')
    def __radd__(s, o): return s._bin(o, '+', True)
    def __sub__(s, o): return s._bin(o, '-')
    def __rsub__(s, o): return s._bin(o, '-', True)
    def __mul__(s, o): return s._bin(o, '*')
    def __rmul__(s, o): return s._bin(o, '*', True)
    def __truediv__(s, o): return s._bin(o, '/')
    def __rtruediv__(s, o): return s._bin(o, '/', True)
    def __neg__(s): return E('neg', s)
    def __abs__(s): return E('abs', s)
    def __pow__(s, o):
        if o == 0.5: return E('sqrt', s)
        if isinstance(o, (int, float)) and float(o).is_integer() and o >= 0: return E('pow', s, int(o))
        return E('rpow', s, E.lift(o))
    def __lt__(s, o): return B('lt', s, E.lift(o))
    def __gt__(s, o): return B('lt', E.lift(o), s)
    def __le__(s, o): return B('le', s, E.lift(o))
    def __ge__(s, o): return B('le', E.lift(o), s)
    def __bool__(s): raise TypeError('data-dependent control flow on symbolic value')
class B:
    def __init__(s, op, *a): s.op, s.a = op, a
    def __and__(s, o): return B('and', s, o)
    def __or__(s, o): return B('or', s, o)
    def __invert__(s): return B('not', s)
    def __bool__(s): raise TypeError('data-dependent control flow on symbolic condition')

def coq(e):
    if isinstance(e, B):
        if e.op == 'lt': return '(Rltb %s %s)' % (coq(e.a[0]), coq(e.a[1]))
        if e.op == 'le': return '(Rleb %s %s)' % (coq(e.a[0]), coq(e.a[1]))
        if e.op == 'and': return '(andb %s %s)' % (coq(e.a[0]), coq(e.a[1]))
        if e.op == 'or': return '(orb %s %s)' % (coq(e.a[0]), coq(e.a[1]))
        if e.op == 'not': return '(negb %s)' % coq(e.a[0])
    e = E.lift(e)
    if e.op == 'var': return e.a[0]
    if e.op == 'const':
        v = e.a[0]
        if isinstance(v, int): return '%d' % v if v >= 0 else '(%d)' % v
        fr = fractions.Fraction(repr(v))
        return '(%d/%d)' % (fr.numerator, fr.denominator) if fr.denominator != 1 else coq(E('const', int(fr.numerator)))
    if e.op in '+-*/': return '(%s %s %s)' % (coq(e.a[0]), e.op, coq(e.a[1]))
    if e.op == 'neg': return '(- %s)' % coq(e.a[0])
    if e.op == 'pow': return '(%s ^ %d)' % (coq(e.a[0]), e.a[1])
    if e.op == 'abs': return '(Rabs %s)' % coq(e.a[0])
    if e.op == 'ite': return '(if %s then %s else %s)' % (coq(e.a[0]), coq(e.a[1]), coq(e.a[2]))
    return '(%s %s)' % (e.op, ' '.join(coq(x) for x in e.a))

class T(np.ndarray):
    def unsqueeze(s, d): return np.expand_dims(s, d).view(T)
    def squeeze(s, d=None): return np.squeeze(np.asarray(s), d).view(T) if d is None or s.shape[d] == 1 else s
    def to(s, *a, **k): return s
    def view(s, *a):
        if len(a) == 1 and isinstance(a[0], type): return np.ndarray.view(s, a[0])
        shape = a[0] if len(a) == 1 and isinstance(a[0], (tuple, list)) else a
        return np.asarray(s).reshape(shape).view(T)
    def size(s, d=None): return s.shape if d is None else s.shape[d]
    def permute(s, *d): return np.transpose(np.asarray(s), d).view(T)
    def clone(s): return s.copy()
    def detach(s): return s
    def repeat(s, *r): return np.tile(np.asarray(s), r).view(T)
    def _cmp(s, o, f):
        a, b = np.broadcast_arrays(np.asarray(s, dtype=object), np.asarray(o, dtype=object))
        return wrap(np.vectorize(f, otypes=[object])(a, b))
    def __lt__(s, o): return s._cmp(o, lambda x, y: E.lift(x) < y)
    def __le__(s, o): return s._cmp(o, lambda x, y: E.lift(x) <= y)
    def __gt__(s, o): return s._cmp(o, lambda x, y: E.lift(x) > y)
    def __ge__(s, o): return s._cmp(o, lambda x, y: E.lift(x) >= y)
    @property
    def device(s): return 'cpu'
def wrap(a): return np.ndarray.view(np.asarray(a, dtype=object), T)
def sym(name, shape):
    a = np.empty(shape, dtype=object)
    for idx in np.ndindex(*shape): a[idx] = E('var', name + ''.join('_%d' % i for i in idx))
    return wrap(a)
def ew(f):
    def g(x, *rest):
        if isinstance(x, np.ndarray): return wrap(np.vectorize(lambda e: E(f, E.lift(e)), otypes=[object])(x))
        return E(f, E.lift(x))
    return g
class Shim: pass
def make_torch():
    t = Shim()
    for f in ['cos', 'sin', 'sqrt', 'exp', 'acos', 'atan', 'floor']: setattr(t, f, ew(f))
    t.abs = lambda x: wrap(np.vectorize(lambda e: abs(E.lift(e)), otypes=[object])(x)) if isinstance(x, np.ndarray) else abs(E.lift(x))
    t.pi = E('var', 'PI'); t.float32 = 'f32'; t.complex64 = 'c64'; t.int = 'int'
    t.deg2rad = lambda x: x * (t.pi / 180)
    t.tensor = lambda x, **k: wrap(x)
    t.as_tensor = lambda x, **k: x if isinstance(x, np.ndarray) else wrap(x)
    t.zeros = lambda *n, **k: wrap(np.full(n[0] if isinstance(n[0], (tuple, list)) else n, E('const', 0), dtype=object))
    t.ones = lambda *n, **k: wrap(np.full(n[0] if isinstance(n[0], (tuple, list)) else n, E('const', 1), dtype=object))
    t.zeros_like = lambda x, **k: wrap(np.full(x.shape, E('const', 0), dtype=object))
    t.ones_like = lambda x, **k: wrap(np.full(x.shape, E('const', 1), dtype=object))
    t.stack = lambda xs, dim=0, **k: wrap(np.stack([np.asarray(x, dtype=object) for x in xs], axis=dim))
    t.cat = lambda xs, dim=0, **k: wrap(np.concatenate([np.asarray(x, dtype=object) for x in xs], axis=dim))
    t.mm = lambda a, b: wrap(np.dot(np.asarray(a), np.asarray(b)))
    t.mul = lambda a, b: a * b
    t.sum = lambda x, axis=None, dim=None, **k: (lambda r: wrap(r) if isinstance(r, np.ndarray) else r)(np.sum(np.asarray(x), axis=axis if axis is not None else dim))
    t.mean = lambda x, axis=None, **k: (lambda r: wrap(r) if isinstance(r, np.ndarray) else r)(np.sum(np.asarray(x), axis=axis) / x.shape[axis])
    def cross(a, b, **k):
        a = np.asarray(a); b = np.asarray(b)
        return wrap(np.stack([a[..., 1]*b[..., 2]-a[..., 2]*b[..., 1], a[..., 2]*b[..., 0]-a[..., 0]*b[..., 2], a[..., 0]*b[..., 1]-a[..., 1]*b[..., 0]], axis=-1))
    t.linalg = Shim(); t.linalg.cross = cross
    def linspace(a, b, n, **k): return wrap([E.lift(a) + (E.lift(b) - E.lift(a)) * E('var', 'i%d_over_nm1' % i) for i in range(n)]) if True else None
    t.linspace = lambda a, b, n, **k: sym(k.get('name', 'g'), (n,))
    def meshgrid(x, y, indexing='xy'):
        X, Y = np.meshgrid(np.asarray(x, dtype=object), np.asarray(y, dtype=object), indexing=indexing); return wrap(X), wrap(Y)
    t.meshgrid = meshgrid
    def where(c, a, b):
        c = np.asarray(c, dtype=object); a, b = np.broadcast_arrays(np.asarray(a, dtype=object), np.asarray(b, dtype=object)); c = np.broadcast_to(c, a.shape)
        return wrap(np.vectorize(lambda cc, aa, bb: E('ite', cc, E.lift(aa), E.lift(bb)), otypes=[object])(c, a, b))
    t.where = where
    t.nan_to_num = lambda x, **k: x
    t.device = lambda *a: 'cpu'
    return t
def load(path, names, ns):
    tree = ast.parse(open(path).read())
    for n in tree.body:
        if isinstance(n, ast.FunctionDef) and n.name in names:
            # drop default args that call torch at def time
            n.args.defaults = [d if not any(isinstance(x, ast.Call) for x in ast.walk(d)) else ast.Constant(None) for d in n.args.defaults]
            ast.fix_missing_locations(n); exec(compile(ast.Module([n], []), path, "exec"), ns)
    return ns
