import sys; sys.path.insert(0, '/tmp/spike/t2')
from shim import *
torch = make_torch()
ns = {'torch': torch, 'len': len, 'type': type, 'float': lambda x: x, 'int': int}
load('/repo/odak/learn/raytracing/primitives.py', ['is_it_on_triangle'], ns)
tri = sym('t', (3, 3)); p = sym('p', (1, 3))
chk = ns['is_it_on_triangle'](p, tri)
print('flag shape', chk.shape); s = coq(chk[0, 0]); print(len(s)); print(s[:400])
# band-limited kernel: needs generate_complex_field; trace amplitude(mask) and phase separately
ns2 = {'torch': torch, 'float': lambda x: x}
captured = {}
def gcf(a, p): captured['a'] = a; captured['p'] = p; return a
ns2['generate_complex_field'] = gcf
load('/repo/odak/learn/wave/classical.py', ['get_band_limited_angular_spectrum_kernel'], ns2)
cnt = [0]
def linspace(a, b, n, **k):
    cnt[0] += 1; nm = 'fx' if cnt[0] == 1 else 'fy'
    captured[nm + '_ends'] = (coq(a), coq(b), n)
    return sym(nm, (n,))
torch.linspace = linspace
torch.clone = lambda x: x
class BArr(T): pass
import numpy as np
# elementwise comparisons on object arrays give object arrays of B; need & elementwise and .clone().detach()
H = ns2['get_band_limited_angular_spectrum_kernel'](3, 2, dx=E('var', 'dx'), wavelength=E('var', 'lam'), distance=E('var', 'z'), device='cpu')
print('mask[1,0] =', coq(captured['a'][1, 0])[:300])
print('phase[1,0] =', coq(captured['p'][1, 0])[:300])
print('ends', captured['fx_ends'], captured['fy_ends'])
