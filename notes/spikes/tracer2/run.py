import sys; sys.path.insert(0, '/tmp/spike/t2')
from shim import *
torch = make_torch()
ns = {'torch': torch, 'len': len, 'type': type, 'float': lambda x: x, 'int': int}
load('/repo/odak/learn/raytracing/primitives.py', ['center_of_triangle', 'is_it_on_triangle'], ns)
load('/repo/odak/learn/raytracing/boundary.py', ['get_triangle_normal', 'intersect_w_surface'], ns)
load('/repo/odak/learn/raytracing/ray.py', ['create_ray_from_two_points'], ns)
out = ['From Coq Require Import Reals Lra Nsatz. Open Scope R_scope.']
tri = sym('t', (3, 3)); ray = sym('r', (1, 2, 3))
targs = ' '.join('t_%d_%d' % (i, j) for i in range(3) for j in range(3)); rargs = ' '.join('r_0_%d_%d' % (i, j) for i in range(2) for j in range(3))
nrm = ns['get_triangle_normal'](tri)
for k in range(3): out.append('Definition gen_normal_%d (%s : R) : R := %s.' % (k, targs, coq(nrm[1, k])))
hit, dist = ns['intersect_w_surface'](ray, tri)
for k in range(3): out.append('Definition gen_hit_%d (%s %s : R) : R := %s.' % (k, targs, rargs, coq(hit[0, 0, k])))
out.append('Definition gen_dist (%s %s : R) : R := %s.' % (targs, rargs, coq(dist[0, 0])))
open('gen_geo.v', 'w').write('\n'.join(out) + '\n')
print(len(out), 'definitions;', 'gen_dist size', len(coq(dist[0,0])))
print(coq(nrm[1,0])[:300])
