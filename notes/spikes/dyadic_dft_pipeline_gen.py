import numpy as np, math, random
random.seed(1)
n=m=8
def dy(x):
    mant,e=math.frexp(x); M=int(mant*(1<<53)); return "(%d,%d)%%Z"%(M,e-53)
def cdy(z): return "(%s,%s)"%(dy(z.real),dy(z.imag))
u=np.random.default_rng(0).normal(size=(n,m))+1j*np.random.default_rng(1).normal(size=(n,m))
wn=[np.exp(-2j*np.pi*k/n) for k in range(n)]
K=np.exp(1j*np.random.default_rng(2).normal(size=(n,m))*3)
out=np.fft.ifft2(np.fft.ifftshift(K*np.fft.fftshift(np.fft.fft2(u))))*n*m
def lst(a): return "["+"; ".join(a)+"]"
def mat(A): return lst([lst([cdy(z) for z in row]) for row in A])
open('s9.v','w').write('''From Coq Require Import ZArith List. Import ListNotations. Open Scope Z_scope.
Definition dy := (Z*Z)%%type.
Definition dadd (a b : dy) : dy := let '(ma,ea) := a in let '(mb,eb) := b in
  if ea <=? eb then (ma + mb * 2^(eb-ea), ea) else (ma * 2^(ea-eb) + mb, eb).
Definition dmul (a b : dy) : dy := let '(ma,ea) := a in let '(mb,eb) := b in (ma*mb, ea+eb).
Definition dopp (a : dy) : dy := (- fst a, snd a).
Definition cd := (dy*dy)%%type.
Definition cadd (a b : cd) : cd := (dadd (fst a) (fst b), dadd (snd a) (snd b)).
Definition cmul (a b : cd) : cd := (dadd (dmul (fst a) (fst b)) (dopp (dmul (snd a) (snd b))), dadd (dmul (fst a) (snd b)) (dmul (snd a) (fst b))).
Definition czero : cd := ((0,0),(0,0)).
Definition nthc (l : list cd) (i : nat) := nth i l czero.
Definition nthm (l : list (list cd)) (i j : nat) := nthc (nth i l []) j.
Definition csum (n : nat) (f : nat -> cd) : cd := fold_left (fun acc i => cadd acc (f i)) (seq 0 n) czero.
Definition dft2 (n m : nat) (w wi : list cd) (u : list (list cd)) : list (list cd) :=
  map (fun k => map (fun l => csum n (fun i => csum m (fun j => cmul (nthm u i j) (cmul (nthc w ((i*k) mod n)) (nthc wi ((j*l) mod m)))))) (seq 0 m)) (seq 0 n).
Definition roll2 (n m : nat) (sn sm : nat) (u : list (list cd)) := map (fun i => map (fun j => nthm u ((i + n - sn) mod n) ((j + m - sm) mod m)) (seq 0 m)) (seq 0 n).
Definition pmul (n m : nat) (a b : list (list cd)) := map (fun i => map (fun j => cmul (nthm a i j) (nthm b i j)) (seq 0 m)) (seq 0 n).
Definition wtab : list cd := %s.
Definition wtabc : list cd := %s.
Definition U := %s.
Definition K := %s.
Definition OUT := %s.
Definition pipeline := dft2 8 8 wtabc wtabc (roll2 8 8 4 4 (pmul 8 8 K (roll2 8 8 4 4 (dft2 8 8 wtab wtab U)))).
(* compare: |a-b| <= 2^-30 as dyadics *)
Definition dle_small (a : dy) : bool := let '(ma,ea) := a in (Z.abs ma * 2^(ea+200) <=? 2^(200-30)).
Definition close (a b : cd) : bool := andb (dle_small (dadd (fst a) (dopp (fst b)))) (dle_small (dadd (snd a) (dopp (snd b)))).
Definition ok := forallb (fun i => forallb (fun j => close (nthm pipeline i j) (nthm OUT i j)) (seq 0 8)) (seq 0 8).
Time Eval vm_compute in ok.
''' % (lst([cdy(z) for z in wn]), lst([cdy(np.conj(z)) for z in wn]), mat(u), mat(K), mat(out)))
