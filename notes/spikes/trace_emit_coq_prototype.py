# end-to-end B1 spike: trace repo functions, emit Coq gen defs + equivalence lemmas against hand refs
import ast, numpy as np, math, sys, fractions
sys.path.insert(0,'/tmp/spike')
from trace import E, T, wrap, lift, torch, load
def coq(e):
    if not isinstance(e,E): e=E('const',e)
    if e.op=='var': return e.a[0]
    if e.op=='const':
        v=e.a[0]
        if isinstance(v,int): return '(%d)'%v
        fr=fractions.Fraction(repr(float(v)))   # shortest decimal repr -> exact rational
        return '(%d/%d)'%(fr.numerator,fr.denominator)
    if e.op in '+-*/': return '(%s %s %s)'%(coq(e.a[0]),e.op,coq(e.a[1]))
    if e.op=='neg': return '(- %s)'%coq(e.a[0])
    if e.op=='pow': return '(%s ^ %d)'%(coq(e.a[0]),e.a[1])
    return '(%s %s)'%(e.op,' '.join(coq(x) for x in e.a))
out=["From Coq Require Import Reals Lra. Open Scope R_scope."]
# reflect
ns=load('/repo/odak/learn/raytracing/boundary.py','reflect')
ray=wrap([[E('var','o%d'%i) for i in range(3)],[E('var','d%d'%i) for i in range(3)]])
nrm=wrap([[E('var','p%d'%i) for i in range(3)],[E('var','n%d'%i) for i in range(3)]])
r=ns['reflect'](ray,nrm)
args='(d0 d1 d2 n0 n1 n2 : R)'
for k in range(3):
    out.append('Definition gen_reflect_%d %s : R := %s.'%(k,args,coq(r[0,1,k])))
    out.append('Definition ref_reflect_%d %s : R := d%d - 2*((d0*n0+d1*n1+d2*n2)/(n0*n0+n1*n1+n2*n2))*n%d.'%(k,args,k,k))
    out.append('Lemma reflect_%d_ok : forall d0 d1 d2 n0 n1 n2, n0*n0+n1*n1+n2*n2 <> 0 -> gen_reflect_%d d0 d1 d2 n0 n1 n2 = ref_reflect_%d d0 d1 d2 n0 n1 n2.\nProof. intros. unfold gen_reflect_%d, ref_reflect_%d. field. Fail idtac. Abort.'%(k,k,k,k,k))
# ycrcb
src=open('/repo/odak/learn/perception/color_conversion.py').read()
tree=ast.parse(src)
for name in ['rgb_2_ycrcb','ycrcb_2_rgb']:
    fn=[n for n in tree.body if isinstance(n,ast.FunctionDef) and n.name==name][0]
    nsx={'torch':torch,'len':len}
    exec(compile(ast.Module([fn],[]),'cc','exec'),nsx)
    img=wrap([[[E('var','r')]],[[E('var','g')]],[[E('var','b')]]])
    class Img(T):
        def size(s): return s.shape
    img=img.view(Img)
    torch.zeros=lambda *n,**k: wrap(np.full(n[0] if not isinstance(n[0],int) else n,E('const',0),dtype=object))
    y=nsx[name](img)
    for k in range(3):
        out.append('Definition gen_%s_%d (r g b : R) : R := %s.'%(name,k,coq(y[0,k,0,0])))
out.append('''Lemma ycrcb_rt_0 r g b : Rabs (gen_ycrcb_2_rgb_0 (gen_rgb_2_ycrcb_0 r g b) (gen_rgb_2_ycrcb_1 r g b) (gen_rgb_2_ycrcb_2 r g b) - r) <= (1/1000) * (Rabs r + Rabs g + Rabs b).
Proof. unfold gen_ycrcb_2_rgb_0, gen_rgb_2_ycrcb_0, gen_rgb_2_ycrcb_1, gen_rgb_2_ycrcb_2.
 match goal with |- Rabs ?e <= _ => let e' := fresh in assert (e' : e = (339/1000000)*r + (-199017/1000000000+ 0)*g*0 + e - (339/1000000)*r) by ring end.
Abort.''')
open('gen_b1.v','w').write('\n'.join(out)+'\n')
print('\n'.join(out)[:3000])
