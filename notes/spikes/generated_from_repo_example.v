From Coq Require Import Reals Lra. Open Scope R_scope.
Definition gen_reflect_0 (d0 d1 d2 n0 n1 n2 : R) : R := (d0 - (((2) * (((1) * (((d0 * n0) + (d1 * n1)) + (d2 * n2))) / ((((n0 ^ 2) + (n1 ^ 2)) + (n2 ^ 2)) + (1/100000000)))) * n0)).
Definition ref_reflect_0 (d0 d1 d2 n0 n1 n2 : R) : R := d0 - 2*((d0*n0+d1*n1+d2*n2)/(n0*n0+n1*n1+n2*n2))*n0.
Definition gen_reflect_1 (d0 d1 d2 n0 n1 n2 : R) : R := (d1 - (((2) * (((1) * (((d0 * n0) + (d1 * n1)) + (d2 * n2))) / ((((n0 ^ 2) + (n1 ^ 2)) + (n2 ^ 2)) + (1/100000000)))) * n1)).
Definition ref_reflect_1 (d0 d1 d2 n0 n1 n2 : R) : R := d1 - 2*((d0*n0+d1*n1+d2*n2)/(n0*n0+n1*n1+n2*n2))*n1.
Definition gen_reflect_2 (d0 d1 d2 n0 n1 n2 : R) : R := (d2 - (((2) * (((1) * (((d0 * n0) + (d1 * n1)) + (d2 * n2))) / ((((n0 ^ 2) + (n1 ^ 2)) + (n2 ^ 2)) + (1/100000000)))) * n2)).
Definition ref_reflect_2 (d0 d1 d2 n0 n1 n2 : R) : R := d2 - 2*((d0*n0+d1*n1+d2*n2)/(n0*n0+n1*n1+n2*n2))*n2.
Definition gen_rgb_2_ycrcb_0 (r g b : R) : R := ((((299/1000) * r) + ((587/1000) * g)) + ((57/500) * b)).
Definition gen_rgb_2_ycrcb_1 (r g b : R) : R := ((1/2) + ((713/1000) * (r - ((((299/1000) * r) + ((587/1000) * g)) + ((57/500) * b))))).
Definition gen_rgb_2_ycrcb_2 (r g b : R) : R := ((1/2) + ((141/250) * (b - ((((299/1000) * r) + ((587/1000) * g)) + ((57/500) * b))))).
Definition gen_ycrcb_2_rgb_0 (r g b : R) : R := (r + ((1403/1000) * (g - (1/2)))).
Definition gen_ycrcb_2_rgb_1 (r g b : R) : R := ((r - ((357/500) * (g - (1/2)))) - ((43/125) * (b - (1/2)))).
Definition gen_ycrcb_2_rgb_2 (r g b : R) : R := (r + ((1773/1000) * (b - (1/2)))).

Lemma ycrcb_rt r g b : 0<=r<=1 -> 0<=g<=1 -> 0<=b<=1 ->
  let y := gen_rgb_2_ycrcb_0 r g b in let cr := gen_rgb_2_ycrcb_1 r g b in let cb := gen_rgb_2_ycrcb_2 r g b in
  Rabs (gen_ycrcb_2_rgb_0 y cr cb - r) <= 1/1000 /\ Rabs (gen_ycrcb_2_rgb_1 y cr cb - g) <= 1/1000 /\ Rabs (gen_ycrcb_2_rgb_2 y cr cb - b) <= 1/1000.
Proof. intros Hr Hg Hb y cr cb. subst y cr cb.
  unfold gen_ycrcb_2_rgb_0, gen_ycrcb_2_rgb_1, gen_ycrcb_2_rgb_2, gen_rgb_2_ycrcb_0, gen_rgb_2_ycrcb_1, gen_rgb_2_ycrcb_2.
  repeat split; apply Rabs_le; lra. Qed.
Lemma reflect_0_ok : forall d0 d1 d2 n0 n1 n2, n0*n0+n1*n1+n2*n2 <> 0 -> gen_reflect_0 d0 d1 d2 n0 n1 n2 = ref_reflect_0 d0 d1 d2 n0 n1 n2.
Proof. intros. unfold gen_reflect_0, ref_reflect_0. Fail (field; lra). Abort.
