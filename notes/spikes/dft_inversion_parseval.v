From Coq Require Import Reals Lra Lia Arith.
From Coquelicot Require Import Complex.
Open Scope R_scope. Open Scope C_scope.
Fixpoint Csum (n : nat) (f : nat -> C) : C :=
  match n with O => RtoC 0 | S k => Cplus (Csum k f) (f k) end.
Fixpoint Cpow (z : C) (n : nat) : C := match n with O => RtoC 1 | S k => Cmult z (Cpow z k) end.
Lemma Csum_ext n f g : (forall i, (i < n)%nat -> f i = g i) -> Csum n f = Csum n g.
Proof. induction n as [|n IH]; intros H; simpl; [reflexivity|]. rewrite IH, H; auto. Qed.
Lemma Csum_scal n (c:C) f : Csum n (fun i => c * f i) = c * Csum n f.
Proof. induction n as [|n IH]; simpl; [ring|rewrite IH; ring]. Qed.
Lemma Csum_plus n f g : Csum n (fun i => f i + g i) = Csum n f + Csum n g.
Proof. induction n as [|n IH]; simpl; [ring|rewrite IH; ring]. Qed.
Lemma Csum_zero n : Csum n (fun _ => RtoC 0) = 0.
Proof. induction n as [|n IH]; simpl; [reflexivity|rewrite IH; ring]. Qed.
Lemma Csum_switch n m (f : nat -> nat -> C) :
  Csum n (fun i => Csum m (fun j => f i j)) = Csum m (fun j => Csum n (fun i => f i j)).
Proof. induction n as [|n IH]; simpl.
  - symmetry; apply Csum_zero.
  - rewrite IH. rewrite <- Csum_plus. reflexivity. Qed.
Lemma Csum_const n (c : C) : Csum n (fun _ => c) = INR n * c.
Proof. induction n as [|n IH]; [simpl; ring|]. cbn [Csum]. rewrite IH, S_INR, RtoC_plus. ring. Qed.
Lemma Csum_delta n j (f : nat -> C) : (j < n)%nat -> Csum n (fun l => if Nat.eqb l j then f l else 0) = f j.
Proof. induction n as [|n IH]; intros Hj; [lia|]. cbn [Csum]. destruct (Nat.eq_dec j n) as [E|E].
  - subst j. rewrite Nat.eqb_refl. rewrite (Csum_ext n _ (fun _ => RtoC 0)).
    + rewrite Csum_zero. ring.
    + intros i Hi. destruct (Nat.eqb i n) eqn:Ei; [apply Nat.eqb_eq in Ei; lia|reflexivity].
  - rewrite IH by lia. destruct (Nat.eqb n j) eqn:En; [apply Nat.eqb_eq in En; lia|ring]. Qed.
Lemma Cpow_add z a b : Cpow z (a + b) = Cpow z a * Cpow z b.
Proof. induction a as [|a IH]; simpl; [ring|rewrite IH; ring]. Qed.
Lemma Cpow_mul z a b : Cpow z (a * b) = Cpow (Cpow z a) b.
Proof. induction b as [|b IH]; [rewrite Nat.mul_0_r; reflexivity|]. rewrite Nat.mul_succ_r, Cpow_add, IH. simpl. ring. Qed.
Lemma Cpow_mult_distr (x y : C) k : Cpow (x * y) k = Cpow x k * Cpow y k.
Proof. induction k as [|k IH]; simpl; [ring|rewrite IH; ring]. Qed.
Lemma Cpow_1 k : Cpow 1 k = 1.
Proof. induction k as [|k IH]; simpl; [reflexivity|rewrite IH; ring]. Qed.
Lemma geom (r:C) (n:nat) : (1 - r) * Csum n (fun j => Cpow r j) = 1 - Cpow r n.
Proof. induction n as [|n IH]; simpl; [ring|].
  replace ((1 - r) * (Csum n (fun j => Cpow r j) + Cpow r n)) with ((1-r) * Csum n (fun j => Cpow r j) + (1-r)*Cpow r n) by ring.
  rewrite IH. ring. Qed.
Lemma geom_zero (r:C) (n:nat) : r <> 1 -> Cpow r n = 1 -> Csum n (fun j => Cpow r j) = 0.
Proof. intros Hr Hn. pose proof (geom r n) as H. rewrite Hn in H.
  replace (1 - 1) with (RtoC 0) in H by ring.
  destruct (Ceq_dec (Csum n (fun j => Cpow r j)) 0) as [E|E]; [exact E|].
  exfalso. assert (H1 : 1 - r <> 0). { intro K. apply Hr. replace r with (1 - (1 - r)) by ring. rewrite K. ring. }
  apply (Cmult_neq_0 _ _ H1 E). exact H. Qed.
Section DFT.
Variable n : nat. Variables w wi : C.
Hypothesis n_pos : (0 < n)%nat.
Hypothesis w_n : Cpow w n = 1.
Hypothesis w_wi : w * wi = 1.
Hypothesis w_prim : forall d, (0 < d < n)%nat -> Cpow w d <> 1.
Lemma wi_n : Cpow wi n = 1.
Proof. assert (H: Cpow w n * Cpow wi n = 1) by (rewrite <- Cpow_mult_distr, w_wi; apply Cpow_1). rewrite w_n in H. rewrite <- H. ring. Qed.
Lemma wi_prim d : (0 < d < n)%nat -> Cpow wi d <> 1.
Proof. intros Hd E. apply (w_prim d Hd).
  assert (H: Cpow w d * Cpow wi d = 1) by (rewrite <- Cpow_mult_distr, w_wi; apply Cpow_1). rewrite E in H. rewrite <- H. ring. Qed.
Lemma w_wi_cancel a b : (b <= a)%nat -> Cpow w a * Cpow wi b = Cpow w (a - b).
Proof. intros H. replace a with ((a - b) + b)%nat at 1 by lia. rewrite Cpow_add.
  replace (Cpow w (a - b) * Cpow w b * Cpow wi b) with (Cpow w (a-b) * (Cpow w b * Cpow wi b)) by ring.
  rewrite <- Cpow_mult_distr, w_wi, Cpow_1. ring. Qed.
Lemma wi_w_cancel a b : (a <= b)%nat -> Cpow w a * Cpow wi b = Cpow wi (b - a).
Proof. intros H. replace b with ((b - a) + a)%nat at 1 by lia. rewrite Cpow_add.
  replace (Cpow w a * (Cpow wi (b - a) * Cpow wi a)) with (Cpow wi (b-a) * (Cpow w a * Cpow wi a)) by ring.
  rewrite <- Cpow_mult_distr, w_wi, Cpow_1. ring. Qed.
Lemma ortho l j : (l < n)%nat -> (j < n)%nat ->
  Csum n (fun k => Cpow w (l*k) * Cpow wi (j*k)) = if Nat.eqb l j then INR n else 0.
Proof. intros Hl Hj.
  rewrite (Csum_ext n _ (fun k => Cpow (Cpow w l * Cpow wi j) k)).
  2:{ intros k _. rewrite Cpow_mult_distr, <- !Cpow_mul. reflexivity. }
  destruct (Nat.eqb l j) eqn:E.
  - apply Nat.eqb_eq in E. subst l. rewrite w_wi_cancel by lia. rewrite Nat.sub_diag. simpl (Cpow w 0).
    rewrite (Csum_ext n _ (fun _ => RtoC 1)) by (intros; apply Cpow_1). rewrite Csum_const. ring.
  - apply Nat.eqb_neq in E. apply geom_zero.
    + destruct (le_lt_dec j l) as [H|H].
      * rewrite w_wi_cancel by lia. apply w_prim. lia.
      * rewrite wi_w_cancel by lia. apply wi_prim. lia.
    + rewrite Cpow_mult_distr, <- !Cpow_mul, (Nat.mul_comm l n), (Nat.mul_comm j n), !Cpow_mul, w_n, wi_n, !Cpow_1. ring.
Qed.
Definition dft (u : nat -> C) (k : nat) : C := Csum n (fun j => u j * Cpow w (j*k)).
Definition idft (U : nat -> C) (j : nat) : C := / INR n * Csum n (fun k => U k * Cpow wi (j*k)).
Theorem idft_dft u j : (j < n)%nat -> idft (dft u) j = u j.
Proof. intros Hj. unfold idft, dft.
  rewrite (Csum_ext n _ (fun k => Csum n (fun l => u l * (Cpow w (l*k) * Cpow wi (j*k))))).
  2:{ intros k _. rewrite Cmult_comm, <- Csum_scal. apply Csum_ext. intros l _. ring. }
  rewrite Csum_switch.
  rewrite (Csum_ext n _ (fun l => if Nat.eqb l j then u l * INR n else 0)).
  2:{ intros l Hl. rewrite Csum_scal, ortho by assumption. destruct (Nat.eqb l j); ring. }
  rewrite Csum_delta by assumption.
  assert (Hn : RtoC (INR n) <> 0). { intro K. apply RtoC_inj in K. apply (not_0_INR n); [lia|exact K]. }
  field. exact Hn. Qed.
Hypothesis w_conj : Cconj w = wi.
Lemma Cconj_mult (a b : C) : Cconj (a * b) = Cconj a * Cconj b.
Proof. destruct a, b. unfold Cconj, Cmult; simpl. f_equal; ring. Qed.
Lemma Cconj_plus (a b : C) : Cconj (a + b) = Cconj a + Cconj b.
Proof. destruct a, b. unfold Cconj, Cplus; simpl. f_equal; ring. Qed.
Lemma Cconj_sum m f : Cconj (Csum m f) = Csum m (fun i => Cconj (f i)).
Proof. induction m as [|m IH]; simpl; [unfold Cconj, RtoC; simpl; f_equal; ring|]. rewrite Cconj_plus, IH. reflexivity. Qed.
Lemma Cconj_pow z k : Cconj (Cpow z k) = Cpow (Cconj z) k.
Proof. induction k as [|k IH]; simpl; [unfold Cconj, RtoC; simpl; f_equal; ring|]. rewrite Cconj_mult, IH. reflexivity. Qed.
(* Parseval, complex form: sum_k U_k conj(U_k) = n * sum_j u_j conj(u_j) *)
Theorem parseval u : Csum n (fun k => dft u k * Cconj (dft u k)) = INR n * Csum n (fun j => u j * Cconj (u j)).
Proof. unfold dft.
  rewrite (Csum_ext n _ (fun k => Csum n (fun j => Csum n (fun l => (u j * Cconj (u l)) * (Cpow w (j*k) * Cpow wi (l*k)))))).
  2:{ intros k _. rewrite Cconj_sum. rewrite Cmult_comm, <- Csum_scal. apply Csum_ext. intros j _.
      rewrite Cmult_comm, <- Csum_scal. apply Csum_ext. intros l _. rewrite Cconj_mult, Cconj_pow, w_conj. ring. }
  rewrite Csum_switch. rewrite <- Csum_scal. apply Csum_ext. intros j Hj.
  rewrite Csum_switch.
  rewrite (Csum_ext n _ (fun l => if Nat.eqb l j then (u j * Cconj (u l)) * INR n else 0)).
  2:{ intros l Hl. rewrite Csum_scal, ortho by assumption. rewrite (Nat.eqb_sym j l). destruct (Nat.eqb l j); ring. }
  rewrite Csum_delta by assumption. ring. Qed.
End DFT.
Print Assumptions parseval.
