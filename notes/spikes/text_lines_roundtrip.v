From Coq Require Import List Ascii String Bool Arith Lia.
Import ListNotations.
Definition nl : ascii := "010"%char.
Definition line := list ascii.
Definition write (ls : list line) : list ascii := List.concat (map (fun l => l ++ [nl]) ls).
(* readline loop: cur accumulates the current line *)
Fixpoint readl (cur : line) (s : list ascii) : list line :=
  match s with
  | [] => match cur with [] => [] | _ => [cur] end
  | c :: r => if Ascii.eqb c nl then cur :: readl [] r else readl (cur ++ [c]) r
  end.
Definition read (strip : line -> line) (s : list ascii) : list line := map strip (readl [] s).
Definition no_nl (l : line) := forallb (fun c => negb (Ascii.eqb c nl)) l = true.
Lemma readl_line cur l r : no_nl l -> readl cur (l ++ nl :: r) = (cur ++ l) :: readl [] r.
Proof. revert cur. induction l as [|c l IH]; intros cur H; simpl.
  - rewrite app_nil_r. reflexivity.
  - unfold no_nl in H. simpl in H. apply andb_prop in H. destruct H as [Hc Hl].
    apply negb_true_iff in Hc. rewrite Hc. rewrite IH by exact Hl. rewrite <- app_assoc. reflexivity. Qed.
Theorem lines_rt ls : Forall no_nl ls -> readl [] (write ls) = ls.
Proof. induction 1 as [|l ls Hl _ IH]; [reflexivity|]. unfold write. simpl. rewrite <- app_assoc. simpl.
  rewrite readl_line by exact Hl. simpl. f_equal. exact IH. Qed.
(* rstrip of all trailing whitespace is not the identity: refutation witness *)
Definition is_ws (c : ascii) := orb (Ascii.eqb c " "%char) (orb (Ascii.eqb c nl) (Ascii.eqb c "009"%char)).
Fixpoint rstrip_rev (l : line) := match l with c :: r => if is_ws c then rstrip_rev r else l | [] => [] end.
Definition rstrip (l : line) := rev (rstrip_rev (rev l)).
Lemma rstrip_refuted : exists ls, Forall no_nl ls /\ read rstrip (write ls) <> ls.
Proof. exists [["a"%char; " "%char]]. split; [repeat constructor|]. vm_compute. discriminate. Qed.
Print Assumptions lines_rt.
