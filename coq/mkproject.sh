#!/bin/bash
# ./mkproject.sh            -> _CoqProject + Makefile over every .v under theories/ (used by MANIFEST.setup_cmd)
# ./mkproject.sh C06 C11    -> _CoqProject.C06 + Makefile.C06 over theories/Base, theories/Wave and the named
#                              directories only (so that a file another property is still editing cannot break
#                              this property's build).  Tie files under coq/tie are compiled per run, never by make.
cd "$(dirname "$0")"
if [ $# -eq 0 ]; then
  { echo "-Q theories OdakV"; find theories -name '*.v' | sort; } > _CoqProject
  coq_makefile -f _CoqProject -o Makefile > /dev/null
else
  tag=$1
  { echo "-Q theories OdakV"; for d in Base Wave "$@"; do find theories/$d -name '*.v' 2>/dev/null; done | sort -u; } > _CoqProject.$tag
  coq_makefile -f _CoqProject.$tag -o Makefile.$tag > /dev/null
fi
