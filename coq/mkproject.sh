#!/bin/bash
# Regenerates _CoqProject (every .v under theories/) and the Makefile.  Tie files under coq/tie are
# compiled per run against the freshly generated definitions and are not part of the static build.
cd "$(dirname "$0")"
{ echo "-Q theories OdakV"; find theories -name '*.v' | sort; } > _CoqProject
coq_makefile -f _CoqProject -o Makefile > /dev/null
