(* C09 tie, part A: the helper bodies traced from /repo on this run (Run.GenC09) equal the reference model
   (coq/theories/C09/Model.v) for ALL real inputs — both APIs, every component.  SLM range r > 0 is the
   only guard; the bit depth is an arbitrary real b (2**bits traces to Rpower 2 b).
   Compiled on every run against the freshly generated definitions. *)
From Coq Require Import Floats.
From Coq Require Import Reals Lra Bool.
From OdakV Require Import Base.RealAux C09.Model C09.Lemmas.
From Run Require Import GenC09.
Open Scope R_scope.

Ltac open_model :=
  repeat progress (unfold set_amplitude, add_phase, gcf, amp, arg, arg_deg, slm_pattern, slm_phase, slm_level, slm_scaled,
                   torch_slm_level, quantize, Rtrunc, re, im in *; cbn [fst snd] in *).

(* every sqrt of the goal whose argument is ring-equal to that of the first one is made syntactically equal to it *)
Ltac align_sqrt :=
  repeat match goal with
  | |- context [sqrt ?a] =>
      match goal with
      | |- context [sqrt ?c] => lazymatch c with a => fail | _ => replace (sqrt c) with (sqrt a) by (f_equal; ring) end
      end
  end.

(* make every argument of Rfloor / Rleb 0 that is field-equal to X syntactically X (X: the model's scaled value) *)
Ltac align_scaled X :=
  repeat match goal with
  | |- context [Rfloor ?y] => lazymatch y with X => fail | _ => replace y with X by (subst X; field; lra) end
  | |- context [Rleb 0 ?y] => lazymatch y with X => fail | _ => replace y with X by (subst X; field; lra) end
  end.

Ltac fin := solve [ reflexivity | ring | (field; lra) | (align_sqrt; solve [reflexivity | ring | (field; lra)])
                  | repeat (f_equal; try reflexivity; try ring; try (field; lra)) ].

Section Tie.
Variables zr zi ar ai a p q x lo hi r b A : R.
Let z : C := (zr, zi).
Let w : C := (ar, ai).
Let K := Rpower 2 b.

(* ---------------------------------------------------------------- NumPy *)
Lemma n_phase_ok : n_phase zr zi = arg z.
Proof. unfold n_phase, z. open_model. fin. Qed.
Lemma n_phase_deg_ok : n_phase_deg zr zi = arg_deg z.
Proof. unfold n_phase_deg, z. open_model. pose proof PI_RGT_0. fin. Qed.
Lemma n_amp_ok : n_amp zr zi = amp z.
Proof. unfold n_amp, z. open_model. fin. Qed.
Lemma n_gcf_ok : (n_gcf_re a p, n_gcf_im a p) = gcf a p.
Proof. unfold n_gcf_re, n_gcf_im. open_model. f_equal; fin. Qed.
Lemma n_setamp_ok : (n_setamp_re zr zi ar ai, n_setamp_im zr zi ar ai) = set_amplitude z w.
Proof. unfold n_setamp_re, n_setamp_im, z, w. open_model. f_equal; fin. Qed.
Lemma n_addphase_ok : (n_addphase_re zr zi q, n_addphase_im zr zi q) = add_phase z q.
Proof. unfold n_addphase_re, n_addphase_im, z. open_model. f_equal; fin. Qed.

(* ---------------------------------------------------------------- PyTorch *)
Lemma t_phase_ok : t_phase zr zi = arg z.
Proof. unfold t_phase, z. open_model. fin. Qed.
Lemma t_phase_deg_ok : t_phase_deg zr zi = arg_deg z.
Proof. unfold t_phase_deg, z. open_model. pose proof PI_RGT_0. fin. Qed.
Lemma t_amp_ok : t_amp zr zi = amp z.
Proof. unfold t_amp, z. open_model. fin. Qed.
Lemma t_gcf_ok : (t_gcf_re a p, t_gcf_im a p) = gcf a p.
Proof. unfold t_gcf_re, t_gcf_im. open_model. f_equal; fin. Qed.
Lemma t_setamp_ok : (t_setamp_re zr zi ar ai, t_setamp_im zr zi ar ai) = set_amplitude z w.
Proof. unfold t_setamp_re, t_setamp_im, z, w. open_model. f_equal; fin. Qed.

(* ---------------------------------------------------------------- SLM pattern and quantize *)
Hypothesis rpos : 0 < r.

Lemma K_pos : 0 < K.
Proof. unfold K, Rpower. apply exp_pos. Qed.

Ltac scaled_atom :=
  match goal with |- context [Rfmod ?ph r / r * ?k] =>
    let X := fresh "X" in set (X := Rfmod ph r / r * k) in *; align_scaled X end.
(* `pose proof rpos` first: the statements keep the guard 0 < r whether or not today's proof needs it *)
Ltac slm := pose proof rpos as Hr; pose proof K_pos as HK; unfold z, K in *; open_model; scaled_atom; fin.

Lemma n_slm_level_ok : n_slm_level zr zi r b = slm_level (arg z) r K.
Proof. unfold n_slm_level. slm. Qed.
Lemma n_slm_ill_level_ok : n_slm_ill_level zr zi r b = slm_level (arg z) r K.
Proof. unfold n_slm_ill_level. slm. Qed.
Lemma n_slm_ok : (n_slm_re zr zi r b, n_slm_im zr zi r b) = slm_pattern 1 (arg z) r K.
Proof.
  unfold n_slm_re, n_slm_im. pose proof rpos as Hr. pose proof K_pos as HK. unfold z, K in *. open_model.
  scaled_atom. rewrite !Rmult_1_l. f_equal; fin.
Qed.
Lemma n_slm_ill_ok : (n_slm_ill_re zr zi r b A, n_slm_ill_im zr zi r b A) = slm_pattern A (arg z) r K.
Proof.
  unfold n_slm_ill_re, n_slm_ill_im. pose proof rpos as Hr. pose proof K_pos as HK. unfold z, K in *. open_model.
  scaled_atom. f_equal; fin.
Qed.
End Tie.

Section Quant.
Variables x lo hi b : R.
Hypothesis lim : lo < hi.
Lemma t_quant_ok : t_quant x lo hi b = quantize x lo hi (Rpower 2 b).
Proof.
  pose proof lim as Hl. unfold t_quant. open_model.
  set (X := (x - lo) / (hi - lo) * Rpower 2 b) in *. align_scaled X. fin.
Qed.
End Quant.

(* ---------------------------------------------------------------- element-wise: the second array element is the
   same function of its own sample (and, by Gen.add's free-variable check, of nothing else) *)
Lemma n_phase_el1_ok : forall u v, n_phase_el1 u v = n_phase u v. Proof. reflexivity. Qed.
Lemma n_amp_el1_ok : forall u v, n_amp_el1 u v = n_amp u v. Proof. reflexivity. Qed.
Lemma n_gcf_el1_ok : forall u v, (n_gcf_el1_re u v, n_gcf_el1_im u v) = (n_gcf_re u v, n_gcf_im u v). Proof. reflexivity. Qed.
Lemma n_slm_level_el1_ok : forall u v r b, n_slm_level_el1 u v r b = n_slm_level u v r b. Proof. reflexivity. Qed.
Lemma t_phase_el1_ok : forall u v, t_phase_el1 u v = t_phase u v. Proof. reflexivity. Qed.
Lemma t_amp_el1_ok : forall u v, t_amp_el1 u v = t_amp u v. Proof. reflexivity. Qed.
Lemma t_gcf_el1_ok : forall u v, (t_gcf_el1_re u v, t_gcf_el1_im u v) = (t_gcf_re u v, t_gcf_im u v). Proof. reflexivity. Qed.
Lemma t_quant_el1_ok : forall u lo hi b, t_quant_el1 u lo hi b = t_quant u lo hi b. Proof. reflexivity. Qed.
