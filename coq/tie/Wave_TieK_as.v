(* Wave tie, kernel as: statements about the definitions traced from /repo on this run (Run.GenWaveK).
   Compiled on every run. *)
From Coq Require Import Reals Lra Bool.
From Coquelicot Require Import Complex.
From OdakV Require Import Base.RealAux Wave.Fields Wave.Kernels.
From Run Require Import GenWaveK.
Open Scope R_scope.

Ltac sqrt_canon :=
  repeat match goal with |- context [sqrt ?a] => progress ring_simplify a end.
Ltac align_sqrt tac :=
  match goal with |- ?L = ?R =>
    match L with context [sqrt ?a] => match R with context [sqrt ?b] =>
      replace (sqrt a) with (sqrt b) by (f_equal; tac) end end end.

Lemma as_pix_0_0 dx lam z : (as_re_0_0 dx lam z, as_im_0_0 dx lam z) = Cexpi (as_ph_0_0 dx lam z).
Proof. reflexivity. Qed.
Lemma as_add_0_0 dx lam z1 z2 : as_ph_0_0 dx lam (z1 + z2) = as_ph_0_0 dx lam z1 + as_ph_0_0 dx lam z2.
Proof. unfold as_ph_0_0. ring. Qed.
Lemma as_laws_0_0 dx lam z1 z2 :
  n2 (as_re_0_0 dx lam z1, as_im_0_0 dx lam z1) = 1 /\
  Cmult (as_re_0_0 dx lam z1, as_im_0_0 dx lam z1) (as_re_0_0 dx lam z2, as_im_0_0 dx lam z2) = (as_re_0_0 dx lam (z1 + z2), as_im_0_0 dx lam (z1 + z2)) /\
  (as_re_0_0 dx lam 0, as_im_0_0 dx lam 0) = RtoC 1 /\
  Cmult (as_re_0_0 dx lam z1, as_im_0_0 dx lam z1) (as_re_0_0 dx lam (- z1), as_im_0_0 dx lam (- z1)) = RtoC 1.
Proof.
  rewrite !as_pix_0_0. split; [apply Cexpi_n2|].
  split; [apply (kernel_compose (as_ph_0_0 dx lam)), as_add_0_0|].
  split; [apply (kernel_zero (as_ph_0_0 dx lam)), as_add_0_0 | apply (kernel_undo (as_ph_0_0 dx lam)), as_add_0_0].
Qed.
Lemma as_ref_0_0 dx lam z : 0 < dx -> 0 < lam -> as_ph_0_0 dx lam z = z * kz_as lam (fgrid dx 4 0) (fgrid dx 3 0).
Proof. intros Hd Hl. unfold as_ph_0_0, kz_as. align_sqrt ltac:(unfold fgrid; simpl; field; lra). field. lra. Qed.
Lemma as_pix_0_1 dx lam z : (as_re_0_1 dx lam z, as_im_0_1 dx lam z) = Cexpi (as_ph_0_1 dx lam z).
Proof. reflexivity. Qed.
Lemma as_add_0_1 dx lam z1 z2 : as_ph_0_1 dx lam (z1 + z2) = as_ph_0_1 dx lam z1 + as_ph_0_1 dx lam z2.
Proof. unfold as_ph_0_1. ring. Qed.
Lemma as_laws_0_1 dx lam z1 z2 :
  n2 (as_re_0_1 dx lam z1, as_im_0_1 dx lam z1) = 1 /\
  Cmult (as_re_0_1 dx lam z1, as_im_0_1 dx lam z1) (as_re_0_1 dx lam z2, as_im_0_1 dx lam z2) = (as_re_0_1 dx lam (z1 + z2), as_im_0_1 dx lam (z1 + z2)) /\
  (as_re_0_1 dx lam 0, as_im_0_1 dx lam 0) = RtoC 1 /\
  Cmult (as_re_0_1 dx lam z1, as_im_0_1 dx lam z1) (as_re_0_1 dx lam (- z1), as_im_0_1 dx lam (- z1)) = RtoC 1.
Proof.
  rewrite !as_pix_0_1. split; [apply Cexpi_n2|].
  split; [apply (kernel_compose (as_ph_0_1 dx lam)), as_add_0_1|].
  split; [apply (kernel_zero (as_ph_0_1 dx lam)), as_add_0_1 | apply (kernel_undo (as_ph_0_1 dx lam)), as_add_0_1].
Qed.
Lemma as_ref_0_1 dx lam z : 0 < dx -> 0 < lam -> as_ph_0_1 dx lam z = z * kz_as lam (fgrid dx 4 1) (fgrid dx 3 0).
Proof. intros Hd Hl. unfold as_ph_0_1, kz_as. align_sqrt ltac:(unfold fgrid; simpl; field; lra). field. lra. Qed.
Lemma as_pix_0_2 dx lam z : (as_re_0_2 dx lam z, as_im_0_2 dx lam z) = Cexpi (as_ph_0_2 dx lam z).
Proof. reflexivity. Qed.
Lemma as_add_0_2 dx lam z1 z2 : as_ph_0_2 dx lam (z1 + z2) = as_ph_0_2 dx lam z1 + as_ph_0_2 dx lam z2.
Proof. unfold as_ph_0_2. ring. Qed.
Lemma as_laws_0_2 dx lam z1 z2 :
  n2 (as_re_0_2 dx lam z1, as_im_0_2 dx lam z1) = 1 /\
  Cmult (as_re_0_2 dx lam z1, as_im_0_2 dx lam z1) (as_re_0_2 dx lam z2, as_im_0_2 dx lam z2) = (as_re_0_2 dx lam (z1 + z2), as_im_0_2 dx lam (z1 + z2)) /\
  (as_re_0_2 dx lam 0, as_im_0_2 dx lam 0) = RtoC 1 /\
  Cmult (as_re_0_2 dx lam z1, as_im_0_2 dx lam z1) (as_re_0_2 dx lam (- z1), as_im_0_2 dx lam (- z1)) = RtoC 1.
Proof.
  rewrite !as_pix_0_2. split; [apply Cexpi_n2|].
  split; [apply (kernel_compose (as_ph_0_2 dx lam)), as_add_0_2|].
  split; [apply (kernel_zero (as_ph_0_2 dx lam)), as_add_0_2 | apply (kernel_undo (as_ph_0_2 dx lam)), as_add_0_2].
Qed.
Lemma as_ref_0_2 dx lam z : 0 < dx -> 0 < lam -> as_ph_0_2 dx lam z = z * kz_as lam (fgrid dx 4 2) (fgrid dx 3 0).
Proof. intros Hd Hl. unfold as_ph_0_2, kz_as. align_sqrt ltac:(unfold fgrid; simpl; field; lra). field. lra. Qed.
Lemma as_pix_0_3 dx lam z : (as_re_0_3 dx lam z, as_im_0_3 dx lam z) = Cexpi (as_ph_0_3 dx lam z).
Proof. reflexivity. Qed.
Lemma as_add_0_3 dx lam z1 z2 : as_ph_0_3 dx lam (z1 + z2) = as_ph_0_3 dx lam z1 + as_ph_0_3 dx lam z2.
Proof. unfold as_ph_0_3. ring. Qed.
Lemma as_laws_0_3 dx lam z1 z2 :
  n2 (as_re_0_3 dx lam z1, as_im_0_3 dx lam z1) = 1 /\
  Cmult (as_re_0_3 dx lam z1, as_im_0_3 dx lam z1) (as_re_0_3 dx lam z2, as_im_0_3 dx lam z2) = (as_re_0_3 dx lam (z1 + z2), as_im_0_3 dx lam (z1 + z2)) /\
  (as_re_0_3 dx lam 0, as_im_0_3 dx lam 0) = RtoC 1 /\
  Cmult (as_re_0_3 dx lam z1, as_im_0_3 dx lam z1) (as_re_0_3 dx lam (- z1), as_im_0_3 dx lam (- z1)) = RtoC 1.
Proof.
  rewrite !as_pix_0_3. split; [apply Cexpi_n2|].
  split; [apply (kernel_compose (as_ph_0_3 dx lam)), as_add_0_3|].
  split; [apply (kernel_zero (as_ph_0_3 dx lam)), as_add_0_3 | apply (kernel_undo (as_ph_0_3 dx lam)), as_add_0_3].
Qed.
Lemma as_ref_0_3 dx lam z : 0 < dx -> 0 < lam -> as_ph_0_3 dx lam z = z * kz_as lam (fgrid dx 4 3) (fgrid dx 3 0).
Proof. intros Hd Hl. unfold as_ph_0_3, kz_as. align_sqrt ltac:(unfold fgrid; simpl; field; lra). field. lra. Qed.
Lemma as_pix_1_0 dx lam z : (as_re_1_0 dx lam z, as_im_1_0 dx lam z) = Cexpi (as_ph_1_0 dx lam z).
Proof. reflexivity. Qed.
Lemma as_add_1_0 dx lam z1 z2 : as_ph_1_0 dx lam (z1 + z2) = as_ph_1_0 dx lam z1 + as_ph_1_0 dx lam z2.
Proof. unfold as_ph_1_0. ring. Qed.
Lemma as_laws_1_0 dx lam z1 z2 :
  n2 (as_re_1_0 dx lam z1, as_im_1_0 dx lam z1) = 1 /\
  Cmult (as_re_1_0 dx lam z1, as_im_1_0 dx lam z1) (as_re_1_0 dx lam z2, as_im_1_0 dx lam z2) = (as_re_1_0 dx lam (z1 + z2), as_im_1_0 dx lam (z1 + z2)) /\
  (as_re_1_0 dx lam 0, as_im_1_0 dx lam 0) = RtoC 1 /\
  Cmult (as_re_1_0 dx lam z1, as_im_1_0 dx lam z1) (as_re_1_0 dx lam (- z1), as_im_1_0 dx lam (- z1)) = RtoC 1.
Proof.
  rewrite !as_pix_1_0. split; [apply Cexpi_n2|].
  split; [apply (kernel_compose (as_ph_1_0 dx lam)), as_add_1_0|].
  split; [apply (kernel_zero (as_ph_1_0 dx lam)), as_add_1_0 | apply (kernel_undo (as_ph_1_0 dx lam)), as_add_1_0].
Qed.
Lemma as_ref_1_0 dx lam z : 0 < dx -> 0 < lam -> as_ph_1_0 dx lam z = z * kz_as lam (fgrid dx 4 0) (fgrid dx 3 1).
Proof. intros Hd Hl. unfold as_ph_1_0, kz_as. align_sqrt ltac:(unfold fgrid; simpl; field; lra). field. lra. Qed.
Lemma as_pix_1_1 dx lam z : (as_re_1_1 dx lam z, as_im_1_1 dx lam z) = Cexpi (as_ph_1_1 dx lam z).
Proof. reflexivity. Qed.
Lemma as_add_1_1 dx lam z1 z2 : as_ph_1_1 dx lam (z1 + z2) = as_ph_1_1 dx lam z1 + as_ph_1_1 dx lam z2.
Proof. unfold as_ph_1_1. ring. Qed.
Lemma as_laws_1_1 dx lam z1 z2 :
  n2 (as_re_1_1 dx lam z1, as_im_1_1 dx lam z1) = 1 /\
  Cmult (as_re_1_1 dx lam z1, as_im_1_1 dx lam z1) (as_re_1_1 dx lam z2, as_im_1_1 dx lam z2) = (as_re_1_1 dx lam (z1 + z2), as_im_1_1 dx lam (z1 + z2)) /\
  (as_re_1_1 dx lam 0, as_im_1_1 dx lam 0) = RtoC 1 /\
  Cmult (as_re_1_1 dx lam z1, as_im_1_1 dx lam z1) (as_re_1_1 dx lam (- z1), as_im_1_1 dx lam (- z1)) = RtoC 1.
Proof.
  rewrite !as_pix_1_1. split; [apply Cexpi_n2|].
  split; [apply (kernel_compose (as_ph_1_1 dx lam)), as_add_1_1|].
  split; [apply (kernel_zero (as_ph_1_1 dx lam)), as_add_1_1 | apply (kernel_undo (as_ph_1_1 dx lam)), as_add_1_1].
Qed.
Lemma as_ref_1_1 dx lam z : 0 < dx -> 0 < lam -> as_ph_1_1 dx lam z = z * kz_as lam (fgrid dx 4 1) (fgrid dx 3 1).
Proof. intros Hd Hl. unfold as_ph_1_1, kz_as. align_sqrt ltac:(unfold fgrid; simpl; field; lra). field. lra. Qed.
Lemma as_pix_1_2 dx lam z : (as_re_1_2 dx lam z, as_im_1_2 dx lam z) = Cexpi (as_ph_1_2 dx lam z).
Proof. reflexivity. Qed.
Lemma as_add_1_2 dx lam z1 z2 : as_ph_1_2 dx lam (z1 + z2) = as_ph_1_2 dx lam z1 + as_ph_1_2 dx lam z2.
Proof. unfold as_ph_1_2. ring. Qed.
Lemma as_laws_1_2 dx lam z1 z2 :
  n2 (as_re_1_2 dx lam z1, as_im_1_2 dx lam z1) = 1 /\
  Cmult (as_re_1_2 dx lam z1, as_im_1_2 dx lam z1) (as_re_1_2 dx lam z2, as_im_1_2 dx lam z2) = (as_re_1_2 dx lam (z1 + z2), as_im_1_2 dx lam (z1 + z2)) /\
  (as_re_1_2 dx lam 0, as_im_1_2 dx lam 0) = RtoC 1 /\
  Cmult (as_re_1_2 dx lam z1, as_im_1_2 dx lam z1) (as_re_1_2 dx lam (- z1), as_im_1_2 dx lam (- z1)) = RtoC 1.
Proof.
  rewrite !as_pix_1_2. split; [apply Cexpi_n2|].
  split; [apply (kernel_compose (as_ph_1_2 dx lam)), as_add_1_2|].
  split; [apply (kernel_zero (as_ph_1_2 dx lam)), as_add_1_2 | apply (kernel_undo (as_ph_1_2 dx lam)), as_add_1_2].
Qed.
Lemma as_ref_1_2 dx lam z : 0 < dx -> 0 < lam -> as_ph_1_2 dx lam z = z * kz_as lam (fgrid dx 4 2) (fgrid dx 3 1).
Proof. intros Hd Hl. unfold as_ph_1_2, kz_as. align_sqrt ltac:(unfold fgrid; simpl; field; lra). field. lra. Qed.
Lemma as_pix_1_3 dx lam z : (as_re_1_3 dx lam z, as_im_1_3 dx lam z) = Cexpi (as_ph_1_3 dx lam z).
Proof. reflexivity. Qed.
Lemma as_add_1_3 dx lam z1 z2 : as_ph_1_3 dx lam (z1 + z2) = as_ph_1_3 dx lam z1 + as_ph_1_3 dx lam z2.
Proof. unfold as_ph_1_3. ring. Qed.
Lemma as_laws_1_3 dx lam z1 z2 :
  n2 (as_re_1_3 dx lam z1, as_im_1_3 dx lam z1) = 1 /\
  Cmult (as_re_1_3 dx lam z1, as_im_1_3 dx lam z1) (as_re_1_3 dx lam z2, as_im_1_3 dx lam z2) = (as_re_1_3 dx lam (z1 + z2), as_im_1_3 dx lam (z1 + z2)) /\
  (as_re_1_3 dx lam 0, as_im_1_3 dx lam 0) = RtoC 1 /\
  Cmult (as_re_1_3 dx lam z1, as_im_1_3 dx lam z1) (as_re_1_3 dx lam (- z1), as_im_1_3 dx lam (- z1)) = RtoC 1.
Proof.
  rewrite !as_pix_1_3. split; [apply Cexpi_n2|].
  split; [apply (kernel_compose (as_ph_1_3 dx lam)), as_add_1_3|].
  split; [apply (kernel_zero (as_ph_1_3 dx lam)), as_add_1_3 | apply (kernel_undo (as_ph_1_3 dx lam)), as_add_1_3].
Qed.
Lemma as_ref_1_3 dx lam z : 0 < dx -> 0 < lam -> as_ph_1_3 dx lam z = z * kz_as lam (fgrid dx 4 3) (fgrid dx 3 1).
Proof. intros Hd Hl. unfold as_ph_1_3, kz_as. align_sqrt ltac:(unfold fgrid; simpl; field; lra). field. lra. Qed.
Lemma as_pix_2_0 dx lam z : (as_re_2_0 dx lam z, as_im_2_0 dx lam z) = Cexpi (as_ph_2_0 dx lam z).
Proof. reflexivity. Qed.
Lemma as_add_2_0 dx lam z1 z2 : as_ph_2_0 dx lam (z1 + z2) = as_ph_2_0 dx lam z1 + as_ph_2_0 dx lam z2.
Proof. unfold as_ph_2_0. ring. Qed.
Lemma as_laws_2_0 dx lam z1 z2 :
  n2 (as_re_2_0 dx lam z1, as_im_2_0 dx lam z1) = 1 /\
  Cmult (as_re_2_0 dx lam z1, as_im_2_0 dx lam z1) (as_re_2_0 dx lam z2, as_im_2_0 dx lam z2) = (as_re_2_0 dx lam (z1 + z2), as_im_2_0 dx lam (z1 + z2)) /\
  (as_re_2_0 dx lam 0, as_im_2_0 dx lam 0) = RtoC 1 /\
  Cmult (as_re_2_0 dx lam z1, as_im_2_0 dx lam z1) (as_re_2_0 dx lam (- z1), as_im_2_0 dx lam (- z1)) = RtoC 1.
Proof.
  rewrite !as_pix_2_0. split; [apply Cexpi_n2|].
  split; [apply (kernel_compose (as_ph_2_0 dx lam)), as_add_2_0|].
  split; [apply (kernel_zero (as_ph_2_0 dx lam)), as_add_2_0 | apply (kernel_undo (as_ph_2_0 dx lam)), as_add_2_0].
Qed.
Lemma as_ref_2_0 dx lam z : 0 < dx -> 0 < lam -> as_ph_2_0 dx lam z = z * kz_as lam (fgrid dx 4 0) (fgrid dx 3 2).
Proof. intros Hd Hl. unfold as_ph_2_0, kz_as. align_sqrt ltac:(unfold fgrid; simpl; field; lra). field. lra. Qed.
Lemma as_pix_2_1 dx lam z : (as_re_2_1 dx lam z, as_im_2_1 dx lam z) = Cexpi (as_ph_2_1 dx lam z).
Proof. reflexivity. Qed.
Lemma as_add_2_1 dx lam z1 z2 : as_ph_2_1 dx lam (z1 + z2) = as_ph_2_1 dx lam z1 + as_ph_2_1 dx lam z2.
Proof. unfold as_ph_2_1. ring. Qed.
Lemma as_laws_2_1 dx lam z1 z2 :
  n2 (as_re_2_1 dx lam z1, as_im_2_1 dx lam z1) = 1 /\
  Cmult (as_re_2_1 dx lam z1, as_im_2_1 dx lam z1) (as_re_2_1 dx lam z2, as_im_2_1 dx lam z2) = (as_re_2_1 dx lam (z1 + z2), as_im_2_1 dx lam (z1 + z2)) /\
  (as_re_2_1 dx lam 0, as_im_2_1 dx lam 0) = RtoC 1 /\
  Cmult (as_re_2_1 dx lam z1, as_im_2_1 dx lam z1) (as_re_2_1 dx lam (- z1), as_im_2_1 dx lam (- z1)) = RtoC 1.
Proof.
  rewrite !as_pix_2_1. split; [apply Cexpi_n2|].
  split; [apply (kernel_compose (as_ph_2_1 dx lam)), as_add_2_1|].
  split; [apply (kernel_zero (as_ph_2_1 dx lam)), as_add_2_1 | apply (kernel_undo (as_ph_2_1 dx lam)), as_add_2_1].
Qed.
Lemma as_ref_2_1 dx lam z : 0 < dx -> 0 < lam -> as_ph_2_1 dx lam z = z * kz_as lam (fgrid dx 4 1) (fgrid dx 3 2).
Proof. intros Hd Hl. unfold as_ph_2_1, kz_as. align_sqrt ltac:(unfold fgrid; simpl; field; lra). field. lra. Qed.
Lemma as_pix_2_2 dx lam z : (as_re_2_2 dx lam z, as_im_2_2 dx lam z) = Cexpi (as_ph_2_2 dx lam z).
Proof. reflexivity. Qed.
Lemma as_add_2_2 dx lam z1 z2 : as_ph_2_2 dx lam (z1 + z2) = as_ph_2_2 dx lam z1 + as_ph_2_2 dx lam z2.
Proof. unfold as_ph_2_2. ring. Qed.
Lemma as_laws_2_2 dx lam z1 z2 :
  n2 (as_re_2_2 dx lam z1, as_im_2_2 dx lam z1) = 1 /\
  Cmult (as_re_2_2 dx lam z1, as_im_2_2 dx lam z1) (as_re_2_2 dx lam z2, as_im_2_2 dx lam z2) = (as_re_2_2 dx lam (z1 + z2), as_im_2_2 dx lam (z1 + z2)) /\
  (as_re_2_2 dx lam 0, as_im_2_2 dx lam 0) = RtoC 1 /\
  Cmult (as_re_2_2 dx lam z1, as_im_2_2 dx lam z1) (as_re_2_2 dx lam (- z1), as_im_2_2 dx lam (- z1)) = RtoC 1.
Proof.
  rewrite !as_pix_2_2. split; [apply Cexpi_n2|].
  split; [apply (kernel_compose (as_ph_2_2 dx lam)), as_add_2_2|].
  split; [apply (kernel_zero (as_ph_2_2 dx lam)), as_add_2_2 | apply (kernel_undo (as_ph_2_2 dx lam)), as_add_2_2].
Qed.
Lemma as_ref_2_2 dx lam z : 0 < dx -> 0 < lam -> as_ph_2_2 dx lam z = z * kz_as lam (fgrid dx 4 2) (fgrid dx 3 2).
Proof. intros Hd Hl. unfold as_ph_2_2, kz_as. align_sqrt ltac:(unfold fgrid; simpl; field; lra). field. lra. Qed.
Lemma as_pix_2_3 dx lam z : (as_re_2_3 dx lam z, as_im_2_3 dx lam z) = Cexpi (as_ph_2_3 dx lam z).
Proof. reflexivity. Qed.
Lemma as_add_2_3 dx lam z1 z2 : as_ph_2_3 dx lam (z1 + z2) = as_ph_2_3 dx lam z1 + as_ph_2_3 dx lam z2.
Proof. unfold as_ph_2_3. ring. Qed.
Lemma as_laws_2_3 dx lam z1 z2 :
  n2 (as_re_2_3 dx lam z1, as_im_2_3 dx lam z1) = 1 /\
  Cmult (as_re_2_3 dx lam z1, as_im_2_3 dx lam z1) (as_re_2_3 dx lam z2, as_im_2_3 dx lam z2) = (as_re_2_3 dx lam (z1 + z2), as_im_2_3 dx lam (z1 + z2)) /\
  (as_re_2_3 dx lam 0, as_im_2_3 dx lam 0) = RtoC 1 /\
  Cmult (as_re_2_3 dx lam z1, as_im_2_3 dx lam z1) (as_re_2_3 dx lam (- z1), as_im_2_3 dx lam (- z1)) = RtoC 1.
Proof.
  rewrite !as_pix_2_3. split; [apply Cexpi_n2|].
  split; [apply (kernel_compose (as_ph_2_3 dx lam)), as_add_2_3|].
  split; [apply (kernel_zero (as_ph_2_3 dx lam)), as_add_2_3 | apply (kernel_undo (as_ph_2_3 dx lam)), as_add_2_3].
Qed.
Lemma as_ref_2_3 dx lam z : 0 < dx -> 0 < lam -> as_ph_2_3 dx lam z = z * kz_as lam (fgrid dx 4 3) (fgrid dx 3 2).
Proof. intros Hd Hl. unfold as_ph_2_3, kz_as. align_sqrt ltac:(unfold fgrid; simpl; field; lra). field. lra. Qed.
Lemma as_radnn_0_0 dx lam z : 0 < lam -> 0 < dx -> lam * lam <= 2 * (dx * dx) -> 0 <= as_rad_0_0 dx lam z.
Proof.
  intros Hl Hd Hg. replace (as_rad_0_0 dx lam z) with (1 - (lam * ((- (1 / 2)) / dx)) ^ 2 - (lam * ((- (1 / 2)) / dx)) ^ 2) by (unfold as_rad_0_0; field; lra).
  apply rad_as_nonneg; try assumption; lra.
Qed.
Lemma as_radnn_0_1 dx lam z : 0 < lam -> 0 < dx -> lam * lam <= 2 * (dx * dx) -> 0 <= as_rad_0_1 dx lam z.
Proof.
  intros Hl Hd Hg. replace (as_rad_0_1 dx lam z) with (1 - (lam * ((- (1 / 6)) / dx)) ^ 2 - (lam * ((- (1 / 2)) / dx)) ^ 2) by (unfold as_rad_0_1; field; lra).
  apply rad_as_nonneg; try assumption; lra.
Qed.
Lemma as_radnn_0_2 dx lam z : 0 < lam -> 0 < dx -> lam * lam <= 2 * (dx * dx) -> 0 <= as_rad_0_2 dx lam z.
Proof.
  intros Hl Hd Hg. replace (as_rad_0_2 dx lam z) with (1 - (lam * ((1 / 6) / dx)) ^ 2 - (lam * ((- (1 / 2)) / dx)) ^ 2) by (unfold as_rad_0_2; field; lra).
  apply rad_as_nonneg; try assumption; lra.
Qed.
Lemma as_radnn_0_3 dx lam z : 0 < lam -> 0 < dx -> lam * lam <= 2 * (dx * dx) -> 0 <= as_rad_0_3 dx lam z.
Proof.
  intros Hl Hd Hg. replace (as_rad_0_3 dx lam z) with (1 - (lam * ((1 / 2) / dx)) ^ 2 - (lam * ((- (1 / 2)) / dx)) ^ 2) by (unfold as_rad_0_3; field; lra).
  apply rad_as_nonneg; try assumption; lra.
Qed.
Lemma as_radnn_1_0 dx lam z : 0 < lam -> 0 < dx -> lam * lam <= 2 * (dx * dx) -> 0 <= as_rad_1_0 dx lam z.
Proof.
  intros Hl Hd Hg. replace (as_rad_1_0 dx lam z) with (1 - (lam * ((- (1 / 2)) / dx)) ^ 2 - (lam * ((0 / 1) / dx)) ^ 2) by (unfold as_rad_1_0; field; lra).
  apply rad_as_nonneg; try assumption; lra.
Qed.
Lemma as_radnn_1_1 dx lam z : 0 < lam -> 0 < dx -> lam * lam <= 2 * (dx * dx) -> 0 <= as_rad_1_1 dx lam z.
Proof.
  intros Hl Hd Hg. replace (as_rad_1_1 dx lam z) with (1 - (lam * ((- (1 / 6)) / dx)) ^ 2 - (lam * ((0 / 1) / dx)) ^ 2) by (unfold as_rad_1_1; field; lra).
  apply rad_as_nonneg; try assumption; lra.
Qed.
Lemma as_radnn_1_2 dx lam z : 0 < lam -> 0 < dx -> lam * lam <= 2 * (dx * dx) -> 0 <= as_rad_1_2 dx lam z.
Proof.
  intros Hl Hd Hg. replace (as_rad_1_2 dx lam z) with (1 - (lam * ((1 / 6) / dx)) ^ 2 - (lam * ((0 / 1) / dx)) ^ 2) by (unfold as_rad_1_2; field; lra).
  apply rad_as_nonneg; try assumption; lra.
Qed.
Lemma as_radnn_1_3 dx lam z : 0 < lam -> 0 < dx -> lam * lam <= 2 * (dx * dx) -> 0 <= as_rad_1_3 dx lam z.
Proof.
  intros Hl Hd Hg. replace (as_rad_1_3 dx lam z) with (1 - (lam * ((1 / 2) / dx)) ^ 2 - (lam * ((0 / 1) / dx)) ^ 2) by (unfold as_rad_1_3; field; lra).
  apply rad_as_nonneg; try assumption; lra.
Qed.
Lemma as_radnn_2_0 dx lam z : 0 < lam -> 0 < dx -> lam * lam <= 2 * (dx * dx) -> 0 <= as_rad_2_0 dx lam z.
Proof.
  intros Hl Hd Hg. replace (as_rad_2_0 dx lam z) with (1 - (lam * ((- (1 / 2)) / dx)) ^ 2 - (lam * ((1 / 2) / dx)) ^ 2) by (unfold as_rad_2_0; field; lra).
  apply rad_as_nonneg; try assumption; lra.
Qed.
Lemma as_radnn_2_1 dx lam z : 0 < lam -> 0 < dx -> lam * lam <= 2 * (dx * dx) -> 0 <= as_rad_2_1 dx lam z.
Proof.
  intros Hl Hd Hg. replace (as_rad_2_1 dx lam z) with (1 - (lam * ((- (1 / 6)) / dx)) ^ 2 - (lam * ((1 / 2) / dx)) ^ 2) by (unfold as_rad_2_1; field; lra).
  apply rad_as_nonneg; try assumption; lra.
Qed.
Lemma as_radnn_2_2 dx lam z : 0 < lam -> 0 < dx -> lam * lam <= 2 * (dx * dx) -> 0 <= as_rad_2_2 dx lam z.
Proof.
  intros Hl Hd Hg. replace (as_rad_2_2 dx lam z) with (1 - (lam * ((1 / 6) / dx)) ^ 2 - (lam * ((1 / 2) / dx)) ^ 2) by (unfold as_rad_2_2; field; lra).
  apply rad_as_nonneg; try assumption; lra.
Qed.
Lemma as_radnn_2_3 dx lam z : 0 < lam -> 0 < dx -> lam * lam <= 2 * (dx * dx) -> 0 <= as_rad_2_3 dx lam z.
Proof.
  intros Hl Hd Hg. replace (as_rad_2_3 dx lam z) with (1 - (lam * ((1 / 2) / dx)) ^ 2 - (lam * ((1 / 2) / dx)) ^ 2) by (unfold as_rad_2_3; field; lra).
  apply rad_as_nonneg; try assumption; lra.
Qed.
