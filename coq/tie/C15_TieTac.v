(* C15 tie tactics: structural congruence between a traced term and the unfolded model, with linear
   arithmetic at the leaves (so the representation of constants -- 0.04045 vs 809/20000 -- and any
   reformulation that lra / field can see through do not matter). *)
From Coq Require Import Reals Lra Bool.
From OdakV Require Import Base.RealAux C15.Model.
Open Scope R_scope.

Lemma ite_ext (c c' : bool) (a a' b b' : R) : c = c' -> a = a' -> b = b' ->
  (if c then a else b) = (if c' then a' else b').
Proof. intros -> -> ->. reflexivity. Qed.

(* guarded congruence for if-then-else: inside a branch the (translated) condition is available, so a clamp
   that is the identity under the branch condition (x.clamp(min = t) inside `where(x > t, ...)`) is seen through *)
Lemma ite_ext_g (c c' : bool) (a a' b b' : R) : c = c' -> (c = true -> a = a') -> (c = false -> b = b') ->
  (if c then a else b) = (if c' then a' else b').
Proof. intros -> Ha Hb. destruct c'; [apply Ha | apply Hb]; reflexivity. Qed.
Ltac use_guard Hc :=
  match type of Hc with
  | Rltb _ _ = true => apply (proj1 (Rltb_true _ _)) in Hc
  | Rleb _ _ = true => apply (proj1 (Rleb_true _ _)) in Hc
  | Rltb _ _ = false => apply (proj1 (Rltb_false _ _)) in Hc
  | Rleb _ _ = false => apply (proj1 (Rleb_false _ _)) in Hc
  | _ => idtac
  end;
  repeat match goal with
  | |- context [Rmax ?x ?y] => first [rewrite (Rmax_left x y) by lra | rewrite (Rmax_right x y) by lra]
  | |- context [Rmin ?x ?y] => first [rewrite (Rmin_left x y) by lra | rewrite (Rmin_right x y) by lra]
  end.

Ltac open_model :=
  cbv beta zeta delta [mrow ycc_y ycc_cr ycc_cb iycc_r iycc_g iycc_b to_lin inv_gamma srgb_thr to_srgb to_srgb_nc
    xyz_x xyz_y xyz_z ixyz_r ixyz_g ixyz_b hsv_eps max3 min3 amax3 hsv_dc hsv_hraw hsv_h hsv_s hsv_v sel18
    ihsv_h6 ihsv_hi ihsv_f ihsv_p ihsv_q ihsv_t ihsv_chan ihsv_r ihsv_g ihsv_b
    lab_X lab_Y lab_Z lab_wx lab_wz lab_delta lab_delta_cube lab_factor lab_c429 lab_third lab_f lab_fx lab_fy lab_fz
    lab_L lab_a lab_b lab_factor2 lab_xn lab_zn lab_finv ilab_fy ilab_fx ilab_fz ilab_X ilab_Y ilab_Z
    ilab_lr ilab_lg ilab_lb ilab_r ilab_g ilab_b p2l l2p third_0 third_1 third_2].

Ltac tie :=
  first
  [ match goal with |- ?a = ?a => reflexivity end
  | match goal with
    | |- (if _ then _ else _) = (if _ then _ else _) =>
        first [ apply ite_ext; [tieb | tie | tie]
              | apply ite_ext_g; [tieb | let Hc := fresh "Hc" in intro Hc; use_guard Hc; tie | let Hc := fresh "Hc" in intro Hc; use_guard Hc; tie] ]
    | |- Rpower _ _ = Rpower _ _ => apply f_equal2; tie
    | |- Rfmod _ _ = Rfmod _ _ => apply f_equal2; tie
    | |- Rmax _ _ = Rmax _ _ => apply f_equal2; tie
    | |- Rmin _ _ = Rmin _ _ => apply f_equal2; tie
    | |- Rfloor _ = Rfloor _ => apply f_equal; tie
    end
  | lra
  | ring
  | match goal with
    | |- _ + _ = _ + _ => apply f_equal2; tie
    | |- _ - _ = _ - _ => apply f_equal2; tie
    | |- _ * _ = _ * _ => apply f_equal2; tie
    | |- _ / _ = _ / _ => apply f_equal2; tie
    | |- - _ = - _ => apply f_equal; tie
    | |- _ ^ ?n = _ ^ ?n => apply (f_equal (fun t => t ^ n)); tie
    end
  | (field; lra) ]
with tieb :=
  first
  [ match goal with |- ?a = ?a => reflexivity end
  | match goal with
    | |- Rltb _ _ = Rltb _ _ => apply f_equal2; tie
    | |- Rleb _ _ = Rleb _ _ => apply f_equal2; tie
    | |- Reqb _ _ = Reqb _ _ => apply f_equal2; tie
    | |- negb _ = negb _ => apply f_equal; tieb
    | |- andb _ _ = andb _ _ => apply f_equal2; tieb
    | |- orb _ _ = orb _ _ => apply f_equal2; tieb
    end ].
