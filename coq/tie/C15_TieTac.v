(* C15 tie tactics.  A traced term is proved equal to the unfolded model in two alternating modes:
   - at a NON-ARITHMETIC head (if-then-else, Rpower, Rfmod, Rfloor, Rmax, Rmin, boolean tests) by congruence on the
     arguments (for if-then-else also a guarded congruence: inside a branch the condition is known, so a clamp that is
     the identity there is seen through);
   - at an ARITHMETIC head by normalisation at the granularity of the whole arithmetic expression: every maximal
     non-arithmetic subterm ("atom") of the left side is first replaced by the atom of the right side it is proved
     equal to (recursively, by this same tactic), then lra / ring / field decide the equation.  Commuted products,
     re-associated sums, factored-out subexpressions, other spellings of constants (0.04045 vs 809/20000, 1 + 0.055
     vs 1.055) are therefore invisible; a changed constant, sign, index, operand or dropped term is not provable. *)
From Coq Require Import Reals Lra Bool.
From OdakV Require Import Base.RealAux C15.Model.
Open Scope R_scope.

Lemma ite_ext (c c' : bool) (a a' b b' : R) : c = c' -> a = a' -> b = b' ->
  (if c then a else b) = (if c' then a' else b').
Proof. intros -> -> ->. reflexivity. Qed.

(* guarded congruence for if-then-else: inside a branch the (translated) condition is available, so a clamp
   that is the identity under the branch condition (x.clamp(min = t) inside `where(x > t, ...)`) is seen through *)
Lemma ite_ext_g (c c' : bool) (a a' b b' : R) : c = c' -> (c = true -> a = a') -> (c = false -> b = b') ->
  (if c then a else b) = (if c' then a' else b').
Proof. intros -> Ha Hb. destruct c'; [apply Ha | apply Hb]; reflexivity. Qed.
Ltac use_guard Hc :=
  match type of Hc with
  | Rltb _ _ = true => apply (proj1 (Rltb_true _ _)) in Hc
  | Rleb _ _ = true => apply (proj1 (Rleb_true _ _)) in Hc
  | Rltb _ _ = false => apply (proj1 (Rltb_false _ _)) in Hc
  | Rleb _ _ = false => apply (proj1 (Rleb_false _ _)) in Hc
  | _ => idtac
  end;
  repeat match goal with
  | |- context [Rmax ?x ?y] => first [rewrite (Rmax_left x y) by lra | rewrite (Rmax_right x y) by lra]
  | |- context [Rmin ?x ?y] => first [rewrite (Rmin_left x y) by lra | rewrite (Rmin_right x y) by lra]
  end.

Ltac open_model :=
  cbv beta zeta delta [mrow ycc_y ycc_cr ycc_cb iycc_r iycc_g iycc_b to_lin inv_gamma srgb_thr to_srgb to_srgb_nc
    xyz_x xyz_y xyz_z ixyz_r ixyz_g ixyz_b hsv_eps max3 min3 amax3 hsv_dc hsv_hraw hsv_h hsv_s hsv_v sel18
    ihsv_h6 ihsv_hi ihsv_f ihsv_p ihsv_q ihsv_t ihsv_chan ihsv_r ihsv_g ihsv_b
    lab_X lab_Y lab_Z lab_wx lab_wz lab_delta lab_delta_cube lab_factor lab_c429 lab_third lab_f lab_fx lab_fy lab_fz
    lab_L lab_a lab_b lab_factor2 lab_xn lab_zn lab_finv ilab_fy ilab_fx ilab_fz ilab_X ilab_Y ilab_Z
    ilab_lr ilab_lg ilab_lb ilab_r ilab_g ilab_b p2l l2p third_0 third_1 third_2].

(* k is run on the maximal non-arithmetic subterms of t, left to right, until it succeeds on one *)
Ltac each_atom t k :=
  lazymatch t with
  | ?x + ?y => first [each_atom x k | each_atom y k]
  | ?x - ?y => first [each_atom x k | each_atom y k]
  | ?x * ?y => first [each_atom x k | each_atom y k]
  | ?x / ?y => first [each_atom x k | each_atom y k]
  | - ?x => each_atom x k
  | / ?x => each_atom x k
  | ?x ^ _ => each_atom x k
  | IZR _ => fail
  | Q2R _ => fail                      (* decimal literals *)
  | R0 => fail
  | R1 => fail
  | PI => fail
  | _ => first [is_var t; fail 1 | k t]
  end.
(* once the atoms of both sides agree syntactically they are turned into variables, so that ring / field never
   compare two large non-arithmetic terms up to conversion *)
Ltac abstract_atoms :=
  repeat match goal with
  | |- ?L = ?R =>
      first [ each_atom L ltac:(fun a => let v := fresh "atom" in generalize a; intro v)
            | each_atom R ltac:(fun a => let v := fresh "atom" in generalize a; intro v) ]
  end.
Ltac same_head a b :=
  lazymatch a with
  | (if _ then _ else _) => lazymatch b with (if _ then _ else _) => idtac end
  | Rpower _ _ => lazymatch b with Rpower _ _ => idtac end
  | Rfmod _ _ => lazymatch b with Rfmod _ _ => idtac end
  | Rfloor _ => lazymatch b with Rfloor _ => idtac end
  | Rmax _ _ => lazymatch b with Rmax _ _ => idtac end
  | Rmin _ _ => lazymatch b with Rmin _ _ => idtac end
  | _ => idtac
  end.

Ltac tie :=
  first
  [ match goal with |- ?a = ?a => reflexivity end
  | match goal with
    | |- (if ?c then _ else _) = (if ?c' then _ else _) =>
        let Hcc := fresh "Hcond" in
        assert (Hcc : c = c') by tieb;                  (* the condition is proved once *)
        first [ apply (ite_ext _ _ _ _ _ _ Hcc); tie
              | apply (ite_ext_g _ _ _ _ _ _ Hcc); clear Hcc;
                [ let Hc := fresh "Hc" in intro Hc; use_guard Hc; tie | let Hc := fresh "Hc" in intro Hc; use_guard Hc; tie ] ]
    | |- Rpower _ _ = Rpower _ _ => apply f_equal2; tie
    | |- Rfmod _ _ = Rfmod _ _ => apply f_equal2; tie
    | |- Rmax _ _ = Rmax _ _ => apply f_equal2; tie
    | |- Rmin _ _ = Rmin _ _ => apply f_equal2; tie
    | |- Rfloor _ = Rfloor _ => apply f_equal; tie
    end
  | lra
  | repeat unify_atom; abstract_atoms; first [lra | ring | (field; lra)] ]
(* replace one atom of the left side that does not occur on the right by the right-side atom it equals *)
with unify_atom :=
  match goal with
  | |- ?L = ?R =>
      each_atom L ltac:(fun a =>
        lazymatch R with context [a] => fail | _ => idtac end;
        each_atom R ltac:(fun b =>
          same_head a b;
          lazymatch constr:((a, b)) with (L, R) => fail | _ => idtac end;      (* never re-pose the goal itself *)
          let H := fresh "Hatom" in
          assert (H : a = b) by tie;
          (* syntactic replacement (generalize + subst); `rewrite` would compare a with other large subterms up to conversion *)
          let v := fresh "atom" in let Hv := fresh "Hatom" in
          generalize H; clear H; generalize a; intros v Hv; subst v))
  end
with tieb :=
  first
  [ match goal with |- ?a = ?a => reflexivity end
  | match goal with
    | |- Rltb _ _ = Rltb _ _ => apply f_equal2; tie
    | |- Rleb _ _ = Rleb _ _ => apply f_equal2; tie
    | |- Reqb _ _ = Reqb _ _ => apply f_equal2; tie
    | |- negb _ = negb _ => apply f_equal; tieb
    | |- andb _ _ = andb _ _ => apply f_equal2; tieb
    | |- orb _ _ = orb _ _ => apply f_equal2; tieb
    end ].
