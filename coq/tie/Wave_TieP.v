(* Wave tie, pipelines: every propagation function of odak, traced at the operator level from the current
   source (Run.GenWaveP), is the documented forward model `custom` (PyTorch, NumPy angular spectrum) or the
   centred-origin form `centered` / `conv_centered` (NumPy Fresnel); the wave properties then hold of the
   traced pipelines under the FFT / shift contracts of OdakV.Wave.Fields.  Compiled on every run. *)
From Coq Require Import Reals Lra Bool FunctionalExtensionality.
From Coquelicot Require Import Complex.
From OdakV Require Import Base.RealAux Wave.Fields Wave.Kernels.
From Run Require Import GenWaveP.
Open Scope R_scope.

Section P.
Variables n m : nat.
Variables F Finv S Sinv PAD CROP : fld -> fld.
Variable N : R.
Hypothesis N_pos : 0 < N.
Hypothesis F_dom : forall u, F (clip n m u) = F u.
Hypothesis Finv_dom : forall u, Finv (clip n m u) = Finv u.
Hypothesis S_dom : forall u, S (clip n m u) = S u.
Hypothesis Sinv_dom : forall u, Sinv (clip n m u) = Sinv u.
Hypothesis F_add : forall u v, F (fadd u v) = fadd (F u) (F v).
Hypothesis F_scal : forall a u, F (fscal a u) = fscal a (F u).
Hypothesis Finv_add : forall u v, Finv (fadd u v) = fadd (Finv u) (Finv v).
Hypothesis Finv_scal : forall a u, Finv (fscal a u) = fscal a (Finv u).
Hypothesis Finv_F : forall u, Finv (F u) = clip n m u.
Hypothesis F_Finv : forall u, F (Finv u) = clip n m u.
Hypothesis parseval : forall u, energy n m (F u) = N * energy n m u.
Hypothesis S_Sinv : forall u, S (Sinv u) = clip n m u.
Hypothesis Sinv_S : forall u, Sinv (S u) = clip n m u.
Hypothesis S_energy : forall u, energy n m (S u) = energy n m u.
Hypothesis S_add : forall u v, S (fadd u v) = fadd (S u) (S v).
Hypothesis S_scal : forall a u, S (fscal a u) = fscal a (S u).
Hypothesis Sinv_add : forall u v, Sinv (fadd u v) = fadd (Sinv u) (Sinv v).
Hypothesis Sinv_scal : forall a u, Sinv (fscal a u) = fscal a (Sinv u).
Hypothesis S_mul : forall a b, S (fmul a b) = fmul (S a) (S b).
Hypothesis Sinv_mul : forall a b, Sinv (fmul a b) = fmul (Sinv a) (Sinv b).

Notation cust := (custom F Finv S Sinv).

(* equality of field terms up to commutativity / associativity of the pointwise product and scaling:
   peel equal operators, then compare pointwise with ring (operator applications are atoms) *)
Ltac field_eq :=
  first [ reflexivity
        | match goal with |- ?f ?a = ?f ?b => apply (f_equal f); field_eq end
        | (let i := fresh "i" in let j := fresh "j" in extensionality i; extensionality j; unfold fmul, fadd, fscal, fone, fzero; ring) ].
Ltac open_pipe := unfold custom, centered, conv_centered, fraun.
(* scalings (quadrature factors such as dx^2 that the code multiplies in and divides out again, wherever it writes them):
   pull every scalar out through the linear operators, show that the collected scalar is 1, compare the rest *)
Lemma fscal_eq (c : C) (X Y : fld) : c = RtoC 1 -> X = Y -> fscal c X = Y.
Proof. intros -> ->. apply fscal_one. Qed.
Ltac scal_out :=
  repeat first [ rewrite fmul_scal_l | rewrite fmul_scal_r | rewrite Finv_scal | rewrite Sinv_scal | rewrite F_scal | rewrite S_scal | rewrite fscal_fscal ].
Ltac scalar_one tac :=
  repeat rewrite <- RtoC_mult; apply f_equal; field; tac.
Ltac scaled_eq tac := scal_out; apply fscal_eq; [ scalar_one tac | field_eq ].

(* ---- structure: traced = documented forward model (aperture applied ONCE) *)
Lemma t_custom_ok u K A : t_custom F Finv S Sinv u K A = cust u K A.
Proof. unfold t_custom; open_pipe. field_eq. Qed.
Lemma t_custom_noap_ok u K : t_custom_noap F Finv S Sinv u K = cust u K fone.
Proof. unfold t_custom_noap; open_pipe. field_eq. Qed.
Lemma t_custom_nokernel_ok u A : t_custom_nokernel F Finv S Sinv u A = cust u fone A.
Proof. unfold t_custom_nokernel; open_pipe. field_eq. Qed.
Lemma t_custom_fpad_ok u K A : t_custom_fpad F Finv S Sinv PAD u K A = Finv (Sinv (PAD (fmul K (fmul (S (F u)) A)))).
Proof. unfold t_custom_fpad; open_pipe. field_eq. Qed.
Lemma t_beam_custom_ok u K A : t_beam_custom F Finv S Sinv u K A = cust u K A.
Proof. unfold t_beam_custom; open_pipe. field_eq. Qed.
Lemma t_angular_spectrum_ok u K A : t_angular_spectrum F Finv S Sinv u K A = cust u K A.
Proof. unfold t_angular_spectrum; open_pipe. field_eq. Qed.
Lemma t_beam_nopad_angular_spectrum_ok u K A : t_beam_nopad_angular_spectrum F Finv S Sinv u K A = cust u K A.
Proof. unfold t_beam_nopad_angular_spectrum; open_pipe. field_eq. Qed.
Lemma t_beam_padcrop_angular_spectrum_ok u K A : t_beam_padcrop_angular_spectrum F Finv S Sinv PAD CROP u K A = CROP (cust (PAD u) K A).
Proof. unfold t_beam_padcrop_angular_spectrum; open_pipe. field_eq. Qed.
Lemma t_beam_padonly_angular_spectrum_ok u K A : t_beam_padonly_angular_spectrum F Finv S Sinv PAD u K A = cust (PAD u) K A.
Proof. unfold t_beam_padonly_angular_spectrum; open_pipe. field_eq. Qed.
Lemma t_beam_croponly_angular_spectrum_ok u K A : t_beam_croponly_angular_spectrum F Finv S Sinv CROP u K A = CROP (cust u K A).
Proof. unfold t_beam_croponly_angular_spectrum; open_pipe. field_eq. Qed.
Lemma t_band_limited_angular_spectrum_ok u K A : t_band_limited_angular_spectrum F Finv S Sinv u K A = cust u K A.
Proof. unfold t_band_limited_angular_spectrum; open_pipe. field_eq. Qed.
Lemma t_beam_nopad_band_limited_angular_spectrum_ok u K A : t_beam_nopad_band_limited_angular_spectrum F Finv S Sinv u K A = cust u K A.
Proof. unfold t_beam_nopad_band_limited_angular_spectrum; open_pipe. field_eq. Qed.
Lemma t_beam_padcrop_band_limited_angular_spectrum_ok u K A : t_beam_padcrop_band_limited_angular_spectrum F Finv S Sinv PAD CROP u K A = CROP (cust (PAD u) K A).
Proof. unfold t_beam_padcrop_band_limited_angular_spectrum; open_pipe. field_eq. Qed.
Lemma t_beam_padonly_band_limited_angular_spectrum_ok u K A : t_beam_padonly_band_limited_angular_spectrum F Finv S Sinv PAD u K A = cust (PAD u) K A.
Proof. unfold t_beam_padonly_band_limited_angular_spectrum; open_pipe. field_eq. Qed.
Lemma t_beam_croponly_band_limited_angular_spectrum_ok u K A : t_beam_croponly_band_limited_angular_spectrum F Finv S Sinv CROP u K A = CROP (cust u K A).
Proof. unfold t_beam_croponly_band_limited_angular_spectrum; open_pipe. field_eq. Qed.
Lemma t_transfer_function_fresnel_ok u K A : t_transfer_function_fresnel F Finv S Sinv u K A = cust u K A.
Proof. unfold t_transfer_function_fresnel; open_pipe. field_eq. Qed.
Lemma t_beam_nopad_transfer_function_fresnel_ok u K A : t_beam_nopad_transfer_function_fresnel F Finv S Sinv u K A = cust u K A.
Proof. unfold t_beam_nopad_transfer_function_fresnel; open_pipe. field_eq. Qed.
Lemma t_beam_padcrop_transfer_function_fresnel_ok u K A : t_beam_padcrop_transfer_function_fresnel F Finv S Sinv PAD CROP u K A = CROP (cust (PAD u) K A).
Proof. unfold t_beam_padcrop_transfer_function_fresnel; open_pipe. field_eq. Qed.
Lemma t_beam_padonly_transfer_function_fresnel_ok u K A : t_beam_padonly_transfer_function_fresnel F Finv S Sinv PAD u K A = cust (PAD u) K A.
Proof. unfold t_beam_padonly_transfer_function_fresnel; open_pipe. field_eq. Qed.
Lemma t_beam_croponly_transfer_function_fresnel_ok u K A : t_beam_croponly_transfer_function_fresnel F Finv S Sinv CROP u K A = CROP (cust u K A).
Proof. unfold t_beam_croponly_transfer_function_fresnel; open_pipe. field_eq. Qed.
Lemma t_impulse_response_fresnel_ok u K A : t_impulse_response_fresnel F Finv S Sinv u K A = cust u K A.
Proof. unfold t_impulse_response_fresnel; open_pipe. field_eq. Qed.
Lemma t_beam_nopad_impulse_response_fresnel_ok u K A : t_beam_nopad_impulse_response_fresnel F Finv S Sinv u K A = cust u K A.
Proof. unfold t_beam_nopad_impulse_response_fresnel; open_pipe. field_eq. Qed.
Lemma t_beam_padcrop_impulse_response_fresnel_ok u K A : t_beam_padcrop_impulse_response_fresnel F Finv S Sinv PAD CROP u K A = CROP (cust (PAD u) K A).
Proof. unfold t_beam_padcrop_impulse_response_fresnel; open_pipe. field_eq. Qed.
Lemma t_beam_padonly_impulse_response_fresnel_ok u K A : t_beam_padonly_impulse_response_fresnel F Finv S Sinv PAD u K A = cust (PAD u) K A.
Proof. unfold t_beam_padonly_impulse_response_fresnel; open_pipe. field_eq. Qed.
Lemma t_beam_croponly_impulse_response_fresnel_ok u K A : t_beam_croponly_impulse_response_fresnel F Finv S Sinv CROP u K A = CROP (cust u K A).
Proof. unfold t_beam_croponly_impulse_response_fresnel; open_pipe. field_eq. Qed.
Lemma t_seperable_impulse_response_fresnel_ok u K A : t_seperable_impulse_response_fresnel F Finv S Sinv u K A = cust u K A.
Proof. unfold t_seperable_impulse_response_fresnel; open_pipe. field_eq. Qed.
Lemma t_beam_nopad_seperable_impulse_response_fresnel_ok u K A : t_beam_nopad_seperable_impulse_response_fresnel F Finv S Sinv u K A = cust u K A.
Proof. unfold t_beam_nopad_seperable_impulse_response_fresnel; open_pipe. field_eq. Qed.
Lemma t_beam_padcrop_seperable_impulse_response_fresnel_ok u K A : t_beam_padcrop_seperable_impulse_response_fresnel F Finv S Sinv PAD CROP u K A = CROP (cust (PAD u) K A).
Proof. unfold t_beam_padcrop_seperable_impulse_response_fresnel; open_pipe. field_eq. Qed.
Lemma t_beam_padonly_seperable_impulse_response_fresnel_ok u K A : t_beam_padonly_seperable_impulse_response_fresnel F Finv S Sinv PAD u K A = cust (PAD u) K A.
Proof. unfold t_beam_padonly_seperable_impulse_response_fresnel; open_pipe. field_eq. Qed.
Lemma t_beam_croponly_seperable_impulse_response_fresnel_ok u K A : t_beam_croponly_seperable_impulse_response_fresnel F Finv S Sinv CROP u K A = CROP (cust u K A).
Proof. unfold t_beam_croponly_seperable_impulse_response_fresnel; open_pipe. field_eq. Qed.
Lemma t_incoherent_angular_spectrum_ok u K A : t_incoherent_angular_spectrum F Finv S Sinv u K A = cust u K A.
Proof. unfold t_incoherent_angular_spectrum; open_pipe. field_eq. Qed.
Lemma t_beam_nopad_incoherent_angular_spectrum_ok u K A : t_beam_nopad_incoherent_angular_spectrum F Finv S Sinv u K A = cust u K A.
Proof. unfold t_beam_nopad_incoherent_angular_spectrum; open_pipe. field_eq. Qed.
Lemma t_beam_padcrop_incoherent_angular_spectrum_ok u K A : t_beam_padcrop_incoherent_angular_spectrum F Finv S Sinv PAD CROP u K A = CROP (cust (PAD u) K A).
Proof. unfold t_beam_padcrop_incoherent_angular_spectrum; open_pipe. field_eq. Qed.
Lemma t_beam_padonly_incoherent_angular_spectrum_ok u K A : t_beam_padonly_incoherent_angular_spectrum F Finv S Sinv PAD u K A = cust (PAD u) K A.
Proof. unfold t_beam_padonly_incoherent_angular_spectrum; open_pipe. field_eq. Qed.
Lemma t_beam_croponly_incoherent_angular_spectrum_ok u K A : t_beam_croponly_incoherent_angular_spectrum F Finv S Sinv CROP u K A = CROP (cust u K A).
Proof. unfold t_beam_croponly_incoherent_angular_spectrum; open_pipe. field_eq. Qed.
Lemma n_angular_spectrum_ok u H : n_angular_spectrum F Finv S Sinv u H = cust u H fone.
Proof. unfold n_angular_spectrum; open_pipe. field_eq. Qed.
Lemma n_band_limited_angular_spectrum_ok u H : n_band_limited_angular_spectrum F Finv S Sinv u H = cust u H fone.
Proof. unfold n_band_limited_angular_spectrum; open_pipe. field_eq. Qed.
Lemma n_transfer_function_fresnel_ok u H dx : dx <> 0 -> n_transfer_function_fresnel F Finv S Sinv u H dx = centered F Finv S Sinv u H.
Proof.
  intros Hd. unfold n_transfer_function_fresnel; open_pipe. scaled_eq ltac:(repeat split; lra).
Qed.
Lemma n_impulse_response_fresnel_ok u h dx : dx <> 0 -> n_impulse_response_fresnel F Finv S Sinv u h dx = conv_centered F Finv S Sinv u h.
Proof.
  intros Hd. unfold n_impulse_response_fresnel; open_pipe. scaled_eq ltac:(repeat split; lra).
Qed.

(* ---- C01 on the traced pipelines *)
Theorem traced_energy_conserved u K : (forall i j, (i < n)%nat -> (j < m)%nat -> n2 (K i j) = 1) ->
  energy n m (t_angular_spectrum F Finv S Sinv u K fone) = energy n m u /\
  energy n m (t_transfer_function_fresnel F Finv S Sinv u K fone) = energy n m u /\
  energy n m (n_angular_spectrum F Finv S Sinv u K) = energy n m u.
Proof.
  intros HK. rewrite (t_angular_spectrum_ok u K fone), (t_transfer_function_fresnel_ok u K fone), (n_angular_spectrum_ok u K).
  assert (E : energy n m (cust u K fone) = energy n m u) by (eapply custom_energy_unit; eauto).
  repeat split; exact E.
Qed.
Theorem traced_numpy_fresnel_energy_conserved u K dx : dx <> 0 -> (forall i j, (i < n)%nat -> (j < m)%nat -> n2 (K i j) = 1) ->
  energy n m (n_transfer_function_fresnel F Finv S Sinv u K dx) = energy n m u.
Proof. intros Hd HK. rewrite n_transfer_function_fresnel_ok by exact Hd. eapply centered_energy_unit; eauto. Qed.
Theorem traced_energy_never_created u K A : (forall i j, (i < n)%nat -> (j < m)%nat -> n2 (Cmult (K i j) (A i j)) <= 1) ->
  energy n m (t_band_limited_angular_spectrum F Finv S Sinv u K A) <= energy n m u /\
  energy n m (t_angular_spectrum F Finv S Sinv u K A) <= energy n m u /\
  energy n m (t_custom F Finv S Sinv u K A) <= energy n m u.
Proof.
  intros HK. rewrite (t_band_limited_angular_spectrum_ok u K A), (t_angular_spectrum_ok u K A), (t_custom_ok u K A).
  assert (E : energy n m (cust u K A) <= energy n m u) by (eapply custom_energy_le; eauto).
  repeat split; exact E.
Qed.
Theorem traced_numpy_band_limited_never_creates u K : (forall i j, (i < n)%nat -> (j < m)%nat -> n2 (K i j) <= 1) ->
  energy n m (n_band_limited_angular_spectrum F Finv S Sinv u K) <= energy n m u.
Proof.
  intros HK. rewrite n_band_limited_angular_spectrum_ok. eapply custom_energy_le; eauto.
  intros i j Hi Hj. unfold fone. replace (Cmult (K i j) (RtoC 1)) with (K i j) by ring. auto.
Qed.
Theorem traced_second_pass_removes_nothing u K M :
  (forall i j, Cmult (M i j) (M i j) = M i j) -> (forall i j, (i < n)%nat -> (j < m)%nat -> n2 (K i j) = 1) ->
  energy n m (t_custom F Finv S Sinv (t_custom F Finv S Sinv u K M) K M) = energy n m (t_custom F Finv S Sinv u K M) /\
  t_custom F Finv S Sinv (t_custom F Finv S Sinv u fone M) fone M = t_custom F Finv S Sinv u fone M.
Proof.
  intros HM HK. rewrite (t_custom_ok u K M), (t_custom_ok (cust u K M) K M), (t_custom_ok u fone M), (t_custom_ok (cust u fone M) fone M). split.
  - eapply custom_second_pass_energy; eauto.
  - eapply custom_mask_idem; eauto.
Qed.

(* ---- C02 on the traced pipelines *)
Theorem traced_compose u K1 A1 K2 A2 :
  t_custom F Finv S Sinv (t_custom F Finv S Sinv u K1 A1) K2 A2 = t_custom F Finv S Sinv u (fmul K1 K2) (fmul A1 A2).
Proof. rewrite (t_custom_ok u K1 A1), (t_custom_ok (cust u K1 A1) K2 A2), (t_custom_ok u (fmul K1 K2) (fmul A1 A2)). eapply custom_compose; eauto. Qed.
Theorem traced_identity u : t_custom F Finv S Sinv u fone fone = clip n m u.
Proof. rewrite (t_custom_ok u fone fone). eapply custom_id; eauto. Qed.
Theorem traced_numpy_fresnel_compose u K1 K2 d1 d2 : d1 <> 0 -> d2 <> 0 ->
  n_transfer_function_fresnel F Finv S Sinv (n_transfer_function_fresnel F Finv S Sinv u K1 d1) K2 d2 = centered F Finv S Sinv u (fmul K1 K2).
Proof. intros H1 H2. rewrite !n_transfer_function_fresnel_ok by assumption. eapply centered_compose; eauto. Qed.
Theorem traced_numpy_fresnel_identity u d : d <> 0 -> n_transfer_function_fresnel F Finv S Sinv u fone d = clip n m u.
Proof. intros H1. rewrite n_transfer_function_fresnel_ok by assumption. eapply centered_id; eauto. Qed.

(* ---- C03 on the traced pipelines *)
Theorem traced_linear a b u v K A :
  t_custom F Finv S Sinv (fadd (fscal a u) (fscal b v)) K A = fadd (fscal a (t_custom F Finv S Sinv u K A)) (fscal b (t_custom F Finv S Sinv v K A)).
Proof. rewrite (t_custom_ok (fadd (fscal a u) (fscal b v)) K A), (t_custom_ok u K A), (t_custom_ok v K A). eapply custom_linear; eauto. Qed.
Theorem traced_zero K A : t_custom F Finv S Sinv fzero K A = fzero.
Proof. rewrite (t_custom_ok fzero K A). eapply custom_zero; eauto. Qed.
Theorem traced_numpy_linear a b u v K h dx : dx <> 0 ->
  n_transfer_function_fresnel F Finv S Sinv (fadd (fscal a u) (fscal b v)) K dx
    = fadd (fscal a (n_transfer_function_fresnel F Finv S Sinv u K dx)) (fscal b (n_transfer_function_fresnel F Finv S Sinv v K dx)) /\
  n_impulse_response_fresnel F Finv S Sinv (fadd (fscal a u) (fscal b v)) h dx
    = fadd (fscal a (n_impulse_response_fresnel F Finv S Sinv u h dx)) (fscal b (n_impulse_response_fresnel F Finv S Sinv v h dx)).
Proof.
  intros Hd. rewrite !n_transfer_function_fresnel_ok, !n_impulse_response_fresnel_ok by exact Hd. split.
  - eapply centered_linear; eauto.
  - eapply conv_centered_linear; eauto.
Qed.
Lemma t_fraunhofer_ok u H dx : t_fraunhofer F S Sinv u H dx = fraun F S Sinv u (fscal (RtoC (dx ^ 2)) H).
Proof. unfold t_fraunhofer; open_pipe. scal_out. field_eq. Qed.
Lemma n_fraunhofer_ok u H dx : n_fraunhofer F S Sinv u H dx = fraun F S Sinv u (fscal (RtoC (dx ^ 2)) H).
Proof. unfold n_fraunhofer; open_pipe. scal_out. field_eq. Qed.
Theorem traced_fraunhofer_linear a b u v H dx :
  t_fraunhofer F S Sinv (fadd (fscal a u) (fscal b v)) H dx = fadd (fscal a (t_fraunhofer F S Sinv u H dx)) (fscal b (t_fraunhofer F S Sinv v H dx)) /\
  n_fraunhofer F S Sinv (fadd (fscal a u) (fscal b v)) H dx = fadd (fscal a (n_fraunhofer F S Sinv u H dx)) (fscal b (n_fraunhofer F S Sinv v H dx)).
Proof. split; [rewrite !t_fraunhofer_ok | rewrite !n_fraunhofer_ok]; eapply fraun_linear; eauto. Qed.
Section Shift.
Variable T : fld -> fld.
Variable Ph : fld.
Hypothesis modulation : forall u, F (T u) = fmul Ph (F u).
Hypothesis modulation_inv : forall U, Finv (fmul Ph U) = T (Finv U).
Theorem traced_shift u K A : t_custom F Finv S Sinv (T u) K A = T (t_custom F Finv S Sinv u K A).
Proof. rewrite (t_custom_ok (T u) K A), (t_custom_ok u K A). eapply custom_shift; eauto. Qed.
End Shift.
End P.
Print Assumptions traced_energy_conserved.
Print Assumptions traced_energy_never_created.
Print Assumptions traced_compose.
Print Assumptions traced_linear.
Print Assumptions traced_shift.

