(* C13, end to end on the traced code: the property's clauses stated directly about the definitions generated
   from /repo on this run (Run.GenC13, assembled in C13_TieA..D), for all real inputs.
   N_* = NumPy API (odak.tools / odak.raytracing), T_* = PyTorch API (odak.learn.tools). *)
From Coq Require Import Reals Lra Bool.
From OdakV Require Import Base.RealAux Base.Vec3 C13.Model C13.Lemmas.
From Run Require Import GenC13 C13_TieA C13_TieB C13_TieC C13_TieD.
Open Scope R_scope.

(* The traced definitions are frequently CONVERTIBLE to the model (same term after unfolding), which makes
   `rewrite` pick model subterms as instances of traced ones.  sr replaces syntactic occurrences only. *)
Ltac sr t := let E := fresh "E" in pose proof t as E;
  match type of E with ?l = _ => let x := fresh "x" in set (x := l) in *; clearbody x; subst x end.
Ltac sr_axes a := sr (N_rotmatx_ok a); sr (N_rotmaty_ok a); sr (N_rotmatz_ok a); sr (T_rotmatx_ok a); sr (T_rotmaty_ok a); sr (T_rotmatz_ok a).

(* every matrix the library builds is orthonormal with determinant +1 *)
Theorem traced_axis_rigid a :
  (orthonormal (N_rotmatx a) /\ mdet (N_rotmatx a) = 1) /\ (orthonormal (N_rotmaty a) /\ mdet (N_rotmaty a) = 1) /\
  (orthonormal (N_rotmatz a) /\ mdet (N_rotmatz a) = 1) /\
  (orthonormal (T_rotmatx a) /\ mdet (T_rotmatx a) = 1) /\ (orthonormal (T_rotmaty a) /\ mdet (T_rotmaty a) = 1) /\
  (orthonormal (T_rotmatz a) /\ mdet (T_rotmatz a) = 1).
Proof.
  sr_axes a.
  pose proof (axis_orthonormal a) as (H1 & H2 & H3). pose proof (axis_det1 a) as (D1 & D2 & D3). tauto.
Qed.
Theorem traced_get_rotation_matrix_rigid m a : orthonormal (T_grm m a) /\ mdet (T_grm m a) = 1.
Proof. sr (T_grm_ok m a). split; [apply rotation_matrix_orth | apply rotation_matrix_det1]. Qed.
Theorem traced_returned_matrices a :
  N_rp_rotx a = N_rotmatx (vx a) /\ N_rp_roty a = N_rotmaty (vy a) /\ N_rp_rotz a = N_rotmatz (vz a) /\
  T_rps_rotx a = T_rotmatx (vx a) /\ T_rps_roty a = T_rotmaty (vy a) /\ T_rps_rotz a = T_rotmatz (vz a).
Proof.
  destruct (N_rp_rot_ok a) as (A1 & A2 & A3), (T_rps_rot_ok a) as (B1 & B2 & B3).
  sr A1; sr A2; sr A3; sr B1; sr B2; sr B3.
  sr (N_rotmatx_ok (vx a)); sr (N_rotmaty_ok (vy a)); sr (N_rotmatz_ok (vz a)); sr (T_rotmatx_ok (vx a)); sr (T_rotmaty_ok (vy a)); sr (T_rotmatz_ok (vz a)).
  tauto.
Qed.

(* NumPy and PyTorch give the same result for the same arguments *)
Theorem traced_numpy_torch_same m p0 p1 a o f l k :
  N_rps0 m p0 p1 a o f = T_rps0 m p0 p1 a o f /\ N_rps1 m p0 p1 a o f = T_rps1 m p0 p1 a o f /\
  N_rp m p0 a o f = T_rps0 m p0 p1 a o f /\
  N_rotmatx (vx a) = T_rotmatx (vx a) /\ N_rotmaty (vx a) = T_rotmaty (vx a) /\ N_rotmatz (vx a) = T_rotmatz (vx a) /\
  N_tilt l k = T_tilt l k.
Proof.
  sr (N_rps0_ok m p0 p1 a o f); sr (N_rps1_ok m p0 p1 a o f); sr (T_rps0_ok m p0 p1 a o f); sr (T_rps1_ok m p0 p1 a o f); sr (N_rp_ok m p0 a o f).
  rewrite !np_fast_path_consistent. sr_axes (vx a). sr (N_tilt_ok l k); sr (T_tilt_ok l k).
  repeat split; reflexivity.
Qed.
(* each point of a cloud is rotated on its own (no mixing between rows) and the pairwise distance is kept *)
Theorem traced_rotate_dist m p0 p1 a o f :
  dist (N_rps0 m p0 p1 a o f) (N_rps1 m p0 p1 a o f) = dist p0 p1 /\
  dist (T_rps0 m p0 p1 a o f) (T_rps1 m p0 p1 a o f) = dist p0 p1.
Proof.
  sr (N_rps0_ok m p0 p1 a o f); sr (N_rps1_ok m p0 p1 a o f); sr (T_rps0_ok m p0 p1 a o f); sr (T_rps1_ok m p0 p1 a o f).
  rewrite !np_fast_path_consistent. split; apply rotate_dist.
Qed.
(* the origin is fixed; zero angles are the identity (also through NumPy's shortcut); the offset only translates *)
Theorem traced_origin_fixed m o p1 a :
  N_rp m o a o vzero = o /\ N_rps0 m o p1 a o vzero = o /\ T_rps0 m o p1 a o vzero = o.
Proof.
  sr (N_rp_ok m o a o vzero); sr (N_rps0_ok m o p1 a o vzero); sr (T_rps0_ok m o p1 a o vzero).
  rewrite np_fast_path_consistent. split; [|split]; apply origin_fixed.
Qed.
Theorem traced_zero_angles m p0 p1 o f :
  N_rp m p0 vzero o f = vadd p0 f /\ N_rps0 m p0 p1 vzero o f = vadd p0 f /\ N_rpz0 m p0 p1 o f = vadd p0 f /\
  N_rpz1 m p0 p1 o f = vadd p1 f /\ T_rps0 m p0 p1 vzero o f = vadd p0 f /\ T_grm m vzero = I3.
Proof.
  sr (N_rp_ok m p0 vzero o f); sr (N_rps0_ok m p0 p1 vzero o f); sr (N_rpz0_ok m p0 p1 o f); sr (N_rpz1_ok m p0 p1 o f);
  sr (T_rps0_ok m p0 p1 vzero o f); sr (T_grm_ok m vzero).
  rewrite np_fast_path_consistent, !zero_angles_id, zero_angles_matrix. repeat split; reflexivity.
Qed.
Theorem traced_offset_translation m p0 p1 a o f :
  N_rp m p0 a o f = vadd (N_rp m p0 a o vzero) f /\ N_rps1 m p0 p1 a o f = vadd (N_rps1 m p0 p1 a o vzero) f /\
  T_rps1 m p0 p1 a o f = vadd (T_rps1 m p0 p1 a o vzero) f.
Proof.
  sr (N_rp_ok m p0 a o f); sr (N_rp_ok m p0 a o vzero); sr (N_rps1_ok m p0 p1 a o f); sr (N_rps1_ok m p0 p1 a o vzero);
  sr (T_rps1_ok m p0 p1 a o f); sr (T_rps1_ok m p0 p1 a o vzero).
  rewrite !np_fast_path_consistent. split; [|split]; apply offset_translation.
Qed.
(* the mode string selects the stated product: rotate_point(s) apply the matrix get_rotation_matrix returns *)
Theorem traced_mode_is_product m p0 p1 a :
  N_rp m p0 a vzero vzero = mapply (T_grm m a) p0 /\ T_rps1 m p0 p1 a vzero vzero = mapply (T_grm m a) p1 /\
  T_grm m a = mode_product m (N_rotmatx (vx a)) (N_rotmaty (vy a)) (N_rotmatz (vz a)).
Proof.
  sr (N_rp_ok m p0 a vzero vzero); sr (T_rps1_ok m p0 p1 a vzero vzero); sr (T_grm_ok m a).
  sr (N_rotmatx_ok (vx a)); sr (N_rotmaty_ok (vy a)); sr (N_rotmatz_ok (vz a)).
  rewrite !rotate_is_matrix, !vsub_zero, !vadd_zero. repeat split; reflexivity.
Qed.
(* bring_plane_to_origin (negated angles, reversed mode string) restores the points that rotate_points moved, for
   every mode whose reversed string is a mode *)
Theorem traced_inverse m r p0 p1 a c : reverse_mode m = Some r ->
  N_bpo0 m (N_rps0 m p0 p1 a vzero c) (N_rps1 m p0 p1 a vzero c) a c = Some p0 /\
  N_bpo1 m (N_rps0 m p0 p1 a vzero c) (N_rps1 m p0 p1 a vzero c) a c = Some p1 /\
  N_bpo0 m (T_rps0 m p0 p1 a vzero c) (T_rps1 m p0 p1 a vzero c) a c = Some p0.
Proof.
  intros Hr.
  sr (N_bpo0_ok m (N_rps0 m p0 p1 a vzero c) (N_rps1 m p0 p1 a vzero c) a c).
  sr (N_bpo1_ok m (N_rps0 m p0 p1 a vzero c) (N_rps1 m p0 p1 a vzero c) a c).
  sr (N_bpo0_ok m (T_rps0 m p0 p1 a vzero c) (T_rps1 m p0 p1 a vzero c) a c).
  sr (N_rps0_ok m p0 p1 a vzero c); sr (N_rps1_ok m p0 p1 a vzero c); sr (T_rps0_ok m p0 p1 a vzero c).
  rewrite !np_fast_path_consistent.
  split; [|split]; apply (bring_to_origin_inverse m r); exact Hr.
Qed.
(* tilt_towards of either API turns the z axis into the unit vector lookat -> location *)
Theorem traced_tilt l k : 0 < vnorm2 (vsub l k) ->
  N_rp XYZ (0, 0, 1) (N_tilt l k) vzero vzero = vscale (/ vnorm (vsub l k)) (vsub l k) /\
  T_rps0 XYZ (0, 0, 1) (0, 0, 1) (T_tilt l k) vzero vzero = vscale (/ vnorm (vsub l k)) (vsub l k).
Proof.
  intros H. sr (N_rp_ok XYZ (0, 0, 1) (N_tilt l k) vzero vzero). sr (T_rps0_ok XYZ (0, 0, 1) (0, 0, 1) (T_tilt l k) vzero vzero).
  sr (N_tilt_ok l k); sr (T_tilt_ok l k). split; apply tilt_towards_points, H.
Qed.
(* whole turns do not matter *)
Theorem traced_deg_period m p0 p1 a o f kx ky kz :
  N_rp m p0 (vx a + 360 * IZR kx, vy a + 360 * IZR ky, vz a + 360 * IZR kz) o f = N_rp m p0 a o f /\
  T_rps0 m p0 p1 (vx a + 360 * IZR kx, vy a + 360 * IZR ky, vz a + 360 * IZR kz) o f = T_rps0 m p0 p1 a o f.
Proof.
  sr (N_rp_ok m p0 (vx a + 360 * IZR kx, vy a + 360 * IZR ky, vz a + 360 * IZR kz) o f); sr (N_rp_ok m p0 a o f).
  sr (T_rps0_ok m p0 p1 (vx a + 360 * IZR kx, vy a + 360 * IZR ky, vz a + 360 * IZR kz) o f); sr (T_rps0_ok m p0 p1 a o f).
  split; apply deg_period.
Qed.

Print Assumptions traced_axis_rigid.
Print Assumptions traced_numpy_torch_same.
Print Assumptions traced_inverse.
Print Assumptions traced_tilt.
