(* C05 tie (B1), compiled on every run against Run.GenC05 = the colour conversions traced from the CURRENT source.

   For every traced colour conversion, on its whole documented input range (RGB / YCrCb / linear RGB / XYZ images in
   [0,1], Lab: all reals; the HSV pair is checked numerically only), every SINGULARITY side condition (argument of a fractional power,
   logarithm or square root positive, denominators non-zero) of every instruction holds, whatever branch torch.where
   selects.  Together with C05_dom_of_split and C05_ssa_correct: the only inputs of these functions outside the
   autograd-safe domain are the branch thresholds, ties of max / min and hue sector borders (documented non-smooth
   points).  On the code as found this fails for srgb_to_lab and lab_to_srgb (power of an unclamped value: NaN gradient
   at black and for out-of-gamut colours). *)
From Coq Require Import Reals QArith Qreals Lra Lia List Bool Arith.
From OdakV Require Import Base.RealAux C05.Model C05.Lemmas.
Require Import Run.GenC05.
Import ListNotations.
Open Scope R_scope.

Fixpoint hardV (p : list expr) (k : nat) (r : envT) : Prop :=
  match p with
  | [] => True
  | e :: q => List.Forall (holds r) (filter hard (conds e)) /\ hardV q (S k) (upd r k (eval e r))
  end.

Definition box (n : nat) (lo hi : R) (r : envT) : Prop := forall i, (i < n)%nat -> lo <= r i <= hi.

Ltac cases := repeat match goal with |- context [Rlt_dec ?a ?b] => destruct (Rlt_dec a b) end.
Ltac arith := first [ lra | apply Rgt_not_eq; lra | apply Rlt_not_eq; lra ].
Ltac one := cbv [holds strict nonint]; cbn [eval upd Nat.eqb lconst andb]; unfold Q2R; cbn [Qnum Qden]; cases; arith.
Ltac conds_here := cbv [conds filter hard app]; repeat (first [ apply Forall_nil | apply Forall_cons ]); try one.
(* instruction by instruction; the value of a finished instruction is generalised to an arbitrary real: the side
   conditions below hold whatever the earlier program variables are (powers are taken of clamped values) *)
Lemma hardV_cons e q k r : List.Forall (holds r) (filter hard (conds e)) -> (forall v, hardV q (S k) (upd r k v)) -> hardV (e :: q) k r.
Proof. intros H1 H2. split; [exact H1 | apply H2]. Qed.
Ltac steps :=
  match goal with
  | |- hardV [] _ _ => exact I
  | |- hardV (_ :: _) _ _ => apply hardV_cons; [ conds_here | let v := fresh "v" in intro v; steps ]
  end.
Ltac start6 r Hb :=
  pose proof (Hb 0%nat ltac:(lia)); pose proof (Hb 1%nat ltac:(lia)); pose proof (Hb 2%nat ltac:(lia));
  pose proof (Hb 3%nat ltac:(lia)); pose proof (Hb 4%nat ltac:(lia)); pose proof (Hb 5%nat ltac:(lia)); clear Hb.

Lemma tie_rgb_2_ycrcb : forall r, hardV p_rgb_2_ycrcb 6 r.
Proof. intros r. unfold p_rgb_2_ycrcb. steps. Qed.
Lemma tie_ycrcb_2_rgb : forall r, hardV p_ycrcb_2_rgb 6 r.
Proof. intros r. unfold p_ycrcb_2_rgb. steps. Qed.
Lemma tie_linear_rgb_to_xyz : forall r, hardV p_linear_rgb_to_xyz 6 r.
Proof. intros r. unfold p_linear_rgb_to_xyz. steps. Qed.
Lemma tie_xyz_to_linear_rgb : forall r, hardV p_xyz_to_linear_rgb 6 r.
Proof. intros r. unfold p_xyz_to_linear_rgb. steps. Qed.
Lemma tie_rgb_to_linear_rgb : forall r, box 6 0 1 r -> hardV p_rgb_to_linear_rgb 6 r.
Proof. intros r Hb. start6 r Hb. unfold p_rgb_to_linear_rgb. steps. Qed.
Lemma tie_linear_rgb_to_rgb : forall r, hardV p_linear_rgb_to_rgb 6 r.
Proof. intros r. unfold p_linear_rgb_to_rgb. steps. Qed.
Lemma tie_srgb_to_lab : forall r, box 6 0 1 r -> hardV p_srgb_to_lab 6 r.
Proof. intros r Hb. start6 r Hb. unfold p_srgb_to_lab. steps. Qed.
Lemma tie_lab_to_srgb : forall r, hardV p_lab_to_srgb 6 r.
Proof. intros r. unfold p_lab_to_srgb. steps. Qed.

Print Assumptions tie_srgb_to_lab.
Print Assumptions tie_lab_to_srgb.
