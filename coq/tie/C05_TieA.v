(* C05 tie (B1), compiled on every run against Run.GenC05 = the colour conversions traced from the CURRENT source. *)
From Coq Require Import Reals QArith Qreals Lra List Bool.
From OdakV Require Import Base.RealAux C05.Model C05.Lemmas.
Require Import Run.GenC05.
Import ListNotations.
Open Scope R_scope.
Goal True. exact I. Qed.
