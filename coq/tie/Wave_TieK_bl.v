(* Wave tie, band-limited kernel bl: statements about the definitions traced from /repo on this run (Run.GenWaveK).
   Compiled on every run. *)
From Coq Require Import Reals Lra Bool.
From Coquelicot Require Import Complex.
From OdakV Require Import Base.RealAux Wave.Fields Wave.Kernels.
From Run Require Import GenWaveK.
Open Scope R_scope.

Ltac sqrt_canon :=
  repeat match goal with |- context [sqrt ?a] => progress ring_simplify a end.
Ltac align_sqrt tac :=
  match goal with |- ?L = ?R =>
    match L with context [sqrt ?a] => match R with context [sqrt ?b] =>
      replace (sqrt a) with (sqrt b) by (f_equal; tac) end end end.

Lemma bl_pix_0_0 dx lam z : (bl_re_0_0 dx lam z, bl_im_0_0 dx lam z) = Cmult (RtoC (mask01 (bl_mask_0_0 dx lam z))) (Cexpi (bl_ph_0_0 dx lam z)).
Proof. rewrite <- masked_pixel. unfold bl_re_0_0, bl_im_0_0, mask01. fold (bl_mask_0_0 dx lam z). fold (bl_ph_0_0 dx lam z). f_equal; destruct (bl_mask_0_0 dx lam z); ring. Qed.
Lemma bl_add_0_0 dx lam z1 z2 : bl_ph_0_0 dx lam (z1 + z2) = bl_ph_0_0 dx lam z1 + bl_ph_0_0 dx lam z2.
Proof. unfold bl_ph_0_0. ring. Qed.
Lemma bl_laws_0_0 dx lam z1 z2 :
  n2 (bl_re_0_0 dx lam z1, bl_im_0_0 dx lam z1) <= 1 /\
  (bl_mask_0_0 dx lam z1 = true -> bl_mask_0_0 dx lam z2 = true -> bl_mask_0_0 dx lam (z1 + z2) = true ->
   Cmult (bl_re_0_0 dx lam z1, bl_im_0_0 dx lam z1) (bl_re_0_0 dx lam z2, bl_im_0_0 dx lam z2) = (bl_re_0_0 dx lam (z1 + z2), bl_im_0_0 dx lam (z1 + z2))).
Proof.
  rewrite !bl_pix_0_0. split; [apply masked_n2_le|].
  intros H1 H2 H3. rewrite H1, H2, H3. unfold mask01.
  replace (Cmult (Cmult (RtoC 1) (Cexpi (bl_ph_0_0 dx lam z1))) (Cmult (RtoC 1) (Cexpi (bl_ph_0_0 dx lam z2))))
    with (Cmult (RtoC 1) (Cmult (Cexpi (bl_ph_0_0 dx lam z1)) (Cexpi (bl_ph_0_0 dx lam z2)))) by ring.
  f_equal. apply (kernel_compose (bl_ph_0_0 dx lam)), bl_add_0_0.
Qed.
Lemma bl_mask_even_0_0 dx lam z : bl_mask_0_0 dx lam (- z) = bl_mask_0_0 dx lam z.
Proof. unfold bl_mask_0_0. sqrt_canon. reflexivity. Qed.
Lemma bl_radnn_0_0 dx lam z : 0 < lam -> 0 < dx -> lam * lam <= 2 * (dx * dx) -> 0 <= bl_rad_0_0 dx lam z.
Proof.
  intros Hl Hd Hg. replace (bl_rad_0_0 dx lam z) with (1 / (lam ^ 2) - (((- (7 / 16)) / dx) ^ 2 + ((- (5 / 12)) / dx) ^ 2)) by (unfold bl_rad_0_0; field; lra).
  apply rad_bl_nonneg; try assumption; lra.
Qed.
Lemma bl_pix_0_1 dx lam z : (bl_re_0_1 dx lam z, bl_im_0_1 dx lam z) = Cmult (RtoC (mask01 (bl_mask_0_1 dx lam z))) (Cexpi (bl_ph_0_1 dx lam z)).
Proof. rewrite <- masked_pixel. unfold bl_re_0_1, bl_im_0_1, mask01. fold (bl_mask_0_1 dx lam z). fold (bl_ph_0_1 dx lam z). f_equal; destruct (bl_mask_0_1 dx lam z); ring. Qed.
Lemma bl_add_0_1 dx lam z1 z2 : bl_ph_0_1 dx lam (z1 + z2) = bl_ph_0_1 dx lam z1 + bl_ph_0_1 dx lam z2.
Proof. unfold bl_ph_0_1. ring. Qed.
Lemma bl_laws_0_1 dx lam z1 z2 :
  n2 (bl_re_0_1 dx lam z1, bl_im_0_1 dx lam z1) <= 1 /\
  (bl_mask_0_1 dx lam z1 = true -> bl_mask_0_1 dx lam z2 = true -> bl_mask_0_1 dx lam (z1 + z2) = true ->
   Cmult (bl_re_0_1 dx lam z1, bl_im_0_1 dx lam z1) (bl_re_0_1 dx lam z2, bl_im_0_1 dx lam z2) = (bl_re_0_1 dx lam (z1 + z2), bl_im_0_1 dx lam (z1 + z2))).
Proof.
  rewrite !bl_pix_0_1. split; [apply masked_n2_le|].
  intros H1 H2 H3. rewrite H1, H2, H3. unfold mask01.
  replace (Cmult (Cmult (RtoC 1) (Cexpi (bl_ph_0_1 dx lam z1))) (Cmult (RtoC 1) (Cexpi (bl_ph_0_1 dx lam z2))))
    with (Cmult (RtoC 1) (Cmult (Cexpi (bl_ph_0_1 dx lam z1)) (Cexpi (bl_ph_0_1 dx lam z2)))) by ring.
  f_equal. apply (kernel_compose (bl_ph_0_1 dx lam)), bl_add_0_1.
Qed.
Lemma bl_mask_even_0_1 dx lam z : bl_mask_0_1 dx lam (- z) = bl_mask_0_1 dx lam z.
Proof. unfold bl_mask_0_1. sqrt_canon. reflexivity. Qed.
Lemma bl_radnn_0_1 dx lam z : 0 < lam -> 0 < dx -> lam * lam <= 2 * (dx * dx) -> 0 <= bl_rad_0_1 dx lam z.
Proof.
  intros Hl Hd Hg. replace (bl_rad_0_1 dx lam z) with (1 / (lam ^ 2) - (((- (7 / 48)) / dx) ^ 2 + ((- (5 / 12)) / dx) ^ 2)) by (unfold bl_rad_0_1; field; lra).
  apply rad_bl_nonneg; try assumption; lra.
Qed.
Lemma bl_pix_0_2 dx lam z : (bl_re_0_2 dx lam z, bl_im_0_2 dx lam z) = Cmult (RtoC (mask01 (bl_mask_0_2 dx lam z))) (Cexpi (bl_ph_0_2 dx lam z)).
Proof. rewrite <- masked_pixel. unfold bl_re_0_2, bl_im_0_2, mask01. fold (bl_mask_0_2 dx lam z). fold (bl_ph_0_2 dx lam z). f_equal; destruct (bl_mask_0_2 dx lam z); ring. Qed.
Lemma bl_add_0_2 dx lam z1 z2 : bl_ph_0_2 dx lam (z1 + z2) = bl_ph_0_2 dx lam z1 + bl_ph_0_2 dx lam z2.
Proof. unfold bl_ph_0_2. ring. Qed.
Lemma bl_laws_0_2 dx lam z1 z2 :
  n2 (bl_re_0_2 dx lam z1, bl_im_0_2 dx lam z1) <= 1 /\
  (bl_mask_0_2 dx lam z1 = true -> bl_mask_0_2 dx lam z2 = true -> bl_mask_0_2 dx lam (z1 + z2) = true ->
   Cmult (bl_re_0_2 dx lam z1, bl_im_0_2 dx lam z1) (bl_re_0_2 dx lam z2, bl_im_0_2 dx lam z2) = (bl_re_0_2 dx lam (z1 + z2), bl_im_0_2 dx lam (z1 + z2))).
Proof.
  rewrite !bl_pix_0_2. split; [apply masked_n2_le|].
  intros H1 H2 H3. rewrite H1, H2, H3. unfold mask01.
  replace (Cmult (Cmult (RtoC 1) (Cexpi (bl_ph_0_2 dx lam z1))) (Cmult (RtoC 1) (Cexpi (bl_ph_0_2 dx lam z2))))
    with (Cmult (RtoC 1) (Cmult (Cexpi (bl_ph_0_2 dx lam z1)) (Cexpi (bl_ph_0_2 dx lam z2)))) by ring.
  f_equal. apply (kernel_compose (bl_ph_0_2 dx lam)), bl_add_0_2.
Qed.
Lemma bl_mask_even_0_2 dx lam z : bl_mask_0_2 dx lam (- z) = bl_mask_0_2 dx lam z.
Proof. unfold bl_mask_0_2. sqrt_canon. reflexivity. Qed.
Lemma bl_radnn_0_2 dx lam z : 0 < lam -> 0 < dx -> lam * lam <= 2 * (dx * dx) -> 0 <= bl_rad_0_2 dx lam z.
Proof.
  intros Hl Hd Hg. replace (bl_rad_0_2 dx lam z) with (1 / (lam ^ 2) - (((7 / 48) / dx) ^ 2 + ((- (5 / 12)) / dx) ^ 2)) by (unfold bl_rad_0_2; field; lra).
  apply rad_bl_nonneg; try assumption; lra.
Qed.
Lemma bl_pix_0_3 dx lam z : (bl_re_0_3 dx lam z, bl_im_0_3 dx lam z) = Cmult (RtoC (mask01 (bl_mask_0_3 dx lam z))) (Cexpi (bl_ph_0_3 dx lam z)).
Proof. rewrite <- masked_pixel. unfold bl_re_0_3, bl_im_0_3, mask01. fold (bl_mask_0_3 dx lam z). fold (bl_ph_0_3 dx lam z). f_equal; destruct (bl_mask_0_3 dx lam z); ring. Qed.
Lemma bl_add_0_3 dx lam z1 z2 : bl_ph_0_3 dx lam (z1 + z2) = bl_ph_0_3 dx lam z1 + bl_ph_0_3 dx lam z2.
Proof. unfold bl_ph_0_3. ring. Qed.
Lemma bl_laws_0_3 dx lam z1 z2 :
  n2 (bl_re_0_3 dx lam z1, bl_im_0_3 dx lam z1) <= 1 /\
  (bl_mask_0_3 dx lam z1 = true -> bl_mask_0_3 dx lam z2 = true -> bl_mask_0_3 dx lam (z1 + z2) = true ->
   Cmult (bl_re_0_3 dx lam z1, bl_im_0_3 dx lam z1) (bl_re_0_3 dx lam z2, bl_im_0_3 dx lam z2) = (bl_re_0_3 dx lam (z1 + z2), bl_im_0_3 dx lam (z1 + z2))).
Proof.
  rewrite !bl_pix_0_3. split; [apply masked_n2_le|].
  intros H1 H2 H3. rewrite H1, H2, H3. unfold mask01.
  replace (Cmult (Cmult (RtoC 1) (Cexpi (bl_ph_0_3 dx lam z1))) (Cmult (RtoC 1) (Cexpi (bl_ph_0_3 dx lam z2))))
    with (Cmult (RtoC 1) (Cmult (Cexpi (bl_ph_0_3 dx lam z1)) (Cexpi (bl_ph_0_3 dx lam z2)))) by ring.
  f_equal. apply (kernel_compose (bl_ph_0_3 dx lam)), bl_add_0_3.
Qed.
Lemma bl_mask_even_0_3 dx lam z : bl_mask_0_3 dx lam (- z) = bl_mask_0_3 dx lam z.
Proof. unfold bl_mask_0_3. sqrt_canon. reflexivity. Qed.
Lemma bl_radnn_0_3 dx lam z : 0 < lam -> 0 < dx -> lam * lam <= 2 * (dx * dx) -> 0 <= bl_rad_0_3 dx lam z.
Proof.
  intros Hl Hd Hg. replace (bl_rad_0_3 dx lam z) with (1 / (lam ^ 2) - (((7 / 16) / dx) ^ 2 + ((- (5 / 12)) / dx) ^ 2)) by (unfold bl_rad_0_3; field; lra).
  apply rad_bl_nonneg; try assumption; lra.
Qed.
Lemma bl_pix_1_0 dx lam z : (bl_re_1_0 dx lam z, bl_im_1_0 dx lam z) = Cmult (RtoC (mask01 (bl_mask_1_0 dx lam z))) (Cexpi (bl_ph_1_0 dx lam z)).
Proof. rewrite <- masked_pixel. unfold bl_re_1_0, bl_im_1_0, mask01. fold (bl_mask_1_0 dx lam z). fold (bl_ph_1_0 dx lam z). f_equal; destruct (bl_mask_1_0 dx lam z); ring. Qed.
Lemma bl_add_1_0 dx lam z1 z2 : bl_ph_1_0 dx lam (z1 + z2) = bl_ph_1_0 dx lam z1 + bl_ph_1_0 dx lam z2.
Proof. unfold bl_ph_1_0. ring. Qed.
Lemma bl_laws_1_0 dx lam z1 z2 :
  n2 (bl_re_1_0 dx lam z1, bl_im_1_0 dx lam z1) <= 1 /\
  (bl_mask_1_0 dx lam z1 = true -> bl_mask_1_0 dx lam z2 = true -> bl_mask_1_0 dx lam (z1 + z2) = true ->
   Cmult (bl_re_1_0 dx lam z1, bl_im_1_0 dx lam z1) (bl_re_1_0 dx lam z2, bl_im_1_0 dx lam z2) = (bl_re_1_0 dx lam (z1 + z2), bl_im_1_0 dx lam (z1 + z2))).
Proof.
  rewrite !bl_pix_1_0. split; [apply masked_n2_le|].
  intros H1 H2 H3. rewrite H1, H2, H3. unfold mask01.
  replace (Cmult (Cmult (RtoC 1) (Cexpi (bl_ph_1_0 dx lam z1))) (Cmult (RtoC 1) (Cexpi (bl_ph_1_0 dx lam z2))))
    with (Cmult (RtoC 1) (Cmult (Cexpi (bl_ph_1_0 dx lam z1)) (Cexpi (bl_ph_1_0 dx lam z2)))) by ring.
  f_equal. apply (kernel_compose (bl_ph_1_0 dx lam)), bl_add_1_0.
Qed.
Lemma bl_mask_even_1_0 dx lam z : bl_mask_1_0 dx lam (- z) = bl_mask_1_0 dx lam z.
Proof. unfold bl_mask_1_0. sqrt_canon. reflexivity. Qed.
Lemma bl_radnn_1_0 dx lam z : 0 < lam -> 0 < dx -> lam * lam <= 2 * (dx * dx) -> 0 <= bl_rad_1_0 dx lam z.
Proof.
  intros Hl Hd Hg. replace (bl_rad_1_0 dx lam z) with (1 / (lam ^ 2) - (((- (7 / 16)) / dx) ^ 2 + ((0 / 1) / dx) ^ 2)) by (unfold bl_rad_1_0; field; lra).
  apply rad_bl_nonneg; try assumption; lra.
Qed.
Lemma bl_pix_1_1 dx lam z : (bl_re_1_1 dx lam z, bl_im_1_1 dx lam z) = Cmult (RtoC (mask01 (bl_mask_1_1 dx lam z))) (Cexpi (bl_ph_1_1 dx lam z)).
Proof. rewrite <- masked_pixel. unfold bl_re_1_1, bl_im_1_1, mask01. fold (bl_mask_1_1 dx lam z). fold (bl_ph_1_1 dx lam z). f_equal; destruct (bl_mask_1_1 dx lam z); ring. Qed.
Lemma bl_add_1_1 dx lam z1 z2 : bl_ph_1_1 dx lam (z1 + z2) = bl_ph_1_1 dx lam z1 + bl_ph_1_1 dx lam z2.
Proof. unfold bl_ph_1_1. ring. Qed.
Lemma bl_laws_1_1 dx lam z1 z2 :
  n2 (bl_re_1_1 dx lam z1, bl_im_1_1 dx lam z1) <= 1 /\
  (bl_mask_1_1 dx lam z1 = true -> bl_mask_1_1 dx lam z2 = true -> bl_mask_1_1 dx lam (z1 + z2) = true ->
   Cmult (bl_re_1_1 dx lam z1, bl_im_1_1 dx lam z1) (bl_re_1_1 dx lam z2, bl_im_1_1 dx lam z2) = (bl_re_1_1 dx lam (z1 + z2), bl_im_1_1 dx lam (z1 + z2))).
Proof.
  rewrite !bl_pix_1_1. split; [apply masked_n2_le|].
  intros H1 H2 H3. rewrite H1, H2, H3. unfold mask01.
  replace (Cmult (Cmult (RtoC 1) (Cexpi (bl_ph_1_1 dx lam z1))) (Cmult (RtoC 1) (Cexpi (bl_ph_1_1 dx lam z2))))
    with (Cmult (RtoC 1) (Cmult (Cexpi (bl_ph_1_1 dx lam z1)) (Cexpi (bl_ph_1_1 dx lam z2)))) by ring.
  f_equal. apply (kernel_compose (bl_ph_1_1 dx lam)), bl_add_1_1.
Qed.
Lemma bl_mask_even_1_1 dx lam z : bl_mask_1_1 dx lam (- z) = bl_mask_1_1 dx lam z.
Proof. unfold bl_mask_1_1. sqrt_canon. reflexivity. Qed.
Lemma bl_radnn_1_1 dx lam z : 0 < lam -> 0 < dx -> lam * lam <= 2 * (dx * dx) -> 0 <= bl_rad_1_1 dx lam z.
Proof.
  intros Hl Hd Hg. replace (bl_rad_1_1 dx lam z) with (1 / (lam ^ 2) - (((- (7 / 48)) / dx) ^ 2 + ((0 / 1) / dx) ^ 2)) by (unfold bl_rad_1_1; field; lra).
  apply rad_bl_nonneg; try assumption; lra.
Qed.
Lemma bl_pix_1_2 dx lam z : (bl_re_1_2 dx lam z, bl_im_1_2 dx lam z) = Cmult (RtoC (mask01 (bl_mask_1_2 dx lam z))) (Cexpi (bl_ph_1_2 dx lam z)).
Proof. rewrite <- masked_pixel. unfold bl_re_1_2, bl_im_1_2, mask01. fold (bl_mask_1_2 dx lam z). fold (bl_ph_1_2 dx lam z). f_equal; destruct (bl_mask_1_2 dx lam z); ring. Qed.
Lemma bl_add_1_2 dx lam z1 z2 : bl_ph_1_2 dx lam (z1 + z2) = bl_ph_1_2 dx lam z1 + bl_ph_1_2 dx lam z2.
Proof. unfold bl_ph_1_2. ring. Qed.
Lemma bl_laws_1_2 dx lam z1 z2 :
  n2 (bl_re_1_2 dx lam z1, bl_im_1_2 dx lam z1) <= 1 /\
  (bl_mask_1_2 dx lam z1 = true -> bl_mask_1_2 dx lam z2 = true -> bl_mask_1_2 dx lam (z1 + z2) = true ->
   Cmult (bl_re_1_2 dx lam z1, bl_im_1_2 dx lam z1) (bl_re_1_2 dx lam z2, bl_im_1_2 dx lam z2) = (bl_re_1_2 dx lam (z1 + z2), bl_im_1_2 dx lam (z1 + z2))).
Proof.
  rewrite !bl_pix_1_2. split; [apply masked_n2_le|].
  intros H1 H2 H3. rewrite H1, H2, H3. unfold mask01.
  replace (Cmult (Cmult (RtoC 1) (Cexpi (bl_ph_1_2 dx lam z1))) (Cmult (RtoC 1) (Cexpi (bl_ph_1_2 dx lam z2))))
    with (Cmult (RtoC 1) (Cmult (Cexpi (bl_ph_1_2 dx lam z1)) (Cexpi (bl_ph_1_2 dx lam z2)))) by ring.
  f_equal. apply (kernel_compose (bl_ph_1_2 dx lam)), bl_add_1_2.
Qed.
Lemma bl_mask_even_1_2 dx lam z : bl_mask_1_2 dx lam (- z) = bl_mask_1_2 dx lam z.
Proof. unfold bl_mask_1_2. sqrt_canon. reflexivity. Qed.
Lemma bl_radnn_1_2 dx lam z : 0 < lam -> 0 < dx -> lam * lam <= 2 * (dx * dx) -> 0 <= bl_rad_1_2 dx lam z.
Proof.
  intros Hl Hd Hg. replace (bl_rad_1_2 dx lam z) with (1 / (lam ^ 2) - (((7 / 48) / dx) ^ 2 + ((0 / 1) / dx) ^ 2)) by (unfold bl_rad_1_2; field; lra).
  apply rad_bl_nonneg; try assumption; lra.
Qed.
Lemma bl_pix_1_3 dx lam z : (bl_re_1_3 dx lam z, bl_im_1_3 dx lam z) = Cmult (RtoC (mask01 (bl_mask_1_3 dx lam z))) (Cexpi (bl_ph_1_3 dx lam z)).
Proof. rewrite <- masked_pixel. unfold bl_re_1_3, bl_im_1_3, mask01. fold (bl_mask_1_3 dx lam z). fold (bl_ph_1_3 dx lam z). f_equal; destruct (bl_mask_1_3 dx lam z); ring. Qed.
Lemma bl_add_1_3 dx lam z1 z2 : bl_ph_1_3 dx lam (z1 + z2) = bl_ph_1_3 dx lam z1 + bl_ph_1_3 dx lam z2.
Proof. unfold bl_ph_1_3. ring. Qed.
Lemma bl_laws_1_3 dx lam z1 z2 :
  n2 (bl_re_1_3 dx lam z1, bl_im_1_3 dx lam z1) <= 1 /\
  (bl_mask_1_3 dx lam z1 = true -> bl_mask_1_3 dx lam z2 = true -> bl_mask_1_3 dx lam (z1 + z2) = true ->
   Cmult (bl_re_1_3 dx lam z1, bl_im_1_3 dx lam z1) (bl_re_1_3 dx lam z2, bl_im_1_3 dx lam z2) = (bl_re_1_3 dx lam (z1 + z2), bl_im_1_3 dx lam (z1 + z2))).
Proof.
  rewrite !bl_pix_1_3. split; [apply masked_n2_le|].
  intros H1 H2 H3. rewrite H1, H2, H3. unfold mask01.
  replace (Cmult (Cmult (RtoC 1) (Cexpi (bl_ph_1_3 dx lam z1))) (Cmult (RtoC 1) (Cexpi (bl_ph_1_3 dx lam z2))))
    with (Cmult (RtoC 1) (Cmult (Cexpi (bl_ph_1_3 dx lam z1)) (Cexpi (bl_ph_1_3 dx lam z2)))) by ring.
  f_equal. apply (kernel_compose (bl_ph_1_3 dx lam)), bl_add_1_3.
Qed.
Lemma bl_mask_even_1_3 dx lam z : bl_mask_1_3 dx lam (- z) = bl_mask_1_3 dx lam z.
Proof. unfold bl_mask_1_3. sqrt_canon. reflexivity. Qed.
Lemma bl_radnn_1_3 dx lam z : 0 < lam -> 0 < dx -> lam * lam <= 2 * (dx * dx) -> 0 <= bl_rad_1_3 dx lam z.
Proof.
  intros Hl Hd Hg. replace (bl_rad_1_3 dx lam z) with (1 / (lam ^ 2) - (((7 / 16) / dx) ^ 2 + ((0 / 1) / dx) ^ 2)) by (unfold bl_rad_1_3; field; lra).
  apply rad_bl_nonneg; try assumption; lra.
Qed.
Lemma bl_pix_2_0 dx lam z : (bl_re_2_0 dx lam z, bl_im_2_0 dx lam z) = Cmult (RtoC (mask01 (bl_mask_2_0 dx lam z))) (Cexpi (bl_ph_2_0 dx lam z)).
Proof. rewrite <- masked_pixel. unfold bl_re_2_0, bl_im_2_0, mask01. fold (bl_mask_2_0 dx lam z). fold (bl_ph_2_0 dx lam z). f_equal; destruct (bl_mask_2_0 dx lam z); ring. Qed.
Lemma bl_add_2_0 dx lam z1 z2 : bl_ph_2_0 dx lam (z1 + z2) = bl_ph_2_0 dx lam z1 + bl_ph_2_0 dx lam z2.
Proof. unfold bl_ph_2_0. ring. Qed.
Lemma bl_laws_2_0 dx lam z1 z2 :
  n2 (bl_re_2_0 dx lam z1, bl_im_2_0 dx lam z1) <= 1 /\
  (bl_mask_2_0 dx lam z1 = true -> bl_mask_2_0 dx lam z2 = true -> bl_mask_2_0 dx lam (z1 + z2) = true ->
   Cmult (bl_re_2_0 dx lam z1, bl_im_2_0 dx lam z1) (bl_re_2_0 dx lam z2, bl_im_2_0 dx lam z2) = (bl_re_2_0 dx lam (z1 + z2), bl_im_2_0 dx lam (z1 + z2))).
Proof.
  rewrite !bl_pix_2_0. split; [apply masked_n2_le|].
  intros H1 H2 H3. rewrite H1, H2, H3. unfold mask01.
  replace (Cmult (Cmult (RtoC 1) (Cexpi (bl_ph_2_0 dx lam z1))) (Cmult (RtoC 1) (Cexpi (bl_ph_2_0 dx lam z2))))
    with (Cmult (RtoC 1) (Cmult (Cexpi (bl_ph_2_0 dx lam z1)) (Cexpi (bl_ph_2_0 dx lam z2)))) by ring.
  f_equal. apply (kernel_compose (bl_ph_2_0 dx lam)), bl_add_2_0.
Qed.
Lemma bl_mask_even_2_0 dx lam z : bl_mask_2_0 dx lam (- z) = bl_mask_2_0 dx lam z.
Proof. unfold bl_mask_2_0. sqrt_canon. reflexivity. Qed.
Lemma bl_radnn_2_0 dx lam z : 0 < lam -> 0 < dx -> lam * lam <= 2 * (dx * dx) -> 0 <= bl_rad_2_0 dx lam z.
Proof.
  intros Hl Hd Hg. replace (bl_rad_2_0 dx lam z) with (1 / (lam ^ 2) - (((- (7 / 16)) / dx) ^ 2 + ((5 / 12) / dx) ^ 2)) by (unfold bl_rad_2_0; field; lra).
  apply rad_bl_nonneg; try assumption; lra.
Qed.
Lemma bl_pix_2_1 dx lam z : (bl_re_2_1 dx lam z, bl_im_2_1 dx lam z) = Cmult (RtoC (mask01 (bl_mask_2_1 dx lam z))) (Cexpi (bl_ph_2_1 dx lam z)).
Proof. rewrite <- masked_pixel. unfold bl_re_2_1, bl_im_2_1, mask01. fold (bl_mask_2_1 dx lam z). fold (bl_ph_2_1 dx lam z). f_equal; destruct (bl_mask_2_1 dx lam z); ring. Qed.
Lemma bl_add_2_1 dx lam z1 z2 : bl_ph_2_1 dx lam (z1 + z2) = bl_ph_2_1 dx lam z1 + bl_ph_2_1 dx lam z2.
Proof. unfold bl_ph_2_1. ring. Qed.
Lemma bl_laws_2_1 dx lam z1 z2 :
  n2 (bl_re_2_1 dx lam z1, bl_im_2_1 dx lam z1) <= 1 /\
  (bl_mask_2_1 dx lam z1 = true -> bl_mask_2_1 dx lam z2 = true -> bl_mask_2_1 dx lam (z1 + z2) = true ->
   Cmult (bl_re_2_1 dx lam z1, bl_im_2_1 dx lam z1) (bl_re_2_1 dx lam z2, bl_im_2_1 dx lam z2) = (bl_re_2_1 dx lam (z1 + z2), bl_im_2_1 dx lam (z1 + z2))).
Proof.
  rewrite !bl_pix_2_1. split; [apply masked_n2_le|].
  intros H1 H2 H3. rewrite H1, H2, H3. unfold mask01.
  replace (Cmult (Cmult (RtoC 1) (Cexpi (bl_ph_2_1 dx lam z1))) (Cmult (RtoC 1) (Cexpi (bl_ph_2_1 dx lam z2))))
    with (Cmult (RtoC 1) (Cmult (Cexpi (bl_ph_2_1 dx lam z1)) (Cexpi (bl_ph_2_1 dx lam z2)))) by ring.
  f_equal. apply (kernel_compose (bl_ph_2_1 dx lam)), bl_add_2_1.
Qed.
Lemma bl_mask_even_2_1 dx lam z : bl_mask_2_1 dx lam (- z) = bl_mask_2_1 dx lam z.
Proof. unfold bl_mask_2_1. sqrt_canon. reflexivity. Qed.
Lemma bl_radnn_2_1 dx lam z : 0 < lam -> 0 < dx -> lam * lam <= 2 * (dx * dx) -> 0 <= bl_rad_2_1 dx lam z.
Proof.
  intros Hl Hd Hg. replace (bl_rad_2_1 dx lam z) with (1 / (lam ^ 2) - (((- (7 / 48)) / dx) ^ 2 + ((5 / 12) / dx) ^ 2)) by (unfold bl_rad_2_1; field; lra).
  apply rad_bl_nonneg; try assumption; lra.
Qed.
Lemma bl_pix_2_2 dx lam z : (bl_re_2_2 dx lam z, bl_im_2_2 dx lam z) = Cmult (RtoC (mask01 (bl_mask_2_2 dx lam z))) (Cexpi (bl_ph_2_2 dx lam z)).
Proof. rewrite <- masked_pixel. unfold bl_re_2_2, bl_im_2_2, mask01. fold (bl_mask_2_2 dx lam z). fold (bl_ph_2_2 dx lam z). f_equal; destruct (bl_mask_2_2 dx lam z); ring. Qed.
Lemma bl_add_2_2 dx lam z1 z2 : bl_ph_2_2 dx lam (z1 + z2) = bl_ph_2_2 dx lam z1 + bl_ph_2_2 dx lam z2.
Proof. unfold bl_ph_2_2. ring. Qed.
Lemma bl_laws_2_2 dx lam z1 z2 :
  n2 (bl_re_2_2 dx lam z1, bl_im_2_2 dx lam z1) <= 1 /\
  (bl_mask_2_2 dx lam z1 = true -> bl_mask_2_2 dx lam z2 = true -> bl_mask_2_2 dx lam (z1 + z2) = true ->
   Cmult (bl_re_2_2 dx lam z1, bl_im_2_2 dx lam z1) (bl_re_2_2 dx lam z2, bl_im_2_2 dx lam z2) = (bl_re_2_2 dx lam (z1 + z2), bl_im_2_2 dx lam (z1 + z2))).
Proof.
  rewrite !bl_pix_2_2. split; [apply masked_n2_le|].
  intros H1 H2 H3. rewrite H1, H2, H3. unfold mask01.
  replace (Cmult (Cmult (RtoC 1) (Cexpi (bl_ph_2_2 dx lam z1))) (Cmult (RtoC 1) (Cexpi (bl_ph_2_2 dx lam z2))))
    with (Cmult (RtoC 1) (Cmult (Cexpi (bl_ph_2_2 dx lam z1)) (Cexpi (bl_ph_2_2 dx lam z2)))) by ring.
  f_equal. apply (kernel_compose (bl_ph_2_2 dx lam)), bl_add_2_2.
Qed.
Lemma bl_mask_even_2_2 dx lam z : bl_mask_2_2 dx lam (- z) = bl_mask_2_2 dx lam z.
Proof. unfold bl_mask_2_2. sqrt_canon. reflexivity. Qed.
Lemma bl_radnn_2_2 dx lam z : 0 < lam -> 0 < dx -> lam * lam <= 2 * (dx * dx) -> 0 <= bl_rad_2_2 dx lam z.
Proof.
  intros Hl Hd Hg. replace (bl_rad_2_2 dx lam z) with (1 / (lam ^ 2) - (((7 / 48) / dx) ^ 2 + ((5 / 12) / dx) ^ 2)) by (unfold bl_rad_2_2; field; lra).
  apply rad_bl_nonneg; try assumption; lra.
Qed.
Lemma bl_pix_2_3 dx lam z : (bl_re_2_3 dx lam z, bl_im_2_3 dx lam z) = Cmult (RtoC (mask01 (bl_mask_2_3 dx lam z))) (Cexpi (bl_ph_2_3 dx lam z)).
Proof. rewrite <- masked_pixel. unfold bl_re_2_3, bl_im_2_3, mask01. fold (bl_mask_2_3 dx lam z). fold (bl_ph_2_3 dx lam z). f_equal; destruct (bl_mask_2_3 dx lam z); ring. Qed.
Lemma bl_add_2_3 dx lam z1 z2 : bl_ph_2_3 dx lam (z1 + z2) = bl_ph_2_3 dx lam z1 + bl_ph_2_3 dx lam z2.
Proof. unfold bl_ph_2_3. ring. Qed.
Lemma bl_laws_2_3 dx lam z1 z2 :
  n2 (bl_re_2_3 dx lam z1, bl_im_2_3 dx lam z1) <= 1 /\
  (bl_mask_2_3 dx lam z1 = true -> bl_mask_2_3 dx lam z2 = true -> bl_mask_2_3 dx lam (z1 + z2) = true ->
   Cmult (bl_re_2_3 dx lam z1, bl_im_2_3 dx lam z1) (bl_re_2_3 dx lam z2, bl_im_2_3 dx lam z2) = (bl_re_2_3 dx lam (z1 + z2), bl_im_2_3 dx lam (z1 + z2))).
Proof.
  rewrite !bl_pix_2_3. split; [apply masked_n2_le|].
  intros H1 H2 H3. rewrite H1, H2, H3. unfold mask01.
  replace (Cmult (Cmult (RtoC 1) (Cexpi (bl_ph_2_3 dx lam z1))) (Cmult (RtoC 1) (Cexpi (bl_ph_2_3 dx lam z2))))
    with (Cmult (RtoC 1) (Cmult (Cexpi (bl_ph_2_3 dx lam z1)) (Cexpi (bl_ph_2_3 dx lam z2)))) by ring.
  f_equal. apply (kernel_compose (bl_ph_2_3 dx lam)), bl_add_2_3.
Qed.
Lemma bl_mask_even_2_3 dx lam z : bl_mask_2_3 dx lam (- z) = bl_mask_2_3 dx lam z.
Proof. unfold bl_mask_2_3. sqrt_canon. reflexivity. Qed.
Lemma bl_radnn_2_3 dx lam z : 0 < lam -> 0 < dx -> lam * lam <= 2 * (dx * dx) -> 0 <= bl_rad_2_3 dx lam z.
Proof.
  intros Hl Hd Hg. replace (bl_rad_2_3 dx lam z) with (1 / (lam ^ 2) - (((7 / 16) / dx) ^ 2 + ((5 / 12) / dx) ^ 2)) by (unfold bl_rad_2_3; field; lra).
  apply rad_bl_nonneg; try assumption; lra.
Qed.
