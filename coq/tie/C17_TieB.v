(* C17 tie, part B: traced multiplane_loss.__call__, perceptual_multiplane_loss.__call__ (base terms) and
   PSNR.forward against the reference model, for all reals. *)
From Coq Require Import Reals Lra List.
From OdakV Require Import Base.RealAux C17.Model C17.Lemmas C17.TieTac.
From Run Require Import GenC17.
Import ListNotations.
Open Scope R_scope.

Lemma mp_all_model w0 w1 w2 x0 x1 t0 t1 m00 m01 m10 m11 :
  mp_all w0 w1 w2 x0 x1 t0 t1 m00 m01 m10 m11 =
  mp_loss w0 w1 w2 [(x0, t0); (x1, t1)] [(x0, t0, m00); (x1, t1, m01); (x0, t0, m10); (x1, t1, m11)].
Proof. unfold mp_all, mp_loss, mse, rmean, sqd. simpl. sem. Qed.
Lemma mp_plane1_model w0 w1 w2 x0 x1 t0 t1 m00 m01 m10 m11 :
  mp_plane1 w0 w1 w2 x0 x1 t0 t1 m00 m01 m10 m11 =
  mp_loss w0 w1 w2 [(x0, t0); (x1, t1)] [(x0, t0, m10); (x1, t1, m11)].
Proof. unfold mp_plane1, mp_loss, mse, rmean, sqd. simpl. sem. Qed.
Lemma pmp_all_model w0 w1 w2 v0 v1 v2 x0 x1 t0 t1 m00 m01 m10 m11 :
  pmp_all w0 w1 w2 v0 v1 v2 x0 x1 t0 t1 m00 m01 m10 m11 =
  pmp_loss w0 w1 w2 v0 v1 v2 [(x0, t0); (x1, t1)] [(x0, t0, m00); (x1, t1, m01); (x0, t0, m10); (x1, t1, m11)].
Proof. unfold pmp_all, pmp_loss, mp_loss, mse, mae, rmean, sqd, abd. simpl. sem. Qed.

Theorem traced_multiplane_nonneg w0 w1 w2 x0 x1 t0 t1 m00 m01 m10 m11 : 0 <= w0 -> 0 <= w1 -> 0 <= w2 ->
  0 <= mp_all w0 w1 w2 x0 x1 t0 t1 m00 m01 m10 m11 /\ 0 <= mp_plane1 w0 w1 w2 x0 x1 t0 t1 m00 m01 m10 m11.
Proof. intros. rewrite mp_all_model, mp_plane1_model. split; apply mp_nonneg; assumption. Qed.
Theorem traced_multiplane_zero w0 w1 w2 t0 t1 m00 m01 m10 m11 :
  mp_all w0 w1 w2 t0 t1 t0 t1 m00 m01 m10 m11 = 0 /\ mp_plane1 w0 w1 w2 t0 t1 t0 t1 m00 m01 m10 m11 = 0.
Proof. rewrite mp_all_model, mp_plane1_model. split; apply mp_zero; repeat constructor. Qed.
Theorem traced_perceptual_multiplane w0 w1 w2 v0 v1 v2 x0 x1 t0 t1 m00 m01 m10 m11 :
  (0 <= w0 -> 0 <= w1 -> 0 <= w2 -> 0 <= v0 -> 0 <= v1 -> 0 <= v2 -> 0 <= pmp_all w0 w1 w2 v0 v1 v2 x0 x1 t0 t1 m00 m01 m10 m11) /\
  pmp_all w0 w1 w2 v0 v1 v2 t0 t1 t0 t1 m00 m01 m10 m11 = 0.
Proof. rewrite !pmp_all_model. split; [intros; apply pmp_nonneg; assumption|apply pmp_zero; repeat constructor]. Qed.

Lemma psnr_model p00 p01 p10 p11 t00 t01 t10 t11 peak :
  psnr_t p00 p01 p10 p11 t00 t01 t10 t11 peak = psnr peak (mse [(t00, p00); (t01, p01); (t10, p10); (t11, p11)]).
Proof. unfold psnr_t, psnr, log10, mse, rmean, sqd. simpl. sem. Qed.
(* PSNR grows as the error shrinks *)
Theorem traced_psnr_antitone p00 p01 p10 p11 q00 q01 q10 q11 t00 t01 t10 t11 peak : 0 < peak ->
  0 < mse [(t00, p00); (t01, p01); (t10, p10); (t11, p11)] ->
  mse [(t00, p00); (t01, p01); (t10, p10); (t11, p11)] < mse [(t00, q00); (t01, q01); (t10, q10); (t11, q11)] ->
  psnr_t q00 q01 q10 q11 t00 t01 t10 t11 peak < psnr_t p00 p01 p10 p11 t00 t01 t10 t11 peak.
Proof. intros. rewrite !psnr_model. apply psnr_antitone; assumption. Qed.
Print Assumptions traced_psnr_antitone.
Print Assumptions traced_perceptual_multiplane.
