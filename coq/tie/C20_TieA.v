(* C20 tie, compiled on every run against the IR freshly translated from the current /repo sources
   (Run.GenC20: one `fn` record per function / method definition of odak/**, in SSA form with callees
   inlined, with the taint sets the harness inferred; Run.GenC20 also carries `expected_rejected`, the
   indices of the functions listed in the committed table of documented in-place updates and
   out-of-scope scripts).

   all_covered     : by vm_compute, EVERY function of the current source tree either passes the Coq
                     checker `fn_ok` (which re-validates the supplied taint sets) or is in that table.
   checked_sound   : hence, for every function outside the table, any run of its body (heap semantics
                     of OdakV.C20.Model) leaves every object that existed before the call unchanged. *)
From Coq Require Import List NArith Bool Lia.
From OdakV Require Import C20.Model C20.Lemmas.
From Run Require Import GenC20 GenC20_expected.
Import ListNotations.

Definition excused (f : fn) : bool := existsb (N.eqb (f_id f)) expected_rejected.
Definition covered (f : fn) : bool := fn_ok f || excused f.

Lemma all_covered : forallb covered all_fns = true.
Proof. vm_compute. reflexivity. Qed.

Theorem checked_sound : forall f, In f all_fns -> excused f = false ->
  forall s1 s2, wf s1 -> (forall x l, env s1 x = Some l -> In x (f_params f)) ->
  exec (f_body f) s1 s2 ->
  forall l, l < next s1 -> heap s2 l = heap s1 l.
Proof.
  intros f Hin Hex. pose proof all_covered as H. rewrite forallb_forall in H.
  specialize (H f Hin). unfold covered in H. rewrite Hex, orb_false_r in H.
  intros s1 s2. apply fn_ok_sound. exact H.
Qed.

(* sessions: any sequence of calls of checked functions, each given objects existing at its call *)
Theorem checked_sessions : forall cs s s',
  Forall (fun c => exists f, In f all_fns /\ excused f = false /\ c_body c = f_body f /\
                             forall x l, c_args c x = Some l -> In x (f_params f)) cs ->
  wf s -> session_args cs s s' ->
  forall l, l < next s -> heap s' l = heap s l.
Proof.
  induction cs as [|c cs IH]; intros s s' Hall W Hs l Hl.
  - inversion Hs; subst. reflexivity.
  - inversion Hall as [|c0 cs0 [f [Hin [Hex [Hb Hargs]]]] Hall']; subst.
    inversion Hs as [|c0 cs0 s0 s1 s2 Hbound Hexec Hrest]; subst.
    pose proof all_covered as H. rewrite forallb_forall in H.
    specialize (H f Hin). unfold covered in H. rewrite Hex, orb_false_r in H.
    unfold fn_ok in H. apply andb_prop in H. destruct H as [H Hok]. apply andb_prop in H. destruct H as [Hpar Hinc].
    rewrite allin_spec in Hpar, Hinc.
    assert (We : wf (enter (c_args c) s)) by (apply wf_enter; [exact W|exact Hbound]).
    assert (Hp : forall x k, env (enter (c_args c) s) x = Some k -> In x (f_own f))
      by (cbn; intros x k E; apply Hpar; eapply Hargs; exact E).
    rewrite Hb in Hexec.
    destruct (exec_wf_next (f_own f) (f_reach f) _ _ _ Hinc Hok We Hp Hexec) as [W1 N1]. cbn in N1.
    rewrite (IH s1 s' Hall' W1 Hrest l) by lia.
    apply (analysis_sound (f_own f) (f_reach f) _ _ _ Hinc Hok We Hp Hexec l). cbn. exact Hl.
Qed.

Print Assumptions checked_sound.
Print Assumptions checked_sessions.
