(* C17 tie, part D: the traced metameric_loss_stats of MetamericLoss / MetamericLossUniform (the way the pooled
   statistics maps are combined into the loss; the maps themselves are arbitrary reals here) and the traced
   multi_scale_total_variation_loss, against the reference model, for all reals. *)
From Coq Require Import Reals Lra List.
From OdakV Require Import Base.RealAux C17.Model C17.Lemmas C17.TieTac.
From Run Require Import GenC17.
Import ListNotations.
Open Scope R_scope.

Lemma met_stats_model sa0 sa1 sb ta0 ta1 tb :
  met_stats_t sa0 sa1 sb ta0 ta1 tb = stats_loss [[sa0; sa1]; [sb]] [[ta0; ta1]; [tb]].
Proof. unfold met_stats_t, stats_loss, mse, rmean, sqd. simpl. sem. Qed.
Lemma metu_stats_model sa0 sa1 sb ta0 ta1 tb :
  metu_stats_t sa0 sa1 sb ta0 ta1 tb = stats_loss [[sa0; sa1]; [sb]] [[ta0; ta1]; [tb]].
Proof. unfold metu_stats_t, stats_loss, mse, rmean, sqd. simpl. sem. Qed.
(* the combination of statistics is non-negative, and zero when both sides carry the same statistics (which is what
   image = target gives when the statistics are a deterministic function of the tensor and the gaze) *)
Theorem traced_metameric_stats_nonneg sa0 sa1 sb ta0 ta1 tb :
  0 <= met_stats_t sa0 sa1 sb ta0 ta1 tb /\ 0 <= metu_stats_t sa0 sa1 sb ta0 ta1 tb.
Proof. rewrite met_stats_model, metu_stats_model. split; apply stats_loss_nonneg. Qed.
Theorem traced_metameric_stats_identity sa0 sa1 sb :
  met_stats_t sa0 sa1 sb sa0 sa1 sb = 0 /\ metu_stats_t sa0 sa1 sb sa0 sa1 sb = 0.
Proof. rewrite met_stats_model, metu_stats_model. split; apply stats_loss_refl. Qed.

Lemma mstv_model f00 f01 f02 f03 f10 f11 f12 f13 :
  mstv_t f00 f01 f02 f03 f10 f11 f12 f13 = ms_tv [ [[[f00; f01; f02; f03]; [f10; f11; f12; f13]]]; [[[f00; f02]]] ].
Proof. unfold mstv_t, ms_tv, tv. simpl. sem. Qed.
Theorem traced_ms_tv f00 f01 f02 f03 f10 f11 f12 f13 c :
  0 <= mstv_t f00 f01 f02 f03 f10 f11 f12 f13 /\ mstv_t c c c c c c c c = 0.
Proof.
  rewrite !mstv_model. split; [apply ms_tv_nonneg|apply ms_tv_uniform].
  repeat constructor; exists c; repeat constructor.
Qed.
Print Assumptions traced_metameric_stats_identity.
Print Assumptions traced_ms_tv.
