(* Wave tie, band-limited kernel nbl: statements about the definitions traced from /repo on this run (Run.GenWaveK).
   Compiled on every run. *)
From Coq Require Import Reals Lra Bool.
From Coquelicot Require Import Complex.
From OdakV Require Import Base.RealAux Wave.Fields Wave.Kernels.
From Run Require Import GenWaveK.
Open Scope R_scope.

Ltac sqrt_canon :=
  repeat match goal with |- context [sqrt ?a] => progress ring_simplify a end.
Ltac align_sqrt tac :=
  match goal with |- ?L = ?R =>
    match L with context [sqrt ?a] => match R with context [sqrt ?b] =>
      replace (sqrt a) with (sqrt b) by (f_equal; tac) end end end.

Lemma nbl_radnn_0_0 k dx lam z : 0 < lam -> 0 < dx -> lam * lam <= 2 * (dx * dx) -> 0 <= nbl_rad_0_0 k dx lam z.
Proof.
  intros Hl Hd Hg. replace (nbl_rad_0_0 k dx lam z) with (1 - (lam * ((- (1 / 2)) / dx)) ^ 2 - (lam * ((- (1 / 2)) / dx)) ^ 2) by (unfold nbl_rad_0_0; field; lra).
  apply rad_as_nonneg; try assumption; lra.
Qed.
Lemma nbl_add_0_0 k dx lam z1 z2 : nbl_ph_0_0 k dx lam (z1 + z2) = nbl_ph_0_0 k dx lam z1 + nbl_ph_0_0 k dx lam z2.
Proof. unfold nbl_ph_0_0. ring. Qed.
Lemma nbl_n2_0_0 k dx lam z : n2 (nbl_re_0_0 k dx lam z, nbl_im_0_0 k dx lam z) <= 1.
Proof.
  unfold nbl_re_0_0, nbl_im_0_0.
  match goal with |- context [if ?b then _ else _] => destruct b end;
  match goal with |- context [cos ?t] => pose proof (Cexpi_n2 t) as H; unfold n2, Cexpi in *; simpl in * end; nra.
Qed.
Lemma nbl_pix_0_0 k dx lam z : (nbl_re_0_0 k dx lam z, nbl_im_0_0 k dx lam z) = Cmult (RtoC (mask01 (nbl_mask_0_0 k dx lam z))) (Cexpi (nbl_ph_0_0 k dx lam z)).
Proof.
  unfold nbl_re_0_0, nbl_im_0_0, nbl_mask_0_0, nbl_ph_0_0, mask01, Cmult, Cexpi, RtoC; cbn [fst snd].
  match goal with |- context [if ?b then _ else _] => destruct b end; f_equal; ring.
Qed.
Lemma nbl_mask_even_0_0 k dx lam z : nbl_mask_0_0 k dx lam (- z) = nbl_mask_0_0 k dx lam z.
Proof. unfold nbl_mask_0_0. sqrt_canon. reflexivity. Qed.
Lemma nbl_laws_0_0 k dx lam z1 z2 :
  nbl_mask_0_0 k dx lam z1 = true -> nbl_mask_0_0 k dx lam z2 = true -> nbl_mask_0_0 k dx lam (z1 + z2) = true ->
   Cmult (nbl_re_0_0 k dx lam z1, nbl_im_0_0 k dx lam z1) (nbl_re_0_0 k dx lam z2, nbl_im_0_0 k dx lam z2) = (nbl_re_0_0 k dx lam (z1 + z2), nbl_im_0_0 k dx lam (z1 + z2)).
Proof.
  rewrite !nbl_pix_0_0. intros H1 H2 H3. rewrite H1, H2, H3. unfold mask01.
  replace (Cmult (Cmult (RtoC 1) (Cexpi (nbl_ph_0_0 k dx lam z1))) (Cmult (RtoC 1) (Cexpi (nbl_ph_0_0 k dx lam z2))))
    with (Cmult (RtoC 1) (Cmult (Cexpi (nbl_ph_0_0 k dx lam z1)) (Cexpi (nbl_ph_0_0 k dx lam z2)))) by ring.
  f_equal. apply (kernel_compose (nbl_ph_0_0 k dx lam)), nbl_add_0_0.
Qed.
Lemma nbl_radnn_0_1 k dx lam z : 0 < lam -> 0 < dx -> lam * lam <= 2 * (dx * dx) -> 0 <= nbl_rad_0_1 k dx lam z.
Proof.
  intros Hl Hd Hg. replace (nbl_rad_0_1 k dx lam z) with (1 - (lam * ((- (1 / 6)) / dx)) ^ 2 - (lam * ((- (1 / 2)) / dx)) ^ 2) by (unfold nbl_rad_0_1; field; lra).
  apply rad_as_nonneg; try assumption; lra.
Qed.
Lemma nbl_add_0_1 k dx lam z1 z2 : nbl_ph_0_1 k dx lam (z1 + z2) = nbl_ph_0_1 k dx lam z1 + nbl_ph_0_1 k dx lam z2.
Proof. unfold nbl_ph_0_1. ring. Qed.
Lemma nbl_n2_0_1 k dx lam z : n2 (nbl_re_0_1 k dx lam z, nbl_im_0_1 k dx lam z) <= 1.
Proof.
  unfold nbl_re_0_1, nbl_im_0_1.
  match goal with |- context [if ?b then _ else _] => destruct b end;
  match goal with |- context [cos ?t] => pose proof (Cexpi_n2 t) as H; unfold n2, Cexpi in *; simpl in * end; nra.
Qed.
Lemma nbl_pix_0_1 k dx lam z : (nbl_re_0_1 k dx lam z, nbl_im_0_1 k dx lam z) = Cmult (RtoC (mask01 (nbl_mask_0_1 k dx lam z))) (Cexpi (nbl_ph_0_1 k dx lam z)).
Proof.
  unfold nbl_re_0_1, nbl_im_0_1, nbl_mask_0_1, nbl_ph_0_1, mask01, Cmult, Cexpi, RtoC; cbn [fst snd].
  match goal with |- context [if ?b then _ else _] => destruct b end; f_equal; ring.
Qed.
Lemma nbl_mask_even_0_1 k dx lam z : nbl_mask_0_1 k dx lam (- z) = nbl_mask_0_1 k dx lam z.
Proof. unfold nbl_mask_0_1. sqrt_canon. reflexivity. Qed.
Lemma nbl_laws_0_1 k dx lam z1 z2 :
  nbl_mask_0_1 k dx lam z1 = true -> nbl_mask_0_1 k dx lam z2 = true -> nbl_mask_0_1 k dx lam (z1 + z2) = true ->
   Cmult (nbl_re_0_1 k dx lam z1, nbl_im_0_1 k dx lam z1) (nbl_re_0_1 k dx lam z2, nbl_im_0_1 k dx lam z2) = (nbl_re_0_1 k dx lam (z1 + z2), nbl_im_0_1 k dx lam (z1 + z2)).
Proof.
  rewrite !nbl_pix_0_1. intros H1 H2 H3. rewrite H1, H2, H3. unfold mask01.
  replace (Cmult (Cmult (RtoC 1) (Cexpi (nbl_ph_0_1 k dx lam z1))) (Cmult (RtoC 1) (Cexpi (nbl_ph_0_1 k dx lam z2))))
    with (Cmult (RtoC 1) (Cmult (Cexpi (nbl_ph_0_1 k dx lam z1)) (Cexpi (nbl_ph_0_1 k dx lam z2)))) by ring.
  f_equal. apply (kernel_compose (nbl_ph_0_1 k dx lam)), nbl_add_0_1.
Qed.
Lemma nbl_radnn_0_2 k dx lam z : 0 < lam -> 0 < dx -> lam * lam <= 2 * (dx * dx) -> 0 <= nbl_rad_0_2 k dx lam z.
Proof.
  intros Hl Hd Hg. replace (nbl_rad_0_2 k dx lam z) with (1 - (lam * ((1 / 6) / dx)) ^ 2 - (lam * ((- (1 / 2)) / dx)) ^ 2) by (unfold nbl_rad_0_2; field; lra).
  apply rad_as_nonneg; try assumption; lra.
Qed.
Lemma nbl_add_0_2 k dx lam z1 z2 : nbl_ph_0_2 k dx lam (z1 + z2) = nbl_ph_0_2 k dx lam z1 + nbl_ph_0_2 k dx lam z2.
Proof. unfold nbl_ph_0_2. ring. Qed.
Lemma nbl_n2_0_2 k dx lam z : n2 (nbl_re_0_2 k dx lam z, nbl_im_0_2 k dx lam z) <= 1.
Proof.
  unfold nbl_re_0_2, nbl_im_0_2.
  match goal with |- context [if ?b then _ else _] => destruct b end;
  match goal with |- context [cos ?t] => pose proof (Cexpi_n2 t) as H; unfold n2, Cexpi in *; simpl in * end; nra.
Qed.
Lemma nbl_pix_0_2 k dx lam z : (nbl_re_0_2 k dx lam z, nbl_im_0_2 k dx lam z) = Cmult (RtoC (mask01 (nbl_mask_0_2 k dx lam z))) (Cexpi (nbl_ph_0_2 k dx lam z)).
Proof.
  unfold nbl_re_0_2, nbl_im_0_2, nbl_mask_0_2, nbl_ph_0_2, mask01, Cmult, Cexpi, RtoC; cbn [fst snd].
  match goal with |- context [if ?b then _ else _] => destruct b end; f_equal; ring.
Qed.
Lemma nbl_mask_even_0_2 k dx lam z : nbl_mask_0_2 k dx lam (- z) = nbl_mask_0_2 k dx lam z.
Proof. unfold nbl_mask_0_2. sqrt_canon. reflexivity. Qed.
Lemma nbl_laws_0_2 k dx lam z1 z2 :
  nbl_mask_0_2 k dx lam z1 = true -> nbl_mask_0_2 k dx lam z2 = true -> nbl_mask_0_2 k dx lam (z1 + z2) = true ->
   Cmult (nbl_re_0_2 k dx lam z1, nbl_im_0_2 k dx lam z1) (nbl_re_0_2 k dx lam z2, nbl_im_0_2 k dx lam z2) = (nbl_re_0_2 k dx lam (z1 + z2), nbl_im_0_2 k dx lam (z1 + z2)).
Proof.
  rewrite !nbl_pix_0_2. intros H1 H2 H3. rewrite H1, H2, H3. unfold mask01.
  replace (Cmult (Cmult (RtoC 1) (Cexpi (nbl_ph_0_2 k dx lam z1))) (Cmult (RtoC 1) (Cexpi (nbl_ph_0_2 k dx lam z2))))
    with (Cmult (RtoC 1) (Cmult (Cexpi (nbl_ph_0_2 k dx lam z1)) (Cexpi (nbl_ph_0_2 k dx lam z2)))) by ring.
  f_equal. apply (kernel_compose (nbl_ph_0_2 k dx lam)), nbl_add_0_2.
Qed.
Lemma nbl_radnn_0_3 k dx lam z : 0 < lam -> 0 < dx -> lam * lam <= 2 * (dx * dx) -> 0 <= nbl_rad_0_3 k dx lam z.
Proof.
  intros Hl Hd Hg. replace (nbl_rad_0_3 k dx lam z) with (1 - (lam * ((1 / 2) / dx)) ^ 2 - (lam * ((- (1 / 2)) / dx)) ^ 2) by (unfold nbl_rad_0_3; field; lra).
  apply rad_as_nonneg; try assumption; lra.
Qed.
Lemma nbl_add_0_3 k dx lam z1 z2 : nbl_ph_0_3 k dx lam (z1 + z2) = nbl_ph_0_3 k dx lam z1 + nbl_ph_0_3 k dx lam z2.
Proof. unfold nbl_ph_0_3. ring. Qed.
Lemma nbl_n2_0_3 k dx lam z : n2 (nbl_re_0_3 k dx lam z, nbl_im_0_3 k dx lam z) <= 1.
Proof.
  unfold nbl_re_0_3, nbl_im_0_3.
  match goal with |- context [if ?b then _ else _] => destruct b end;
  match goal with |- context [cos ?t] => pose proof (Cexpi_n2 t) as H; unfold n2, Cexpi in *; simpl in * end; nra.
Qed.
Lemma nbl_pix_0_3 k dx lam z : (nbl_re_0_3 k dx lam z, nbl_im_0_3 k dx lam z) = Cmult (RtoC (mask01 (nbl_mask_0_3 k dx lam z))) (Cexpi (nbl_ph_0_3 k dx lam z)).
Proof.
  unfold nbl_re_0_3, nbl_im_0_3, nbl_mask_0_3, nbl_ph_0_3, mask01, Cmult, Cexpi, RtoC; cbn [fst snd].
  match goal with |- context [if ?b then _ else _] => destruct b end; f_equal; ring.
Qed.
Lemma nbl_mask_even_0_3 k dx lam z : nbl_mask_0_3 k dx lam (- z) = nbl_mask_0_3 k dx lam z.
Proof. unfold nbl_mask_0_3. sqrt_canon. reflexivity. Qed.
Lemma nbl_laws_0_3 k dx lam z1 z2 :
  nbl_mask_0_3 k dx lam z1 = true -> nbl_mask_0_3 k dx lam z2 = true -> nbl_mask_0_3 k dx lam (z1 + z2) = true ->
   Cmult (nbl_re_0_3 k dx lam z1, nbl_im_0_3 k dx lam z1) (nbl_re_0_3 k dx lam z2, nbl_im_0_3 k dx lam z2) = (nbl_re_0_3 k dx lam (z1 + z2), nbl_im_0_3 k dx lam (z1 + z2)).
Proof.
  rewrite !nbl_pix_0_3. intros H1 H2 H3. rewrite H1, H2, H3. unfold mask01.
  replace (Cmult (Cmult (RtoC 1) (Cexpi (nbl_ph_0_3 k dx lam z1))) (Cmult (RtoC 1) (Cexpi (nbl_ph_0_3 k dx lam z2))))
    with (Cmult (RtoC 1) (Cmult (Cexpi (nbl_ph_0_3 k dx lam z1)) (Cexpi (nbl_ph_0_3 k dx lam z2)))) by ring.
  f_equal. apply (kernel_compose (nbl_ph_0_3 k dx lam)), nbl_add_0_3.
Qed.
Lemma nbl_radnn_1_0 k dx lam z : 0 < lam -> 0 < dx -> lam * lam <= 2 * (dx * dx) -> 0 <= nbl_rad_1_0 k dx lam z.
Proof.
  intros Hl Hd Hg. replace (nbl_rad_1_0 k dx lam z) with (1 - (lam * ((- (1 / 2)) / dx)) ^ 2 - (lam * ((0 / 1) / dx)) ^ 2) by (unfold nbl_rad_1_0; field; lra).
  apply rad_as_nonneg; try assumption; lra.
Qed.
Lemma nbl_add_1_0 k dx lam z1 z2 : nbl_ph_1_0 k dx lam (z1 + z2) = nbl_ph_1_0 k dx lam z1 + nbl_ph_1_0 k dx lam z2.
Proof. unfold nbl_ph_1_0. ring. Qed.
Lemma nbl_n2_1_0 k dx lam z : n2 (nbl_re_1_0 k dx lam z, nbl_im_1_0 k dx lam z) <= 1.
Proof.
  unfold nbl_re_1_0, nbl_im_1_0.
  match goal with |- context [if ?b then _ else _] => destruct b end;
  match goal with |- context [cos ?t] => pose proof (Cexpi_n2 t) as H; unfold n2, Cexpi in *; simpl in * end; nra.
Qed.
Lemma nbl_pix_1_0 k dx lam z : (nbl_re_1_0 k dx lam z, nbl_im_1_0 k dx lam z) = Cmult (RtoC (mask01 (nbl_mask_1_0 k dx lam z))) (Cexpi (nbl_ph_1_0 k dx lam z)).
Proof.
  unfold nbl_re_1_0, nbl_im_1_0, nbl_mask_1_0, nbl_ph_1_0, mask01, Cmult, Cexpi, RtoC; cbn [fst snd].
  match goal with |- context [if ?b then _ else _] => destruct b end; f_equal; ring.
Qed.
Lemma nbl_mask_even_1_0 k dx lam z : nbl_mask_1_0 k dx lam (- z) = nbl_mask_1_0 k dx lam z.
Proof. unfold nbl_mask_1_0. sqrt_canon. reflexivity. Qed.
Lemma nbl_laws_1_0 k dx lam z1 z2 :
  nbl_mask_1_0 k dx lam z1 = true -> nbl_mask_1_0 k dx lam z2 = true -> nbl_mask_1_0 k dx lam (z1 + z2) = true ->
   Cmult (nbl_re_1_0 k dx lam z1, nbl_im_1_0 k dx lam z1) (nbl_re_1_0 k dx lam z2, nbl_im_1_0 k dx lam z2) = (nbl_re_1_0 k dx lam (z1 + z2), nbl_im_1_0 k dx lam (z1 + z2)).
Proof.
  rewrite !nbl_pix_1_0. intros H1 H2 H3. rewrite H1, H2, H3. unfold mask01.
  replace (Cmult (Cmult (RtoC 1) (Cexpi (nbl_ph_1_0 k dx lam z1))) (Cmult (RtoC 1) (Cexpi (nbl_ph_1_0 k dx lam z2))))
    with (Cmult (RtoC 1) (Cmult (Cexpi (nbl_ph_1_0 k dx lam z1)) (Cexpi (nbl_ph_1_0 k dx lam z2)))) by ring.
  f_equal. apply (kernel_compose (nbl_ph_1_0 k dx lam)), nbl_add_1_0.
Qed.
Lemma nbl_radnn_1_1 k dx lam z : 0 < lam -> 0 < dx -> lam * lam <= 2 * (dx * dx) -> 0 <= nbl_rad_1_1 k dx lam z.
Proof.
  intros Hl Hd Hg. replace (nbl_rad_1_1 k dx lam z) with (1 - (lam * ((- (1 / 6)) / dx)) ^ 2 - (lam * ((0 / 1) / dx)) ^ 2) by (unfold nbl_rad_1_1; field; lra).
  apply rad_as_nonneg; try assumption; lra.
Qed.
Lemma nbl_add_1_1 k dx lam z1 z2 : nbl_ph_1_1 k dx lam (z1 + z2) = nbl_ph_1_1 k dx lam z1 + nbl_ph_1_1 k dx lam z2.
Proof. unfold nbl_ph_1_1. ring. Qed.
Lemma nbl_n2_1_1 k dx lam z : n2 (nbl_re_1_1 k dx lam z, nbl_im_1_1 k dx lam z) <= 1.
Proof.
  unfold nbl_re_1_1, nbl_im_1_1.
  match goal with |- context [if ?b then _ else _] => destruct b end;
  match goal with |- context [cos ?t] => pose proof (Cexpi_n2 t) as H; unfold n2, Cexpi in *; simpl in * end; nra.
Qed.
Lemma nbl_pix_1_1 k dx lam z : (nbl_re_1_1 k dx lam z, nbl_im_1_1 k dx lam z) = Cmult (RtoC (mask01 (nbl_mask_1_1 k dx lam z))) (Cexpi (nbl_ph_1_1 k dx lam z)).
Proof.
  unfold nbl_re_1_1, nbl_im_1_1, nbl_mask_1_1, nbl_ph_1_1, mask01, Cmult, Cexpi, RtoC; cbn [fst snd].
  match goal with |- context [if ?b then _ else _] => destruct b end; f_equal; ring.
Qed.
Lemma nbl_mask_even_1_1 k dx lam z : nbl_mask_1_1 k dx lam (- z) = nbl_mask_1_1 k dx lam z.
Proof. unfold nbl_mask_1_1. sqrt_canon. reflexivity. Qed.
Lemma nbl_laws_1_1 k dx lam z1 z2 :
  nbl_mask_1_1 k dx lam z1 = true -> nbl_mask_1_1 k dx lam z2 = true -> nbl_mask_1_1 k dx lam (z1 + z2) = true ->
   Cmult (nbl_re_1_1 k dx lam z1, nbl_im_1_1 k dx lam z1) (nbl_re_1_1 k dx lam z2, nbl_im_1_1 k dx lam z2) = (nbl_re_1_1 k dx lam (z1 + z2), nbl_im_1_1 k dx lam (z1 + z2)).
Proof.
  rewrite !nbl_pix_1_1. intros H1 H2 H3. rewrite H1, H2, H3. unfold mask01.
  replace (Cmult (Cmult (RtoC 1) (Cexpi (nbl_ph_1_1 k dx lam z1))) (Cmult (RtoC 1) (Cexpi (nbl_ph_1_1 k dx lam z2))))
    with (Cmult (RtoC 1) (Cmult (Cexpi (nbl_ph_1_1 k dx lam z1)) (Cexpi (nbl_ph_1_1 k dx lam z2)))) by ring.
  f_equal. apply (kernel_compose (nbl_ph_1_1 k dx lam)), nbl_add_1_1.
Qed.
Lemma nbl_radnn_1_2 k dx lam z : 0 < lam -> 0 < dx -> lam * lam <= 2 * (dx * dx) -> 0 <= nbl_rad_1_2 k dx lam z.
Proof.
  intros Hl Hd Hg. replace (nbl_rad_1_2 k dx lam z) with (1 - (lam * ((1 / 6) / dx)) ^ 2 - (lam * ((0 / 1) / dx)) ^ 2) by (unfold nbl_rad_1_2; field; lra).
  apply rad_as_nonneg; try assumption; lra.
Qed.
Lemma nbl_add_1_2 k dx lam z1 z2 : nbl_ph_1_2 k dx lam (z1 + z2) = nbl_ph_1_2 k dx lam z1 + nbl_ph_1_2 k dx lam z2.
Proof. unfold nbl_ph_1_2. ring. Qed.
Lemma nbl_n2_1_2 k dx lam z : n2 (nbl_re_1_2 k dx lam z, nbl_im_1_2 k dx lam z) <= 1.
Proof.
  unfold nbl_re_1_2, nbl_im_1_2.
  match goal with |- context [if ?b then _ else _] => destruct b end;
  match goal with |- context [cos ?t] => pose proof (Cexpi_n2 t) as H; unfold n2, Cexpi in *; simpl in * end; nra.
Qed.
Lemma nbl_pix_1_2 k dx lam z : (nbl_re_1_2 k dx lam z, nbl_im_1_2 k dx lam z) = Cmult (RtoC (mask01 (nbl_mask_1_2 k dx lam z))) (Cexpi (nbl_ph_1_2 k dx lam z)).
Proof.
  unfold nbl_re_1_2, nbl_im_1_2, nbl_mask_1_2, nbl_ph_1_2, mask01, Cmult, Cexpi, RtoC; cbn [fst snd].
  match goal with |- context [if ?b then _ else _] => destruct b end; f_equal; ring.
Qed.
Lemma nbl_mask_even_1_2 k dx lam z : nbl_mask_1_2 k dx lam (- z) = nbl_mask_1_2 k dx lam z.
Proof. unfold nbl_mask_1_2. sqrt_canon. reflexivity. Qed.
Lemma nbl_laws_1_2 k dx lam z1 z2 :
  nbl_mask_1_2 k dx lam z1 = true -> nbl_mask_1_2 k dx lam z2 = true -> nbl_mask_1_2 k dx lam (z1 + z2) = true ->
   Cmult (nbl_re_1_2 k dx lam z1, nbl_im_1_2 k dx lam z1) (nbl_re_1_2 k dx lam z2, nbl_im_1_2 k dx lam z2) = (nbl_re_1_2 k dx lam (z1 + z2), nbl_im_1_2 k dx lam (z1 + z2)).
Proof.
  rewrite !nbl_pix_1_2. intros H1 H2 H3. rewrite H1, H2, H3. unfold mask01.
  replace (Cmult (Cmult (RtoC 1) (Cexpi (nbl_ph_1_2 k dx lam z1))) (Cmult (RtoC 1) (Cexpi (nbl_ph_1_2 k dx lam z2))))
    with (Cmult (RtoC 1) (Cmult (Cexpi (nbl_ph_1_2 k dx lam z1)) (Cexpi (nbl_ph_1_2 k dx lam z2)))) by ring.
  f_equal. apply (kernel_compose (nbl_ph_1_2 k dx lam)), nbl_add_1_2.
Qed.
Lemma nbl_radnn_1_3 k dx lam z : 0 < lam -> 0 < dx -> lam * lam <= 2 * (dx * dx) -> 0 <= nbl_rad_1_3 k dx lam z.
Proof.
  intros Hl Hd Hg. replace (nbl_rad_1_3 k dx lam z) with (1 - (lam * ((1 / 2) / dx)) ^ 2 - (lam * ((0 / 1) / dx)) ^ 2) by (unfold nbl_rad_1_3; field; lra).
  apply rad_as_nonneg; try assumption; lra.
Qed.
Lemma nbl_add_1_3 k dx lam z1 z2 : nbl_ph_1_3 k dx lam (z1 + z2) = nbl_ph_1_3 k dx lam z1 + nbl_ph_1_3 k dx lam z2.
Proof. unfold nbl_ph_1_3. ring. Qed.
Lemma nbl_n2_1_3 k dx lam z : n2 (nbl_re_1_3 k dx lam z, nbl_im_1_3 k dx lam z) <= 1.
Proof.
  unfold nbl_re_1_3, nbl_im_1_3.
  match goal with |- context [if ?b then _ else _] => destruct b end;
  match goal with |- context [cos ?t] => pose proof (Cexpi_n2 t) as H; unfold n2, Cexpi in *; simpl in * end; nra.
Qed.
Lemma nbl_pix_1_3 k dx lam z : (nbl_re_1_3 k dx lam z, nbl_im_1_3 k dx lam z) = Cmult (RtoC (mask01 (nbl_mask_1_3 k dx lam z))) (Cexpi (nbl_ph_1_3 k dx lam z)).
Proof.
  unfold nbl_re_1_3, nbl_im_1_3, nbl_mask_1_3, nbl_ph_1_3, mask01, Cmult, Cexpi, RtoC; cbn [fst snd].
  match goal with |- context [if ?b then _ else _] => destruct b end; f_equal; ring.
Qed.
Lemma nbl_mask_even_1_3 k dx lam z : nbl_mask_1_3 k dx lam (- z) = nbl_mask_1_3 k dx lam z.
Proof. unfold nbl_mask_1_3. sqrt_canon. reflexivity. Qed.
Lemma nbl_laws_1_3 k dx lam z1 z2 :
  nbl_mask_1_3 k dx lam z1 = true -> nbl_mask_1_3 k dx lam z2 = true -> nbl_mask_1_3 k dx lam (z1 + z2) = true ->
   Cmult (nbl_re_1_3 k dx lam z1, nbl_im_1_3 k dx lam z1) (nbl_re_1_3 k dx lam z2, nbl_im_1_3 k dx lam z2) = (nbl_re_1_3 k dx lam (z1 + z2), nbl_im_1_3 k dx lam (z1 + z2)).
Proof.
  rewrite !nbl_pix_1_3. intros H1 H2 H3. rewrite H1, H2, H3. unfold mask01.
  replace (Cmult (Cmult (RtoC 1) (Cexpi (nbl_ph_1_3 k dx lam z1))) (Cmult (RtoC 1) (Cexpi (nbl_ph_1_3 k dx lam z2))))
    with (Cmult (RtoC 1) (Cmult (Cexpi (nbl_ph_1_3 k dx lam z1)) (Cexpi (nbl_ph_1_3 k dx lam z2)))) by ring.
  f_equal. apply (kernel_compose (nbl_ph_1_3 k dx lam)), nbl_add_1_3.
Qed.
Lemma nbl_radnn_2_0 k dx lam z : 0 < lam -> 0 < dx -> lam * lam <= 2 * (dx * dx) -> 0 <= nbl_rad_2_0 k dx lam z.
Proof.
  intros Hl Hd Hg. replace (nbl_rad_2_0 k dx lam z) with (1 - (lam * ((- (1 / 2)) / dx)) ^ 2 - (lam * ((1 / 2) / dx)) ^ 2) by (unfold nbl_rad_2_0; field; lra).
  apply rad_as_nonneg; try assumption; lra.
Qed.
Lemma nbl_add_2_0 k dx lam z1 z2 : nbl_ph_2_0 k dx lam (z1 + z2) = nbl_ph_2_0 k dx lam z1 + nbl_ph_2_0 k dx lam z2.
Proof. unfold nbl_ph_2_0. ring. Qed.
Lemma nbl_n2_2_0 k dx lam z : n2 (nbl_re_2_0 k dx lam z, nbl_im_2_0 k dx lam z) <= 1.
Proof.
  unfold nbl_re_2_0, nbl_im_2_0.
  match goal with |- context [if ?b then _ else _] => destruct b end;
  match goal with |- context [cos ?t] => pose proof (Cexpi_n2 t) as H; unfold n2, Cexpi in *; simpl in * end; nra.
Qed.
Lemma nbl_pix_2_0 k dx lam z : (nbl_re_2_0 k dx lam z, nbl_im_2_0 k dx lam z) = Cmult (RtoC (mask01 (nbl_mask_2_0 k dx lam z))) (Cexpi (nbl_ph_2_0 k dx lam z)).
Proof.
  unfold nbl_re_2_0, nbl_im_2_0, nbl_mask_2_0, nbl_ph_2_0, mask01, Cmult, Cexpi, RtoC; cbn [fst snd].
  match goal with |- context [if ?b then _ else _] => destruct b end; f_equal; ring.
Qed.
Lemma nbl_mask_even_2_0 k dx lam z : nbl_mask_2_0 k dx lam (- z) = nbl_mask_2_0 k dx lam z.
Proof. unfold nbl_mask_2_0. sqrt_canon. reflexivity. Qed.
Lemma nbl_laws_2_0 k dx lam z1 z2 :
  nbl_mask_2_0 k dx lam z1 = true -> nbl_mask_2_0 k dx lam z2 = true -> nbl_mask_2_0 k dx lam (z1 + z2) = true ->
   Cmult (nbl_re_2_0 k dx lam z1, nbl_im_2_0 k dx lam z1) (nbl_re_2_0 k dx lam z2, nbl_im_2_0 k dx lam z2) = (nbl_re_2_0 k dx lam (z1 + z2), nbl_im_2_0 k dx lam (z1 + z2)).
Proof.
  rewrite !nbl_pix_2_0. intros H1 H2 H3. rewrite H1, H2, H3. unfold mask01.
  replace (Cmult (Cmult (RtoC 1) (Cexpi (nbl_ph_2_0 k dx lam z1))) (Cmult (RtoC 1) (Cexpi (nbl_ph_2_0 k dx lam z2))))
    with (Cmult (RtoC 1) (Cmult (Cexpi (nbl_ph_2_0 k dx lam z1)) (Cexpi (nbl_ph_2_0 k dx lam z2)))) by ring.
  f_equal. apply (kernel_compose (nbl_ph_2_0 k dx lam)), nbl_add_2_0.
Qed.
Lemma nbl_radnn_2_1 k dx lam z : 0 < lam -> 0 < dx -> lam * lam <= 2 * (dx * dx) -> 0 <= nbl_rad_2_1 k dx lam z.
Proof.
  intros Hl Hd Hg. replace (nbl_rad_2_1 k dx lam z) with (1 - (lam * ((- (1 / 6)) / dx)) ^ 2 - (lam * ((1 / 2) / dx)) ^ 2) by (unfold nbl_rad_2_1; field; lra).
  apply rad_as_nonneg; try assumption; lra.
Qed.
Lemma nbl_add_2_1 k dx lam z1 z2 : nbl_ph_2_1 k dx lam (z1 + z2) = nbl_ph_2_1 k dx lam z1 + nbl_ph_2_1 k dx lam z2.
Proof. unfold nbl_ph_2_1. ring. Qed.
Lemma nbl_n2_2_1 k dx lam z : n2 (nbl_re_2_1 k dx lam z, nbl_im_2_1 k dx lam z) <= 1.
Proof.
  unfold nbl_re_2_1, nbl_im_2_1.
  match goal with |- context [if ?b then _ else _] => destruct b end;
  match goal with |- context [cos ?t] => pose proof (Cexpi_n2 t) as H; unfold n2, Cexpi in *; simpl in * end; nra.
Qed.
Lemma nbl_pix_2_1 k dx lam z : (nbl_re_2_1 k dx lam z, nbl_im_2_1 k dx lam z) = Cmult (RtoC (mask01 (nbl_mask_2_1 k dx lam z))) (Cexpi (nbl_ph_2_1 k dx lam z)).
Proof.
  unfold nbl_re_2_1, nbl_im_2_1, nbl_mask_2_1, nbl_ph_2_1, mask01, Cmult, Cexpi, RtoC; cbn [fst snd].
  match goal with |- context [if ?b then _ else _] => destruct b end; f_equal; ring.
Qed.
Lemma nbl_mask_even_2_1 k dx lam z : nbl_mask_2_1 k dx lam (- z) = nbl_mask_2_1 k dx lam z.
Proof. unfold nbl_mask_2_1. sqrt_canon. reflexivity. Qed.
Lemma nbl_laws_2_1 k dx lam z1 z2 :
  nbl_mask_2_1 k dx lam z1 = true -> nbl_mask_2_1 k dx lam z2 = true -> nbl_mask_2_1 k dx lam (z1 + z2) = true ->
   Cmult (nbl_re_2_1 k dx lam z1, nbl_im_2_1 k dx lam z1) (nbl_re_2_1 k dx lam z2, nbl_im_2_1 k dx lam z2) = (nbl_re_2_1 k dx lam (z1 + z2), nbl_im_2_1 k dx lam (z1 + z2)).
Proof.
  rewrite !nbl_pix_2_1. intros H1 H2 H3. rewrite H1, H2, H3. unfold mask01.
  replace (Cmult (Cmult (RtoC 1) (Cexpi (nbl_ph_2_1 k dx lam z1))) (Cmult (RtoC 1) (Cexpi (nbl_ph_2_1 k dx lam z2))))
    with (Cmult (RtoC 1) (Cmult (Cexpi (nbl_ph_2_1 k dx lam z1)) (Cexpi (nbl_ph_2_1 k dx lam z2)))) by ring.
  f_equal. apply (kernel_compose (nbl_ph_2_1 k dx lam)), nbl_add_2_1.
Qed.
Lemma nbl_radnn_2_2 k dx lam z : 0 < lam -> 0 < dx -> lam * lam <= 2 * (dx * dx) -> 0 <= nbl_rad_2_2 k dx lam z.
Proof.
  intros Hl Hd Hg. replace (nbl_rad_2_2 k dx lam z) with (1 - (lam * ((1 / 6) / dx)) ^ 2 - (lam * ((1 / 2) / dx)) ^ 2) by (unfold nbl_rad_2_2; field; lra).
  apply rad_as_nonneg; try assumption; lra.
Qed.
Lemma nbl_add_2_2 k dx lam z1 z2 : nbl_ph_2_2 k dx lam (z1 + z2) = nbl_ph_2_2 k dx lam z1 + nbl_ph_2_2 k dx lam z2.
Proof. unfold nbl_ph_2_2. ring. Qed.
Lemma nbl_n2_2_2 k dx lam z : n2 (nbl_re_2_2 k dx lam z, nbl_im_2_2 k dx lam z) <= 1.
Proof.
  unfold nbl_re_2_2, nbl_im_2_2.
  match goal with |- context [if ?b then _ else _] => destruct b end;
  match goal with |- context [cos ?t] => pose proof (Cexpi_n2 t) as H; unfold n2, Cexpi in *; simpl in * end; nra.
Qed.
Lemma nbl_pix_2_2 k dx lam z : (nbl_re_2_2 k dx lam z, nbl_im_2_2 k dx lam z) = Cmult (RtoC (mask01 (nbl_mask_2_2 k dx lam z))) (Cexpi (nbl_ph_2_2 k dx lam z)).
Proof.
  unfold nbl_re_2_2, nbl_im_2_2, nbl_mask_2_2, nbl_ph_2_2, mask01, Cmult, Cexpi, RtoC; cbn [fst snd].
  match goal with |- context [if ?b then _ else _] => destruct b end; f_equal; ring.
Qed.
Lemma nbl_mask_even_2_2 k dx lam z : nbl_mask_2_2 k dx lam (- z) = nbl_mask_2_2 k dx lam z.
Proof. unfold nbl_mask_2_2. sqrt_canon. reflexivity. Qed.
Lemma nbl_laws_2_2 k dx lam z1 z2 :
  nbl_mask_2_2 k dx lam z1 = true -> nbl_mask_2_2 k dx lam z2 = true -> nbl_mask_2_2 k dx lam (z1 + z2) = true ->
   Cmult (nbl_re_2_2 k dx lam z1, nbl_im_2_2 k dx lam z1) (nbl_re_2_2 k dx lam z2, nbl_im_2_2 k dx lam z2) = (nbl_re_2_2 k dx lam (z1 + z2), nbl_im_2_2 k dx lam (z1 + z2)).
Proof.
  rewrite !nbl_pix_2_2. intros H1 H2 H3. rewrite H1, H2, H3. unfold mask01.
  replace (Cmult (Cmult (RtoC 1) (Cexpi (nbl_ph_2_2 k dx lam z1))) (Cmult (RtoC 1) (Cexpi (nbl_ph_2_2 k dx lam z2))))
    with (Cmult (RtoC 1) (Cmult (Cexpi (nbl_ph_2_2 k dx lam z1)) (Cexpi (nbl_ph_2_2 k dx lam z2)))) by ring.
  f_equal. apply (kernel_compose (nbl_ph_2_2 k dx lam)), nbl_add_2_2.
Qed.
Lemma nbl_radnn_2_3 k dx lam z : 0 < lam -> 0 < dx -> lam * lam <= 2 * (dx * dx) -> 0 <= nbl_rad_2_3 k dx lam z.
Proof.
  intros Hl Hd Hg. replace (nbl_rad_2_3 k dx lam z) with (1 - (lam * ((1 / 2) / dx)) ^ 2 - (lam * ((1 / 2) / dx)) ^ 2) by (unfold nbl_rad_2_3; field; lra).
  apply rad_as_nonneg; try assumption; lra.
Qed.
Lemma nbl_add_2_3 k dx lam z1 z2 : nbl_ph_2_3 k dx lam (z1 + z2) = nbl_ph_2_3 k dx lam z1 + nbl_ph_2_3 k dx lam z2.
Proof. unfold nbl_ph_2_3. ring. Qed.
Lemma nbl_n2_2_3 k dx lam z : n2 (nbl_re_2_3 k dx lam z, nbl_im_2_3 k dx lam z) <= 1.
Proof.
  unfold nbl_re_2_3, nbl_im_2_3.
  match goal with |- context [if ?b then _ else _] => destruct b end;
  match goal with |- context [cos ?t] => pose proof (Cexpi_n2 t) as H; unfold n2, Cexpi in *; simpl in * end; nra.
Qed.
Lemma nbl_pix_2_3 k dx lam z : (nbl_re_2_3 k dx lam z, nbl_im_2_3 k dx lam z) = Cmult (RtoC (mask01 (nbl_mask_2_3 k dx lam z))) (Cexpi (nbl_ph_2_3 k dx lam z)).
Proof.
  unfold nbl_re_2_3, nbl_im_2_3, nbl_mask_2_3, nbl_ph_2_3, mask01, Cmult, Cexpi, RtoC; cbn [fst snd].
  match goal with |- context [if ?b then _ else _] => destruct b end; f_equal; ring.
Qed.
Lemma nbl_mask_even_2_3 k dx lam z : nbl_mask_2_3 k dx lam (- z) = nbl_mask_2_3 k dx lam z.
Proof. unfold nbl_mask_2_3. sqrt_canon. reflexivity. Qed.
Lemma nbl_laws_2_3 k dx lam z1 z2 :
  nbl_mask_2_3 k dx lam z1 = true -> nbl_mask_2_3 k dx lam z2 = true -> nbl_mask_2_3 k dx lam (z1 + z2) = true ->
   Cmult (nbl_re_2_3 k dx lam z1, nbl_im_2_3 k dx lam z1) (nbl_re_2_3 k dx lam z2, nbl_im_2_3 k dx lam z2) = (nbl_re_2_3 k dx lam (z1 + z2), nbl_im_2_3 k dx lam (z1 + z2)).
Proof.
  rewrite !nbl_pix_2_3. intros H1 H2 H3. rewrite H1, H2, H3. unfold mask01.
  replace (Cmult (Cmult (RtoC 1) (Cexpi (nbl_ph_2_3 k dx lam z1))) (Cmult (RtoC 1) (Cexpi (nbl_ph_2_3 k dx lam z2))))
    with (Cmult (RtoC 1) (Cmult (Cexpi (nbl_ph_2_3 k dx lam z1)) (Cexpi (nbl_ph_2_3 k dx lam z2)))) by ring.
  f_equal. apply (kernel_compose (nbl_ph_2_3 k dx lam)), nbl_add_2_3.
Qed.
