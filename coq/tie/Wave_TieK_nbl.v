(* Wave tie, band-limited kernel nbl: statements about the definitions traced from /repo on this run (Run.GenWaveK).
   Compiled on every run. *)
From Coq Require Import Reals Lra Bool.
From Coquelicot Require Import Complex.
From OdakV Require Import Base.RealAux Wave.Fields Wave.Kernels.
From Run Require Import GenWaveK.
Open Scope R_scope.

Ltac sqrt_canon :=
  repeat match goal with |- context [sqrt ?a] => progress ring_simplify a end.
Ltac align_sqrt tac :=
  match goal with |- ?L = ?R =>
    match L with context [sqrt ?a] => match R with context [sqrt ?b] =>
      replace (sqrt a) with (sqrt b) by (f_equal; tac) end end end.

Lemma nbl_n2_0_0 k dx lam z : n2 (nbl_re_0_0 k dx lam z, nbl_im_0_0 k dx lam z) <= 1.
Proof.
  unfold nbl_re_0_0, nbl_im_0_0.
  match goal with |- context [if ?b then _ else _] => destruct b end;
  match goal with |- context [cos ?t] => pose proof (Cexpi_n2 t) as H; unfold n2, Cexpi in *; simpl in * end; nra.
Qed.
Lemma nbl_n2_0_1 k dx lam z : n2 (nbl_re_0_1 k dx lam z, nbl_im_0_1 k dx lam z) <= 1.
Proof.
  unfold nbl_re_0_1, nbl_im_0_1.
  match goal with |- context [if ?b then _ else _] => destruct b end;
  match goal with |- context [cos ?t] => pose proof (Cexpi_n2 t) as H; unfold n2, Cexpi in *; simpl in * end; nra.
Qed.
Lemma nbl_n2_0_2 k dx lam z : n2 (nbl_re_0_2 k dx lam z, nbl_im_0_2 k dx lam z) <= 1.
Proof.
  unfold nbl_re_0_2, nbl_im_0_2.
  match goal with |- context [if ?b then _ else _] => destruct b end;
  match goal with |- context [cos ?t] => pose proof (Cexpi_n2 t) as H; unfold n2, Cexpi in *; simpl in * end; nra.
Qed.
Lemma nbl_n2_0_3 k dx lam z : n2 (nbl_re_0_3 k dx lam z, nbl_im_0_3 k dx lam z) <= 1.
Proof.
  unfold nbl_re_0_3, nbl_im_0_3.
  match goal with |- context [if ?b then _ else _] => destruct b end;
  match goal with |- context [cos ?t] => pose proof (Cexpi_n2 t) as H; unfold n2, Cexpi in *; simpl in * end; nra.
Qed.
Lemma nbl_n2_1_0 k dx lam z : n2 (nbl_re_1_0 k dx lam z, nbl_im_1_0 k dx lam z) <= 1.
Proof.
  unfold nbl_re_1_0, nbl_im_1_0.
  match goal with |- context [if ?b then _ else _] => destruct b end;
  match goal with |- context [cos ?t] => pose proof (Cexpi_n2 t) as H; unfold n2, Cexpi in *; simpl in * end; nra.
Qed.
Lemma nbl_n2_1_1 k dx lam z : n2 (nbl_re_1_1 k dx lam z, nbl_im_1_1 k dx lam z) <= 1.
Proof.
  unfold nbl_re_1_1, nbl_im_1_1.
  match goal with |- context [if ?b then _ else _] => destruct b end;
  match goal with |- context [cos ?t] => pose proof (Cexpi_n2 t) as H; unfold n2, Cexpi in *; simpl in * end; nra.
Qed.
Lemma nbl_n2_1_2 k dx lam z : n2 (nbl_re_1_2 k dx lam z, nbl_im_1_2 k dx lam z) <= 1.
Proof.
  unfold nbl_re_1_2, nbl_im_1_2.
  match goal with |- context [if ?b then _ else _] => destruct b end;
  match goal with |- context [cos ?t] => pose proof (Cexpi_n2 t) as H; unfold n2, Cexpi in *; simpl in * end; nra.
Qed.
Lemma nbl_n2_1_3 k dx lam z : n2 (nbl_re_1_3 k dx lam z, nbl_im_1_3 k dx lam z) <= 1.
Proof.
  unfold nbl_re_1_3, nbl_im_1_3.
  match goal with |- context [if ?b then _ else _] => destruct b end;
  match goal with |- context [cos ?t] => pose proof (Cexpi_n2 t) as H; unfold n2, Cexpi in *; simpl in * end; nra.
Qed.
Lemma nbl_n2_2_0 k dx lam z : n2 (nbl_re_2_0 k dx lam z, nbl_im_2_0 k dx lam z) <= 1.
Proof.
  unfold nbl_re_2_0, nbl_im_2_0.
  match goal with |- context [if ?b then _ else _] => destruct b end;
  match goal with |- context [cos ?t] => pose proof (Cexpi_n2 t) as H; unfold n2, Cexpi in *; simpl in * end; nra.
Qed.
Lemma nbl_n2_2_1 k dx lam z : n2 (nbl_re_2_1 k dx lam z, nbl_im_2_1 k dx lam z) <= 1.
Proof.
  unfold nbl_re_2_1, nbl_im_2_1.
  match goal with |- context [if ?b then _ else _] => destruct b end;
  match goal with |- context [cos ?t] => pose proof (Cexpi_n2 t) as H; unfold n2, Cexpi in *; simpl in * end; nra.
Qed.
Lemma nbl_n2_2_2 k dx lam z : n2 (nbl_re_2_2 k dx lam z, nbl_im_2_2 k dx lam z) <= 1.
Proof.
  unfold nbl_re_2_2, nbl_im_2_2.
  match goal with |- context [if ?b then _ else _] => destruct b end;
  match goal with |- context [cos ?t] => pose proof (Cexpi_n2 t) as H; unfold n2, Cexpi in *; simpl in * end; nra.
Qed.
Lemma nbl_n2_2_3 k dx lam z : n2 (nbl_re_2_3 k dx lam z, nbl_im_2_3 k dx lam z) <= 1.
Proof.
  unfold nbl_re_2_3, nbl_im_2_3.
  match goal with |- context [if ?b then _ else _] => destruct b end;
  match goal with |- context [cos ?t] => pose proof (Cexpi_n2 t) as H; unfold n2, Cexpi in *; simpl in * end; nra.
Qed.
