(* Wave tie, band-limited kernel nbl: statements about the definitions traced from /repo on this run (Run.GenWaveK).
   Compiled on every run. *)
From Coq Require Import Reals Lra Bool.
From Coquelicot Require Import Complex.
From OdakV Require Import Base.RealAux Wave.Fields Wave.Kernels.
From Run Require Import GenWaveK.
Open Scope R_scope.

Ltac sqrt_canon :=
  repeat match goal with |- context [sqrt ?a] => progress ring_simplify a end.
Ltac align_sqrt tac :=
  match goal with |- ?L = ?R =>
    match L with context [sqrt ?a] => match R with context [sqrt ?b] =>
      replace (sqrt a) with (sqrt b) by (f_equal; tac) end end end.

Lemma nbl_radnn_0_0 k dx lam z : 0 < lam -> 0 < dx -> lam * lam <= 2 * (dx * dx) -> 0 <= nbl_rad_0_0 k dx lam z.
Proof.
  intros Hl Hd Hg. replace (nbl_rad_0_0 k dx lam z) with (1 - (lam * ((- (1 / 2)) / dx)) ^ 2 - (lam * ((- (1 / 2)) / dx)) ^ 2) by (unfold nbl_rad_0_0; field; lra).
  apply rad_as_nonneg; try assumption; lra.
Qed.
Lemma nbl_add_0_0 k dx lam z1 z2 : nbl_ph_0_0 k dx lam (z1 + z2) = nbl_ph_0_0 k dx lam z1 + nbl_ph_0_0 k dx lam z2.
Proof. unfold nbl_ph_0_0. ring. Qed.
Lemma nbl_n2_0_0 k dx lam z : n2 (nbl_re_0_0 k dx lam z, nbl_im_0_0 k dx lam z) <= 1.
Proof.
  unfold nbl_re_0_0, nbl_im_0_0.
  match goal with |- context [if ?b then _ else _] => destruct b end;
  match goal with |- context [cos ?t] => pose proof (Cexpi_n2 t) as H; unfold n2, Cexpi in *; simpl in * end; nra.
Qed.
Lemma nbl_radnn_0_1 k dx lam z : 0 < lam -> 0 < dx -> lam * lam <= 2 * (dx * dx) -> 0 <= nbl_rad_0_1 k dx lam z.
Proof.
  intros Hl Hd Hg. replace (nbl_rad_0_1 k dx lam z) with (1 - (lam * ((- (1 / 6)) / dx)) ^ 2 - (lam * ((- (1 / 2)) / dx)) ^ 2) by (unfold nbl_rad_0_1; field; lra).
  apply rad_as_nonneg; try assumption; lra.
Qed.
Lemma nbl_add_0_1 k dx lam z1 z2 : nbl_ph_0_1 k dx lam (z1 + z2) = nbl_ph_0_1 k dx lam z1 + nbl_ph_0_1 k dx lam z2.
Proof. unfold nbl_ph_0_1. ring. Qed.
Lemma nbl_n2_0_1 k dx lam z : n2 (nbl_re_0_1 k dx lam z, nbl_im_0_1 k dx lam z) <= 1.
Proof.
  unfold nbl_re_0_1, nbl_im_0_1.
  match goal with |- context [if ?b then _ else _] => destruct b end;
  match goal with |- context [cos ?t] => pose proof (Cexpi_n2 t) as H; unfold n2, Cexpi in *; simpl in * end; nra.
Qed.
Lemma nbl_radnn_0_2 k dx lam z : 0 < lam -> 0 < dx -> lam * lam <= 2 * (dx * dx) -> 0 <= nbl_rad_0_2 k dx lam z.
Proof.
  intros Hl Hd Hg. replace (nbl_rad_0_2 k dx lam z) with (1 - (lam * ((1 / 6) / dx)) ^ 2 - (lam * ((- (1 / 2)) / dx)) ^ 2) by (unfold nbl_rad_0_2; field; lra).
  apply rad_as_nonneg; try assumption; lra.
Qed.
Lemma nbl_add_0_2 k dx lam z1 z2 : nbl_ph_0_2 k dx lam (z1 + z2) = nbl_ph_0_2 k dx lam z1 + nbl_ph_0_2 k dx lam z2.
Proof. unfold nbl_ph_0_2. ring. Qed.
Lemma nbl_n2_0_2 k dx lam z : n2 (nbl_re_0_2 k dx lam z, nbl_im_0_2 k dx lam z) <= 1.
Proof.
  unfold nbl_re_0_2, nbl_im_0_2.
  match goal with |- context [if ?b then _ else _] => destruct b end;
  match goal with |- context [cos ?t] => pose proof (Cexpi_n2 t) as H; unfold n2, Cexpi in *; simpl in * end; nra.
Qed.
Lemma nbl_radnn_0_3 k dx lam z : 0 < lam -> 0 < dx -> lam * lam <= 2 * (dx * dx) -> 0 <= nbl_rad_0_3 k dx lam z.
Proof.
  intros Hl Hd Hg. replace (nbl_rad_0_3 k dx lam z) with (1 - (lam * ((1 / 2) / dx)) ^ 2 - (lam * ((- (1 / 2)) / dx)) ^ 2) by (unfold nbl_rad_0_3; field; lra).
  apply rad_as_nonneg; try assumption; lra.
Qed.
Lemma nbl_add_0_3 k dx lam z1 z2 : nbl_ph_0_3 k dx lam (z1 + z2) = nbl_ph_0_3 k dx lam z1 + nbl_ph_0_3 k dx lam z2.
Proof. unfold nbl_ph_0_3. ring. Qed.
Lemma nbl_n2_0_3 k dx lam z : n2 (nbl_re_0_3 k dx lam z, nbl_im_0_3 k dx lam z) <= 1.
Proof.
  unfold nbl_re_0_3, nbl_im_0_3.
  match goal with |- context [if ?b then _ else _] => destruct b end;
  match goal with |- context [cos ?t] => pose proof (Cexpi_n2 t) as H; unfold n2, Cexpi in *; simpl in * end; nra.
Qed.
Lemma nbl_radnn_1_0 k dx lam z : 0 < lam -> 0 < dx -> lam * lam <= 2 * (dx * dx) -> 0 <= nbl_rad_1_0 k dx lam z.
Proof.
  intros Hl Hd Hg. replace (nbl_rad_1_0 k dx lam z) with (1 - (lam * ((- (1 / 2)) / dx)) ^ 2 - (lam * ((0 / 1) / dx)) ^ 2) by (unfold nbl_rad_1_0; field; lra).
  apply rad_as_nonneg; try assumption; lra.
Qed.
Lemma nbl_add_1_0 k dx lam z1 z2 : nbl_ph_1_0 k dx lam (z1 + z2) = nbl_ph_1_0 k dx lam z1 + nbl_ph_1_0 k dx lam z2.
Proof. unfold nbl_ph_1_0. ring. Qed.
Lemma nbl_n2_1_0 k dx lam z : n2 (nbl_re_1_0 k dx lam z, nbl_im_1_0 k dx lam z) <= 1.
Proof.
  unfold nbl_re_1_0, nbl_im_1_0.
  match goal with |- context [if ?b then _ else _] => destruct b end;
  match goal with |- context [cos ?t] => pose proof (Cexpi_n2 t) as H; unfold n2, Cexpi in *; simpl in * end; nra.
Qed.
Lemma nbl_radnn_1_1 k dx lam z : 0 < lam -> 0 < dx -> lam * lam <= 2 * (dx * dx) -> 0 <= nbl_rad_1_1 k dx lam z.
Proof.
  intros Hl Hd Hg. replace (nbl_rad_1_1 k dx lam z) with (1 - (lam * ((- (1 / 6)) / dx)) ^ 2 - (lam * ((0 / 1) / dx)) ^ 2) by (unfold nbl_rad_1_1; field; lra).
  apply rad_as_nonneg; try assumption; lra.
Qed.
Lemma nbl_add_1_1 k dx lam z1 z2 : nbl_ph_1_1 k dx lam (z1 + z2) = nbl_ph_1_1 k dx lam z1 + nbl_ph_1_1 k dx lam z2.
Proof. unfold nbl_ph_1_1. ring. Qed.
Lemma nbl_n2_1_1 k dx lam z : n2 (nbl_re_1_1 k dx lam z, nbl_im_1_1 k dx lam z) <= 1.
Proof.
  unfold nbl_re_1_1, nbl_im_1_1.
  match goal with |- context [if ?b then _ else _] => destruct b end;
  match goal with |- context [cos ?t] => pose proof (Cexpi_n2 t) as H; unfold n2, Cexpi in *; simpl in * end; nra.
Qed.
Lemma nbl_radnn_1_2 k dx lam z : 0 < lam -> 0 < dx -> lam * lam <= 2 * (dx * dx) -> 0 <= nbl_rad_1_2 k dx lam z.
Proof.
  intros Hl Hd Hg. replace (nbl_rad_1_2 k dx lam z) with (1 - (lam * ((1 / 6) / dx)) ^ 2 - (lam * ((0 / 1) / dx)) ^ 2) by (unfold nbl_rad_1_2; field; lra).
  apply rad_as_nonneg; try assumption; lra.
Qed.
Lemma nbl_add_1_2 k dx lam z1 z2 : nbl_ph_1_2 k dx lam (z1 + z2) = nbl_ph_1_2 k dx lam z1 + nbl_ph_1_2 k dx lam z2.
Proof. unfold nbl_ph_1_2. ring. Qed.
Lemma nbl_n2_1_2 k dx lam z : n2 (nbl_re_1_2 k dx lam z, nbl_im_1_2 k dx lam z) <= 1.
Proof.
  unfold nbl_re_1_2, nbl_im_1_2.
  match goal with |- context [if ?b then _ else _] => destruct b end;
  match goal with |- context [cos ?t] => pose proof (Cexpi_n2 t) as H; unfold n2, Cexpi in *; simpl in * end; nra.
Qed.
Lemma nbl_radnn_1_3 k dx lam z : 0 < lam -> 0 < dx -> lam * lam <= 2 * (dx * dx) -> 0 <= nbl_rad_1_3 k dx lam z.
Proof.
  intros Hl Hd Hg. replace (nbl_rad_1_3 k dx lam z) with (1 - (lam * ((1 / 2) / dx)) ^ 2 - (lam * ((0 / 1) / dx)) ^ 2) by (unfold nbl_rad_1_3; field; lra).
  apply rad_as_nonneg; try assumption; lra.
Qed.
Lemma nbl_add_1_3 k dx lam z1 z2 : nbl_ph_1_3 k dx lam (z1 + z2) = nbl_ph_1_3 k dx lam z1 + nbl_ph_1_3 k dx lam z2.
Proof. unfold nbl_ph_1_3. ring. Qed.
Lemma nbl_n2_1_3 k dx lam z : n2 (nbl_re_1_3 k dx lam z, nbl_im_1_3 k dx lam z) <= 1.
Proof.
  unfold nbl_re_1_3, nbl_im_1_3.
  match goal with |- context [if ?b then _ else _] => destruct b end;
  match goal with |- context [cos ?t] => pose proof (Cexpi_n2 t) as H; unfold n2, Cexpi in *; simpl in * end; nra.
Qed.
Lemma nbl_radnn_2_0 k dx lam z : 0 < lam -> 0 < dx -> lam * lam <= 2 * (dx * dx) -> 0 <= nbl_rad_2_0 k dx lam z.
Proof.
  intros Hl Hd Hg. replace (nbl_rad_2_0 k dx lam z) with (1 - (lam * ((- (1 / 2)) / dx)) ^ 2 - (lam * ((1 / 2) / dx)) ^ 2) by (unfold nbl_rad_2_0; field; lra).
  apply rad_as_nonneg; try assumption; lra.
Qed.
Lemma nbl_add_2_0 k dx lam z1 z2 : nbl_ph_2_0 k dx lam (z1 + z2) = nbl_ph_2_0 k dx lam z1 + nbl_ph_2_0 k dx lam z2.
Proof. unfold nbl_ph_2_0. ring. Qed.
Lemma nbl_n2_2_0 k dx lam z : n2 (nbl_re_2_0 k dx lam z, nbl_im_2_0 k dx lam z) <= 1.
Proof.
  unfold nbl_re_2_0, nbl_im_2_0.
  match goal with |- context [if ?b then _ else _] => destruct b end;
  match goal with |- context [cos ?t] => pose proof (Cexpi_n2 t) as H; unfold n2, Cexpi in *; simpl in * end; nra.
Qed.
Lemma nbl_radnn_2_1 k dx lam z : 0 < lam -> 0 < dx -> lam * lam <= 2 * (dx * dx) -> 0 <= nbl_rad_2_1 k dx lam z.
Proof.
  intros Hl Hd Hg. replace (nbl_rad_2_1 k dx lam z) with (1 - (lam * ((- (1 / 6)) / dx)) ^ 2 - (lam * ((1 / 2) / dx)) ^ 2) by (unfold nbl_rad_2_1; field; lra).
  apply rad_as_nonneg; try assumption; lra.
Qed.
Lemma nbl_add_2_1 k dx lam z1 z2 : nbl_ph_2_1 k dx lam (z1 + z2) = nbl_ph_2_1 k dx lam z1 + nbl_ph_2_1 k dx lam z2.
Proof. unfold nbl_ph_2_1. ring. Qed.
Lemma nbl_n2_2_1 k dx lam z : n2 (nbl_re_2_1 k dx lam z, nbl_im_2_1 k dx lam z) <= 1.
Proof.
  unfold nbl_re_2_1, nbl_im_2_1.
  match goal with |- context [if ?b then _ else _] => destruct b end;
  match goal with |- context [cos ?t] => pose proof (Cexpi_n2 t) as H; unfold n2, Cexpi in *; simpl in * end; nra.
Qed.
Lemma nbl_radnn_2_2 k dx lam z : 0 < lam -> 0 < dx -> lam * lam <= 2 * (dx * dx) -> 0 <= nbl_rad_2_2 k dx lam z.
Proof.
  intros Hl Hd Hg. replace (nbl_rad_2_2 k dx lam z) with (1 - (lam * ((1 / 6) / dx)) ^ 2 - (lam * ((1 / 2) / dx)) ^ 2) by (unfold nbl_rad_2_2; field; lra).
  apply rad_as_nonneg; try assumption; lra.
Qed.
Lemma nbl_add_2_2 k dx lam z1 z2 : nbl_ph_2_2 k dx lam (z1 + z2) = nbl_ph_2_2 k dx lam z1 + nbl_ph_2_2 k dx lam z2.
Proof. unfold nbl_ph_2_2. ring. Qed.
Lemma nbl_n2_2_2 k dx lam z : n2 (nbl_re_2_2 k dx lam z, nbl_im_2_2 k dx lam z) <= 1.
Proof.
  unfold nbl_re_2_2, nbl_im_2_2.
  match goal with |- context [if ?b then _ else _] => destruct b end;
  match goal with |- context [cos ?t] => pose proof (Cexpi_n2 t) as H; unfold n2, Cexpi in *; simpl in * end; nra.
Qed.
Lemma nbl_radnn_2_3 k dx lam z : 0 < lam -> 0 < dx -> lam * lam <= 2 * (dx * dx) -> 0 <= nbl_rad_2_3 k dx lam z.
Proof.
  intros Hl Hd Hg. replace (nbl_rad_2_3 k dx lam z) with (1 - (lam * ((1 / 2) / dx)) ^ 2 - (lam * ((1 / 2) / dx)) ^ 2) by (unfold nbl_rad_2_3; field; lra).
  apply rad_as_nonneg; try assumption; lra.
Qed.
Lemma nbl_add_2_3 k dx lam z1 z2 : nbl_ph_2_3 k dx lam (z1 + z2) = nbl_ph_2_3 k dx lam z1 + nbl_ph_2_3 k dx lam z2.
Proof. unfold nbl_ph_2_3. ring. Qed.
Lemma nbl_n2_2_3 k dx lam z : n2 (nbl_re_2_3 k dx lam z, nbl_im_2_3 k dx lam z) <= 1.
Proof.
  unfold nbl_re_2_3, nbl_im_2_3.
  match goal with |- context [if ?b then _ else _] => destruct b end;
  match goal with |- context [cos ?t] => pose proof (Cexpi_n2 t) as H; unfold n2, Cexpi in *; simpl in * end; nra.
Qed.
