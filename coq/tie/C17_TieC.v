(* C17 tie, part C: traced speckle_contrast and phase_gradient (window formulas and the final loss) against
   the reference model, for all reals. *)
From Coq Require Import Reals Lra List.
From OdakV Require Import Base.RealAux C17.Model C17.Lemmas C17.TieTac.
From Run Require Import GenC17.
Import ListNotations.
Open Scope R_scope.

(* the code may or may not clamp the variance before the root: over R both are the model (Cauchy-Schwarz) *)
Lemma sc_form V M w : V = win_var w -> M = win_mean w -> sqrt (Rmax V 0) / M = speckle_c w.
Proof. intros -> ->. unfold speckle_c. rewrite Rmax_comm. reflexivity. Qed.
Lemma sc_form_noclamp V M w : V = win_var w -> M = win_mean w -> sqrt V / M = speckle_c w.
Proof. intros -> ->. unfold speckle_c. rewrite speckle_clamp_noop. reflexivity. Qed.
Ltac sc_tie := first [apply sc_form | apply sc_form_noclamp]; unfold win_var, win_mean; simpl; field.

Section Speckle.
Variables i00 i01 i02 i10 i11 i12 i20 i21 i22 : R.
Lemma sc_0_0_model : sc_0_0 i00 i01 i02 i10 i11 i12 i20 i21 i22 = speckle_c [i00; i01; i10; i11].
Proof. unfold sc_0_0. sc_tie. Qed.
Lemma sc_0_1_model : sc_0_1 i00 i01 i02 i10 i11 i12 i20 i21 i22 = speckle_c [i01; i02; i11; i12].
Proof. unfold sc_0_1. sc_tie. Qed.
Lemma sc_1_0_model : sc_1_0 i00 i01 i02 i10 i11 i12 i20 i21 i22 = speckle_c [i10; i11; i20; i21].
Proof. unfold sc_1_0. sc_tie. Qed.
Lemma sc_1_1_model : sc_1_1 i00 i01 i02 i10 i11 i12 i20 i21 i22 = speckle_c [i11; i12; i21; i22].
Proof. unfold sc_1_1. sc_tie. Qed.
Lemma sc_loss_split : sc_loss i00 i01 i02 i10 i11 i12 i20 i21 i22 =
  ((sc_0_0 i00 i01 i02 i10 i11 i12 i20 i21 i22) ^ 2 + (sc_0_1 i00 i01 i02 i10 i11 i12 i20 i21 i22) ^ 2 +
   (sc_1_0 i00 i01 i02 i10 i11 i12 i20 i21 i22) ^ 2 + (sc_1_1 i00 i01 i02 i10 i11 i12 i20 i21 i22) ^ 2) / 4.
Proof. unfold sc_loss, sc_0_0, sc_0_1, sc_1_0, sc_1_1. first [reflexivity | (unfold Rdiv; ring)]. Qed.
Lemma sc_loss_model : sc_loss i00 i01 i02 i10 i11 i12 i20 i21 i22 =
  speckle_loss [[i00; i01; i10; i11]; [i01; i02; i11; i12]; [i10; i11; i20; i21]; [i11; i12; i21; i22]].
Proof.
  rewrite sc_loss_split, sc_0_0_model, sc_0_1_model, sc_1_0_model, sc_1_1_model.
  unfold speckle_loss, mse, rmean, sqd. cbn [map fst snd length].
  set (c00 := speckle_c [i00; i01; i10; i11]). set (c01 := speckle_c [i01; i02; i11; i12]).
  set (c10 := speckle_c [i10; i11; i20; i21]). set (c11 := speckle_c [i11; i12; i21; i22]).
  simpl. field.
Qed.
Theorem traced_speckle_nonneg : 0 <= sc_loss i00 i01 i02 i10 i11 i12 i20 i21 i22.
Proof. rewrite sc_loss_model. apply speckle_loss_nonneg. Qed.
End Speckle.
Theorem traced_speckle_uniform c : c <> 0 -> sc_loss c c c c c c c c c = 0 /\ sc_0_0 c c c c c c c c c = 0.
Proof.
  intros Hc. rewrite sc_loss_model, sc_0_0_model. split.
  - apply speckle_loss_uniform. repeat constructor; try discriminate; exists c; (split; [exact Hc|repeat constructor]).
  - apply (speckle_uniform c); [discriminate|exact Hc|repeat constructor].
Qed.

(* phase gradient: default Laplacian / 8 with zero padding *)
Definition lap : list R := [-1/8; -1/8; -1/8; -1/8; 1; -1/8; -1/8; -1/8; -1/8].
Section Phase.
Variables i00 i01 i02 i10 i11 i12 i20 i21 i22 : R.
Definition windows : list (list R) :=
  [ [0; 0; 0; 0; i00; i01; 0; i10; i11]; [0; 0; 0; i00; i01; i02; i10; i11; i12]; [0; 0; 0; i01; i02; 0; i11; i12; 0];
    [0; i00; i01; 0; i10; i11; 0; i20; i21]; [i00; i01; i02; i10; i11; i12; i20; i21; i22]; [i01; i02; 0; i11; i12; 0; i21; i22; 0];
    [0; i10; i11; 0; i20; i21; 0; 0; 0]; [i10; i11; i12; i20; i21; i22; 0; 0; 0]; [i11; i12; 0; i21; i22; 0; 0; 0; 0] ].
Lemma pg_centre_model : pg_1_1 i00 i01 i02 i10 i11 i12 i20 i21 i22 = dotp lap [i00; i01; i02; i10; i11; i12; i20; i21; i22].
Proof. unfold pg_1_1, lap. simpl. sem. Qed.
Lemma pg_corner_model : pg_0_0 i00 i01 i02 i10 i11 i12 i20 i21 i22 = dotp lap [0; 0; 0; 0; i00; i01; 0; i10; i11].
Proof. unfold pg_0_0, lap. simpl. sem. Qed.
Lemma pg_loss_model : pg_loss_t i00 i01 i02 i10 i11 i12 i20 i21 i22 = pg_loss lap windows.
Proof. unfold pg_loss_t, pg_loss, windows, lap, mse, rmean, sqd. simpl. sem. Qed.
Theorem traced_phase_gradient_nonneg : 0 <= pg_loss_t i00 i01 i02 i10 i11 i12 i20 i21 i22.
Proof. rewrite pg_loss_model. apply pg_nonneg. Qed.
End Phase.
Theorem traced_phase_gradient_zero : pg_loss_t 0 0 0 0 0 0 0 0 0 = 0.
Proof. rewrite pg_loss_model. apply pg_zero. unfold windows. repeat constructor. Qed.
(* a uniform phase gives no response away from the zero-padded border *)
Theorem traced_phase_gradient_uniform_interior c : pg_1_1 c c c c c c c c c = 0.
Proof. rewrite pg_centre_model. apply (dotp_uniform_zero c); [reflexivity|repeat constructor|unfold lap; simpl; field]. Qed.
Print Assumptions traced_speckle_uniform.
Print Assumptions traced_phase_gradient_uniform_interior.
