"""Writes the committed wave tie files (kernels per pixel; pipelines).  Grid: tracer/recipes/wave.py (NU=3, NV=4)."""
NU, NV = 3, 4
from fractions import Fraction as Fr
def cgrid(n, k): return Fr(-1, 2) + Fr(k, n - 1)                                   # linspace(-1/(2dx), 1/(2dx), n)[k] = c / dx
def cinset(n, k): return (Fr(-1, 2) + Fr(1, 4 * n)) + (1 - Fr(1, 2 * n)) * Fr(k, n - 1)      # band-limited inset grid
def q(c): return '(%d / %d)' % (c.numerator, c.denominator) if c >= 0 else '(- (%d / %d))' % (-c.numerator, c.denominator)
PRE = '''(* Wave tie, %s: statements about the definitions traced from /repo on this run (Run.GenWaveK).
   Compiled on every run. *)
From Coq Require Import Reals Lra Bool.
From Coquelicot Require Import Complex.
From OdakV Require Import Base.RealAux Wave.Fields Wave.Kernels.
From Run Require Import GenWaveK.
Open Scope R_scope.

Ltac sqrt_canon :=
  repeat match goal with |- context [sqrt ?a] => progress ring_simplify a end.
Ltac align_sqrt tac :=
  match goal with |- ?L = ?R =>
    match L with context [sqrt ?a] => match R with context [sqrt ?b] =>
      replace (sqrt a) with (sqrt b) by (f_equal; tac) end end end.
'''
def grid(n, i):
    return '(fgrid dx %d %d)' % (n, i)
for tag, args, kz, hyp in (('as', 'dx lam', 'kz_as', ''), ('tf', 'dx lam', 'kz_tf', ''), ('nas', 'k dx lam', 'kz_as', 'k = 2 * PI / lam -> '), ('ntf', 'k dx lam', 'kz_tf', 'k = 2 * PI / lam -> ')):
    L = [PRE % ('kernel %s' % tag)]
    numpy = tag.startswith('n')
    for i in range(NU):
        for j in range(NV):
            n = '%s_%%s_%d_%d' % (tag, i, j)
            L.append('Lemma %s_pix_%d_%d %s z : (%s %s z, %s %s z) = Cexpi (%s %s z).\nProof. reflexivity. Qed.' % (tag, i, j, args, n % 're', args, n % 'im', args, n % 'ph', args))
            L.append('Lemma %s_add_%d_%d %s z1 z2 : %s %s (z1 + z2) = %s %s z1 + %s %s z2.\nProof. unfold %s. ring. Qed.' % (tag, i, j, args, n % 'ph', args, n % 'ph', args, n % 'ph', args, n % 'ph'))
            # reference formula: torch FY[i,j] = fx[i] (nu grid), FX[i,j] = fy[j] (nv grid); numpy FX[i,j] = fx[j] (nu = cols), FY[i,j] = fy[i]
            if numpy:
                fa, fb = grid(NV, j), grid(NU, i)
            else:
                fa, fb = grid(NV, j), grid(NU, i)
            if kz == 'kz_as':
                prf = 'intros Hd Hl%s. unfold %s, kz_as%s. align_sqrt ltac:(unfold fgrid; simpl; field; lra). field. lra.' % (' Hk' if numpy else '', n % 'ph', '; subst k' if numpy else '')
            else:
                prf = 'intros Hd Hl%s. unfold %s, kz_tf, fgrid%s. simpl. field. lra.' % (' Hk' if numpy else '', n % 'ph', '; subst k' if numpy else '')
            L.append('''Lemma %s_laws_%d_%d %s z1 z2 :
  n2 (%s %s z1, %s %s z1) = 1 /\\
  Cmult (%s %s z1, %s %s z1) (%s %s z2, %s %s z2) = (%s %s (z1 + z2), %s %s (z1 + z2)) /\\
  (%s %s 0, %s %s 0) = RtoC 1 /\\
  Cmult (%s %s z1, %s %s z1) (%s %s (- z1), %s %s (- z1)) = RtoC 1.
Proof.
  rewrite !%s_pix_%d_%d. split; [apply Cexpi_n2|].
  split; [apply (kernel_compose (%s %s)), %s_add_%d_%d|].
  split; [apply (kernel_zero (%s %s)), %s_add_%d_%d | apply (kernel_undo (%s %s)), %s_add_%d_%d].
Qed.''' % (tag, i, j, args, n % 're', args, n % 'im', args, n % 're', args, n % 'im', args, n % 're', args, n % 'im', args, n % 're', args, n % 'im', args,
           n % 're', args, n % 'im', args, n % 're', args, n % 'im', args, n % 're', args, n % 'im', args,
           tag, i, j, n % 'ph', args, tag, i, j, n % 'ph', args, tag, i, j, n % 'ph', args, tag, i, j))
            L.append('Lemma %s_ref_%d_%d %s z : 0 < dx -> 0 < lam -> %s%s %s z = z * %s lam %s %s.\nProof. %s Qed.' % (tag, i, j, args, hyp, n % 'ph', args, kz, fa, fb, prf))
    if tag in ('as', 'nas'):
        for i in range(NU):
            for j in range(NV):
                a, b = q(cgrid(NV, j)), q(cgrid(NU, i))
                L.append('Lemma %s_radnn_%d_%d %s z : 0 < lam -> 0 < dx -> lam * lam <= 2 * (dx * dx) -> 0 <= %s_rad_%d_%d %s z.\nProof.\n  intros Hl Hd Hg. replace (%s_rad_%d_%d %s z) with (1 - (lam * (%s / dx)) ^ 2 - (lam * (%s / dx)) ^ 2) by (unfold %s_rad_%d_%d; field; lra).\n  apply rad_as_nonneg; try assumption; lra.\nQed.' % (tag, i, j, args, tag, i, j, args, tag, i, j, args, a, b, tag, i, j))
    open('Wave_TieK_%s.v' % tag, 'w').write('\n'.join(L) + '\n')
# band-limited (torch and numpy): mask x phasor
for tag, args in (('bl', 'dx lam'), ('nbl', 'k dx lam')):
    L = [PRE % ('band-limited kernel %s' % tag)]
    for i in range(NU):
        for j in range(NV):
            n = '%s_%%s_%d_%d' % (tag, i, j)
            if tag == 'bl':
                L.append('Lemma bl_pix_%d_%d dx lam z : (bl_re_%d_%d dx lam z, bl_im_%d_%d dx lam z) = Cmult (RtoC (mask01 (bl_mask_%d_%d dx lam z))) (Cexpi (bl_ph_%d_%d dx lam z)).\nProof. rewrite <- masked_pixel. unfold bl_re_%d_%d, bl_im_%d_%d, mask01. fold (bl_mask_%d_%d dx lam z). fold (bl_ph_%d_%d dx lam z). f_equal; destruct (bl_mask_%d_%d dx lam z); ring. Qed.' % ((i, j) * 10))
                L.append('Lemma bl_add_%d_%d dx lam z1 z2 : bl_ph_%d_%d dx lam (z1 + z2) = bl_ph_%d_%d dx lam z1 + bl_ph_%d_%d dx lam z2.\nProof. unfold bl_ph_%d_%d. ring. Qed.' % ((i, j) * 5))
                L.append('''Lemma bl_laws_%d_%d dx lam z1 z2 :
  n2 (bl_re_%d_%d dx lam z1, bl_im_%d_%d dx lam z1) <= 1 /\\
  (bl_mask_%d_%d dx lam z1 = true -> bl_mask_%d_%d dx lam z2 = true -> bl_mask_%d_%d dx lam (z1 + z2) = true ->
   Cmult (bl_re_%d_%d dx lam z1, bl_im_%d_%d dx lam z1) (bl_re_%d_%d dx lam z2, bl_im_%d_%d dx lam z2) = (bl_re_%d_%d dx lam (z1 + z2), bl_im_%d_%d dx lam (z1 + z2))).
Proof.
  rewrite !bl_pix_%d_%d. split; [apply masked_n2_le|].
  intros H1 H2 H3. rewrite H1, H2, H3. unfold mask01.
  replace (Cmult (Cmult (RtoC 1) (Cexpi (bl_ph_%d_%d dx lam z1))) (Cmult (RtoC 1) (Cexpi (bl_ph_%d_%d dx lam z2))))
    with (Cmult (RtoC 1) (Cmult (Cexpi (bl_ph_%d_%d dx lam z1)) (Cexpi (bl_ph_%d_%d dx lam z2)))) by ring.
  f_equal. apply (kernel_compose (bl_ph_%d_%d dx lam)), bl_add_%d_%d.
Qed.''' % ((i, j) * 19))
                L.append('Lemma bl_mask_even_%d_%d dx lam z : bl_mask_%d_%d dx lam (- z) = bl_mask_%d_%d dx lam z.\nProof. unfold bl_mask_%d_%d. sqrt_canon. reflexivity. Qed.' % ((i, j) * 4))
                a, b = q(cinset(NV, j)), q(cinset(NU, i))
                L.append('Lemma bl_radnn_%d_%d dx lam z : 0 < lam -> 0 < dx -> lam * lam <= 2 * (dx * dx) -> 0 <= bl_rad_%d_%d dx lam z.\nProof.\n  intros Hl Hd Hg. replace (bl_rad_%d_%d dx lam z) with (1 / (lam ^ 2) - ((%s / dx) ^ 2 + (%s / dx) ^ 2)) by (unfold bl_rad_%d_%d; field; lra).\n  apply rad_bl_nonneg; try assumption; lra.\nQed.' % (i, j, i, j, i, j, a, b, i, j))
            else:
                a, b = q(cgrid(NV, j)), q(cgrid(NU, i))
                L.append('Lemma nbl_radnn_%d_%d k dx lam z : 0 < lam -> 0 < dx -> lam * lam <= 2 * (dx * dx) -> 0 <= nbl_rad_%d_%d k dx lam z.\nProof.\n  intros Hl Hd Hg. replace (nbl_rad_%d_%d k dx lam z) with (1 - (lam * (%s / dx)) ^ 2 - (lam * (%s / dx)) ^ 2) by (unfold nbl_rad_%d_%d; field; lra).\n  apply rad_as_nonneg; try assumption; lra.\nQed.' % (i, j, i, j, i, j, a, b, i, j))
                L.append('Lemma nbl_add_%d_%d k dx lam z1 z2 : nbl_ph_%d_%d k dx lam (z1 + z2) = nbl_ph_%d_%d k dx lam z1 + nbl_ph_%d_%d k dx lam z2.\nProof. unfold nbl_ph_%d_%d. ring. Qed.' % ((i, j) * 5))
                L.append('Lemma nbl_n2_%d_%d k dx lam z : n2 (nbl_re_%d_%d k dx lam z, nbl_im_%d_%d k dx lam z) <= 1.\nProof.\n  unfold nbl_re_%d_%d, nbl_im_%d_%d.\n  match goal with |- context [if ?b then _ else _] => destruct b end;\n  match goal with |- context [cos ?t] => pose proof (Cexpi_n2 t) as H; unfold n2, Cexpi in *; simpl in * end; nra.\nQed.' % ((i, j) * 5))
                L.append('Lemma nbl_pix_%d_%d k dx lam z : (nbl_re_%d_%d k dx lam z, nbl_im_%d_%d k dx lam z) = Cmult (RtoC (mask01 (nbl_mask_%d_%d k dx lam z))) (Cexpi (nbl_ph_%d_%d k dx lam z)).\nProof.\n  unfold nbl_re_%d_%d, nbl_im_%d_%d, nbl_mask_%d_%d, nbl_ph_%d_%d, mask01, Cmult, Cexpi, RtoC; cbn [fst snd].\n  match goal with |- context [if ?b then _ else _] => destruct b end; f_equal; ring.\nQed.' % ((i, j) * 9))
                L.append('Lemma nbl_mask_even_%d_%d k dx lam z : nbl_mask_%d_%d k dx lam (- z) = nbl_mask_%d_%d k dx lam z.\nProof. unfold nbl_mask_%d_%d. sqrt_canon. reflexivity. Qed.' % ((i, j) * 4))
                L.append('''Lemma nbl_laws_%d_%d k dx lam z1 z2 :
  nbl_mask_%d_%d k dx lam z1 = true -> nbl_mask_%d_%d k dx lam z2 = true -> nbl_mask_%d_%d k dx lam (z1 + z2) = true ->
   Cmult (nbl_re_%d_%d k dx lam z1, nbl_im_%d_%d k dx lam z1) (nbl_re_%d_%d k dx lam z2, nbl_im_%d_%d k dx lam z2) = (nbl_re_%d_%d k dx lam (z1 + z2), nbl_im_%d_%d k dx lam (z1 + z2)).
Proof.
  rewrite !nbl_pix_%d_%d. intros H1 H2 H3. rewrite H1, H2, H3. unfold mask01.
  replace (Cmult (Cmult (RtoC 1) (Cexpi (nbl_ph_%d_%d k dx lam z1))) (Cmult (RtoC 1) (Cexpi (nbl_ph_%d_%d k dx lam z2))))
    with (Cmult (RtoC 1) (Cmult (Cexpi (nbl_ph_%d_%d k dx lam z1)) (Cexpi (nbl_ph_%d_%d k dx lam z2)))) by ring.
  f_equal. apply (kernel_compose (nbl_ph_%d_%d k dx lam)), nbl_add_%d_%d.
Qed.''' % ((i, j) * 17))
    open('Wave_TieK_%s.v' % tag, 'w').write('\n'.join(L) + '\n')
