(* C17 tie, part A: the traced wrapped_mean_squared_error and total_variation_loss (Run.GenC17, generated
   from the current odak sources on this run) are the reference model at the traced shapes, for all reals;
   the property clauses are then stated on the traced definitions themselves. *)
From Coq Require Import Reals Lra List.
From OdakV Require Import Base.RealAux C17.Model C17.Lemmas C17.TieTac.
From Run Require Import GenC17.
Import ListNotations.
Open Scope R_scope.

Lemma w_mean_model a00 a01 a10 a11 b00 b01 b10 b11 :
  w_mean a00 a01 a10 a11 b00 b01 b10 b11 = wmse_mean [(a00, b00); (a01, b01); (a10, b10); (a11, b11)].
Proof. unfold w_mean, wmse_mean, rmean, wterm. simpl. sem. Qed.
Lemma w_sum_model a00 a01 a10 a11 b00 b01 b10 b11 :
  w_sum a00 a01 a10 a11 b00 b01 b10 b11 = wmse_sum [(a00, b00); (a01, b01); (a10, b10); (a11, b11)].
Proof. unfold w_sum, wmse_sum, wterm. simpl. sem. Qed.

Theorem traced_wmse_nonneg a00 a01 a10 a11 b00 b01 b10 b11 :
  0 <= w_mean a00 a01 a10 a11 b00 b01 b10 b11 /\ 0 <= w_sum a00 a01 a10 a11 b00 b01 b10 b11.
Proof. rewrite w_mean_model, w_sum_model. split; [apply wmse_mean_nonneg|apply wmse_sum_nonneg]. Qed.
Theorem traced_wmse_zero a00 a01 a10 a11 :
  w_mean a00 a01 a10 a11 a00 a01 a10 a11 = 0 /\ w_sum a00 a01 a10 a11 a00 a01 a10 a11 = 0.
Proof. rewrite w_mean_model, w_sum_model. split; [apply wmse_mean_zero|apply wmse_sum_zero]; repeat constructor. Qed.
Theorem traced_wmse_periodic a00 a01 a10 a11 b00 b01 b10 b11 (j00 j01 j10 j11 k00 k01 k10 k11 : Z) :
  w_mean (a00 + 2 * IZR j00 * PI) (a01 + 2 * IZR j01 * PI) (a10 + 2 * IZR j10 * PI) (a11 + 2 * IZR j11 * PI)
         (b00 + 2 * IZR k00 * PI) (b01 + 2 * IZR k01 * PI) (b10 + 2 * IZR k10 * PI) (b11 + 2 * IZR k11 * PI)
  = w_mean a00 a01 a10 a11 b00 b01 b10 b11.
Proof.
  rewrite !w_mean_model.
  exact (wmse_mean_periodic [(a00, b00, (j00, k00)); (a01, b01, (j01, k01)); (a10, b10, (j10, k10)); (a11, b11, (j11, k11))]).
Qed.
Theorem traced_wmse_closed a00 a01 a10 a11 b00 b01 b10 b11 :
  w_mean a00 a01 a10 a11 b00 b01 b10 b11 =
  ((2 - 2 * cos (a00 - b00)) + (2 - 2 * cos (a01 - b01)) + (2 - 2 * cos (a10 - b10)) + (2 - 2 * cos (a11 - b11))) / 4.
Proof. rewrite w_mean_model, wmse_mean_closed. unfold rmean. simpl. sem. Qed.

Lemma tv2d_model f00 f01 f02 f10 f11 f12 : tv2d f00 f01 f02 f10 f11 f12 = tv [[[f00; f01; f02]; [f10; f11; f12]]].
Proof. unfold tv2d, tv. simpl. sem. Qed.
Lemma tv3d_model f000 f001 f010 f011 f100 f101 f110 f111 :
  tv3d f000 f001 f010 f011 f100 f101 f110 f111 = tv [[[f000; f001]; [f010; f011]]; [[f100; f101]; [f110; f111]]].
Proof. unfold tv3d, tv. simpl. sem. Qed.
Theorem traced_tv_nonneg f00 f01 f02 f10 f11 f12 g000 g001 g010 g011 g100 g101 g110 g111 :
  0 <= tv2d f00 f01 f02 f10 f11 f12 /\ 0 <= tv3d g000 g001 g010 g011 g100 g101 g110 g111.
Proof. rewrite tv2d_model, tv3d_model. split; apply tv_nonneg. Qed.
Theorem traced_tv_uniform c d : tv2d c c c c c c = 0 /\ tv3d c c c c d d d d = 0.
Proof.
  rewrite tv2d_model, tv3d_model. split; apply tv_uniform.
  - constructor; [exists c; repeat constructor|constructor].
  - constructor; [exists c; repeat constructor|constructor; [exists d; repeat constructor|constructor]].
Qed.
Print Assumptions traced_wmse_periodic.
Print Assumptions traced_tv_uniform.
