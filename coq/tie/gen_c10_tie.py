"""Writes the (static, committed) C10 tie files.  They are compiled on every run against the freshly
traced Run.GenC10; argument lists follow the recipe tracer/recipes/c10.py."""
T=['t_%d_%d'%(i,j) for i in range(3) for j in range(3)]
R=['r_0_%d_%d'%(i,j) for i in range(2) for j in range(3)]
P=['p_0_%d'%j for j in range(3)]
ta=' '.join(T); ra=' '.join(R); pa=' '.join(P)
comp=['vx','vy','vz']
PRE='''(* C10 tie, part %s: the definitions traced from /repo on this run equal the reference model
   (coq/theories/C10/Model.v) for ALL real inputs, under the property's own guards only (non-zero
   triangle area; ray not parallel to the plane).  Compiled on every run against Run.GenC10. *)
From Coq Require Import Reals Lra Bool.
From OdakV Require Import Base.RealAux Base.Vec3 C10.Model C10.Lemmas.
From Run Require Import GenC10.
Open Scope R_scope.

Ltac v3' := repeat progress (unfold vdot, vcross, vadd, vsub, vscale, vx, vy, vz in *; cbn [fst snd] in *).
Ltac open_model := repeat progress (unfold tri_normal, tri_raw_normal, centroid, plane_dist, hit_point, bary_u, bary_v in *); v3'.

Section Single.
Variables ''' + ta + ''' : R.
Variables ''' + ra + ''' : R.
Variables ''' + pa + ''' : R.
Let t0 : V3 := (t_0_0, t_0_1, t_0_2).
Let t1 : V3 := (t_1_0, t_1_1, t_1_2).
Let t2 : V3 := (t_2_0, t_2_1, t_2_2).
Let o : V3 := (r_0_0_0, r_0_0_1, r_0_0_2).
Let d : V3 := (r_0_1_0, r_0_1_1, r_0_1_2).
Let p : V3 := (p_0_0, p_0_1, p_0_2).
Let raw := tri_raw_normal t0 t1 t2.
Hypothesis nondeg : raw <> vzero.

Lemma norm_pos : 0 < vnorm raw.
Proof. apply vnorm_pos, vnorm2_pos, nondeg. Qed.
Lemma gram_pos : 0 < vnorm2 raw.
Proof. apply vnorm2_pos, nondeg. Qed.
(* unfold the model down to coordinates but keep |raw| as one atom N; every sqrt in the traced term
   must be that same norm (checked by ring on its argument) *)
Ltac open :=
  pose proof norm_pos as Hn; unfold raw, t0, t1, t2, o, d, p in *; open_model;
  match type of Hn with 0 < ?n =>
    let N := fresh "N" in
    set (N := n) in *;
    repeat match goal with |- context [sqrt ?a] =>
      replace (sqrt a) with N by (subst N; unfold vnorm, vnorm2; f_equal; v3'; ring) end;
    clearbody N
  end.
Ltac fin := field; repeat split; first [assumption | lra].
'''
A=[PRE % 'A (centres and normals)']
for k in range(3):
    A.append('Lemma t_center_%d_ok : t_center_%d %s = %s (centroid t0 t1 t2).\nProof. unfold t_center_%d. open. field. Qed.' % (k,k,ta,comp[k],k))
    A.append('Lemma n_center_%d_ok : n_center_%d %s = %s (centroid t0 t1 t2).\nProof. unfold n_center_%d. open. field. Qed.' % (k,k,ta,comp[k],k))
    for api in 'tn':
        A.append('Lemma %s_normal_%d_ok : %s_normal_%d %s = %s (tri_normal t0 t1 t2).\nProof. unfold %s_normal_%d. open. fin. Qed.' % (api,k,api,k,ta,comp[k],api,k))
A.append('End Single.')
open('C10_TieA.v','w').write('\n'.join(A)+'\n')
for api,part in (('t','B (PyTorch plane hit)'),('n','C (NumPy plane hit)')):
    B=[PRE % part, 'Hypothesis notpar : vdot raw d <> 0.']
    if api=='t':
        B.append('Lemma t_dist_ok : t_dist %s %s = plane_dist (tri_normal t0 t1 t2) (centroid t0 t1 t2) o d.\nProof. unfold t_dist. open. fin. Qed.' % (ta,ra))
    else:
        B.append('(* NumPy reports |distance| (known finding C10-numpy-abs-distance): the tie states exactly that *)')
        B.append('Lemma n_dist_ok : n_dist %s %s = Rabs (plane_dist (tri_normal t0 t1 t2) (centroid t0 t1 t2) o d).\nProof. unfold n_dist. open. f_equal. fin. Qed.' % (ta,ra))
    for k in range(3):
        B.append('Lemma %s_hit_%d_ok : %s_hit_%d %s %s = %s (hit_point (tri_normal t0 t1 t2) (centroid t0 t1 t2) o d).\nProof. unfold %s_hit_%d. open. fin. Qed.' % (api,k,api,k,ta,ra,comp[k],api,k))
        B.append('Lemma %s_hitn_%d_ok : %s_hitn_%d %s %s = %s (tri_normal t0 t1 t2).\nProof. unfold %s_hitn_%d. open. fin. Qed.' % (api,k,api,k,ta,ra,comp[k],api,k))
    B.append('End Single.')
    open('C10_Tie%s.v' % ('B' if api=='t' else 'C'),'w').write('\n'.join(B)+'\n')
D=[PRE % 'D (barycentric test)']
D.append('''Lemma gram_open : 0 < vdot (vsub t2 t0) (vsub t2 t0) * vdot (vsub t1 t0) (vsub t1 t0) - vdot (vsub t2 t0) (vsub t1 t0) * vdot (vsub t2 t0) (vsub t1 t0).
Proof. pose proof gram_pos as G. unfold raw in G. rewrite <- gram_is_area in G. exact G. Qed.''')
for w in 'uv':
    D.append('Lemma t_%s_ok : t_%s %s %s = bary_%s t0 t1 t2 p.\nProof. pose proof gram_open as G. unfold t_%s. open. field. lra. Qed.' % (w,w,ta,pa,w,w))
D.append('''Lemma t_flag_ok : t_flag %s %s = inside_flag t0 t1 t2 p.
Proof.
  change (t_flag %s %s) with ((Rleb 0 (t_u %s %s) && Rleb 0 (t_v %s %s)) && Rltb (t_u %s %s + t_v %s %s) 1).
  rewrite t_u_ok, t_v_ok. reflexivity.
Qed.''' % (ta,pa,ta,pa,ta,pa,ta,pa,ta,pa,ta,pa))
D.append('(* the flag intersect_w_triangle computes is the flag of the traced hit point *)')
D.append('Lemma t_hitflag_is_flag_of_hit : t_hitflag %s %s = t_flag %s (t_hit_0 %s %s) (t_hit_1 %s %s) (t_hit_2 %s %s).\nProof. reflexivity. Qed.' % (ta,ra,ta,ta,ra,ta,ra,ta,ra))
D.append('End Single.')
open('C10_TieD.v','w').write('\n'.join(D)+'\n')
# batch = map of the single-pair formulas
T2=['t_%d_%d_%d'%(a,i,j) for a in range(2) for i in range(3) for j in range(3)]
R2=['r_%d_%d_%d'%(a,i,j) for a in range(2) for i in range(2) for j in range(3)]
def tri(i): return ' '.join('t_%d_%d_%d'%(i,a,b) for a in range(3) for b in range(3))
def ray(j): return ' '.join('r_%d_%d_%d'%(j,a,b) for a in range(2) for b in range(3))
L=['''(* C10 tie, part E: batched intersection (2 triangles x 2 rays, traced) returns, entry by entry, exactly the
   single-pair formulas applied to (triangle i, ray j). *)
From Coq Require Import Reals Lra Bool.
From OdakV Require Import Base.RealAux.
From Run Require Import GenC10.
Open Scope R_scope.
Section Batch.
Variables %s : R.
Variables %s : R.''' % (' '.join(T2),' '.join(R2))]
allv=' '.join(T2)+' '+' '.join(R2)
for i in range(2):
    for j in range(2):
        L.append('Lemma tb_dist_%d_%d_ok : tb_dist_%d_%d %s = t_dist %s %s.\nProof. reflexivity. Qed.'%(i,j,i,j,allv,tri(i),ray(j)))
        L.append('Lemma tb_flag_%d_%d_ok : tb_flag_%d_%d %s = t_hitflag %s %s.\nProof. reflexivity. Qed.'%(i,j,i,j,allv,tri(i),ray(j)))
        for k in range(3):
            L.append('Lemma tb_hit_%d_%d_%d_ok : tb_hit_%d_%d_%d %s = t_hit_%d %s %s.\nProof. reflexivity. Qed.'%(i,j,k,i,j,k,allv,k,tri(i),ray(j)))
            L.append('Lemma tb_hitn_%d_%d_%d_ok : tb_hitn_%d_%d_%d %s = t_hitn_%d %s %s.\nProof. reflexivity. Qed.'%(i,j,k,i,j,k,allv,k,tri(i),ray(j)))
L.append('End Batch.')
open('C10_TieE.v','w').write('\n'.join(L)+'\n')
