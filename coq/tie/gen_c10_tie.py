"""Writes the (static, committed) C10 tie files.  They are compiled on every run against the freshly
traced Run.GenC10; argument lists follow tracer/recipes/c10.py.  Every lemma compares a traced definition
with the reference model semantically (field / ring under the property's guards), never syntactically, so
behaviour-preserving rewrites of the source still prove."""
T = ['t_%d_%d' % (i, j) for i in range(3) for j in range(3)]
R = ['r_0_%d_%d' % (i, j) for i in range(2) for j in range(3)]
P = ['p_0_%d' % j for j in range(3)]
T2 = ['t_%d_%d_%d' % (a, i, j) for a in range(2) for i in range(3) for j in range(3)]
R2 = ['r_%d_%d_%d' % (a, i, j) for a in range(2) for i in range(2) for j in range(3)]
ta, ra, pa = ' '.join(T), ' '.join(R), ' '.join(P)
comp = ['vx', 'vy', 'vz']

TACTICS = '''
Ltac v3' := repeat progress (unfold vdot, vcross, vadd, vsub, vscale, vx, vy, vz in *; cbn [fst snd] in *).
Ltac open_model := repeat progress (unfold tri_normal, tri_raw_normal, centroid, plane_dist, hit_point, bary_u, bary_v in *); v3'.
(* unfold the model down to coordinates but keep the norm |raw| of the triangle at hand as ONE atom N; every sqrt in
   the traced term must be that same norm (checked by ring on its argument) *)
Ltac open_with Hn :=
  open_model;
  match type of Hn with 0 < ?n =>
    let N := fresh "N" in
    set (N := n) in *;
    repeat match goal with |- context [sqrt ?a] =>
      replace (sqrt a) with N by (subst N; unfold vnorm, vnorm2; f_equal; v3'; ring) end;
    clearbody N
  end.
Ltac fin := field; repeat split; first [assumption | lra].
(* boolean hit flag: compare as propositions; every comparison atom of the traced flag is identified with the
   model's barycentric coordinate it equals (field decides which), whatever the order of the conjuncts *)
Ltac not_bary X := lazymatch X with bary_u _ _ _ _ => fail | bary_v _ _ _ _ => fail | _ => idtac end.
Ltac flag_tie t0 t1 t2 pt eqtac :=
  apply eq_true_iff_eq; unfold inside_flag; rewrite !andb_true_iff, !Rleb_true, !Rltb_true;
  repeat match goal with
  | |- context [Rle 0 ?X] => not_bary X;
      first [ replace X with (bary_u t0 t1 t2 pt) by eqtac | replace X with (bary_v t0 t1 t2 pt) by eqtac ]
  end;
  split; intros; repeat split; lra.
'''


def header(part):
    return ('''(* C10 tie, part %s: the definitions traced from /repo on this run equal the reference model
   (coq/theories/C10/Model.v) for ALL real inputs, under the property's own guards only (non-zero triangle
   area; ray not parallel to the plane).  Compiled on every run against Run.GenC10. *)
From Coq Require Import Reals Lra Bool.
From OdakV Require Import Base.RealAux Base.Vec3 C10.Model C10.Lemmas.
From Run Require Import GenC10.
Open Scope R_scope.
''' % part) + TACTICS


def single_section():
    return ('''
Section Single.
Variables ''' + ta + ''' : R.
Variables ''' + ra + ''' : R.
Variables ''' + pa + ''' : R.
Let t0 : V3 := (t_0_0, t_0_1, t_0_2).
Let t1 : V3 := (t_1_0, t_1_1, t_1_2).
Let t2 : V3 := (t_2_0, t_2_1, t_2_2).
Let o : V3 := (r_0_0_0, r_0_0_1, r_0_0_2).
Let d : V3 := (r_0_1_0, r_0_1_1, r_0_1_2).
Let p : V3 := (p_0_0, p_0_1, p_0_2).
Let raw := tri_raw_normal t0 t1 t2.
Hypothesis nondeg : raw <> vzero.

Lemma norm_pos : 0 < vnorm raw.
Proof. apply vnorm_pos, vnorm2_pos, nondeg. Qed.
Lemma gram_pos : 0 < vnorm2 raw.
Proof. apply vnorm2_pos, nondeg. Qed.
Lemma gram_open : 0 < vdot (vsub t2 t0) (vsub t2 t0) * vdot (vsub t1 t0) (vsub t1 t0) - vdot (vsub t2 t0) (vsub t1 t0) * vdot (vsub t2 t0) (vsub t1 t0).
Proof. pose proof gram_pos as G. unfold raw in G. rewrite <- gram_is_area in G. exact G. Qed.
Ltac open := pose proof norm_pos as Hn; unfold raw, t0, t1, t2, o, d, p in *; open_with Hn.
''')


# ------------------------------------------------------------------ A: centres and normals
A = [header('A (centres and normals)'), single_section()]
for k in range(3):
    A.append('Lemma t_center_%d_ok : t_center_%d %s = %s (centroid t0 t1 t2).\nProof. unfold t_center_%d. open. field. Qed.' % (k, k, ta, comp[k], k))
    A.append('Lemma n_center_%d_ok : n_center_%d %s = %s (centroid t0 t1 t2).\nProof. unfold n_center_%d. open. field. Qed.' % (k, k, ta, comp[k], k))
    for api in 'tn':
        A.append('Lemma %s_normal_%d_ok : %s_normal_%d %s = %s (tri_normal t0 t1 t2).\nProof. unfold %s_normal_%d. open. fin. Qed.' % (api, k, api, k, ta, comp[k], api, k))
A.append('End Single.')
open('C10_TieA.v', 'w').write('\n'.join(A) + '\n')

# ------------------------------------------------------------------ B / C: plane hit, one ray
for api, part, fname in (('t', 'B (PyTorch plane hit)', 'C10_TieB.v'), ('n', 'C (NumPy plane hit)', 'C10_TieC.v')):
    B = [header(part), single_section(), 'Hypothesis notpar : vdot raw d <> 0.']
    if api == 't':
        B.append('Lemma t_dist_ok : t_dist %s %s = plane_dist (tri_normal t0 t1 t2) (centroid t0 t1 t2) o d.\nProof. unfold t_dist. open. fin. Qed.' % (ta, ra))
    else:
        B.append('(* NumPy reports |distance| (known finding C10-numpy-abs-distance): the tie states exactly that *)')
        B.append('Lemma n_dist_ok : n_dist %s %s = Rabs (plane_dist (tri_normal t0 t1 t2) (centroid t0 t1 t2) o d).\nProof. unfold n_dist. open. f_equal. fin. Qed.' % (ta, ra))
    for k in range(3):
        B.append('Lemma %s_hit_%d_ok : %s_hit_%d %s %s = %s (hit_point (tri_normal t0 t1 t2) (centroid t0 t1 t2) o d).\nProof. unfold %s_hit_%d. open. fin. Qed.' % (api, k, api, k, ta, ra, comp[k], api, k))
        B.append('Lemma %s_hitn_%d_ok : %s_hitn_%d %s %s = %s (tri_normal t0 t1 t2).\nProof. unfold %s_hitn_%d. open. fin. Qed.' % (api, k, api, k, ta, ra, comp[k], api, k))
    B.append('End Single.')
    open(fname, 'w').write('\n'.join(B) + '\n')

# ------------------------------------------------------------------ D: barycentric flag at an arbitrary point
D = [header('D (barycentric hit flag)'), single_section()]
D.append('''Lemma t_flag_ok : t_flag %s %s = inside_flag t0 t1 t2 p.
Proof.
  pose proof gram_open as G. unfold t_flag.
  flag_tie t0 t1 t2 p ltac:(unfold t0, t1, t2, p in *; open_model; field; lra).
Qed.''' % (ta, pa))
D.append('End Single.')
P2 = ['p_%d_%d' % (a, b) for a in range(2) for b in range(3)]
PB = ['p_%d_%d_%d' % (a, b, c) for a in range(2) for b in range(2) for c in range(3)]
D.append('''
Section TwoPoints.
Variables ''' + ta + ''' : R.
Variables ''' + ' '.join(P2) + ''' : R.
Let t0 : V3 := (t_0_0, t_0_1, t_0_2).
Let t1 : V3 := (t_1_0, t_1_1, t_1_2).
Let t2 : V3 := (t_2_0, t_2_1, t_2_2).
Hypothesis nondeg : tri_raw_normal t0 t1 t2 <> vzero.
Lemma gram2 : 0 < vdot (vsub t2 t0) (vsub t2 t0) * vdot (vsub t1 t0) (vsub t1 t0) - vdot (vsub t2 t0) (vsub t1 t0) * vdot (vsub t2 t0) (vsub t1 t0).
Proof. pose proof (vnorm2_pos _ nondeg) as G. rewrite <- gram_is_area in G. exact G. Qed.''')
for j in range(2):
    D.append('''Lemma tf2_flag_%d_ok : tf2_flag_%d %s %s = inside_flag t0 t1 t2 (p_%d_0, p_%d_1, p_%d_2).
Proof.
  pose proof gram2 as G. unfold tf2_flag_%d.
  flag_tie t0 t1 t2 (p_%d_0, p_%d_1, p_%d_2) ltac:(unfold t0, t1, t2 in *; open_model; field; lra).
Qed.''' % (j, j, ta, ' '.join(P2), j, j, j, j, j, j, j))
D.append('End TwoPoints.')
D.append('''
Section BatchPoints.
Variables ''' + ' '.join(T2) + ''' : R.
Variables ''' + ' '.join(PB) + ''' : R.''')
for i in range(2):
    for c in range(3):
        D.append('Let t%d_%d : V3 := (t_%d_%d_0, t_%d_%d_1, t_%d_%d_2).' % (i, c, i, c, i, c, i, c))
    D.append('Hypothesis nondeg%d : tri_raw_normal t%d_0 t%d_1 t%d_2 <> vzero.' % (i, i, i, i))
    D.append('Lemma gramb%d : 0 < vdot (vsub t%d_2 t%d_0) (vsub t%d_2 t%d_0) * vdot (vsub t%d_1 t%d_0) (vsub t%d_1 t%d_0) - vdot (vsub t%d_2 t%d_0) (vsub t%d_1 t%d_0) * vdot (vsub t%d_2 t%d_0) (vsub t%d_1 t%d_0).\nProof. pose proof (vnorm2_pos _ nondeg%d) as G. rewrite <- gram_is_area in G. exact G. Qed.' % ((i,) * 18))
for i in range(2):
    for j in range(2):
        D.append('''Lemma tbf_flag_%d_%d_ok : tbf_flag_%d_%d %s %s = inside_flag t%d_0 t%d_1 t%d_2 (p_%d_%d_0, p_%d_%d_1, p_%d_%d_2).
Proof.
  pose proof gramb%d as G. unfold tbf_flag_%d_%d.
  flag_tie t%d_0 t%d_1 t%d_2 (p_%d_%d_0, p_%d_%d_1, p_%d_%d_2) ltac:(unfold t%d_0, t%d_1, t%d_2 in *; open_model; field; lra).
Qed.''' % (i, j, i, j, ' '.join(T2), ' '.join(PB), i, i, i, i, j, i, j, i, j, i, i, j, i, i, i, i, j, i, j, i, j, i, i, i))
D.append('End BatchPoints.')
open('C10_TieD.v', 'w').write('\n'.join(D) + '\n')

# ------------------------------------------------------------------ E / F: several rays against one triangle (both APIs) and batches
def tri(i): return ' '.join('t_%d_%d_%d' % (i, a, b) for a in range(3) for b in range(3))
def ray(j): return ' '.join('r_%d_%d_%d' % (j, a, b) for a in range(2) for b in range(3))


def multi_section(two_triangles):
    s = ['\nSection Multi.']
    s.append('Variables %s : R.' % (' '.join(T2) if two_triangles else ta))
    s.append('Variables %s : R.' % ' '.join(R2))
    tris = range(2) if two_triangles else [None]
    for i in tris:
        pre = 't_%d' % i if two_triangles else 't'
        sfx = '%d' % i if two_triangles else ''
        for c in range(3):
            s.append('Let t%s%d : V3 := (%s_%d_0, %s_%d_1, %s_%d_2).' % (sfx + ('_' if two_triangles else ''), c, pre, c, pre, c, pre, c))
        nm = ('t%s_0 t%s_1 t%s_2' % (sfx, sfx, sfx)) if two_triangles else 't0 t1 t2'
        s.append('Let raw%s := tri_raw_normal %s.' % (sfx, nm))
        s.append('Hypothesis nondeg%s : raw%s <> vzero.' % (sfx, sfx))
        s.append('Lemma norm_pos%s : 0 < vnorm raw%s.\nProof. apply vnorm_pos, vnorm2_pos, nondeg%s. Qed.' % (sfx, sfx, sfx))
        s.append('Lemma gram_open%s : 0 < vdot (vsub %s %s) (vsub %s %s) * vdot (vsub %s %s) (vsub %s %s) - vdot (vsub %s %s) (vsub %s %s) * vdot (vsub %s %s) (vsub %s %s).\nProof. pose proof (vnorm2_pos _ nondeg%s) as G. unfold raw%s in G. rewrite <- gram_is_area in G. exact G. Qed.'
                 % ((sfx,) + tuple(x for pair in [(2, 0), (2, 0), (1, 0), (1, 0), (2, 0), (1, 0), (2, 0), (1, 0)] for x in (nm.split()[pair[0]], nm.split()[pair[1]])) + (sfx, sfx)))
    for j in range(2):
        s.append('Let o%d : V3 := (r_%d_0_0, r_%d_0_1, r_%d_0_2).' % (j, j, j, j))
        s.append('Let d%d : V3 := (r_%d_1_0, r_%d_1_1, r_%d_1_2).' % (j, j, j, j))
    return '\n'.join(s) + '\n'


def multi_lemmas(prefix, i, j, two_triangles, absdist=False, with_flag=True):
    """lemmas for the entry (triangle i, ray j); prefix names e.g. tm_ / nm_ / tb_"""
    sfx = '%d' % i if two_triangles else ''
    nm = ('t%s_0 t%s_1 t%s_2' % (sfx, sfx, sfx)) if two_triangles else 't0 t1 t2'
    allv = (' '.join(T2) if two_triangles else ta) + ' ' + ' '.join(R2)
    idx = ('%d_%d' % (i, j)) if two_triangles else ('%d' % j)
    unf = 'unfold raw%s, %s, o%d, d%d in *' % (sfx, ', '.join(nm.split()), j, j)
    L = ['Hypothesis notpar_%s : vdot raw%s d%d <> 0.' % (idx, sfx, j)]
    model_d = 'plane_dist (tri_normal %s) (centroid %s) o%d d%d' % (nm, nm, j, j)
    model_h = 'hit_point (tri_normal %s) (centroid %s) o%d d%d' % (nm, nm, j, j)
    opn = 'pose proof norm_pos%s as Hn; %s; open_with Hn' % (sfx, unf)
    if absdist:
        L.append('Lemma %sdist_%s_ok : %sdist_%s %s = Rabs (%s).\nProof. unfold %sdist_%s. %s. f_equal. fin. Qed.' % (prefix, idx, prefix, idx, allv, model_d, prefix, idx, opn))
    else:
        L.append('Lemma %sdist_%s_ok : %sdist_%s %s = %s.\nProof. unfold %sdist_%s. %s. fin. Qed.' % (prefix, idx, prefix, idx, allv, model_d, prefix, idx, opn))
    for k in range(3):
        L.append('Lemma %shit_%s_%d_ok : %shit_%s_%d %s = %s (%s).\nProof. unfold %shit_%s_%d. %s. fin. Qed.' % (prefix, idx, k, prefix, idx, k, allv, comp[k], model_h, prefix, idx, k, opn))
        L.append('Lemma %shitn_%s_%d_ok : %shitn_%s_%d %s = %s (tri_normal %s).\nProof. unfold %shitn_%s_%d. %s. fin. Qed.' % (prefix, idx, k, prefix, idx, k, allv, comp[k], nm, prefix, idx, k, opn))
    if with_flag:
        # the flag of this entry is the flag FUNCTION (traced at symbolic points, tied to the model in part D) applied to the
        # traced hit points: same function, so the same term shape
        if two_triangles:
            pts = ' '.join('(tb_hit_%d_%d_%d %s)' % (a, b, c, allv) for a in range(2) for b in range(2) for c in range(3))
            L.append('Lemma %sflag_%s_is_function_of_hit : %sflag_%s %s = tbf_flag_%d_%d %s %s.\nProof. reflexivity. Qed.' % (prefix, idx, prefix, idx, allv, i, j, ' '.join(T2), pts))
        else:
            pts = ' '.join('(tm_hit_%d_%d %s)' % (b, c, allv) for b in range(2) for c in range(3))
            L.append('Lemma %sflag_%s_is_function_of_hit : %sflag_%s %s = tf2_flag_%d %s %s.\nProof. reflexivity. Qed.' % (prefix, idx, prefix, idx, allv, j, ta, pts))
    return L


E = [header('E (PyTorch: several rays against one triangle)'), multi_section(False)]
for j in range(2):
    E += multi_lemmas('tm_', None, j, False)
E.append('End Multi.')
open('C10_TieE.v', 'w').write('\n'.join(E) + '\n')

F = [header('F (NumPy: several rays against one triangle)'), multi_section(False)]
for j in range(2):
    F += multi_lemmas('nm_', None, j, False, absdist=True, with_flag=False)
F.append('End Multi.')
open('C10_TieF.v', 'w').write('\n'.join(F) + '\n')

for i in range(2):
    G = [header('G%d (PyTorch batch: triangle %d against both rays; every entry is the single-pair model of ITS triangle and ITS ray)' % (i, i)), multi_section(True)]
    for j in range(2):
        G += multi_lemmas('tb_', i, j, True)
    G.append('End Multi.')
    open('C10_TieG%d.v' % i, 'w').write('\n'.join(G) + '\n')

# ------------------------------------------------------------------ PropsB: batched / multi-ray results are the single-pair results
allv = ' '.join(T2) + ' ' + ' '.join(R2)
PB_ = ['''(* C10, end to end on the traced code, batches: every entry of the batched intersection (2 triangles x 2 rays) and of the
   single-triangle functions called with several rays equals what the single-pair functions return for that triangle and
   that ray (all of them equal the reference model of their own pair). *)
From Coq Require Import Reals Lra Bool.
From OdakV Require Import Base.RealAux Base.Vec3 C10.Model C10.Lemmas.
From Run Require Import GenC10 C10_TieB C10_TieC C10_TieD C10_TieE C10_TieF C10_TieG0 C10_TieG1.
Open Scope R_scope.

Section Batch.
Variables %s : R.
Variables %s : R.''' % (' '.join(T2), ' '.join(R2))]
for i in range(2):
    for c in range(3):
        PB_.append('Let t%d_%d : V3 := (t_%d_%d_0, t_%d_%d_1, t_%d_%d_2).' % (i, c, i, c, i, c, i, c))
    PB_.append('Hypothesis nondeg%d : tri_raw_normal t%d_0 t%d_1 t%d_2 <> vzero.' % (i, i, i, i))
for j in range(2):
    PB_.append('Let o%d : V3 := (r_%d_0_0, r_%d_0_1, r_%d_0_2).' % (j, j, j, j))
    PB_.append('Let d%d : V3 := (r_%d_1_0, r_%d_1_1, r_%d_1_2).' % (j, j, j, j))
for i in range(2):
    for j in range(2):
        PB_.append('Hypothesis notpar_%d_%d : vdot (tri_raw_normal t%d_0 t%d_1 t%d_2) d%d <> 0.' % (i, j, i, i, i, j))
conj = []
proof = []
for i in range(2):
    for j in range(2):
        conj.append('tb_dist_%d_%d %s = t_dist %s %s' % (i, j, allv, tri(i), ray(j)))
        proof.append('rewrite (tb_dist_%d_%d_ok %s nondeg%d notpar_%d_%d), (t_dist_ok %s %s nondeg%d notpar_%d_%d); reflexivity' % (i, j, allv, i, i, j, tri(i), ray(j), i, i, j))
        for k in range(3):
            conj.append('tb_hit_%d_%d_%d %s = t_hit_%d %s %s' % (i, j, k, allv, k, tri(i), ray(j)))
            proof.append('rewrite (tb_hit_%d_%d_%d_ok %s nondeg%d notpar_%d_%d), (t_hit_%d_ok %s %s nondeg%d notpar_%d_%d); reflexivity' % (i, j, k, allv, i, i, j, k, tri(i), ray(j), i, i, j))
PB_.append('Theorem traced_batch_equals_singles :\n  ' + ' /\\\n  '.join(conj) + '.')
PB_.append('Proof.\n  repeat match goal with |- and _ _ => split end.\n  - ' + '.\n  - '.join(proof) + '.\nQed.')
# flags: the batch flag is the single flag function at the batch hit point
fl = []
pf = []
for i in range(2):
    for j in range(2):
        hit = '(tb_hit_%d_%d_0 %s) (tb_hit_%d_%d_1 %s) (tb_hit_%d_%d_2 %s)' % (i, j, allv, i, j, allv, i, j, allv)
        fl.append('tb_flag_%d_%d %s = t_flag %s %s' % (i, j, allv, tri(i), hit))
        pts = ' '.join('(tb_hit_%d_%d_%d %s)' % (a, b, c, allv) for a in range(2) for b in range(2) for c in range(3))
        pf.append('rewrite (tb_flag_%d_%d_is_function_of_hit %s), (tbf_flag_%d_%d_ok %s %s nondeg%d), (t_flag_ok %s %s nondeg%d); reflexivity' % (i, j, allv, i, j, ' '.join(T2), pts, i, tri(i), hit, i))
PB_.append('Theorem traced_batch_flags_equal_singles :\n  ' + ' /\\\n  '.join(fl) + '.')
PB_.append('Proof.\n  repeat match goal with |- and _ _ => split end.\n  - ' + '.\n  - '.join(pf) + '.\nQed.')
PB_.append('End Batch.')
PB_.append('Print Assumptions traced_batch_equals_singles.\nPrint Assumptions traced_batch_flags_equal_singles.')
open('C10_TiePropsB.v', 'w').write('\n'.join(PB_) + '\n')
