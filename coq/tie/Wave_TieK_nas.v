(* Wave tie, kernel nas: statements about the definitions traced from /repo on this run (Run.GenWaveK).
   Compiled on every run. *)
From Coq Require Import Reals Lra Bool.
From Coquelicot Require Import Complex.
From OdakV Require Import Base.RealAux Wave.Fields Wave.Kernels.
From Run Require Import GenWaveK.
Open Scope R_scope.

Ltac sqrt_canon :=
  repeat match goal with |- context [sqrt ?a] => progress ring_simplify a end.
Ltac align_sqrt tac :=
  match goal with |- ?L = ?R =>
    match L with context [sqrt ?a] => match R with context [sqrt ?b] =>
      replace (sqrt a) with (sqrt b) by (f_equal; tac) end end end.

Lemma nas_pix_0_0 k dx lam z : (nas_re_0_0 k dx lam z, nas_im_0_0 k dx lam z) = Cexpi (nas_ph_0_0 k dx lam z).
Proof. reflexivity. Qed.
Lemma nas_add_0_0 k dx lam z1 z2 : nas_ph_0_0 k dx lam (z1 + z2) = nas_ph_0_0 k dx lam z1 + nas_ph_0_0 k dx lam z2.
Proof. unfold nas_ph_0_0. ring. Qed.
Lemma nas_laws_0_0 k dx lam z1 z2 :
  n2 (nas_re_0_0 k dx lam z1, nas_im_0_0 k dx lam z1) = 1 /\
  Cmult (nas_re_0_0 k dx lam z1, nas_im_0_0 k dx lam z1) (nas_re_0_0 k dx lam z2, nas_im_0_0 k dx lam z2) = (nas_re_0_0 k dx lam (z1 + z2), nas_im_0_0 k dx lam (z1 + z2)) /\
  (nas_re_0_0 k dx lam 0, nas_im_0_0 k dx lam 0) = RtoC 1 /\
  Cmult (nas_re_0_0 k dx lam z1, nas_im_0_0 k dx lam z1) (nas_re_0_0 k dx lam (- z1), nas_im_0_0 k dx lam (- z1)) = RtoC 1.
Proof.
  rewrite !nas_pix_0_0. split; [apply Cexpi_n2|].
  split; [apply (kernel_compose (nas_ph_0_0 k dx lam)), nas_add_0_0|].
  split; [apply (kernel_zero (nas_ph_0_0 k dx lam)), nas_add_0_0 | apply (kernel_undo (nas_ph_0_0 k dx lam)), nas_add_0_0].
Qed.
Lemma nas_ref_0_0 k dx lam z : 0 < dx -> 0 < lam -> k = 2 * PI / lam -> nas_ph_0_0 k dx lam z = z * kz_as lam (fgrid dx 4 0) (fgrid dx 3 0).
Proof. intros Hd Hl Hk. unfold nas_ph_0_0, kz_as; subst k. align_sqrt ltac:(unfold fgrid; simpl; field; lra). field. lra. Qed.
Lemma nas_pix_0_1 k dx lam z : (nas_re_0_1 k dx lam z, nas_im_0_1 k dx lam z) = Cexpi (nas_ph_0_1 k dx lam z).
Proof. reflexivity. Qed.
Lemma nas_add_0_1 k dx lam z1 z2 : nas_ph_0_1 k dx lam (z1 + z2) = nas_ph_0_1 k dx lam z1 + nas_ph_0_1 k dx lam z2.
Proof. unfold nas_ph_0_1. ring. Qed.
Lemma nas_laws_0_1 k dx lam z1 z2 :
  n2 (nas_re_0_1 k dx lam z1, nas_im_0_1 k dx lam z1) = 1 /\
  Cmult (nas_re_0_1 k dx lam z1, nas_im_0_1 k dx lam z1) (nas_re_0_1 k dx lam z2, nas_im_0_1 k dx lam z2) = (nas_re_0_1 k dx lam (z1 + z2), nas_im_0_1 k dx lam (z1 + z2)) /\
  (nas_re_0_1 k dx lam 0, nas_im_0_1 k dx lam 0) = RtoC 1 /\
  Cmult (nas_re_0_1 k dx lam z1, nas_im_0_1 k dx lam z1) (nas_re_0_1 k dx lam (- z1), nas_im_0_1 k dx lam (- z1)) = RtoC 1.
Proof.
  rewrite !nas_pix_0_1. split; [apply Cexpi_n2|].
  split; [apply (kernel_compose (nas_ph_0_1 k dx lam)), nas_add_0_1|].
  split; [apply (kernel_zero (nas_ph_0_1 k dx lam)), nas_add_0_1 | apply (kernel_undo (nas_ph_0_1 k dx lam)), nas_add_0_1].
Qed.
Lemma nas_ref_0_1 k dx lam z : 0 < dx -> 0 < lam -> k = 2 * PI / lam -> nas_ph_0_1 k dx lam z = z * kz_as lam (fgrid dx 4 1) (fgrid dx 3 0).
Proof. intros Hd Hl Hk. unfold nas_ph_0_1, kz_as; subst k. align_sqrt ltac:(unfold fgrid; simpl; field; lra). field. lra. Qed.
Lemma nas_pix_0_2 k dx lam z : (nas_re_0_2 k dx lam z, nas_im_0_2 k dx lam z) = Cexpi (nas_ph_0_2 k dx lam z).
Proof. reflexivity. Qed.
Lemma nas_add_0_2 k dx lam z1 z2 : nas_ph_0_2 k dx lam (z1 + z2) = nas_ph_0_2 k dx lam z1 + nas_ph_0_2 k dx lam z2.
Proof. unfold nas_ph_0_2. ring. Qed.
Lemma nas_laws_0_2 k dx lam z1 z2 :
  n2 (nas_re_0_2 k dx lam z1, nas_im_0_2 k dx lam z1) = 1 /\
  Cmult (nas_re_0_2 k dx lam z1, nas_im_0_2 k dx lam z1) (nas_re_0_2 k dx lam z2, nas_im_0_2 k dx lam z2) = (nas_re_0_2 k dx lam (z1 + z2), nas_im_0_2 k dx lam (z1 + z2)) /\
  (nas_re_0_2 k dx lam 0, nas_im_0_2 k dx lam 0) = RtoC 1 /\
  Cmult (nas_re_0_2 k dx lam z1, nas_im_0_2 k dx lam z1) (nas_re_0_2 k dx lam (- z1), nas_im_0_2 k dx lam (- z1)) = RtoC 1.
Proof.
  rewrite !nas_pix_0_2. split; [apply Cexpi_n2|].
  split; [apply (kernel_compose (nas_ph_0_2 k dx lam)), nas_add_0_2|].
  split; [apply (kernel_zero (nas_ph_0_2 k dx lam)), nas_add_0_2 | apply (kernel_undo (nas_ph_0_2 k dx lam)), nas_add_0_2].
Qed.
Lemma nas_ref_0_2 k dx lam z : 0 < dx -> 0 < lam -> k = 2 * PI / lam -> nas_ph_0_2 k dx lam z = z * kz_as lam (fgrid dx 4 2) (fgrid dx 3 0).
Proof. intros Hd Hl Hk. unfold nas_ph_0_2, kz_as; subst k. align_sqrt ltac:(unfold fgrid; simpl; field; lra). field. lra. Qed.
Lemma nas_pix_0_3 k dx lam z : (nas_re_0_3 k dx lam z, nas_im_0_3 k dx lam z) = Cexpi (nas_ph_0_3 k dx lam z).
Proof. reflexivity. Qed.
Lemma nas_add_0_3 k dx lam z1 z2 : nas_ph_0_3 k dx lam (z1 + z2) = nas_ph_0_3 k dx lam z1 + nas_ph_0_3 k dx lam z2.
Proof. unfold nas_ph_0_3. ring. Qed.
Lemma nas_laws_0_3 k dx lam z1 z2 :
  n2 (nas_re_0_3 k dx lam z1, nas_im_0_3 k dx lam z1) = 1 /\
  Cmult (nas_re_0_3 k dx lam z1, nas_im_0_3 k dx lam z1) (nas_re_0_3 k dx lam z2, nas_im_0_3 k dx lam z2) = (nas_re_0_3 k dx lam (z1 + z2), nas_im_0_3 k dx lam (z1 + z2)) /\
  (nas_re_0_3 k dx lam 0, nas_im_0_3 k dx lam 0) = RtoC 1 /\
  Cmult (nas_re_0_3 k dx lam z1, nas_im_0_3 k dx lam z1) (nas_re_0_3 k dx lam (- z1), nas_im_0_3 k dx lam (- z1)) = RtoC 1.
Proof.
  rewrite !nas_pix_0_3. split; [apply Cexpi_n2|].
  split; [apply (kernel_compose (nas_ph_0_3 k dx lam)), nas_add_0_3|].
  split; [apply (kernel_zero (nas_ph_0_3 k dx lam)), nas_add_0_3 | apply (kernel_undo (nas_ph_0_3 k dx lam)), nas_add_0_3].
Qed.
Lemma nas_ref_0_3 k dx lam z : 0 < dx -> 0 < lam -> k = 2 * PI / lam -> nas_ph_0_3 k dx lam z = z * kz_as lam (fgrid dx 4 3) (fgrid dx 3 0).
Proof. intros Hd Hl Hk. unfold nas_ph_0_3, kz_as; subst k. align_sqrt ltac:(unfold fgrid; simpl; field; lra). field. lra. Qed.
Lemma nas_pix_1_0 k dx lam z : (nas_re_1_0 k dx lam z, nas_im_1_0 k dx lam z) = Cexpi (nas_ph_1_0 k dx lam z).
Proof. reflexivity. Qed.
Lemma nas_add_1_0 k dx lam z1 z2 : nas_ph_1_0 k dx lam (z1 + z2) = nas_ph_1_0 k dx lam z1 + nas_ph_1_0 k dx lam z2.
Proof. unfold nas_ph_1_0. ring. Qed.
Lemma nas_laws_1_0 k dx lam z1 z2 :
  n2 (nas_re_1_0 k dx lam z1, nas_im_1_0 k dx lam z1) = 1 /\
  Cmult (nas_re_1_0 k dx lam z1, nas_im_1_0 k dx lam z1) (nas_re_1_0 k dx lam z2, nas_im_1_0 k dx lam z2) = (nas_re_1_0 k dx lam (z1 + z2), nas_im_1_0 k dx lam (z1 + z2)) /\
  (nas_re_1_0 k dx lam 0, nas_im_1_0 k dx lam 0) = RtoC 1 /\
  Cmult (nas_re_1_0 k dx lam z1, nas_im_1_0 k dx lam z1) (nas_re_1_0 k dx lam (- z1), nas_im_1_0 k dx lam (- z1)) = RtoC 1.
Proof.
  rewrite !nas_pix_1_0. split; [apply Cexpi_n2|].
  split; [apply (kernel_compose (nas_ph_1_0 k dx lam)), nas_add_1_0|].
  split; [apply (kernel_zero (nas_ph_1_0 k dx lam)), nas_add_1_0 | apply (kernel_undo (nas_ph_1_0 k dx lam)), nas_add_1_0].
Qed.
Lemma nas_ref_1_0 k dx lam z : 0 < dx -> 0 < lam -> k = 2 * PI / lam -> nas_ph_1_0 k dx lam z = z * kz_as lam (fgrid dx 4 0) (fgrid dx 3 1).
Proof. intros Hd Hl Hk. unfold nas_ph_1_0, kz_as; subst k. align_sqrt ltac:(unfold fgrid; simpl; field; lra). field. lra. Qed.
Lemma nas_pix_1_1 k dx lam z : (nas_re_1_1 k dx lam z, nas_im_1_1 k dx lam z) = Cexpi (nas_ph_1_1 k dx lam z).
Proof. reflexivity. Qed.
Lemma nas_add_1_1 k dx lam z1 z2 : nas_ph_1_1 k dx lam (z1 + z2) = nas_ph_1_1 k dx lam z1 + nas_ph_1_1 k dx lam z2.
Proof. unfold nas_ph_1_1. ring. Qed.
Lemma nas_laws_1_1 k dx lam z1 z2 :
  n2 (nas_re_1_1 k dx lam z1, nas_im_1_1 k dx lam z1) = 1 /\
  Cmult (nas_re_1_1 k dx lam z1, nas_im_1_1 k dx lam z1) (nas_re_1_1 k dx lam z2, nas_im_1_1 k dx lam z2) = (nas_re_1_1 k dx lam (z1 + z2), nas_im_1_1 k dx lam (z1 + z2)) /\
  (nas_re_1_1 k dx lam 0, nas_im_1_1 k dx lam 0) = RtoC 1 /\
  Cmult (nas_re_1_1 k dx lam z1, nas_im_1_1 k dx lam z1) (nas_re_1_1 k dx lam (- z1), nas_im_1_1 k dx lam (- z1)) = RtoC 1.
Proof.
  rewrite !nas_pix_1_1. split; [apply Cexpi_n2|].
  split; [apply (kernel_compose (nas_ph_1_1 k dx lam)), nas_add_1_1|].
  split; [apply (kernel_zero (nas_ph_1_1 k dx lam)), nas_add_1_1 | apply (kernel_undo (nas_ph_1_1 k dx lam)), nas_add_1_1].
Qed.
Lemma nas_ref_1_1 k dx lam z : 0 < dx -> 0 < lam -> k = 2 * PI / lam -> nas_ph_1_1 k dx lam z = z * kz_as lam (fgrid dx 4 1) (fgrid dx 3 1).
Proof. intros Hd Hl Hk. unfold nas_ph_1_1, kz_as; subst k. align_sqrt ltac:(unfold fgrid; simpl; field; lra). field. lra. Qed.
Lemma nas_pix_1_2 k dx lam z : (nas_re_1_2 k dx lam z, nas_im_1_2 k dx lam z) = Cexpi (nas_ph_1_2 k dx lam z).
Proof. reflexivity. Qed.
Lemma nas_add_1_2 k dx lam z1 z2 : nas_ph_1_2 k dx lam (z1 + z2) = nas_ph_1_2 k dx lam z1 + nas_ph_1_2 k dx lam z2.
Proof. unfold nas_ph_1_2. ring. Qed.
Lemma nas_laws_1_2 k dx lam z1 z2 :
  n2 (nas_re_1_2 k dx lam z1, nas_im_1_2 k dx lam z1) = 1 /\
  Cmult (nas_re_1_2 k dx lam z1, nas_im_1_2 k dx lam z1) (nas_re_1_2 k dx lam z2, nas_im_1_2 k dx lam z2) = (nas_re_1_2 k dx lam (z1 + z2), nas_im_1_2 k dx lam (z1 + z2)) /\
  (nas_re_1_2 k dx lam 0, nas_im_1_2 k dx lam 0) = RtoC 1 /\
  Cmult (nas_re_1_2 k dx lam z1, nas_im_1_2 k dx lam z1) (nas_re_1_2 k dx lam (- z1), nas_im_1_2 k dx lam (- z1)) = RtoC 1.
Proof.
  rewrite !nas_pix_1_2. split; [apply Cexpi_n2|].
  split; [apply (kernel_compose (nas_ph_1_2 k dx lam)), nas_add_1_2|].
  split; [apply (kernel_zero (nas_ph_1_2 k dx lam)), nas_add_1_2 | apply (kernel_undo (nas_ph_1_2 k dx lam)), nas_add_1_2].
Qed.
Lemma nas_ref_1_2 k dx lam z : 0 < dx -> 0 < lam -> k = 2 * PI / lam -> nas_ph_1_2 k dx lam z = z * kz_as lam (fgrid dx 4 2) (fgrid dx 3 1).
Proof. intros Hd Hl Hk. unfold nas_ph_1_2, kz_as; subst k. align_sqrt ltac:(unfold fgrid; simpl; field; lra). field. lra. Qed.
Lemma nas_pix_1_3 k dx lam z : (nas_re_1_3 k dx lam z, nas_im_1_3 k dx lam z) = Cexpi (nas_ph_1_3 k dx lam z).
Proof. reflexivity. Qed.
Lemma nas_add_1_3 k dx lam z1 z2 : nas_ph_1_3 k dx lam (z1 + z2) = nas_ph_1_3 k dx lam z1 + nas_ph_1_3 k dx lam z2.
Proof. unfold nas_ph_1_3. ring. Qed.
Lemma nas_laws_1_3 k dx lam z1 z2 :
  n2 (nas_re_1_3 k dx lam z1, nas_im_1_3 k dx lam z1) = 1 /\
  Cmult (nas_re_1_3 k dx lam z1, nas_im_1_3 k dx lam z1) (nas_re_1_3 k dx lam z2, nas_im_1_3 k dx lam z2) = (nas_re_1_3 k dx lam (z1 + z2), nas_im_1_3 k dx lam (z1 + z2)) /\
  (nas_re_1_3 k dx lam 0, nas_im_1_3 k dx lam 0) = RtoC 1 /\
  Cmult (nas_re_1_3 k dx lam z1, nas_im_1_3 k dx lam z1) (nas_re_1_3 k dx lam (- z1), nas_im_1_3 k dx lam (- z1)) = RtoC 1.
Proof.
  rewrite !nas_pix_1_3. split; [apply Cexpi_n2|].
  split; [apply (kernel_compose (nas_ph_1_3 k dx lam)), nas_add_1_3|].
  split; [apply (kernel_zero (nas_ph_1_3 k dx lam)), nas_add_1_3 | apply (kernel_undo (nas_ph_1_3 k dx lam)), nas_add_1_3].
Qed.
Lemma nas_ref_1_3 k dx lam z : 0 < dx -> 0 < lam -> k = 2 * PI / lam -> nas_ph_1_3 k dx lam z = z * kz_as lam (fgrid dx 4 3) (fgrid dx 3 1).
Proof. intros Hd Hl Hk. unfold nas_ph_1_3, kz_as; subst k. align_sqrt ltac:(unfold fgrid; simpl; field; lra). field. lra. Qed.
Lemma nas_pix_2_0 k dx lam z : (nas_re_2_0 k dx lam z, nas_im_2_0 k dx lam z) = Cexpi (nas_ph_2_0 k dx lam z).
Proof. reflexivity. Qed.
Lemma nas_add_2_0 k dx lam z1 z2 : nas_ph_2_0 k dx lam (z1 + z2) = nas_ph_2_0 k dx lam z1 + nas_ph_2_0 k dx lam z2.
Proof. unfold nas_ph_2_0. ring. Qed.
Lemma nas_laws_2_0 k dx lam z1 z2 :
  n2 (nas_re_2_0 k dx lam z1, nas_im_2_0 k dx lam z1) = 1 /\
  Cmult (nas_re_2_0 k dx lam z1, nas_im_2_0 k dx lam z1) (nas_re_2_0 k dx lam z2, nas_im_2_0 k dx lam z2) = (nas_re_2_0 k dx lam (z1 + z2), nas_im_2_0 k dx lam (z1 + z2)) /\
  (nas_re_2_0 k dx lam 0, nas_im_2_0 k dx lam 0) = RtoC 1 /\
  Cmult (nas_re_2_0 k dx lam z1, nas_im_2_0 k dx lam z1) (nas_re_2_0 k dx lam (- z1), nas_im_2_0 k dx lam (- z1)) = RtoC 1.
Proof.
  rewrite !nas_pix_2_0. split; [apply Cexpi_n2|].
  split; [apply (kernel_compose (nas_ph_2_0 k dx lam)), nas_add_2_0|].
  split; [apply (kernel_zero (nas_ph_2_0 k dx lam)), nas_add_2_0 | apply (kernel_undo (nas_ph_2_0 k dx lam)), nas_add_2_0].
Qed.
Lemma nas_ref_2_0 k dx lam z : 0 < dx -> 0 < lam -> k = 2 * PI / lam -> nas_ph_2_0 k dx lam z = z * kz_as lam (fgrid dx 4 0) (fgrid dx 3 2).
Proof. intros Hd Hl Hk. unfold nas_ph_2_0, kz_as; subst k. align_sqrt ltac:(unfold fgrid; simpl; field; lra). field. lra. Qed.
Lemma nas_pix_2_1 k dx lam z : (nas_re_2_1 k dx lam z, nas_im_2_1 k dx lam z) = Cexpi (nas_ph_2_1 k dx lam z).
Proof. reflexivity. Qed.
Lemma nas_add_2_1 k dx lam z1 z2 : nas_ph_2_1 k dx lam (z1 + z2) = nas_ph_2_1 k dx lam z1 + nas_ph_2_1 k dx lam z2.
Proof. unfold nas_ph_2_1. ring. Qed.
Lemma nas_laws_2_1 k dx lam z1 z2 :
  n2 (nas_re_2_1 k dx lam z1, nas_im_2_1 k dx lam z1) = 1 /\
  Cmult (nas_re_2_1 k dx lam z1, nas_im_2_1 k dx lam z1) (nas_re_2_1 k dx lam z2, nas_im_2_1 k dx lam z2) = (nas_re_2_1 k dx lam (z1 + z2), nas_im_2_1 k dx lam (z1 + z2)) /\
  (nas_re_2_1 k dx lam 0, nas_im_2_1 k dx lam 0) = RtoC 1 /\
  Cmult (nas_re_2_1 k dx lam z1, nas_im_2_1 k dx lam z1) (nas_re_2_1 k dx lam (- z1), nas_im_2_1 k dx lam (- z1)) = RtoC 1.
Proof.
  rewrite !nas_pix_2_1. split; [apply Cexpi_n2|].
  split; [apply (kernel_compose (nas_ph_2_1 k dx lam)), nas_add_2_1|].
  split; [apply (kernel_zero (nas_ph_2_1 k dx lam)), nas_add_2_1 | apply (kernel_undo (nas_ph_2_1 k dx lam)), nas_add_2_1].
Qed.
Lemma nas_ref_2_1 k dx lam z : 0 < dx -> 0 < lam -> k = 2 * PI / lam -> nas_ph_2_1 k dx lam z = z * kz_as lam (fgrid dx 4 1) (fgrid dx 3 2).
Proof. intros Hd Hl Hk. unfold nas_ph_2_1, kz_as; subst k. align_sqrt ltac:(unfold fgrid; simpl; field; lra). field. lra. Qed.
Lemma nas_pix_2_2 k dx lam z : (nas_re_2_2 k dx lam z, nas_im_2_2 k dx lam z) = Cexpi (nas_ph_2_2 k dx lam z).
Proof. reflexivity. Qed.
Lemma nas_add_2_2 k dx lam z1 z2 : nas_ph_2_2 k dx lam (z1 + z2) = nas_ph_2_2 k dx lam z1 + nas_ph_2_2 k dx lam z2.
Proof. unfold nas_ph_2_2. ring. Qed.
Lemma nas_laws_2_2 k dx lam z1 z2 :
  n2 (nas_re_2_2 k dx lam z1, nas_im_2_2 k dx lam z1) = 1 /\
  Cmult (nas_re_2_2 k dx lam z1, nas_im_2_2 k dx lam z1) (nas_re_2_2 k dx lam z2, nas_im_2_2 k dx lam z2) = (nas_re_2_2 k dx lam (z1 + z2), nas_im_2_2 k dx lam (z1 + z2)) /\
  (nas_re_2_2 k dx lam 0, nas_im_2_2 k dx lam 0) = RtoC 1 /\
  Cmult (nas_re_2_2 k dx lam z1, nas_im_2_2 k dx lam z1) (nas_re_2_2 k dx lam (- z1), nas_im_2_2 k dx lam (- z1)) = RtoC 1.
Proof.
  rewrite !nas_pix_2_2. split; [apply Cexpi_n2|].
  split; [apply (kernel_compose (nas_ph_2_2 k dx lam)), nas_add_2_2|].
  split; [apply (kernel_zero (nas_ph_2_2 k dx lam)), nas_add_2_2 | apply (kernel_undo (nas_ph_2_2 k dx lam)), nas_add_2_2].
Qed.
Lemma nas_ref_2_2 k dx lam z : 0 < dx -> 0 < lam -> k = 2 * PI / lam -> nas_ph_2_2 k dx lam z = z * kz_as lam (fgrid dx 4 2) (fgrid dx 3 2).
Proof. intros Hd Hl Hk. unfold nas_ph_2_2, kz_as; subst k. align_sqrt ltac:(unfold fgrid; simpl; field; lra). field. lra. Qed.
Lemma nas_pix_2_3 k dx lam z : (nas_re_2_3 k dx lam z, nas_im_2_3 k dx lam z) = Cexpi (nas_ph_2_3 k dx lam z).
Proof. reflexivity. Qed.
Lemma nas_add_2_3 k dx lam z1 z2 : nas_ph_2_3 k dx lam (z1 + z2) = nas_ph_2_3 k dx lam z1 + nas_ph_2_3 k dx lam z2.
Proof. unfold nas_ph_2_3. ring. Qed.
Lemma nas_laws_2_3 k dx lam z1 z2 :
  n2 (nas_re_2_3 k dx lam z1, nas_im_2_3 k dx lam z1) = 1 /\
  Cmult (nas_re_2_3 k dx lam z1, nas_im_2_3 k dx lam z1) (nas_re_2_3 k dx lam z2, nas_im_2_3 k dx lam z2) = (nas_re_2_3 k dx lam (z1 + z2), nas_im_2_3 k dx lam (z1 + z2)) /\
  (nas_re_2_3 k dx lam 0, nas_im_2_3 k dx lam 0) = RtoC 1 /\
  Cmult (nas_re_2_3 k dx lam z1, nas_im_2_3 k dx lam z1) (nas_re_2_3 k dx lam (- z1), nas_im_2_3 k dx lam (- z1)) = RtoC 1.
Proof.
  rewrite !nas_pix_2_3. split; [apply Cexpi_n2|].
  split; [apply (kernel_compose (nas_ph_2_3 k dx lam)), nas_add_2_3|].
  split; [apply (kernel_zero (nas_ph_2_3 k dx lam)), nas_add_2_3 | apply (kernel_undo (nas_ph_2_3 k dx lam)), nas_add_2_3].
Qed.
Lemma nas_ref_2_3 k dx lam z : 0 < dx -> 0 < lam -> k = 2 * PI / lam -> nas_ph_2_3 k dx lam z = z * kz_as lam (fgrid dx 4 3) (fgrid dx 3 2).
Proof. intros Hd Hl Hk. unfold nas_ph_2_3, kz_as; subst k. align_sqrt ltac:(unfold fgrid; simpl; field; lra). field. lra. Qed.
Lemma nas_radnn_0_0 k dx lam z : 0 < lam -> 0 < dx -> lam * lam <= 2 * (dx * dx) -> 0 <= nas_rad_0_0 k dx lam z.
Proof.
  intros Hl Hd Hg. replace (nas_rad_0_0 k dx lam z) with (1 - (lam * ((- (1 / 2)) / dx)) ^ 2 - (lam * ((- (1 / 2)) / dx)) ^ 2) by (unfold nas_rad_0_0; field; lra).
  apply rad_as_nonneg; try assumption; lra.
Qed.
Lemma nas_radnn_0_1 k dx lam z : 0 < lam -> 0 < dx -> lam * lam <= 2 * (dx * dx) -> 0 <= nas_rad_0_1 k dx lam z.
Proof.
  intros Hl Hd Hg. replace (nas_rad_0_1 k dx lam z) with (1 - (lam * ((- (1 / 6)) / dx)) ^ 2 - (lam * ((- (1 / 2)) / dx)) ^ 2) by (unfold nas_rad_0_1; field; lra).
  apply rad_as_nonneg; try assumption; lra.
Qed.
Lemma nas_radnn_0_2 k dx lam z : 0 < lam -> 0 < dx -> lam * lam <= 2 * (dx * dx) -> 0 <= nas_rad_0_2 k dx lam z.
Proof.
  intros Hl Hd Hg. replace (nas_rad_0_2 k dx lam z) with (1 - (lam * ((1 / 6) / dx)) ^ 2 - (lam * ((- (1 / 2)) / dx)) ^ 2) by (unfold nas_rad_0_2; field; lra).
  apply rad_as_nonneg; try assumption; lra.
Qed.
Lemma nas_radnn_0_3 k dx lam z : 0 < lam -> 0 < dx -> lam * lam <= 2 * (dx * dx) -> 0 <= nas_rad_0_3 k dx lam z.
Proof.
  intros Hl Hd Hg. replace (nas_rad_0_3 k dx lam z) with (1 - (lam * ((1 / 2) / dx)) ^ 2 - (lam * ((- (1 / 2)) / dx)) ^ 2) by (unfold nas_rad_0_3; field; lra).
  apply rad_as_nonneg; try assumption; lra.
Qed.
Lemma nas_radnn_1_0 k dx lam z : 0 < lam -> 0 < dx -> lam * lam <= 2 * (dx * dx) -> 0 <= nas_rad_1_0 k dx lam z.
Proof.
  intros Hl Hd Hg. replace (nas_rad_1_0 k dx lam z) with (1 - (lam * ((- (1 / 2)) / dx)) ^ 2 - (lam * ((0 / 1) / dx)) ^ 2) by (unfold nas_rad_1_0; field; lra).
  apply rad_as_nonneg; try assumption; lra.
Qed.
Lemma nas_radnn_1_1 k dx lam z : 0 < lam -> 0 < dx -> lam * lam <= 2 * (dx * dx) -> 0 <= nas_rad_1_1 k dx lam z.
Proof.
  intros Hl Hd Hg. replace (nas_rad_1_1 k dx lam z) with (1 - (lam * ((- (1 / 6)) / dx)) ^ 2 - (lam * ((0 / 1) / dx)) ^ 2) by (unfold nas_rad_1_1; field; lra).
  apply rad_as_nonneg; try assumption; lra.
Qed.
Lemma nas_radnn_1_2 k dx lam z : 0 < lam -> 0 < dx -> lam * lam <= 2 * (dx * dx) -> 0 <= nas_rad_1_2 k dx lam z.
Proof.
  intros Hl Hd Hg. replace (nas_rad_1_2 k dx lam z) with (1 - (lam * ((1 / 6) / dx)) ^ 2 - (lam * ((0 / 1) / dx)) ^ 2) by (unfold nas_rad_1_2; field; lra).
  apply rad_as_nonneg; try assumption; lra.
Qed.
Lemma nas_radnn_1_3 k dx lam z : 0 < lam -> 0 < dx -> lam * lam <= 2 * (dx * dx) -> 0 <= nas_rad_1_3 k dx lam z.
Proof.
  intros Hl Hd Hg. replace (nas_rad_1_3 k dx lam z) with (1 - (lam * ((1 / 2) / dx)) ^ 2 - (lam * ((0 / 1) / dx)) ^ 2) by (unfold nas_rad_1_3; field; lra).
  apply rad_as_nonneg; try assumption; lra.
Qed.
Lemma nas_radnn_2_0 k dx lam z : 0 < lam -> 0 < dx -> lam * lam <= 2 * (dx * dx) -> 0 <= nas_rad_2_0 k dx lam z.
Proof.
  intros Hl Hd Hg. replace (nas_rad_2_0 k dx lam z) with (1 - (lam * ((- (1 / 2)) / dx)) ^ 2 - (lam * ((1 / 2) / dx)) ^ 2) by (unfold nas_rad_2_0; field; lra).
  apply rad_as_nonneg; try assumption; lra.
Qed.
Lemma nas_radnn_2_1 k dx lam z : 0 < lam -> 0 < dx -> lam * lam <= 2 * (dx * dx) -> 0 <= nas_rad_2_1 k dx lam z.
Proof.
  intros Hl Hd Hg. replace (nas_rad_2_1 k dx lam z) with (1 - (lam * ((- (1 / 6)) / dx)) ^ 2 - (lam * ((1 / 2) / dx)) ^ 2) by (unfold nas_rad_2_1; field; lra).
  apply rad_as_nonneg; try assumption; lra.
Qed.
Lemma nas_radnn_2_2 k dx lam z : 0 < lam -> 0 < dx -> lam * lam <= 2 * (dx * dx) -> 0 <= nas_rad_2_2 k dx lam z.
Proof.
  intros Hl Hd Hg. replace (nas_rad_2_2 k dx lam z) with (1 - (lam * ((1 / 6) / dx)) ^ 2 - (lam * ((1 / 2) / dx)) ^ 2) by (unfold nas_rad_2_2; field; lra).
  apply rad_as_nonneg; try assumption; lra.
Qed.
Lemma nas_radnn_2_3 k dx lam z : 0 < lam -> 0 < dx -> lam * lam <= 2 * (dx * dx) -> 0 <= nas_rad_2_3 k dx lam z.
Proof.
  intros Hl Hd Hg. replace (nas_rad_2_3 k dx lam z) with (1 - (lam * ((1 / 2) / dx)) ^ 2 - (lam * ((1 / 2) / dx)) ^ 2) by (unfold nas_rad_2_3; field; lra).
  apply rad_as_nonneg; try assumption; lra.
Qed.
