(* Wave tie, scale > 1: the field the impulse-response methods hand to `custom` (traced per sample with a
   symbolic complex input, Run.GenWaveUp) is exactly the zero-inserted input: sample (s i, s j) is u_ij (the code
   rebuilds it from amplitude and phase: C09 rebuild) and every other sample is 0.  Compiled on every run. *)
From Coq Require Import Reals.
From Coquelicot Require Import Complex.
From OdakV Require Import Base.RealAux C09.Model C09.Lemmas.
From Run Require Import GenWaveUp.
Open Scope R_scope.
Section Up.
Variables ur_0_0 ur_0_1 ur_0_2 ur_1_0 ur_1_1 ur_1_2 ui_0_0 ui_0_1 ui_0_2 ui_1_0 ui_1_1 ui_1_2 : R.
Lemma up_ir_0_0 : (up_ir_re_0_0 ur_0_0 ur_0_1 ur_0_2 ur_1_0 ur_1_1 ur_1_2 ui_0_0 ui_0_1 ui_0_2 ui_1_0 ui_1_1 ui_1_2, up_ir_im_0_0 ur_0_0 ur_0_1 ur_0_2 ur_1_0 ur_1_1 ur_1_2 ui_0_0 ui_0_1 ui_0_2 ui_1_0 ui_1_1 ui_1_2) = (ur_0_0, ui_0_0).
Proof. transitivity (gcf (amp (ur_0_0, ui_0_0)) (arg (ur_0_0, ui_0_0))); [reflexivity | apply rebuild]. Qed.
Lemma up_ir_0_1 : (up_ir_re_0_1 ur_0_0 ur_0_1 ur_0_2 ur_1_0 ur_1_1 ur_1_2 ui_0_0 ui_0_1 ui_0_2 ui_1_0 ui_1_1 ui_1_2, up_ir_im_0_1 ur_0_0 ur_0_1 ur_0_2 ur_1_0 ur_1_1 ur_1_2 ui_0_0 ui_0_1 ui_0_2 ui_1_0 ui_1_1 ui_1_2) = (0, 0).
Proof. reflexivity. Qed.
Lemma up_ir_0_2 : (up_ir_re_0_2 ur_0_0 ur_0_1 ur_0_2 ur_1_0 ur_1_1 ur_1_2 ui_0_0 ui_0_1 ui_0_2 ui_1_0 ui_1_1 ui_1_2, up_ir_im_0_2 ur_0_0 ur_0_1 ur_0_2 ur_1_0 ur_1_1 ur_1_2 ui_0_0 ui_0_1 ui_0_2 ui_1_0 ui_1_1 ui_1_2) = (ur_0_1, ui_0_1).
Proof. transitivity (gcf (amp (ur_0_1, ui_0_1)) (arg (ur_0_1, ui_0_1))); [reflexivity | apply rebuild]. Qed.
Lemma up_ir_0_3 : (up_ir_re_0_3 ur_0_0 ur_0_1 ur_0_2 ur_1_0 ur_1_1 ur_1_2 ui_0_0 ui_0_1 ui_0_2 ui_1_0 ui_1_1 ui_1_2, up_ir_im_0_3 ur_0_0 ur_0_1 ur_0_2 ur_1_0 ur_1_1 ur_1_2 ui_0_0 ui_0_1 ui_0_2 ui_1_0 ui_1_1 ui_1_2) = (0, 0).
Proof. reflexivity. Qed.
Lemma up_ir_0_4 : (up_ir_re_0_4 ur_0_0 ur_0_1 ur_0_2 ur_1_0 ur_1_1 ur_1_2 ui_0_0 ui_0_1 ui_0_2 ui_1_0 ui_1_1 ui_1_2, up_ir_im_0_4 ur_0_0 ur_0_1 ur_0_2 ur_1_0 ur_1_1 ur_1_2 ui_0_0 ui_0_1 ui_0_2 ui_1_0 ui_1_1 ui_1_2) = (ur_0_2, ui_0_2).
Proof. transitivity (gcf (amp (ur_0_2, ui_0_2)) (arg (ur_0_2, ui_0_2))); [reflexivity | apply rebuild]. Qed.
Lemma up_ir_0_5 : (up_ir_re_0_5 ur_0_0 ur_0_1 ur_0_2 ur_1_0 ur_1_1 ur_1_2 ui_0_0 ui_0_1 ui_0_2 ui_1_0 ui_1_1 ui_1_2, up_ir_im_0_5 ur_0_0 ur_0_1 ur_0_2 ur_1_0 ur_1_1 ur_1_2 ui_0_0 ui_0_1 ui_0_2 ui_1_0 ui_1_1 ui_1_2) = (0, 0).
Proof. reflexivity. Qed.
Lemma up_ir_1_0 : (up_ir_re_1_0 ur_0_0 ur_0_1 ur_0_2 ur_1_0 ur_1_1 ur_1_2 ui_0_0 ui_0_1 ui_0_2 ui_1_0 ui_1_1 ui_1_2, up_ir_im_1_0 ur_0_0 ur_0_1 ur_0_2 ur_1_0 ur_1_1 ur_1_2 ui_0_0 ui_0_1 ui_0_2 ui_1_0 ui_1_1 ui_1_2) = (0, 0).
Proof. reflexivity. Qed.
Lemma up_ir_1_1 : (up_ir_re_1_1 ur_0_0 ur_0_1 ur_0_2 ur_1_0 ur_1_1 ur_1_2 ui_0_0 ui_0_1 ui_0_2 ui_1_0 ui_1_1 ui_1_2, up_ir_im_1_1 ur_0_0 ur_0_1 ur_0_2 ur_1_0 ur_1_1 ur_1_2 ui_0_0 ui_0_1 ui_0_2 ui_1_0 ui_1_1 ui_1_2) = (0, 0).
Proof. reflexivity. Qed.
Lemma up_ir_1_2 : (up_ir_re_1_2 ur_0_0 ur_0_1 ur_0_2 ur_1_0 ur_1_1 ur_1_2 ui_0_0 ui_0_1 ui_0_2 ui_1_0 ui_1_1 ui_1_2, up_ir_im_1_2 ur_0_0 ur_0_1 ur_0_2 ur_1_0 ur_1_1 ur_1_2 ui_0_0 ui_0_1 ui_0_2 ui_1_0 ui_1_1 ui_1_2) = (0, 0).
Proof. reflexivity. Qed.
Lemma up_ir_1_3 : (up_ir_re_1_3 ur_0_0 ur_0_1 ur_0_2 ur_1_0 ur_1_1 ur_1_2 ui_0_0 ui_0_1 ui_0_2 ui_1_0 ui_1_1 ui_1_2, up_ir_im_1_3 ur_0_0 ur_0_1 ur_0_2 ur_1_0 ur_1_1 ur_1_2 ui_0_0 ui_0_1 ui_0_2 ui_1_0 ui_1_1 ui_1_2) = (0, 0).
Proof. reflexivity. Qed.
Lemma up_ir_1_4 : (up_ir_re_1_4 ur_0_0 ur_0_1 ur_0_2 ur_1_0 ur_1_1 ur_1_2 ui_0_0 ui_0_1 ui_0_2 ui_1_0 ui_1_1 ui_1_2, up_ir_im_1_4 ur_0_0 ur_0_1 ur_0_2 ur_1_0 ur_1_1 ur_1_2 ui_0_0 ui_0_1 ui_0_2 ui_1_0 ui_1_1 ui_1_2) = (0, 0).
Proof. reflexivity. Qed.
Lemma up_ir_1_5 : (up_ir_re_1_5 ur_0_0 ur_0_1 ur_0_2 ur_1_0 ur_1_1 ur_1_2 ui_0_0 ui_0_1 ui_0_2 ui_1_0 ui_1_1 ui_1_2, up_ir_im_1_5 ur_0_0 ur_0_1 ur_0_2 ur_1_0 ur_1_1 ur_1_2 ui_0_0 ui_0_1 ui_0_2 ui_1_0 ui_1_1 ui_1_2) = (0, 0).
Proof. reflexivity. Qed.
Lemma up_ir_2_0 : (up_ir_re_2_0 ur_0_0 ur_0_1 ur_0_2 ur_1_0 ur_1_1 ur_1_2 ui_0_0 ui_0_1 ui_0_2 ui_1_0 ui_1_1 ui_1_2, up_ir_im_2_0 ur_0_0 ur_0_1 ur_0_2 ur_1_0 ur_1_1 ur_1_2 ui_0_0 ui_0_1 ui_0_2 ui_1_0 ui_1_1 ui_1_2) = (ur_1_0, ui_1_0).
Proof. transitivity (gcf (amp (ur_1_0, ui_1_0)) (arg (ur_1_0, ui_1_0))); [reflexivity | apply rebuild]. Qed.
Lemma up_ir_2_1 : (up_ir_re_2_1 ur_0_0 ur_0_1 ur_0_2 ur_1_0 ur_1_1 ur_1_2 ui_0_0 ui_0_1 ui_0_2 ui_1_0 ui_1_1 ui_1_2, up_ir_im_2_1 ur_0_0 ur_0_1 ur_0_2 ur_1_0 ur_1_1 ur_1_2 ui_0_0 ui_0_1 ui_0_2 ui_1_0 ui_1_1 ui_1_2) = (0, 0).
Proof. reflexivity. Qed.
Lemma up_ir_2_2 : (up_ir_re_2_2 ur_0_0 ur_0_1 ur_0_2 ur_1_0 ur_1_1 ur_1_2 ui_0_0 ui_0_1 ui_0_2 ui_1_0 ui_1_1 ui_1_2, up_ir_im_2_2 ur_0_0 ur_0_1 ur_0_2 ur_1_0 ur_1_1 ur_1_2 ui_0_0 ui_0_1 ui_0_2 ui_1_0 ui_1_1 ui_1_2) = (ur_1_1, ui_1_1).
Proof. transitivity (gcf (amp (ur_1_1, ui_1_1)) (arg (ur_1_1, ui_1_1))); [reflexivity | apply rebuild]. Qed.
Lemma up_ir_2_3 : (up_ir_re_2_3 ur_0_0 ur_0_1 ur_0_2 ur_1_0 ur_1_1 ur_1_2 ui_0_0 ui_0_1 ui_0_2 ui_1_0 ui_1_1 ui_1_2, up_ir_im_2_3 ur_0_0 ur_0_1 ur_0_2 ur_1_0 ur_1_1 ur_1_2 ui_0_0 ui_0_1 ui_0_2 ui_1_0 ui_1_1 ui_1_2) = (0, 0).
Proof. reflexivity. Qed.
Lemma up_ir_2_4 : (up_ir_re_2_4 ur_0_0 ur_0_1 ur_0_2 ur_1_0 ur_1_1 ur_1_2 ui_0_0 ui_0_1 ui_0_2 ui_1_0 ui_1_1 ui_1_2, up_ir_im_2_4 ur_0_0 ur_0_1 ur_0_2 ur_1_0 ur_1_1 ur_1_2 ui_0_0 ui_0_1 ui_0_2 ui_1_0 ui_1_1 ui_1_2) = (ur_1_2, ui_1_2).
Proof. transitivity (gcf (amp (ur_1_2, ui_1_2)) (arg (ur_1_2, ui_1_2))); [reflexivity | apply rebuild]. Qed.
Lemma up_ir_2_5 : (up_ir_re_2_5 ur_0_0 ur_0_1 ur_0_2 ur_1_0 ur_1_1 ur_1_2 ui_0_0 ui_0_1 ui_0_2 ui_1_0 ui_1_1 ui_1_2, up_ir_im_2_5 ur_0_0 ur_0_1 ur_0_2 ur_1_0 ur_1_1 ur_1_2 ui_0_0 ui_0_1 ui_0_2 ui_1_0 ui_1_1 ui_1_2) = (0, 0).
Proof. reflexivity. Qed.
Lemma up_ir_3_0 : (up_ir_re_3_0 ur_0_0 ur_0_1 ur_0_2 ur_1_0 ur_1_1 ur_1_2 ui_0_0 ui_0_1 ui_0_2 ui_1_0 ui_1_1 ui_1_2, up_ir_im_3_0 ur_0_0 ur_0_1 ur_0_2 ur_1_0 ur_1_1 ur_1_2 ui_0_0 ui_0_1 ui_0_2 ui_1_0 ui_1_1 ui_1_2) = (0, 0).
Proof. reflexivity. Qed.
Lemma up_ir_3_1 : (up_ir_re_3_1 ur_0_0 ur_0_1 ur_0_2 ur_1_0 ur_1_1 ur_1_2 ui_0_0 ui_0_1 ui_0_2 ui_1_0 ui_1_1 ui_1_2, up_ir_im_3_1 ur_0_0 ur_0_1 ur_0_2 ur_1_0 ur_1_1 ur_1_2 ui_0_0 ui_0_1 ui_0_2 ui_1_0 ui_1_1 ui_1_2) = (0, 0).
Proof. reflexivity. Qed.
Lemma up_ir_3_2 : (up_ir_re_3_2 ur_0_0 ur_0_1 ur_0_2 ur_1_0 ur_1_1 ur_1_2 ui_0_0 ui_0_1 ui_0_2 ui_1_0 ui_1_1 ui_1_2, up_ir_im_3_2 ur_0_0 ur_0_1 ur_0_2 ur_1_0 ur_1_1 ur_1_2 ui_0_0 ui_0_1 ui_0_2 ui_1_0 ui_1_1 ui_1_2) = (0, 0).
Proof. reflexivity. Qed.
Lemma up_ir_3_3 : (up_ir_re_3_3 ur_0_0 ur_0_1 ur_0_2 ur_1_0 ur_1_1 ur_1_2 ui_0_0 ui_0_1 ui_0_2 ui_1_0 ui_1_1 ui_1_2, up_ir_im_3_3 ur_0_0 ur_0_1 ur_0_2 ur_1_0 ur_1_1 ur_1_2 ui_0_0 ui_0_1 ui_0_2 ui_1_0 ui_1_1 ui_1_2) = (0, 0).
Proof. reflexivity. Qed.
Lemma up_ir_3_4 : (up_ir_re_3_4 ur_0_0 ur_0_1 ur_0_2 ur_1_0 ur_1_1 ur_1_2 ui_0_0 ui_0_1 ui_0_2 ui_1_0 ui_1_1 ui_1_2, up_ir_im_3_4 ur_0_0 ur_0_1 ur_0_2 ur_1_0 ur_1_1 ur_1_2 ui_0_0 ui_0_1 ui_0_2 ui_1_0 ui_1_1 ui_1_2) = (0, 0).
Proof. reflexivity. Qed.
Lemma up_ir_3_5 : (up_ir_re_3_5 ur_0_0 ur_0_1 ur_0_2 ur_1_0 ur_1_1 ur_1_2 ui_0_0 ui_0_1 ui_0_2 ui_1_0 ui_1_1 ui_1_2, up_ir_im_3_5 ur_0_0 ur_0_1 ur_0_2 ur_1_0 ur_1_1 ur_1_2 ui_0_0 ui_0_1 ui_0_2 ui_1_0 ui_1_1 ui_1_2) = (0, 0).
Proof. reflexivity. Qed.
Lemma up_sir_0_0 : (up_sir_re_0_0 ur_0_0 ur_0_1 ur_0_2 ur_1_0 ur_1_1 ur_1_2 ui_0_0 ui_0_1 ui_0_2 ui_1_0 ui_1_1 ui_1_2, up_sir_im_0_0 ur_0_0 ur_0_1 ur_0_2 ur_1_0 ur_1_1 ur_1_2 ui_0_0 ui_0_1 ui_0_2 ui_1_0 ui_1_1 ui_1_2) = (ur_0_0, ui_0_0).
Proof. transitivity (gcf (amp (ur_0_0, ui_0_0)) (arg (ur_0_0, ui_0_0))); [reflexivity | apply rebuild]. Qed.
Lemma up_sir_0_1 : (up_sir_re_0_1 ur_0_0 ur_0_1 ur_0_2 ur_1_0 ur_1_1 ur_1_2 ui_0_0 ui_0_1 ui_0_2 ui_1_0 ui_1_1 ui_1_2, up_sir_im_0_1 ur_0_0 ur_0_1 ur_0_2 ur_1_0 ur_1_1 ur_1_2 ui_0_0 ui_0_1 ui_0_2 ui_1_0 ui_1_1 ui_1_2) = (0, 0).
Proof. reflexivity. Qed.
Lemma up_sir_0_2 : (up_sir_re_0_2 ur_0_0 ur_0_1 ur_0_2 ur_1_0 ur_1_1 ur_1_2 ui_0_0 ui_0_1 ui_0_2 ui_1_0 ui_1_1 ui_1_2, up_sir_im_0_2 ur_0_0 ur_0_1 ur_0_2 ur_1_0 ur_1_1 ur_1_2 ui_0_0 ui_0_1 ui_0_2 ui_1_0 ui_1_1 ui_1_2) = (ur_0_1, ui_0_1).
Proof. transitivity (gcf (amp (ur_0_1, ui_0_1)) (arg (ur_0_1, ui_0_1))); [reflexivity | apply rebuild]. Qed.
Lemma up_sir_0_3 : (up_sir_re_0_3 ur_0_0 ur_0_1 ur_0_2 ur_1_0 ur_1_1 ur_1_2 ui_0_0 ui_0_1 ui_0_2 ui_1_0 ui_1_1 ui_1_2, up_sir_im_0_3 ur_0_0 ur_0_1 ur_0_2 ur_1_0 ur_1_1 ur_1_2 ui_0_0 ui_0_1 ui_0_2 ui_1_0 ui_1_1 ui_1_2) = (0, 0).
Proof. reflexivity. Qed.
Lemma up_sir_0_4 : (up_sir_re_0_4 ur_0_0 ur_0_1 ur_0_2 ur_1_0 ur_1_1 ur_1_2 ui_0_0 ui_0_1 ui_0_2 ui_1_0 ui_1_1 ui_1_2, up_sir_im_0_4 ur_0_0 ur_0_1 ur_0_2 ur_1_0 ur_1_1 ur_1_2 ui_0_0 ui_0_1 ui_0_2 ui_1_0 ui_1_1 ui_1_2) = (ur_0_2, ui_0_2).
Proof. transitivity (gcf (amp (ur_0_2, ui_0_2)) (arg (ur_0_2, ui_0_2))); [reflexivity | apply rebuild]. Qed.
Lemma up_sir_0_5 : (up_sir_re_0_5 ur_0_0 ur_0_1 ur_0_2 ur_1_0 ur_1_1 ur_1_2 ui_0_0 ui_0_1 ui_0_2 ui_1_0 ui_1_1 ui_1_2, up_sir_im_0_5 ur_0_0 ur_0_1 ur_0_2 ur_1_0 ur_1_1 ur_1_2 ui_0_0 ui_0_1 ui_0_2 ui_1_0 ui_1_1 ui_1_2) = (0, 0).
Proof. reflexivity. Qed.
Lemma up_sir_1_0 : (up_sir_re_1_0 ur_0_0 ur_0_1 ur_0_2 ur_1_0 ur_1_1 ur_1_2 ui_0_0 ui_0_1 ui_0_2 ui_1_0 ui_1_1 ui_1_2, up_sir_im_1_0 ur_0_0 ur_0_1 ur_0_2 ur_1_0 ur_1_1 ur_1_2 ui_0_0 ui_0_1 ui_0_2 ui_1_0 ui_1_1 ui_1_2) = (0, 0).
Proof. reflexivity. Qed.
Lemma up_sir_1_1 : (up_sir_re_1_1 ur_0_0 ur_0_1 ur_0_2 ur_1_0 ur_1_1 ur_1_2 ui_0_0 ui_0_1 ui_0_2 ui_1_0 ui_1_1 ui_1_2, up_sir_im_1_1 ur_0_0 ur_0_1 ur_0_2 ur_1_0 ur_1_1 ur_1_2 ui_0_0 ui_0_1 ui_0_2 ui_1_0 ui_1_1 ui_1_2) = (0, 0).
Proof. reflexivity. Qed.
Lemma up_sir_1_2 : (up_sir_re_1_2 ur_0_0 ur_0_1 ur_0_2 ur_1_0 ur_1_1 ur_1_2 ui_0_0 ui_0_1 ui_0_2 ui_1_0 ui_1_1 ui_1_2, up_sir_im_1_2 ur_0_0 ur_0_1 ur_0_2 ur_1_0 ur_1_1 ur_1_2 ui_0_0 ui_0_1 ui_0_2 ui_1_0 ui_1_1 ui_1_2) = (0, 0).
Proof. reflexivity. Qed.
Lemma up_sir_1_3 : (up_sir_re_1_3 ur_0_0 ur_0_1 ur_0_2 ur_1_0 ur_1_1 ur_1_2 ui_0_0 ui_0_1 ui_0_2 ui_1_0 ui_1_1 ui_1_2, up_sir_im_1_3 ur_0_0 ur_0_1 ur_0_2 ur_1_0 ur_1_1 ur_1_2 ui_0_0 ui_0_1 ui_0_2 ui_1_0 ui_1_1 ui_1_2) = (0, 0).
Proof. reflexivity. Qed.
Lemma up_sir_1_4 : (up_sir_re_1_4 ur_0_0 ur_0_1 ur_0_2 ur_1_0 ur_1_1 ur_1_2 ui_0_0 ui_0_1 ui_0_2 ui_1_0 ui_1_1 ui_1_2, up_sir_im_1_4 ur_0_0 ur_0_1 ur_0_2 ur_1_0 ur_1_1 ur_1_2 ui_0_0 ui_0_1 ui_0_2 ui_1_0 ui_1_1 ui_1_2) = (0, 0).
Proof. reflexivity. Qed.
Lemma up_sir_1_5 : (up_sir_re_1_5 ur_0_0 ur_0_1 ur_0_2 ur_1_0 ur_1_1 ur_1_2 ui_0_0 ui_0_1 ui_0_2 ui_1_0 ui_1_1 ui_1_2, up_sir_im_1_5 ur_0_0 ur_0_1 ur_0_2 ur_1_0 ur_1_1 ur_1_2 ui_0_0 ui_0_1 ui_0_2 ui_1_0 ui_1_1 ui_1_2) = (0, 0).
Proof. reflexivity. Qed.
Lemma up_sir_2_0 : (up_sir_re_2_0 ur_0_0 ur_0_1 ur_0_2 ur_1_0 ur_1_1 ur_1_2 ui_0_0 ui_0_1 ui_0_2 ui_1_0 ui_1_1 ui_1_2, up_sir_im_2_0 ur_0_0 ur_0_1 ur_0_2 ur_1_0 ur_1_1 ur_1_2 ui_0_0 ui_0_1 ui_0_2 ui_1_0 ui_1_1 ui_1_2) = (ur_1_0, ui_1_0).
Proof. transitivity (gcf (amp (ur_1_0, ui_1_0)) (arg (ur_1_0, ui_1_0))); [reflexivity | apply rebuild]. Qed.
Lemma up_sir_2_1 : (up_sir_re_2_1 ur_0_0 ur_0_1 ur_0_2 ur_1_0 ur_1_1 ur_1_2 ui_0_0 ui_0_1 ui_0_2 ui_1_0 ui_1_1 ui_1_2, up_sir_im_2_1 ur_0_0 ur_0_1 ur_0_2 ur_1_0 ur_1_1 ur_1_2 ui_0_0 ui_0_1 ui_0_2 ui_1_0 ui_1_1 ui_1_2) = (0, 0).
Proof. reflexivity. Qed.
Lemma up_sir_2_2 : (up_sir_re_2_2 ur_0_0 ur_0_1 ur_0_2 ur_1_0 ur_1_1 ur_1_2 ui_0_0 ui_0_1 ui_0_2 ui_1_0 ui_1_1 ui_1_2, up_sir_im_2_2 ur_0_0 ur_0_1 ur_0_2 ur_1_0 ur_1_1 ur_1_2 ui_0_0 ui_0_1 ui_0_2 ui_1_0 ui_1_1 ui_1_2) = (ur_1_1, ui_1_1).
Proof. transitivity (gcf (amp (ur_1_1, ui_1_1)) (arg (ur_1_1, ui_1_1))); [reflexivity | apply rebuild]. Qed.
Lemma up_sir_2_3 : (up_sir_re_2_3 ur_0_0 ur_0_1 ur_0_2 ur_1_0 ur_1_1 ur_1_2 ui_0_0 ui_0_1 ui_0_2 ui_1_0 ui_1_1 ui_1_2, up_sir_im_2_3 ur_0_0 ur_0_1 ur_0_2 ur_1_0 ur_1_1 ur_1_2 ui_0_0 ui_0_1 ui_0_2 ui_1_0 ui_1_1 ui_1_2) = (0, 0).
Proof. reflexivity. Qed.
Lemma up_sir_2_4 : (up_sir_re_2_4 ur_0_0 ur_0_1 ur_0_2 ur_1_0 ur_1_1 ur_1_2 ui_0_0 ui_0_1 ui_0_2 ui_1_0 ui_1_1 ui_1_2, up_sir_im_2_4 ur_0_0 ur_0_1 ur_0_2 ur_1_0 ur_1_1 ur_1_2 ui_0_0 ui_0_1 ui_0_2 ui_1_0 ui_1_1 ui_1_2) = (ur_1_2, ui_1_2).
Proof. transitivity (gcf (amp (ur_1_2, ui_1_2)) (arg (ur_1_2, ui_1_2))); [reflexivity | apply rebuild]. Qed.
Lemma up_sir_2_5 : (up_sir_re_2_5 ur_0_0 ur_0_1 ur_0_2 ur_1_0 ur_1_1 ur_1_2 ui_0_0 ui_0_1 ui_0_2 ui_1_0 ui_1_1 ui_1_2, up_sir_im_2_5 ur_0_0 ur_0_1 ur_0_2 ur_1_0 ur_1_1 ur_1_2 ui_0_0 ui_0_1 ui_0_2 ui_1_0 ui_1_1 ui_1_2) = (0, 0).
Proof. reflexivity. Qed.
Lemma up_sir_3_0 : (up_sir_re_3_0 ur_0_0 ur_0_1 ur_0_2 ur_1_0 ur_1_1 ur_1_2 ui_0_0 ui_0_1 ui_0_2 ui_1_0 ui_1_1 ui_1_2, up_sir_im_3_0 ur_0_0 ur_0_1 ur_0_2 ur_1_0 ur_1_1 ur_1_2 ui_0_0 ui_0_1 ui_0_2 ui_1_0 ui_1_1 ui_1_2) = (0, 0).
Proof. reflexivity. Qed.
Lemma up_sir_3_1 : (up_sir_re_3_1 ur_0_0 ur_0_1 ur_0_2 ur_1_0 ur_1_1 ur_1_2 ui_0_0 ui_0_1 ui_0_2 ui_1_0 ui_1_1 ui_1_2, up_sir_im_3_1 ur_0_0 ur_0_1 ur_0_2 ur_1_0 ur_1_1 ur_1_2 ui_0_0 ui_0_1 ui_0_2 ui_1_0 ui_1_1 ui_1_2) = (0, 0).
Proof. reflexivity. Qed.
Lemma up_sir_3_2 : (up_sir_re_3_2 ur_0_0 ur_0_1 ur_0_2 ur_1_0 ur_1_1 ur_1_2 ui_0_0 ui_0_1 ui_0_2 ui_1_0 ui_1_1 ui_1_2, up_sir_im_3_2 ur_0_0 ur_0_1 ur_0_2 ur_1_0 ur_1_1 ur_1_2 ui_0_0 ui_0_1 ui_0_2 ui_1_0 ui_1_1 ui_1_2) = (0, 0).
Proof. reflexivity. Qed.
Lemma up_sir_3_3 : (up_sir_re_3_3 ur_0_0 ur_0_1 ur_0_2 ur_1_0 ur_1_1 ur_1_2 ui_0_0 ui_0_1 ui_0_2 ui_1_0 ui_1_1 ui_1_2, up_sir_im_3_3 ur_0_0 ur_0_1 ur_0_2 ur_1_0 ur_1_1 ur_1_2 ui_0_0 ui_0_1 ui_0_2 ui_1_0 ui_1_1 ui_1_2) = (0, 0).
Proof. reflexivity. Qed.
Lemma up_sir_3_4 : (up_sir_re_3_4 ur_0_0 ur_0_1 ur_0_2 ur_1_0 ur_1_1 ur_1_2 ui_0_0 ui_0_1 ui_0_2 ui_1_0 ui_1_1 ui_1_2, up_sir_im_3_4 ur_0_0 ur_0_1 ur_0_2 ur_1_0 ur_1_1 ur_1_2 ui_0_0 ui_0_1 ui_0_2 ui_1_0 ui_1_1 ui_1_2) = (0, 0).
Proof. reflexivity. Qed.
Lemma up_sir_3_5 : (up_sir_re_3_5 ur_0_0 ur_0_1 ur_0_2 ur_1_0 ur_1_1 ur_1_2 ui_0_0 ui_0_1 ui_0_2 ui_1_0 ui_1_1 ui_1_2, up_sir_im_3_5 ur_0_0 ur_0_1 ur_0_2 ur_1_0 ur_1_1 ur_1_2 ui_0_0 ui_0_1 ui_0_2 ui_1_0 ui_1_1 ui_1_2) = (0, 0).
Proof. reflexivity. Qed.
End Up.
