(* C10 tie, part C (NumPy plane hit): the definitions traced from /repo on this run equal the reference model
   (coq/theories/C10/Model.v) for ALL real inputs, under the property's own guards only (non-zero triangle
   area; ray not parallel to the plane).  Compiled on every run against Run.GenC10. *)
From Coq Require Import Reals Lra Bool.
From OdakV Require Import Base.RealAux Base.Vec3 C10.Model C10.Lemmas.
From Run Require Import GenC10.
Open Scope R_scope.

Ltac v3' := repeat progress (unfold vdot, vcross, vadd, vsub, vscale, vx, vy, vz in *; cbn [fst snd] in *).
Ltac open_model := repeat progress (unfold tri_normal, tri_raw_normal, centroid, plane_dist, hit_point, bary_u, bary_v in *); v3'.
(* unfold the model down to coordinates but keep the norm |raw| of the triangle at hand as ONE atom N; every sqrt in
   the traced term must be that same norm (checked by ring on its argument) *)
Ltac open_with Hn :=
  open_model;
  match type of Hn with 0 < ?n =>
    let N := fresh "N" in
    set (N := n) in *;
    repeat match goal with |- context [sqrt ?a] =>
      replace (sqrt a) with N by (subst N; unfold vnorm, vnorm2; f_equal; v3'; ring) end;
    clearbody N
  end.
Ltac fin := field; repeat split; first [assumption | lra].
(* boolean hit flag: compare as propositions; every comparison atom of the traced flag is identified with the
   model's barycentric coordinate it equals (field decides which), whatever the order of the conjuncts *)
Ltac not_bary X := lazymatch X with bary_u _ _ _ _ => fail | bary_v _ _ _ _ => fail | _ => idtac end.
Ltac flag_tie t0 t1 t2 pt eqtac :=
  apply eq_true_iff_eq; unfold inside_flag; rewrite !andb_true_iff, !Rleb_true, !Rltb_true;
  repeat match goal with
  | |- context [Rle 0 ?X] => not_bary X;
      first [ replace X with (bary_u t0 t1 t2 pt) by eqtac | replace X with (bary_v t0 t1 t2 pt) by eqtac ]
  end;
  split; intros; repeat split; lra.


Section Single.
Variables t_0_0 t_0_1 t_0_2 t_1_0 t_1_1 t_1_2 t_2_0 t_2_1 t_2_2 : R.
Variables r_0_0_0 r_0_0_1 r_0_0_2 r_0_1_0 r_0_1_1 r_0_1_2 : R.
Variables p_0_0 p_0_1 p_0_2 : R.
Let t0 : V3 := (t_0_0, t_0_1, t_0_2).
Let t1 : V3 := (t_1_0, t_1_1, t_1_2).
Let t2 : V3 := (t_2_0, t_2_1, t_2_2).
Let o : V3 := (r_0_0_0, r_0_0_1, r_0_0_2).
Let d : V3 := (r_0_1_0, r_0_1_1, r_0_1_2).
Let p : V3 := (p_0_0, p_0_1, p_0_2).
Let raw := tri_raw_normal t0 t1 t2.
Hypothesis nondeg : raw <> vzero.

Lemma norm_pos : 0 < vnorm raw.
Proof. apply vnorm_pos, vnorm2_pos, nondeg. Qed.
Lemma gram_pos : 0 < vnorm2 raw.
Proof. apply vnorm2_pos, nondeg. Qed.
Lemma gram_open : 0 < vdot (vsub t2 t0) (vsub t2 t0) * vdot (vsub t1 t0) (vsub t1 t0) - vdot (vsub t2 t0) (vsub t1 t0) * vdot (vsub t2 t0) (vsub t1 t0).
Proof. pose proof gram_pos as G. unfold raw in G. rewrite <- gram_is_area in G. exact G. Qed.
Ltac open := pose proof norm_pos as Hn; unfold raw, t0, t1, t2, o, d, p in *; open_with Hn.

Hypothesis notpar : vdot raw d <> 0.
(* NumPy reports |distance| (known finding C10-numpy-abs-distance): the tie states exactly that *)
Lemma n_dist_ok : n_dist t_0_0 t_0_1 t_0_2 t_1_0 t_1_1 t_1_2 t_2_0 t_2_1 t_2_2 r_0_0_0 r_0_0_1 r_0_0_2 r_0_1_0 r_0_1_1 r_0_1_2 = Rabs (plane_dist (tri_normal t0 t1 t2) (centroid t0 t1 t2) o d).
Proof. unfold n_dist. open. f_equal. fin. Qed.
Lemma n_hit_0_ok : n_hit_0 t_0_0 t_0_1 t_0_2 t_1_0 t_1_1 t_1_2 t_2_0 t_2_1 t_2_2 r_0_0_0 r_0_0_1 r_0_0_2 r_0_1_0 r_0_1_1 r_0_1_2 = vx (hit_point (tri_normal t0 t1 t2) (centroid t0 t1 t2) o d).
Proof. unfold n_hit_0. open. fin. Qed.
Lemma n_hitn_0_ok : n_hitn_0 t_0_0 t_0_1 t_0_2 t_1_0 t_1_1 t_1_2 t_2_0 t_2_1 t_2_2 r_0_0_0 r_0_0_1 r_0_0_2 r_0_1_0 r_0_1_1 r_0_1_2 = vx (tri_normal t0 t1 t2).
Proof. unfold n_hitn_0. open. fin. Qed.
Lemma n_hit_1_ok : n_hit_1 t_0_0 t_0_1 t_0_2 t_1_0 t_1_1 t_1_2 t_2_0 t_2_1 t_2_2 r_0_0_0 r_0_0_1 r_0_0_2 r_0_1_0 r_0_1_1 r_0_1_2 = vy (hit_point (tri_normal t0 t1 t2) (centroid t0 t1 t2) o d).
Proof. unfold n_hit_1. open. fin. Qed.
Lemma n_hitn_1_ok : n_hitn_1 t_0_0 t_0_1 t_0_2 t_1_0 t_1_1 t_1_2 t_2_0 t_2_1 t_2_2 r_0_0_0 r_0_0_1 r_0_0_2 r_0_1_0 r_0_1_1 r_0_1_2 = vy (tri_normal t0 t1 t2).
Proof. unfold n_hitn_1. open. fin. Qed.
Lemma n_hit_2_ok : n_hit_2 t_0_0 t_0_1 t_0_2 t_1_0 t_1_1 t_1_2 t_2_0 t_2_1 t_2_2 r_0_0_0 r_0_0_1 r_0_0_2 r_0_1_0 r_0_1_1 r_0_1_2 = vz (hit_point (tri_normal t0 t1 t2) (centroid t0 t1 t2) o d).
Proof. unfold n_hit_2. open. fin. Qed.
Lemma n_hitn_2_ok : n_hitn_2 t_0_0 t_0_1 t_0_2 t_1_0 t_1_1 t_1_2 t_2_0 t_2_1 t_2_2 r_0_0_0 r_0_0_1 r_0_0_2 r_0_1_0 r_0_1_1 r_0_1_2 = vz (tri_normal t0 t1 t2).
Proof. unfold n_hitn_2. open. fin. Qed.
End Single.
