(* C10 tie, part D (barycentric test): the definitions traced from /repo on this run equal the reference model
   (coq/theories/C10/Model.v) for ALL real inputs, under the property's own guards only (non-zero
   triangle area; ray not parallel to the plane).  Compiled on every run against Run.GenC10. *)
From Coq Require Import Reals Lra Bool.
From OdakV Require Import Base.RealAux Base.Vec3 C10.Model C10.Lemmas.
From Run Require Import GenC10.
Open Scope R_scope.

Ltac v3' := repeat progress (unfold vdot, vcross, vadd, vsub, vscale, vx, vy, vz in *; cbn [fst snd] in *).
Ltac open_model := repeat progress (unfold tri_normal, tri_raw_normal, centroid, plane_dist, hit_point, bary_u, bary_v in *); v3'.

Section Single.
Variables t_0_0 t_0_1 t_0_2 t_1_0 t_1_1 t_1_2 t_2_0 t_2_1 t_2_2 : R.
Variables r_0_0_0 r_0_0_1 r_0_0_2 r_0_1_0 r_0_1_1 r_0_1_2 : R.
Variables p_0_0 p_0_1 p_0_2 : R.
Let t0 : V3 := (t_0_0, t_0_1, t_0_2).
Let t1 : V3 := (t_1_0, t_1_1, t_1_2).
Let t2 : V3 := (t_2_0, t_2_1, t_2_2).
Let o : V3 := (r_0_0_0, r_0_0_1, r_0_0_2).
Let d : V3 := (r_0_1_0, r_0_1_1, r_0_1_2).
Let p : V3 := (p_0_0, p_0_1, p_0_2).
Let raw := tri_raw_normal t0 t1 t2.
Hypothesis nondeg : raw <> vzero.

Lemma norm_pos : 0 < vnorm raw.
Proof. apply vnorm_pos, vnorm2_pos, nondeg. Qed.
Lemma gram_pos : 0 < vnorm2 raw.
Proof. apply vnorm2_pos, nondeg. Qed.
(* unfold the model down to coordinates but keep |raw| as one atom N; every sqrt in the traced term
   must be that same norm (checked by ring on its argument) *)
Ltac open :=
  pose proof norm_pos as Hn; unfold raw, t0, t1, t2, o, d, p in *; open_model;
  match type of Hn with 0 < ?n =>
    let N := fresh "N" in
    set (N := n) in *;
    repeat match goal with |- context [sqrt ?a] =>
      replace (sqrt a) with N by (subst N; unfold vnorm, vnorm2; f_equal; v3'; ring) end;
    clearbody N
  end.
Ltac fin := field; repeat split; first [assumption | lra].

Lemma gram_open : 0 < vdot (vsub t2 t0) (vsub t2 t0) * vdot (vsub t1 t0) (vsub t1 t0) - vdot (vsub t2 t0) (vsub t1 t0) * vdot (vsub t2 t0) (vsub t1 t0).
Proof. pose proof gram_pos as G. unfold raw in G. rewrite <- gram_is_area in G. exact G. Qed.
Lemma t_u_ok : t_u t_0_0 t_0_1 t_0_2 t_1_0 t_1_1 t_1_2 t_2_0 t_2_1 t_2_2 p_0_0 p_0_1 p_0_2 = bary_u t0 t1 t2 p.
Proof. pose proof gram_open as G. unfold t_u. open. field. lra. Qed.
Lemma t_v_ok : t_v t_0_0 t_0_1 t_0_2 t_1_0 t_1_1 t_1_2 t_2_0 t_2_1 t_2_2 p_0_0 p_0_1 p_0_2 = bary_v t0 t1 t2 p.
Proof. pose proof gram_open as G. unfold t_v. open. field. lra. Qed.
Lemma t_flag_ok : t_flag t_0_0 t_0_1 t_0_2 t_1_0 t_1_1 t_1_2 t_2_0 t_2_1 t_2_2 p_0_0 p_0_1 p_0_2 = inside_flag t0 t1 t2 p.
Proof.
  change (t_flag t_0_0 t_0_1 t_0_2 t_1_0 t_1_1 t_1_2 t_2_0 t_2_1 t_2_2 p_0_0 p_0_1 p_0_2) with ((Rleb 0 (t_u t_0_0 t_0_1 t_0_2 t_1_0 t_1_1 t_1_2 t_2_0 t_2_1 t_2_2 p_0_0 p_0_1 p_0_2) && Rleb 0 (t_v t_0_0 t_0_1 t_0_2 t_1_0 t_1_1 t_1_2 t_2_0 t_2_1 t_2_2 p_0_0 p_0_1 p_0_2)) && Rltb (t_u t_0_0 t_0_1 t_0_2 t_1_0 t_1_1 t_1_2 t_2_0 t_2_1 t_2_2 p_0_0 p_0_1 p_0_2 + t_v t_0_0 t_0_1 t_0_2 t_1_0 t_1_1 t_1_2 t_2_0 t_2_1 t_2_2 p_0_0 p_0_1 p_0_2) 1).
  rewrite t_u_ok, t_v_ok. reflexivity.
Qed.
(* the flag intersect_w_triangle computes is the flag of the traced hit point *)
Lemma t_hitflag_is_flag_of_hit : t_hitflag t_0_0 t_0_1 t_0_2 t_1_0 t_1_1 t_1_2 t_2_0 t_2_1 t_2_2 r_0_0_0 r_0_0_1 r_0_0_2 r_0_1_0 r_0_1_1 r_0_1_2 = t_flag t_0_0 t_0_1 t_0_2 t_1_0 t_1_1 t_1_2 t_2_0 t_2_1 t_2_2 (t_hit_0 t_0_0 t_0_1 t_0_2 t_1_0 t_1_1 t_1_2 t_2_0 t_2_1 t_2_2 r_0_0_0 r_0_0_1 r_0_0_2 r_0_1_0 r_0_1_1 r_0_1_2) (t_hit_1 t_0_0 t_0_1 t_0_2 t_1_0 t_1_1 t_1_2 t_2_0 t_2_1 t_2_2 r_0_0_0 r_0_0_1 r_0_0_2 r_0_1_0 r_0_1_1 r_0_1_2) (t_hit_2 t_0_0 t_0_1 t_0_2 t_1_0 t_1_1 t_1_2 t_2_0 t_2_1 t_2_2 r_0_0_0 r_0_0_1 r_0_0_2 r_0_1_0 r_0_1_1 r_0_1_2).
Proof. reflexivity. Qed.
End Single.
