(* C10, end to end on the traced code: the property's clauses stated directly about the
   definitions generated from /repo on this run (Run.GenC10), for all real inputs. *)
From Coq Require Import Reals Lra Bool.
From OdakV Require Import Base.RealAux Base.Vec3 C10.Model C10.Lemmas.
From Run Require Import GenC10 C10_TieA C10_TieB C10_TieC C10_TieD.
Open Scope R_scope.

Section E2E.
Variables t_0_0 t_0_1 t_0_2 t_1_0 t_1_1 t_1_2 t_2_0 t_2_1 t_2_2 : R.
Variables r_0_0_0 r_0_0_1 r_0_0_2 r_0_1_0 r_0_1_1 r_0_1_2 : R.
Let t0 : V3 := (t_0_0, t_0_1, t_0_2).
Let t1 : V3 := (t_1_0, t_1_1, t_1_2).
Let t2 : V3 := (t_2_0, t_2_1, t_2_2).
Let o : V3 := (r_0_0_0, r_0_0_1, r_0_0_2).
Let d : V3 := (r_0_1_0, r_0_1_1, r_0_1_2).
Hypothesis nondeg : tri_raw_normal t0 t1 t2 <> vzero.

(* reported normal, PyTorch and NumPy *)
Let tn : V3 := (t_normal_0 t_0_0 t_0_1 t_0_2 t_1_0 t_1_1 t_1_2 t_2_0 t_2_1 t_2_2,
                t_normal_1 t_0_0 t_0_1 t_0_2 t_1_0 t_1_1 t_1_2 t_2_0 t_2_1 t_2_2,
                t_normal_2 t_0_0 t_0_1 t_0_2 t_1_0 t_1_1 t_1_2 t_2_0 t_2_1 t_2_2).
Let nn : V3 := (n_normal_0 t_0_0 t_0_1 t_0_2 t_1_0 t_1_1 t_1_2 t_2_0 t_2_1 t_2_2,
                n_normal_1 t_0_0 t_0_1 t_0_2 t_1_0 t_1_1 t_1_2 t_2_0 t_2_1 t_2_2,
                n_normal_2 t_0_0 t_0_1 t_0_2 t_1_0 t_1_1 t_1_2 t_2_0 t_2_1 t_2_2).
Lemma tn_eq : tn = tri_normal t0 t1 t2.
Proof.
  unfold tn. rewrite (t_normal_0_ok _ _ _ _ _ _ _ _ _ nondeg), (t_normal_1_ok _ _ _ _ _ _ _ _ _ nondeg), (t_normal_2_ok _ _ _ _ _ _ _ _ _ nondeg).
  exact (v3_eta _).
Qed.
Lemma nn_eq : nn = tri_normal t0 t1 t2.
Proof.
  unfold nn. rewrite (n_normal_0_ok _ _ _ _ _ _ _ _ _ nondeg), (n_normal_1_ok _ _ _ _ _ _ _ _ _ nondeg), (n_normal_2_ok _ _ _ _ _ _ _ _ _ nondeg).
  exact (v3_eta _).
Qed.

Theorem traced_normal_sound :
  (vnorm2 tn = 1 /\ vdot tn (vsub t0 t1) = 0 /\ vdot tn (vsub t2 t1) = 0 /\ vdot tn (vsub t2 t0) = 0) /\
  (vnorm2 nn = 1 /\ vdot nn (vsub t0 t1) = 0 /\ vdot nn (vsub t2 t1) = 0 /\ vdot nn (vsub t2 t0) = 0).
Proof.
  rewrite tn_eq, nn_eq. pose proof (normal_unit t0 t1 t2 nondeg). pose proof (normal_perp t0 t1 t2). tauto.
Qed.

Hypothesis notpar : vdot (tri_raw_normal t0 t1 t2) d <> 0.

Let th : V3 := (t_hit_0 t_0_0 t_0_1 t_0_2 t_1_0 t_1_1 t_1_2 t_2_0 t_2_1 t_2_2 r_0_0_0 r_0_0_1 r_0_0_2 r_0_1_0 r_0_1_1 r_0_1_2,
                t_hit_1 t_0_0 t_0_1 t_0_2 t_1_0 t_1_1 t_1_2 t_2_0 t_2_1 t_2_2 r_0_0_0 r_0_0_1 r_0_0_2 r_0_1_0 r_0_1_1 r_0_1_2,
                t_hit_2 t_0_0 t_0_1 t_0_2 t_1_0 t_1_1 t_1_2 t_2_0 t_2_1 t_2_2 r_0_0_0 r_0_0_1 r_0_0_2 r_0_1_0 r_0_1_1 r_0_1_2).
Let nh : V3 := (n_hit_0 t_0_0 t_0_1 t_0_2 t_1_0 t_1_1 t_1_2 t_2_0 t_2_1 t_2_2 r_0_0_0 r_0_0_1 r_0_0_2 r_0_1_0 r_0_1_1 r_0_1_2,
                n_hit_1 t_0_0 t_0_1 t_0_2 t_1_0 t_1_1 t_1_2 t_2_0 t_2_1 t_2_2 r_0_0_0 r_0_0_1 r_0_0_2 r_0_1_0 r_0_1_1 r_0_1_2,
                n_hit_2 t_0_0 t_0_1 t_0_2 t_1_0 t_1_1 t_1_2 t_2_0 t_2_1 t_2_2 r_0_0_0 r_0_0_1 r_0_0_2 r_0_1_0 r_0_1_1 r_0_1_2).
Let tdist := t_dist t_0_0 t_0_1 t_0_2 t_1_0 t_1_1 t_1_2 t_2_0 t_2_1 t_2_2 r_0_0_0 r_0_0_1 r_0_0_2 r_0_1_0 r_0_1_1 r_0_1_2.
Let ndist := n_dist t_0_0 t_0_1 t_0_2 t_1_0 t_1_1 t_1_2 t_2_0 t_2_1 t_2_2 r_0_0_0 r_0_0_1 r_0_0_2 r_0_1_0 r_0_1_1 r_0_1_2.
Let H := hit_point (tri_normal t0 t1 t2) (centroid t0 t1 t2) o d.

Lemma th_eq : th = H.
Proof.
  unfold th. rewrite (t_hit_0_ok _ _ _ _ _ _ _ _ _ _ _ _ _ _ _ nondeg notpar), (t_hit_1_ok _ _ _ _ _ _ _ _ _ _ _ _ _ _ _ nondeg notpar), (t_hit_2_ok _ _ _ _ _ _ _ _ _ _ _ _ _ _ _ nondeg notpar).
  exact (v3_eta _).
Qed.
Lemma nh_eq : nh = H.
Proof.
  unfold nh. rewrite (n_hit_0_ok _ _ _ _ _ _ _ _ _ _ _ _ _ _ _ nondeg notpar), (n_hit_1_ok _ _ _ _ _ _ _ _ _ _ _ _ _ _ _ nondeg notpar), (n_hit_2_ok _ _ _ _ _ _ _ _ _ _ _ _ _ _ _ nondeg notpar).
  exact (v3_eta _).
Qed.

Lemma unit_notpar : vdot (tri_normal t0 t1 t2) d <> 0.
Proof.
  unfold tri_normal. cbv zeta. rewrite vdot_scale_l.
  pose proof (vnorm_pos _ (vnorm2_pos _ nondeg)) as Hn.
  apply Rmult_integral_contrapositive_currified; [apply Rinv_neq_0_compat; lra | exact notpar].
Qed.

(* PyTorch: the hit point is on the ray at the reported distance and on the triangle's plane *)
Theorem traced_torch_hit_sound :
  th = vadd o (vscale tdist d) /\ vdot (tri_raw_normal t0 t1 t2) (vsub th t1) = 0.
Proof.
  rewrite th_eq. unfold tdist. rewrite (t_dist_ok _ _ _ _ _ _ _ _ _ _ _ _ _ _ _ nondeg notpar). split; [reflexivity|].
  unfold H.
  assert (E : vdot (tri_normal t0 t1 t2) (vsub (hit_point (tri_normal t0 t1 t2) (centroid t0 t1 t2) o d) (centroid t0 t1 t2)) = 0)
    by (apply hit_on_plane, unit_notpar).
  set (hp := hit_point (tri_normal t0 t1 t2) (centroid t0 t1 t2) o d) in *.
  pose proof (centroid_on_plane t0 t1 t2) as C.
  unfold tri_normal in E. cbv zeta in E. rewrite vdot_scale_l in E.
  pose proof (vnorm_pos _ (vnorm2_pos _ nondeg)) as Hn.
  assert (E' : vdot (tri_raw_normal t0 t1 t2) (vsub hp (centroid t0 t1 t2)) = 0).
  { apply Rmult_integral in E. destruct E as [E|E]; [exfalso; revert E; apply Rinv_neq_0_compat; lra | exact E]. }
  replace (vsub hp t1) with (vadd (vsub hp (centroid t0 t1 t2)) (vsub (centroid t0 t1 t2) t1))
    by (destruct hp as [[? ?] ?]; destruct (centroid t0 t1 t2) as [[? ?] ?]; unfold t1; v3; f_equal; [f_equal|]; ring).
  destruct (tri_raw_normal t0 t1 t2) as [[a b] c]; destruct (vsub hp (centroid t0 t1 t2)) as [[? ?] ?]; destruct (vsub (centroid t0 t1 t2) t1) as [[? ?] ?].
  v3. lra.
Qed.

(* NumPy: same hit point; the reported distance is the absolute value of the ray parameter
   (so the "at the reported distance" clause holds only for planes in front of the ray:
   known finding C10-numpy-abs-distance) *)
Theorem traced_numpy_hit_partial :
  nh = th /\ ndist = Rabs tdist /\ (0 <= tdist -> nh = vadd o (vscale ndist d)).
Proof.
  rewrite nh_eq, th_eq. split; [reflexivity|].
  unfold ndist, tdist. rewrite (n_dist_ok _ _ _ _ _ _ _ _ _ _ _ _ _ _ _ nondeg notpar), (t_dist_ok _ _ _ _ _ _ _ _ _ _ _ _ _ _ _ nondeg notpar).
  split; [reflexivity|]. intros Hpos. rewrite Rabs_pos_eq by exact Hpos. reflexivity.
Qed.
End E2E.

Section Flag.
Variables t_0_0 t_0_1 t_0_2 t_1_0 t_1_1 t_1_2 t_2_0 t_2_1 t_2_2 : R.
Variables al be : R.
Let t0 : V3 := (t_0_0, t_0_1, t_0_2).
Let t1 : V3 := (t_1_0, t_1_1, t_1_2).
Let t2 : V3 := (t_2_0, t_2_1, t_2_2).
Hypothesis nondeg : tri_raw_normal t0 t1 t2 <> vzero.
Let p := vadd t0 (vadd (vscale al (vsub t2 t0)) (vscale be (vsub t1 t0))).
(* the traced hit flag is true exactly when the point is inside the triangle *)
Theorem traced_flag_exact :
  t_flag t_0_0 t_0_1 t_0_2 t_1_0 t_1_1 t_1_2 t_2_0 t_2_1 t_2_2 (vx p) (vy p) (vz p) = true <-> 0 <= al /\ 0 <= be /\ al + be < 1.
Proof.
  rewrite (t_flag_ok _ _ _ _ _ _ _ _ _ (vx p) (vy p) (vz p) nondeg).
  rewrite (v3_eta p).
  apply inside_iff; [exact nondeg | reflexivity].
Qed.
End Flag.
Print Assumptions traced_normal_sound.
Print Assumptions traced_torch_hit_sound.
Print Assumptions traced_numpy_hit_partial.
Print Assumptions traced_flag_exact.
