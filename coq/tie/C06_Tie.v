(* C06 tie: propagator.__call__, traced from the current source on a stub object with two channels
   (wavelengths lam0, lam1) and two depth planes (distances z0, z1), is the documented forward model
   crop (ifft2 (ifftshift (kernel(lambda_channel, z_depth) x [fftshift (fft2 (pad u)) x aperture])))
   - aperture ONCE, kernel of that channel's wavelength and that plane's distance - on a cold and on a warm
   cache alike; 'back and forth' multiplies the kernels of z_m and -(z_m + offset - z) and, for unit-modulus
   kernels with a phase additive in z, equals one forward propagation by the net distance z - offset. *)
From Coq Require Import Reals Lra FunctionalExtensionality.
From Coquelicot Require Import Complex.
From OdakV Require Import Base.RealAux Wave.Fields Wave.Kernels.
From Run Require Import GenC06.
Open Scope R_scope.

(* equality of field terms up to commutativity / associativity of the pointwise product *)
Ltac field_eq :=
  first [ reflexivity
        | match goal with |- ?f ?a = ?f ?b => apply (f_equal f); field_eq end
        | (let i := fresh "i" in let j := fresh "j" in extensionality i; extensionality j; unfold fmul, fadd, fscal, fone, fzero; ring) ].

Section T.
Variables F Finv S Sinv PAD CROP : fld -> fld.
Variable KER : R -> R -> fld.
Variables (u A : fld) (lam0 lam1 z0 z1 zm off : R).
Notation model K := (CROP (custom F Finv S Sinv (PAD u) K A)).

Lemma fwd_miss_1_0 : p_fwd_miss_1_0 F Finv S Sinv PAD CROP KER u A lam0 lam1 z0 z1 zm off = model (KER lam1 z0).
Proof. unfold p_fwd_miss_1_0, custom. field_eq. Qed.
Lemma fwd_miss_0_1 : p_fwd_miss_0_1 F Finv S Sinv PAD CROP KER u A lam0 lam1 z0 z1 zm off = model (KER lam0 z1).
Proof. unfold p_fwd_miss_0_1, custom. field_eq. Qed.
Lemma fwd_hit_1_0 : p_fwd_hit_1_0 F Finv S Sinv PAD CROP KER u A lam0 lam1 z0 z1 zm off = p_fwd_miss_1_0 F Finv S Sinv PAD CROP KER u A lam0 lam1 z0 z1 zm off.
Proof. unfold p_fwd_hit_1_0, p_fwd_miss_1_0, custom. field_eq. Qed.
Lemma fwd_hit_0_1 : p_fwd_hit_0_1 F Finv S Sinv PAD CROP KER u A lam0 lam1 z0 z1 zm off = p_fwd_miss_0_1 F Finv S Sinv PAD CROP KER u A lam0 lam1 z0 z1 zm off.
Proof. unfold p_fwd_hit_0_1, p_fwd_miss_0_1, custom. field_eq. Qed.
Lemma baf_miss_1_0 : p_baf_miss_1_0 F Finv S Sinv PAD CROP KER u A lam0 lam1 z0 z1 zm off = model (fmul (KER lam1 zm) (KER lam1 (- (zm + off - z0)))).
Proof. unfold p_baf_miss_1_0, custom. field_eq. Qed.
Lemma baf_miss_0_1 : p_baf_miss_0_1 F Finv S Sinv PAD CROP KER u A lam0 lam1 z0 z1 zm off = model (fmul (KER lam0 zm) (KER lam0 (- (zm + off - z1)))).
Proof. unfold p_baf_miss_0_1, custom. field_eq. Qed.
Lemma baf_hit_1_0 : p_baf_hit_1_0 F Finv S Sinv PAD CROP KER u A lam0 lam1 z0 z1 zm off = p_baf_miss_1_0 F Finv S Sinv PAD CROP KER u A lam0 lam1 z0 z1 zm off.
Proof. unfold p_baf_hit_1_0, p_baf_miss_1_0, custom. field_eq. Qed.
Lemma baf_hit_0_1 : p_baf_hit_0_1 F Finv S Sinv PAD CROP KER u A lam0 lam1 z0 z1 zm off = p_baf_miss_0_1 F Finv S Sinv PAD CROP KER u A lam0 lam1 z0 z1 zm off.
Proof. unfold p_baf_hit_0_1, p_baf_miss_0_1, custom. field_eq. Qed.

Lemma fwd_miss_0_1_at za zb : p_fwd_miss_0_1 F Finv S Sinv PAD CROP KER u A lam0 lam1 za zb zm off = model (KER lam0 zb).
Proof. unfold p_fwd_miss_0_1, custom. field_eq. Qed.
Lemma fwd_miss_1_0_at za zb : p_fwd_miss_1_0 F Finv S Sinv PAD CROP KER u A lam0 lam1 za zb zm off = model (KER lam1 za).
Proof. unfold p_fwd_miss_1_0, custom. field_eq. Qed.

(* unit-modulus kernels with additive phase: back and forth = forward by the net distance *)
Variable ph : R -> nat -> nat -> R -> R.
Hypothesis KER_phasor : forall lam z i j, KER lam z i j = Cexpi (ph lam i j z).
Hypothesis ph_add : forall lam i j z1' z2', ph lam i j (z1' + z2') = ph lam i j z1' + ph lam i j z2'.
Theorem traced_back_and_forth_is_net :
  p_baf_miss_0_1 F Finv S Sinv PAD CROP KER u A lam0 lam1 z0 z1 zm off = p_fwd_miss_0_1 F Finv S Sinv PAD CROP KER u A lam0 lam1 (z0) (z1 - off) zm off /\
  p_baf_miss_1_0 F Finv S Sinv PAD CROP KER u A lam0 lam1 z0 z1 zm off = p_fwd_miss_1_0 F Finv S Sinv PAD CROP KER u A lam0 lam1 (z0 - off) z1 zm off.
Proof.
  rewrite baf_miss_0_1, baf_miss_1_0.
  rewrite (fwd_miss_0_1_at z0 (z1 - off)), (fwd_miss_1_0_at (z0 - off) z1).
  split; f_equal; f_equal; extensionality i; extensionality j; unfold fmul; rewrite !KER_phasor;
    rewrite (kernel_compose (ph _ i j) (ph_add _ i j)); f_equal; f_equal; ring.
Qed.
End T.
Print Assumptions traced_back_and_forth_is_net.
