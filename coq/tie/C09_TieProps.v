(* C09 tie, part B: the clauses of the property stated directly on the definitions traced from /repo on this run
   (no model function in the statements), for all real inputs; obtained from the tie lemmas of part A and
   the theorems of coq/theories/C09. *)
From Coq Require Import Floats.
From Coq Require Import Reals ZArith Lra Bool.
From OdakV Require Import Base.RealAux C09.Model C09.Lemmas.
From Run Require Import GenC09 C09_TieA.
Open Scope R_scope.

Lemma pair_eq (a b c d : R) : (a, b) = (c, d) -> a = c /\ b = d.
Proof. intros H. split; [exact (f_equal fst H) | exact (f_equal snd H)]. Qed.

(* rebuilding from the computed amplitude and phase returns the sample (all samples, 0 included) *)
Theorem traced_rebuild_numpy : forall zr zi,
  n_gcf_re (n_amp zr zi) (n_phase zr zi) = zr /\ n_gcf_im (n_amp zr zi) (n_phase zr zi) = zi.
Proof. intros. apply pair_eq. rewrite n_gcf_ok, n_amp_ok, n_phase_ok. apply rebuild. Qed.
Theorem traced_rebuild_torch : forall zr zi,
  t_gcf_re (t_amp zr zi) (t_phase zr zi) = zr /\ t_gcf_im (t_amp zr zi) (t_phase zr zi) = zi.
Proof. intros. apply pair_eq. rewrite t_gcf_ok, t_amp_ok, t_phase_ok. apply rebuild. Qed.

(* amplitude >= 0, phase in (-pi, pi] *)
Theorem traced_amp_nonneg : forall zr zi, 0 <= n_amp zr zi /\ 0 <= t_amp zr zi.
Proof. intros. rewrite n_amp_ok, t_amp_ok. split; apply amp_nonneg. Qed.
Theorem traced_phase_range : forall zr zi, - PI < n_phase zr zi <= PI /\ - PI < t_phase zr zi <= PI.
Proof. intros. rewrite n_phase_ok, t_phase_ok. split; apply arg_range. Qed.
Theorem traced_phase_deg : forall zr zi, n_phase_deg zr zi = n_phase zr zi * (180 / PI) /\ t_phase_deg zr zi = t_phase zr zi * (180 / PI).
Proof. intros. rewrite n_phase_deg_ok, t_phase_deg_ok, n_phase_ok, t_phase_ok. split; reflexivity. Qed.
(* amplitude a > 0 and phase p in (-pi, pi] are read back *)
Theorem traced_readback : forall a p, 0 < a -> - PI < p <= PI ->
  n_amp (n_gcf_re a p) (n_gcf_im a p) = a /\ n_phase (n_gcf_re a p) (n_gcf_im a p) = p /\
  t_amp (t_gcf_re a p) (t_gcf_im a p) = a /\ t_phase (t_gcf_re a p) (t_gcf_im a p) = p.
Proof.
  intros a p Ha Hp. rewrite n_amp_ok, n_phase_ok, t_amp_ok, t_phase_ok, n_gcf_ok, t_gcf_ok.
  rewrite amp_gcf, arg_gcf by assumption. rewrite Rabs_pos_eq by lra. repeat split; reflexivity.
Qed.

(* set_amplitude keeps the phase (|z| new = |a| z) and installs the amplitude |a| *)
Theorem traced_setamp_numpy : forall zr zi ar ai,
  n_amp zr zi * n_setamp_re zr zi ar ai = n_amp ar ai * zr /\
  n_amp zr zi * n_setamp_im zr zi ar ai = n_amp ar ai * zi /\
  n_amp (n_setamp_re zr zi ar ai) (n_setamp_im zr zi ar ai) = n_amp ar ai /\
  (0 < n_amp ar ai -> n_phase (n_setamp_re zr zi ar ai) (n_setamp_im zr zi ar ai) = n_phase zr zi).
Proof.
  intros. rewrite !n_amp_ok, !n_phase_ok, n_setamp_ok.
  pose proof (set_amp_keeps_phase (zr, zi) (ar, ai)) as H. unfold Cscale in H. apply pair_eq in H. destruct H as [H1 H2].
  pose proof (pair_eq _ _ _ _ (n_setamp_ok zr zi ar ai)) as [E1 E2]. rewrite E1, E2.
  repeat split; [exact H1 | exact H2 | apply set_amp_amp | apply set_amp_arg].
Qed.
Theorem traced_setamp_torch : forall zr zi ar ai,
  t_amp zr zi * t_setamp_re zr zi ar ai = t_amp ar ai * zr /\
  t_amp zr zi * t_setamp_im zr zi ar ai = t_amp ar ai * zi /\
  t_amp (t_setamp_re zr zi ar ai) (t_setamp_im zr zi ar ai) = t_amp ar ai /\
  (0 < t_amp ar ai -> t_phase (t_setamp_re zr zi ar ai) (t_setamp_im zr zi ar ai) = t_phase zr zi).
Proof.
  intros. rewrite !t_amp_ok, !t_phase_ok, t_setamp_ok.
  pose proof (set_amp_keeps_phase (zr, zi) (ar, ai)) as H. unfold Cscale in H. apply pair_eq in H. destruct H as [H1 H2].
  pose proof (pair_eq _ _ _ _ (t_setamp_ok zr zi ar ai)) as [E1 E2]. rewrite E1, E2.
  repeat split; [exact H1 | exact H2 | apply set_amp_amp | apply set_amp_arg].
Qed.

(* add_phase keeps the amplitude and multiplies by e^{iq} *)
Theorem traced_addphase : forall zr zi q,
  n_amp (n_addphase_re zr zi q) (n_addphase_im zr zi q) = n_amp zr zi /\
  n_addphase_re zr zi q = zr * cos q - zi * sin q /\ n_addphase_im zr zi q = zr * sin q + zi * cos q.
Proof.
  intros. rewrite !n_amp_ok, n_addphase_ok. split; [apply add_phase_amp|].
  apply pair_eq. rewrite n_addphase_ok, add_phase_rotates. reflexivity.
Qed.

(* phase-only SLM pattern: unit amplitude (|A| with illumination), integer level in [0, 2^bits) *)
Theorem traced_slm_unit : forall zr zi r bits A, 0 < r ->
  n_amp (n_slm_re zr zi r (INR bits)) (n_slm_im zr zi r (INR bits)) = 1 /\
  n_amp (n_slm_ill_re zr zi r (INR bits) A) (n_slm_ill_im zr zi r (INR bits) A) = Rabs A.
Proof.
  intros zr zi r bits A Hr. rewrite !n_amp_ok, n_slm_ok, n_slm_ill_ok by exact Hr. rewrite !slm_unit.
  split; [apply Rabs_pos_eq; lra | reflexivity].
Qed.
Theorem traced_slm_level_range : forall zr zi r bits, 0 < r ->
  exists n : Z, n_slm_level zr zi r (INR bits) = IZR n /\ n_slm_ill_level zr zi r (INR bits) = IZR n /\
                (0 <= n < 2 ^ Z.of_nat bits)%Z.
Proof.
  intros zr zi r bits Hr. rewrite n_slm_level_ok, n_slm_ill_level_ok by exact Hr. rewrite Rpower_pow by lra.
  destruct (slm_level_range (arg (zr, zi)) r bits Hr) as [n [H1 H2]]. exists n. repeat split; try exact H1; apply H2.
Qed.
(* the displayed phase is level * r / 2^bits, less than one level below the sample's phase modulo r *)
Theorem traced_slm_phase : forall zr zi r bits, 0 < r ->
  let ph := n_slm_level zr zi r (INR bits) * (r / 2 ^ bits) in
  n_slm_re zr zi r (INR bits) = cos ph /\ n_slm_im zr zi r (INR bits) = sin ph /\
  0 <= Rfmod (n_phase zr zi) r - ph < r / 2 ^ bits.
Proof.
  intros zr zi r bits Hr ph. unfold ph. rewrite n_slm_level_ok, n_phase_ok by exact Hr.
  pose proof (pair_eq _ _ _ _ (n_slm_ok zr zi r (INR bits) Hr)) as [E1 E2]. rewrite E1, E2.
  rewrite Rpower_pow by lra. unfold slm_pattern. cbn [fst snd]. rewrite !Rmult_1_l.
  repeat split; try reflexivity; apply (slm_phase_error (arg (zr, zi)) r bits Hr).
Qed.

(* torch quantize: [lo, hi) -> integer levels in [0, 2^bits) *)
Theorem traced_quant_range : forall x lo hi bits, lo < hi -> lo <= x < hi ->
  exists n : Z, t_quant x lo hi (INR bits) = IZR n /\ (0 <= n < 2 ^ Z.of_nat bits)%Z.
Proof. intros x lo hi bits Hl Hx. rewrite t_quant_ok by exact Hl. rewrite Rpower_pow by lra. apply quantize_range; assumption. Qed.

(* NumPy and PyTorch versions are the same functions; the PyTorch SLM mapping quantize(phase mod r, bits, [0, r])
   gives the NumPy levels *)
Theorem traced_apis_agree : forall zr zi ar ai a p,
  n_phase zr zi = t_phase zr zi /\ n_phase_deg zr zi = t_phase_deg zr zi /\ n_amp zr zi = t_amp zr zi /\
  (n_gcf_re a p, n_gcf_im a p) = (t_gcf_re a p, t_gcf_im a p) /\
  (n_setamp_re zr zi ar ai, n_setamp_im zr zi ar ai) = (t_setamp_re zr zi ar ai, t_setamp_im zr zi ar ai).
Proof.
  intros. rewrite n_phase_ok, t_phase_ok, n_phase_deg_ok, t_phase_deg_ok, n_amp_ok, t_amp_ok, n_gcf_ok, t_gcf_ok, n_setamp_ok, t_setamp_ok.
  repeat split; reflexivity.
Qed.
Theorem traced_slm_apis_agree : forall zr zi r b, 0 < r ->
  t_quant (Rfmod (t_phase zr zi) r) 0 r b = n_slm_level zr zi r b.
Proof.
  intros zr zi r b Hr. rewrite t_quant_ok by exact Hr. rewrite n_slm_level_ok by exact Hr. rewrite t_phase_ok.
  apply (torch_slm_eq (arg (zr, zi)) r (Rpower 2 b) Hr).
Qed.

Print Assumptions traced_rebuild_numpy.
Print Assumptions traced_readback.
Print Assumptions traced_slm_level_range.
Print Assumptions traced_slm_apis_agree.
