(* C10 tie, part G1 (PyTorch batch: triangle 1 against both rays; every entry is the single-pair model of ITS triangle and ITS ray): the definitions traced from /repo on this run equal the reference model
   (coq/theories/C10/Model.v) for ALL real inputs, under the property's own guards only (non-zero triangle
   area; ray not parallel to the plane).  Compiled on every run against Run.GenC10. *)
From Coq Require Import Reals Lra Bool.
From OdakV Require Import Base.RealAux Base.Vec3 C10.Model C10.Lemmas.
From Run Require Import GenC10.
Open Scope R_scope.

Ltac v3' := repeat progress (unfold vdot, vcross, vadd, vsub, vscale, vx, vy, vz in *; cbn [fst snd] in *).
Ltac open_model := repeat progress (unfold tri_normal, tri_raw_normal, centroid, plane_dist, hit_point, bary_u, bary_v in *); v3'.
(* unfold the model down to coordinates but keep the norm |raw| of the triangle at hand as ONE atom N; every sqrt in
   the traced term must be that same norm (checked by ring on its argument) *)
Ltac open_with Hn :=
  open_model;
  match type of Hn with 0 < ?n =>
    let N := fresh "N" in
    set (N := n) in *;
    repeat match goal with |- context [sqrt ?a] =>
      replace (sqrt a) with N by (subst N; unfold vnorm, vnorm2; f_equal; v3'; ring) end;
    clearbody N
  end.
Ltac fin := field; repeat split; first [assumption | lra].
(* boolean hit flag: compare as propositions; every comparison atom of the traced flag is identified with the
   model's barycentric coordinate it equals (field decides which), whatever the order of the conjuncts *)
Ltac not_bary X := lazymatch X with bary_u _ _ _ _ => fail | bary_v _ _ _ _ => fail | _ => idtac end.
Ltac flag_tie t0 t1 t2 pt eqtac :=
  apply eq_true_iff_eq; unfold inside_flag; rewrite !andb_true_iff, !Rleb_true, !Rltb_true;
  repeat match goal with
  | |- context [Rle 0 ?X] => not_bary X;
      first [ replace X with (bary_u t0 t1 t2 pt) by eqtac | replace X with (bary_v t0 t1 t2 pt) by eqtac ]
  end;
  split; intros; repeat split; lra.


Section Multi.
Variables t_0_0_0 t_0_0_1 t_0_0_2 t_0_1_0 t_0_1_1 t_0_1_2 t_0_2_0 t_0_2_1 t_0_2_2 t_1_0_0 t_1_0_1 t_1_0_2 t_1_1_0 t_1_1_1 t_1_1_2 t_1_2_0 t_1_2_1 t_1_2_2 : R.
Variables r_0_0_0 r_0_0_1 r_0_0_2 r_0_1_0 r_0_1_1 r_0_1_2 r_1_0_0 r_1_0_1 r_1_0_2 r_1_1_0 r_1_1_1 r_1_1_2 : R.
Let t0_0 : V3 := (t_0_0_0, t_0_0_1, t_0_0_2).
Let t0_1 : V3 := (t_0_1_0, t_0_1_1, t_0_1_2).
Let t0_2 : V3 := (t_0_2_0, t_0_2_1, t_0_2_2).
Let raw0 := tri_raw_normal t0_0 t0_1 t0_2.
Hypothesis nondeg0 : raw0 <> vzero.
Lemma norm_pos0 : 0 < vnorm raw0.
Proof. apply vnorm_pos, vnorm2_pos, nondeg0. Qed.
Lemma gram_open0 : 0 < vdot (vsub t0_2 t0_0) (vsub t0_2 t0_0) * vdot (vsub t0_1 t0_0) (vsub t0_1 t0_0) - vdot (vsub t0_2 t0_0) (vsub t0_1 t0_0) * vdot (vsub t0_2 t0_0) (vsub t0_1 t0_0).
Proof. pose proof (vnorm2_pos _ nondeg0) as G. unfold raw0 in G. rewrite <- gram_is_area in G. exact G. Qed.
Let t1_0 : V3 := (t_1_0_0, t_1_0_1, t_1_0_2).
Let t1_1 : V3 := (t_1_1_0, t_1_1_1, t_1_1_2).
Let t1_2 : V3 := (t_1_2_0, t_1_2_1, t_1_2_2).
Let raw1 := tri_raw_normal t1_0 t1_1 t1_2.
Hypothesis nondeg1 : raw1 <> vzero.
Lemma norm_pos1 : 0 < vnorm raw1.
Proof. apply vnorm_pos, vnorm2_pos, nondeg1. Qed.
Lemma gram_open1 : 0 < vdot (vsub t1_2 t1_0) (vsub t1_2 t1_0) * vdot (vsub t1_1 t1_0) (vsub t1_1 t1_0) - vdot (vsub t1_2 t1_0) (vsub t1_1 t1_0) * vdot (vsub t1_2 t1_0) (vsub t1_1 t1_0).
Proof. pose proof (vnorm2_pos _ nondeg1) as G. unfold raw1 in G. rewrite <- gram_is_area in G. exact G. Qed.
Let o0 : V3 := (r_0_0_0, r_0_0_1, r_0_0_2).
Let d0 : V3 := (r_0_1_0, r_0_1_1, r_0_1_2).
Let o1 : V3 := (r_1_0_0, r_1_0_1, r_1_0_2).
Let d1 : V3 := (r_1_1_0, r_1_1_1, r_1_1_2).

Hypothesis notpar_1_0 : vdot raw1 d0 <> 0.
Lemma tb_dist_1_0_ok : tb_dist_1_0 t_0_0_0 t_0_0_1 t_0_0_2 t_0_1_0 t_0_1_1 t_0_1_2 t_0_2_0 t_0_2_1 t_0_2_2 t_1_0_0 t_1_0_1 t_1_0_2 t_1_1_0 t_1_1_1 t_1_1_2 t_1_2_0 t_1_2_1 t_1_2_2 r_0_0_0 r_0_0_1 r_0_0_2 r_0_1_0 r_0_1_1 r_0_1_2 r_1_0_0 r_1_0_1 r_1_0_2 r_1_1_0 r_1_1_1 r_1_1_2 = plane_dist (tri_normal t1_0 t1_1 t1_2) (centroid t1_0 t1_1 t1_2) o0 d0.
Proof. unfold tb_dist_1_0. pose proof norm_pos1 as Hn; unfold raw1, t1_0, t1_1, t1_2, o0, d0 in *; open_with Hn. fin. Qed.
Lemma tb_hit_1_0_0_ok : tb_hit_1_0_0 t_0_0_0 t_0_0_1 t_0_0_2 t_0_1_0 t_0_1_1 t_0_1_2 t_0_2_0 t_0_2_1 t_0_2_2 t_1_0_0 t_1_0_1 t_1_0_2 t_1_1_0 t_1_1_1 t_1_1_2 t_1_2_0 t_1_2_1 t_1_2_2 r_0_0_0 r_0_0_1 r_0_0_2 r_0_1_0 r_0_1_1 r_0_1_2 r_1_0_0 r_1_0_1 r_1_0_2 r_1_1_0 r_1_1_1 r_1_1_2 = vx (hit_point (tri_normal t1_0 t1_1 t1_2) (centroid t1_0 t1_1 t1_2) o0 d0).
Proof. unfold tb_hit_1_0_0. pose proof norm_pos1 as Hn; unfold raw1, t1_0, t1_1, t1_2, o0, d0 in *; open_with Hn. fin. Qed.
Lemma tb_hitn_1_0_0_ok : tb_hitn_1_0_0 t_0_0_0 t_0_0_1 t_0_0_2 t_0_1_0 t_0_1_1 t_0_1_2 t_0_2_0 t_0_2_1 t_0_2_2 t_1_0_0 t_1_0_1 t_1_0_2 t_1_1_0 t_1_1_1 t_1_1_2 t_1_2_0 t_1_2_1 t_1_2_2 r_0_0_0 r_0_0_1 r_0_0_2 r_0_1_0 r_0_1_1 r_0_1_2 r_1_0_0 r_1_0_1 r_1_0_2 r_1_1_0 r_1_1_1 r_1_1_2 = vx (tri_normal t1_0 t1_1 t1_2).
Proof. unfold tb_hitn_1_0_0. pose proof norm_pos1 as Hn; unfold raw1, t1_0, t1_1, t1_2, o0, d0 in *; open_with Hn. fin. Qed.
Lemma tb_hit_1_0_1_ok : tb_hit_1_0_1 t_0_0_0 t_0_0_1 t_0_0_2 t_0_1_0 t_0_1_1 t_0_1_2 t_0_2_0 t_0_2_1 t_0_2_2 t_1_0_0 t_1_0_1 t_1_0_2 t_1_1_0 t_1_1_1 t_1_1_2 t_1_2_0 t_1_2_1 t_1_2_2 r_0_0_0 r_0_0_1 r_0_0_2 r_0_1_0 r_0_1_1 r_0_1_2 r_1_0_0 r_1_0_1 r_1_0_2 r_1_1_0 r_1_1_1 r_1_1_2 = vy (hit_point (tri_normal t1_0 t1_1 t1_2) (centroid t1_0 t1_1 t1_2) o0 d0).
Proof. unfold tb_hit_1_0_1. pose proof norm_pos1 as Hn; unfold raw1, t1_0, t1_1, t1_2, o0, d0 in *; open_with Hn. fin. Qed.
Lemma tb_hitn_1_0_1_ok : tb_hitn_1_0_1 t_0_0_0 t_0_0_1 t_0_0_2 t_0_1_0 t_0_1_1 t_0_1_2 t_0_2_0 t_0_2_1 t_0_2_2 t_1_0_0 t_1_0_1 t_1_0_2 t_1_1_0 t_1_1_1 t_1_1_2 t_1_2_0 t_1_2_1 t_1_2_2 r_0_0_0 r_0_0_1 r_0_0_2 r_0_1_0 r_0_1_1 r_0_1_2 r_1_0_0 r_1_0_1 r_1_0_2 r_1_1_0 r_1_1_1 r_1_1_2 = vy (tri_normal t1_0 t1_1 t1_2).
Proof. unfold tb_hitn_1_0_1. pose proof norm_pos1 as Hn; unfold raw1, t1_0, t1_1, t1_2, o0, d0 in *; open_with Hn. fin. Qed.
Lemma tb_hit_1_0_2_ok : tb_hit_1_0_2 t_0_0_0 t_0_0_1 t_0_0_2 t_0_1_0 t_0_1_1 t_0_1_2 t_0_2_0 t_0_2_1 t_0_2_2 t_1_0_0 t_1_0_1 t_1_0_2 t_1_1_0 t_1_1_1 t_1_1_2 t_1_2_0 t_1_2_1 t_1_2_2 r_0_0_0 r_0_0_1 r_0_0_2 r_0_1_0 r_0_1_1 r_0_1_2 r_1_0_0 r_1_0_1 r_1_0_2 r_1_1_0 r_1_1_1 r_1_1_2 = vz (hit_point (tri_normal t1_0 t1_1 t1_2) (centroid t1_0 t1_1 t1_2) o0 d0).
Proof. unfold tb_hit_1_0_2. pose proof norm_pos1 as Hn; unfold raw1, t1_0, t1_1, t1_2, o0, d0 in *; open_with Hn. fin. Qed.
Lemma tb_hitn_1_0_2_ok : tb_hitn_1_0_2 t_0_0_0 t_0_0_1 t_0_0_2 t_0_1_0 t_0_1_1 t_0_1_2 t_0_2_0 t_0_2_1 t_0_2_2 t_1_0_0 t_1_0_1 t_1_0_2 t_1_1_0 t_1_1_1 t_1_1_2 t_1_2_0 t_1_2_1 t_1_2_2 r_0_0_0 r_0_0_1 r_0_0_2 r_0_1_0 r_0_1_1 r_0_1_2 r_1_0_0 r_1_0_1 r_1_0_2 r_1_1_0 r_1_1_1 r_1_1_2 = vz (tri_normal t1_0 t1_1 t1_2).
Proof. unfold tb_hitn_1_0_2. pose proof norm_pos1 as Hn; unfold raw1, t1_0, t1_1, t1_2, o0, d0 in *; open_with Hn. fin. Qed.
Lemma tb_flag_1_0_is_function_of_hit : tb_flag_1_0 t_0_0_0 t_0_0_1 t_0_0_2 t_0_1_0 t_0_1_1 t_0_1_2 t_0_2_0 t_0_2_1 t_0_2_2 t_1_0_0 t_1_0_1 t_1_0_2 t_1_1_0 t_1_1_1 t_1_1_2 t_1_2_0 t_1_2_1 t_1_2_2 r_0_0_0 r_0_0_1 r_0_0_2 r_0_1_0 r_0_1_1 r_0_1_2 r_1_0_0 r_1_0_1 r_1_0_2 r_1_1_0 r_1_1_1 r_1_1_2 = tbf_flag_1_0 t_0_0_0 t_0_0_1 t_0_0_2 t_0_1_0 t_0_1_1 t_0_1_2 t_0_2_0 t_0_2_1 t_0_2_2 t_1_0_0 t_1_0_1 t_1_0_2 t_1_1_0 t_1_1_1 t_1_1_2 t_1_2_0 t_1_2_1 t_1_2_2 (tb_hit_0_0_0 t_0_0_0 t_0_0_1 t_0_0_2 t_0_1_0 t_0_1_1 t_0_1_2 t_0_2_0 t_0_2_1 t_0_2_2 t_1_0_0 t_1_0_1 t_1_0_2 t_1_1_0 t_1_1_1 t_1_1_2 t_1_2_0 t_1_2_1 t_1_2_2 r_0_0_0 r_0_0_1 r_0_0_2 r_0_1_0 r_0_1_1 r_0_1_2 r_1_0_0 r_1_0_1 r_1_0_2 r_1_1_0 r_1_1_1 r_1_1_2) (tb_hit_0_0_1 t_0_0_0 t_0_0_1 t_0_0_2 t_0_1_0 t_0_1_1 t_0_1_2 t_0_2_0 t_0_2_1 t_0_2_2 t_1_0_0 t_1_0_1 t_1_0_2 t_1_1_0 t_1_1_1 t_1_1_2 t_1_2_0 t_1_2_1 t_1_2_2 r_0_0_0 r_0_0_1 r_0_0_2 r_0_1_0 r_0_1_1 r_0_1_2 r_1_0_0 r_1_0_1 r_1_0_2 r_1_1_0 r_1_1_1 r_1_1_2) (tb_hit_0_0_2 t_0_0_0 t_0_0_1 t_0_0_2 t_0_1_0 t_0_1_1 t_0_1_2 t_0_2_0 t_0_2_1 t_0_2_2 t_1_0_0 t_1_0_1 t_1_0_2 t_1_1_0 t_1_1_1 t_1_1_2 t_1_2_0 t_1_2_1 t_1_2_2 r_0_0_0 r_0_0_1 r_0_0_2 r_0_1_0 r_0_1_1 r_0_1_2 r_1_0_0 r_1_0_1 r_1_0_2 r_1_1_0 r_1_1_1 r_1_1_2) (tb_hit_0_1_0 t_0_0_0 t_0_0_1 t_0_0_2 t_0_1_0 t_0_1_1 t_0_1_2 t_0_2_0 t_0_2_1 t_0_2_2 t_1_0_0 t_1_0_1 t_1_0_2 t_1_1_0 t_1_1_1 t_1_1_2 t_1_2_0 t_1_2_1 t_1_2_2 r_0_0_0 r_0_0_1 r_0_0_2 r_0_1_0 r_0_1_1 r_0_1_2 r_1_0_0 r_1_0_1 r_1_0_2 r_1_1_0 r_1_1_1 r_1_1_2) (tb_hit_0_1_1 t_0_0_0 t_0_0_1 t_0_0_2 t_0_1_0 t_0_1_1 t_0_1_2 t_0_2_0 t_0_2_1 t_0_2_2 t_1_0_0 t_1_0_1 t_1_0_2 t_1_1_0 t_1_1_1 t_1_1_2 t_1_2_0 t_1_2_1 t_1_2_2 r_0_0_0 r_0_0_1 r_0_0_2 r_0_1_0 r_0_1_1 r_0_1_2 r_1_0_0 r_1_0_1 r_1_0_2 r_1_1_0 r_1_1_1 r_1_1_2) (tb_hit_0_1_2 t_0_0_0 t_0_0_1 t_0_0_2 t_0_1_0 t_0_1_1 t_0_1_2 t_0_2_0 t_0_2_1 t_0_2_2 t_1_0_0 t_1_0_1 t_1_0_2 t_1_1_0 t_1_1_1 t_1_1_2 t_1_2_0 t_1_2_1 t_1_2_2 r_0_0_0 r_0_0_1 r_0_0_2 r_0_1_0 r_0_1_1 r_0_1_2 r_1_0_0 r_1_0_1 r_1_0_2 r_1_1_0 r_1_1_1 r_1_1_2) (tb_hit_1_0_0 t_0_0_0 t_0_0_1 t_0_0_2 t_0_1_0 t_0_1_1 t_0_1_2 t_0_2_0 t_0_2_1 t_0_2_2 t_1_0_0 t_1_0_1 t_1_0_2 t_1_1_0 t_1_1_1 t_1_1_2 t_1_2_0 t_1_2_1 t_1_2_2 r_0_0_0 r_0_0_1 r_0_0_2 r_0_1_0 r_0_1_1 r_0_1_2 r_1_0_0 r_1_0_1 r_1_0_2 r_1_1_0 r_1_1_1 r_1_1_2) (tb_hit_1_0_1 t_0_0_0 t_0_0_1 t_0_0_2 t_0_1_0 t_0_1_1 t_0_1_2 t_0_2_0 t_0_2_1 t_0_2_2 t_1_0_0 t_1_0_1 t_1_0_2 t_1_1_0 t_1_1_1 t_1_1_2 t_1_2_0 t_1_2_1 t_1_2_2 r_0_0_0 r_0_0_1 r_0_0_2 r_0_1_0 r_0_1_1 r_0_1_2 r_1_0_0 r_1_0_1 r_1_0_2 r_1_1_0 r_1_1_1 r_1_1_2) (tb_hit_1_0_2 t_0_0_0 t_0_0_1 t_0_0_2 t_0_1_0 t_0_1_1 t_0_1_2 t_0_2_0 t_0_2_1 t_0_2_2 t_1_0_0 t_1_0_1 t_1_0_2 t_1_1_0 t_1_1_1 t_1_1_2 t_1_2_0 t_1_2_1 t_1_2_2 r_0_0_0 r_0_0_1 r_0_0_2 r_0_1_0 r_0_1_1 r_0_1_2 r_1_0_0 r_1_0_1 r_1_0_2 r_1_1_0 r_1_1_1 r_1_1_2) (tb_hit_1_1_0 t_0_0_0 t_0_0_1 t_0_0_2 t_0_1_0 t_0_1_1 t_0_1_2 t_0_2_0 t_0_2_1 t_0_2_2 t_1_0_0 t_1_0_1 t_1_0_2 t_1_1_0 t_1_1_1 t_1_1_2 t_1_2_0 t_1_2_1 t_1_2_2 r_0_0_0 r_0_0_1 r_0_0_2 r_0_1_0 r_0_1_1 r_0_1_2 r_1_0_0 r_1_0_1 r_1_0_2 r_1_1_0 r_1_1_1 r_1_1_2) (tb_hit_1_1_1 t_0_0_0 t_0_0_1 t_0_0_2 t_0_1_0 t_0_1_1 t_0_1_2 t_0_2_0 t_0_2_1 t_0_2_2 t_1_0_0 t_1_0_1 t_1_0_2 t_1_1_0 t_1_1_1 t_1_1_2 t_1_2_0 t_1_2_1 t_1_2_2 r_0_0_0 r_0_0_1 r_0_0_2 r_0_1_0 r_0_1_1 r_0_1_2 r_1_0_0 r_1_0_1 r_1_0_2 r_1_1_0 r_1_1_1 r_1_1_2) (tb_hit_1_1_2 t_0_0_0 t_0_0_1 t_0_0_2 t_0_1_0 t_0_1_1 t_0_1_2 t_0_2_0 t_0_2_1 t_0_2_2 t_1_0_0 t_1_0_1 t_1_0_2 t_1_1_0 t_1_1_1 t_1_1_2 t_1_2_0 t_1_2_1 t_1_2_2 r_0_0_0 r_0_0_1 r_0_0_2 r_0_1_0 r_0_1_1 r_0_1_2 r_1_0_0 r_1_0_1 r_1_0_2 r_1_1_0 r_1_1_1 r_1_1_2).
Proof. reflexivity. Qed.
Hypothesis notpar_1_1 : vdot raw1 d1 <> 0.
Lemma tb_dist_1_1_ok : tb_dist_1_1 t_0_0_0 t_0_0_1 t_0_0_2 t_0_1_0 t_0_1_1 t_0_1_2 t_0_2_0 t_0_2_1 t_0_2_2 t_1_0_0 t_1_0_1 t_1_0_2 t_1_1_0 t_1_1_1 t_1_1_2 t_1_2_0 t_1_2_1 t_1_2_2 r_0_0_0 r_0_0_1 r_0_0_2 r_0_1_0 r_0_1_1 r_0_1_2 r_1_0_0 r_1_0_1 r_1_0_2 r_1_1_0 r_1_1_1 r_1_1_2 = plane_dist (tri_normal t1_0 t1_1 t1_2) (centroid t1_0 t1_1 t1_2) o1 d1.
Proof. unfold tb_dist_1_1. pose proof norm_pos1 as Hn; unfold raw1, t1_0, t1_1, t1_2, o1, d1 in *; open_with Hn. fin. Qed.
Lemma tb_hit_1_1_0_ok : tb_hit_1_1_0 t_0_0_0 t_0_0_1 t_0_0_2 t_0_1_0 t_0_1_1 t_0_1_2 t_0_2_0 t_0_2_1 t_0_2_2 t_1_0_0 t_1_0_1 t_1_0_2 t_1_1_0 t_1_1_1 t_1_1_2 t_1_2_0 t_1_2_1 t_1_2_2 r_0_0_0 r_0_0_1 r_0_0_2 r_0_1_0 r_0_1_1 r_0_1_2 r_1_0_0 r_1_0_1 r_1_0_2 r_1_1_0 r_1_1_1 r_1_1_2 = vx (hit_point (tri_normal t1_0 t1_1 t1_2) (centroid t1_0 t1_1 t1_2) o1 d1).
Proof. unfold tb_hit_1_1_0. pose proof norm_pos1 as Hn; unfold raw1, t1_0, t1_1, t1_2, o1, d1 in *; open_with Hn. fin. Qed.
Lemma tb_hitn_1_1_0_ok : tb_hitn_1_1_0 t_0_0_0 t_0_0_1 t_0_0_2 t_0_1_0 t_0_1_1 t_0_1_2 t_0_2_0 t_0_2_1 t_0_2_2 t_1_0_0 t_1_0_1 t_1_0_2 t_1_1_0 t_1_1_1 t_1_1_2 t_1_2_0 t_1_2_1 t_1_2_2 r_0_0_0 r_0_0_1 r_0_0_2 r_0_1_0 r_0_1_1 r_0_1_2 r_1_0_0 r_1_0_1 r_1_0_2 r_1_1_0 r_1_1_1 r_1_1_2 = vx (tri_normal t1_0 t1_1 t1_2).
Proof. unfold tb_hitn_1_1_0. pose proof norm_pos1 as Hn; unfold raw1, t1_0, t1_1, t1_2, o1, d1 in *; open_with Hn. fin. Qed.
Lemma tb_hit_1_1_1_ok : tb_hit_1_1_1 t_0_0_0 t_0_0_1 t_0_0_2 t_0_1_0 t_0_1_1 t_0_1_2 t_0_2_0 t_0_2_1 t_0_2_2 t_1_0_0 t_1_0_1 t_1_0_2 t_1_1_0 t_1_1_1 t_1_1_2 t_1_2_0 t_1_2_1 t_1_2_2 r_0_0_0 r_0_0_1 r_0_0_2 r_0_1_0 r_0_1_1 r_0_1_2 r_1_0_0 r_1_0_1 r_1_0_2 r_1_1_0 r_1_1_1 r_1_1_2 = vy (hit_point (tri_normal t1_0 t1_1 t1_2) (centroid t1_0 t1_1 t1_2) o1 d1).
Proof. unfold tb_hit_1_1_1. pose proof norm_pos1 as Hn; unfold raw1, t1_0, t1_1, t1_2, o1, d1 in *; open_with Hn. fin. Qed.
Lemma tb_hitn_1_1_1_ok : tb_hitn_1_1_1 t_0_0_0 t_0_0_1 t_0_0_2 t_0_1_0 t_0_1_1 t_0_1_2 t_0_2_0 t_0_2_1 t_0_2_2 t_1_0_0 t_1_0_1 t_1_0_2 t_1_1_0 t_1_1_1 t_1_1_2 t_1_2_0 t_1_2_1 t_1_2_2 r_0_0_0 r_0_0_1 r_0_0_2 r_0_1_0 r_0_1_1 r_0_1_2 r_1_0_0 r_1_0_1 r_1_0_2 r_1_1_0 r_1_1_1 r_1_1_2 = vy (tri_normal t1_0 t1_1 t1_2).
Proof. unfold tb_hitn_1_1_1. pose proof norm_pos1 as Hn; unfold raw1, t1_0, t1_1, t1_2, o1, d1 in *; open_with Hn. fin. Qed.
Lemma tb_hit_1_1_2_ok : tb_hit_1_1_2 t_0_0_0 t_0_0_1 t_0_0_2 t_0_1_0 t_0_1_1 t_0_1_2 t_0_2_0 t_0_2_1 t_0_2_2 t_1_0_0 t_1_0_1 t_1_0_2 t_1_1_0 t_1_1_1 t_1_1_2 t_1_2_0 t_1_2_1 t_1_2_2 r_0_0_0 r_0_0_1 r_0_0_2 r_0_1_0 r_0_1_1 r_0_1_2 r_1_0_0 r_1_0_1 r_1_0_2 r_1_1_0 r_1_1_1 r_1_1_2 = vz (hit_point (tri_normal t1_0 t1_1 t1_2) (centroid t1_0 t1_1 t1_2) o1 d1).
Proof. unfold tb_hit_1_1_2. pose proof norm_pos1 as Hn; unfold raw1, t1_0, t1_1, t1_2, o1, d1 in *; open_with Hn. fin. Qed.
Lemma tb_hitn_1_1_2_ok : tb_hitn_1_1_2 t_0_0_0 t_0_0_1 t_0_0_2 t_0_1_0 t_0_1_1 t_0_1_2 t_0_2_0 t_0_2_1 t_0_2_2 t_1_0_0 t_1_0_1 t_1_0_2 t_1_1_0 t_1_1_1 t_1_1_2 t_1_2_0 t_1_2_1 t_1_2_2 r_0_0_0 r_0_0_1 r_0_0_2 r_0_1_0 r_0_1_1 r_0_1_2 r_1_0_0 r_1_0_1 r_1_0_2 r_1_1_0 r_1_1_1 r_1_1_2 = vz (tri_normal t1_0 t1_1 t1_2).
Proof. unfold tb_hitn_1_1_2. pose proof norm_pos1 as Hn; unfold raw1, t1_0, t1_1, t1_2, o1, d1 in *; open_with Hn. fin. Qed.
Lemma tb_flag_1_1_is_function_of_hit : tb_flag_1_1 t_0_0_0 t_0_0_1 t_0_0_2 t_0_1_0 t_0_1_1 t_0_1_2 t_0_2_0 t_0_2_1 t_0_2_2 t_1_0_0 t_1_0_1 t_1_0_2 t_1_1_0 t_1_1_1 t_1_1_2 t_1_2_0 t_1_2_1 t_1_2_2 r_0_0_0 r_0_0_1 r_0_0_2 r_0_1_0 r_0_1_1 r_0_1_2 r_1_0_0 r_1_0_1 r_1_0_2 r_1_1_0 r_1_1_1 r_1_1_2 = tbf_flag_1_1 t_0_0_0 t_0_0_1 t_0_0_2 t_0_1_0 t_0_1_1 t_0_1_2 t_0_2_0 t_0_2_1 t_0_2_2 t_1_0_0 t_1_0_1 t_1_0_2 t_1_1_0 t_1_1_1 t_1_1_2 t_1_2_0 t_1_2_1 t_1_2_2 (tb_hit_0_0_0 t_0_0_0 t_0_0_1 t_0_0_2 t_0_1_0 t_0_1_1 t_0_1_2 t_0_2_0 t_0_2_1 t_0_2_2 t_1_0_0 t_1_0_1 t_1_0_2 t_1_1_0 t_1_1_1 t_1_1_2 t_1_2_0 t_1_2_1 t_1_2_2 r_0_0_0 r_0_0_1 r_0_0_2 r_0_1_0 r_0_1_1 r_0_1_2 r_1_0_0 r_1_0_1 r_1_0_2 r_1_1_0 r_1_1_1 r_1_1_2) (tb_hit_0_0_1 t_0_0_0 t_0_0_1 t_0_0_2 t_0_1_0 t_0_1_1 t_0_1_2 t_0_2_0 t_0_2_1 t_0_2_2 t_1_0_0 t_1_0_1 t_1_0_2 t_1_1_0 t_1_1_1 t_1_1_2 t_1_2_0 t_1_2_1 t_1_2_2 r_0_0_0 r_0_0_1 r_0_0_2 r_0_1_0 r_0_1_1 r_0_1_2 r_1_0_0 r_1_0_1 r_1_0_2 r_1_1_0 r_1_1_1 r_1_1_2) (tb_hit_0_0_2 t_0_0_0 t_0_0_1 t_0_0_2 t_0_1_0 t_0_1_1 t_0_1_2 t_0_2_0 t_0_2_1 t_0_2_2 t_1_0_0 t_1_0_1 t_1_0_2 t_1_1_0 t_1_1_1 t_1_1_2 t_1_2_0 t_1_2_1 t_1_2_2 r_0_0_0 r_0_0_1 r_0_0_2 r_0_1_0 r_0_1_1 r_0_1_2 r_1_0_0 r_1_0_1 r_1_0_2 r_1_1_0 r_1_1_1 r_1_1_2) (tb_hit_0_1_0 t_0_0_0 t_0_0_1 t_0_0_2 t_0_1_0 t_0_1_1 t_0_1_2 t_0_2_0 t_0_2_1 t_0_2_2 t_1_0_0 t_1_0_1 t_1_0_2 t_1_1_0 t_1_1_1 t_1_1_2 t_1_2_0 t_1_2_1 t_1_2_2 r_0_0_0 r_0_0_1 r_0_0_2 r_0_1_0 r_0_1_1 r_0_1_2 r_1_0_0 r_1_0_1 r_1_0_2 r_1_1_0 r_1_1_1 r_1_1_2) (tb_hit_0_1_1 t_0_0_0 t_0_0_1 t_0_0_2 t_0_1_0 t_0_1_1 t_0_1_2 t_0_2_0 t_0_2_1 t_0_2_2 t_1_0_0 t_1_0_1 t_1_0_2 t_1_1_0 t_1_1_1 t_1_1_2 t_1_2_0 t_1_2_1 t_1_2_2 r_0_0_0 r_0_0_1 r_0_0_2 r_0_1_0 r_0_1_1 r_0_1_2 r_1_0_0 r_1_0_1 r_1_0_2 r_1_1_0 r_1_1_1 r_1_1_2) (tb_hit_0_1_2 t_0_0_0 t_0_0_1 t_0_0_2 t_0_1_0 t_0_1_1 t_0_1_2 t_0_2_0 t_0_2_1 t_0_2_2 t_1_0_0 t_1_0_1 t_1_0_2 t_1_1_0 t_1_1_1 t_1_1_2 t_1_2_0 t_1_2_1 t_1_2_2 r_0_0_0 r_0_0_1 r_0_0_2 r_0_1_0 r_0_1_1 r_0_1_2 r_1_0_0 r_1_0_1 r_1_0_2 r_1_1_0 r_1_1_1 r_1_1_2) (tb_hit_1_0_0 t_0_0_0 t_0_0_1 t_0_0_2 t_0_1_0 t_0_1_1 t_0_1_2 t_0_2_0 t_0_2_1 t_0_2_2 t_1_0_0 t_1_0_1 t_1_0_2 t_1_1_0 t_1_1_1 t_1_1_2 t_1_2_0 t_1_2_1 t_1_2_2 r_0_0_0 r_0_0_1 r_0_0_2 r_0_1_0 r_0_1_1 r_0_1_2 r_1_0_0 r_1_0_1 r_1_0_2 r_1_1_0 r_1_1_1 r_1_1_2) (tb_hit_1_0_1 t_0_0_0 t_0_0_1 t_0_0_2 t_0_1_0 t_0_1_1 t_0_1_2 t_0_2_0 t_0_2_1 t_0_2_2 t_1_0_0 t_1_0_1 t_1_0_2 t_1_1_0 t_1_1_1 t_1_1_2 t_1_2_0 t_1_2_1 t_1_2_2 r_0_0_0 r_0_0_1 r_0_0_2 r_0_1_0 r_0_1_1 r_0_1_2 r_1_0_0 r_1_0_1 r_1_0_2 r_1_1_0 r_1_1_1 r_1_1_2) (tb_hit_1_0_2 t_0_0_0 t_0_0_1 t_0_0_2 t_0_1_0 t_0_1_1 t_0_1_2 t_0_2_0 t_0_2_1 t_0_2_2 t_1_0_0 t_1_0_1 t_1_0_2 t_1_1_0 t_1_1_1 t_1_1_2 t_1_2_0 t_1_2_1 t_1_2_2 r_0_0_0 r_0_0_1 r_0_0_2 r_0_1_0 r_0_1_1 r_0_1_2 r_1_0_0 r_1_0_1 r_1_0_2 r_1_1_0 r_1_1_1 r_1_1_2) (tb_hit_1_1_0 t_0_0_0 t_0_0_1 t_0_0_2 t_0_1_0 t_0_1_1 t_0_1_2 t_0_2_0 t_0_2_1 t_0_2_2 t_1_0_0 t_1_0_1 t_1_0_2 t_1_1_0 t_1_1_1 t_1_1_2 t_1_2_0 t_1_2_1 t_1_2_2 r_0_0_0 r_0_0_1 r_0_0_2 r_0_1_0 r_0_1_1 r_0_1_2 r_1_0_0 r_1_0_1 r_1_0_2 r_1_1_0 r_1_1_1 r_1_1_2) (tb_hit_1_1_1 t_0_0_0 t_0_0_1 t_0_0_2 t_0_1_0 t_0_1_1 t_0_1_2 t_0_2_0 t_0_2_1 t_0_2_2 t_1_0_0 t_1_0_1 t_1_0_2 t_1_1_0 t_1_1_1 t_1_1_2 t_1_2_0 t_1_2_1 t_1_2_2 r_0_0_0 r_0_0_1 r_0_0_2 r_0_1_0 r_0_1_1 r_0_1_2 r_1_0_0 r_1_0_1 r_1_0_2 r_1_1_0 r_1_1_1 r_1_1_2) (tb_hit_1_1_2 t_0_0_0 t_0_0_1 t_0_0_2 t_0_1_0 t_0_1_1 t_0_1_2 t_0_2_0 t_0_2_1 t_0_2_2 t_1_0_0 t_1_0_1 t_1_0_2 t_1_1_0 t_1_1_1 t_1_1_2 t_1_2_0 t_1_2_1 t_1_2_2 r_0_0_0 r_0_0_1 r_0_0_2 r_0_1_0 r_0_1_1 r_0_1_2 r_1_0_0 r_1_0_1 r_1_0_2 r_1_1_0 r_1_1_1 r_1_1_2).
Proof. reflexivity. Qed.
End Multi.
