(* C11 — property theorems: reflection and refraction obey the law of reflection and Snell's law,
   for every incident direction and every surface normal of any non-zero length and either sign.
   The model (Model.v) is tied to the current /repo sources on every run by coq/tie/C11_Tie*.v. *)
From Coq Require Import Reals Bool.
From OdakV Require Import Base.RealAux Base.Vec3 C11.Model C11.Lemmas.
Open Scope R_scope.

(* ---- reflection: the mirror image of the incident direction about the unit normal n/|n| *)
Theorem C11_reflect_formula : forall d n, n <> vzero ->
  let u := vscale (/ vnorm n) n in reflect_dir d n = vsub d (vscale (2 * vdot d u) u).
Proof. exact reflect_formula. Qed.
Theorem C11_reflect_any_length_and_sign : forall k d n, k <> 0 -> n <> vzero -> reflect_dir d (vscale k n) = reflect_dir d n.
Proof. exact reflect_scale_invariant. Qed.
Theorem C11_reflect_len : forall d n, n <> vzero -> vnorm2 (reflect_dir d n) = vnorm2 d.
Proof. exact reflect_len. Qed.
(* equal angles: the normal component is negated, the tangential one kept *)
Theorem C11_reflect_angle : forall d n, n <> vzero -> cos_between (reflect_dir d n) n = - cos_between d n.
Proof. exact reflect_angle. Qed.
Theorem C11_reflect_tangent : forall d n, vcross (reflect_dir d n) n = vcross d n.
Proof. exact reflect_tangent_comp. Qed.
Theorem C11_reflect_coplanar : forall d n, vdot (reflect_dir d n) (vcross d n) = 0.
Proof. exact reflect_coplanar. Qed.
Theorem C11_reflect_involutive : forall d n, n <> vzero -> reflect_dir (reflect_dir d n) n = d.
Proof. exact reflect_involutive. Qed.
Theorem C11_reflect_origin : forall r nr, fst (reflect_ray r nr) = fst nr.
Proof. exact reflect_origin. Qed.
(* the unrepaired PyTorch formula (n.n + 1e-8) did not have the property *)
Theorem C11_reflect_eps_refuted : exists d n, n <> vzero /\ vnorm2 (reflect_dir_eps (1/100000000) d n) <> vnorm2 d.
Proof. exact reflect_eps_refuted. Qed.

(* ---- refraction *)
(* exact root => unit length; any t => Snell's law in cross-product form and coplanarity *)
Theorem C11_refract_unit : forall mu d n t, vnorm2 d = 1 -> n <> vzero ->
  quad (rf_a mu d n) (rf_b mu n) t = 0 -> vnorm2 (refract_dir mu d n t) = 1.
Proof. exact refract_unit. Qed.
Theorem C11_snell_cross : forall mu d n t, vcross (refract_dir mu d n t) n = vscale mu (vcross d n).
Proof. exact snell_cross. Qed.
Theorem C11_snell_sines : forall n1 n2 d n out, 0 < n1 -> 0 < n2 -> n <> vzero -> vnorm2 d = 1 -> vnorm2 out = 1 ->
  vcross out n = vscale (n1 / n2) (vcross d n) -> n1 * sin_between d n = n2 * sin_between out n.
Proof. exact snell_sines_exact. Qed.
(* what the loop returns (any cap, any requested error): unit length within err^2, Snell exactly in
   cross-product form, coplanar, on the far side of the surface *)
Theorem C11_refract_sound : forall cap err mu d n out, vnorm2 d = 1 -> n <> vzero -> 0 < mu -> vdot d n <> 0 ->
  refract_dir_opt cap err mu d n = Some out ->
  0 <= vnorm2 out - 1 <= err * err /\ vcross out n = vscale mu (vcross d n) /\
  vdot out (vcross d n) = 0 /\ 0 < vdot d n * vdot out n.
Proof. exact refract_sound. Qed.
(* the same for any iterate at which the exit test holds (what each ray of a batch receives) *)
Theorem C11_refract_sound_any_exit : forall k err mu d n, vnorm2 d = 1 -> n <> vzero -> 0 < mu -> vdot d n <> 0 ->
  let a := rf_a mu d n in let b := rf_b mu n in
  b <= a * a -> step_size (vnorm n) a b (newton_iter k a b (rf_t0 a b)) <= err ->
  let out := refract_dir mu d n (newton_iter (S k) a b (rf_t0 a b)) in
  0 <= vnorm2 out - 1 <= err * err /\ vcross out n = vscale mu (vcross d n) /\
  vdot out (vcross d n) = 0 /\ 0 < vdot d n * vdot out n.
Proof. exact refract_sound_iter. Qed.
(* n1 sin(t1) = n2 sin(t2) within the requested tolerance *)
Theorem C11_snell_sines_tolerance : forall n1 n2 d n out e, 0 < n1 -> 0 < n2 -> n <> vzero -> vnorm2 d = 1 ->
  0 <= vnorm2 out - 1 <= e -> vcross out n = vscale (n1 / n2) (vcross d n) ->
  0 <= n1 * sin_between d n - n2 * sin_between out n <= n1 * sin_between d n * e.
Proof. exact snell_sines_tol. Qed.
(* root selection: Newton from -b/2a converges (at least halving) to -a + sgn(a) sqrt(a^2-b) *)
Theorem C11_newton_selects : forall a b, a <> 0 -> b <= a * a -> forall k,
  Rabs (newton_iter k a b (rf_t0 a b) - root_sel a b) <= Rabs (rf_t0 a b - root_sel a b) / 2 ^ k.
Proof. exact newton_selects. Qed.
Theorem C11_selected_root_is_root : forall a b, a <> 0 -> b <= a * a -> quad a b (root_sel a b) = 0.
Proof. exact root_is_root. Qed.
(* every index pair with a transmitted solution is refracted (for some cap), TIR never is *)
Theorem C11_refract_transmits : forall err mu d n, n <> vzero -> 0 < mu -> vdot d n <> 0 -> 0 < err ->
  rf_b mu n <= rf_a mu d n * rf_a mu d n -> exists cap out, refract_dir_opt cap err mu d n = Some out.
Proof. exact refract_transmits. Qed.
Theorem C11_tir_iff_sines : forall mu d n, vnorm2 d = 1 -> n <> vzero ->
  (rf_a mu d n * rf_a mu d n < rf_b mu n <-> 1 < mu * mu * (vnorm2 (vcross d n) / vnorm2 n)).
Proof. exact tir_iff_sines. Qed.
Theorem C11_refract_same_index : forall cap err d n, n <> vzero -> vdot d n <> 0 -> 0 <= err -> refract_dir_opt (S cap) err 1 d n = Some d.
Proof. exact refract_same_index. Qed.
Theorem C11_refract_any_length_and_sign : forall k, k <> 0 -> forall cap err mu d n, n <> vzero -> 0 < mu -> vdot d n <> 0 ->
  refract_dir_opt cap err mu d (vscale k n) = refract_dir_opt cap err mu d n.
Proof. exact refract_scale_invariant. Qed.
Theorem C11_refract_origin : forall cap err mu r nr, fst (refract_ray cap err mu r nr) = fst nr.
Proof. exact refract_origin. Qed.
(* the unrepaired exit test (|t - t'| without |n|) let the loop leave with |out|^2 - 1 > err^2 *)
Theorem C11_exit_unscaled_refuted : exists mu d n err,
  vnorm2 d = 1 /\ n <> vzero /\ 0 < mu /\ rf_b mu n <= rf_a mu d n * rf_a mu d n /\
  exit_unscaled (rf_a mu d n) (rf_b mu n) err (rf_t0 (rf_a mu d n) (rf_b mu n)) /\
  err * err < vnorm2 (refract_dir mu d n (newton_step (rf_a mu d n) (rf_b mu n) (rf_t0 (rf_a mu d n) (rf_b mu n)))) - 1.
Proof. exact exit_unscaled_refuted. Qed.

(* non-vacuity: air -> glass at 3-4-5 incidence on a normal of length 2 pointing against the ray meets every
   hypothesis of C11_refract_sound / C11_refract_transmits *)
Example C11_instance : let d := (3/5, 0, -4/5) in let n := (0, 0, 2) in let mu := 2/3 in
  vnorm2 d = 1 /\ n <> vzero /\ 0 < mu /\ vdot d n <> 0 /\ rf_b mu n <= rf_a mu d n * rf_a mu d n.
Proof.
  cbv zeta.
  assert (Ea : rf_a (2/3) (3/5, 0, -4/5) (0, 0, 2) = - 4 / 15) by (unfold rf_a; v3; field).
  assert (Eb : rf_b (2/3) (0, 0, 2) = - 5 / 36) by (unfold rf_b; v3; field).
  rewrite Ea, Eb. unfold vzero. v3.
  split; [Lra.lra|]. split; [intros E; inversion E; Lra.lra|]. split; [Lra.lra|]. split; Lra.lra.
Qed.
