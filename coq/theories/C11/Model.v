(* C11 — reflection and refraction (odak/learn/raytracing/boundary.py: reflect, refract;
   odak/raytracing/boundary.py: reflect).  Definitions only.

   A ray is (origin, direction cosines); a surface normal is a ray whose origin is the hit point and
   whose direction is the normal vector n (ANY non-zero length, either sign).

   reflect   out = d - 2 (d.n / n.n) n
   refract   Spencer-Murty:  out = mu d + t n,  mu = n1/n2,  t the root of
             t^2 + 2 a t + b = 0   (a = mu (d.n)/(n.n),  b = (mu^2 - 1)/(n.n))
             found by Newton's iteration from t0 = -b/(2a); the loop leaves when the last step,
             measured along the refracted direction (|t - t'| |n|), is not above `err`, or after
             `cap` iterations; total internal reflection (a^2 < b) and unconverged rays give NaN
             direction cosines (None here).
   The model is the REPAIRED code (fix-c11); what the unrepaired code computed instead is kept
   as `reflect_dir_eps` (+1e-8 in n.n) and `exit_unscaled` (|t - t'| without |n|), both refuted in
   Lemmas.v. *)
From Coq Require Import Reals Bool.
From OdakV Require Import Base.RealAux Base.Vec3.
Open Scope R_scope.

Definition Ray := (V3 * V3)%type.

(* ------------------------------------------------------------------ reflection *)
Definition reflect_coef (d n : V3) : R := vdot d n / vnorm2 n.
Definition reflect_dir (d n : V3) : V3 := vsub d (vscale (2 * reflect_coef d n) n).
Definition reflect_ray (r nr : Ray) : Ray := (fst nr, reflect_dir (snd r) (snd nr)).
(* the unrepaired PyTorch version *)
Definition reflect_dir_eps (e : R) (d n : V3) : V3 := vsub d (vscale (2 * (vdot d n / (vnorm2 n + e))) n).

(* cosine and sine of the angle between two vectors *)
Definition cos_between (u v : V3) : R := vdot u v / (vnorm u * vnorm v).
Definition sin_between (u v : V3) : R := vnorm (vcross u v) / (vnorm u * vnorm v).

(* ------------------------------------------------------------------ refraction *)
Definition rf_a (mu : R) (d n : V3) : R := mu * vdot d n / vnorm2 n.
Definition rf_b (mu : R) (n : V3) : R := (mu * mu - 1) / vnorm2 n.
Definition rf_t0 (a b : R) : R := - b * / 2 / a.
Definition quad (a b t : R) : R := t * t + 2 * a * t + b.
Definition newton_step (a b t : R) : R := t - quad a b t / (2 * (t + a)).
Fixpoint newton_iter (k : nat) (a b t : R) : R :=
  match k with O => t | S k' => newton_step a b (newton_iter k' a b t) end.
(* `eps` of the loop: the size of the step t -> t', along the refracted direction (w = |n|) *)
Definition step_size (w a b t : R) : R := Rabs (t - newton_step a b t) * w.
Definition tir (a b : R) : bool := Rltb (a * a) b.
(* the selected root: on the side of the vertex -a where the iteration starts *)
Definition root_sel (a b : R) : R := - a + (if Rlt_dec 0 a then 1 else -1) * sqrt (a * a - b).

(* the loop of one ray: `while eps > err and num < cap` entered with eps = +inf *)
Fixpoint newton_loop (fuel : nat) (w a b err t : R) : option R :=
  match fuel with
  | O => None
  | S f => if Rltb err (step_size w a b t)
           then newton_loop f w a b err (newton_step a b t)
           else Some (newton_step a b t)
  end.
Definition refract_t (cap : nat) (w a b err : R) : option R :=
  if tir a b then None else newton_loop cap w a b err (rf_t0 a b).

Definition refract_dir (mu : R) (d n : V3) (t : R) : V3 := vadd (vscale mu d) (vscale t n).
Definition refract_dir_opt (cap : nat) (err mu : R) (d n : V3) : option V3 :=
  option_map (refract_dir mu d n) (refract_t cap (vnorm n) (rf_a mu d n) (rf_b mu n) err).
(* outgoing ray: starts at the hit point (origin of the normal) *)
Definition refract_ray (cap : nat) (err mu : R) (r nr : Ray) : V3 * option V3 :=
  (fst nr, refract_dir_opt cap err mu (snd r) (snd nr)).

(* exit test of the unrepaired loop: the step in t itself, whatever the length of n *)
Definition exit_unscaled (a b err t : R) : Prop := Rabs (t - newton_step a b t) <= err.
