(* C11 — proofs.  Reflection: mirror formula, length, angles, coplanarity, involution, independence of the
   normal's length and sign.  Refraction (Spencer-Murty + Newton): |out|^2 = 1 + |n|^2 f(t) for EVERY t,
   the Newton residual identity f(t') = (t'-t)^2 (so the loop's exit test bounds the error), Snell's law
   in cross-product and sine form, root selection (the iteration never crosses the vertex; convergence
   to -a + sgn(a) sqrt(a^2-b), at least halving), far side, equal indices, scale invariance, existence. *)
From Coq Require Import Reals Lra Psatz Bool Lia.
From OdakV Require Import Base.RealAux Base.Vec3 C11.Model.
Open Scope R_scope.

Ltac v3c := repeat progress (unfold reflect_ray, reflect_dir, reflect_dir_eps, reflect_coef, refract_dir, rf_a, rf_b, vnorm2, vdot, vcross, vadd, vsub, vscale, vx, vy, vz in *; cbn [fst snd] in *).
Ltac d3 v := let x := fresh v "x" in let y := fresh v "y" in let z := fresh v "z" in destruct v as [[x y] z].

Lemma nz_norm2 n : n <> vzero -> vnorm2 n <> 0.
Proof. intros H. pose proof (vnorm2_pos n H). lra. Qed.

Lemma reflect_len d n : n <> vzero -> vnorm2 (reflect_dir d n) = vnorm2 d.
Proof. intros H; apply nz_norm2 in H. d3 d; d3 n. v3c. field. exact H. Qed.
Lemma reflect_normal_comp d n : n <> vzero -> vdot (reflect_dir d n) n = - vdot d n.
Proof. intros H; apply nz_norm2 in H. d3 d; d3 n. v3c. field. exact H. Qed.
Lemma reflect_tangent_comp d n : vcross (reflect_dir d n) n = vcross d n.
Proof. d3 d; d3 n. v3c. f_equal; [f_equal|]; ring. Qed.
Lemma reflect_coplanar d n : vdot (reflect_dir d n) (vcross d n) = 0.
Proof. d3 d; d3 n. v3c. ring. Qed.
Lemma reflect_involutive d n : n <> vzero -> reflect_dir (reflect_dir d n) n = d.
Proof. intros H; apply nz_norm2 in H. d3 d; d3 n. v3c. f_equal; [f_equal|]; field; exact H. Qed.
Lemma scaled_norm_nz k x y z : k <> 0 -> x*x+y*y+z*z <> 0 -> k*x*(k*x)+k*y*(k*y)+k*z*(k*z) <> 0.
Proof.
  intros Hk H. replace (k*x*(k*x)+k*y*(k*y)+k*z*(k*z)) with (k*k*(x*x+y*y+z*z)) by ring.
  repeat apply Rmult_integral_contrapositive_currified; assumption.
Qed.
Lemma reflect_scale_invariant k d n : k <> 0 -> n <> vzero -> reflect_dir d (vscale k n) = reflect_dir d n.
Proof.
  intros Hk H; apply nz_norm2 in H. d3 d; d3 n. v3c. pose proof (scaled_norm_nz k nx ny nz Hk H).
  f_equal; [f_equal|]; field; split; assumption.
Qed.
(* the textbook mirror formula with the unit normal n/|n| *)
Lemma reflect_formula d n : n <> vzero ->
  let u := vscale (/ vnorm n) n in reflect_dir d n = vsub d (vscale (2 * vdot d u) u).
Proof.
  intros H u. subst u. pose proof (vnorm_pos n (vnorm2_pos n H)) as Hp. pose proof (vnorm_sq n) as Hs.
  apply nz_norm2 in H. set (N := vnorm n) in *. clearbody N.
  d3 d; d3 n. v3c. 
  assert (E : / (nx*nx+ny*ny+nz*nz) = /N * /N) by (rewrite <- Hs; field; lra).
  unfold Rdiv. rewrite E. f_equal; [f_equal|]; field; lra.
Qed.
Lemma reflect_angle d n : n <> vzero -> cos_between (reflect_dir d n) n = - cos_between d n.
Proof.
  intros H. unfold cos_between. rewrite (reflect_normal_comp d n H). unfold vnorm at 1. rewrite (reflect_len d n H).
  fold (vnorm d). unfold Rdiv. ring.
Qed.
Lemma reflect_origin r nr : fst (reflect_ray r nr) = fst nr.
Proof. reflexivity. Qed.
Lemma reflect_ray_dir r nr : snd (reflect_ray r nr) = reflect_dir (snd r) (snd nr).
Proof. reflexivity. Qed.

(* the +1e-8 of the unrepaired PyTorch reflect: a short normal no longer mirrors *)
Lemma reflect_eps_refuted : exists d n, n <> vzero /\ vnorm2 (reflect_dir_eps (1/100000000) d n) <> vnorm2 d.
Proof.
  exists (0,0,1), (0,0,1/1000). split.
  - unfold vzero. intros E. inversion E. lra.
  - v3c. intros E. field_simplify in E. lra.
Qed.

(* ------------------------------------------------------------------ the quadratic and its Newton step *)
Lemma refract_norm2 mu d n t : vnorm2 d = 1 -> n <> vzero ->
  vnorm2 (refract_dir mu d n t) = 1 + vnorm2 n * quad (rf_a mu d n) (rf_b mu n) t.
Proof.
  intros Hd H; apply nz_norm2 in H. d3 d; d3 n. unfold quad. v3c.
  transitivity (mu*mu*(dx*dx+dy*dy+dz*dz) + 2*mu*t*(dx*nx+dy*ny+dz*nz) + t*t*(nx*nx+ny*ny+nz*nz)); [ring|].
  rewrite Hd. field. exact H.
Qed.
Lemma refract_unit mu d n t : vnorm2 d = 1 -> n <> vzero -> quad (rf_a mu d n) (rf_b mu n) t = 0 ->
  vnorm2 (refract_dir mu d n t) = 1.
Proof. intros Hd H Hq. rewrite refract_norm2, Hq by assumption. ring. Qed.
Lemma snell_cross mu d n t : vcross (refract_dir mu d n t) n = vscale mu (vcross d n).
Proof. d3 d; d3 n. v3c. f_equal; [f_equal|]; ring. Qed.
Lemma refract_coplanar mu d n t : vdot (refract_dir mu d n t) (vcross d n) = 0.
Proof. d3 d; d3 n. v3c. ring. Qed.
Lemma refract_dot_n mu d n t : n <> vzero -> vdot (refract_dir mu d n t) n = vnorm2 n * (t + rf_a mu d n).
Proof. intros H; apply nz_norm2 in H. d3 d; d3 n. v3c. field. exact H. Qed.
Lemma incident_dot_n mu d n : n <> vzero -> mu <> 0 -> vdot d n = vnorm2 n * rf_a mu d n / mu.
Proof. intros H Hm; apply nz_norm2 in H. d3 d; d3 n. v3c. field. split; assumption. Qed.

Lemma newton_residual a b t : t + a <> 0 ->
  quad a b (newton_step a b t) = (newton_step a b t - t) * (newton_step a b t - t).
Proof. intros H. unfold newton_step, quad. field. exact H. Qed.
(* in the shifted variable y = t + a the step is Heron's:  y' = (y^2 + D) / (2 y),  D = a^2 - b *)
Lemma newton_step_y a b t : t + a <> 0 ->
  newton_step a b t + a = ((t + a) * (t + a) + (a * a - b)) / (2 * (t + a)).
Proof. intros H. unfold newton_step, quad. field. exact H. Qed.
Lemma start_y a b : a <> 0 -> rf_t0 a b + a = (a * a + (a * a - b)) / (2 * a).
Proof. intros H. unfold rf_t0. field. exact H. Qed.

(* ------------------------------------------------------------------ root selection *)
(* the iteration never crosses the vertex t = -a: y keeps the sign of a *)
Lemma start_side a b : a <> 0 -> b <= a * a -> 0 < a * (rf_t0 a b + a).
Proof.
  intros Ha HD. rewrite start_y by exact Ha.
  replace (a * ((a*a + (a*a-b)) / (2*a))) with ((a*a + (a*a-b)) / 2) by (field; exact Ha).
  assert (0 < a*a) by nra. lra.
Qed.
Lemma step_side a b t : b <= a * a -> 0 < a * (t + a) -> 0 < a * (newton_step a b t + a).
Proof.
  intros HD Hs. assert (Hy : t + a <> 0) by (intros E; rewrite E in Hs; lra).
  rewrite newton_step_y by exact Hy. set (y := t + a) in *. set (D := a*a - b). assert (0 <= D) by (unfold D; lra).
  assert (Hyy : 0 < y * y) by nra.
  replace (a * ((y*y + D) / (2*y))) with ((a*y) * ((y*y + D) / (2*(y*y)))) by (field; exact Hy).
  apply Rmult_lt_0_compat; [exact Hs|]. apply Rdiv_lt_0_compat; lra.
Qed.
Lemma iter_side k a b : a <> 0 -> b <= a * a -> 0 < a * (newton_iter k a b (rf_t0 a b) + a).
Proof. intros Ha HD. induction k; cbn [newton_iter]; [apply start_side|apply step_side]; assumption. Qed.
Lemma iter_nonvertex k a b : a <> 0 -> b <= a * a -> newton_iter k a b (rf_t0 a b) + a <> 0.
Proof. intros Ha HD E. pose proof (iter_side k a b Ha HD) as H. rewrite E in H. lra. Qed.

(* the refracted direction continues to the far side of the surface: out.n has the sign of d.n *)
Lemma refract_far_side k mu d n : n <> vzero -> 0 < mu -> vdot d n <> 0 ->
  rf_b mu n <= rf_a mu d n * rf_a mu d n ->
  0 < vdot d n * vdot (refract_dir mu d n (newton_iter k (rf_a mu d n) (rf_b mu n) (rf_t0 (rf_a mu d n) (rf_b mu n)))) n.
Proof.
  intros H Hm Hdn HD. pose proof (vnorm2_pos n H) as Hp.
  assert (Ha : rf_a mu d n <> 0).
  { unfold rf_a. intros E. apply Hdn. apply Rmult_eq_reg_l with (mu / vnorm2 n).
    - rewrite Rmult_0_r. rewrite <- E. field. lra.
    - apply Rmult_integral_contrapositive_currified; [lra|]. apply Rinv_neq_0_compat; lra. }
  rewrite refract_dot_n by exact H. rewrite (incident_dot_n mu d n H) by lra.
  pose proof (iter_side k _ _ Ha HD) as Hs. set (y := newton_iter _ _ _ _ + _) in *. set (a := rf_a mu d n) in *.
  replace (vnorm2 n * a / mu * (vnorm2 n * y)) with ((vnorm2 n * vnorm2 n / mu) * (a * y)) by (field; lra).
  apply Rmult_lt_0_compat; [|exact Hs]. apply Rdiv_lt_0_compat; nra.
Qed.

(* ------------------------------------------------------------------ convergence to the selected root *)
Lemma newton_iter_shift k a b t : newton_iter k a b (newton_step a b t) = newton_iter (S k) a b t.
Proof. induction k; cbn [newton_iter] in *; [reflexivity|rewrite IHk; reflexivity]. Qed.

(* Heron's step on u >= s = sqrt D: stays above s, the distance to s at least halves, and the step is
   not longer than the distance *)
Lemma heron u s : 0 <= s -> s <= u -> 0 < u ->
  let u' := (u * u + s * s) / (2 * u) in
  s <= u' /\ u' - s <= (u - s) / 2 /\ 0 <= u - u' <= u - s.
Proof.
  intros Hs Hu Hp u'.
  assert (E1 : u' - s = (u - s) * (u - s) / (2 * u)) by (unfold u'; field; lra).
  assert (E2 : u - u' = (u - s) * (u + s) / (2 * u)) by (unfold u'; field; lra).
  assert (Hi : 0 < / (2 * u)) by (apply Rinv_0_lt_compat; lra).
  assert (Hq : (u - s) / (2 * u) <= / 2).
  { apply Rmult_le_reg_r with (2 * u); [lra|]. unfold Rdiv. rewrite Rmult_assoc, Rinv_l by lra. lra. }
  assert (Hq0 : 0 <= (u - s) / (2 * u)) by (unfold Rdiv; apply Rmult_le_pos; lra).
  assert (Hr : (u + s) / (2 * u) <= 1).
  { apply Rmult_le_reg_r with (2 * u); [lra|]. unfold Rdiv. rewrite Rmult_assoc, Rinv_l by lra. lra. }
  assert (Hr0 : 0 <= (u + s) / (2 * u)) by (unfold Rdiv; apply Rmult_le_pos; lra).
  repeat split.
  - assert (0 <= u' - s); [|lra]. rewrite E1. replace ((u-s)*(u-s)/(2*u)) with ((u-s) * ((u-s)/(2*u))) by (field; lra).
    apply Rmult_le_pos; lra.
  - rewrite E1. replace ((u-s)*(u-s)/(2*u)) with ((u-s) * ((u-s)/(2*u))) by (field; lra). nra.
  - rewrite E2. replace ((u-s)*(u+s)/(2*u)) with ((u-s) * ((u+s)/(2*u))) by (field; lra). apply Rmult_le_pos; lra.
  - rewrite E2. replace ((u-s)*(u+s)/(2*u)) with ((u-s) * ((u+s)/(2*u))) by (field; lra). nra.
Qed.

Section Converge.
Variables a b : R.
Hypothesis Ha : a <> 0.
Hypothesis HD : b <= a * a.
Let s := sqrt (a * a - b).
Let sg := if Rlt_dec 0 a then 1 else -1.
Let t0 := rf_t0 a b.
Let r := root_sel a b.
Let u (k : nat) := sg * (newton_iter k a b t0 + a).

Lemma s_sq : s * s = a * a - b.
Proof. unfold s. apply sqrt_sqrt. lra. Qed.
Lemma s_nonneg : 0 <= s.
Proof. apply sqrt_pos. Qed.
Lemma sg_sq : sg * sg = 1.
Proof. unfold sg. destruct (Rlt_dec 0 a); ring. Qed.
Lemma sg_a : 0 < sg * a.
Proof. unfold sg. destruct (Rlt_dec 0 a); lra. Qed.
Lemma u_pos k : 0 < u k.
Proof.
  unfold u. pose proof (iter_side k a b Ha HD) as H. fold t0 in H. pose proof sg_a. pose proof sg_sq.
  set (y := newton_iter k a b t0 + a) in *.
  replace (sg * y) with ((sg * a) * (a * y) / (a * a)) by (field; exact Ha).
  apply Rdiv_lt_0_compat; [apply Rmult_lt_0_compat; assumption|nra].
Qed.
Lemma u_step k : u (S k) = (u k * u k + s * s) / (2 * u k).
Proof.
  unfold u. cbn [newton_iter]. pose proof (iter_nonvertex k a b Ha HD) as Hn. fold t0 in Hn.
  rewrite newton_step_y by exact Hn. rewrite s_sq. set (y := newton_iter k a b t0 + a) in *.
  unfold sg. destruct (Rlt_dec 0 a); field; exact Hn.
Qed.
Lemma u_start : s <= u 0%nat.
Proof.
  unfold u. cbn [newton_iter]. unfold t0. rewrite start_y by exact Ha. rewrite <- s_sq.
  pose proof sg_a as Hsa. pose proof s_nonneg. unfold sg in *. 
  destruct (Rlt_dec 0 a).
  - assert (E : 1 * ((a * a + s * s) / (2 * a)) - s = (a - s) * (a - s) / (2 * a)) by (field; exact Ha).
    assert (0 <= (a - s) * (a - s) / (2 * a)); [|lra].
    unfold Rdiv. apply Rmult_le_pos; [apply (Rle_0_sqr (a - s))|]. apply Rlt_le, Rinv_0_lt_compat; lra.
  - assert (E : -1 * ((a * a + s * s) / (2 * a)) - s = (- a - s) * (- a - s) / (2 * - a)) by (field; exact Ha).
    assert (0 <= (- a - s) * (- a - s) / (2 * - a)); [|lra].
    unfold Rdiv. apply Rmult_le_pos; [apply (Rle_0_sqr (- a - s))|]. apply Rlt_le, Rinv_0_lt_compat; lra.
Qed.
Lemma u_inv k : s <= u k /\ u k - s <= (u 0%nat - s) / 2 ^ k /\ 0 <= u k - u (S k) <= u k - s.
Proof.
  induction k.
  - pose proof u_start. pose proof (heron (u 0%nat) s s_nonneg H (u_pos 0)) as [_ [_ H3]]. rewrite <- u_step in H3.
    split; [assumption|]. split; [simpl; lra|assumption].
  - destruct IHk as [I1 [I2 I3]].
    pose proof (heron (u k) s s_nonneg I1 (u_pos k)) as [J1 [J2 _]]. rewrite <- u_step in J1, J2.
    pose proof (heron (u (S k)) s s_nonneg J1 (u_pos (S k))) as [_ [_ K3]]. rewrite <- u_step in K3.
    split; [assumption|]. split; [|assumption].
    cbn [pow]. assert (0 < 2 ^ k) by (apply pow_lt; lra).
    replace ((u 0%nat - s) / (2 * 2 ^ k)) with ((u 0%nat - s) / 2 ^ k / 2) by (field; lra). lra.
Qed.
(* distance to the selected root, in t *)
Lemma dist_u k : Rabs (newton_iter k a b t0 - r) = u k - s.
Proof.
  destruct (u_inv k) as [I1 _]. unfold r, root_sel. fold s. unfold u, sg in *.
  destruct (Rlt_dec 0 a).
  - replace (newton_iter k a b t0 - (- a + 1 * s)) with (1 * (newton_iter k a b t0 + a) - s) by ring.
    apply Rabs_pos_eq. lra.
  - replace (newton_iter k a b t0 - (- a + -1 * s)) with (- (-1 * (newton_iter k a b t0 + a) - s)) by ring.
    rewrite Rabs_Ropp. apply Rabs_pos_eq. lra.
Qed.
Lemma step_u k : Rabs (newton_iter k a b t0 - newton_iter (S k) a b t0) = u k - u (S k).
Proof.
  destruct (u_inv k) as [_ [_ I3]]. unfold u, sg in *.
  destruct (Rlt_dec 0 a).
  - replace (newton_iter k a b t0 - newton_iter (S k) a b t0) with (1 * (newton_iter k a b t0 + a) - 1 * (newton_iter (S k) a b t0 + a)) by ring.
    apply Rabs_pos_eq. lra.
  - replace (newton_iter k a b t0 - newton_iter (S k) a b t0) with (- (-1 * (newton_iter k a b t0 + a) - -1 * (newton_iter (S k) a b t0 + a))) by ring.
    rewrite Rabs_Ropp. apply Rabs_pos_eq. lra.
Qed.

Lemma root_is_root : quad a b r = 0.
Proof.
  unfold r, root_sel, quad. fold s. pose proof s_sq as E. destruct (Rlt_dec 0 a).
  - transitivity (s * s - (a * a - b)); [ring|lra].
  - transitivity (s * s - (a * a - b)); [ring|lra].
Qed.
Lemma newton_selects k : Rabs (newton_iter k a b t0 - r) <= Rabs (t0 - r) / 2 ^ k.
Proof. pose proof (dist_u 0) as E0; cbn [newton_iter] in E0. rewrite dist_u, E0. apply (u_inv k). Qed.
Lemma newton_step_bound k : Rabs (newton_iter k a b t0 - newton_iter (S k) a b t0) <= Rabs (t0 - r) / 2 ^ k.
Proof. pose proof (dist_u 0) as E0; cbn [newton_iter] in E0. rewrite step_u, E0. pose proof (u_inv k). lra. Qed.
End Converge.

(* ------------------------------------------------------------------ the loop *)
Lemma newton_loop_some fuel w a b err t t' : newton_loop fuel w a b err t = Some t' ->
  exists k, (k < fuel)%nat /\ t' = newton_iter (S k) a b t /\ step_size w a b (newton_iter k a b t) <= err.
Proof.
  revert t. induction fuel; intros t H; cbn [newton_loop] in H; [discriminate|].
  destruct (Rltb err (step_size w a b t)) eqn:E.
  - destruct (IHfuel _ H) as [k [Hk [Ht Hs]]]. exists (S k). repeat split; [lia| |].
    + rewrite Ht. rewrite !newton_iter_shift. reflexivity.
    + rewrite newton_iter_shift in Hs. exact Hs.
  - apply Rltb_false in E. inversion H; subst. exists 0%nat. repeat split; [lia|exact E].
Qed.
Lemma newton_loop_exits fuel w a b err t :
  (exists k, (k < fuel)%nat /\ step_size w a b (newton_iter k a b t) <= err) ->
  exists t', newton_loop fuel w a b err t = Some t'.
Proof.
  revert t. induction fuel; intros t [k [Hk Hs]]; [lia|]. cbn [newton_loop].
  destruct (Rltb err (step_size w a b t)) eqn:E; [|eexists; reflexivity].
  apply Rltb_true in E. destruct k as [|k]; [cbn [newton_iter] in Hs; lra|].
  apply IHfuel. exists k. split; [lia|]. rewrite newton_iter_shift. exact Hs.
Qed.
(* the loop never runs longer than its cap: the result, if any, is one of the first `fuel` iterates *)
Lemma refract_t_some cap w a b err t : refract_t cap w a b err = Some t ->
  b <= a * a /\ exists k, (k < cap)%nat /\ t = newton_iter (S k) a b (rf_t0 a b) /\
                         step_size w a b (newton_iter k a b (rf_t0 a b)) <= err.
Proof.
  unfold refract_t, tir. destruct (Rltb (a * a) b) eqn:E; [discriminate|]. apply Rltb_false in E.
  intros H. split; [exact E|]. apply newton_loop_some; exact H.
Qed.
Lemma refract_t_tir cap w a b err : a * a < b -> refract_t cap w a b err = None.
Proof. intros H. unfold refract_t, tir. apply Rltb_true in H. rewrite H. reflexivity. Qed.

(* ------------------------------------------------------------------ the exit test bounds the error *)
Lemma step_size_sq w a b t : step_size w a b t * step_size w a b t = w * w * ((newton_step a b t - t) * (newton_step a b t - t)).
Proof.
  unfold step_size. set (x := t - newton_step a b t).
  replace (Rabs x * w * (Rabs x * w)) with (w * w * (Rabs x * Rabs x)) by ring.
  rewrite <- Rabs_mult, Rabs_pos_eq by (apply (Rle_0_sqr x)). unfold x. ring.
Qed.
Lemma step_size_nonneg w a b t : 0 <= w -> 0 <= step_size w a b t.
Proof. intros. unfold step_size. apply Rmult_le_pos; [apply Rabs_pos|assumption]. Qed.
Lemma exit_tolerance mu d n t err : vnorm2 d = 1 -> n <> vzero -> t + rf_a mu d n <> 0 ->
  step_size (vnorm n) (rf_a mu d n) (rf_b mu n) t <= err ->
  0 <= vnorm2 (refract_dir mu d n (newton_step (rf_a mu d n) (rf_b mu n) t)) - 1 <= err * err.
Proof.
  intros Hd H Hy Hs. rewrite refract_norm2 by assumption. rewrite newton_residual by exact Hy.
  pose proof (step_size_sq (vnorm n) (rf_a mu d n) (rf_b mu n) t) as E. rewrite vnorm_sq in E.
  pose proof (step_size_nonneg (vnorm n) (rf_a mu d n) (rf_b mu n) t (sqrt_pos _)) as Hp.
  set (st := step_size _ _ _ _) in *. set (q := vnorm2 n * _) in *.
  replace (1 + q - 1) with (st * st) by lra. split; nra.
Qed.

(* ------------------------------------------------------------------ Snell's law in sines *)
Lemma vnorm2_scale k v : vnorm2 (vscale k v) = k * k * vnorm2 v.
Proof. d3 v. v3c. ring. Qed.
Lemma vnorm_scale k v : vnorm (vscale k v) = Rabs k * vnorm v.
Proof.
  unfold vnorm. rewrite vnorm2_scale. rewrite sqrt_mult; [|apply (Rle_0_sqr k)|apply vnorm2_nonneg].
  f_equal. apply sqrt_Rsqr_abs.
Qed.
Lemma sin_between_nonneg u v : 0 < vnorm u -> 0 < vnorm v -> 0 <= sin_between u v.
Proof.
  intros. unfold sin_between, Rdiv. apply Rmult_le_pos; [apply sqrt_pos|].
  apply Rlt_le, Rinv_0_lt_compat, Rmult_lt_0_compat; assumption.
Qed.
Lemma snell_sines_gen mu d n out : 0 < mu -> n <> vzero -> vnorm2 d = 1 -> 0 < vnorm out ->
  vcross out n = vscale mu (vcross d n) -> sin_between out n * vnorm out = mu * sin_between d n.
Proof.
  intros Hm H Hd Ho Hc. pose proof (vnorm_pos n (vnorm2_pos n H)) as Hn.
  unfold sin_between. rewrite Hc, vnorm_scale, Rabs_pos_eq by lra.
  assert (E : vnorm d = 1) by (unfold vnorm; rewrite Hd; apply sqrt_1). rewrite E. field. lra.
Qed.
Lemma snell_sines_exact n1 n2 d n out : 0 < n1 -> 0 < n2 -> n <> vzero -> vnorm2 d = 1 -> vnorm2 out = 1 ->
  vcross out n = vscale (n1 / n2) (vcross d n) -> n1 * sin_between d n = n2 * sin_between out n.
Proof.
  intros H1 H2 H Hd Ho Hc. assert (E : vnorm out = 1) by (unfold vnorm; rewrite Ho; apply sqrt_1).
  assert (Hm : 0 < n1 / n2) by (apply Rdiv_lt_0_compat; assumption).
  pose proof (snell_sines_gen (n1 / n2) d n out Hm H Hd ltac:(lra) Hc) as S. rewrite E in S.
  replace (n1 * sin_between d n) with (n2 * (n1 / n2 * sin_between d n)) by (field; lra). rewrite <- S. ring.
Qed.
Lemma snell_sines_tol n1 n2 d n out e : 0 < n1 -> 0 < n2 -> n <> vzero -> vnorm2 d = 1 ->
  0 <= vnorm2 out - 1 <= e ->
  vcross out n = vscale (n1 / n2) (vcross d n) ->
  0 <= n1 * sin_between d n - n2 * sin_between out n <= n1 * sin_between d n * e.
Proof.
  intros H1 H2 H Hd Ho Hc. pose proof (vnorm_sq out) as Hq.
  assert (Hx : 1 <= vnorm out).
  { unfold vnorm. rewrite <- sqrt_1. apply sqrt_le_1_alt. lra. }
  assert (Hm : 0 < n1 / n2) by (apply Rdiv_lt_0_compat; assumption).
  pose proof (snell_sines_gen (n1 / n2) d n out Hm H Hd ltac:(lra) Hc) as S.
  assert (Hd1 : vnorm d = 1) by (unfold vnorm; rewrite Hd; apply sqrt_1).
  pose proof (sin_between_nonneg d n ltac:(lra) (vnorm_pos n (vnorm2_pos n H))) as Hs1.
  set (x := vnorm out) in *. set (s1 := sin_between d n) in *. set (s2 := sin_between out n) in *.
  assert (E2 : n2 * s2 = n1 * s1 / x).
  { replace (n1 * s1) with (n2 * (n1 / n2 * s1)) by (field; lra). rewrite <- S. field. lra. }
  rewrite E2. replace (n1 * s1 - n1 * s1 / x) with (n1 * s1 * ((x - 1) / x)) by (field; lra).
  assert (Hb : 0 <= (x - 1) / x <= e).
  { split; [unfold Rdiv; apply Rmult_le_pos; [lra|apply Rlt_le, Rinv_0_lt_compat; lra]|].
    apply Rle_trans with (x - 1); [|nra].
    apply Rmult_le_reg_r with x; [lra|]. unfold Rdiv. rewrite Rmult_assoc, Rinv_l by lra. nra. }
  assert (0 <= n1 * s1) by (apply Rmult_le_pos; lra). split; nra.
Qed.

(* ------------------------------------------------------------------ equal indices *)
(* d.n <> 0: at grazing incidence the code divides 0 by 0 (NaN cosines); Coq's x / 0 = 0 would hide that *)
Lemma refract_same_index cap err d n : n <> vzero -> vdot d n <> 0 -> 0 <= err -> refract_dir_opt (S cap) err 1 d n = Some d.
Proof.
  intros H _ He. unfold refract_dir_opt. assert (Eb : rf_b 1 n = 0) by (unfold rf_b; field; apply nz_norm2; exact H).
  rewrite Eb. set (a := rf_a 1 d n). unfold refract_t, tir.
  assert (Et : Rltb (a * a) 0 = false) by (apply Rltb_false; nra). rewrite Et.
  assert (E0 : rf_t0 a 0 = 0) by (unfold rf_t0, Rdiv; ring). rewrite E0. cbn [newton_loop].
  assert (En : newton_step a 0 0 = 0) by (unfold newton_step, quad, Rdiv; ring).
  assert (Es : step_size (vnorm n) a 0 0 = 0) by (unfold step_size; rewrite En, Rminus_0_r, Rabs_R0; ring).
  rewrite Es. assert (Ec : Rltb err 0 = false) by (apply Rltb_false; exact He). rewrite Ec, En. cbn [option_map].
  f_equal. d3 d; d3 n. v3c. f_equal; [f_equal|]; ring.
Qed.

(* ------------------------------------------------------------------ any length, either sign of the normal *)
Section Scale.
Variables k : R.
Hypothesis Hk : k <> 0.
Lemma rf_a_scale mu d n : n <> vzero -> rf_a mu d (vscale k n) = rf_a mu d n / k.
Proof. intros H; apply nz_norm2 in H. d3 d; d3 n. v3c. pose proof (scaled_norm_nz k nx ny nz Hk H). field. repeat split; assumption. Qed.
Lemma rf_b_scale mu n : n <> vzero -> rf_b mu (vscale k n) = rf_b mu n / (k * k).
Proof. intros H; apply nz_norm2 in H. d3 n. v3c. pose proof (scaled_norm_nz k nx ny nz Hk H). field. repeat split; assumption. Qed.
Lemma rf_t0_scale a b : a <> 0 -> rf_t0 (a / k) (b / (k * k)) = rf_t0 a b / k.
Proof. intros. unfold rf_t0. field; repeat split; assumption. Qed.
Lemma newton_step_scale a b t : t + a <> 0 -> newton_step (a / k) (b / (k * k)) (t / k) = newton_step a b t / k.
Proof.
  intros H. unfold newton_step, quad. field. repeat split; try assumption.
Qed.
Lemma step_size_scale w a b t : t + a <> 0 -> step_size (Rabs k * w) (a / k) (b / (k * k)) (t / k) = step_size w a b t.
Proof.
  intros H. unfold step_size. rewrite newton_step_scale by exact H.
  replace (t / k - newton_step a b t / k) with ((t - newton_step a b t) * / k) by (field; exact Hk).
  rewrite Rabs_mult, Rabs_inv. field. apply Rabs_no_R0; exact Hk.
Qed.
Lemma refract_dir_scale mu d n t : refract_dir mu d (vscale k n) (t / k) = refract_dir mu d n t.
Proof. d3 d; d3 n. v3c. f_equal; [f_equal|]; field; exact Hk. Qed.
Lemma side_scale a t : 0 < a * (t + a) -> 0 < (a / k) * (t / k + a / k).
Proof.
  intros H. replace (a / k * (t / k + a / k)) with (a * (t + a) / (k * k)) by (field; exact Hk).
  apply Rdiv_lt_0_compat; [exact H|]. nra.
Qed.
Lemma newton_loop_scale fuel w a b err t : b <= a * a -> 0 < a * (t + a) ->
  newton_loop fuel (Rabs k * w) (a / k) (b / (k * k)) err (t / k) = option_map (fun x => x / k) (newton_loop fuel w a b err t).
Proof.
  intros HD. revert t. induction fuel; intros t Hs; [reflexivity|]. cbn [newton_loop].
  assert (Hy : t + a <> 0) by (intros E; rewrite E in Hs; lra).
  rewrite step_size_scale, newton_step_scale by exact Hy.
  destruct (Rltb err (step_size w a b t)); [|reflexivity].
  apply IHfuel. apply step_side; assumption.
Qed.
Lemma tir_scale a b : tir (a / k) (b / (k * k)) = tir a b.
Proof.
  unfold tir. assert (Hkk : 0 < k * k) by nra.
  replace (a / k * (a / k)) with (a * a / (k * k)) by (field; exact Hk).
  destruct (Rltb (a * a) b) eqn:E.
  - apply Rltb_true in E. apply Rltb_true. unfold Rdiv. apply Rmult_lt_compat_r; [apply Rinv_0_lt_compat; exact Hkk|exact E].
  - apply Rltb_false in E. apply Rltb_false. unfold Rdiv. apply Rmult_le_compat_r; [apply Rlt_le, Rinv_0_lt_compat; exact Hkk|exact E].
Qed.
Lemma refract_scale_invariant cap err mu d n : n <> vzero -> 0 < mu -> vdot d n <> 0 ->
  refract_dir_opt cap err mu d (vscale k n) = refract_dir_opt cap err mu d n.
Proof.
  intros H Hm Hdn. unfold refract_dir_opt. rewrite rf_a_scale, rf_b_scale, vnorm_scale by exact H.
  set (a := rf_a mu d n). set (b := rf_b mu n).
  assert (Ha : a <> 0).
  { unfold a, rf_a. pose proof (vnorm2_pos n H). intros E. apply Hdn.
    apply Rmult_eq_reg_l with (mu / vnorm2 n).
    - rewrite Rmult_0_r. rewrite <- E. field. lra.
    - apply Rmult_integral_contrapositive_currified; [lra|]. apply Rinv_neq_0_compat; lra. }
  unfold refract_t. rewrite tir_scale. destruct (tir a b) eqn:Et; [reflexivity|].
  unfold tir in Et. apply Rltb_false in Et.
  rewrite rf_t0_scale by exact Ha. rewrite newton_loop_scale; [|exact Et|apply start_side; assumption].
  destruct (newton_loop cap (vnorm n) a b err (rf_t0 a b)); [|reflexivity]. cbn [option_map]. f_equal. apply refract_dir_scale.
Qed.
End Scale.

(* ------------------------------------------------------------------ a transmitted ray is always found *)
Lemma newton_loop_converges k w a b err : a <> 0 -> b <= a * a -> 0 <= w ->
  Rabs (rf_t0 a b - root_sel a b) * w <= err * 2 ^ k ->
  exists t, newton_loop (S k) w a b err (rf_t0 a b) = Some t.
Proof.
  intros Ha HD Hw Hb. apply newton_loop_exits. exists k. split; [lia|].
  unfold step_size. cbn [newton_iter]. fold (newton_iter (S k) a b (rf_t0 a b)).
  pose proof (newton_step_bound a b Ha HD k) as Hs. assert (Hp : 0 < 2 ^ k) by (apply pow_lt; lra).
  apply Rle_trans with (Rabs (rf_t0 a b - root_sel a b) / 2 ^ k * w); [apply Rmult_le_compat_r; assumption|].
  apply Rmult_le_reg_r with (2 ^ k); [exact Hp|].
  replace (Rabs (rf_t0 a b - root_sel a b) / 2 ^ k * w * 2 ^ k) with (Rabs (rf_t0 a b - root_sel a b) * w) by (field; lra). exact Hb.
Qed.
Lemma pow2_unbounded x : exists k, x <= 2 ^ k.
Proof.
  destruct (Pow_x_infinity 2 ltac:(rewrite Rabs_pos_eq; lra) x) as [N HN]. exists N.
  specialize (HN N (le_n N)). rewrite Rabs_pos_eq in HN by (apply pow_le; lra). lra.
Qed.
Lemma refract_converges w a b err : a <> 0 -> b <= a * a -> 0 <= w -> 0 < err ->
  exists cap t, refract_t cap w a b err = Some t.
Proof.
  intros Ha HD Hw He. destruct (pow2_unbounded (Rabs (rf_t0 a b - root_sel a b) * w / err)) as [k Hk].
  destruct (newton_loop_converges k w a b err Ha HD Hw) as [t Ht].
  - apply Rmult_le_reg_r with (/ err); [apply Rinv_0_lt_compat; exact He|].
    replace (err * 2 ^ k * / err) with (2 ^ k) by (field; lra). exact Hk.
  - exists (S k), t. unfold refract_t, tir. assert (E : Rltb (a * a) b = false) by (apply Rltb_false; exact HD). rewrite E. exact Ht.
Qed.

Lemma rf_a_nonzero mu d n : n <> vzero -> 0 < mu -> vdot d n <> 0 -> rf_a mu d n <> 0.
Proof.
  intros H Hm Hdn. unfold rf_a. pose proof (vnorm2_pos n H). intros E. apply Hdn.
  apply Rmult_eq_reg_l with (mu / vnorm2 n).
  - rewrite Rmult_0_r. rewrite <- E. field. lra.
  - apply Rmult_integral_contrapositive_currified; [lra|]. apply Rinv_neq_0_compat; lra.
Qed.

(* total internal reflection is exactly  n1 sin(t1) > n2 :  a^2 < b  <->  1 < mu^2 sin^2(t1) *)
Lemma tir_iff_sines mu d n : vnorm2 d = 1 -> n <> vzero ->
  (rf_a mu d n * rf_a mu d n < rf_b mu n <-> 1 < mu * mu * (vnorm2 (vcross d n) / vnorm2 n)).
Proof.
  intros Hd H. pose proof (vnorm2_pos n H) as Hp. rewrite lagrange, Hd. unfold rf_a, rf_b.
  set (S := vnorm2 n) in *. set (c := vdot d n).
  assert (E : (mu * mu - 1) / S - mu * c / S * (mu * c / S) = (mu * mu * ((1 * S - c * c) / S) - 1) / S) by (field; lra).
  split; intros Hlt.
  - assert (Hq : 0 < (mu * mu * ((1 * S - c * c) / S) - 1) / S) by (rewrite <- E; lra).
    assert (0 < mu * mu * ((1 * S - c * c) / S) - 1); [|lra].
    replace (mu * mu * ((1 * S - c * c) / S) - 1) with ((mu * mu * ((1 * S - c * c) / S) - 1) / S * S) by (field; lra).
    apply Rmult_lt_0_compat; assumption.
  - assert (0 < (mu * mu * ((1 * S - c * c) / S) - 1) / S); [|lra].
    apply Rdiv_lt_0_compat; lra.
Qed.

(* ------------------------------------------------------------------ end to end *)
(* any iterate at which the exit test holds (this is what a ray of a batch gets: the loop runs until the
   test holds for every ray at once) *)
Lemma refract_sound_iter k err mu d n : vnorm2 d = 1 -> n <> vzero -> 0 < mu -> vdot d n <> 0 ->
  let a := rf_a mu d n in let b := rf_b mu n in
  b <= a * a -> step_size (vnorm n) a b (newton_iter k a b (rf_t0 a b)) <= err ->
  let out := refract_dir mu d n (newton_iter (S k) a b (rf_t0 a b)) in
  0 <= vnorm2 out - 1 <= err * err /\ vcross out n = vscale mu (vcross d n) /\
  vdot out (vcross d n) = 0 /\ 0 < vdot d n * vdot out n.
Proof.
  intros Hd H Hm Hdn a b HD Hs out. subst a b out.
  pose proof (rf_a_nonzero mu d n H Hm Hdn) as Ha.
  split; [|split; [|split]].
  - cbn [newton_iter]. apply exit_tolerance; try assumption. apply iter_nonvertex; assumption.
  - apply snell_cross.
  - apply refract_coplanar.
  - apply (refract_far_side (S k)); assumption.
Qed.
Lemma refract_sound cap err mu d n out : vnorm2 d = 1 -> n <> vzero -> 0 < mu -> vdot d n <> 0 ->
  refract_dir_opt cap err mu d n = Some out ->
  0 <= vnorm2 out - 1 <= err * err /\ vcross out n = vscale mu (vcross d n) /\
  vdot out (vcross d n) = 0 /\ 0 < vdot d n * vdot out n.
Proof.
  intros Hd H Hm Hdn Ho. unfold refract_dir_opt in Ho.
  destruct (refract_t cap (vnorm n) (rf_a mu d n) (rf_b mu n) err) as [t|] eqn:Et; [|discriminate].
  cbn [option_map] in Ho. inversion Ho; subst out; clear Ho.
  destruct (refract_t_some _ _ _ _ _ _ Et) as [HD [k [_ [Ht Hs]]]]. subst t.
  apply refract_sound_iter; assumption.
Qed.
Lemma refract_transmits err mu d n : n <> vzero -> 0 < mu -> vdot d n <> 0 -> 0 < err ->
  rf_b mu n <= rf_a mu d n * rf_a mu d n ->
  exists cap out, refract_dir_opt cap err mu d n = Some out.
Proof.
  intros H Hm Hdn He HD. pose proof (rf_a_nonzero mu d n H Hm Hdn) as Ha.
  destruct (refract_converges (vnorm n) _ _ err Ha HD (sqrt_pos _) He) as [cap [t Ht]].
  exists cap, (refract_dir mu d n t). unfold refract_dir_opt. rewrite Ht. reflexivity.
Qed.
Lemma refract_tir_flagged cap err mu d n : rf_a mu d n * rf_a mu d n < rf_b mu n -> refract_dir_opt cap err mu d n = None.
Proof. intros H. unfold refract_dir_opt. rewrite refract_t_tir by exact H. reflexivity. Qed.
Lemma refract_origin cap err mu r nr : fst (refract_ray cap err mu r nr) = fst nr.
Proof. reflexivity. Qed.

(* ------------------------------------------------------------------ the unrepaired exit test *)
(* normal incidence on a normal of length 100, mu = 1/2: the first Newton step is 9/4000 <= 0.01 in t,
   the loop of the unrepaired code left here, with |out|^2 = 1 + (9/40)^2 *)
Lemma exit_unscaled_refuted : exists mu d n err,
  vnorm2 d = 1 /\ n <> vzero /\ 0 < mu /\ rf_b mu n <= rf_a mu d n * rf_a mu d n /\
  exit_unscaled (rf_a mu d n) (rf_b mu n) err (rf_t0 (rf_a mu d n) (rf_b mu n)) /\
  err * err < vnorm2 (refract_dir mu d n (newton_step (rf_a mu d n) (rf_b mu n) (rf_t0 (rf_a mu d n) (rf_b mu n)))) - 1.
Proof.
  exists (1/2), (0,0,-1), (0,0,100), (1/100).
  assert (Ea : rf_a (1/2) (0,0,-1) (0,0,100) = - 1 / 200) by (unfold rf_a; v3c; field).
  assert (Eb : rf_b (1/2) (0,0,100) = - 3 / 40000) by (unfold rf_b; v3c; field).
  rewrite Ea, Eb.
  assert (E0 : rf_t0 (-1/200) (-3/40000) = - 3 / 400) by (unfold rf_t0; field).
  assert (E1 : newton_step (-1/200) (-3/40000) (-3/400) = - 21 / 4000) by (unfold newton_step, quad; field).
  rewrite E0, E1.
  split; [|split; [|split; [|split; [|split]]]].
  - v3c. ring.
  - unfold vzero. intros E. inversion E. lra.
  - lra.
  - lra.
  - unfold exit_unscaled. rewrite E1. replace (-3/400 - -21/4000) with (- (9/4000)) by field.
    rewrite Rabs_Ropp, Rabs_pos_eq; lra.
  - v3c. lra.
Qed.
