(* Helper vocabulary for the definitions the tracer emits (tracer/shim.py: coq). *)
From Coq Require Import Reals Lra Bool.
Open Scope R_scope.

Definition Rltb (a b : R) : bool := if Rlt_dec a b then true else false.
Definition Rleb (a b : R) : bool := if Rle_dec a b then true else false.
Definition Reqb (a b : R) : bool := if Req_EM_T a b then true else false.

Lemma Rltb_true a b : Rltb a b = true <-> a < b.
Proof. unfold Rltb; destruct (Rlt_dec a b); split; intros; try discriminate; tauto. Qed.
Lemma Rltb_false a b : Rltb a b = false <-> b <= a.
Proof. unfold Rltb; destruct (Rlt_dec a b); split; intros; try discriminate; try lra; reflexivity. Qed.
Lemma Rleb_true a b : Rleb a b = true <-> a <= b.
Proof. unfold Rleb; destruct (Rle_dec a b); split; intros; try discriminate; tauto. Qed.
Lemma Rleb_false a b : Rleb a b = false <-> b < a.
Proof. unfold Rleb; destruct (Rle_dec a b); split; intros; try discriminate; try lra; reflexivity. Qed.
Lemma Reqb_true a b : Reqb a b = true <-> a = b.
Proof. unfold Reqb; destruct (Req_EM_T a b); split; intros; try discriminate; tauto. Qed.

(* two-argument arctangent as numpy/torch define it (value at the origin: 0) *)
Definition atan2 (y x : R) : R :=
  if Rlt_dec 0 x then atan (y / x)
  else if Rlt_dec x 0 then (if Rle_dec 0 y then atan (y / x) + PI else atan (y / x) - PI)
  else if Rlt_dec 0 y then PI / 2 else if Rlt_dec y 0 then - (PI / 2) else 0.

(* floor, round-half-even is NOT modelled over R here: Rround is left as floor(x+1/2) only for
   statements that do not depend on ties; properties about ties use Flocq's ZnearestE directly. *)
Definition Rfloor (x : R) : R := IZR (Int_part x).
Definition Rround (x : R) : R := IZR (Int_part (x + /2)).
(* python/torch remainder with the sign of the divisor *)
Definition Rfmod (x y : R) : R := x - y * Rfloor (x / y).
