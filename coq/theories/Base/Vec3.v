(* 3-vectors over R as triples; the algebra the raytracing models use. *)
From Coq Require Import Reals Lra.
Open Scope R_scope.

Definition V3 := (R * R * R)%type.
Definition vx (v : V3) : R := fst (fst v).
Definition vy (v : V3) : R := snd (fst v).
Definition vz (v : V3) : R := snd v.
Definition vadd (a b : V3) : V3 := (vx a + vx b, vy a + vy b, vz a + vz b).
Definition vsub (a b : V3) : V3 := (vx a - vx b, vy a - vy b, vz a - vz b).
Definition vscale (k : R) (a : V3) : V3 := (k * vx a, k * vy a, k * vz a).
Definition vdot (a b : V3) : R := vx a * vx b + vy a * vy b + vz a * vz b.
Definition vcross (a b : V3) : V3 :=
  (vy a * vz b - vz a * vy b, vz a * vx b - vx a * vz b, vx a * vy b - vy a * vx b).
Definition vnorm2 (a : V3) : R := vdot a a.
Definition vnorm (a : V3) : R := sqrt (vnorm2 a).
Definition vzero : V3 := (0, 0, 0).

Ltac v3 := repeat progress (unfold vnorm, vnorm2, vdot, vcross, vadd, vsub, vscale, vx, vy, vz in *; cbn [fst snd] in *).

Lemma vnorm2_nonneg a : 0 <= vnorm2 a.
Proof. destruct a as [[x y] z]; v3; nra. Qed.
Lemma vnorm2_pos a : a <> vzero -> 0 < vnorm2 a.
Proof.
  destruct a as [[x y] z]; intros H; v3.
  destruct (Req_dec x 0) as [Hx|Hx]; [|nra].
  destruct (Req_dec y 0) as [Hy|Hy]; [|nra].
  destruct (Req_dec z 0) as [Hz|Hz]; [|nra].
  exfalso; apply H; unfold vzero; subst; reflexivity.
Qed.
Lemma vnorm_sq a : vnorm a * vnorm a = vnorm2 a.
Proof. unfold vnorm; apply sqrt_sqrt, vnorm2_nonneg. Qed.
Lemma vnorm_pos a : 0 < vnorm2 a -> 0 < vnorm a.
Proof. intros; unfold vnorm; apply sqrt_lt_R0; assumption. Qed.
Lemma cross_perp_l a b : vdot (vcross a b) a = 0.
Proof. destruct a as [[? ?] ?], b as [[? ?] ?]; v3; ring. Qed.
Lemma cross_perp_r a b : vdot (vcross a b) b = 0.
Proof. destruct a as [[? ?] ?], b as [[? ?] ?]; v3; ring. Qed.
(* Lagrange: |a x b|^2 = |a|^2 |b|^2 - (a.b)^2 *)
Lemma lagrange a b : vnorm2 (vcross a b) = vnorm2 a * vnorm2 b - vdot a b * vdot a b.
Proof. destruct a as [[? ?] ?], b as [[? ?] ?]; v3; ring. Qed.
Lemma v3_eta v : (vx v, vy v, vz v) = v.
Proof. destruct v as [[? ?] ?]; reflexivity. Qed.
