(* C02 — property theorems.  The forward models `custom` / `centered` are the documented pipelines of
   OdakV.Wave.Fields (every n x m grid: even, odd, non-square; a batch is a list of such fields);
   F, Finv, S, Sinv are fft2, ifft2, fftshift, ifftshift of the numerical library under their contracts
   (Section hypotheses, validated against torch.fft / numpy.fft on every run).  The traced code is tied to
   these models by coq/tie/Wave_Tie*.v on every run. *)
From Coq Require Import Reals List.
From Coquelicot Require Import Complex.
From OdakV Require Import Base.RealAux Wave.Fields Wave.Kernels Wave.Steps Wave.PadCrop.
Import ListNotations.
Open Scope R_scope.

Section Contracts.
Variables n m : nat.
Variables F Finv S Sinv : fld -> fld.
Variable N : R.
Hypothesis N_pos : 0 < N.
Hypothesis F_dom : forall u, F (clip n m u) = F u.
Hypothesis Finv_dom : forall u, Finv (clip n m u) = Finv u.
Hypothesis S_dom : forall u, S (clip n m u) = S u.
Hypothesis Sinv_dom : forall u, Sinv (clip n m u) = Sinv u.
Hypothesis F_add : forall u v, F (fadd u v) = fadd (F u) (F v).
Hypothesis F_scal : forall a u, F (fscal a u) = fscal a (F u).
Hypothesis Finv_add : forall u v, Finv (fadd u v) = fadd (Finv u) (Finv v).
Hypothesis Finv_scal : forall a u, Finv (fscal a u) = fscal a (Finv u).
Hypothesis Finv_F : forall u, Finv (F u) = clip n m u.
Hypothesis F_Finv : forall u, F (Finv u) = clip n m u.
Hypothesis parseval : forall u, energy n m (F u) = N * energy n m u.
Hypothesis S_Sinv : forall u, S (Sinv u) = clip n m u.
Hypothesis Sinv_S : forall u, Sinv (S u) = clip n m u.
Hypothesis S_energy : forall u, energy n m (S u) = energy n m u.
Hypothesis S_add : forall u v, S (fadd u v) = fadd (S u) (S v).
Hypothesis S_scal : forall a u, S (fscal a u) = fscal a (S u).
Hypothesis Sinv_add : forall u v, Sinv (fadd u v) = fadd (Sinv u) (Sinv v).
Hypothesis Sinv_scal : forall a u, Sinv (fscal a u) = fscal a (Sinv u).
Hypothesis S_mul : forall a b, S (fmul a b) = fmul (S a) (S b).
Hypothesis Sinv_mul : forall a b, Sinv (fmul a b) = fmul (Sinv a) (Sinv b).
Notation cust := (custom F Finv S Sinv).
Notation cent := (centered F Finv S Sinv).

(* distance 0 (kernel = 1) is the identity at every resolution *)
Theorem C02_zero_distance_identity : forall u, cust u fone fone = clip n m u.
Proof. eapply custom_id; eassumption. Qed.
Theorem C02_zero_distance_identity_numpy_fresnel : forall u, cent u fone = clip n m u.
Proof. eapply centered_id; eassumption. Qed.
(* two steps = one step with the product kernel (and product aperture) *)
Theorem C02_two_steps_compose : forall u K1 A1 K2 A2, cust (cust u K1 A1) K2 A2 = cust u (fmul K1 K2) (fmul A1 A2).
Proof. eapply custom_compose; eassumption. Qed.
Theorem C02_two_steps_compose_numpy_fresnel : forall u K1 K2, cent (cent u K1) K2 = cent u (fmul K1 K2).
Proof. eapply centered_compose; eassumption. Qed.
(* every finite program of steps equals one step with the product of the kernels *)
Theorem C02_step_programs : forall Ks u,
  fold_left (step F Finv S Sinv) Ks (clip n m u) = cust u (fold_left fmul Ks fone) fone.
Proof. eapply steps_fold; eassumption. Qed.
Theorem C02_step_programs_numpy_fresnel : forall Ks u,
  fold_left (cstep F Finv S Sinv) Ks (clip n m u) = cent u (fold_left fmul Ks fone).
Proof. eapply csteps_fold; eassumption. Qed.
(* glue of the two levels: propagating through the distances z1 ... zk one after the other with the kernels of ONE family
   whose per-pixel phase is additive in z equals one propagation by z1 + ... + zk (both forms of the forward model) *)
Theorem C02_distance_programs : forall ph : nat -> nat -> R -> R,
  (forall i j z1 z2, ph i j (z1 + z2) = ph i j z1 + ph i j z2) ->
  forall zs u,
  fold_left (step F Finv S Sinv) (map (kfam ph) zs) (clip n m u) = cust u (kfam ph (fold_left Rplus zs 0)) fone /\
  fold_left (cstep F Finv S Sinv) (map (kfam ph) zs) (clip n m u) = cent u (kfam ph (fold_left Rplus zs 0)).
Proof.
  intros ph Hadd zs u. rewrite <- (kfam_product ph Hadd zs). split.
  - eapply steps_fold; eassumption.
  - eapply csteps_fold; eassumption.
Qed.
End Contracts.

(* pad-then-crop at distance 0: with the transforms of the DOUBLED grid (2n x 2m), zero-padding u, propagating by
   distance 0 and cropping the centre returns u.  padf / cropf are the offsets start = (2n)/2 - n/2 that property C08
   proves of zero_pad / crop_center and ties to the code. *)
Theorem C02_pad_crop_identity : forall (n m : nat) (F Finv S Sinv : fld -> fld),
  (forall u, Finv (clip (2 * n) (2 * m) u) = Finv u) -> (forall u, Finv (F u) = clip (2 * n) (2 * m) u) ->
  (forall u, Sinv (S u) = clip (2 * n) (2 * m) u) ->
  forall u, cropf n m (custom F Finv S Sinv (padf n m u) fone fone) = clip n m u.
Proof.
  intros n m F Finv S Sinv H1 H2 H3 u.
  rewrite (custom_id (2 * n) (2 * m) F Finv S Sinv H1 H2 H3). apply cropf_padf.
Qed.

(* kernels with a phase additive in z: H(z1) H(z2) = H(z1+z2), H(0) = 1, H(z) H(-z) = 1 *)
Theorem C02_kernel_compose : forall ph : R -> R, (forall z1 z2, ph (z1 + z2) = ph z1 + ph z2) ->
  forall z1 z2, Cmult (Cexpi (ph z1)) (Cexpi (ph z2)) = Cexpi (ph (z1 + z2)).
Proof. exact kernel_compose. Qed.
Theorem C02_kernel_zero : forall ph : R -> R, (forall z1 z2, ph (z1 + z2) = ph z1 + ph z2) -> Cexpi (ph 0) = RtoC 1.
Proof. exact kernel_zero. Qed.
Theorem C02_kernel_undo : forall ph : R -> R, (forall z1 z2, ph (z1 + z2) = ph z1 + ph z2) ->
  forall z, Cmult (Cexpi (ph z)) (Cexpi (ph (- z))) = RtoC 1.
Proof. exact kernel_undo. Qed.
Theorem C02_kernel_program : forall ph : R -> R, (forall z1 z2, ph (z1 + z2) = ph z1 + ph z2) ->
  forall zs, fold_left Cmult (map (fun z => Cexpi (ph z)) zs) (RtoC 1) = Cexpi (ph (fold_left Rplus zs 0)).
Proof. exact phasor_product. Qed.
