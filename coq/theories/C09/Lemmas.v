(* C09 — proofs about the reference model (Model.v). *)
From Coq Require Import Floats.
From Coq Require Import Reals ZArith Bool List Lra Lia Psatz.
From OdakV Require Import Base.RealAux C09.Model.
Import ListNotations.
Open Scope R_scope.

(* ------------------------------------------------------------------ atan2: cosine and sine *)
Lemma hyp_pos x y : x <> 0 \/ y <> 0 -> 0 < x * x + y * y.
Proof. intros [H|H]; nra. Qed.

Lemma sqrt_ratio x y : x <> 0 -> sqrt (1 + (y / x)²) = sqrt (x * x + y * y) / Rabs x.
Proof.
  intros Hx. replace (1 + (y / x)²) with ((x * x + y * y) / (x * x)) by (unfold Rsqr; field; exact Hx).
  rewrite sqrt_div_alt by nra. f_equal. replace (x * x) with (Rsqr x) by reflexivity. apply sqrt_Rsqr_abs.
Qed.

Lemma cos_atan2 y x : x <> 0 \/ y <> 0 -> cos (atan2 y x) = x / sqrt (x * x + y * y).
Proof.
  intros Hnz. pose proof (hyp_pos x y Hnz) as Hp.
  assert (Hs : 0 < sqrt (x * x + y * y)) by (apply sqrt_lt_R0; exact Hp).
  unfold atan2. destruct (Rlt_dec 0 x) as [Hx|Hx].
  - rewrite cos_atan, sqrt_ratio by lra. rewrite Rabs_pos_eq by lra. field. split; lra.
  - destruct (Rlt_dec x 0) as [Hx'|Hx'].
    + destruct (Rle_dec 0 y).
      * rewrite neg_cos, cos_atan, sqrt_ratio by lra. rewrite Rabs_left by lra. field. split; lra.
      * replace (atan (y / x) - PI) with (- (- atan (y / x) + PI)) by ring.
        rewrite cos_neg, neg_cos, cos_neg, cos_atan, sqrt_ratio by lra. rewrite Rabs_left by lra. field. split; lra.
    + assert (x = 0) by lra. subst x. unfold Rdiv. rewrite Rmult_0_l.
      destruct (Rlt_dec 0 y); [apply cos_PI2|]. destruct (Rlt_dec y 0); [rewrite cos_neg; apply cos_PI2|].
      exfalso. destruct Hnz; lra.
Qed.

Lemma sqrt_sq_abs y : sqrt (0 * 0 + y * y) = Rabs y.
Proof. replace (0 * 0 + y * y) with (Rsqr y) by (unfold Rsqr; ring). apply sqrt_Rsqr_abs. Qed.

Lemma sin_atan2 y x : x <> 0 \/ y <> 0 -> sin (atan2 y x) = y / sqrt (x * x + y * y).
Proof.
  intros Hnz. pose proof (hyp_pos x y Hnz) as Hp.
  assert (Hs : 0 < sqrt (x * x + y * y)) by (apply sqrt_lt_R0; exact Hp).
  unfold atan2. destruct (Rlt_dec 0 x) as [Hx|Hx].
  - rewrite sin_atan, sqrt_ratio by lra. rewrite Rabs_pos_eq by lra. field. split; lra.
  - destruct (Rlt_dec x 0) as [Hx'|Hx'].
    + destruct (Rle_dec 0 y).
      * rewrite neg_sin, sin_atan, sqrt_ratio by lra. rewrite Rabs_left by lra. field. split; lra.
      * replace (atan (y / x) - PI) with (- (- atan (y / x) + PI)) by ring.
        rewrite sin_neg, neg_sin, sin_neg, sin_atan, sqrt_ratio by lra. rewrite Rabs_left by lra. field. split; lra.
    + assert (x = 0) by lra. subst x. rewrite sqrt_sq_abs.
      destruct (Rlt_dec 0 y) as [Hy|Hy].
      * rewrite sin_PI2, Rabs_pos_eq by lra. field. lra.
      * destruct (Rlt_dec y 0) as [Hy'|Hy'].
        -- rewrite sin_neg, sin_PI2, Rabs_left by lra. field. lra.
        -- exfalso. destruct Hnz; lra.
Qed.

(* ------------------------------------------------------------------ amplitude and phase *)
Lemma amp_nonneg z : 0 <= amp z.
Proof. apply sqrt_pos. Qed.

Lemma amp_zero_iff z : amp z = 0 <-> z = (0, 0).
Proof.
  destruct z as [x y]. unfold amp, re, im; cbn [fst snd]. split.
  - intros H. apply sqrt_eq_0 in H; [|nra]. assert (x = 0) by nra. assert (y = 0) by nra. subst. reflexivity.
  - intros H. inversion H. subst. replace (0 * 0 + 0 * 0) with 0 by ring. apply sqrt_0.
Qed.

Lemma amp_pos z : z <> (0, 0) -> 0 < amp z.
Proof. intros H. destruct (amp_nonneg z) as [Hp|He]; [exact Hp|]. exfalso. apply H, amp_zero_iff. symmetry. exact He. Qed.

Lemma nz_cases x y : (x, y) <> (0, 0) -> x <> 0 \/ y <> 0.
Proof.
  intros H. destruct (Req_dec x 0) as [Hx|Hx]; [|left; exact Hx]. right. intros Hy. apply H. subst. reflexivity.
Qed.

Lemma arg_range z : - PI < arg z <= PI.
Proof.
  destruct z as [x y]. unfold arg, re, im, atan2; cbn [fst snd]. pose proof PI_RGT_0 as Hpi.
  destruct (Rlt_dec 0 x) as [Hx|Hx].
  - pose proof (atan_bound (y / x)). lra.
  - destruct (Rlt_dec x 0) as [Hx'|Hx'].
    + pose proof (atan_bound (y / x)) as Hb. destruct (Rle_dec 0 y) as [Hy|Hy].
      * assert (atan (y / x) <= 0).
        { destruct Hy as [Hy|Hy].
          - left. rewrite <- atan_0. apply atan_increasing. apply Rmult_lt_reg_r with (- x); [lra|].
            replace (y / x * - x) with (- y) by (field; lra). lra.
          - subst y. unfold Rdiv. rewrite Rmult_0_l, atan_0. lra. }
        lra.
      * assert (0 < atan (y / x)).
        { rewrite <- atan_0. apply atan_increasing. apply Rmult_lt_reg_r with (- x); [lra|].
          replace (y / x * - x) with (- y) by (field; lra). lra. }
        lra.
    + destruct (Rlt_dec 0 y); [lra|]. destruct (Rlt_dec y 0); lra.
Qed.

(* rebuilding a sample from its amplitude and phase returns the sample: all z, including 0 *)
Lemma rebuild z : gcf (amp z) (arg z) = z.
Proof.
  destruct z as [x y]. destruct (Req_dec x 0) as [Hx|Hx]; [destruct (Req_dec y 0) as [Hy|Hy]|].
  - subst. unfold gcf, amp, re, im; cbn [fst snd]. replace (0 * 0 + 0 * 0) with 0 by ring. rewrite sqrt_0. f_equal; ring.
  - assert (Hnz : x <> 0 \/ y <> 0) by (right; exact Hy).
    pose proof (hyp_pos x y Hnz) as Hp. assert (Hs : 0 < sqrt (x * x + y * y)) by (apply sqrt_lt_R0; exact Hp).
    unfold gcf, amp, arg, re, im; cbn [fst snd]. rewrite cos_atan2, sin_atan2 by exact Hnz. f_equal; field; lra.
  - assert (Hnz : x <> 0 \/ y <> 0) by (left; exact Hx).
    pose proof (hyp_pos x y Hnz) as Hp. assert (Hs : 0 < sqrt (x * x + y * y)) by (apply sqrt_lt_R0; exact Hp).
    unfold gcf, amp, arg, re, im; cbn [fst snd]. rewrite cos_atan2, sin_atan2 by exact Hnz. f_equal; field; lra.
Qed.

Lemma rebuild_re z : amp z * cos (arg z) = re z.
Proof. pose proof (f_equal fst (rebuild z)) as H. exact H. Qed.
Lemma rebuild_im z : amp z * sin (arg z) = im z.
Proof. pose proof (f_equal snd (rebuild z)) as H. exact H. Qed.

Lemma cos2_sin2 p : cos p * cos p + sin p * sin p = 1.
Proof. pose proof (sin2_cos2 p) as H. unfold Rsqr in H. lra. Qed.

Lemma amp_gcf a p : amp (gcf a p) = Rabs a.
Proof.
  unfold amp, gcf, re, im; cbn [fst snd].
  replace (a * cos p * (a * cos p) + a * sin p * (a * sin p)) with (Rsqr a * (cos p * cos p + sin p * sin p)) by (unfold Rsqr; ring).
  rewrite cos2_sin2, Rmult_1_r. apply sqrt_Rsqr_abs.
Qed.

(* a point of the unit circle has exactly one phase in (-pi, pi] *)
Lemma cos_sin_inj a b : - PI < a <= PI -> - PI < b <= PI -> cos a = cos b -> sin a = sin b -> a = b.
Proof.
  intros Ha Hb Hc Hs. pose proof PI_RGT_0 as Hpi.
  assert (Hsd : sin (a - b) = 0) by (rewrite sin_minus, Hc, Hs; ring).
  assert (Hcd : cos (a - b) = 1) by (rewrite cos_minus, Hc, Hs; apply cos2_sin2).
  destruct (sin_eq_0_0 _ Hsd) as [k Hk].
  assert (Hk1 : (-2 < k)%Z). { apply lt_IZR. apply Rmult_lt_reg_r with PI; [lra|]. rewrite <- Hk. lra. }
  assert (Hk2 : (k < 2)%Z). { apply lt_IZR. apply Rmult_lt_reg_r with PI; [lra|]. rewrite <- Hk. lra. }
  assert (Hk3 : k = (-1)%Z \/ k = 0%Z \/ k = 1%Z) by lia.
  destruct Hk3 as [E|[E|E]]; subst k.
  - exfalso. rewrite Hk in Hcd. replace (-1 * PI) with (- PI) in Hcd by ring. rewrite cos_neg, cos_PI in Hcd. lra.
  - lra.
  - exfalso. rewrite Hk in Hcd. rewrite Rmult_1_l, cos_PI in Hcd. lra.
Qed.

(* the other direction of the round trip: a positive amplitude and a phase in (-pi, pi] are recovered *)
Lemma arg_gcf a p : 0 < a -> - PI < p <= PI -> arg (gcf a p) = p.
Proof.
  intros Ha Hp. set (w := gcf a p).
  assert (Hamp : amp w = a) by (unfold w; rewrite amp_gcf; apply Rabs_pos_eq; lra).
  pose proof (rebuild_re w) as H1. pose proof (rebuild_im w) as H2. rewrite Hamp in H1, H2.
  unfold w at 2 in H1. unfold w at 2 in H2. unfold gcf, re, im in H1, H2; cbn [fst snd] in H1, H2.
  apply cos_sin_inj; [apply arg_range | exact Hp | |].
  - apply Rmult_eq_reg_l with a; [exact H1 | lra].
  - apply Rmult_eq_reg_l with a; [exact H2 | lra].
Qed.

(* ------------------------------------------------------------------ set_amplitude *)
Lemma set_amp_amp z a : amp (set_amplitude z a) = amp a.
Proof. unfold set_amplitude. rewrite amp_gcf. apply Rabs_pos_eq, amp_nonneg. Qed.

(* the phase is kept: |z| * set_amplitude(z, a) = |a| * z, for all z and a *)
Lemma set_amp_keeps_phase z a : Cscale (amp z) (set_amplitude z a) = Cscale (amp a) z.
Proof.
  unfold Cscale, set_amplitude, gcf, re, im; cbn [fst snd]. f_equal.
  - replace (amp z * (amp a * cos (arg z))) with (amp a * (amp z * cos (arg z))) by ring. rewrite rebuild_re. reflexivity.
  - replace (amp z * (amp a * sin (arg z))) with (amp a * (amp z * sin (arg z))) by ring. rewrite rebuild_im. reflexivity.
Qed.

Lemma set_amp_arg z a : 0 < amp a -> arg (set_amplitude z a) = arg z.
Proof. intros Ha. unfold set_amplitude. apply arg_gcf; [exact Ha | apply arg_range]. Qed.

(* set_amplitude with the field's own amplitude is the identity *)
Lemma set_amp_self z : set_amplitude z z = z.
Proof. unfold set_amplitude. apply rebuild. Qed.

(* ------------------------------------------------------------------ add_phase *)
Lemma add_phase_amp z q : amp (add_phase z q) = amp z.
Proof. unfold add_phase. rewrite amp_gcf. apply Rabs_pos_eq, amp_nonneg. Qed.

(* adding a phase multiplies the sample by e^{iq} *)
Lemma add_phase_rotates z q : add_phase z q = Cmul z (cis q).
Proof.
  unfold add_phase, gcf, Cmul, cis. rewrite cos_plus, sin_plus.
  pose proof (rebuild_re z) as H1. pose proof (rebuild_im z) as H2.
  set (N := amp z) in *. set (c := cos (arg z)) in *. set (s := sin (arg z)) in *.
  cbn [re im fst snd]. rewrite <- H1, <- H2. f_equal; ring.
Qed.

Lemma add_phase_zero z : add_phase z 0 = z.
Proof. unfold add_phase. rewrite Rplus_0_r. apply rebuild. Qed.

(* ------------------------------------------------------------------ floor, remainder, truncation *)
Lemma Rfloor_bounds x : Rfloor x <= x < Rfloor x + 1.
Proof. unfold Rfloor. pose proof (base_Int_part x). lra. Qed.

Lemma Rfloor_nonneg x : 0 <= x -> 0 <= Rfloor x.
Proof.
  intros Hx. pose proof (Rfloor_bounds x) as Hb. unfold Rfloor in *.
  assert ((-1 < Int_part x)%Z) by (apply lt_IZR; lra).
  apply IZR_le. lia.
Qed.

Lemma Rfloor_lt_int x k : x < IZR k -> Rfloor x <= IZR k - 1.
Proof.
  intros Hx. pose proof (Rfloor_bounds x) as Hb. unfold Rfloor in *.
  assert ((Int_part x < k)%Z) by (apply lt_IZR; lra).
  rewrite <- minus_IZR. apply IZR_le. lia.
Qed.

Lemma Int_part_IZR k : Int_part (IZR k) = k.
Proof.
  pose proof (base_Int_part (IZR k)) as [H1 H2].
  assert ((Int_part (IZR k) <= k)%Z) by (apply le_IZR; lra).
  assert ((k - 1 < Int_part (IZR k))%Z) by (apply lt_IZR; rewrite minus_IZR; lra).
  lia.
Qed.

Lemma Rfmod_range p r : 0 < r -> 0 <= Rfmod p r < r.
Proof.
  intros Hr. unfold Rfmod. pose proof (Rfloor_bounds (p / r)) as [H1 H2].
  assert (E : p = r * (p / r)) by (field; lra).
  split.
  - assert (r * Rfloor (p / r) <= r * (p / r)) by (apply Rmult_le_compat_l; lra). lra.
  - assert (r * (p / r) < r * (Rfloor (p / r) + 1)) by (apply Rmult_lt_compat_l; lra). lra.
Qed.

(* the remainder differs from the phase by a whole number of ranges *)
Lemma Rfmod_congr p r : exists k : Z, p = Rfmod p r + IZR k * r.
Proof. exists (Int_part (p / r)). unfold Rfmod, Rfloor. ring. Qed.

Lemma Rtrunc_nonneg x : 0 <= x -> Rtrunc x = Rfloor x.
Proof. intros H. unfold Rtrunc. destruct (Rleb 0 x) eqn:E; [reflexivity|]. apply Rleb_false in E. lra. Qed.

Lemma Rmin_noop a b : a <= b -> Rmin a b = a.
Proof. intros. apply Rmin_left. assumption. Qed.

(* ------------------------------------------------------------------ phase-only SLM pattern *)
Lemma slm_scaled_range p r K : 0 < r -> 0 < K -> 0 <= slm_scaled p r K < K.
Proof.
  intros Hr HK. unfold slm_scaled. pose proof (Rfmod_range p r Hr) as [H1 H2].
  assert (Hd : 0 <= Rfmod p r / r < 1).
  { split.
    - apply Rmult_le_reg_r with r; [lra|]. replace (Rfmod p r / r * r) with (Rfmod p r) by (field; lra). lra.
    - apply Rmult_lt_reg_r with r; [lra|]. replace (Rfmod p r / r * r) with (Rfmod p r) by (field; lra). lra. }
  split; [apply Rmult_le_pos; lra|]. rewrite <- (Rmult_1_l K) at 2. apply Rmult_lt_compat_r; lra.
Qed.

(* over the reals the clamp of the repaired code never fires *)
Lemma slm_clamp_noop p r k : 0 < r -> (0 < k)%Z -> slm_level p r (IZR k) = slm_level_unclamped p r (IZR k).
Proof.
  intros Hr Hk. assert (HK : 0 < IZR k) by (apply IZR_lt; exact Hk).
  pose proof (slm_scaled_range p r (IZR k) Hr HK) as [H1 H2].
  unfold slm_level, slm_level_unclamped. rewrite Rtrunc_nonneg by exact H1.
  apply Rmin_noop, Rfloor_lt_int, H2.
Qed.

Lemma slm_level_floor p r k : 0 < r -> (0 < k)%Z -> slm_level p r (IZR k) = Rfloor (slm_scaled p r (IZR k)).
Proof.
  intros Hr Hk. rewrite slm_clamp_noop by assumption. unfold slm_level_unclamped.
  apply Rtrunc_nonneg. assert (HK : 0 < IZR k) by (apply IZR_lt; exact Hk). apply (slm_scaled_range p r (IZR k) Hr HK).
Qed.

Lemma slm_level_range_Z p r k : 0 < r -> (0 < k)%Z ->
  exists n : Z, slm_level p r (IZR k) = IZR n /\ (0 <= n < k)%Z.
Proof.
  intros Hr Hk. assert (HK : 0 < IZR k) by (apply IZR_lt; exact Hk).
  pose proof (slm_scaled_range p r (IZR k) Hr HK) as [H1 H2].
  exists (Int_part (slm_scaled p r (IZR k))). split; [apply slm_level_floor; assumption|].
  pose proof (Rfloor_nonneg _ H1) as Hn. pose proof (Rfloor_lt_int _ _ H2) as Hu. unfold Rfloor in *.
  split; [apply le_IZR; exact Hn|]. rewrite <- minus_IZR in Hu. apply le_IZR in Hu. lia.
Qed.

Lemma pow2_IZR b : 2 ^ b = IZR (2 ^ Z.of_nat b).
Proof. rewrite <- pow_IZR. reflexivity. Qed.
Lemma pow2_pos b : (0 < 2 ^ Z.of_nat b)%Z.
Proof. apply Z.pow_pos_nonneg; lia. Qed.

(* integer levels in [0, 2^bits) for every phase, every positive range, every bit depth *)
Lemma slm_level_range p r b : 0 < r ->
  exists n : Z, slm_level p r (2 ^ b) = IZR n /\ (0 <= n < 2 ^ Z.of_nat b)%Z.
Proof. intros Hr. rewrite pow2_IZR. apply slm_level_range_Z; [exact Hr | apply pow2_pos]. Qed.

(* unit amplitude (|A| with an illumination A) *)
Lemma slm_unit A p r K : amp (slm_pattern A p r K) = Rabs A.
Proof. unfold slm_pattern. apply (amp_gcf A (slm_phase p r K)). Qed.

(* the displayed phase is the phase modulo the range, rounded down to a level: less than one level below *)
Lemma slm_phase_error p r b : 0 < r ->
  0 <= Rfmod p r - slm_phase p r (2 ^ b) < r / 2 ^ b.
Proof.
  intros Hr. assert (HK : 0 < 2 ^ b) by (apply pow_lt; lra).
  unfold slm_phase. rewrite pow2_IZR in *. rewrite slm_level_floor by (try exact Hr; apply pow2_pos).
  set (K := IZR (2 ^ Z.of_nat b)) in *.
  pose proof (Rfloor_bounds (slm_scaled p r K)) as [H1 H2].
  assert (Hq : 0 < r / K) by (apply Rdiv_lt_0_compat; lra).
  assert (E : Rfmod p r = slm_scaled p r K * (r / K)) by (unfold slm_scaled; field; lra).
  rewrite E. split.
  - assert (Rfloor (slm_scaled p r K) * (r / K) <= slm_scaled p r K * (r / K)) by (apply Rmult_le_compat_r; lra). lra.
  - assert (slm_scaled p r K * (r / K) < (Rfloor (slm_scaled p r K) + 1) * (r / K)) by (apply Rmult_lt_compat_r; lra). lra.
Qed.

(* ------------------------------------------------------------------ torch quantize *)
Lemma quantize_floor x lo hi k : lo < hi -> lo <= x < hi -> (0 < k)%Z ->
  quantize x lo hi (IZR k) = Rfloor ((x - lo) / (hi - lo) * IZR k).
Proof.
  intros Hl Hx Hk. assert (HK : 0 < IZR k) by (apply IZR_lt; exact Hk).
  assert (Hd : 0 <= (x - lo) / (hi - lo) < 1).
  { split.
    - apply Rmult_le_reg_r with (hi - lo); [lra|]. replace ((x - lo) / (hi - lo) * (hi - lo)) with (x - lo) by (field; lra). lra.
    - apply Rmult_lt_reg_r with (hi - lo); [lra|]. replace ((x - lo) / (hi - lo) * (hi - lo)) with (x - lo) by (field; lra). lra. }
  assert (H1 : 0 <= (x - lo) / (hi - lo) * IZR k) by (apply Rmult_le_pos; lra).
  assert (H2 : (x - lo) / (hi - lo) * IZR k < IZR k).
  { rewrite <- (Rmult_1_l (IZR k)) at 2. apply Rmult_lt_compat_r; lra. }
  unfold quantize. rewrite Rtrunc_nonneg by exact H1. apply Rmin_noop, Rfloor_lt_int, H2.
Qed.

Lemma quantize_range x lo hi b : lo < hi -> lo <= x < hi ->
  exists n : Z, quantize x lo hi (2 ^ b) = IZR n /\ (0 <= n < 2 ^ Z.of_nat b)%Z.
Proof.
  intros Hl Hx. rewrite pow2_IZR. pose proof (pow2_pos b) as Hk. set (k := (2 ^ Z.of_nat b)%Z) in *.
  rewrite quantize_floor by assumption.
  assert (HK : 0 < IZR k) by (apply IZR_lt; exact Hk).
  assert (Hd : 0 <= (x - lo) / (hi - lo) < 1).
  { split.
    - apply Rmult_le_reg_r with (hi - lo); [lra|]. replace ((x - lo) / (hi - lo) * (hi - lo)) with (x - lo) by (field; lra). lra.
    - apply Rmult_lt_reg_r with (hi - lo); [lra|]. replace ((x - lo) / (hi - lo) * (hi - lo)) with (x - lo) by (field; lra). lra. }
  assert (H1 : 0 <= (x - lo) / (hi - lo) * IZR k) by (apply Rmult_le_pos; lra).
  assert (H2 : (x - lo) / (hi - lo) * IZR k < IZR k).
  { rewrite <- (Rmult_1_l (IZR k)) at 2. apply Rmult_lt_compat_r; lra. }
  exists (Int_part ((x - lo) / (hi - lo) * IZR k)). split; [reflexivity|].
  pose proof (Rfloor_nonneg _ H1) as Hn. pose proof (Rfloor_lt_int _ _ H2) as Hu. unfold Rfloor in *.
  split; [apply le_IZR; exact Hn|]. rewrite <- minus_IZR in Hu. apply le_IZR in Hu. lia.
Qed.

(* the saturation of the repaired quantize: the upper limit itself goes to the top level, not to 2^bits *)
Lemma quantize_top lo hi k : lo < hi -> (0 < k)%Z -> quantize hi lo hi (IZR k) = IZR k - 1.
Proof.
  intros Hl Hk. assert (HK : 0 < IZR k) by (apply IZR_lt; exact Hk).
  unfold quantize. replace ((hi - lo) / (hi - lo) * IZR k) with (IZR k) by (field; lra).
  rewrite Rtrunc_nonneg by lra. unfold Rfloor. rewrite Int_part_IZR. apply Rmin_right. lra.
Qed.

(* NumPy and PyTorch SLM mappings are the same function of the phase *)
Lemma torch_slm_eq p r K : 0 < r -> torch_slm_level p r K = slm_level p r K.
Proof.
  intros Hr. unfold torch_slm_level, quantize, slm_level, slm_scaled.
  replace ((Rfmod p r - 0) / (r - 0) * K) with (Rfmod p r / r * K) by (field; lra). reflexivity.
Qed.

(* ------------------------------------------------------------------ binary64 sweep of the level computation *)
Lemma slm_f_upper p r b : (slm_level_f p r b <= 2 ^ b - 1)%Z.
Proof. unfold slm_level_f. apply Z.le_min_r. Qed.

Lemma slm_f_sweep : sweep_all (fun p r b => level_ok b (slm_level_f p r b)) = true.
Proof. vm_compute. reflexivity. Qed.

Lemma slm_f_sweep_forall r b p : In r sweep_ranges -> In b sweep_bits -> In p sweep_phases ->
  (0 <= slm_level_f p r b < 2 ^ b)%Z.
Proof.
  intros Hr Hb Hp. pose proof slm_f_sweep as H. unfold sweep_all in H.
  rewrite forallb_forall in H. specialize (H r Hr). rewrite forallb_forall in H. specialize (H b Hb).
  rewrite forallb_forall in H. specialize (H p Hp). unfold level_ok in H.
  apply andb_true_iff in H. destruct H as [H1 H2]. apply Z.leb_le in H1. apply Z.ltb_lt in H2. lia.
Qed.

(* the computation as it was before the repair leaves the range in binary64: phase -1e-20, range 6.28, 8 bits -> 256 *)
Lemma slm_f_unclamped_refuted :
  exists p r b, In r sweep_ranges /\ In b sweep_bits /\ In p sweep_phases /\ slm_level_f_unclamped p r b = (2 ^ b)%Z.
Proof.
  exists (- 0x1.79ca10c924223p-67)%float, f_628, 8%Z. split; [|split; [|split]].
  - right. right. left. reflexivity.
  - do 7 right. left. reflexivity.
  - unfold sweep_phases. apply in_or_app. right.
    apply (in_map (fun x => (- x)%float) sweep_mags 0x1.79ca10c924223p-67%float). do 5 right. left. reflexivity.
  - vm_compute. reflexivity.
Qed.

(* ... and the strongest statement that is true of it on the sweep: never more than one level too high *)
Lemma slm_f_unclamped_partial :
  sweep_all (fun p r b => (0 <=? slm_level_f_unclamped p r b)%Z && (slm_level_f_unclamped p r b <=? 2 ^ b)%Z) = true.
Proof. vm_compute. reflexivity. Qed.
