(* C09 — property theorems (reference model, Model.v).  The helpers traced from /repo are proved equal to
   this model on every run by coq/tie/C09_Tie*.v, which also restates the clauses on the traced definitions. *)
From Coq Require Import Floats.
From Coq Require Import Reals ZArith Bool List.
From OdakV Require Import Base.RealAux C09.Model C09.Lemmas.
Open Scope R_scope.

(* rebuilding a field sample from its computed amplitude and phase returns the sample: every z, including 0 *)
Theorem C09_rebuild : forall z, gcf (amp z) (arg z) = z.
Proof. exact rebuild. Qed.
(* amplitude is non-negative, phase lies in (-pi, pi] *)
Theorem C09_amp_nonneg : forall z, 0 <= amp z.
Proof. exact amp_nonneg. Qed.
Theorem C09_arg_range : forall z, - PI < arg z <= PI.
Proof. exact arg_range. Qed.
(* and the other way round: amplitude a > 0 and phase p in (-pi, pi] are read back from the complex sample *)
Theorem C09_amp_gcf : forall a p, amp (gcf a p) = Rabs a.
Proof. exact amp_gcf. Qed.
Theorem C09_arg_gcf : forall a p, 0 < a -> - PI < p <= PI -> arg (gcf a p) = p.
Proof. exact arg_gcf. Qed.
(* replacing the amplitude keeps the phase: |z| * new = |a| * z for all z, a; the new amplitude is |a|;
   the phase angle itself is unchanged whenever the new amplitude is not zero *)
Theorem C09_set_amp_keeps_phase : forall z a, Cscale (amp z) (set_amplitude z a) = Cscale (amp a) z.
Proof. exact set_amp_keeps_phase. Qed.
Theorem C09_set_amp_amp : forall z a, amp (set_amplitude z a) = amp a.
Proof. exact set_amp_amp. Qed.
Theorem C09_set_amp_arg : forall z a, 0 < amp a -> arg (set_amplitude z a) = arg z.
Proof. exact set_amp_arg. Qed.
(* adding a phase keeps the amplitude and rotates the sample by e^{iq} *)
Theorem C09_add_phase_amp : forall z q, amp (add_phase z q) = amp z.
Proof. exact add_phase_amp. Qed.
Theorem C09_add_phase_rotates : forall z q, add_phase z q = Cmul z (cis q).
Proof. exact add_phase_rotates. Qed.
(* phase-only SLM pattern: unit amplitude (|A| under an illumination A), integer level in [0, 2^bits) for every
   phase, positive range and bit depth, displayed phase less than one level below the phase modulo the range *)
Theorem C09_slm_unit : forall A p r K, amp (slm_pattern A p r K) = Rabs A.
Proof. exact slm_unit. Qed.
Theorem C09_slm_level_range : forall p r b, 0 < r ->
  exists n : Z, slm_level p r (2 ^ b) = IZR n /\ (0 <= n < 2 ^ Z.of_nat b)%Z.
Proof. exact slm_level_range. Qed.
Theorem C09_slm_phase_error : forall p r b, 0 < r -> 0 <= Rfmod p r - slm_phase p r (2 ^ b) < r / 2 ^ b.
Proof. exact slm_phase_error. Qed.
(* over the reals the saturation added by the repair never changes a level *)
Theorem C09_slm_clamp_noop : forall p r k, 0 < r -> (0 < k)%Z -> slm_level p r (IZR k) = slm_level_unclamped p r (IZR k).
Proof. exact slm_clamp_noop. Qed.
(* PyTorch: quantize maps [lo, hi) to integer levels in [0, 2^bits); the PyTorch SLM mapping is the NumPy one *)
Theorem C09_quantize_range : forall x lo hi b, lo < hi -> lo <= x < hi ->
  exists n : Z, quantize x lo hi (2 ^ b) = IZR n /\ (0 <= n < 2 ^ Z.of_nat b)%Z.
Proof. exact quantize_range. Qed.
Theorem C09_torch_slm_eq : forall p r K, 0 < r -> torch_slm_level p r K = slm_level p r K.
Proof. exact torch_slm_eq. Qed.
(* binary64 model of the level computation (the clause is about rounding): never above 2^bits - 1 for any
   float, and within [0, 2^bits) on the whole boundary sweep (3 ranges x 16 bit depths x 48 phases) *)
Theorem C09_slm_f_upper : forall p r b, (slm_level_f p r b <= 2 ^ b - 1)%Z.
Proof. exact slm_f_upper. Qed.
Theorem C09_slm_f_sweep : forall r b p, In r sweep_ranges -> In b sweep_bits -> In p sweep_phases ->
  (0 <= slm_level_f p r b < 2 ^ b)%Z.
Proof. exact slm_f_sweep_forall. Qed.
(* the computation as it stood before the repair is refuted in binary64 (phase -1e-20 -> level 2^bits) ... *)
Theorem C09_slm_f_unclamped_refuted :
  exists p r b, In r sweep_ranges /\ In b sweep_bits /\ In p sweep_phases /\ slm_level_f_unclamped p r b = (2 ^ b)%Z.
Proof. exact slm_f_unclamped_refuted. Qed.
(* ... the strongest true statement about it on the sweep: 0 <= level <= 2^bits *)
Theorem C09_slm_f_unclamped_partial :
  sweep_all (fun p r b => (0 <=? slm_level_f_unclamped p r b)%Z && (slm_level_f_unclamped p r b <=? 2 ^ b)%Z) = true.
Proof. exact slm_f_unclamped_partial. Qed.

(* non-vacuity: a negative real sample (phase exactly pi, the closed end of the range) is rebuilt, and the
   hypotheses of the SLM clauses are met by range 2 pi *)
Example C09_instance : arg (-1, 0) = PI /\ amp (-1, 0) = 1 /\ gcf 1 PI = (-1, 0) /\ 0 < 2 * PI.
Proof.
  assert (Ha : arg (-1, 0) = PI).
  { unfold arg, atan2, re, im; cbn [fst snd].
    destruct (Rlt_dec 0 (-1)); [Lra.lra|]. destruct (Rlt_dec (-1) 0); [|Lra.lra].
    destruct (Rle_dec 0 0); [|Lra.lra]. unfold Rdiv. rewrite Rmult_0_l, atan_0. Lra.lra. }
  assert (Hm : amp (-1, 0) = 1).
  { unfold amp, re, im; cbn [fst snd]. replace (-1 * -1 + 0 * 0) with 1 by Lra.lra. apply sqrt_1. }
  repeat split.
  - exact Ha.
  - exact Hm.
  - rewrite <- Ha, <- Hm. apply rebuild.
  - pose proof PI_RGT_0. Lra.lra.
Qed.
