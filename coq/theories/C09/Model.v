(* C09 — amplitude/phase and complex representations of a field are interchangeable.

   Reference model of odak's representation helpers (both APIs), one sample at a time (the helpers
   are element-wise; the tracer checks that on every run):

     odak.wave.utils / odak.learn.wave.util   calculate_amplitude, calculate_phase
     odak.wave / odak.learn.wave.util         generate_complex_field, set_amplitude
     odak.wave                                add_phase, produce_phase_only_slm_pattern
     odak.learn.tools.matrix                  quantize

   A complex sample is a pair of reals (re, im).  The definitions are written in the shape the
   traced code has, so the tie lemmas (coq/tie/C09_Tie*.v) are short; everything proved about them
   is in Lemmas.v.  The second half is a binary64 model (PrimFloat) of the SLM level computation,
   where the property is about rounding. *)
From Coq Require Import Floats.
From Coq Require Import Reals ZArith Bool List.
From OdakV Require Import Base.RealAux.
Import ListNotations.
Open Scope R_scope.

Definition C : Type := (R * R)%type.
Definition re (z : C) : R := fst z.
Definition im (z : C) : R := snd z.

(* np.abs / torch.abs *)
Definition amp (z : C) : R := sqrt (re z * re z + im z * im z).
(* np.angle / field.imag.atan2(field.real) *)
Definition arg (z : C) : R := atan2 (im z) (re z).
Definition arg_deg (z : C) : R := arg z * (180 / PI).
(* amplitude * cos(phase) + 1j * amplitude * sin(phase) *)
Definition gcf (a p : R) : C := (a * cos p, a * sin p).
(* set_amplitude(field, amplitude): the amplitude argument may itself be complex; its modulus is used *)
Definition set_amplitude (z a : C) : C := gcf (amp a) (arg z).
(* add_phase(field, new_phase) *)
Definition add_phase (z : C) (q : R) : C := gcf (amp z) (arg z + q).

Definition Cscale (k : R) (z : C) : C := (k * re z, k * im z).
Definition Cmul (z w : C) : C := (re z * re w - im z * im w, re z * im w + im z * re w).
Definition cis (q : R) : C := (cos q, sin q).

(* float -> int32 conversion: truncation toward zero *)
Definition Rtrunc (x : R) : R := if Rleb 0 x then Rfloor x else - Rfloor (- x).

(* produce_phase_only_slm_pattern(hologram, slm_range = r, bits): K = 2^bits.
   level = min(trunc((phase mod r) / r * K), K - 1)      (the min is the repair, see findings/C09.json)
   pattern = A cos(level * r / K) + i A sin(level * r / K) *)
Definition slm_scaled (p r K : R) : R := Rfmod p r / r * K.
Definition slm_level (p r K : R) : R := Rmin (Rtrunc (slm_scaled p r K)) (K - 1).
Definition slm_phase (p r K : R) : R := slm_level p r K * (r / K).
Definition slm_pattern (A p r K : R) : C := (A * cos (slm_phase p r K), A * sin (slm_phase p r K)).

(* the level computation before the repair *)
Definition slm_level_unclamped (p r K : R) : R := Rtrunc (slm_scaled p r K).

(* odak.learn.tools.quantize(image_field = x, bits, limits = [lo, hi]), K = 2^bits *)
Definition quantize (x lo hi K : R) : R := Rmin (Rtrunc ((x - lo) / (hi - lo) * K)) (K - 1).
(* the PyTorch phase-only SLM mapping (odak.learn.wave.optimizers, line
   `quantize(phases % (2 pi), bits, limits = [0, 2 pi])`) *)
Definition torch_slm_level (p r K : R) : R := quantize (Rfmod p r) 0 r K.

(* ------------------------------------------------------------------------------------------
   binary64 model of the level computation of produce_phase_only_slm_pattern for a float64 phase:
     m  = phase % r           python/numpy float remainder: fmod (exact), then + r if the sign differs
     l  = int32(m / r * 2^b)  correctly rounded division and product, truncation
     level = min(l, 2^b - 1)
   fmod is exact in IEEE arithmetic; it is computed here on the integer mantissas. *)
Open Scope Z_scope.

(* value of a finite float as (sign, mantissa, exponent); None for nan/inf *)
Definition fparts (x : float) : option (bool * Z * Z) :=
  match Prim2SF x with
  | S754_zero s => Some (s, 0, 0)
  | S754_finite s m e => Some (s, Zpos m, e)
  | _ => None
  end.

(* the float with value (-1)^s * m * 2^e, for 0 <= m < 2^53 (exact: the caller guarantees representability) *)
Definition fmake (s : bool) (m e : Z) : float :=
  let f := Z.ldexp (of_uint63 (Uint63.of_Z m)) e in
  if s then (- f)%float else f.

(* C fmod(a, b) for finite a and finite b > 0: sign of a, |a| rem |b| *)
Definition ffmod (a b : float) : float :=
  match fparts a, fparts b with
  | Some (sa, ma, ea), Some (_, mb, eb) =>
      if mb =? 0 then nan else
      let e := Z.min ea eb in
      let A := ma * 2 ^ (ea - e) in
      let Bz := mb * 2 ^ (eb - e) in
      fmake sa (Z.rem A Bz) e
  | _, _ => nan
  end.

(* python / numpy `a % b` for b > 0 *)
Definition fpymod (a b : float) : float :=
  let m := ffmod a b in
  if (m =? 0)%float then 0%float
  else if (m <? 0)%float then (m + b)%float else m.

(* truncation toward zero of a finite float *)
Definition ftruncZ (x : float) : Z :=
  match fparts x with
  | Some (s, m, e) =>
      let q := if 0 <=? e then m * 2 ^ e else m / 2 ^ (- e) in
      if s then - q else q
  | None => 0
  end.

Definition fpow2 (b : Z) : float := Z.ldexp 1%float b.

Definition slm_level_f_unclamped (p r : float) (b : Z) : Z :=
  ftruncZ ((fpymod p r / r) * fpow2 b)%float.
Definition slm_level_f (p r : float) (b : Z) : Z :=
  Z.min (slm_level_f_unclamped p r b) (2 ^ b - 1).

Definition level_ok (b l : Z) : bool := (0 <=? l) && (l <? 2 ^ b).

(* boundary phases of the float sweep: +-0, the smallest subnormal, tiny values of either sign (1e-30, 1e-20, 1e-17, 1e-12, 1e-8, 1e-3),
   +-pi/2, +-pi and their neighbours, and the ranges themselves *)
Definition f_pi : float := 0x1.921fb54442d18p+1%float.
Definition f_2pi : float := 0x1.921fb54442d18p+2%float.
Definition f_628 : float := 0x1.91eb851eb851fp+2%float.      (* 6.28 *)
Definition sweep_ranges : list float := [f_2pi; f_pi; f_628].
Definition sweep_bits : list Z := [1; 2; 3; 4; 5; 6; 7; 8; 9; 10; 11; 12; 13; 14; 15; 16].
Definition sweep_mags : list float :=
  [0; 0x1p-1074; 0x1p-1022; 0x1p-500; 0x1.4484bfeebc2a0p-100; 0x1.79ca10c924223p-67; 0x1.70ef54646d497p-57; 0x1p-53; 0x1p-52; 0x1p-51; 0x1.19799812dea11p-40; 0x1.5798ee2308c3ap-27; 0x1.0624dd2f1a9fcp-10;
   0x1.921fb54442d17p-1; 0x1.921fb54442d18p-1; 0x1.921fb54442d19p-1;
   0x1.921fb54442d17p+0; 0x1.921fb54442d18p+0; 0x1.921fb54442d19p+0;
   3; 0x1.921fb54442d17p+1; 0x1.921fb54442d18p+1; 0x1.91eb851eb851fp+1; 0x1.91eb851eb851fp+1]%float.
Definition sweep_phases : list float := sweep_mags ++ map (fun x => (- x)%float) sweep_mags.

Definition sweep_all (f : float -> float -> Z -> bool) : bool :=
  forallb (fun r => forallb (fun b => forallb (fun p => f p r b) sweep_phases) sweep_bits) sweep_ranges.
