(* C08 — zero-pad / centre-crop: executable model of the index arithmetic of
   odak.learn.tools.matrix.{zero_pad,crop_center} and odak.tools.matrix.{zero_pad,crop_center}.
   Definitions only; proofs are in Lemmas.v, property statements in Props.v. *)
From Coq Require Import ZArith List Bool.
Import ListNotations.
Open Scope Z_scope.

(* ---- one axis ------------------------------------------------------------------- *)
(* torch: start = resolution // 2 - shape // 2 ; numpy (after np.pad amounts): before = size//2 - shape//2 *)
Definition pad_start_torch (h s : Z) : Z := s / 2 - h / 2.
Definition pad_start_numpy (h s : Z) : Z := s / 2 - h / 2.
Definition pad_after_numpy (h s : Z) : Z := (s - h) - pad_start_numpy h s.
Definition default_size (h : Z) : Z := 2 * h.

(* crop: default length H//2, explicit length m ; start = H//2 - m//2 *)
Definition crop_len_default (H : Z) : Z := H / 2.
Definition crop_start (H m : Z) : Z := H / 2 - m / 2.

Section Arrays.
Context {V : Type} (zero : V).

(* an axis of a padded array: content at [start, start+h), zero elsewhere *)
Definition pad1 (start h : Z) (x : Z -> V) : Z -> V :=
  fun i => if (start <=? i) && (i <? start + h) then x (i - start) else zero.
Definition crop1 (q : Z) (x : Z -> V) : Z -> V := fun i => x (i + q).

(* two spatial axes *)
Definition pad2 (sh sw h w : Z) (x : Z -> Z -> V) : Z -> Z -> V :=
  fun i j => if ((sh <=? i) && (i <? sh + h)) && ((sw <=? j) && (j <? sw + w))
             then x (i - sh) (j - sw) else zero.
Definition crop2 (qh qw : Z) (x : Z -> Z -> V) : Z -> Z -> V := fun i j => x (i + qh) (j + qw).

(* the four library functions on a 2-D array of shape (h, w) *)
Definition zero_pad_torch (h w : Z) (size : option (Z * Z)) (x : Z -> Z -> V) : (Z * Z) * (Z -> Z -> V) :=
  let '(sh, sw) := match size with None => (default_size h, default_size w) | Some s => s end in
  ((sh, sw), pad2 (pad_start_torch h sh) (pad_start_torch w sw) h w x).
Definition zero_pad_numpy (h w : Z) (size : option (Z * Z)) (x : Z -> Z -> V) : (Z * Z) * (Z -> Z -> V) :=
  let '(sh, sw) := match size with None => (default_size h, default_size w) | Some s => s end in
  ((pad_start_numpy h sh + h + pad_after_numpy h sh, pad_start_numpy w sw + w + pad_after_numpy w sw),
   pad2 (pad_start_numpy h sh) (pad_start_numpy w sw) h w x).
Definition crop_center_any (H W : Z) (size : option (Z * Z)) (x : Z -> Z -> V) : (Z * Z) * (Z -> Z -> V) :=
  let '(mh, mw) := match size with None => (crop_len_default H, crop_len_default W) | Some s => s end in
  ((mh, mw), crop2 (crop_start H mh) (crop_start W mw) x).
End Arrays.

(* ---- rank / layout dispatch of the torch functions ------------------------------- *)
(* shape of the tensor handed in -> positions of the two spatial axes (counted in the input's
   own rank).  2-D: (0,1) (last side >= 5).  3-D: channels first (1,2).  4-D: channels last iff last side < 5. *)
Definition spatial_axes (shape : list Z) : option (nat * nat) :=
  match shape with
  | [_; n] => if n <? 5 then None (* torch would take the last side for channels *) else Some (0%nat, 1%nat)
  | [_; _; n] => if n <? 5 then None (* outside the documented layouts *) else Some (1%nat, 2%nat)
  | [_; _; n; j] => if j <? 5 then Some (1%nat, 2%nat) else Some (2%nat, 3%nat)
  | _ => None
  end.

Fixpoint set_nth (k : nat) (v : Z) (l : list Z) : list Z :=
  match l, k with
  | [], _ => []
  | _ :: t, O => v :: t
  | a :: t, S k' => a :: set_nth k' v t
  end.

Definition padded_shape (shape : list Z) (size : option (Z * Z)) : option (list Z) :=
  match spatial_axes shape with
  | None => None
  | Some (a, b) =>
      let h := nth a shape 0 in let w := nth b shape 0 in
      let '(sh, sw) := match size with None => (default_size h, default_size w) | Some s => s end in
      Some (set_nth b sw (set_nth a sh shape))
  end.
Definition cropped_shape (shape : list Z) (size : option (Z * Z)) : option (list Z) :=
  match spatial_axes shape with
  | None => None
  | Some (a, b) =>
      let h := nth a shape 0 in let w := nth b shape 0 in
      let '(mh, mw) := match size with None => (crop_len_default h, crop_len_default w) | Some s => s end in
      Some (set_nth b mw (set_nth a mh shape))
  end.

(* ---- tabulation, for running the model on concrete arrays ------------------------ *)
Definition of_rows (rows : list (list Z)) : Z -> Z -> Z :=
  fun i j => nth (Z.to_nat j) (nth (Z.to_nat i) rows []) 0.
Definition zrange (n : Z) : list Z := map Z.of_nat (seq 0 (Z.to_nat n)).
Definition tabulate (H W : Z) (f : Z -> Z -> Z) : list (list Z) :=
  map (fun i => map (fun j => f i j) (zrange W)) (zrange H).
Definition run_pad_torch (h w : Z) (size : option (Z * Z)) (rows : list (list Z)) :=
  let '((H, W), f) := zero_pad_torch 0 h w size (of_rows rows) in ((H, W), tabulate H W f).
Definition run_pad_numpy (h w : Z) (size : option (Z * Z)) (rows : list (list Z)) :=
  let '((H, W), f) := zero_pad_numpy 0 h w size (of_rows rows) in ((H, W), tabulate H W f).
Definition run_crop (H W : Z) (size : option (Z * Z)) (rows : list (list Z)) :=
  let '((h, w), f) := crop_center_any H W size (of_rows rows) in ((h, w), tabulate h w f).
(* summary used by the exhaustive offset sweep: (out_h, out_w, start_h, start_w) *)
Definition pad_summary_torch (h w : Z) (size : option (Z * Z)) :=
  let '(sh, sw) := match size with None => (default_size h, default_size w) | Some s => s end in
  (sh, sw, pad_start_torch h sh, pad_start_torch w sw).
Definition pad_summary_numpy (h w : Z) (size : option (Z * Z)) :=
  let '(sh, sw) := match size with None => (default_size h, default_size w) | Some s => s end in
  (pad_start_numpy h sh + h + pad_after_numpy h sh, pad_start_numpy w sw + w + pad_after_numpy w sw,
   pad_start_numpy h sh, pad_start_numpy w sw).
Definition crop_summary (H W : Z) (size : option (Z * Z)) :=
  let '(mh, mw) := match size with None => (crop_len_default H, crop_len_default W) | Some s => s end in
  (mh, mw, crop_start H mh, crop_start W mw).
