From Coq Require Import ZArith List Bool Lia ZifyBool.
From OdakV Require Import C08.Model.
Import ListNotations.
Open Scope Z_scope.
Ltac Zify.zify_post_hook ::= Z.to_euclidean_division_equations.

Section L.
Context {V : Type} (zero : V).

Lemma pad_start_range h s : 1 <= h -> h <= s -> 0 <= pad_start_torch h s /\ pad_start_torch h s + h <= s.
Proof. unfold pad_start_torch; intros; lia. Qed.

Lemma pad_centre_default h : 1 <= h -> pad_start_torch h (default_size h) + h / 2 = default_size h / 2.
Proof. unfold pad_start_torch, default_size; intros; lia. Qed.

Lemma numpy_total h s : pad_start_numpy h s + h + pad_after_numpy h s = s.
Proof. unfold pad_after_numpy; lia. Qed.

Lemma numpy_amounts_nonneg h s : 1 <= h -> h <= s -> 0 <= pad_start_numpy h s /\ 0 <= pad_after_numpy h s.
Proof. unfold pad_after_numpy, pad_start_numpy; intros; lia. Qed.

Lemma crop_start_is_pad_start h s : crop_start s h = pad_start_torch h s.
Proof. reflexivity. Qed.

Lemma crop_default_inverts h : 1 <= h ->
  crop_len_default (default_size h) = h /\ crop_start (default_size h) (crop_len_default (default_size h)) = pad_start_torch h (default_size h).
Proof. unfold crop_len_default, default_size, crop_start, pad_start_torch; intros; lia. Qed.

Lemma pad2_content sh sw h w (x : Z -> Z -> V) i j :
  0 <= i < h -> 0 <= j < w -> pad2 zero sh sw h w x (sh + i) (sw + j) = x i j.
Proof.
  intros Hi Hj; unfold pad2.
  replace ((sh <=? sh + i) && (sh + i <? sh + h)) with true by lia.
  replace ((sw <=? sw + j) && (sw + j <? sw + w)) with true by lia.
  cbn [andb]. f_equal; lia.
Qed.

Lemma pad2_zero sh sw h w (x : Z -> Z -> V) i j :
  ~ (sh <= i < sh + h /\ sw <= j < sw + w) -> pad2 zero sh sw h w x i j = zero.
Proof.
  intros Hn; unfold pad2.
  destruct (((sh <=? i) && (i <? sh + h)) && ((sw <=? j) && (j <? sw + w))) eqn:E; [|reflexivity].
  exfalso; apply Hn; lia.
Qed.

Lemma crop2_pad2 sh sw h w (x : Z -> Z -> V) i j :
  0 <= i < h -> 0 <= j < w -> crop2 sh sw (pad2 zero sh sw h w x) i j = x i j.
Proof. intros; unfold crop2. rewrite (Z.add_comm i sh), (Z.add_comm j sw). apply pad2_content; assumption. Qed.

(* crop (pad x) = x, default doubling, both APIs (the crop arithmetic is shared) *)
Lemma crop_pad_default_torch h w (x : Z -> Z -> V) :
  1 <= h -> 1 <= w ->
  let '(Sz, f) := zero_pad_torch zero h w None x in
  let '(Sz', g) := crop_center_any (fst Sz) (snd Sz) None f in
  Sz = (2 * h, 2 * w) /\ Sz' = (h, w) /\ forall i j, 0 <= i < h -> 0 <= j < w -> g i j = x i j.
Proof.
  intros Hh Hw; cbn [zero_pad_torch crop_center_any fst snd].
  destruct (crop_default_inverts h Hh) as [Lh Sh]; destruct (crop_default_inverts w Hw) as [Lw Sw].
  split; [reflexivity|]. split; [rewrite Lh, Lw; reflexivity|].
  intros i j Hi Hj. rewrite Sh, Sw. apply crop2_pad2; assumption.
Qed.

Lemma crop_pad_explicit_torch h w sh sw (x : Z -> Z -> V) :
  1 <= h <= sh -> 1 <= w <= sw ->
  let '(Sz, f) := zero_pad_torch zero h w (Some (sh, sw)) x in
  let '(Sz', g) := crop_center_any (fst Sz) (snd Sz) (Some (h, w)) f in
  Sz = (sh, sw) /\ Sz' = (h, w) /\ forall i j, 0 <= i < h -> 0 <= j < w -> g i j = x i j.
Proof.
  intros Hh Hw; cbn [zero_pad_torch crop_center_any fst snd].
  split; [reflexivity|]. split; [reflexivity|].
  intros i j Hi Hj. rewrite !crop_start_is_pad_start. apply crop2_pad2; assumption.
Qed.

Lemma numpy_equals_torch h w size (x : Z -> Z -> V) :
  zero_pad_numpy zero h w size x = zero_pad_torch zero h w size x.
Proof.
  unfold zero_pad_numpy, zero_pad_torch. destruct size as [[sh sw]|]; rewrite !numpy_total; reflexivity.
Qed.

Lemma pad_keeps_content_adds_zeros h w size (x : Z -> Z -> V) :
  let '(Sz, f) := zero_pad_torch zero h w size x in
  let sh := pad_start_torch h (fst Sz) in let sw := pad_start_torch w (snd Sz) in
  (forall i j, 0 <= i < h -> 0 <= j < w -> f (sh + i) (sw + j) = x i j) /\
  (forall i j, ~ (sh <= i < sh + h /\ sw <= j < sw + w) -> f i j = zero).
Proof.
  unfold zero_pad_torch. destruct size as [[a b]|]; cbn [fst snd]; split; intros;
    first [apply pad2_content; assumption | apply pad2_zero; assumption].
Qed.
End L.

(* ---- layouts: channel axes are untouched, spatial axes double and crop back ---------- *)
Lemma layout_2d h w : 5 <= w -> padded_shape [h; w] None = Some [2 * h; 2 * w].
Proof. intros H; unfold padded_shape, spatial_axes. replace (w <? 5) with false by lia. reflexivity. Qed.
Lemma layout_3d k h w : 5 <= w -> padded_shape [k; h; w] None = Some [k; 2 * h; 2 * w].
Proof. intros H; unfold padded_shape, spatial_axes. replace (w <? 5) with false by lia. reflexivity. Qed.
Lemma layout_4d_first k c h w : 5 <= w -> padded_shape [k; c; h; w] None = Some [k; c; 2 * h; 2 * w].
Proof. intros H; unfold padded_shape, spatial_axes. replace (w <? 5) with false by lia. reflexivity. Qed.
Lemma layout_4d_last k h w c : c < 5 -> padded_shape [k; h; w; c] None = Some [k; 2 * h; 2 * w; c].
Proof. intros H; unfold padded_shape, spatial_axes. replace (c <? 5) with true by lia. reflexivity. Qed.

Lemma half_double z : 2 * z / 2 = z.
Proof. lia. Qed.

Lemma layout_crop_inverts_pad shape : Forall (fun s => 1 <= s) shape ->
  (forall n, nth_error shape 2 = Some n -> length shape = 3%nat -> 5 <= n) ->
  (forall n, nth_error shape 1 = Some n -> length shape = 2%nat -> 5 <= n) ->
  match padded_shape shape None with
  | Some p => (length shape = 4%nat -> 5 <= nth 3 shape 0 -> 5 <= nth 3 p 0) -> cropped_shape p None = Some shape
  | None => True
  end.
Proof.
  intros Hpos H3 H2.
  destruct shape as [|a [|b [|c [|d [|e r]]]]]; try exact I.
  - specialize (H2 b eq_refl eq_refl). unfold padded_shape, spatial_axes.
    replace (b <? 5) with false by lia. cbn [nth set_nth]. intros _.
    unfold cropped_shape, spatial_axes, default_size. replace (2 * b <? 5) with false by lia.
    cbn [nth set_nth]. unfold crop_len_default. rewrite !half_double. reflexivity.
  - specialize (H3 c eq_refl eq_refl). unfold padded_shape, spatial_axes.
    replace (c <? 5) with false by lia. cbn [nth set_nth]. intros _.
    unfold cropped_shape, spatial_axes, default_size. replace (2 * c <? 5) with false by lia.
    cbn [nth set_nth]. unfold crop_len_default. rewrite !half_double. reflexivity.
  - unfold padded_shape, spatial_axes. destruct (d <? 5) eqn:E; cbn [nth set_nth].
    + intros _. unfold cropped_shape, spatial_axes. rewrite E. cbn [nth set_nth].
      unfold crop_len_default, default_size. rewrite !half_double. reflexivity.
    + intros _. unfold cropped_shape, spatial_axes, default_size. replace (2 * d <? 5) with false by lia.
      cbn [nth set_nth]. unfold crop_len_default. rewrite !half_double. reflexivity.
Qed.

(* ---- the repaired defect, kept as a regression lemma: the old default offset H/4 is wrong -- *)
Definition crop_start_legacy (H : Z) : Z := H / 4.
Lemma legacy_offset_refuted : exists h, 1 <= h /\ crop_start_legacy (default_size h) <> pad_start_torch h (default_size h).
Proof. exists 5. unfold crop_start_legacy, default_size, pad_start_torch. split; [lia|]. vm_compute. discriminate. Qed.
Lemma legacy_offset_ok_iff_even h : 1 <= h ->
  (crop_start_legacy (default_size h) = pad_start_torch h (default_size h) <-> h mod 2 = 0).
Proof. unfold crop_start_legacy, default_size, pad_start_torch; intros; lia. Qed.
