(* C08 — property theorems only.  Each is closed by `exact` of a lemma from Lemmas.v. *)
From Coq Require Import ZArith List.
From OdakV Require Import C08.Model C08.Lemmas.
Import ListNotations.
Open Scope Z_scope.

(* crop(pad(x)) = x bit for bit, default doubling, every h, w >= 1 (even, odd, non-square): the index arithmetic on the two spatial
   axes, shared by both APIs (the NumPy functions accept every h, w >= 1; the PyTorch functions read a last side below 5 as a channel
   axis, which is the rank / layout dispatch modelled by spatial_axes and stated separately below) *)
Theorem C08_crop_pad_default : forall (V : Type) (zero : V) h w (x : Z -> Z -> V),
  1 <= h -> 1 <= w ->
  let '(Sz, f) := zero_pad_torch zero h w None x in
  let '(Sz', g) := crop_center_any (fst Sz) (snd Sz) None f in
  Sz = (2 * h, 2 * w) /\ Sz' = (h, w) /\ forall i j, 0 <= i < h -> 0 <= j < w -> g i j = x i j.
Proof. exact @crop_pad_default_torch. Qed.

(* the same for every explicit size >= shape *)
Theorem C08_crop_pad_explicit : forall (V : Type) (zero : V) h w sh sw (x : Z -> Z -> V),
  1 <= h <= sh -> 1 <= w <= sw ->
  let '(Sz, f) := zero_pad_torch zero h w (Some (sh, sw)) x in
  let '(Sz', g) := crop_center_any (fst Sz) (snd Sz) (Some (h, w)) f in
  Sz = (sh, sw) /\ Sz' = (h, w) /\ forall i j, 0 <= i < h -> 0 <= j < w -> g i j = x i j.
Proof. exact @crop_pad_explicit_torch. Qed.

(* padding adds only zeros around the unchanged content *)
Theorem C08_pad_content_and_zeros : forall (V : Type) (zero : V) h w size (x : Z -> Z -> V),
  let '(Sz, f) := zero_pad_torch zero h w size x in
  let sh := pad_start_torch h (fst Sz) in let sw := pad_start_torch w (snd Sz) in
  (forall i j, 0 <= i < h -> 0 <= j < w -> f (sh + i) (sw + j) = x i j) /\
  (forall i j, ~ (sh <= i < sh + h /\ sw <= j < sw + w) -> f i j = zero).
Proof. exact @pad_keeps_content_adds_zeros. Qed.

(* the content block lies inside the output *)
Theorem C08_pad_inside : forall h s, 1 <= h -> h <= s -> 0 <= pad_start_torch h s /\ pad_start_torch h s + h <= s.
Proof. exact pad_start_range. Qed.

(* default doubling maps the FFT-centre sample h/2 to the FFT-centre sample (2h)/2 *)
Theorem C08_centre_fixed : forall h, 1 <= h -> pad_start_torch h (default_size h) + h / 2 = default_size h / 2.
Proof. exact pad_centre_default. Qed.

(* NumPy and PyTorch place content identically, default and explicit sizes *)
Theorem C08_numpy_equals_torch : forall (V : Type) (zero : V) h w size (x : Z -> Z -> V),
  zero_pad_numpy zero h w size x = zero_pad_torch zero h w size x.
Proof. exact @numpy_equals_torch. Qed.

Theorem C08_numpy_pad_amounts_valid : forall h s, 1 <= h -> h <= s -> 0 <= pad_start_numpy h s /\ 0 <= pad_after_numpy h s.
Proof. exact numpy_amounts_nonneg. Qed.

(* ranks and layouts: only the spatial axes change, and cropping restores the shape *)
Theorem C08_layout_4d_channels_first : forall k c h w, 5 <= w -> padded_shape [k; c; h; w] None = Some [k; c; 2 * h; 2 * w].
Proof. exact layout_4d_first. Qed.
Theorem C08_layout_4d_channels_last : forall k h w c, c < 5 -> padded_shape [k; h; w; c] None = Some [k; 2 * h; 2 * w; c].
Proof. exact layout_4d_last. Qed.
Theorem C08_layout_3d : forall k h w, 5 <= w -> padded_shape [k; h; w] None = Some [k; 2 * h; 2 * w].
Proof. exact layout_3d. Qed.
Theorem C08_layout_crop_inverts_pad : forall shape, Forall (fun s => 1 <= s) shape ->
  (forall n, nth_error shape 2 = Some n -> length shape = 3%nat -> 5 <= n) ->
  (forall n, nth_error shape 1 = Some n -> length shape = 2%nat -> 5 <= n) ->
  match padded_shape shape None with
  | Some p => (length shape = 4%nat -> 5 <= nth 3 shape 0 -> 5 <= nth 3 p 0) -> cropped_shape p None = Some shape
  | None => True
  end.
Proof. exact layout_crop_inverts_pad. Qed.

(* regression lemma for the repaired defect: the former offset H/4 agrees only for even sides *)
Theorem C08_legacy_offset_ok_iff_even : forall h, 1 <= h ->
  (crop_start_legacy (default_size h) = pad_start_torch h (default_size h) <-> h mod 2 = 0).
Proof. exact legacy_offset_ok_iff_even. Qed.

(* non-vacuity: an odd, non-square instance meets the hypotheses and is computed through *)
Example C08_instance :
  run_crop 10 14 None (snd (run_pad_torch 5 7 None [[1;2;3;4;5;6;7];[8;9;10;11;12;13;14];[15;16;17;18;19;20;21];[22;23;24;25;26;27;28];[29;30;31;32;33;34;35]]))
  = ((5, 7), [[1;2;3;4;5;6;7];[8;9;10;11;12;13;14];[15;16;17;18;19;20;21];[22;23;24;25;26;27;28];[29;30;31;32;33;34;35]]).
Proof. vm_compute. reflexivity. Qed.
