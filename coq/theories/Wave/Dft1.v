(* One-dimensional discrete Fourier transform over Coquelicot's C: finite sums, the concrete primitive
   root of unity w n = exp(-2 pi i / n), orthogonality of the characters, inversion in both directions,
   Parseval, linearity and the shift (roll) theorem.  This is the 1-D layer under Wave/Dft2.v, which
   discharges the abstract FFT / shift contracts of Wave/Fields.v. *)
From Coq Require Import Reals Lra Lia Arith FunctionalExtensionality.
From Coquelicot Require Import Complex.
From OdakV Require Import Wave.Fields Wave.Kernels.
Open Scope R_scope.
Open Scope C_scope.

(* ------------------------------------------------------------------------------------------- *)
(* index arithmetic *)

Lemma mod_eq a n q r : (r < n)%nat -> a = (n * q + r)%nat -> (a mod n = r)%nat.
Proof. intros Hr Ha. symmetry. apply (Nat.mod_unique a n q r); assumption. Qed.

(* ------------------------------------------------------------------------------------------- *)
(* real sums (Rsum of Wave.Fields): a few more laws *)

Lemma Rsum_plus n f g : Rsum n (fun i => (f i + g i)%R) = (Rsum n f + Rsum n g)%R.
Proof. induction n as [|n IH]; cbn [Rsum]; [ring|rewrite IH; ring]. Qed.
Lemma Rsum_scal n c f : Rsum n (fun i => (c * f i)%R) = (c * Rsum n f)%R.
Proof. induction n as [|n IH]; cbn [Rsum]; [ring|rewrite IH; ring]. Qed.
Lemma Rsum_switch n m (f : nat -> nat -> R) :
  Rsum n (fun i => Rsum m (fun j => f i j)) = Rsum m (fun j => Rsum n (fun i => f i j)).
Proof.
  induction n as [|n IH]; cbn [Rsum].
  - symmetry. apply Rsum_zero. reflexivity.
  - rewrite IH, <- Rsum_plus. reflexivity.
Qed.
Lemma Rsum_shift1 n (f : nat -> R) : (Rsum n (fun k => f (k + 1)%nat) + f O = Rsum n f + f n)%R.
Proof.
  induction n as [|n IH]; cbn [Rsum]; [ring|].
  replace (n + 1)%nat with (S n) by lia.
  replace (Rsum n (fun k => f (k + 1)%nat)) with (Rsum n f + f n - f O)%R by lra. ring.
Qed.
Lemma Rsum_shift n (f : nat -> R) s : (forall k, f (k + n)%nat = f k) ->
  Rsum n (fun k => f (k + s)%nat) = Rsum n f.
Proof.
  intros Hper. induction s as [|s IH].
  - apply Rsum_ext; intros k _. rewrite Nat.add_0_r. reflexivity.
  - rewrite <- IH.
    pose proof (Rsum_shift1 n (fun k => f (k + s)%nat)) as H. cbv beta in H.
    rewrite (Rsum_ext n (fun k => f (k + S s)%nat) (fun k => f (k + 1 + s)%nat)).
    2:{ intros k _. f_equal. lia. }
    replace (f (n + s)%nat) with (f (0 + s)%nat) in H.
    2:{ rewrite <- (Hper (0 + s)%nat). f_equal. lia. }
    lra.
Qed.

(* ------------------------------------------------------------------------------------------- *)
(* finite complex sums *)

Fixpoint Csum (n : nat) (f : nat -> C) : C :=
  match n with O => RtoC 0 | S k => Cplus (Csum k f) (f k) end.

Lemma Csum_ext n f g : (forall i, (i < n)%nat -> f i = g i) -> Csum n f = Csum n g.
Proof. induction n as [|n IH]; intros H; cbn [Csum]; [reflexivity|]. rewrite IH, H; auto. Qed.
Lemma Csum_scal n (c : C) f : Csum n (fun i => c * f i) = c * Csum n f.
Proof. induction n as [|n IH]; cbn [Csum]; [ring|rewrite IH; ring]. Qed.
Lemma Csum_scal_r n (c : C) f : Csum n (fun i => f i * c) = Csum n f * c.
Proof. induction n as [|n IH]; cbn [Csum]; [ring|rewrite IH; ring]. Qed.
Lemma Csum_plus n f g : Csum n (fun i => f i + g i) = Csum n f + Csum n g.
Proof. induction n as [|n IH]; cbn [Csum]; [ring|rewrite IH; ring]. Qed.
Lemma Csum_zero n : Csum n (fun _ => RtoC 0) = 0.
Proof. induction n as [|n IH]; cbn [Csum]; [reflexivity|rewrite IH; ring]. Qed.
Lemma Csum_switch n m (f : nat -> nat -> C) :
  Csum n (fun i => Csum m (fun j => f i j)) = Csum m (fun j => Csum n (fun i => f i j)).
Proof.
  induction n as [|n IH]; cbn [Csum].
  - symmetry; apply Csum_zero.
  - rewrite IH, <- Csum_plus. reflexivity.
Qed.
Lemma Csum_const n (c : C) : Csum n (fun _ => c) = INR n * c.
Proof. induction n as [|n IH]; [cbn [Csum INR]; ring|]. cbn [Csum]. rewrite IH, S_INR, RtoC_plus. ring. Qed.
Lemma Csum_delta n j (f : nat -> C) : (j < n)%nat ->
  Csum n (fun l => if Nat.eqb l j then f l else 0) = f j.
Proof.
  induction n as [|n IH]; intros Hj; [lia|]. cbn [Csum]. destruct (Nat.eq_dec j n) as [E|E].
  - subst j. rewrite Nat.eqb_refl. rewrite (Csum_ext n _ (fun _ => RtoC 0)).
    + rewrite Csum_zero. ring.
    + intros i Hi. destruct (Nat.eqb i n) eqn:Ei; [apply Nat.eqb_eq in Ei; lia|reflexivity].
  - rewrite IH by lia. destruct (Nat.eqb n j) eqn:En; [apply Nat.eqb_eq in En; lia|ring].
Qed.
Lemma Csum_RtoC n (f : nat -> R) : Csum n (fun i => RtoC (f i)) = RtoC (Rsum n f).
Proof. induction n as [|n IH]; cbn [Csum Rsum]; [reflexivity|]. rewrite IH, RtoC_plus. reflexivity. Qed.

(* a cyclic shift permutes the summation range *)
Lemma Csum_shift1 n (f : nat -> C) : Csum n (fun k => f (k + 1)%nat) + f O = Csum n f + f n.
Proof.
  induction n as [|n IH]; cbn [Csum]; [ring|].
  replace (n + 1)%nat with (S n) by lia.
  replace (Csum n (fun k => f (k + 1)%nat) + f (S n) + f O)
    with (Csum n (fun k => f (k + 1)%nat) + f O + f (S n)) by ring.
  rewrite IH. reflexivity.
Qed.
Lemma Csum_shift n (f : nat -> C) s : (forall k, f (k + n)%nat = f k) ->
  Csum n (fun k => f (k + s)%nat) = Csum n f.
Proof.
  intros Hper. induction s as [|s IH].
  - apply Csum_ext; intros k _. rewrite Nat.add_0_r. reflexivity.
  - rewrite <- IH.
    pose proof (Csum_shift1 n (fun k => f (k + s)%nat)) as H. cbv beta in H.
    rewrite (Csum_ext n (fun k => f (k + S s)%nat) (fun k => f (k + 1 + s)%nat)).
    2:{ intros k _. f_equal. lia. }
    replace (f (n + s)%nat) with (f (0 + s)%nat) in H.
    2:{ rewrite <- (Hper (0 + s)%nat). f_equal. lia. }
    set (A := Csum n (fun k => f (k + 1 + s)%nat)) in *.
    set (B := Csum n (fun k => f (k + s)%nat)) in *.
    replace A with (A + f (0 + s)%nat - f (0 + s)%nat) by ring. rewrite H. ring.
Qed.

(* ------------------------------------------------------------------------------------------- *)
(* powers *)

Fixpoint Cpow (z : C) (n : nat) : C := match n with O => RtoC 1 | S k => Cmult z (Cpow z k) end.

Lemma Cpow_add z a b : Cpow z (a + b) = Cpow z a * Cpow z b.
Proof. induction a as [|a IH]; cbn [Cpow Nat.add]; [ring|rewrite IH; ring]. Qed.
Lemma Cpow_mul z a b : Cpow z (a * b) = Cpow (Cpow z a) b.
Proof.
  induction b as [|b IH]; [rewrite Nat.mul_0_r; reflexivity|].
  rewrite Nat.mul_succ_r, Cpow_add, IH. cbn [Cpow]. ring.
Qed.
Lemma Cpow_mult_distr (x y : C) k : Cpow (x * y) k = Cpow x k * Cpow y k.
Proof. induction k as [|k IH]; cbn [Cpow]; [ring|rewrite IH; ring]. Qed.
Lemma Cpow_1 k : Cpow 1 k = 1.
Proof. induction k as [|k IH]; cbn [Cpow]; [reflexivity|rewrite IH; ring]. Qed.
(* powers of an n-th root of unity are n-periodic in the exponent *)
Lemma Cpow_period z n q r : Cpow z n = 1 -> Cpow z (n * q + r) = Cpow z r.
Proof. intros Hz. rewrite Cpow_add, Cpow_mul, Hz, Cpow_1. ring. Qed.
Lemma Cpow_mod z n a : (0 < n)%nat -> Cpow z n = 1 -> Cpow z (a mod n) = Cpow z a.
Proof. intros Hn Hz. rewrite (Nat.div_mod a n) at 2 by lia. rewrite Cpow_period by exact Hz. reflexivity. Qed.

(* conjugation and squared modulus *)
Lemma Cconj_mult (a b : C) : Cconj (a * b) = Cconj a * Cconj b.
Proof. destruct a, b. unfold Cconj, Cmult; cbn [fst snd]. f_equal; ring. Qed.
Lemma Cconj_plus (a b : C) : Cconj (a + b) = Cconj a + Cconj b.
Proof. destruct a, b. unfold Cconj, Cplus; cbn [fst snd]. f_equal; ring. Qed.
Lemma Cconj_R (x : R) : Cconj (RtoC x) = RtoC x.
Proof. unfold Cconj, RtoC; cbn [fst snd]. f_equal; ring. Qed.
Lemma Cconj_sum m f : Cconj (Csum m f) = Csum m (fun i => Cconj (f i)).
Proof. induction m as [|m IH]; cbn [Csum]; [apply Cconj_R|]. rewrite Cconj_plus, IH. reflexivity. Qed.
Lemma Cconj_pow z k : Cconj (Cpow z k) = Cpow (Cconj z) k.
Proof. induction k as [|k IH]; cbn [Cpow]; [apply Cconj_R|]. rewrite Cconj_mult, IH. reflexivity. Qed.
Lemma n2_conj (z : C) : z * Cconj z = RtoC (n2 z).
Proof. destruct z. unfold n2, Cconj, Cmult, RtoC; cbn [fst snd]. f_equal; ring. Qed.

(* geometric sums *)
Lemma geom (r : C) (n : nat) : (1 - r) * Csum n (fun j => Cpow r j) = 1 - Cpow r n.
Proof.
  induction n as [|n IH]; cbn [Csum Cpow]; [ring|].
  replace ((1 - r) * (Csum n (fun j => Cpow r j) + Cpow r n))
    with ((1 - r) * Csum n (fun j => Cpow r j) + (1 - r) * Cpow r n) by ring.
  rewrite IH. ring.
Qed.
Lemma geom_zero (r : C) (n : nat) : r <> 1 -> Cpow r n = 1 -> Csum n (fun j => Cpow r j) = 0.
Proof.
  intros Hr Hn. pose proof (geom r n) as H. rewrite Hn in H.
  replace (1 - 1) with (RtoC 0) in H by ring.
  destruct (Ceq_dec (Csum n (fun j => Cpow r j)) 0) as [E|E]; [exact E|].
  exfalso. assert (H1 : 1 - r <> 0).
  { intro K. apply Hr. replace r with (1 - (1 - r)) by ring. rewrite K. ring. }
  apply (Cmult_neq_0 _ _ H1 E). exact H.
Qed.

(* ------------------------------------------------------------------------------------------- *)
(* orthogonality and inversion for an arbitrary primitive n-th root a with inverse b *)

Section Root.
Variable n : nat.
Variables a b : C.
Hypothesis n_pos : (0 < n)%nat.
Hypothesis a_n : Cpow a n = 1.
Hypothesis a_b : a * b = 1.
Hypothesis a_prim : forall d, (0 < d < n)%nat -> Cpow a d <> 1.

Lemma root_inv_n : Cpow b n = 1.
Proof.
  assert (H : Cpow a n * Cpow b n = 1) by (rewrite <- Cpow_mult_distr, a_b; apply Cpow_1).
  rewrite a_n in H. rewrite <- H. ring.
Qed.
Lemma root_inv_prim d : (0 < d < n)%nat -> Cpow b d <> 1.
Proof.
  intros Hd E. apply (a_prim d Hd).
  assert (H : Cpow a d * Cpow b d = 1) by (rewrite <- Cpow_mult_distr, a_b; apply Cpow_1).
  rewrite E in H. rewrite <- H. ring.
Qed.
Lemma root_cancel_l x y : (y <= x)%nat -> Cpow a x * Cpow b y = Cpow a (x - y).
Proof.
  intros H. replace x with ((x - y) + y)%nat at 1 by lia. rewrite Cpow_add.
  replace (Cpow a (x - y) * Cpow a y * Cpow b y) with (Cpow a (x - y) * (Cpow a y * Cpow b y)) by ring.
  rewrite <- Cpow_mult_distr, a_b, Cpow_1. ring.
Qed.
Lemma root_cancel_r x y : (x <= y)%nat -> Cpow a x * Cpow b y = Cpow b (y - x).
Proof.
  intros H. replace y with ((y - x) + x)%nat at 1 by lia. rewrite Cpow_add.
  replace (Cpow a x * (Cpow b (y - x) * Cpow b x)) with (Cpow b (y - x) * (Cpow a x * Cpow b x)) by ring.
  rewrite <- Cpow_mult_distr, a_b, Cpow_1. ring.
Qed.

Lemma root_ortho l j : (l < n)%nat -> (j < n)%nat ->
  Csum n (fun k => Cpow a (l * k) * Cpow b (j * k)) = if Nat.eqb l j then RtoC (INR n) else 0.
Proof.
  intros Hl Hj.
  rewrite (Csum_ext n _ (fun k => Cpow (Cpow a l * Cpow b j) k)).
  2:{ intros k _. rewrite Cpow_mult_distr, <- !Cpow_mul. reflexivity. }
  destruct (Nat.eqb l j) eqn:E.
  - apply Nat.eqb_eq in E. subst l. rewrite root_cancel_l by lia. rewrite Nat.sub_diag. cbn [Cpow].
    rewrite (Csum_ext n _ (fun _ => RtoC 1)) by (intros; apply Cpow_1). rewrite Csum_const. ring.
  - apply Nat.eqb_neq in E. apply geom_zero.
    + destruct (le_lt_dec j l) as [H|H].
      * rewrite root_cancel_l by lia. apply a_prim. lia.
      * rewrite root_cancel_r by lia. apply root_inv_prim. lia.
    + rewrite Cpow_mult_distr, <- !Cpow_mul, (Nat.mul_comm l n), (Nat.mul_comm j n), !Cpow_mul,
        a_n, root_inv_n, !Cpow_1. ring.
Qed.

Lemma INRn_neq0 : RtoC (INR n) <> 0.
Proof. intro K. apply RtoC_inj in K. apply (not_0_INR n); [lia|exact K]. Qed.

Lemma root_inversion u j : (j < n)%nat ->
  / INR n * Csum n (fun k => Csum n (fun l => u l * Cpow a (l * k)) * Cpow b (j * k)) = u j.
Proof.
  intros Hj.
  rewrite (Csum_ext n _ (fun k => Csum n (fun l => u l * (Cpow a (l * k) * Cpow b (j * k))))).
  2:{ intros k _. rewrite <- Csum_scal_r. apply Csum_ext. intros l _. ring. }
  rewrite Csum_switch.
  rewrite (Csum_ext n _ (fun l => if Nat.eqb l j then u l * INR n else 0)).
  2:{ intros l Hl. rewrite Csum_scal, root_ortho by assumption. destruct (Nat.eqb l j); ring. }
  rewrite Csum_delta by assumption.
  field. exact INRn_neq0.
Qed.

(* Parseval, complex form, when b is the conjugate of a *)
Hypothesis a_conj : Cconj a = b.
Lemma root_parseval u :
  Csum n (fun k => Csum n (fun j => u j * Cpow a (j * k)) * Cconj (Csum n (fun j => u j * Cpow a (j * k))))
  = INR n * Csum n (fun j => u j * Cconj (u j)).
Proof.
  rewrite (Csum_ext n _ (fun k => Csum n (fun j => Csum n (fun l =>
             (u j * Cconj (u l)) * (Cpow a (j * k) * Cpow b (l * k)))))).
  2:{ intros k _. rewrite Cconj_sum. rewrite <- Csum_scal_r. apply Csum_ext. intros j _.
      rewrite <- Csum_scal. apply Csum_ext. intros l _. rewrite Cconj_mult, Cconj_pow, a_conj. ring. }
  rewrite Csum_switch. rewrite <- Csum_scal. apply Csum_ext. intros j Hj.
  rewrite Csum_switch.
  rewrite (Csum_ext n _ (fun l => if Nat.eqb l j then (u j * Cconj (u l)) * INR n else 0)).
  2:{ intros l Hl. rewrite Csum_scal, root_ortho by assumption. rewrite (Nat.eqb_sym j l).
      destruct (Nat.eqb l j); ring. }
  rewrite Csum_delta by assumption. ring.
Qed.
End Root.

(* ------------------------------------------------------------------------------------------- *)
(* the concrete root of unity *)

Lemma Cexpi_pow t k : Cpow (Cexpi t) k = Cexpi (INR k * t).
Proof.
  induction k as [|k IH]; [cbn [Cpow INR]; rewrite Rmult_0_l, Cexpi_0; reflexivity|].
  cbn [Cpow]. rewrite IH, <- Cexpi_add. f_equal. rewrite S_INR. ring.
Qed.
Lemma Cexpi_conj t : Cconj (Cexpi t) = Cexpi (- t).
Proof. unfold Cconj, Cexpi; cbn [fst snd]. rewrite cos_neg, sin_neg. reflexivity. Qed.

Definition w (n : nat) : C := Cexpi (- (2 * PI / INR n)).
Definition wi (n : nat) : C := Cexpi (2 * PI / INR n).

Lemma INR_pos n : (0 < n)%nat -> (0 < INR n)%R.
Proof. apply lt_0_INR. Qed.

Lemma w_n n : (0 < n)%nat -> Cpow (w n) n = 1.
Proof.
  intros Hn. unfold w. rewrite Cexpi_pow.
  replace (INR n * - (2 * PI / INR n))%R with (- (2 * PI))%R by (field; pose proof (INR_pos n Hn); lra).
  unfold Cexpi. rewrite cos_neg, sin_neg, cos_2PI, sin_2PI. unfold RtoC. f_equal. ring.
Qed.
Lemma w_wi n : w n * wi n = 1.
Proof.
  unfold w, wi. rewrite <- Cexpi_add.
  replace (- (2 * PI / INR n) + 2 * PI / INR n)%R with 0%R by ring. apply Cexpi_0.
Qed.
Lemma wi_w n : wi n * w n = 1.
Proof. rewrite Cmult_comm. apply w_wi. Qed.
Lemma w_conj n : Cconj (w n) = wi n.
Proof. unfold w, wi. rewrite Cexpi_conj. f_equal. ring. Qed.
Lemma cos_lt_1 x : (0 < x < 2 * PI)%R -> (cos x < 1)%R.
Proof.
  intros Hx. replace x with (2 * (x / 2))%R by field. rewrite cos_2a_sin.
  assert (0 < sin (x / 2))%R by (apply sin_gt_0; lra). nra.
Qed.
Lemma w_prim n d : (0 < d < n)%nat -> Cpow (w n) d <> 1.
Proof.
  intros Hd E. unfold w in E. rewrite Cexpi_pow in E. unfold Cexpi, RtoC in E. inversion E as [[Hc Hs]].
  replace (INR d * - (2 * PI / INR n))%R with (- (INR d * (2 * PI / INR n)))%R in Hc by ring.
  rewrite cos_neg in Hc.
  assert (Hdn : (0 < INR d < INR n)%R) by (split; [apply lt_0_INR; lia|apply lt_INR; lia]).
  assert (Hr : (0 < INR d * (2 * PI / INR n) < 2 * PI)%R).
  { pose proof PI_RGT_0. split.
    - apply Rmult_lt_0_compat; [lra|]. apply Rdiv_lt_0_compat; lra.
    - replace (2 * PI)%R with (INR n * (2 * PI / INR n))%R at 2 by (field; lra).
      apply Rmult_lt_compat_r; [apply Rdiv_lt_0_compat; lra|lra]. }
  pose proof (cos_lt_1 _ Hr). lra.
Qed.
Lemma wi_n n : (0 < n)%nat -> Cpow (wi n) n = 1.
Proof. intros Hn. apply (root_inv_n n (w n) (wi n) (w_n n Hn) (w_wi n)). Qed.
Lemma wi_prim n d : (0 < d < n)%nat -> Cpow (wi n) d <> 1.
Proof. intros Hd. apply (root_inv_prim n (w n) (wi n) (w_wi n) (w_prim n)). exact Hd. Qed.
Lemma w_n2 n k : n2 (Cpow (w n) k) = 1%R.
Proof. unfold w. rewrite Cexpi_pow. apply Cexpi_n2. Qed.

(* orthogonality of the characters *)
Theorem w_ortho n l j : (l < n)%nat -> (j < n)%nat ->
  Csum n (fun k => Cpow (w n) (l * k) * Cpow (Cconj (w n)) (j * k)) = if Nat.eqb l j then RtoC (INR n) else 0.
Proof.
  intros Hl Hj. rewrite w_conj.
  apply (root_ortho n (w n) (wi n)); try assumption; [lia|apply w_n; lia|apply w_wi|apply w_prim].
Qed.

(* ------------------------------------------------------------------------------------------- *)
(* 1-D transforms *)

Definition dft (n : nat) (u : nat -> C) (k : nat) : C := Csum n (fun j => u j * Cpow (w n) (j * k)).
Definition idft (n : nat) (U : nat -> C) (j : nat) : C := / INR n * Csum n (fun k => U k * Cpow (wi n) (j * k)).

Lemma dft_ext n u v k : (forall j, (j < n)%nat -> u j = v j) -> dft n u k = dft n v k.
Proof. intros H. unfold dft. apply Csum_ext. intros j Hj. rewrite H by exact Hj. reflexivity. Qed.
Lemma idft_ext n U V j : (forall k, (k < n)%nat -> U k = V k) -> idft n U j = idft n V j.
Proof. intros H. unfold idft. f_equal. apply Csum_ext. intros k Hk. rewrite H by exact Hk. reflexivity. Qed.

Lemma dft_add n u v k : dft n (fun j => u j + v j) k = dft n u k + dft n v k.
Proof. unfold dft. rewrite <- Csum_plus. apply Csum_ext. intros j _. ring. Qed.
Lemma dft_scal n c u k : dft n (fun j => c * u j) k = c * dft n u k.
Proof. unfold dft. rewrite <- Csum_scal. apply Csum_ext. intros j _. ring. Qed.
Lemma dft_scal_r n c u k : dft n (fun j => u j * c) k = dft n u k * c.
Proof. unfold dft. rewrite <- Csum_scal_r. apply Csum_ext. intros j _. ring. Qed.
Lemma idft_add n U V j : idft n (fun k => U k + V k) j = idft n U j + idft n V j.
Proof.
  unfold idft. rewrite <- Cmult_plus_distr_l, <- Csum_plus. f_equal. apply Csum_ext. intros k _. ring.
Qed.
Lemma idft_scal n c U j : idft n (fun k => c * U k) j = c * idft n U j.
Proof.
  unfold idft.
  rewrite (Csum_ext n _ (fun k => c * (U k * Cpow (wi n) (j * k)))) by (intros k _; ring).
  rewrite Csum_scal. ring.
Qed.
Lemma idft_scal_r n c U j : idft n (fun k => U k * c) j = idft n U j * c.
Proof.
  rewrite (idft_ext n _ (fun k => c * U k)) by (intros k _; ring). rewrite idft_scal. ring.
Qed.

Theorem idft_dft n u j : (j < n)%nat -> idft n (dft n u) j = u j.
Proof.
  intros Hj. unfold idft, dft.
  apply (root_inversion n (w n) (wi n)); try assumption; [lia|apply w_n; lia|apply w_wi|apply w_prim].
Qed.

Theorem dft_idft n U k : (k < n)%nat -> dft n (idft n U) k = U k.
Proof.
  intros Hk. unfold idft, dft.
  rewrite (Csum_ext n _ (fun j => / INR n * (Csum n (fun l => U l * Cpow (wi n) (l * j)) * Cpow (w n) (k * j)))).
  2:{ intros j _. rewrite (Nat.mul_comm k j).
      rewrite (Csum_ext n (fun l => U l * Cpow (wi n) (l * j)) (fun l => U l * Cpow (wi n) (j * l))).
      - ring.
      - intros l _. rewrite (Nat.mul_comm l j). reflexivity. }
  rewrite Csum_scal.
  apply (root_inversion n (wi n) (w n)); try assumption; [lia|apply wi_n; lia|apply wi_w|apply wi_prim].
Qed.

Theorem parseval_C n u : (0 < n)%nat ->
  Csum n (fun k => dft n u k * Cconj (dft n u k)) = INR n * Csum n (fun j => u j * Cconj (u j)).
Proof.
  intros Hn. unfold dft.
  apply (root_parseval n (w n) (wi n)); [lia|apply w_n; lia|apply w_wi|apply w_prim|apply w_conj].
Qed.

Theorem parseval_R n u : (0 < n)%nat ->
  Rsum n (fun k => n2 (dft n u k)) = (INR n * Rsum n (fun j => n2 (u j)))%R.
Proof.
  intros Hn. apply RtoC_inj. rewrite RtoC_mult, <- !Csum_RtoC.
  rewrite (Csum_ext n _ (fun k => dft n u k * Cconj (dft n u k))) by (intros; symmetry; apply n2_conj).
  rewrite (Csum_ext n (fun i => RtoC (n2 (u i))) (fun j => u j * Cconj (u j))) by (intros; symmetry; apply n2_conj).
  apply parseval_C. exact Hn.
Qed.

(* ------------------------------------------------------------------------------------------- *)
(* circular roll by s (np.roll): out[i] = in[(i - s) mod n] *)

Definition ridx (n s i : nat) : nat := ((i + n - s mod n) mod n)%nat.

Lemma ridx_lt n s i : (0 < n)%nat -> (ridx n s i < n)%nat.
Proof. intros Hn. unfold ridx. apply Nat.mod_upper_bound. lia. Qed.

(* rolling by s then by s' with s + s' = 0 (mod n) is the identity on the range *)
Lemma ridx_inv n s s' i : (0 < n)%nat -> ((s + s') mod n = 0)%nat -> (i < n)%nat ->
  ridx n s' (ridx n s i) = i.
Proof.
  intros Hn Hss Hi. unfold ridx.
  rewrite Nat.add_mod in Hss by lia.
  pose proof (Nat.mod_upper_bound s n ltac:(lia)) as Ha.
  pose proof (Nat.mod_upper_bound s' n ltac:(lia)) as Hb.
  set (x := (s mod n)%nat) in *. set (y := (s' mod n)%nat) in *.
  pose proof (Nat.div_mod (x + y) n ltac:(lia)) as Hd. rewrite Hss in Hd.
  set (q := ((x + y) / n)%nat) in *.
  assert (Hq : (q = 0 \/ q = 1)%nat) by nia.
  destruct Hq as [Hq|Hq]; rewrite Hq in Hd.
  - assert (x = 0)%nat by lia. assert (y = 0)%nat by lia.
    replace ((i + n - x) mod n)%nat with i by (symmetry; apply (mod_eq _ n 1 i); lia).
    apply (mod_eq _ n 1 i); lia.
  - destruct (le_lt_dec x i) as [Hxi|Hxi].
    + replace ((i + n - x) mod n)%nat with (i - x)%nat by (symmetry; apply (mod_eq _ n 1 (i - x)); lia).
      apply (mod_eq _ n 0 i); lia.
    + replace ((i + n - x) mod n)%nat with (i + n - x)%nat by (symmetry; apply (mod_eq _ n 0 (i + n - x)); lia).
      apply (mod_eq _ n 1 i); lia.
Qed.

Lemma Rsum_roll n s (f : nat -> R) : (0 < n)%nat -> Rsum n (fun i => f (ridx n s i)) = Rsum n f.
Proof.
  intros Hn. pose proof (Nat.mod_upper_bound s n ltac:(lia)) as Ha.
  pose proof (Rsum_shift n (fun k => f (k mod n)%nat) (n - s mod n)) as H. cbv beta in H.
  rewrite (Rsum_ext n _ (fun k => f ((k + (n - s mod n)) mod n)%nat)).
  2:{ intros i _. unfold ridx. do 2 f_equal. lia. }
  rewrite H.
  - apply Rsum_ext. intros i Hi. rewrite Nat.mod_small by exact Hi. reflexivity.
  - intros k. f_equal. replace (k + n)%nat with (k + 1 * n)%nat by lia. apply Nat.mod_add. lia.
Qed.
Lemma Csum_roll n s (f : nat -> C) : (0 < n)%nat -> Csum n (fun i => f (ridx n s i)) = Csum n f.
Proof.
  intros Hn. pose proof (Nat.mod_upper_bound s n ltac:(lia)) as Ha.
  pose proof (Csum_shift n (fun k => f (k mod n)%nat) (n - s mod n)) as H. cbv beta in H.
  rewrite (Csum_ext n _ (fun k => f ((k + (n - s mod n)) mod n)%nat)).
  2:{ intros i _. unfold ridx. do 2 f_equal. lia. }
  rewrite H.
  - apply Csum_ext. intros i Hi. rewrite Nat.mod_small by exact Hi. reflexivity.
  - intros k. f_equal. replace (k + n)%nat with (k + 1 * n)%nat by lia. apply Nat.mod_add. lia.
Qed.

(* shift theorem: rolling the signal multiplies the spectrum by a phase ramp *)
Theorem dft_roll n s u k : (0 < n)%nat ->
  dft n (fun i => u (ridx n s i)) k = Cpow (w n) (s * k) * dft n u k.
Proof.
  intros Hn. pose proof (Nat.mod_upper_bound s n ltac:(lia)) as Ha.
  pose proof (w_n n Hn) as Hw.
  set (x := (s mod n)%nat) in *.
  assert (Hsk : Cpow (w n) (s * k) = Cpow (w n) (x * k)).
  { rewrite (Nat.div_mod s n) at 1 by lia. fold x.
    replace ((n * (s / n) + x) * k)%nat with (n * (s / n * k) + x * k)%nat by ring.
    apply Cpow_period. exact Hw. }
  rewrite Hsk. unfold dft.
  pose proof (Csum_shift n (fun i => u (ridx n s i) * Cpow (w n) (i * k)) x) as H. cbv beta in H.
  rewrite <- H.
  - rewrite <- Csum_scal. apply Csum_ext. intros i Hi.
    replace (ridx n s (i + x)) with i.
    + rewrite Nat.mul_add_distr_r, Cpow_add. ring.
    + symmetry. unfold ridx. fold x. apply (mod_eq _ n 1 i); lia.
  - intros i. f_equal.
    + f_equal. unfold ridx. fold x. replace (i + n + n - x)%nat with (i + n - x + 1 * n)%nat by lia.
      apply Nat.mod_add. lia.
    + replace ((i + n) * k)%nat with (n * k + i * k)%nat by ring. apply Cpow_period. exact Hw.
Qed.

(* sanity: the sign convention is the numpy / torch one, forward kernel exp(-2 pi i j k / n) *)
Lemma w_1 : w 1 = 1.
Proof. rewrite <- (w_n 1) by lia. cbn [Cpow]. ring. Qed.
Lemma w_2 : w 2 = Copp (RtoC 1).
Proof.
  unfold w, Cexpi. replace (- (2 * PI / INR 2))%R with (- PI)%R by (cbn [INR]; field).
  rewrite cos_neg, sin_neg, cos_PI, sin_PI. unfold RtoC, Copp; cbn [fst snd]. f_equal.
Qed.
Lemma w_4 : w 4 = Copp Ci.
Proof.
  unfold w, Cexpi. replace (- (2 * PI / INR 4))%R with (- (PI / 2))%R by (cbn [INR]; field).
  rewrite cos_neg, sin_neg, cos_PI2, sin_PI2. unfold Ci, Copp; cbn [fst snd]. f_equal. ring.
Qed.
Lemma dft_2 u : dft 2 u 1 = u O - u 1%nat.
Proof. unfold dft. cbn [Csum Nat.mul Nat.add Cpow]. rewrite w_2. ring. Qed.

Print Assumptions w_ortho.
Print Assumptions idft_dft.
Print Assumptions dft_idft.
Print Assumptions parseval_R.
Print Assumptions dft_roll.
