(* Two-dimensional DFT and circular rolls on the n x m grid of Wave/Fields.v: the concrete operators
   F2 (fft2, unnormalised), Finv2 (ifft2, factor 1/(n m)), S2 (fftshift, roll by floor(n/2) per axis),
   Sinv2 (ifftshift, roll by ceil(n/2) per axis) satisfy every contract that Section Grid of
   Wave/Fields.v assumes (Theorem dft_contracts), and np.roll by (s, t) with the phase ramp
   w n^(s k) w m^(t l) satisfies the modulation law of Section Shift (Theorem dft_modulation). *)
From Coq Require Import Reals Lra Lia Arith Bool FunctionalExtensionality.
From Coquelicot Require Import Complex.
From OdakV Require Import Wave.Fields Wave.Kernels Wave.Dft1.
Open Scope R_scope.
Open Scope C_scope.

(* ------------------------------------------------------------------------------------------- *)
(* clipping helpers *)

Lemma clip_ext n m (u v : fld) :
  (forall i j, (i < n)%nat -> (j < m)%nat -> u i j = v i j) -> clip n m u = clip n m v.
Proof.
  intros H. extensionality i; extensionality j. unfold clip, inb.
  destruct (Nat.ltb i n) eqn:Ei; destruct (Nat.ltb j m) eqn:Ej; cbn [andb]; try reflexivity.
  apply H; apply Nat.ltb_lt; assumption.
Qed.
Lemma fmul_clip_clip n m a b : fmul (clip n m a) (clip n m b) = clip n m (fmul a b).
Proof. rewrite fmul_clip_l, fmul_clip_r, clip_idem. reflexivity. Qed.

(* ------------------------------------------------------------------------------------------- *)
(* the transforms *)

Definition F2raw (n m : nat) (u : fld) : fld := fun k l =>
  Csum n (fun i => Csum m (fun j => u i j * Cpow (w n) (i * k) * Cpow (w m) (j * l))).
Definition F2 (n m : nat) (u : fld) : fld := clip n m (F2raw n m u).

Definition Finv2raw (n m : nat) (U : fld) : fld := fun i j =>
  / (INR n * INR m) * Csum n (fun k => Csum m (fun l => U k l * Cpow (wi n) (i * k) * Cpow (wi m) (j * l))).
Definition Finv2 (n m : nat) (U : fld) : fld := clip n m (Finv2raw n m U).

Lemma F2raw_ext n m u v : (forall i j, (i < n)%nat -> (j < m)%nat -> u i j = v i j) -> F2raw n m u = F2raw n m v.
Proof.
  intros H. extensionality k; extensionality l. unfold F2raw.
  apply Csum_ext; intros i Hi. apply Csum_ext; intros j Hj. rewrite H by assumption. reflexivity.
Qed.
Lemma Finv2raw_ext n m u v : (forall i j, (i < n)%nat -> (j < m)%nat -> u i j = v i j) -> Finv2raw n m u = Finv2raw n m v.
Proof.
  intros H. extensionality k; extensionality l. unfold Finv2raw. f_equal.
  apply Csum_ext; intros i Hi. apply Csum_ext; intros j Hj. rewrite H by assumption. reflexivity.
Qed.

(* the 2-D transforms are iterated 1-D transforms, in either order *)
Lemma F2raw_rows n m u k l : F2raw n m u k l = dft n (fun i => dft m (fun j => u i j) l) k.
Proof.
  unfold F2raw, dft. apply Csum_ext; intros i _. rewrite <- Csum_scal_r. apply Csum_ext; intros j _. ring.
Qed.
Lemma F2raw_cols n m u k l : F2raw n m u k l = dft m (fun j => dft n (fun i => u i j) k) l.
Proof.
  unfold F2raw, dft. rewrite Csum_switch. apply Csum_ext; intros j _. rewrite <- Csum_scal_r.
  apply Csum_ext; intros i _. ring.
Qed.

Lemma INR_C_neq0 n : (0 < n)%nat -> RtoC (INR n) <> 0.
Proof. intros Hn K. apply RtoC_inj in K. apply (not_0_INR n); [lia|exact K]. Qed.

Lemma Finv2raw_rows n m U i j : (0 < n)%nat -> (0 < m)%nat ->
  Finv2raw n m U i j = idft n (fun k => idft m (fun l => U k l) j) i.
Proof.
  intros Hn Hm. unfold Finv2raw, idft.
  rewrite (Csum_ext n (fun k => / INR m * Csum m (fun l => U k l * Cpow (wi m) (j * l)) * Cpow (wi n) (i * k))
                      (fun k => / INR m * Csum m (fun l => U k l * Cpow (wi n) (i * k) * Cpow (wi m) (j * l)))).
  2:{ intros k _. rewrite <- Cmult_assoc. f_equal. rewrite <- Csum_scal_r. apply Csum_ext; intros l _. ring. }
  rewrite Csum_scal. field. split; apply INR_C_neq0; assumption.
Qed.
Lemma Finv2raw_cols n m U i j : (0 < n)%nat -> (0 < m)%nat ->
  Finv2raw n m U i j = idft m (fun l => idft n (fun k => U k l) i) j.
Proof.
  intros Hn Hm. unfold Finv2raw, idft. rewrite Csum_switch.
  rewrite (Csum_ext m (fun l => / INR n * Csum n (fun k => U k l * Cpow (wi n) (i * k)) * Cpow (wi m) (j * l))
                      (fun l => / INR n * Csum n (fun k => U k l * Cpow (wi n) (i * k) * Cpow (wi m) (j * l)))).
  2:{ intros l _. rewrite <- Cmult_assoc. f_equal. rewrite <- Csum_scal_r. reflexivity. }
  rewrite Csum_scal. field. split; apply INR_C_neq0; assumption.
Qed.

(* ------------------------------------------------------------------------------------------- *)
(* contracts of F2 / Finv2 *)

Theorem dft_N_pos n m : (0 < n)%nat -> (0 < m)%nat -> (0 < INR n * INR m)%R.
Proof. intros Hn Hm. apply Rmult_lt_0_compat; apply lt_0_INR; assumption. Qed.

Theorem F2_dom n m u : F2 n m (clip n m u) = F2 n m u.
Proof. unfold F2. f_equal. apply F2raw_ext. intros; apply clip_in; assumption. Qed.
Theorem Finv2_dom n m u : Finv2 n m (clip n m u) = Finv2 n m u.
Proof. unfold Finv2. f_equal. apply Finv2raw_ext. intros; apply clip_in; assumption. Qed.

Theorem F2_add n m u v : F2 n m (fadd u v) = fadd (F2 n m u) (F2 n m v).
Proof.
  unfold F2. rewrite fadd_clip. f_equal. extensionality k; extensionality l. unfold fadd, F2raw.
  rewrite <- Csum_plus. apply Csum_ext; intros i _. rewrite <- Csum_plus. apply Csum_ext; intros j _. ring.
Qed.
Theorem F2_scal n m a u : F2 n m (fscal a u) = fscal a (F2 n m u).
Proof.
  unfold F2. rewrite fscal_clip. f_equal. extensionality k; extensionality l. unfold fscal, F2raw.
  rewrite <- Csum_scal. apply Csum_ext; intros i _. rewrite <- Csum_scal. apply Csum_ext; intros j _. ring.
Qed.
Theorem Finv2_add n m u v : Finv2 n m (fadd u v) = fadd (Finv2 n m u) (Finv2 n m v).
Proof.
  unfold Finv2. rewrite fadd_clip. f_equal. extensionality k; extensionality l. unfold fadd, Finv2raw.
  rewrite <- Cmult_plus_distr_l. f_equal.
  rewrite <- Csum_plus. apply Csum_ext; intros i _. rewrite <- Csum_plus. apply Csum_ext; intros j _. ring.
Qed.
Theorem Finv2_scal n m a u : Finv2 n m (fscal a u) = fscal a (Finv2 n m u).
Proof.
  unfold Finv2. rewrite fscal_clip. f_equal. extensionality k; extensionality l. unfold fscal, Finv2raw.
  rewrite (Csum_ext n _ (fun i => a * Csum m (fun j => u i j * Cpow (wi n) (k * i) * Cpow (wi m) (l * j)))).
  2:{ intros i _. rewrite <- Csum_scal. apply Csum_ext; intros j _. ring. }
  rewrite Csum_scal. ring.
Qed.

Theorem Finv2_F2 n m u : (0 < n)%nat -> (0 < m)%nat -> Finv2 n m (F2 n m u) = clip n m u.
Proof.
  intros Hn Hm. unfold F2. rewrite Finv2_dom. unfold Finv2. apply clip_ext. intros i j Hi Hj.
  rewrite Finv2raw_rows by assumption.
  rewrite (idft_ext n _ (fun k => dft n (fun i' => u i' j) k)).
  - apply (idft_dft n (fun i' => u i' j) i Hi).
  - intros k Hk.
    rewrite (idft_ext m _ (dft m (fun j' => dft n (fun i' => u i' j') k))) by (intros l _; apply F2raw_cols).
    apply (idft_dft m (fun j' => dft n (fun i' => u i' j') k) j Hj).
Qed.
Theorem F2_Finv2 n m U : (0 < n)%nat -> (0 < m)%nat -> F2 n m (Finv2 n m U) = clip n m U.
Proof.
  intros Hn Hm. unfold Finv2. rewrite F2_dom. unfold F2. apply clip_ext. intros k l Hk Hl.
  rewrite F2raw_rows.
  rewrite (dft_ext n _ (fun i => idft n (fun k' => U k' l) i)).
  - apply (dft_idft n (fun k' => U k' l) k Hk).
  - intros i Hi.
    rewrite (dft_ext m _ (idft m (fun l' => idft n (fun k' => U k' l') i))) by (intros j _; apply Finv2raw_cols; assumption).
    apply (dft_idft m (fun l' => idft n (fun k' => U k' l') i) l Hl).
Qed.

Theorem F2_parseval n m u : (0 < n)%nat -> (0 < m)%nat ->
  energy n m (F2 n m u) = (INR n * INR m * energy n m u)%R.
Proof.
  intros Hn Hm. unfold F2. rewrite energy_clip. unfold energy.
  rewrite (Rsum_ext n _ (fun k => (INR m * Rsum m (fun j => n2 (dft n (fun i => u i j) k)))%R)).
  2:{ intros k _.
      rewrite (Rsum_ext m _ (fun l => n2 (dft m (fun j => dft n (fun i => u i j) k) l)))
        by (intros l _; rewrite F2raw_cols; reflexivity).
      apply parseval_R. exact Hm. }
  rewrite Rsum_scal, Rsum_switch.
  rewrite (Rsum_ext m _ (fun j => (INR n * Rsum n (fun i => n2 (u i j)))%R)).
  2:{ intros j _. apply (parseval_R n (fun i => u i j)). exact Hn. }
  rewrite Rsum_scal, Rsum_switch. ring.
Qed.

(* ------------------------------------------------------------------------------------------- *)
(* rolls: np.roll by (s, t), fftshift, ifftshift *)

Definition roll2 (n m s t : nat) (u : fld) : fld :=
  clip n m (fun i j => u ((i + n - s mod n) mod n)%nat ((j + m - t mod m) mod m)%nat).
Definition S2 (n m : nat) : fld -> fld := roll2 n m (n / 2) (m / 2).
Definition Sinv2 (n m : nat) : fld -> fld := roll2 n m (n - n / 2) (m - m / 2).

Lemma roll2_ridx n m s t u : roll2 n m s t u = clip n m (fun i j => u (ridx n s i) (ridx m t j)).
Proof. reflexivity. Qed.

Lemma roll2_in n m s t u i j : (i < n)%nat -> (j < m)%nat -> roll2 n m s t u i j = u (ridx n s i) (ridx m t j).
Proof. intros Hi Hj. rewrite roll2_ridx. apply (clip_in n m (fun i' j' => u (ridx n s i') (ridx m t j')) i j Hi Hj). Qed.

Lemma clip_roll2 n m s t u : clip n m (roll2 n m s t u) = roll2 n m s t u.
Proof. unfold roll2. apply clip_idem. Qed.

Theorem roll2_dom n m s t u : roll2 n m s t (clip n m u) = roll2 n m s t u.
Proof.
  rewrite !roll2_ridx. apply clip_ext. intros i j Hi Hj.
  apply (clip_in n m u); apply ridx_lt; lia.
Qed.
Theorem roll2_add n m s t u v : roll2 n m s t (fadd u v) = fadd (roll2 n m s t u) (roll2 n m s t v).
Proof. unfold roll2. rewrite fadd_clip. reflexivity. Qed.
Theorem roll2_scal n m s t a u : roll2 n m s t (fscal a u) = fscal a (roll2 n m s t u).
Proof. unfold roll2. rewrite fscal_clip. reflexivity. Qed.
Theorem roll2_mul n m s t a b : roll2 n m s t (fmul a b) = fmul (roll2 n m s t a) (roll2 n m s t b).
Proof. unfold roll2. rewrite fmul_clip_clip. reflexivity. Qed.

Theorem roll2_inverse n m s t s' t' u : ((s + s') mod n = 0)%nat -> ((t + t') mod m = 0)%nat ->
  roll2 n m s t (roll2 n m s' t' u) = clip n m u.
Proof.
  intros Hs Ht. rewrite (roll2_ridx n m s t). apply clip_ext. intros i j Hi Hj.
  rewrite roll2_in by (apply ridx_lt; lia).
  rewrite !ridx_inv by (assumption || lia). reflexivity.
Qed.

Theorem roll2_energy n m s t u : energy n m (roll2 n m s t u) = energy n m u.
Proof.
  rewrite roll2_ridx, energy_clip. unfold energy.
  destruct (Nat.eq_dec n 0) as [->|Hn]; [reflexivity|].
  destruct (Nat.eq_dec m 0) as [->|Hm]; [reflexivity|].
  rewrite (Rsum_roll n s (fun i' => Rsum m (fun j => n2 (u i' (ridx m t j))))) by lia.
  apply Rsum_ext; intros i _.
  apply (Rsum_roll m t (fun j' => n2 (u i j'))). lia.
Qed.

Lemma half_sum_l n : (0 < n)%nat -> ((n / 2 + (n - n / 2)) mod n = 0)%nat.
Proof.
  intros Hn. assert (n / 2 <= n)%nat by (apply Nat.div_le_upper_bound; lia).
  replace (n / 2 + (n - n / 2))%nat with n by lia. apply Nat.mod_same. lia.
Qed.
Lemma half_sum_r n : (0 < n)%nat -> ((n - n / 2 + n / 2) mod n = 0)%nat.
Proof. intros Hn. rewrite Nat.add_comm. apply half_sum_l. exact Hn. Qed.

Theorem S2_Sinv2 n m u : (0 < n)%nat -> (0 < m)%nat -> S2 n m (Sinv2 n m u) = clip n m u.
Proof. intros Hn Hm. apply roll2_inverse; apply half_sum_l; assumption. Qed.
Theorem Sinv2_S2 n m u : (0 < n)%nat -> (0 < m)%nat -> Sinv2 n m (S2 n m u) = clip n m u.
Proof. intros Hn Hm. apply roll2_inverse; apply half_sum_r; assumption. Qed.

(* fftshift really moves index 0 to the centre floor(n/2), and ifftshift moves it back *)
Lemma S2_centre n m u : (0 < n)%nat -> (0 < m)%nat -> S2 n m u (n / 2)%nat (m / 2)%nat = u O O.
Proof.
  intros Hn Hm.
  assert (Hn2 : (n / 2 < n)%nat) by (apply Nat.div_lt; lia).
  assert (Hm2 : (m / 2 < m)%nat) by (apply Nat.div_lt; lia).
  unfold S2. rewrite roll2_in by assumption. unfold ridx.
  rewrite (Nat.mod_small (n / 2) n), (Nat.mod_small (m / 2) m) by assumption.
  replace (n / 2 + n - n / 2)%nat with n by lia. replace (m / 2 + m - m / 2)%nat with m by lia.
  rewrite !Nat.mod_same by lia. reflexivity.
Qed.

(* ------------------------------------------------------------------------------------------- *)
(* the modulation (shift) law *)

Definition ramp (n m s t : nat) : fld := fun k l => Cpow (w n) (s * k) * Cpow (w m) (t * l).

Theorem F2_roll2 n m s t u : (0 < n)%nat -> (0 < m)%nat ->
  F2 n m (roll2 n m s t u) = fmul (ramp n m s t) (F2 n m u).
Proof.
  intros Hn Hm. rewrite roll2_ridx, F2_dom. unfold F2. rewrite fmul_clip_r.
  apply clip_ext. intros k l Hk Hl. unfold fmul, ramp. rewrite !F2raw_rows.
  rewrite (dft_ext n _ (fun i => Cpow (w m) (t * l) * (fun i' => dft m (fun j => u i' j) l) (ridx n s i))).
  2:{ intros i _. cbv beta. apply (dft_roll m t (fun j => u (ridx n s i) j) l). exact Hm. }
  rewrite dft_scal.
  rewrite (dft_roll n s (fun i' => dft m (fun j => u i' j) l) k) by exact Hn.
  ring.
Qed.

Theorem Finv2_ramp n m s t U : (0 < n)%nat -> (0 < m)%nat ->
  Finv2 n m (fmul (ramp n m s t) U) = roll2 n m s t (Finv2 n m U).
Proof.
  intros Hn Hm.
  rewrite <- (Finv2_dom n m (fmul _ _)), <- fmul_clip_r.
  rewrite <- (F2_Finv2 n m U Hn Hm), <- F2_roll2 by assumption.
  rewrite Finv2_F2 by assumption. apply clip_roll2.
Qed.

(* ------------------------------------------------------------------------------------------- *)
(* all Section Grid hypotheses of Wave/Fields.v, in the order and form in which they are stated there *)

Theorem dft_contracts n m : (0 < n)%nat -> (0 < m)%nat ->
  (* N_pos      *) (0 < INR n * INR m)%R /\
  (* F_dom      *) (forall u, F2 n m (clip n m u) = F2 n m u) /\
  (* Finv_dom   *) (forall u, Finv2 n m (clip n m u) = Finv2 n m u) /\
  (* S_dom      *) (forall u, S2 n m (clip n m u) = S2 n m u) /\
  (* Sinv_dom   *) (forall u, Sinv2 n m (clip n m u) = Sinv2 n m u) /\
  (* F_add      *) (forall u v, F2 n m (fadd u v) = fadd (F2 n m u) (F2 n m v)) /\
  (* F_scal     *) (forall a u, F2 n m (fscal a u) = fscal a (F2 n m u)) /\
  (* Finv_add   *) (forall u v, Finv2 n m (fadd u v) = fadd (Finv2 n m u) (Finv2 n m v)) /\
  (* Finv_scal  *) (forall a u, Finv2 n m (fscal a u) = fscal a (Finv2 n m u)) /\
  (* Finv_F     *) (forall u, Finv2 n m (F2 n m u) = clip n m u) /\
  (* F_Finv     *) (forall u, F2 n m (Finv2 n m u) = clip n m u) /\
  (* parseval   *) (forall u, energy n m (F2 n m u) = (INR n * INR m * energy n m u)%R) /\
  (* S_Sinv     *) (forall u, S2 n m (Sinv2 n m u) = clip n m u) /\
  (* Sinv_S     *) (forall u, Sinv2 n m (S2 n m u) = clip n m u) /\
  (* S_energy   *) (forall u, energy n m (S2 n m u) = energy n m u) /\
  (* S_add      *) (forall u v, S2 n m (fadd u v) = fadd (S2 n m u) (S2 n m v)) /\
  (* S_scal     *) (forall a u, S2 n m (fscal a u) = fscal a (S2 n m u)) /\
  (* Sinv_add   *) (forall u v, Sinv2 n m (fadd u v) = fadd (Sinv2 n m u) (Sinv2 n m v)) /\
  (* Sinv_scal  *) (forall a u, Sinv2 n m (fscal a u) = fscal a (Sinv2 n m u)) /\
  (* S_mul      *) (forall a b, S2 n m (fmul a b) = fmul (S2 n m a) (S2 n m b)) /\
  (* Sinv_mul   *) (forall a b, Sinv2 n m (fmul a b) = fmul (Sinv2 n m a) (Sinv2 n m b)).
Proof.
  intros Hn Hm. unfold S2, Sinv2.
  split; [apply dft_N_pos; assumption|].
  split; [intros; apply F2_dom|].
  split; [intros; apply Finv2_dom|].
  split; [intros; apply roll2_dom|].
  split; [intros; apply roll2_dom|].
  split; [intros; apply F2_add|].
  split; [intros; apply F2_scal|].
  split; [intros; apply Finv2_add|].
  split; [intros; apply Finv2_scal|].
  split; [intros; apply Finv2_F2; assumption|].
  split; [intros; apply F2_Finv2; assumption|].
  split; [intros; apply F2_parseval; assumption|].
  split; [intros; apply (S2_Sinv2 n m); assumption|].
  split; [intros; apply (Sinv2_S2 n m); assumption|].
  split; [intros; apply roll2_energy|].
  split; [intros; apply roll2_add|].
  split; [intros; apply roll2_scal|].
  split; [intros; apply roll2_add|].
  split; [intros; apply roll2_scal|].
  split; [intros; apply roll2_mul|].
  intros; apply roll2_mul.
Qed.

(* Section Shift: np.roll by (s, t) and the ramp w n^(s k) w m^(t l) *)
Theorem dft_modulation n m s t : (0 < n)%nat -> (0 < m)%nat ->
  let T := fun u : fld => clip n m (fun i j => u ((i + n - s mod n) mod n)%nat ((j + m - t mod m) mod m)%nat) in
  let Ph : fld := fun k l => Cpow (w n) (s * k) * Cpow (w m) (t * l) in
  (* modulation     *) (forall u, F2 n m (T u) = fmul Ph (F2 n m u)) /\
  (* modulation_inv *) (forall U, Finv2 n m (fmul Ph U) = T (Finv2 n m U)).
Proof.
  intros Hn Hm T Ph. split.
  - intros u. apply (F2_roll2 n m s t u Hn Hm).
  - intros U. apply (Finv2_ramp n m s t U Hn Hm).
Qed.

Print Assumptions dft_contracts.
Print Assumptions dft_modulation.
