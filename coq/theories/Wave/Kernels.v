(* Transfer functions of free-space propagation, per frequency sample: unit-modulus phasors
   exp(i phase) with a phase that is linear in the distance, optionally times a 0/1 band-limit mask. *)
From Coq Require Import Reals Lra Bool Psatz.
From Coquelicot Require Import Complex.
From OdakV Require Import Base.RealAux Wave.Fields.
Open Scope R_scope.

Definition Cexpi (t : R) : C := (cos t, sin t).
Lemma Cexpi_n2 t : n2 (Cexpi t) = 1.
Proof. unfold n2, Cexpi; simpl. pose proof (sin2_cos2 t) as H. unfold Rsqr in H. lra. Qed.
Lemma Cexpi_add a b : Cexpi (a + b) = Cmult (Cexpi a) (Cexpi b).
Proof. unfold Cexpi, Cmult; simpl. rewrite cos_plus, sin_plus. f_equal; ring. Qed.
Lemma Cexpi_0 : Cexpi 0 = RtoC 1.
Proof. unfold Cexpi, RtoC. rewrite cos_0, sin_0. reflexivity. Qed.
Lemma Cexpi_neg a : Cmult (Cexpi a) (Cexpi (- a)) = RtoC 1.
Proof. rewrite <- Cexpi_add. replace (a + - a) with 0 by ring. apply Cexpi_0. Qed.

(* a pixel of a transfer function whose phase is additive in the distance *)
Section Additive.
Variable ph : R -> R.
Hypothesis ph_add : forall z1 z2, ph (z1 + z2) = ph z1 + ph z2.
Lemma ph_0 : ph 0 = 0.
Proof. pose proof (ph_add 0 0) as H. rewrite Rplus_0_l in H. lra. Qed.
Lemma ph_opp z : ph (- z) = - ph z.
Proof. pose proof (ph_add z (- z)) as H. replace (z + - z) with 0 in H by ring. rewrite ph_0 in H. lra. Qed.
Lemma kernel_unit z : n2 (Cexpi (ph z)) = 1.
Proof. apply Cexpi_n2. Qed.
Lemma kernel_compose z1 z2 : Cmult (Cexpi (ph z1)) (Cexpi (ph z2)) = Cexpi (ph (z1 + z2)).
Proof. rewrite ph_add. symmetry. apply Cexpi_add. Qed.
Lemma kernel_zero : Cexpi (ph 0) = RtoC 1.
Proof. rewrite ph_0. apply Cexpi_0. Qed.
Lemma kernel_undo z : Cmult (Cexpi (ph z)) (Cexpi (ph (- z))) = RtoC 1.
Proof. rewrite ph_opp. apply Cexpi_neg. Qed.
End Additive.

(* 0/1 masks *)
Definition mask01 (b : bool) : R := if b then 1 else 0.
Lemma mask01_idem b : mask01 b * mask01 b = mask01 b.
Proof. destruct b; simpl; ring. Qed.
Lemma masked_n2_le b t : n2 (Cmult (RtoC (mask01 b)) (Cexpi t)) <= 1.
Proof. rewrite n2_mult, Cexpi_n2. destruct b; unfold n2, RtoC, mask01; simpl; lra. Qed.
Lemma masked_pixel b t : (mask01 b * cos t, mask01 b * sin t) = Cmult (RtoC (mask01 b)) (Cexpi t).
Proof. unfold Cmult, RtoC, Cexpi; simpl. f_equal; ring. Qed.
Lemma mask_idem_C b : Cmult (RtoC (mask01 b)) (RtoC (mask01 b)) = RtoC (mask01 b).
Proof. unfold Cmult, RtoC; simpl. destruct b; simpl; f_equal; ring. Qed.

(* reference formulas (written from the optics, not from the code) *)
Definition kz_as (lam fx fy : R) : R := 2 * PI / lam * sqrt (1 - (lam * fx) ^ 2 - (lam * fy) ^ 2).
Definition kz_tf (lam fx fy : R) : R := 2 * PI / lam - PI * lam * (fx ^ 2 + fy ^ 2).
(* the frequency grid both APIs use: n samples from -1/(2dx) to +1/(2dx), end points included *)
Definition fgrid (dx : R) (n i : nat) : R := - (1 / (2 * dx)) + INR i * ((1 / dx) / INR (n - 1)).

(* all grid frequencies are propagating when the pitch is at least lambda / sqrt 2 *)
Lemma as_all_propagating lam dx fx fy :
  0 < lam -> 0 < dx -> lam * lam <= 2 * (dx * dx) -> Rabs fx <= 1 / (2 * dx) -> Rabs fy <= 1 / (2 * dx) ->
  0 <= 1 - (lam * fx) ^ 2 - (lam * fy) ^ 2.
Proof.
  intros Hl Hd Hg Hx Hy.
  assert (Hb : forall f, Rabs f <= 1 / (2 * dx) -> (lam * f) ^ 2 <= / 2).
  { intros f Hf.
    assert (Hh : 0 < 1 / (2 * dx)) by (apply Rdiv_lt_0_compat; lra).
    assert (Hf2 : - (1 / (2 * dx)) <= f <= 1 / (2 * dx)) by (unfold Rabs in Hf; destruct (Rcase_abs f); lra).
    assert (H1 : f * f <= (1 / (2 * dx)) * (1 / (2 * dx))) by nra.
    replace ((1 / (2 * dx)) * (1 / (2 * dx))) with (/ (4 * (dx * dx))) in H1 by (field; lra).
    assert (H2 : lam * lam * (f * f) <= 2 * (dx * dx) * / (4 * (dx * dx))).
    { apply Rmult_le_compat; try nra. }
    replace (2 * (dx * dx) * / (4 * (dx * dx))) with (/ 2) in H2 by (field; lra).
    replace ((lam * f) ^ 2) with (lam * lam * (f * f)) by ring. exact H2. }
  pose proof (Hb fx Hx). pose proof (Hb fy Hy). lra.
Qed.
Lemma fgrid_in_band dx n i : 0 < dx -> (2 <= n)%nat -> (i < n)%nat -> Rabs (fgrid dx n i) <= 1 / (2 * dx).
Proof.
  intros Hd Hn Hi. unfold fgrid.
  assert (Hn1 : 0 < INR (n - 1)) by (apply lt_0_INR; lia).
  assert (Hi1 : 0 <= INR i <= INR (n - 1)) by (split; [apply pos_INR | apply le_INR; lia]).
  set (t := INR i / INR (n - 1)).
  assert (Ht : 0 <= t <= 1).
  { unfold t. split; [apply Rmult_le_pos; [lra | apply Rlt_le, Rinv_0_lt_compat; lra]|].
    apply Rmult_le_reg_r with (INR (n - 1)); [lra|]. unfold Rdiv. rewrite Rmult_assoc, Rinv_l by lra. lra. }
  replace (- (1 / (2 * dx)) + INR i * (1 / dx / INR (n - 1))) with ((1 / (2 * dx)) * (2 * t - 1)) by (unfold t; field; split; lra).
  assert (Hh : 0 < 1 / (2 * dx)) by (apply Rdiv_lt_0_compat; lra).
  apply Rabs_le. split; nra.
Qed.

(* under the sampling guard the radicand of the angular-spectrum phase is non-negative at every frequency c/dx with |c| <= 1/2
   (the library's grids: c = -1/2 + k/(n-1), or the inset grid of the band-limited kernel): the phase is real and the
   sample is a pure phasor; outside the guard Coq's sqrt of a negative number is 0 while the code returns NaN, so the
   unit-modulus lemmas are only meaningful together with these *)
Lemma rad_as_nonneg lam dx a b : 0 < lam -> 0 < dx -> lam * lam <= 2 * (dx * dx) -> a * a <= / 4 -> b * b <= / 4 ->
  0 <= 1 - (lam * (a / dx)) ^ 2 - (lam * (b / dx)) ^ 2.
Proof.
  intros Hl Hd Hg Ha Hb.
  assert (Hq : 0 < lam * lam / (dx * dx) <= 2).
  { split; [apply Rdiv_lt_0_compat; nra|]. apply Rmult_le_reg_r with (dx * dx); [nra|]. unfold Rdiv. rewrite Rmult_assoc, Rinv_l by nra. lra. }
  replace (1 - (lam * (a / dx)) ^ 2 - (lam * (b / dx)) ^ 2) with (1 - (lam * lam / (dx * dx)) * (a * a + b * b)) by (field; lra).
  nra.
Qed.
Lemma rad_bl_nonneg lam dx a b : 0 < lam -> 0 < dx -> lam * lam <= 2 * (dx * dx) -> a * a <= / 4 -> b * b <= / 4 ->
  0 <= 1 / (lam ^ 2) - ((a / dx) ^ 2 + (b / dx) ^ 2).
Proof.
  intros Hl Hd Hg Ha Hb.
  pose proof (rad_as_nonneg lam dx a b Hl Hd Hg Ha Hb) as H.
  replace (1 / lam ^ 2 - ((a / dx) ^ 2 + (b / dx) ^ 2)) with ((1 - (lam * (a / dx)) ^ 2 - (lam * (b / dx)) ^ 2) / (lam * lam)) by (field; lra).
  apply Rmult_le_pos; [exact H | apply Rlt_le, Rinv_0_lt_compat; nra].
Qed.
