(* Zero-padding to the doubled grid and centre-cropping back, on sampled fields (the index arithmetic is the
   one property C08 proves of the code and ties to it: start = (2n)/2 - n/2 on each axis). *)
From Coq Require Import Reals Arith Bool Lia FunctionalExtensionality.
From Coquelicot Require Import Complex.
From OdakV Require Import Wave.Fields.
Open Scope R_scope.

Definition pad_start (n : nat) : nat := ((2 * n) / 2 - n / 2)%nat.
Definition padf (n m : nat) (u : fld) : fld := fun i j =>
  if ((pad_start n <=? i) && (i <? pad_start n + n) && ((pad_start m <=? j) && (j <? pad_start m + m)))%nat
  then u (i - pad_start n)%nat (j - pad_start m)%nat else RtoC 0.
Definition cropf (n m : nat) (u : fld) : fld := fun i j =>
  if ((i <? n) && (j <? m))%nat then u (i + pad_start n)%nat (j + pad_start m)%nat else RtoC 0.

Lemma pad_start_bound n : (pad_start n + n <= 2 * n)%nat.
Proof. unfold pad_start. rewrite Nat.mul_comm, Nat.div_mul by lia. pose proof (Nat.div_le_upper_bound n 2 n). lia. Qed.

Lemma cropf_padf n m u : cropf n m (clip (2 * n) (2 * m) (padf n m u)) = clip n m u.
Proof.
  extensionality i; extensionality j. unfold cropf, clip, inb.
  destruct (i <? n)%nat eqn:Hi; destruct (j <? m)%nat eqn:Hj; cbn [andb]; try reflexivity.
  apply Nat.ltb_lt in Hi; apply Nat.ltb_lt in Hj.
  pose proof (pad_start_bound n). pose proof (pad_start_bound m).
  replace (i + pad_start n <? 2 * n)%nat with true by (symmetry; apply Nat.ltb_lt; lia).
  replace (j + pad_start m <? 2 * m)%nat with true by (symmetry; apply Nat.ltb_lt; lia).
  cbn [andb]. unfold padf.
  replace (pad_start n <=? i + pad_start n)%nat with true by (symmetry; apply Nat.leb_le; lia).
  replace (i + pad_start n <? pad_start n + n)%nat with true by (symmetry; apply Nat.ltb_lt; lia).
  replace (pad_start m <=? j + pad_start m)%nat with true by (symmetry; apply Nat.leb_le; lia).
  replace (j + pad_start m <? pad_start m + m)%nat with true by (symmetry; apply Nat.ltb_lt; lia).
  cbn [andb]. f_equal; lia.
Qed.
