(* Sequences of propagation steps (C02 quantifies over finite step programs) and the trivial
   instance showing that the FFT / shift contracts of Wave.Fields are satisfiable for every grid. *)
From Coq Require Import Reals Lra List FunctionalExtensionality.
From Coquelicot Require Import Complex.
From OdakV Require Import Wave.Fields Wave.Kernels.
Import ListNotations.
Open Scope R_scope.

Section Steps.
Variables n m : nat.
Variables F Finv S Sinv : fld -> fld.
Hypothesis F_dom : forall u, F (clip n m u) = F u.
Hypothesis Finv_dom : forall u, Finv (clip n m u) = Finv u.
Hypothesis S_dom : forall u, S (clip n m u) = S u.
Hypothesis Sinv_dom : forall u, Sinv (clip n m u) = Sinv u.
Hypothesis Finv_F : forall u, Finv (F u) = clip n m u.
Hypothesis F_Finv : forall u, F (Finv u) = clip n m u.
Hypothesis S_Sinv : forall u, S (Sinv u) = clip n m u.
Hypothesis Sinv_S : forall u, Sinv (S u) = clip n m u.

Definition step (u K : fld) : fld := custom F Finv S Sinv u K fone.

Lemma steps_from K0 Ks u :
  fold_left step Ks (custom F Finv S Sinv u K0 fone) = custom F Finv S Sinv u (fold_left fmul Ks K0) fone.
Proof.
  revert K0. induction Ks as [|K Ks IH]; intros K0; cbn [fold_left]; [reflexivity|].
  unfold step at 2.
  rewrite (custom_compose n m F Finv S Sinv S_dom Sinv_dom F_Finv S_Sinv), fmul_one_l.
  apply IH.
Qed.

(* any program of steps K1 ... Kk equals ONE step with the product kernel *)
Theorem steps_fold Ks u :
  fold_left step Ks (clip n m u) = custom F Finv S Sinv u (fold_left fmul Ks fone) fone.
Proof.
  rewrite <- (custom_id n m F Finv S Sinv Finv_dom Finv_F Sinv_S u). apply steps_from.
Qed.
End Steps.

(* the same for the centred forward model (NumPy API, torch Fraunhofer-free methods written with the kernel in the shifted frame) *)
Section CenteredSteps.
Variables n m : nat.
Variables F Finv S Sinv : fld -> fld.
Hypothesis F_dom : forall u, F (clip n m u) = F u.
Hypothesis Finv_dom : forall u, Finv (clip n m u) = Finv u.
Hypothesis Sinv_dom : forall u, Sinv (clip n m u) = Sinv u.
Hypothesis Finv_F : forall u, Finv (F u) = clip n m u.
Hypothesis F_Finv : forall u, F (Finv u) = clip n m u.
Hypothesis S_Sinv : forall u, S (Sinv u) = clip n m u.
Hypothesis Sinv_S : forall u, Sinv (S u) = clip n m u.
Hypothesis S_mul : forall a b, S (fmul a b) = fmul (S a) (S b).

Definition cstep (u K : fld) : fld := centered F Finv S Sinv u K.

Lemma csteps_from K0 Ks u :
  fold_left cstep Ks (centered F Finv S Sinv u K0) = centered F Finv S Sinv u (fold_left fmul Ks K0).
Proof.
  revert K0. induction Ks as [|K Ks IH]; intros K0; cbn [fold_left]; [reflexivity|].
  unfold cstep at 2.
  rewrite (centered_compose n m F Finv S Sinv F_dom Finv_dom F_Finv S_Sinv S_mul).
  apply IH.
Qed.

Theorem csteps_fold Ks u :
  fold_left cstep Ks (clip n m u) = centered F Finv S Sinv u (fold_left fmul Ks fone).
Proof.
  rewrite <- (centered_id n m F Finv S Sinv F_dom Sinv_dom Finv_F F_Finv S_Sinv Sinv_S S_mul u). apply csteps_from.
Qed.
End CenteredSteps.

(* product of unit phasors with additive phase = phasor of the summed distance *)
Section PhasorSteps.
Variable ph : R -> R.
Hypothesis ph_add : forall z1 z2, ph (z1 + z2) = ph z1 + ph z2.
Lemma phasor_product zs : fold_left Cmult (map (fun z => Cexpi (ph z)) zs) (RtoC 1) = Cexpi (ph (fold_left Rplus zs 0)).
Proof.
  assert (G : forall zs a, fold_left Cmult (map (fun z => Cexpi (ph z)) zs) (Cexpi (ph a)) = Cexpi (ph (fold_left Rplus zs a))).
  { induction zs0 as [|z zs0 IH]; intros a; cbn [map fold_left]; [reflexivity|].
    rewrite (kernel_compose ph ph_add). apply IH. }
  rewrite <- (kernel_zero ph ph_add). apply G.
Qed.
End PhasorSteps.

(* a program of distances z1 ... zk through one kernel family with additive phases = ONE step by the summed distance *)
Section DistancePrograms.
Variable ph : nat -> nat -> R -> R.
Hypothesis ph_add : forall i j z1 z2, ph i j (z1 + z2) = ph i j z1 + ph i j z2.
Definition kfam (z : R) : fld := fun i j => Cexpi (ph i j z).
Lemma kfam_zero : kfam 0 = fone.
Proof. extensionality i; extensionality j. unfold kfam, fone. apply (kernel_zero (ph i j) (ph_add i j)). Qed.
Lemma kfam_mul z1 z2 : fmul (kfam z1) (kfam z2) = kfam (z1 + z2).
Proof. extensionality i; extensionality j. unfold fmul, kfam. apply (kernel_compose (ph i j) (ph_add i j)). Qed.
Lemma kfam_product zs : fold_left fmul (map kfam zs) fone = kfam (fold_left Rplus zs 0).
Proof.
  assert (G : forall zs a, fold_left fmul (map kfam zs) (kfam a) = kfam (fold_left Rplus zs a)).
  { induction zs0 as [|z zs0 IH]; intros a; cbn [map fold_left]; [reflexivity|]. rewrite kfam_mul. apply IH. }
  rewrite <- kfam_zero. apply G.
Qed.
End DistancePrograms.

(* the contracts are satisfiable on every grid (identity transform): the theorems are not vacuous.
   The intended instance is the 2-D DFT with fftshift rolls; see DESIGN.md (trusted base). *)
Lemma contracts_satisfiable n m :
  let F := clip n m in
  (forall u, F (clip n m u) = F u) /\ (forall u v, F (fadd u v) = fadd (F u) (F v)) /\
  (forall a u, F (fscal a u) = fscal a (F u)) /\ (forall u, F (F u) = clip n m u) /\
  (forall u, energy n m (F u) = 1 * energy n m u) /\ (forall a b, F (fmul a b) = fmul (F a) (F b)).
Proof.
  cbv zeta. repeat split; intros.
  - apply clip_idem.
  - symmetry; apply fadd_clip.
  - symmetry; apply fscal_clip.
  - apply clip_idem.
  - rewrite energy_clip; ring.
  - rewrite fmul_clip_l, fmul_clip_r, clip_idem. reflexivity.
Qed.
