(* Sampled complex fields on an n x m grid and the abstract Fourier-pipeline algebra shared by
   C01, C02, C03, C06, C07.  Fields are total functions nat -> nat -> C; every operator returns a
   field clipped to the grid (0 outside) and depends only on the samples inside the grid, so that
   Leibniz equality (with functional extensionality) can be used and the contracts below are
   satisfiable by the concrete DFT. *)
From Coq Require Import Reals Lra Lia Arith Bool FunctionalExtensionality.
From Coquelicot Require Import Complex.
Open Scope R_scope.

Definition fld := nat -> nat -> C.
Fixpoint Rsum (n : nat) (f : nat -> R) : R := match n with O => 0 | S k => Rsum k f + f k end.
Lemma Rsum_ext n f g : (forall i, (i < n)%nat -> f i = g i) -> Rsum n f = Rsum n g.
Proof. induction n as [|n IH]; intros H; simpl; [reflexivity|]. rewrite IH, H; auto. Qed.
Lemma Rsum_le n f g : (forall i, (i < n)%nat -> f i <= g i) -> Rsum n f <= Rsum n g.
Proof.
  induction n as [|n IH]; intros H; simpl; [lra|].
  assert (f n <= g n) by auto. assert (Rsum n f <= Rsum n g) by auto. lra.
Qed.
Lemma Rsum_nonneg n f : (forall i, (i < n)%nat -> 0 <= f i) -> 0 <= Rsum n f.
Proof. induction n as [|n IH]; intros H; simpl; [lra|]. assert (0 <= f n) by auto. assert (0 <= Rsum n f) by auto. lra. Qed.
Lemma Rsum_zero n f : (forall i, (i < n)%nat -> f i = 0) -> Rsum n f = 0.
Proof. induction n as [|n IH]; intros H; simpl; [reflexivity|]. rewrite IH, H by auto. lra. Qed.

(* squared modulus *)
Definition n2 (z : C) : R := fst z * fst z + snd z * snd z.
Lemma n2_mult a b : n2 (Cmult a b) = n2 a * n2 b.
Proof. unfold n2, Cmult; simpl. ring. Qed.
Lemma n2_nonneg z : 0 <= n2 z.
Proof. unfold n2; nra. Qed.
Lemma n2_0 : n2 (RtoC 0) = 0.
Proof. unfold n2; simpl; ring. Qed.
Lemma n2_1 : n2 (RtoC 1) = 1.
Proof. unfold n2; simpl; ring. Qed.

Section Grid.
Variables n m : nat.

Definition inb (i j : nat) : bool := (i <? n)%nat && (j <? m)%nat.
Definition clip (u : fld) : fld := fun i j => if inb i j then u i j else RtoC 0.
Definition energy (u : fld) : R := Rsum n (fun i => Rsum m (fun j => n2 (u i j))).
Definition fmul (x y : fld) : fld := fun i j => Cmult (x i j) (y i j).
Definition fadd (x y : fld) : fld := fun i j => Cplus (x i j) (y i j).
Definition fscal (a : C) (x : fld) : fld := fun i j => Cmult a (x i j).
Definition fone : fld := fun _ _ => RtoC 1.
Definition fzero : fld := fun _ _ => RtoC 0.

Lemma inb_true i j : (i < n)%nat -> (j < m)%nat -> inb i j = true.
Proof. intros; unfold inb. apply andb_true_intro; split; apply Nat.ltb_lt; assumption. Qed.
Lemma clip_in u i j : (i < n)%nat -> (j < m)%nat -> clip u i j = u i j.
Proof. intros; unfold clip; rewrite inb_true by assumption; reflexivity. Qed.
Lemma clip_idem u : clip (clip u) = clip u.
Proof. extensionality i; extensionality j; unfold clip; destruct (inb i j); reflexivity. Qed.
Lemma energy_ext u v : (forall i j, (i < n)%nat -> (j < m)%nat -> u i j = v i j) -> energy u = energy v.
Proof. intros H; unfold energy. apply Rsum_ext; intros i Hi. apply Rsum_ext; intros j Hj. rewrite H by assumption. reflexivity. Qed.
Lemma energy_clip u : energy (clip u) = energy u.
Proof. apply energy_ext; intros; apply clip_in; assumption. Qed.
Lemma energy_nonneg u : 0 <= energy u.
Proof. unfold energy. apply Rsum_nonneg; intros. apply Rsum_nonneg; intros. apply n2_nonneg. Qed.
Lemma fmul_clip_l a b : fmul (clip a) b = clip (fmul a b).
Proof. extensionality i; extensionality j; unfold fmul, clip; destruct (inb i j); [reflexivity|]. unfold Cmult, RtoC; simpl; f_equal; ring. Qed.
Lemma fmul_clip_r a b : fmul a (clip b) = clip (fmul a b).
Proof. extensionality i; extensionality j; unfold fmul, clip; destruct (inb i j); [reflexivity|]. unfold Cmult, RtoC; simpl; f_equal; ring. Qed.
Lemma fmul_comm a b : fmul a b = fmul b a.
Proof. extensionality i; extensionality j; unfold fmul; ring. Qed.
Lemma fmul_assoc a b c : fmul a (fmul b c) = fmul (fmul a b) c.
Proof. extensionality i; extensionality j; unfold fmul; ring. Qed.
Lemma fmul_one_r x : fmul x fone = x.
Proof. extensionality i; extensionality j. unfold fmul, fone. ring. Qed.
Lemma fmul_one_l x : fmul fone x = x.
Proof. extensionality i; extensionality j. unfold fmul, fone. ring. Qed.
Lemma fmul_add_r K x y : fmul K (fadd x y) = fadd (fmul K x) (fmul K y).
Proof. extensionality i; extensionality j. unfold fmul, fadd. ring. Qed.
Lemma fmul_scal_r K a x : fmul K (fscal a x) = fscal a (fmul K x).
Proof. extensionality i; extensionality j. unfold fmul, fscal. ring. Qed.
Lemma fmul_add_l A x y : fmul (fadd x y) A = fadd (fmul x A) (fmul y A).
Proof. extensionality i; extensionality j. unfold fmul, fadd. ring. Qed.
Lemma fmul_scal_l A a x : fmul (fscal a x) A = fscal a (fmul x A).
Proof. extensionality i; extensionality j. unfold fmul, fscal. ring. Qed.
Lemma fscal_fscal a b x : fscal a (fscal b x) = fscal (Cmult a b) x.
Proof. extensionality i; extensionality j. unfold fscal. ring. Qed.
Lemma fscal_one x : fscal (RtoC 1) x = x.
Proof. extensionality i; extensionality j. unfold fscal. ring. Qed.
Lemma fscal_clip a x : fscal a (clip x) = clip (fscal a x).
Proof. extensionality i; extensionality j; unfold fscal, clip; destruct (inb i j); [reflexivity|]. unfold Cmult, RtoC; simpl; f_equal; ring. Qed.
Lemma fadd_clip x y : fadd (clip x) (clip y) = clip (fadd x y).
Proof. extensionality i; extensionality j; unfold fadd, clip; destruct (inb i j); [reflexivity|]. unfold Cplus, RtoC; simpl; f_equal; ring. Qed.

Lemma energy_fmul_unit K x : (forall i j, (i<n)%nat -> (j<m)%nat -> n2 (K i j) = 1) -> energy (fmul K x) = energy x.
Proof.
  intros HK. unfold energy. apply Rsum_ext; intros i Hi. apply Rsum_ext; intros j Hj.
  unfold fmul. rewrite n2_mult, HK by assumption. ring.
Qed.
Lemma energy_fmul_le K x : (forall i j, (i<n)%nat -> (j<m)%nat -> n2 (K i j) <= 1) -> energy (fmul K x) <= energy x.
Proof.
  intros HK. unfold energy. apply Rsum_le; intros i Hi. apply Rsum_le; intros j Hj.
  unfold fmul. rewrite n2_mult. pose proof (n2_nonneg (x i j)). specialize (HK i j Hi Hj).
  pose proof (n2_nonneg (K i j)). nra.
Qed.
Lemma energy_zero_field : energy fzero = 0.
Proof. unfold energy. apply Rsum_zero; intros. apply Rsum_zero; intros. apply n2_0. Qed.

(* ---------------------------------------------------------------------------------------------
   The Fourier pipeline.  F / Finv stand for fft2 / ifft2 and S / Sinv for fftshift / ifftshift of
   the numerical library (torch.fft, numpy.fft); the hypotheses are their documented contracts,
   validated numerically against the library on every run and discharged for a concrete DFT in
   Wave/Dft*.v as far as that development goes (see DESIGN.md, trusted base). *)
Variables F Finv S Sinv : fld -> fld.
Variable N : R.
Hypothesis N_pos : 0 < N.
Hypothesis F_dom : forall u, F (clip u) = F u.
Hypothesis Finv_dom : forall u, Finv (clip u) = Finv u.
Hypothesis S_dom : forall u, S (clip u) = S u.
Hypothesis Sinv_dom : forall u, Sinv (clip u) = Sinv u.
Hypothesis F_add : forall u v, F (fadd u v) = fadd (F u) (F v).
Hypothesis F_scal : forall a u, F (fscal a u) = fscal a (F u).
Hypothesis Finv_add : forall u v, Finv (fadd u v) = fadd (Finv u) (Finv v).
Hypothesis Finv_scal : forall a u, Finv (fscal a u) = fscal a (Finv u).
Hypothesis Finv_F : forall u, Finv (F u) = clip u.
Hypothesis F_Finv : forall u, F (Finv u) = clip u.
Hypothesis parseval : forall u, energy (F u) = N * energy u.
Hypothesis S_Sinv : forall u, S (Sinv u) = clip u.
Hypothesis Sinv_S : forall u, Sinv (S u) = clip u.
Hypothesis S_energy : forall u, energy (S u) = energy u.
Hypothesis S_add : forall u v, S (fadd u v) = fadd (S u) (S v).
Hypothesis S_scal : forall a u, S (fscal a u) = fscal a (S u).
Hypothesis Sinv_add : forall u v, Sinv (fadd u v) = fadd (Sinv u) (Sinv v).
Hypothesis Sinv_scal : forall a u, Sinv (fscal a u) = fscal a (Sinv u).
Hypothesis S_mul : forall a b, S (fmul a b) = fmul (S a) (S b).
Hypothesis Sinv_mul : forall a b, Sinv (fmul a b) = fmul (Sinv a) (Sinv b).

(* the documented forward model: inverse transform of kernel x aperture x centred spectrum *)
Definition custom (u K A : fld) : fld := Finv (Sinv (fmul K (fmul (S (F u)) A))).
(* the pre-repair code multiplied the aperture twice; kept for the regression lemma *)
Definition custom_legacy (u K A : fld) : fld := Finv (Sinv (fmul (fmul K A) (fmul (S (F u)) A))).

Lemma Sinv_energy u : energy (Sinv u) = energy u.
Proof. rewrite <- (S_energy (Sinv u)). rewrite S_Sinv. apply energy_clip. Qed.
Lemma Finv_energy u : energy (Finv u) = energy u / N.
Proof. pose proof (parseval (Finv u)) as H. rewrite F_Finv, energy_clip in H. rewrite H. field. lra. Qed.
Lemma clip_F u : clip (F u) = F u.
Proof. rewrite <- (F_Finv (F u)). rewrite Finv_F. apply F_dom. Qed.
Lemma clip_Finv u : clip (Finv u) = Finv u.
Proof. rewrite <- (Finv_F (Finv u)). rewrite F_Finv. apply Finv_dom. Qed.
Lemma clip_S u : clip (S u) = S u.
Proof. rewrite <- (S_Sinv (S u)). rewrite Sinv_S. apply S_dom. Qed.
Lemma clip_Sinv u : clip (Sinv u) = Sinv u.
Proof. rewrite <- (Sinv_S (Sinv u)). rewrite S_Sinv. apply Sinv_dom. Qed.

Theorem custom_energy_unit u K : (forall i j, (i<n)%nat -> (j<m)%nat -> n2 (K i j) = 1) ->
  energy (custom u K fone) = energy u.
Proof.
  intros HK. unfold custom. rewrite Finv_energy, Sinv_energy, fmul_one_r.
  rewrite energy_fmul_unit by exact HK. rewrite S_energy, parseval. field. lra.
Qed.

Theorem custom_energy_le u K A : (forall i j, (i<n)%nat -> (j<m)%nat -> n2 (Cmult (K i j) (A i j)) <= 1) ->
  energy (custom u K A) <= energy u.
Proof.
  intros HK. unfold custom. rewrite Finv_energy, Sinv_energy.
  replace (fmul K (fmul (S (F u)) A)) with (fmul (fun i j => Cmult (K i j) (A i j)) (S (F u)))
    by (extensionality i; extensionality j; unfold fmul; ring).
  pose proof (energy_fmul_le _ (S (F u)) HK) as H. rewrite S_energy, parseval in H.
  apply Rmult_le_reg_r with N; [lra|]. unfold Rdiv. rewrite Rmult_assoc, Rinv_l by lra. lra.
Qed.

(* two steps compose into one step with the product kernel and the product aperture *)
Theorem custom_compose u K1 A1 K2 A2 :
  custom (custom u K1 A1) K2 A2 = custom u (fmul K1 K2) (fmul A1 A2).
Proof.
  unfold custom. rewrite F_Finv, S_dom, S_Sinv, fmul_clip_l, fmul_clip_r, Sinv_dom.
  f_equal. f_equal. extensionality i; extensionality j. unfold fmul. ring.
Qed.

Theorem custom_id u : custom u fone fone = clip u.
Proof. unfold custom. rewrite fmul_one_r, fmul_one_l, Sinv_S, Finv_dom, Finv_F. reflexivity. Qed.

Theorem custom_linear a b u v K A :
  custom (fadd (fscal a u) (fscal b v)) K A = fadd (fscal a (custom u K A)) (fscal b (custom v K A)).
Proof.
  unfold custom. rewrite F_add, !F_scal, S_add, !S_scal, fmul_add_l, !fmul_scal_l, fmul_add_r, !fmul_scal_r,
    Sinv_add, !Sinv_scal, Finv_add, !Finv_scal. reflexivity.
Qed.

Lemma F_zero : F fzero = fzero.
Proof.
  replace fzero with (fscal (RtoC 0) fzero) at 1 by (extensionality i; extensionality j; unfold fscal, fzero; ring).
  rewrite F_scal. extensionality i; extensionality j; unfold fscal, fzero; ring.
Qed.
Lemma S_zero : S fzero = fzero.
Proof.
  replace fzero with (fscal (RtoC 0) fzero) at 1 by (extensionality i; extensionality j; unfold fscal, fzero; ring).
  rewrite S_scal. extensionality i; extensionality j; unfold fscal, fzero; ring.
Qed.
Lemma Sinv_zero : Sinv fzero = fzero.
Proof.
  replace fzero with (fscal (RtoC 0) fzero) at 1 by (extensionality i; extensionality j; unfold fscal, fzero; ring).
  rewrite Sinv_scal. extensionality i; extensionality j; unfold fscal, fzero; ring.
Qed.
Lemma Finv_zero : Finv fzero = fzero.
Proof.
  replace fzero with (fscal (RtoC 0) fzero) at 1 by (extensionality i; extensionality j; unfold fscal, fzero; ring).
  rewrite Finv_scal. extensionality i; extensionality j; unfold fscal, fzero; ring.
Qed.
Theorem custom_zero K A : custom fzero K A = fzero.
Proof.
  unfold custom. rewrite F_zero, S_zero.
  replace (fmul K (fmul fzero A)) with fzero by (extensionality i; extensionality j; unfold fmul, fzero; ring).
  rewrite Sinv_zero, Finv_zero. reflexivity.
Qed.

(* a 0/1 mask (or any idempotent aperture) applied twice removes nothing more *)
Theorem custom_mask_idem u M : (forall i j, Cmult (M i j) (M i j) = M i j) ->
  custom (custom u fone M) fone M = custom u fone M.
Proof.
  intros HM. rewrite custom_compose, fmul_one_l. f_equal.
  extensionality i; extensionality j. unfold fmul. apply HM.
Qed.
Theorem custom_second_pass_energy u K M :
  (forall i j, Cmult (M i j) (M i j) = M i j) -> (forall i j, (i<n)%nat -> (j<m)%nat -> n2 (K i j) = 1) ->
  energy (custom (custom u K M) K M) = energy (custom u K M).
Proof.
  intros HM HK. rewrite custom_compose. unfold custom. rewrite !Finv_energy, !Sinv_energy. f_equal.
  replace (fmul (fmul K K) (fmul (S (F u)) (fmul M M))) with (fmul K (fmul K (fmul (S (F u)) M))).
  - apply energy_fmul_unit, HK.
  - extensionality i; extensionality j. unfold fmul. rewrite HM. ring.
Qed.

(* shift equivariance: T is the circular translation, Ph its Fourier-side modulation *)
Section Shift.
Variable T : fld -> fld.
Variable Ph : fld.
Hypothesis modulation : forall u, F (T u) = fmul Ph (F u).
Hypothesis modulation_inv : forall U, Finv (fmul Ph U) = T (Finv U).
Theorem custom_shift u K A : custom (T u) K A = T (custom u K A).
Proof.
  unfold custom. rewrite modulation, S_mul.
  replace (fmul K (fmul (fmul (S Ph) (S (F u))) A)) with (fmul (S Ph) (fmul K (fmul (S (F u)) A)))
    by (extensionality i; extensionality j; unfold fmul; ring).
  rewrite Sinv_mul, Sinv_S, fmul_clip_l, Finv_dom. apply modulation_inv.
Qed.

End Shift.


(* the NumPy Fresnel propagators work with the origin at the array centre: shift the field, transform,
   multiply by the shifted kernel, transform back, shift back *)
Definition centered (u K : fld) : fld := Sinv (Finv (fmul (S K) (F (S u)))).

Lemma S_kernel_product K X : fmul (S K) (clip X) = S (fmul K (Sinv X)).
Proof. rewrite S_mul, S_Sinv. reflexivity. Qed.

Theorem centered_energy_unit u K : (forall i j, (i<n)%nat -> (j<m)%nat -> n2 (K i j) = 1) ->
  energy (centered u K) = energy u.
Proof.
  intros HK. unfold centered. rewrite Sinv_energy, Finv_energy.
  rewrite <- (clip_F (S u)), S_kernel_product, S_energy, energy_fmul_unit by exact HK.
  rewrite Sinv_energy, parseval, S_energy. field. lra.
Qed.
Theorem centered_energy_le u K : (forall i j, (i<n)%nat -> (j<m)%nat -> n2 (K i j) <= 1) ->
  energy (centered u K) <= energy u.
Proof.
  intros HK. unfold centered. rewrite Sinv_energy, Finv_energy.
  rewrite <- (clip_F (S u)), S_kernel_product, S_energy.
  pose proof (energy_fmul_le K (Sinv (F (S u))) HK) as H. rewrite Sinv_energy, parseval, S_energy in H.
  apply Rmult_le_reg_r with N; [lra|]. unfold Rdiv. rewrite Rmult_assoc, Rinv_l by lra. lra.
Qed.
Theorem centered_compose u K1 K2 : centered (centered u K1) K2 = centered u (fmul K1 K2).
Proof.
  unfold centered. rewrite S_Sinv, F_dom, F_Finv, fmul_clip_r, Finv_dom, S_mul.
  f_equal. f_equal. extensionality i; extensionality j. unfold fmul. ring.
Qed.
Theorem centered_id u : centered u fone = clip u.
Proof.
  unfold centered.
  assert (E : fmul (S fone) (F (S u)) = F (S u)).
  { transitivity (fmul (S fone) (clip (F (S u)))); [rewrite clip_F; reflexivity|].
    rewrite S_kernel_product, fmul_one_l, S_Sinv. apply clip_F. }
  rewrite E, Finv_F, Sinv_dom, Sinv_S. reflexivity.
Qed.
Theorem centered_linear a b u v K :
  centered (fadd (fscal a u) (fscal b v)) K = fadd (fscal a (centered u K)) (fscal b (centered v K)).
Proof.
  unfold centered. rewrite S_add, !S_scal, F_add, !F_scal, fmul_add_r, !fmul_scal_r,
    Finv_add, !Finv_scal, Sinv_add, !Sinv_scal. reflexivity.
Qed.
(* the (1/L)^2 ... /(1/L)^2 scalings of the NumPy code cancel *)
Lemma centered_scaled c u K : c <> 0 ->
  fscal (RtoC (1 / c)) (Sinv (Finv (fmul (S K) (fscal (RtoC c) (F (S u)))))) = centered u K.
Proof.
  intros Hc. unfold centered. rewrite fmul_scal_r, Finv_scal, Sinv_scal, fscal_fscal.
  replace (Cmult (RtoC (1 / c)) (RtoC c)) with (RtoC 1).
  - apply fscal_one.
  - unfold Cmult, RtoC; simpl. f_equal; field; exact Hc.
Qed.


(* NumPy impulse-response Fresnel: circular convolution with the sampled impulse response h *)
Definition conv_centered (u h : fld) : fld := Sinv (Finv (fmul (F (S h)) (F (S u)))).
Lemma conv_centered_scaled c u h : c <> 0 ->
  fscal (RtoC (1 / c)) (Sinv (Finv (fmul (fscal (RtoC c) (F (S h))) (F (S u))))) = conv_centered u h.
Proof.
  intros Hc. unfold conv_centered. rewrite fmul_scal_l, Finv_scal, Sinv_scal, fscal_fscal.
  replace (Cmult (RtoC (1 / c)) (RtoC c)) with (RtoC 1).
  - apply fscal_one.
  - unfold Cmult, RtoC; simpl. f_equal; field; exact Hc.
Qed.
Theorem conv_centered_linear a b u v h :
  conv_centered (fadd (fscal a u) (fscal b v)) h = fadd (fscal a (conv_centered u h)) (fscal b (conv_centered v h)).
Proof.
  unfold conv_centered. rewrite S_add, !S_scal, F_add, !F_scal, fmul_add_r, !fmul_scal_r,
    Finv_add, !Finv_scal, Sinv_add, !Sinv_scal. reflexivity.
Qed.


(* Fraunhofer: a pointwise factor c times the centred transform *)
Definition fraun (u c : fld) : fld := fmul c (Sinv (F (S u))).
Theorem fraun_linear a b u v c :
  fraun (fadd (fscal a u) (fscal b v)) c = fadd (fscal a (fraun u c)) (fscal b (fraun v c)).
Proof.
  unfold fraun. rewrite S_add, !S_scal, F_add, !F_scal, Sinv_add, !Sinv_scal, fmul_add_r, !fmul_scal_r. reflexivity.
Qed.
Lemma fraun_scaled c0 u c : fscal c0 (fmul c (Sinv (F (S u)))) = fraun u (fscal c0 c).
Proof. unfold fraun. rewrite fmul_scal_l. reflexivity. Qed.
(* the zero field stays zero through every form of the forward model *)
Lemma fmul_zero_r x : fmul x fzero = fzero.
Proof. extensionality i; extensionality j; unfold fmul, fzero; ring. Qed.
Theorem centered_zero K : centered fzero K = fzero.
Proof. unfold centered. rewrite S_zero, F_zero, fmul_zero_r, Finv_zero, Sinv_zero. reflexivity. Qed.
Theorem conv_centered_zero h : conv_centered fzero h = fzero.
Proof. unfold conv_centered. rewrite S_zero, F_zero, fmul_zero_r, Finv_zero, Sinv_zero. reflexivity. Qed.
Theorem fraun_zero c : fraun fzero c = fzero.
Proof. unfold fraun. rewrite S_zero, F_zero, Sinv_zero, fmul_zero_r. reflexivity. Qed.


Section Shift2.
Variable T : fld -> fld.
Variable Ph : fld.
Hypothesis modulation : forall u, F (T u) = fmul Ph (F u).
Hypothesis modulation_inv : forall U, Finv (fmul Ph U) = T (Finv U).

(* the centred-origin forms are shift-equivariant as well *)
Theorem centered_shift u K : (forall u, S (T u) = T (S u)) -> (forall u, Sinv (T u) = T (Sinv u)) ->
  centered (T u) K = T (centered u K).
Proof.
  intros HS HSi. unfold centered. rewrite HS, modulation.
  replace (fmul (S K) (fmul Ph (F (S u)))) with (fmul Ph (fmul (S K) (F (S u))))
    by (extensionality i; extensionality j; unfold fmul; ring).
  rewrite modulation_inv, HSi. reflexivity.
Qed.
Theorem conv_centered_shift u h : (forall u, S (T u) = T (S u)) -> (forall u, Sinv (T u) = T (Sinv u)) ->
  conv_centered (T u) h = T (conv_centered u h).
Proof.
  intros HS HSi. unfold conv_centered. rewrite HS, modulation.
  replace (fmul (F (S h)) (fmul Ph (F (S u)))) with (fmul Ph (fmul (F (S h)) (F (S u))))
    by (extensionality i; extensionality j; unfold fmul; ring).
  rewrite modulation_inv, HSi. reflexivity.
Qed.
End Shift2.

(* legacy (pre-repair) pipeline differs from the documented one exactly by a squared aperture *)
Lemma custom_legacy_is_squared u K A : custom_legacy u K A = custom u K (fmul A A).
Proof. unfold custom_legacy, custom. f_equal. f_equal. extensionality i; extensionality j. unfold fmul. ring. Qed.
End Grid.
