(* scale > 1 path of the impulse-response methods: the field is zero-inserted on an s-times finer grid
   (the code rebuilds it from amplitude and phase; that this is the identity on samples is C09's rebuild). *)
From Coq Require Import Reals Arith Bool FunctionalExtensionality.
From Coquelicot Require Import Complex.
From OdakV Require Import Wave.Fields.
Open Scope R_scope.

Definition upsample (s : nat) (u : fld) : fld :=
  fun i j => if ((i mod s =? 0) && (j mod s =? 0))%nat then u (i / s)%nat (j / s)%nat else RtoC 0.

Lemma upsample_linear s a b u v :
  upsample s (fadd (fscal a u) (fscal b v)) = fadd (fscal a (upsample s u)) (fscal b (upsample s v)).
Proof.
  extensionality i; extensionality j. unfold upsample, fadd, fscal.
  destruct ((i mod s =? 0) && (j mod s =? 0))%nat; [reflexivity|].
  unfold Cplus, Cmult, RtoC; simpl; f_equal; ring.
Qed.
Lemma upsample_zero s : upsample s fzero = fzero.
Proof. extensionality i; extensionality j. unfold upsample, fzero. destruct ((i mod s =? 0) && (j mod s =? 0))%nat; reflexivity. Qed.
