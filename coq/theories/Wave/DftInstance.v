(* The abstract Fourier-pipeline theorems of Wave/Fields.v (and Wave/Steps.v) instantiated with the concrete
   2-D DFT F2 / Finv2 and the fftshift / ifftshift rolls S2 / Sinv2 of Wave/Dft2.v, N := INR n * INR m.
   Every proof is an application of the abstract theorem to conjuncts of dft_contracts / dft_modulation. *)
From Coq Require Import Reals Lra Lia Arith List FunctionalExtensionality.
From Coquelicot Require Import Complex.
From OdakV Require Import Wave.Fields Wave.Kernels Wave.Steps Wave.Dft1 Wave.Dft2.
Open Scope R_scope.

Notation custom2 n m := (custom (F2 n m) (Finv2 n m) (S2 n m) (Sinv2 n m)).
Notation centered2 n m := (centered (F2 n m) (Finv2 n m) (S2 n m) (Sinv2 n m)).
Notation conv_centered2 n m := (conv_centered (F2 n m) (Finv2 n m) (S2 n m) (Sinv2 n m)).
Notation fraun2 n m := (fraun (F2 n m) (S2 n m) (Sinv2 n m)).
Notation step2 n m := (step (F2 n m) (Finv2 n m) (S2 n m) (Sinv2 n m)).
(* np.roll by (s, t) *)
Notation T2 n m s t := (fun u : fld => clip n m (fun i j => u ((i + n - s mod n) mod n)%nat ((j + m - t mod m) mod m)%nat)).

Ltac contracts n m Hn Hm :=
  destruct (dft_contracts n m Hn Hm) as
    (N_pos & F_dom & Finv_dom & S_dom & Sinv_dom & F_add & F_scal & Finv_add & Finv_scal & Finv_F & F_Finv &
     parseval & S_Sinv & Sinv_S & S_energy & S_add & S_scal & Sinv_add & Sinv_scal & S_mul & Sinv_mul).

(* ---- custom: Finv (Sinv (K . (S (F u)) . A)) ---- *)

Theorem dft_energy_conserved n m u K : (0 < n)%nat -> (0 < m)%nat ->
  (forall i j, (i < n)%nat -> (j < m)%nat -> n2 (K i j) = 1) ->
  energy n m (custom2 n m u K fone) = energy n m u.
Proof. intros Hn Hm. contracts n m Hn Hm. exact (custom_energy_unit n m _ _ _ _ _ N_pos F_Finv parseval S_Sinv S_energy u K). Qed.

Theorem dft_energy_le n m u K A : (0 < n)%nat -> (0 < m)%nat ->
  (forall i j, (i < n)%nat -> (j < m)%nat -> n2 (Cmult (K i j) (A i j)) <= 1) ->
  energy n m (custom2 n m u K A) <= energy n m u.
Proof. intros Hn Hm. contracts n m Hn Hm. exact (custom_energy_le n m _ _ _ _ _ N_pos F_Finv parseval S_Sinv S_energy u K A). Qed.

Theorem dft_custom_compose n m u K1 A1 K2 A2 : (0 < n)%nat -> (0 < m)%nat ->
  custom2 n m (custom2 n m u K1 A1) K2 A2 = custom2 n m u (fmul K1 K2) (fmul A1 A2).
Proof. intros Hn Hm. contracts n m Hn Hm. exact (custom_compose n m _ _ _ _ S_dom Sinv_dom F_Finv S_Sinv u K1 A1 K2 A2). Qed.

Theorem dft_custom_id n m u : (0 < n)%nat -> (0 < m)%nat -> custom2 n m u fone fone = clip n m u.
Proof. intros Hn Hm. contracts n m Hn Hm. exact (custom_id n m _ _ _ _ Finv_dom Finv_F Sinv_S u). Qed.

Theorem dft_custom_linear n m a b u v K A : (0 < n)%nat -> (0 < m)%nat ->
  custom2 n m (fadd (fscal a u) (fscal b v)) K A = fadd (fscal a (custom2 n m u K A)) (fscal b (custom2 n m v K A)).
Proof.
  intros Hn Hm. contracts n m Hn Hm.
  exact (custom_linear _ _ _ _ F_add F_scal Finv_add Finv_scal S_add S_scal Sinv_add Sinv_scal a b u v K A).
Qed.

Theorem dft_custom_zero n m K A : (0 < n)%nat -> (0 < m)%nat -> custom2 n m fzero K A = fzero.
Proof. intros Hn Hm. contracts n m Hn Hm. exact (custom_zero _ _ _ _ F_scal Finv_scal S_scal Sinv_scal K A). Qed.

Theorem dft_custom_mask_idem n m u M : (0 < n)%nat -> (0 < m)%nat ->
  (forall i j, Cmult (M i j) (M i j) = M i j) ->
  custom2 n m (custom2 n m u fone M) fone M = custom2 n m u fone M.
Proof. intros Hn Hm. contracts n m Hn Hm. exact (custom_mask_idem n m _ _ _ _ S_dom Sinv_dom F_Finv S_Sinv u M). Qed.

Theorem dft_custom_second_pass_energy n m u K M : (0 < n)%nat -> (0 < m)%nat ->
  (forall i j, Cmult (M i j) (M i j) = M i j) -> (forall i j, (i < n)%nat -> (j < m)%nat -> n2 (K i j) = 1) ->
  energy n m (custom2 n m (custom2 n m u K M) K M) = energy n m (custom2 n m u K M).
Proof.
  intros Hn Hm. contracts n m Hn Hm.
  exact (custom_second_pass_energy n m _ _ _ _ _ N_pos S_dom Sinv_dom F_Finv parseval S_Sinv S_energy u K M).
Qed.

(* shift equivariance under np.roll by (s, t) *)
Theorem dft_custom_shift n m s t u K A : (0 < n)%nat -> (0 < m)%nat ->
  custom2 n m (T2 n m s t u) K A = T2 n m s t (custom2 n m u K A).
Proof.
  intros Hn Hm. contracts n m Hn Hm. destruct (dft_modulation n m s t Hn Hm) as [modulation modulation_inv].
  exact (custom_shift n m _ _ _ _ Finv_dom Sinv_S S_mul Sinv_mul _ _ modulation modulation_inv u K A).
Qed.

(* any program of steps equals one step with the product kernel (Wave/Steps.v) *)
Theorem dft_steps_fold n m Ks u : (0 < n)%nat -> (0 < m)%nat ->
  fold_left (step2 n m) Ks (clip n m u) = custom2 n m u (fold_left fmul Ks fone) fone.
Proof.
  intros Hn Hm. contracts n m Hn Hm.
  exact (steps_fold n m _ _ _ _ Finv_dom S_dom Sinv_dom Finv_F F_Finv S_Sinv Sinv_S Ks u).
Qed.

(* ---- centered: Sinv (Finv (S K . F (S u))) ---- *)

Theorem dft_centered_energy_unit n m u K : (0 < n)%nat -> (0 < m)%nat ->
  (forall i j, (i < n)%nat -> (j < m)%nat -> n2 (K i j) = 1) ->
  energy n m (centered2 n m u K) = energy n m u.
Proof.
  intros Hn Hm. contracts n m Hn Hm.
  exact (centered_energy_unit n m _ _ _ _ _ N_pos F_dom Finv_F F_Finv parseval S_Sinv S_energy S_mul u K).
Qed.

Theorem dft_centered_energy_le n m u K : (0 < n)%nat -> (0 < m)%nat ->
  (forall i j, (i < n)%nat -> (j < m)%nat -> n2 (K i j) <= 1) ->
  energy n m (centered2 n m u K) <= energy n m u.
Proof.
  intros Hn Hm. contracts n m Hn Hm.
  exact (centered_energy_le n m _ _ _ _ _ N_pos F_dom Finv_F F_Finv parseval S_Sinv S_energy S_mul u K).
Qed.

Theorem dft_centered_compose n m u K1 K2 : (0 < n)%nat -> (0 < m)%nat ->
  centered2 n m (centered2 n m u K1) K2 = centered2 n m u (fmul K1 K2).
Proof. intros Hn Hm. contracts n m Hn Hm. exact (centered_compose n m _ _ _ _ F_dom Finv_dom F_Finv S_Sinv S_mul u K1 K2). Qed.

Theorem dft_centered_id n m u : (0 < n)%nat -> (0 < m)%nat -> centered2 n m u fone = clip n m u.
Proof. intros Hn Hm. contracts n m Hn Hm. exact (centered_id n m _ _ _ _ F_dom Sinv_dom Finv_F F_Finv S_Sinv Sinv_S S_mul u). Qed.

Theorem dft_centered_linear n m a b u v K : (0 < n)%nat -> (0 < m)%nat ->
  centered2 n m (fadd (fscal a u) (fscal b v)) K = fadd (fscal a (centered2 n m u K)) (fscal b (centered2 n m v K)).
Proof.
  intros Hn Hm. contracts n m Hn Hm.
  exact (centered_linear _ _ _ _ F_add F_scal Finv_add Finv_scal S_add S_scal Sinv_add Sinv_scal a b u v K).
Qed.

Theorem dft_centered_scaled n m c u K : (0 < n)%nat -> (0 < m)%nat -> c <> 0 ->
  fscal (RtoC (1 / c)) (Sinv2 n m (Finv2 n m (fmul (S2 n m K) (fscal (RtoC c) (F2 n m (S2 n m u)))))) = centered2 n m u K.
Proof. intros Hn Hm. contracts n m Hn Hm. exact (centered_scaled _ _ _ _ Finv_scal Sinv_scal c u K). Qed.

(* ---- impulse-response and Fraunhofer forms ---- *)

Theorem dft_conv_centered_linear n m a b u v h : (0 < n)%nat -> (0 < m)%nat ->
  conv_centered2 n m (fadd (fscal a u) (fscal b v)) h =
  fadd (fscal a (conv_centered2 n m u h)) (fscal b (conv_centered2 n m v h)).
Proof.
  intros Hn Hm. contracts n m Hn Hm.
  exact (conv_centered_linear _ _ _ _ F_add F_scal Finv_add Finv_scal S_add S_scal Sinv_add Sinv_scal a b u v h).
Qed.

Theorem dft_conv_centered_scaled n m c u h : (0 < n)%nat -> (0 < m)%nat -> c <> 0 ->
  fscal (RtoC (1 / c)) (Sinv2 n m (Finv2 n m (fmul (fscal (RtoC c) (F2 n m (S2 n m h))) (F2 n m (S2 n m u))))) =
  conv_centered2 n m u h.
Proof. intros Hn Hm. contracts n m Hn Hm. exact (conv_centered_scaled _ _ _ _ Finv_scal Sinv_scal c u h). Qed.

Theorem dft_fraun_linear n m a b u v c : (0 < n)%nat -> (0 < m)%nat ->
  fraun2 n m (fadd (fscal a u) (fscal b v)) c = fadd (fscal a (fraun2 n m u c)) (fscal b (fraun2 n m v c)).
Proof.
  intros Hn Hm. contracts n m Hn Hm.
  exact (fraun_linear _ _ _ F_add F_scal S_add S_scal Sinv_add Sinv_scal a b u v c).
Qed.

Print Assumptions dft_energy_conserved.
Print Assumptions dft_custom_compose.
Print Assumptions dft_custom_id.
Print Assumptions dft_custom_linear.
Print Assumptions dft_custom_shift.
Print Assumptions dft_steps_fold.
Print Assumptions dft_centered_energy_unit.
