(* C10 — property theorems (reference model).  The traced code is proved equal to this model
   on every run by coq/tie/C10_Tie*.v; end-to-end statements on the traced definitions are there. *)
From Coq Require Import Reals Bool.
From OdakV Require Import Base.RealAux Base.Vec3 C10.Model C10.Lemmas.
Open Scope R_scope.

(* the reported normal is perpendicular to the triangle's plane (all three edges) ... *)
Theorem C10_normal_perp : forall t0 t1 t2,
  vdot (tri_normal t0 t1 t2) (vsub t0 t1) = 0 /\ vdot (tri_normal t0 t1 t2) (vsub t2 t1) = 0 /\
  vdot (tri_normal t0 t1 t2) (vsub t2 t0) = 0.
Proof. exact normal_perp. Qed.
(* ... finite and non-zero: unit length whenever the triangle has non-zero area, in any orientation *)
Theorem C10_normal_unit : forall t0 t1 t2, tri_raw_normal t0 t1 t2 <> vzero -> vnorm2 (tri_normal t0 t1 t2) = 1.
Proof. exact normal_unit. Qed.
Theorem C10_normal_nonzero : forall t0 t1 t2, tri_raw_normal t0 t1 t2 <> vzero -> tri_normal t0 t1 t2 <> vzero.
Proof. exact normal_nonzero. Qed.
(* the hit point lies on the ray at the reported (signed) distance *)
Theorem C10_hit_on_ray : forall n c o d, hit_point n c o d = vadd o (vscale (plane_dist n c o d) d).
Proof. exact hit_on_ray. Qed.
(* and on the triangle's plane *)
Theorem C10_hit_on_plane : forall n c o d, vdot n d <> 0 -> vdot n (vsub (hit_point n c o d) c) = 0.
Proof. exact hit_on_plane. Qed.
Theorem C10_hit_on_triangle_plane : forall t0 t1 t2 o d,
  vdot (tri_raw_normal t0 t1 t2) d <> 0 ->
  vdot (tri_raw_normal t0 t1 t2) (vsub (hit_point (tri_raw_normal t0 t1 t2) (centroid t0 t1 t2) o d) t1) = 0.
Proof. exact hit_on_triangle_plane. Qed.
(* the distance does not depend on how the normal is scaled (so normalisation cannot move the hit) *)
Theorem C10_dist_scale_invariant : forall k n c o d, k <> 0 -> vdot n d <> 0 -> plane_dist (vscale k n) c o d = plane_dist n c o d.
Proof. exact dist_scale_invariant. Qed.
(* the barycentric computation returns the true coordinates, hence the flag is exact *)
Theorem C10_bary_correct : forall t0 t1 t2 p al be,
  tri_raw_normal t0 t1 t2 <> vzero ->
  p = vadd t0 (vadd (vscale al (vsub t2 t0)) (vscale be (vsub t1 t0))) ->
  bary_u t0 t1 t2 p = al /\ bary_v t0 t1 t2 p = be.
Proof. exact bary_correct. Qed.
Theorem C10_inside_iff : forall t0 t1 t2 p al be,
  tri_raw_normal t0 t1 t2 <> vzero ->
  p = vadd t0 (vadd (vscale al (vsub t2 t0)) (vscale be (vsub t1 t0))) ->
  (inside_flag t0 t1 t2 p = true <-> 0 <= al /\ 0 <= be /\ al + be < 1).
Proof. exact inside_iff. Qed.
(* NumPy's same-side test describes the same (closed) triangle *)
Theorem C10_same_side_iff : forall t0 t1 t2 al be,
  tri_raw_normal t0 t1 t2 <> vzero ->
  let p := vadd t0 (vadd (vscale al (vsub t2 t0)) (vscale be (vsub t1 t0))) in
  (inside_same_side t0 t1 t2 p = true <-> 0 <= al /\ 0 <= be /\ al + be <= 1).
Proof. exact inside_same_side_iff. Qed.
(* parallel rays have no intersection parameter at all *)
Theorem C10_parallel_no_solution : forall n c o d, vdot n d = 0 -> vdot n (vsub c o) <> 0 ->
  forall t, vdot n (vsub (vadd o (vscale t d)) c) <> 0.
Proof. exact parallel_iff_no_solution. Qed.

(* non-vacuity: a tilted triangle whose raw normal has component sum 0 (the orientation class the
   repaired normalisation used to break) meets the hypotheses *)
Example C10_instance : tri_raw_normal (0,0,0) (1,1,0) (0,0,1) <> vzero /\
  vx (tri_raw_normal (0,0,0) (1,1,0) (0,0,1)) + vy (tri_raw_normal (0,0,0) (1,1,0) (0,0,1)) + vz (tri_raw_normal (0,0,0) (1,1,0) (0,0,1)) = 0.
Proof.
  split.
  - unfold tri_raw_normal, vzero; v3. intros E. inversion E as [[E1 E2 E3]]. Lra.lra.
  - unfold tri_raw_normal; v3. Lra.lra.
Qed.
