(* C10 — reference model of ray / plane / triangle intersection (definitions only).
   Written from the geometry, independently of the code; the tracer output is proved equal to it
   on every run (coq/tie/C10_Tie.v). *)
From Coq Require Import Reals Bool.
From OdakV Require Import Base.RealAux Base.Vec3.
Open Scope R_scope.

(* triangle corners t0 t1 t2 ; ray origin o, direction d *)
Definition tri_raw_normal (t0 t1 t2 : V3) : V3 := vcross (vsub t0 t1) (vsub t2 t1).
Definition tri_normal (t0 t1 t2 : V3) : V3 :=
  let n := tri_raw_normal t0 t1 t2 in vscale (/ vnorm n) n.
Definition centroid (t0 t1 t2 : V3) : V3 :=
  ((vx t0 + vx t1 + vx t2) / 3, (vy t0 + vy t1 + vy t2) / 3, (vz t0 + vz t1 + vz t2) / 3).
(* signed distance along d from o to the plane through c with normal n *)
Definition plane_dist (n c o d : V3) : R := vdot n (vsub c o) / vdot n d.
Definition hit_point (n c o d : V3) : V3 := vadd o (vscale (plane_dist n c o d) d).

(* barycentric coordinates as the PyTorch code computes them: v0 = t2-t0, v1 = t1-t0, v2 = p-t0 *)
Definition bary_u (t0 t1 t2 p : V3) : R :=
  let v0 := vsub t2 t0 in let v1 := vsub t1 t0 in let v2 := vsub p t0 in
  (vdot v1 v1 * vdot v0 v2 - vdot v0 v1 * vdot v1 v2) * (1 / (vdot v0 v0 * vdot v1 v1 - vdot v0 v1 * vdot v0 v1)).
Definition bary_v (t0 t1 t2 p : V3) : R :=
  let v0 := vsub t2 t0 in let v1 := vsub t1 t0 in let v2 := vsub p t0 in
  (vdot v0 v0 * vdot v1 v2 - vdot v0 v1 * vdot v0 v2) * (1 / (vdot v0 v0 * vdot v1 v1 - vdot v0 v1 * vdot v0 v1)).
Definition inside_flag (t0 t1 t2 p : V3) : bool :=
  (Rleb 0 (bary_u t0 t1 t2 p) && Rleb 0 (bary_v t0 t1 t2 p)) && Rltb (bary_u t0 t1 t2 p + bary_v t0 t1 t2 p) 1.

(* NumPy test: p and a corner on the same side of the opposite edge, for all three corners *)
Definition same_side (p1 p2 a b : V3) : bool :=
  Rleb 0 (vdot (vcross (vsub b a) (vsub p1 a)) (vcross (vsub b a) (vsub p2 a))).
Definition inside_same_side (t0 t1 t2 p : V3) : bool :=
  (same_side p t0 t1 t2 && same_side p t1 t0 t2) && same_side p t2 t0 t1.
