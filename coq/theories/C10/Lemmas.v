From Coq Require Import Reals Lra Bool Psatz.
From OdakV Require Import Base.RealAux Base.Vec3 C10.Model.
Open Scope R_scope.

Ltac dv := repeat match goal with v : V3 |- _ => destruct v as [[? ?] ?] end.
Ltac c10 := repeat progress (unfold tri_normal, tri_raw_normal, centroid, plane_dist, hit_point, bary_u, bary_v in *); v3.

Lemma raw_normal_perp t0 t1 t2 :
  vdot (tri_raw_normal t0 t1 t2) (vsub t0 t1) = 0 /\ vdot (tri_raw_normal t0 t1 t2) (vsub t2 t1) = 0 /\
  vdot (tri_raw_normal t0 t1 t2) (vsub t2 t0) = 0.
Proof. dv; c10; repeat split; ring. Qed.

Lemma vdot_scale_l k a b : vdot (vscale k a) b = k * vdot a b.
Proof. dv; v3; ring. Qed.

Lemma normal_perp t0 t1 t2 :
  vdot (tri_normal t0 t1 t2) (vsub t0 t1) = 0 /\ vdot (tri_normal t0 t1 t2) (vsub t2 t1) = 0 /\
  vdot (tri_normal t0 t1 t2) (vsub t2 t0) = 0.
Proof.
  unfold tri_normal. cbv zeta. rewrite !vdot_scale_l.
  destruct (raw_normal_perp t0 t1 t2) as (A & B & C). rewrite A, B, C. repeat split; ring.
Qed.

Lemma normal_unit t0 t1 t2 : tri_raw_normal t0 t1 t2 <> vzero -> vnorm2 (tri_normal t0 t1 t2) = 1.
Proof.
  intros H. pose proof (vnorm2_pos _ H) as Hp. pose proof (vnorm_pos _ Hp) as Hn.
  pose proof (vnorm_sq (tri_raw_normal t0 t1 t2)) as Hs.
  unfold tri_normal. cbv zeta. set (n := tri_raw_normal t0 t1 t2) in *.
  unfold vnorm2 at 1. rewrite vdot_scale_l.
  replace (vdot n (vscale (/ vnorm n) n)) with (/ vnorm n * vnorm2 n) by (destruct n as [[? ?] ?]; v3; ring).
  rewrite <- Hs. set (r := vnorm n) in *. clearbody r. field. lra.
Qed.

Lemma normal_nonzero t0 t1 t2 : tri_raw_normal t0 t1 t2 <> vzero -> tri_normal t0 t1 t2 <> vzero.
Proof.
  intros H E. pose proof (normal_unit t0 t1 t2 H) as U. rewrite E in U. unfold vzero in U. v3. lra.
Qed.

Lemma hit_on_plane n c o d : vdot n d <> 0 -> vdot n (vsub (hit_point n c o d) c) = 0.
Proof. intros H. dv; c10. field. exact H. Qed.

Lemma hit_on_ray n c o d : hit_point n c o d = vadd o (vscale (plane_dist n c o d) d).
Proof. reflexivity. Qed.

Lemma dist_scale_invariant k n c o d : k <> 0 -> vdot n d <> 0 -> plane_dist (vscale k n) c o d = plane_dist n c o d.
Proof. intros Hk H. unfold plane_dist. rewrite !vdot_scale_l. field. split; assumption. Qed.

Lemma centroid_on_plane t0 t1 t2 : vdot (tri_raw_normal t0 t1 t2) (vsub (centroid t0 t1 t2) t1) = 0.
Proof. dv; c10. field. Qed.

(* the hit point computed through the centroid lies on the triangle's own plane *)
Lemma hit_on_triangle_plane t0 t1 t2 o d :
  vdot (tri_raw_normal t0 t1 t2) d <> 0 ->
  vdot (tri_raw_normal t0 t1 t2) (vsub (hit_point (tri_raw_normal t0 t1 t2) (centroid t0 t1 t2) o d) t1) = 0.
Proof. intros H. dv; c10. field. exact H. Qed.

Lemma gram_is_area t0 t1 t2 :
  let v0 := vsub t2 t0 in let v1 := vsub t1 t0 in
  vdot v0 v0 * vdot v1 v1 - vdot v0 v1 * vdot v0 v1 = vnorm2 (tri_raw_normal t0 t1 t2).
Proof. dv; c10; ring. Qed.

Lemma bary_correct t0 t1 t2 p al be :
  tri_raw_normal t0 t1 t2 <> vzero ->
  p = vadd t0 (vadd (vscale al (vsub t2 t0)) (vscale be (vsub t1 t0))) ->
  bary_u t0 t1 t2 p = al /\ bary_v t0 t1 t2 p = be.
Proof.
  intros H Hp. pose proof (vnorm2_pos _ H) as Hpos. rewrite <- gram_is_area in Hpos. cbv zeta in Hpos.
  subst p. dv; c10. split; field; lra.
Qed.

Lemma inside_iff t0 t1 t2 p al be :
  tri_raw_normal t0 t1 t2 <> vzero ->
  p = vadd t0 (vadd (vscale al (vsub t2 t0)) (vscale be (vsub t1 t0))) ->
  (inside_flag t0 t1 t2 p = true <-> 0 <= al /\ 0 <= be /\ al + be < 1).
Proof.
  intros H Hp. destruct (bary_correct t0 t1 t2 p al be H Hp) as [U V].
  unfold inside_flag. rewrite U, V, !andb_true_iff, !Rleb_true, Rltb_true. tauto.
Qed.

(* NumPy's same-side test agrees with the barycentric description on the closed triangle *)
Lemma same_side_values t0 t1 t2 al be :
  let p := vadd t0 (vadd (vscale al (vsub t2 t0)) (vscale be (vsub t1 t0))) in
  let A := vnorm2 (tri_raw_normal t0 t1 t2) in
  vdot (vcross (vsub t2 t1) (vsub p t1)) (vcross (vsub t2 t1) (vsub t0 t1)) = (1 - al - be) * A /\
  vdot (vcross (vsub t2 t0) (vsub p t0)) (vcross (vsub t2 t0) (vsub t1 t0)) = be * A /\
  vdot (vcross (vsub t1 t0) (vsub p t0)) (vcross (vsub t1 t0) (vsub t2 t0)) = al * A.
Proof. dv; c10; repeat split; ring. Qed.

Lemma inside_same_side_iff t0 t1 t2 al be :
  tri_raw_normal t0 t1 t2 <> vzero ->
  let p := vadd t0 (vadd (vscale al (vsub t2 t0)) (vscale be (vsub t1 t0))) in
  (inside_same_side t0 t1 t2 p = true <-> 0 <= al /\ 0 <= be /\ al + be <= 1).
Proof.
  intros H p. pose proof (vnorm2_pos _ H) as Hpos.
  destruct (same_side_values t0 t1 t2 al be) as (S0 & S1 & S2). fold p in S0, S1, S2.
  unfold inside_same_side, same_side. rewrite !andb_true_iff, !Rleb_true, S0, S1, S2.
  set (A := vnorm2 (tri_raw_normal t0 t1 t2)) in *.
  split.
  - intros [[A0 A1] A2]. repeat split; nra.
  - intros (A0 & A1 & A2). repeat split; nra.
Qed.

(* a ray parallel to the plane has no finite intersection parameter: n.d = 0 (the code then
   divides by zero and reports NaN; the R model only states the condition) *)
Lemma parallel_iff_no_solution n c o d : vdot n d = 0 -> vdot n (vsub c o) <> 0 ->
  forall t, vdot n (vsub (vadd o (vscale t d)) c) <> 0.
Proof.
  intros H0 H1 t.
  assert (E : vdot n (vsub (vadd o (vscale t d)) c) = t * vdot n d - vdot n (vsub c o)) by (dv; v3; ring).
  rewrite E, H0. lra.
Qed.
