(* C17 — tactic for the tie files (coq/tie/C17_Tie*.v): SEMANTIC equality of real expressions.
   `sem` proves  L = R  for terms built from + - * / ^, constants, and the non-polynomial atoms sqrt, ln, exp, cos,
   sin, Rabs, without relying on how the traced code spelled the arithmetic (e*e or e^2, 20*x or x*20, a/b or a*/b,
   the order of sums):
     1. try to close by ring / field (inverses of non-constant terms as opaque atoms first, then field with side
        conditions discharged by lra);
     2. otherwise pick an atom  f a  and an atom  f b  with the same head and different arguments, prove  a = b  by
        `sem` itself (recursively: arguments may again contain atoms), rewrite, and go on.
   Fail-closed: if the two sides are not equal up to these steps the tie lemma does not compile. *)
From Coq Require Import Reals Lra.
Open Scope R_scope.

Ltac sem_close :=
  first [ reflexivity | ring | (unfold Rdiv; ring) | (field; repeat split; lra) ].

Ltac sem :=
  first
  [ sem_close
  | (progress sem_align; sem) ]
with sem_align :=
  first [ sem_align1 sqrt | sem_align1 ln | sem_align1 exp | sem_align1 cos | sem_align1 sin | sem_align1 Rabs ]
with sem_align1 f :=
  match goal with
  | |- context [f ?a] =>
      match goal with
      | |- context [f ?b] =>
          tryif constr_eq a b then fail else
          (let H := fresh "Hsem" in assert (H : a = b) by sem; rewrite H; clear H)
      end
  end.

(* self-test: spellings of the same PSNR-like and wrapped-error-like formulas *)
Goal forall p a b : R, 20 * (ln (p / sqrt (((a - b) ^ 2 + (b - a) ^ 2) / 2)) / ln 10) = ln (p / sqrt (((a - b) * (a - b) + (b - a) * (b - a)) * / (1 + 1))) / ln 10 * 20.
Proof. intros. sem. Qed.
Goal forall a b : R, (sin a - sin b) ^ 2 + (cos a - cos b) ^ 2 = (cos a - cos b) * (cos a - cos b) + (sin a - sin b) * (sin a - sin b).
Proof. intros. sem. Qed.
Goal forall a b : R, cos (a + b) * sqrt (Rabs (a * 2)) = sqrt (Rabs (a + a)) * cos (b + a).
Proof. intros. sem. Qed.
(* and it does not prove what is not equal *)
Goal forall p a : R, 20 * ln (p / sqrt a) = 20 * ln (sqrt a / p) -> True.
Proof. intros p a _. assert_fails (assert (20 * ln (p / sqrt a) = 20 * ln (sqrt a / p)) by sem). exact I. Qed.
