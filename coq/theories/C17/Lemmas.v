(* C17 — proofs about the loss model. *)
From Coq Require Import Reals Lra Lia List ZArith Bool QArith Qround Qabs.
From OdakV Require Import C17.Model.
Import ListNotations.

(* ================================================================== Part 1: formulas over R *)
Open Scope R_scope.

Lemma rsum_nonneg l : Forall (fun x => 0 <= x) l -> 0 <= rsum l.
Proof. induction 1; simpl; lra. Qed.
Lemma rsum_zero_all l : Forall (fun x => 0 <= x) l -> rsum l = 0 -> Forall (fun x => x = 0) l.
Proof.
  induction 1 as [|x l Hx Hl IH]; simpl; intros; [constructor|].
  pose proof (rsum_nonneg l Hl). constructor; [lra|apply IH; lra].
Qed.
Lemma rsum_all_zero l : Forall (fun x => x = 0) l -> rsum l = 0.
Proof. induction 1; simpl; lra. Qed.
Lemma inv_INR_nonneg n : 0 <= / INR n.
Proof.
  destruct n; [simpl; rewrite Rinv_0; lra|].
  left. apply Rinv_0_lt_compat. apply lt_0_INR. lia.
Qed.
Lemma rmean_nonneg l : Forall (fun x => 0 <= x) l -> 0 <= rmean l.
Proof. intros H. unfold rmean, Rdiv. apply Rmult_le_pos; [apply rsum_nonneg, H|apply inv_INR_nonneg]. Qed.
Lemma rmean_all_zero l : Forall (fun x => x = 0) l -> rmean l = 0.
Proof. intros H. unfold rmean. rewrite (rsum_all_zero l H). unfold Rdiv. ring. Qed.
Lemma rmean_zero_all l : l <> [] -> Forall (fun x => 0 <= x) l -> rmean l = 0 -> Forall (fun x => x = 0) l.
Proof.
  intros Hne Hp H. apply rsum_zero_all; [exact Hp|].
  unfold rmean in H. assert (0 < INR (length l)) by (apply lt_0_INR; destruct l; [congruence|simpl; lia]).
  apply (Rmult_eq_compat_r (INR (length l))) in H. unfold Rdiv in H. rewrite Rmult_assoc, Rinv_l in H by lra. lra.
Qed.
Lemma Forall_map {A B} (f : A -> B) (P : B -> Prop) l : Forall P (map f l) <-> Forall (fun x => P (f x)) l.
Proof. induction l; simpl; split; intros H; try constructor; inversion H; subst; try tauto; apply IHl; assumption. Qed.

Lemma sqd_nonneg p : 0 <= sqd p.
Proof. unfold sqd. apply pow2_ge_0. Qed.
Lemma abd_nonneg p : 0 <= abd p.
Proof. unfold abd. apply Rabs_pos. Qed.
Lemma sqd_zero p : sqd p = 0 <-> fst p = snd p.
Proof. unfold sqd. split; intros H; [|rewrite H; ring]. assert (fst p - snd p = 0) by nra. lra. Qed.

Lemma mse_nonneg l : 0 <= mse l.
Proof. unfold mse. apply rmean_nonneg. apply Forall_map. apply Forall_forall. intros; apply sqd_nonneg. Qed.
Lemma sse_nonneg l : 0 <= sse l.
Proof. unfold sse. apply rsum_nonneg. apply Forall_map. apply Forall_forall. intros; apply sqd_nonneg. Qed.
Lemma mae_nonneg l : 0 <= mae l.
Proof. unfold mae. apply rmean_nonneg. apply Forall_map. apply Forall_forall. intros; apply abd_nonneg. Qed.
Lemma mse_zero_iff l : l <> [] -> (mse l = 0 <-> Forall (fun p => fst p = snd p) l).
Proof.
  intros Hne. unfold mse. split; intros H.
  - apply rmean_zero_all in H.
    + apply Forall_map in H. eapply Forall_impl; [|exact H]. intros p. apply sqd_zero.
    + destruct l; [congruence|discriminate].
    + apply Forall_map. apply Forall_forall. intros; apply sqd_nonneg.
  - apply rmean_all_zero. apply Forall_map. eapply Forall_impl; [|exact H]. intros p. apply sqd_zero.
Qed.
Lemma mse_identity l : Forall (fun p => fst p = snd p) l -> mse l = 0.
Proof. intros H. unfold mse. apply rmean_all_zero. apply Forall_map. eapply Forall_impl; [|exact H]. intros p. apply sqd_zero. Qed.
Lemma mae_identity l : Forall (fun p => fst p = snd p) l -> mae l = 0.
Proof.
  intros H. unfold mae. apply rmean_all_zero. apply Forall_map. eapply Forall_impl; [|exact H].
  intros p Hp. unfold abd. rewrite Hp. replace (snd p - snd p) with 0 by ring. apply Rabs_R0.
Qed.

(* ---- multiplane *)
Lemma mp_nonneg w0 w1 w2 px mpx : 0 <= w0 -> 0 <= w1 -> 0 <= w2 -> 0 <= mp_loss w0 w1 w2 px mpx.
Proof.
  intros. unfold mp_loss. pose proof (mse_nonneg px). pose proof (mse_nonneg (map masked mpx)). pose proof (mse_nonneg (map corr px)).
  repeat apply Rplus_le_le_0_compat; apply Rmult_le_pos; assumption.
Qed.
Lemma masked_identity mpx : Forall (fun q => fst (fst q) = snd (fst q)) mpx -> Forall (fun p => fst p = snd p) (map masked mpx).
Proof. intros H. apply Forall_map. eapply Forall_impl; [|exact H]. intros [[x t] m]; simpl; intros ->; reflexivity. Qed.
Lemma corr_identity px : Forall (fun p => fst p = snd p) px -> Forall (fun p => fst p = snd p) (map corr px).
Proof. intros H. apply Forall_map. eapply Forall_impl; [|exact H]. intros [x t]; simpl; intros ->; reflexivity. Qed.
Lemma mp_zero w0 w1 w2 px mpx :
  Forall (fun p => fst p = snd p) px -> Forall (fun q => fst (fst q) = snd (fst q)) mpx -> mp_loss w0 w1 w2 px mpx = 0.
Proof.
  intros H1 H2. unfold mp_loss. rewrite (mse_identity px H1), (mse_identity _ (masked_identity mpx H2)), (mse_identity _ (corr_identity px H1)). ring.
Qed.
Lemma pmp_nonneg w0 w1 w2 v0 v1 v2 px mpx :
  0 <= w0 -> 0 <= w1 -> 0 <= w2 -> 0 <= v0 -> 0 <= v1 -> 0 <= v2 -> 0 <= pmp_loss w0 w1 w2 v0 v1 v2 px mpx.
Proof.
  intros A0 A1 A2 B0 B1 B2. unfold pmp_loss. pose proof (mp_nonneg w0 w1 w2 px mpx A0 A1 A2).
  pose proof (mae_nonneg px). pose proof (mae_nonneg (map masked mpx)). pose proof (mae_nonneg (map corr px)).
  apply Rplus_le_le_0_compat; [assumption|].
  apply Rplus_le_le_0_compat; [apply Rplus_le_le_0_compat|]; apply Rmult_le_pos; assumption.
Qed.
Lemma pmp_zero w0 w1 w2 v0 v1 v2 px mpx :
  Forall (fun p => fst p = snd p) px -> Forall (fun q => fst (fst q) = snd (fst q)) mpx -> pmp_loss w0 w1 w2 v0 v1 v2 px mpx = 0.
Proof.
  intros H1 H2. unfold pmp_loss. rewrite (mp_zero _ _ _ _ _ H1 H2).
  rewrite (mae_identity px H1), (mae_identity _ (masked_identity mpx H2)), (mae_identity _ (corr_identity px H1)). ring.
Qed.

(* ---- wrapped phase error *)
Lemma wterm_closed a b : wterm a b = 2 - 2 * cos (a - b).
Proof.
  unfold wterm. rewrite cos_minus.
  pose proof (sin2_cos2 a) as Ha. pose proof (sin2_cos2 b) as Hb. unfold Rsqr in Ha, Hb.
  replace ((sin a - sin b) ^ 2 + (cos a - cos b) ^ 2)
    with ((sin a * sin a + cos a * cos a) + (sin b * sin b + cos b * cos b) - 2 * (cos a * cos b + sin a * sin b)) by ring.
  rewrite Ha, Hb. ring.
Qed.
Lemma wterm_nonneg a b : 0 <= wterm a b.
Proof. unfold wterm. pose proof (pow2_ge_0 (sin a - sin b)). pose proof (pow2_ge_0 (cos a - cos b)). lra. Qed.
Lemma wterm_le_4 a b : wterm a b <= 4.
Proof. rewrite wterm_closed. pose proof (COS_bound (a - b)). lra. Qed.
Lemma wterm_zero a : wterm a a = 0.
Proof. unfold wterm. ring. Qed.
Lemma sin_period_Z x k : sin (x + 2 * IZR k * PI) = sin x.
Proof.
  destruct (Z_le_gt_dec 0 k) as [H|H].
  - rewrite <- (Z2Nat.id k H), <- INR_IZR_INZ. apply sin_period.
  - assert (Hk : (0 <= - k)%Z) by lia.
    rewrite <- (sin_period (x + 2 * IZR k * PI) (Z.to_nat (- k))).
    rewrite INR_IZR_INZ, (Z2Nat.id _ Hk), opp_IZR. f_equal. ring.
Qed.
Lemma cos_period_Z x k : cos (x + 2 * IZR k * PI) = cos x.
Proof.
  destruct (Z_le_gt_dec 0 k) as [H|H].
  - rewrite <- (Z2Nat.id k H), <- INR_IZR_INZ. apply cos_period.
  - assert (Hk : (0 <= - k)%Z) by lia.
    rewrite <- (cos_period (x + 2 * IZR k * PI) (Z.to_nat (- k))).
    rewrite INR_IZR_INZ, (Z2Nat.id _ Hk), opp_IZR. f_equal. ring.
Qed.
Lemma wterm_periodic a b j k : wterm (a + 2 * IZR j * PI) (b + 2 * IZR k * PI) = wterm a b.
Proof. unfold wterm. rewrite !sin_period_Z, !cos_period_Z. reflexivity. Qed.

Definition wshift (q : R * R * (Z * Z)) : R * R :=
  let '(a, b, (j, k)) := q in (a + 2 * IZR j * PI, b + 2 * IZR k * PI).
Lemma wmse_terms_periodic l :
  map (fun p => wterm (fst p) (snd p)) (map wshift l) = map (fun p => wterm (fst p) (snd p)) (map (fun q => fst q) l).
Proof. induction l as [|[[a b] [j k]] l IH]; simpl; [reflexivity|]. rewrite wterm_periodic, IH. reflexivity. Qed.
Lemma wmse_mean_periodic l : wmse_mean (map wshift l) = wmse_mean (map (fun q => fst q) l).
Proof. unfold wmse_mean, rmean. rewrite wmse_terms_periodic, !map_length. reflexivity. Qed.
Lemma wmse_sum_periodic l : wmse_sum (map wshift l) = wmse_sum (map (fun q => fst q) l).
Proof. unfold wmse_sum. rewrite wmse_terms_periodic. reflexivity. Qed.
Lemma wmse_mean_nonneg l : 0 <= wmse_mean l.
Proof. unfold wmse_mean. apply rmean_nonneg. apply Forall_map. apply Forall_forall. intros; apply wterm_nonneg. Qed.
Lemma wmse_sum_nonneg l : 0 <= wmse_sum l.
Proof. unfold wmse_sum. apply rsum_nonneg. apply Forall_map. apply Forall_forall. intros; apply wterm_nonneg. Qed.
Lemma wmse_mean_zero l : Forall (fun p => fst p = snd p) l -> wmse_mean l = 0.
Proof.
  intros H. unfold wmse_mean. apply rmean_all_zero. apply Forall_map. eapply Forall_impl; [|exact H].
  intros p Hp. rewrite Hp. apply wterm_zero.
Qed.
Lemma wmse_sum_zero l : Forall (fun p => fst p = snd p) l -> wmse_sum l = 0.
Proof.
  intros H. unfold wmse_sum. apply rsum_all_zero. apply Forall_map. eapply Forall_impl; [|exact H].
  intros p Hp. rewrite Hp. apply wterm_zero.
Qed.
Lemma wmse_mean_closed l : wmse_mean l = rmean (map (fun p => 2 - 2 * cos (fst p - snd p)) l).
Proof. unfold wmse_mean. f_equal. apply map_ext. intros p. apply wterm_closed. Qed.

(* ---- total variation *)
Lemma dsq_nonneg r : 0 <= dsq r.
Proof.
  induction r as [|a r IH]; [simpl; lra|]. destruct r as [|b r]; [simpl; lra|].
  change (dsq (a :: b :: r)) with ((b - a) ^ 2 + dsq (b :: r)).
  pose proof (pow2_ge_0 (b - a)). lra.
Qed.
Lemma zsq_nonneg r1 r2 : 0 <= zsq r1 r2.
Proof.
  revert r2. induction r1 as [|a r1 IH]; intros [|b r2]; try (simpl; lra).
  change (zsq (a :: r1) (b :: r2)) with ((b - a) ^ 2 + zsq r1 r2).
  pose proof (pow2_ge_0 (b - a)). pose proof (IH r2). lra.
Qed.
Lemma tv_x_nonneg img : 0 <= tv_x img.
Proof. induction img as [|r img IH]; [simpl; lra|]. change (tv_x (r :: img)) with (dsq r + tv_x img). pose proof (dsq_nonneg r). lra. Qed.
Lemma tv_y_nonneg img : 0 <= tv_y img.
Proof.
  induction img as [|r1 img IH]; [simpl; lra|]. destruct img as [|r2 img]; [simpl; lra|].
  change (tv_y (r1 :: r2 :: img)) with (zsq r1 r2 + tv_y (r2 :: img)).
  pose proof (zsq_nonneg r1 r2). lra.
Qed.
Lemma tv_nonneg frame : 0 <= tv frame.
Proof.
  unfold tv, Rdiv. apply Rmult_le_pos; [|apply inv_INR_nonneg].
  apply Rplus_le_le_0_compat; apply rsum_nonneg; apply Forall_map; apply Forall_forall; intros; [apply tv_x_nonneg|apply tv_y_nonneg].
Qed.
Lemma dsq_uniform c r : Forall (eq c) r -> dsq r = 0.
Proof.
  induction 1 as [|a r Ha Hr IH]; [reflexivity|]. destruct r as [|b r]; [reflexivity|].
  change (dsq (a :: b :: r)) with ((b - a) ^ 2 + dsq (b :: r)).
  inversion Hr; subst. rewrite IH. ring.
Qed.
Lemma zsq_uniform c r1 r2 : Forall (eq c) r1 -> Forall (eq c) r2 -> zsq r1 r2 = 0.
Proof.
  intros H1. revert r2. induction H1 as [|a r1 Ha Hr IH]; intros r2 H2; [reflexivity|].
  destruct H2 as [|b r2 Hb H2]; [reflexivity|].
  change (zsq (a :: r1) (b :: r2)) with ((b - a) ^ 2 + zsq r1 r2). subst. rewrite (IH r2 H2). ring.
Qed.
Lemma tv_x_uniform c img : uniform_img c img -> tv_x img = 0.
Proof. induction 1 as [|r img Hr Himg IH]; [reflexivity|]. change (tv_x (r :: img)) with (dsq r + tv_x img). rewrite (dsq_uniform c r Hr), IH. ring. Qed.
Lemma tv_y_uniform c img : uniform_img c img -> tv_y img = 0.
Proof.
  induction 1 as [|r1 img H1 Himg IH]; [reflexivity|]. destruct img as [|r2 img]; [reflexivity|].
  change (tv_y (r1 :: r2 :: img)) with (zsq r1 r2 + tv_y (r2 :: img)).
  inversion Himg; subst. rewrite IH, (zsq_uniform c r1 r2); [ring|assumption|assumption].
Qed.
(* every channel may have its own constant *)
Lemma tv_uniform frame : Forall (fun img => exists c, uniform_img c img) frame -> tv frame = 0.
Proof.
  intros H. unfold tv.
  assert (A : rsum (map tv_x frame) = 0) by (apply rsum_all_zero, Forall_map; eapply Forall_impl; [|exact H]; intros img [c Hc]; exact (tv_x_uniform c img Hc)).
  assert (B : rsum (map tv_y frame) = 0) by (apply rsum_all_zero, Forall_map; eapply Forall_impl; [|exact H]; intros img [c Hc]; exact (tv_y_uniform c img Hc)).
  rewrite A, B. unfold Rdiv. ring.
Qed.

(* ---- PSNR *)
Lemma ln10_pos : 0 < ln 10.
Proof. rewrite <- ln_1. apply ln_increasing; lra. Qed.
Lemma psnr_antitone peak m1 m2 : 0 < peak -> 0 < m1 -> m1 < m2 -> psnr peak m2 < psnr peak m1.
Proof.
  intros Hp H1 H12. unfold psnr, log10.
  assert (S1 : 0 < sqrt m1) by (apply sqrt_lt_R0; lra).
  assert (S12 : sqrt m1 < sqrt m2) by (apply sqrt_lt_1_alt; lra).
  assert (Q : peak / sqrt m2 < peak / sqrt m1).
  { unfold Rdiv. apply Rmult_lt_compat_l; [exact Hp|]. apply Rinv_lt_contravar; [apply Rmult_lt_0_compat; lra|exact S12]. }
  assert (P2 : 0 < peak / sqrt m2) by (apply Rdiv_lt_0_compat; lra).
  pose proof (ln_increasing _ _ P2 Q) as L. pose proof ln10_pos as T.
  apply Rmult_lt_compat_l; [lra|]. unfold Rdiv. apply Rmult_lt_compat_r; [apply Rinv_0_lt_compat; exact T|exact L].
Qed.

(* ---- speckle contrast *)
Lemma rsum_sq_shift a l : rsum (map (fun x => (x - a) ^ 2) l) = rsum (map (fun x => x ^ 2) l) - 2 * a * rsum l + INR (length l) * a ^ 2.
Proof. induction l as [|x l IH]; [simpl; ring|]. rewrite map_cons. cbn [rsum length]. rewrite S_INR, IH. simpl. ring. Qed.
(* Cauchy-Schwarz in the form n * sum x^2 >= (sum x)^2 *)
Lemma cauchy_sum l : (rsum l) ^ 2 <= INR (length l) * rsum (map (fun x => x ^ 2) l).
Proof.
  induction l as [|a l IH]; [simpl; lra|]. rewrite map_cons. cbn [rsum length]. rewrite S_INR.
  assert (P : 0 <= rsum (map (fun x => (x - a) ^ 2) l)) by (apply rsum_nonneg, Forall_map, Forall_forall; intros; apply pow2_ge_0).
  rewrite rsum_sq_shift in P. nra.
Qed.
Lemma win_var_nonneg w : 0 <= win_var w.
Proof.
  unfold win_var, win_mean. rewrite map_length. destruct w as [|a w]; [simpl; rewrite Rinv_0 || idtac; unfold Rdiv; simpl; try rewrite Rinv_0; lra|].
  set (n := INR (length (a :: w))). assert (Hn : 0 < n) by (apply lt_0_INR; simpl; lia).
  pose proof (cauchy_sum (a :: w)) as C. fold n in C.
  set (S1 := rsum (a :: w)) in *. set (S2 := rsum (map (fun x => x ^ 2) (a :: w))) in *.
  replace (S2 / n - (S1 / n) ^ 2) with ((n * S2 - S1 ^ 2) / (n * n)) by (field; lra).
  apply Rmult_le_pos; [lra|]. left. apply Rinv_0_lt_compat. nra.
Qed.
(* in exact arithmetic the clamp of the repaired code never acts *)
Lemma speckle_clamp_noop w : Rmax 0 (win_var w) = win_var w.
Proof. apply Rmax_right. apply win_var_nonneg. Qed.
Lemma rsum_const c w : Forall (eq c) w -> rsum w = INR (length w) * c.
Proof. induction 1; [simpl; ring|]. cbn [rsum length]. rewrite S_INR, IHForall. subst. ring. Qed.
Lemma win_var_uniform c w : w <> [] -> Forall (eq c) w -> win_var w = 0.
Proof.
  intros Hne H. unfold win_var, win_mean. rewrite map_length.
  assert (H2 : Forall (eq (c ^ 2)) (map (fun x => x ^ 2) w)) by (apply Forall_map; eapply Forall_impl; [|exact H]; intros x ->; reflexivity).
  rewrite (rsum_const c w H), (rsum_const (c ^ 2) _ H2), map_length.
  assert (0 < INR (length w)) by (apply lt_0_INR; destruct w; [congruence|simpl; lia]). field. lra.
Qed.
Lemma win_mean_uniform c w : w <> [] -> Forall (eq c) w -> win_mean w = c.
Proof.
  intros Hne H. unfold win_mean. rewrite (rsum_const c w H).
  assert (0 < INR (length w)) by (apply lt_0_INR; destruct w; [congruence|simpl; lia]). field. lra.
Qed.
(* a uniform window of NON-ZERO intensity c: the mean is c (so the quotient is a genuine 0 / c), the contrast 0 *)
Lemma speckle_uniform c w : w <> [] -> c <> 0 -> Forall (eq c) w -> speckle_defined w /\ speckle_c w = 0.
Proof.
  intros Hne Hc H. unfold speckle_defined. rewrite (win_mean_uniform c w Hne H). split; [exact Hc|].
  unfold speckle_c. rewrite (win_var_uniform c w Hne H), (win_mean_uniform c w Hne H). rewrite Rmax_right by lra. rewrite sqrt_0. field. exact Hc.
Qed.
(* strictly positive intensities are in the domain of sigma / mean ... *)
Lemma speckle_defined_pos w : w <> [] -> Forall (fun x => 0 < x) w -> 0 < win_mean w.
Proof.
  intros Hne H. unfold win_mean. apply Rdiv_lt_0_compat; [|apply lt_0_INR; destruct w; [congruence|simpl; lia]].
  destruct H as [|x l Hx Hl]; [congruence|]. simpl. assert (0 <= rsum l) by (apply rsum_nonneg; eapply Forall_impl; [|exact Hl]; intros; lra). lra.
Qed.
(* ... a dark window is a non-negative intensity that is not *)
Lemma speckle_undefined_dark : exists w, w <> [] /\ Forall (fun x => 0 <= x) w /\ ~ speckle_defined w.
Proof. exists [0; 0; 0; 0]. split; [discriminate|]. split; [repeat constructor; lra|]. unfold speckle_defined, win_mean. simpl. intros H. apply H. field. Qed.
Lemma speckle_c_nonneg w : 0 < win_mean w -> 0 <= speckle_c w.
Proof. intros H. unfold speckle_c, Rdiv. apply Rmult_le_pos; [apply sqrt_pos|left; apply Rinv_0_lt_compat; exact H]. Qed.
Lemma speckle_loss_nonneg ws : 0 <= speckle_loss ws.
Proof. apply mse_nonneg. Qed.
Lemma speckle_loss_uniform ws : Forall (fun w => w <> [] /\ exists c, c <> 0 /\ Forall (eq c) w) ws -> speckle_loss ws = 0.
Proof.
  intros H. unfold speckle_loss. apply mse_identity. apply Forall_map. eapply Forall_impl; [|exact H].
  intros w [Hne [c [Hc0 Hc]]]. simpl. exact (proj2 (speckle_uniform c w Hne Hc0 Hc)).
Qed.

(* ---- phase gradient *)
Lemma pg_nonneg k ws : 0 <= pg_loss k ws.
Proof. apply mse_nonneg. Qed.
Lemma dotp_uniform c k w : length k = length w -> Forall (eq c) w -> dotp k w = c * rsum k.
Proof.
  revert w. induction k as [|a k IH]; intros [|b w] Hl Hw; simpl in *; try discriminate; try ring.
  inversion Hw; subst. rewrite (IH w); [ring|lia|assumption].
Qed.
(* a kernel whose weights sum to zero (the Laplacian) does not respond to a constant window *)
Lemma dotp_uniform_zero c k w : length k = length w -> Forall (eq c) w -> rsum k = 0 -> dotp k w = 0.
Proof. intros Hl Hw Hk. rewrite (dotp_uniform c k w Hl Hw), Hk. ring. Qed.
Lemma dotp_zero_window k w : Forall (eq 0) w -> dotp k w = 0.
Proof. intros H. revert k. induction H; intros [|a k]; simpl; try reflexivity. subst. rewrite IHForall. ring. Qed.
Lemma pg_zero k ws : Forall (Forall (eq 0)) ws -> pg_loss k ws = 0.
Proof.
  intros H. unfold pg_loss. apply mse_identity. apply Forall_map. eapply Forall_impl; [|exact H].
  intros w Hw. simpl. apply dotp_zero_window. exact Hw.
Qed.
Lemma pg_uniform_interior c k ws : rsum k = 0 -> Forall (fun w => length k = length w /\ Forall (eq c) w) ws -> pg_loss k ws = 0.
Proof.
  intros Hk H. unfold pg_loss. apply mse_identity. apply Forall_map. eapply Forall_impl; [|exact H].
  intros w [Hl Hw]. simpl. exact (dotp_uniform_zero c k w Hl Hw Hk).
Qed.

(* ---- multi-scale total variation *)
Lemma ms_tv_nonneg levels : 0 <= ms_tv levels.
Proof. unfold ms_tv. apply rsum_nonneg, Forall_map, Forall_forall. intros; apply tv_nonneg. Qed.
Lemma ms_tv_uniform levels : Forall (Forall (fun img => exists c, uniform_img c img)) levels -> ms_tv levels = 0.
Proof. intros H. unfold ms_tv. apply rsum_all_zero, Forall_map. eapply Forall_impl; [|exact H]. intros f Hf. apply tv_uniform. exact Hf. Qed.

(* ---- values of the gaze-contingent losses under the determinism contract *)
Lemma combine_diag (l : list R) : Forall (fun p => fst p = snd p) (combine l l).
Proof. induction l; simpl; constructor; [reflexivity|assumption]. Qed.
Lemma mse_combine_refl l : mse (combine l l) = 0.
Proof. apply mse_identity, combine_diag. Qed.
Lemma stats_loss_nonneg a b : 0 <= stats_loss a b.
Proof. unfold stats_loss. apply rmean_nonneg, Forall_map, Forall_forall. intros; apply mse_nonneg. Qed.
Lemma stats_loss_refl a : stats_loss a a = 0.
Proof.
  unfold stats_loss. apply rmean_all_zero, Forall_map. induction a as [|x a IH]; simpl; constructor; [apply mse_combine_refl|exact IH].
Qed.
Section GazeLossValueLemmas.
Variables (Img Gz : Type) (pix : Img -> list R) (statsmaps : Img -> Gz -> list (list R)) (fovea : Gz -> list R)
          (blurf metam : Img -> Gz -> list R).
Lemma met_value_nonneg fw img tgt g : 0 <= fw -> 0 <= met_value pix statsmaps fovea fw img tgt g.
Proof.
  intros Hf. unfold met_value. pose proof (stats_loss_nonneg (statsmaps img g) (statsmaps tgt g)).
  pose proof (mse_nonneg (combine (rmul (fovea g) (pix img)) (rmul (fovea g) (pix tgt)))).
  apply Rplus_le_le_0_compat; [assumption|apply Rmult_le_pos; assumption].
Qed.
Lemma met_value_identity fw img g : met_value pix statsmaps fovea fw img img g = 0.
Proof. unfold met_value. rewrite stats_loss_refl, mse_combine_refl. ring. Qed.
Lemma blur_lowpass_nonneg img tgt g : 0 <= blur_lowpass_value blurf img tgt g.
Proof. apply mse_nonneg. Qed.
Lemma blur_lowpass_identity img g : blur_lowpass_value blurf img img g = 0.
Proof. apply mse_combine_refl. Qed.
Lemma blur_match_nonneg img tgt g : 0 <= blur_match_value pix blurf img tgt g.
Proof. apply mse_nonneg. Qed.
Lemma blur_match_zero img tgt g : pix img = blurf tgt g -> blur_match_value pix blurf img tgt g = 0.
Proof. intros H. unfold blur_match_value. rewrite H. apply mse_combine_refl. Qed.
Lemma metamer_mse_nonneg img tgt g : 0 <= metamer_mse_value pix metam img tgt g.
Proof. apply mse_nonneg. Qed.
Lemma metamer_mse_zero img tgt g : pix img = metam tgt g -> metamer_mse_value pix metam img tgt g = 0.
Proof. intros H. unfold metamer_mse_value. rewrite H. apply mse_combine_refl. Qed.
End GazeLossValueLemmas.
Close Scope R_scope.

(* ================================================================== Part 2: histogram loss *)
Open Scope Z_scope.
Lemma zsqdiff_refl a : zsqdiff a a = 0.
Proof. induction a as [|x a IH]; simpl; [reflexivity|]. rewrite IH. ring. Qed.
Lemma zsqdiff_nonneg a b : 0 <= zsqdiff a b.
Proof. revert b. induction a as [|x a IH]; intros [|y b]; simpl; try lia. pose proof (IH b). pose proof (Z.square_nonneg (x - y)). lia. Qed.
Lemma hist_sq_refl bins lo hi f : hist_sq bins lo hi f f = 0.
Proof. induction f as [|c f IH]; simpl; [reflexivity|]. rewrite zsqdiff_refl, IH. reflexivity. Qed.
Lemma hist_sq_nonneg bins lo hi f g : 0 <= hist_sq bins lo hi f g.
Proof. revert g. induction f as [|c f IH]; intros [|c' g]; simpl; try lia. pose proof (IH g). pose proof (zsqdiff_nonneg (histc bins lo hi c) (histc bins lo hi c')). lia. Qed.
Lemma hist_zero bins lo hi f : (hist_loss bins lo hi f f == 0)%Q.
Proof. unfold hist_loss. rewrite hist_sq_refl. unfold Qdiv. apply Qmult_0_l. Qed.
Lemma hist_nonneg bins lo hi f g : 0 <= bins -> (0 <= hist_loss bins lo hi f g)%Q.
Proof.
  intros Hb. unfold hist_loss, Qdiv. apply Qmult_le_0_compat.
  - change 0%Q with (inject_Z 0). rewrite <- Zle_Qle. apply hist_sq_nonneg.
  - apply Qinv_le_0_compat. change 0%Q with (inject_Z 0). rewrite <- Zle_Qle. apply Z.mul_nonneg_nonneg; lia.
Qed.
(* binning: every counted element lands in a bin 0 .. bins-1 *)
Lemma bin_of_range bins lo hi x i : 0 < bins -> (lo < hi)%Q -> bin_of bins lo hi x = Some i -> 0 <= i < bins.
Proof.
  intros Hb Hlh. unfold bin_of. set (fl := Qfloor ((x - lo) * inject_Z bins / (hi - lo))).
  destruct (Qle_bool lo x && Qle_bool x hi) eqn:E; [|discriminate].
  apply andb_true_iff in E. destruct E as [E1 E2]. apply Qle_bool_iff in E1. apply Qle_bool_iff in E2.
  assert (P : (0 <= (x - lo) * inject_Z bins / (hi - lo))%Q).
  { unfold Qdiv. apply Qmult_le_0_compat; [apply Qmult_le_0_compat|].
    - unfold Qminus. rewrite <- (Qplus_opp_r lo). apply Qplus_le_l. exact E1.
    - change 0%Q with (inject_Z 0). rewrite <- Zle_Qle. lia.
    - apply Qinv_le_0_compat. unfold Qminus. rewrite <- (Qplus_opp_r lo). apply Qplus_le_l. apply Qlt_le_weak. exact Hlh. }
  assert (F : 0 <= fl).
  { rewrite <- (Qfloor_Z 0). apply Qfloor_resp_le. exact P. }
  clearbody fl. intros H. injection H as <-.
  destruct (bins <=? fl) eqn:L; [lia|]. apply Z.leb_gt in L. lia.
Qed.
Close Scope Z_scope.

(* ================================================================== Part 3: caching state machines *)
Open Scope Z_scope.
Lemma content_eqb_eq a b : content_eqb a b = true -> a = b.
Proof. destruct a, b. unfold content_eqb. simpl. intros H. apply andb_true_iff in H. destruct H as [H1 H2]. apply Z.eqb_eq in H1. apply Z.eqb_eq in H2. congruence. Qed.
Lemma content_eqb_refl a : content_eqb a a = true.
Proof. destruct a. unfold content_eqb. simpl. rewrite !Z.eqb_refl. reflexivity. Qed.
Lemma gaze_eqb_eq a b : gaze_eqb a b = true -> a = b.
Proof. exact (content_eqb_eq a b). Qed.
Lemma gaze_eqb_refl a : gaze_eqb a a = true.
Proof. exact (content_eqb_refl a). Qed.

(* the generic argument: an invariant of the object's state that is kept by every call, that does not
   mention the heap (so in-place edits by the caller cannot break it), and under which a call returns
   what a fresh object returns *)
Section Invariant.
Context {S : Type} (step : env -> S -> nat -> nat -> nat -> Z -> S * out) (init : S) (Inv : S -> Prop).
Hypothesis inv_init : Inv init.
Hypothesis inv_step : forall e s i t g c, Inv s ->
  Inv (fst (step e s i t g c)) /\ snd (step e s i t g c) = snd (step e init i t g c).
Lemma run_by_invariant : history_independent step init.
Proof.
  intros e ops. assert (G : forall e s, Inv s -> run step e s ops = run_fresh step init e ops).
  { induction ops as [|o r IH]; intros e' s Hs; [reflexivity|]. destruct o as [i t g c|g v|t d]; simpl.
    - destruct (inv_step e' s i t g c Hs) as [H1 H2]. destruct (step e' s i t g c) as [s1 o1]. simpl in *. rewrite H2. f_equal. apply IH. exact H1.
    - apply IH. exact Hs.
    - apply IH. exact Hs. }
  apply G. exact inv_init.
Qed.
End Invariant.

(* ---- RadiallyVaryingBlur with a copied gaze and the map built from the call's own configuration *)
Definition rvb_ok (r : rvb_state) : Prop :=
  match r with None => True | Some (sh, c, k, l) => exists v, k = GVal v /\ l = Lod sh c v end.
Lemma rvb_lookup_ok d e r sh c g : lod_copy d = true -> cfg_arg d = true -> rvb_ok r ->
  rvb_ok (fst (rvb_lookup d e r sh c g)) /\ snd (rvb_lookup d e r sh c g) = Lod sh c (gaze_at e g).
Proof.
  intros Hd Hc Hr. unfold rvb_lookup. rewrite Hd, Hc. destruct r as [[[[sh0 c0] k] l]|]; simpl.
  - destruct Hr as [v [-> ->]]. simpl. destruct ((sh0 =? sh) && (c0 =? c) && gaze_eqb v (gaze_at e g)) eqn:E; simpl.
    + apply andb_true_iff in E. destruct E as [E12 E3]. apply andb_true_iff in E12. destruct E12 as [E1 E2].
      apply Z.eqb_eq in E1. apply Z.eqb_eq in E2. apply gaze_eqb_eq in E3. subst. split; [exists (gaze_at e g); split; reflexivity|reflexivity].
    + split; [exists (gaze_at e g); split; reflexivity|reflexivity].
  - split; [exists (gaze_at e g); split; reflexivity|reflexivity].
Qed.

Local Arguments rvb_lookup : simpl never.
Lemma rvb_step_ok d e s i t g c : lod_copy d = true -> cfg_arg d = true -> rvb_ok s ->
  rvb_ok (fst (rvb_step d e s i t g c)) /\ snd (rvb_step d e s i t g c) = snd (rvb_step d e blur_init i t g c).
Proof.
  intros Hd Hc Hs. unfold rvb_step.
  destruct (rvb_lookup_ok d e s (c_shape (tensor_at e i)) c g Hd Hc Hs) as [A B].
  destruct (rvb_lookup_ok d e blur_init (c_shape (tensor_at e i)) c g Hd Hc I) as [_ B0].
  destruct (rvb_lookup d e s _ c g) as [s1 l]. destruct (rvb_lookup d e blur_init _ c g) as [s0 l0]. simpl in *. subst. split; [exact A|reflexivity].
Qed.
Lemma sound_rvb_flags d : sound_rvb d = true -> lod_copy d = true /\ cfg_arg d = true.
Proof. unfold sound_rvb. intros H. apply andb_true_iff in H. exact H. Qed.
Lemma rvb_sound d : sound_rvb d = true -> history_independent (rvb_step d) blur_init.
Proof. intros Hd. destruct (sound_rvb_flags d Hd). apply (run_by_invariant (rvb_step d) blur_init rvb_ok); [exact I|]. intros. apply rvb_step_ok; assumption. Qed.

Lemma blur_step_ok d c0 e s i t g c : lod_copy d = true -> cfg_arg d = true -> rvb_ok s ->
  rvb_ok (fst (blur_step d c0 e s i t g c)) /\ snd (blur_step d c0 e s i t g c) = snd (blur_step d c0 e blur_init i t g c).
Proof.
  intros Hd Hc Hs. unfold blur_step. destruct (negb (c_shape (tensor_at e i) =? c_shape (tensor_at e t))); [split; [exact Hs|reflexivity]|].
  destruct (rvb_lookup_ok d e s (c_shape (tensor_at e t)) c0 g Hd Hc Hs) as [A B].
  destruct (rvb_lookup_ok d e blur_init (c_shape (tensor_at e t)) c0 g Hd Hc I) as [_ B0].
  destruct (rvb_lookup d e s _ c0 g) as [s1 l]. destruct (rvb_lookup d e blur_init _ c0 g) as [s0 l0]. simpl in *. subst. split; [exact A|reflexivity].
Qed.
Lemma blur_sound d c0 : sound_blur d = true -> history_independent (blur_step d c0) blur_init.
Proof. intros Hd. destruct (sound_rvb_flags d Hd). apply (run_by_invariant (blur_step d c0) blur_init rvb_ok); [exact I|]. intros. apply blur_step_ok; assumption. Qed.

(* ---- MetamericLoss with (target value, gaze value) as the key *)
Definition met_ok (c0 : Z) (s : met_state) : Prop :=
  match fst s with None => True | Some (c, kg, st) => st = Some (Stats c (Lod (c_shape c) c0 kg)) end /\ rvb_ok (snd s).
Lemma sound_met_flags d : sound_met d = true ->
  lod_copy d = true /\ key_gaze d = true /\ key_shape d = true /\ init_none d = true /\ cfg_arg d = true.
Proof. unfold sound_met. intros H. repeat (apply andb_true_iff in H; destruct H as [H ?]). tauto. Qed.
Lemma met_step_ok d c0 e s i t g c : sound_met d = true -> met_ok c0 s ->
  met_ok c0 (fst (met_step d c0 e s i t g c)) /\ snd (met_step d c0 e s i t g c) = snd (met_step d c0 e met_init i t g c).
Proof.
  intros Hd Hs. destruct (sound_met_flags d Hd) as [Hcopy [Hg [Hsh [Hin Hcfg]]]].
  unfold met_step, met_init. rewrite Hg, Hsh, Hin. simpl negb. simpl orb. cbv iota.
  destruct (negb (c_shape (tensor_at e i) =? c_shape (tensor_at e t))); [split; [exact Hs|reflexivity]|].
  destruct s as [tc rvb]. destruct Hs as [Htc Hrvb]. simpl in Htc, Hrvb.
  set (sh := c_shape (tensor_at e t)).
  (* the fresh object *)
  destruct (rvb_lookup_ok d e None sh c0 g Hcopy Hcfg I) as [F1 F2].
  destruct (rvb_lookup d e None sh c0 g) as [f1 fl] eqn:EF. simpl in F1, F2.
  destruct (rvb_lookup_ok d e f1 sh c0 g Hcopy Hcfg F1) as [F3 F4].
  destruct (rvb_lookup d e f1 sh c0 g) as [f2 fl2] eqn:EF2. simpl in F3, F4. simpl. subst fl fl2.
  (* this object *)
  destruct (rvb_lookup_ok d e rvb sh c0 g Hcopy Hcfg Hrvb) as [R1 R2].
  destruct (rvb_lookup d e rvb sh c0 g) as [r1 rl] eqn:ER. simpl in R1, R2.
  destruct (rvb_lookup_ok d e r1 sh c0 g Hcopy Hcfg R1) as [R3 R4].
  destruct (rvb_lookup d e r1 sh c0 g) as [r2 rl2] eqn:ER2. simpl in R3, R4. subst rl rl2.
  destruct tc as [[[cc kg] st]|]; simpl.
  - destruct (content_eqb cc (tensor_at e t) && gaze_eqb kg (gaze_at e g)) eqn:E.
    + apply andb_true_iff in E. destruct E as [E1 E2]. apply content_eqb_eq in E1. apply gaze_eqb_eq in E2. subst cc kg st.
      simpl. split; [split; [reflexivity|exact R1]|reflexivity].
    + simpl. split; [split; [reflexivity|exact R3]|reflexivity].
  - split; [split; [reflexivity|exact R3]|reflexivity].
Qed.
Lemma met_sound d c0 : sound_met d = true -> history_independent (met_step d c0) met_init.
Proof. intros Hd. apply (run_by_invariant (met_step d c0) met_init (met_ok c0)); [split; exact I|]. intros. apply met_step_ok; assumption. Qed.

(* ---- MetamerMSELoss with (target value, gaze value) as the key *)
Definition mse_ok (c0 : Z) (s : mse_state) : Prop :=
  match fst s with None => True | Some (k, kg, m) => exists c, k = TVal c /\ m = Metamer c (Lod (c_shape c) c0 kg) end /\ rvb_ok (snd s).
Lemma sound_mse_flags d : sound_mse d = true -> lod_copy d = true /\ key_gaze d = true /\ key_value d = true /\ cfg_arg d = true.
Proof. unfold sound_mse. intros H. repeat (apply andb_true_iff in H; destruct H as [H ?]). tauto. Qed.
Lemma mse_step_ok d c0 e s i t g c : sound_mse d = true -> mse_ok c0 s ->
  mse_ok c0 (fst (mse_step d c0 e s i t g c)) /\ snd (mse_step d c0 e s i t g c) = snd (mse_step d c0 e mse_init i t g c).
Proof.
  intros Hd Hs. destruct (sound_mse_flags d Hd) as [Hcopy [Hg [Hv Hcfg]]].
  unfold mse_step, mse_init. rewrite Hg, Hv. simpl negb. simpl orb.
  destruct (negb (c_shape (tensor_at e i) =? c_shape (tensor_at e t))); [split; [exact Hs|reflexivity]|].
  destruct s as [mc rvb]. destruct Hs as [Hmc Hrvb]. simpl in Hmc, Hrvb.
  set (sh := c_shape (tensor_at e t)).
  destruct (rvb_lookup_ok d e None sh c0 g Hcopy Hcfg I) as [F1 F2].
  destruct (rvb_lookup d e None sh c0 g) as [f1 fl] eqn:EF. simpl in F1, F2. simpl. subst fl.
  destruct (rvb_lookup_ok d e rvb sh c0 g Hcopy Hcfg Hrvb) as [R1 R2].
  destruct (rvb_lookup d e rvb sh c0 g) as [r1 rl] eqn:ER. simpl in R1, R2. subst rl.
  destruct mc as [[[k kg] m]|]; simpl.
  - destruct Hmc as [cc [-> ->]]. simpl.
    destruct (content_eqb cc (tensor_at e t) && gaze_eqb kg (gaze_at e g)) eqn:E.
    + apply andb_true_iff in E. destruct E as [E1 E2]. apply content_eqb_eq in E1. apply gaze_eqb_eq in E2. subst cc kg.
      simpl. split; [split; [exists (tensor_at e t); split; reflexivity|exact Hrvb]|reflexivity].
    + simpl. split; [split; [exists (tensor_at e t); split; reflexivity|exact R1]|reflexivity].
  - split; [split; [exists (tensor_at e t); split; reflexivity|exact R1]|reflexivity].
Qed.
Lemma mse_sound d c0 : sound_mse d = true -> history_independent (mse_step d c0) mse_init.
Proof. intros Hd. apply (run_by_invariant (mse_step d c0) mse_init (mse_ok c0)); [split; exact I|]. intros. apply mse_step_ok; assumption. Qed.

(* ---- cache hits: under the repaired discipline the LOD map is reused exactly when the stored key EQUALS the
   (shape, configuration, gaze value) of the call, and a miss recomputes it from the arguments of the call *)
Lemma rvb_hit_iff_key e s sh c g : rvb_ok s ->
  (rvb_hit e s sh c g = true <-> s = Some (sh, c, GVal (gaze_at e g), Lod sh c (gaze_at e g))).
Proof.
  intros Hs. destruct s as [[[[sh0 c0] k] l]|]; simpl; [|split; discriminate].
  destruct Hs as [v [-> ->]]. simpl. split.
  - intros H. apply andb_true_iff in H. destruct H as [H12 H3]. apply andb_true_iff in H12. destruct H12 as [H1 H2].
    apply Z.eqb_eq in H1. apply Z.eqb_eq in H2. apply gaze_eqb_eq in H3. subst. reflexivity.
  - intros H. inversion H; subst. rewrite !Z.eqb_refl, gaze_eqb_refl. reflexivity.
Qed.
Lemma rvb_hit_keeps d e s sh c g : rvb_hit e s sh c g = true -> fst (rvb_lookup d e s sh c g) = s.
Proof. unfold rvb_hit, rvb_lookup. destruct s as [[[[sh0 c0] k] l]|]; [|discriminate]. intros ->. reflexivity. Qed.
Lemma rvb_miss_recomputes d e s sh c g : cfg_arg d = true -> rvb_hit e s sh c g = false -> snd (rvb_lookup d e s sh c g) = Lod sh c (gaze_at e g).
Proof. intros Hc. unfold rvb_hit, rvb_lookup. rewrite Hc. destruct s as [[[[sh0 c0] k] l]|]; [intros ->|]; reflexivity. Qed.
(* MetamericLoss, repaired: the statistics are reused (event 0) only if the stored (target value, gaze value) equals the call's *)
Lemma met_reuse_iff_key c0 e c kg st rvb i t g cf : c_shape (tensor_at e i) = c_shape (tensor_at e t) ->
  (nth 0 (met_events repaired c0 e (Some (c, kg, st), rvb) i t g cf) 1 = 0 <-> c = tensor_at e t /\ kg = gaze_at e g).
Proof.
  intros Hsh. unfold met_events. rewrite Hsh, Z.eqb_refl. simpl.
  destruct (content_eqb c (tensor_at e t) && gaze_eqb kg (gaze_at e g)) eqn:E; simpl.
  - apply andb_true_iff in E. destruct E as [E1 E2]. apply content_eqb_eq in E1. apply gaze_eqb_eq in E2. tauto.
  - split; [discriminate|]. intros [-> ->]. rewrite content_eqb_refl, gaze_eqb_refl in E. discriminate.
Qed.
Lemma mse_reuse_iff_key c0 e c kg m rvb i t g cf : c_shape (tensor_at e i) = c_shape (tensor_at e t) ->
  (nth 0 (mse_events repaired c0 e (Some (TVal c, kg, m), rvb) i t g cf) 1 = 0 <-> c = tensor_at e t /\ kg = gaze_at e g).
Proof.
  intros Hsh. unfold mse_events. rewrite Hsh, Z.eqb_refl. simpl.
  destruct (content_eqb c (tensor_at e t) && gaze_eqb kg (gaze_at e g)) eqn:E; simpl.
  - apply andb_true_iff in E. destruct E as [E1 E2]. apply content_eqb_eq in E1. apply gaze_eqb_eq in E2. tauto.
  - split; [discriminate|]. intros [-> ->]. rewrite content_eqb_refl, gaze_eqb_refl in E. discriminate.
Qed.

(* ---- the converse: a key that misses an argument, or a map built from a remembered flag instead of the
   argument, is refuted by a short history.  One environment and one history expose every unsound discipline
   (loss objects constructed with configuration 1, e.g. equi = True; blur calls pass configuration 1). *)
Definition w_env : env :=
  {| e_tensor := [(64, 0); (64, 1); (64, 2); (32, 3); (32, 4)]; e_gaze := [(5, 5); (1, 9)] |}.
Definition w_ops : list op :=
  [ Call 0%nat 0%nat 0%nat 1;                    (* first target is all zeros *)
    Call 1%nat 2%nat 0%nat 1; Call 1%nat 2%nat 1%nat 1;   (* same target, another gaze list *)
    SetGaze 1%nat (3, 3); Call 1%nat 2%nat 1%nat 1;     (* the same gaze list, edited in place *)
    Call 3%nat 4%nat 0%nat 1;                    (* another image size *)
    Call 1%nat 2%nat 0%nat 1; SetData 2%nat 7; Call 1%nat 2%nat 0%nat 1;     (* the target tensor edited in place *)
    Call 0%nat 0%nat 0%nat 1 ].                  (* an all-zero target again, now after other targets *)

Lemma rvb_unsound d : sound_rvb d = false -> run (rvb_step d) w_env blur_init w_ops <> run_fresh (rvb_step d) blur_init w_env w_ops.
Proof. destruct d as [[] [] [] [] [] []]; simpl; intros H; try discriminate H; vm_compute; discriminate. Qed.
Lemma blur_unsound d : sound_blur d = false -> run (blur_step d 1) w_env blur_init w_ops <> run_fresh (blur_step d 1) blur_init w_env w_ops.
Proof. destruct d as [[] [] [] [] [] []]; simpl; intros H; try discriminate H; vm_compute; discriminate. Qed.
Lemma met_unsound d : sound_met d = false -> run (met_step d 1) w_env met_init w_ops <> run_fresh (met_step d 1) met_init w_env w_ops.
Proof. destruct d as [[] [] [] [] [] []]; simpl; intros H; try discriminate H; vm_compute; discriminate. Qed.
Lemma mse_unsound d : sound_mse d = false -> run (mse_step d 1) w_env mse_init w_ops <> run_fresh (mse_step d 1) mse_init w_env w_ops.
Proof. destruct d as [[] [] [] [] [] []]; simpl; intros H; try discriminate H; vm_compute; discriminate. Qed.

Lemma rvb_iff d : sound_rvb d = true <-> history_independent (rvb_step d) blur_init.
Proof. split; [apply rvb_sound|]. intros H. destruct (sound_rvb d) eqn:E; [reflexivity|]. exfalso. exact (rvb_unsound d E (H w_env w_ops)). Qed.
Lemma blur_iff d : sound_blur d = true <-> forall c0, history_independent (blur_step d c0) blur_init.
Proof. split; [intros H c0; apply blur_sound, H|]. intros H. destruct (sound_blur d) eqn:E; [reflexivity|]. exfalso. exact (blur_unsound d E (H 1 w_env w_ops)). Qed.
Lemma met_iff d : sound_met d = true <-> forall c0, history_independent (met_step d c0) met_init.
Proof. split; [intros H c0; apply met_sound, H|]. intros H. destruct (sound_met d) eqn:E; [reflexivity|]. exfalso. exact (met_unsound d E (H 1 w_env w_ops)). Qed.
Lemma mse_iff d : sound_mse d = true <-> forall c0, history_independent (mse_step d c0) mse_init.
Proof. split; [intros H c0; apply mse_sound, H|]. intros H. destruct (sound_mse d) eqn:E; [reflexivity|]. exfalso. exact (mse_unsound d E (H 1 w_env w_ops)). Qed.

(* the shipped (legacy) discipline, with two-call witnesses *)
Lemma legacy_met_refuted : exists e i t g g',
  run (met_step legacy 0) e met_init [Call i t g 0; Call i t g' 0] <> run_fresh (met_step legacy 0) met_init e [Call i t g 0; Call i t g' 0].
Proof. exists w_env, 1%nat, 2%nat, 0%nat, 1%nat. vm_compute. discriminate. Qed.
Lemma legacy_mse_refuted : exists e i t g g',
  run (mse_step legacy 0) e mse_init [Call i t g 0; Call i t g' 0] <> run_fresh (mse_step legacy 0) mse_init e [Call i t g 0; Call i t g' 0].
Proof. exists w_env, 1%nat, 2%nat, 0%nat, 1%nat. vm_compute. discriminate. Qed.
Lemma legacy_blur_refuted : exists e i t g v,
  run (blur_step legacy 0) e blur_init [Call i t g 0; SetGaze g v; Call i t g 0] <> run_fresh (blur_step legacy 0) blur_init e [Call i t g 0; SetGaze g v; Call i t g 0].
Proof. exists w_env, 1%nat, 2%nat, 0%nat, (3, 3). vm_compute. discriminate. Qed.
Lemma legacy_met_crash : exists e i t i' t' g,
  nth 1 (run (met_step legacy 0) e met_init [Call i t g 0; Call i' t' g 0]) Crash = Crash /\
  nth 1 (run_fresh (met_step legacy 0) met_init e [Call i t g 0; Call i' t' g 0]) Crash <> Crash.
Proof. exists w_env, 1%nat, 2%nat, 3%nat, 4%nat, 0%nat. vm_compute. split; [reflexivity|discriminate]. Qed.
(* a map builder selected by the flag remembered from the previous fill (`if not self.equi:`): with the non-default
   configuration a fresh object builds the default map, a used object the right one: two calls refute it *)
Definition flag_from_self : disc := {| lod_copy := true; key_gaze := true; key_shape := true; init_none := true; key_value := true; cfg_arg := false |}.
Lemma flag_from_self_refuted : exists e i t g g',
  run (blur_step flag_from_self 1) e blur_init [Call i t g 1; Call i t g' 1] <> run_fresh (blur_step flag_from_self 1) blur_init e [Call i t g 1; Call i t g' 1] /\
  run (met_step flag_from_self 1) e met_init [Call i t g 1; Call i t g' 1] <> run_fresh (met_step flag_from_self 1) met_init e [Call i t g 1; Call i t g' 1] /\
  run (mse_step flag_from_self 1) e mse_init [Call i t g 1; Call i t g' 1] <> run_fresh (mse_step flag_from_self 1) mse_init e [Call i t g 1; Call i t g' 1] /\
  run (rvb_step flag_from_self) e blur_init [Call i t g 1; Call i t g' 1] <> run_fresh (rvb_step flag_from_self) blur_init e [Call i t g 1; Call i t g' 1] /\
  (* with the default configuration the same discipline is indistinguishable on this history *)
  run (blur_step flag_from_self 0) e blur_init [Call i t g 0; Call i t g' 0] = run_fresh (blur_step flag_from_self 0) blur_init e [Call i t g 0; Call i t g' 0].
Proof. exists w_env, 1%nat, 2%nat, 0%nat, 1%nat. repeat split; vm_compute; try discriminate; reflexivity. Qed.
(* a fresh object never crashes on equal shapes under the repaired discipline, and identity gives the identity descriptor *)
Lemma repaired_met_fresh c0 e i t g c : c_shape (tensor_at e i) = c_shape (tensor_at e t) ->
  snd (met_step repaired c0 e met_init i t g c) =
  MetOut (tensor_at e i) (Lod (c_shape (tensor_at e t)) c0 (gaze_at e g)) (Stats (tensor_at e t) (Lod (c_shape (tensor_at e t)) c0 (gaze_at e g))).
Proof.
  intros H. unfold met_step. rewrite H, Z.eqb_refl. simpl. unfold rvb_lookup. simpl. rewrite !Z.eqb_refl, gaze_eqb_refl. reflexivity.
Qed.
Close Scope Z_scope.
