(* C17 — losses: reference model (definitions only).

   Part 1 (over R): the closed-form losses of odak.learn.tools.loss, odak.learn.wave.loss and
   odak.learn.perception.image_quality_losses, on flattened pixel lists of ANY length.  The traced
   code (tracer/recipes/c17.py) is proved equal to these definitions on every run (coq/tie/C17_Tie*.v).
   Part 2 (over Q/Z, executable): torch.histc binning and histogram_loss.
   Part 3 (over Z, executable): the caching state machines of RadiallyVaryingBlur/BlurLoss,
   MetamericLoss and MetamerMSELoss, with the pooled statistics as FREE constructors, the gaze lists
   and tensors as heap cells (so in-place edits are expressible) and the caching discipline as a
   parameter; run inside Coq by the harness on the call sequences the implementation is run on. *)
From Coq Require Import Reals List ZArith Bool QArith Qround Qabs.
Import ListNotations.

(* ================================================================== Part 1: formulas over R *)
Open Scope R_scope.

Fixpoint rsum (l : list R) : R := match l with [] => 0 | x :: t => x + rsum t end.
Definition rmean (l : list R) : R := rsum l / INR (length l).

(* torch.nn.MSELoss / L1Loss (reduction 'mean' and 'sum') on paired pixels *)
Definition sqd (p : R * R) : R := (fst p - snd p) ^ 2.
Definition abd (p : R * R) : R := Rabs (fst p - snd p).
Definition mse (l : list (R * R)) : R := rmean (map sqd l).
Definition sse (l : list (R * R)) : R := rsum (map sqd l).
Definition mae (l : list (R * R)) : R := rmean (map abd l).

(* multiplane_loss.__call__: px = (image, target) per pixel; mpx = (image, target, mask) per (plane, pixel) *)
Definition masked (q : R * R * R) : R * R := let '(x, t, m) := q in (x * m, t * m).
Definition corr (p : R * R) : R * R := (fst p * snd p, snd p * snd p).
Definition mp_loss (w0 w1 w2 : R) (px : list (R * R)) (mpx : list (R * R * R)) : R :=
  w0 * mse px + w1 * mse (map masked mpx) + w2 * mse (map corr px).
(* perceptual_multiplane_loss.__call__ without learned terms: the same with L1 companions *)
Definition pmp_loss (w0 w1 w2 v0 v1 v2 : R) (px : list (R * R)) (mpx : list (R * R * R)) : R :=
  mp_loss w0 w1 w2 px mpx + (v0 * mae px + v1 * mae (map masked mpx) + v2 * mae (map corr px)).

(* wrapped_mean_squared_error *)
Definition wterm (a b : R) : R := (sin a - sin b) ^ 2 + (cos a - cos b) ^ 2.
Definition wmse_mean (l : list (R * R)) : R := rmean (map (fun p => wterm (fst p) (snd p)) l).
Definition wmse_sum (l : list (R * R)) : R := rsum (map (fun p => wterm (fst p) (snd p)) l).

(* total_variation_loss: an image is a list of rows; a frame a list of (N*C) images *)
Fixpoint dsq (r : list R) : R :=
  match r with a :: ((b :: _) as t) => (b - a) ^ 2 + dsq t | _ => 0 end.
Fixpoint zsq (r1 r2 : list R) : R :=
  match r1, r2 with a :: t1, b :: t2 => (b - a) ^ 2 + zsq t1 t2 | _, _ => 0 end.
Fixpoint tv_x (img : list (list R)) : R := match img with [] => 0 | r :: t => dsq r + tv_x t end.
Fixpoint tv_y (img : list (list R)) : R :=
  match img with r1 :: ((r2 :: _) as t) => zsq r1 r2 + tv_y t | _ => 0 end.
Definition npix (img : list (list R)) : nat := fold_right plus 0%nat (map (@length R) img).
Definition tv (frame : list (list (list R))) : R :=
  (rsum (map tv_x frame) + rsum (map tv_y frame)) / INR (fold_right plus 0%nat (map npix frame)).
Definition uniform_img (c : R) (img : list (list R)) : Prop := Forall (Forall (eq c)) img.

(* PSNR.forward as a function of the mean squared error *)
Definition log10 (x : R) : R := ln x / ln 10.
Definition psnr (peak m : R) : R := 20 * log10 (peak / sqrt m).

(* speckle_contrast.functional_conv2d on one k x k window (box kernel: every weight 1/k^2), with the
   variance clamped at zero before the square root (the repaired code) *)
Definition win_mean (w : list R) : R := rsum w / INR (length w).
Definition win_var (w : list R) : R := win_mean (map (fun x => x ^ 2) w) - (win_mean w) ^ 2.
Definition speckle_c (w : list R) : R := sqrt (Rmax 0 (win_var w)) / win_mean w.
Definition speckle_loss (ws : list (list R)) : R := mse (map (fun w => (speckle_c w, 0)) ws).

(* phase_gradient: cross-correlation of a window with the kernel, then MSE against zero *)
Fixpoint dotp (k w : list R) : R :=
  match k, w with a :: k', b :: w' => a * b + dotp k' w' | _, _ => 0 end.
Definition pg_loss (k : list R) (ws : list (list R)) : R := mse (map (fun w => (dotp k w, 0)) ws).


(* multi_scale_total_variation_loss: the sum of the total variations of the pyramid levels *)
Definition ms_tv (levels : list (list (list (list R)))) : R := rsum (map tv levels).

(* speckle contrast sigma / mean is defined only for windows of non-zero mean *)
Definition speckle_defined (w : list R) : Prop := win_mean w <> 0.

(* ---- value of the gaze-contingent losses, under the CONTRACT that the pooled statistics, the blur, the
   fovea mask and the metamer are deterministic functions of (tensor, gaze) (Section variables: whatever
   they compute).  metameric_loss_stats: mean over the statistics maps of the MSE between the two maps. *)
Definition stats_loss (a b : list (list R)) : R :=
  rmean (map (fun p => mse (combine (fst p) (snd p))) (combine a b)).
Definition rmul (a b : list R) : list R := map (fun p => fst p * snd p) (combine a b).
Section GazeLossValue.
Variables (Img Gz : Type).
Variable pix : Img -> list R.                         (* the pixels (after padding / colour conversion) *)
Variable statsmaps : Img -> Gz -> list (list R).      (* calc_statsmaps *)
Variable fovea : Gz -> list R.                        (* fovea mask *)
Variable blurf : Img -> Gz -> list R.                 (* RadiallyVaryingBlur.blur *)
Variable metam : Img -> Gz -> list R.                 (* gen_metamer *)
Definition met_value (fw : R) (img tgt : Img) (g : Gz) : R :=
  stats_loss (statsmaps img g) (statsmaps tgt g) + fw * mse (combine (rmul (fovea g) (pix img)) (rmul (fovea g) (pix tgt))).
Definition blur_lowpass_value (img tgt : Img) (g : Gz) : R := mse (combine (blurf img g) (blurf tgt g)).
Definition blur_match_value (img tgt : Img) (g : Gz) : R := mse (combine (pix img) (blurf tgt g)).
Definition metamer_mse_value (img tgt : Img) (g : Gz) : R := mse (combine (pix img) (metam tgt g)).
End GazeLossValue.
Arguments met_value {Img Gz}.
Arguments blur_lowpass_value {Img Gz}.
Arguments blur_match_value {Img Gz}.
Arguments metamer_mse_value {Img Gz}.

Close Scope R_scope.

(* ================================================================== Part 2: histogram loss over Q *)
Open Scope Q_scope.

(* torch.histc: elements outside [lo, hi] are ignored; bin i is [lo + i w, lo + (i+1) w), hi goes to the last bin *)
Definition bin_of (bins : Z) (lo hi x : Q) : option Z :=
  if Qle_bool lo x && Qle_bool x hi then
    let i := Qfloor ((x - lo) * inject_Z bins / (hi - lo)) in
    Some (if (bins <=? i)%Z then (bins - 1)%Z else i)
  else None.
Definition count_bin (bins : Z) (lo hi : Q) (xs : list Q) (i : Z) : Z :=
  fold_right (fun x n => match bin_of bins lo hi x with Some j => if (j =? i)%Z then (n + 1)%Z else n | None => n end) 0%Z xs.
Definition histc (bins : Z) (lo hi : Q) (xs : list Q) : list Z :=
  map (count_bin bins lo hi xs) (map Z.of_nat (seq 0 (Z.to_nat bins))).
Fixpoint zsqdiff (a b : list Z) : Z :=
  match a, b with x :: a', y :: b' => ((x - y) * (x - y) + zsqdiff a' b')%Z | _, _ => 0%Z end.
(* histogram_loss: one histogram per channel, MSE over the (channels x bins) table *)
Fixpoint hist_sq (bins : Z) (lo hi : Q) (f g : list (list Q)) : Z :=
  match f, g with
  | cf :: f', cg :: g' => (zsqdiff (histc bins lo hi cf) (histc bins lo hi cg) + hist_sq bins lo hi f' g')%Z
  | _, _ => 0%Z
  end.
Definition hist_loss (bins : Z) (lo hi : Q) (f g : list (list Q)) : Q :=
  inject_Z (hist_sq bins lo hi f g) / inject_Z (Z.of_nat (length f) * bins).
(* comparison with a float result inside Coq: |model - observed| <= tol * max(1, |model|) *)
Definition Qclose (tol a b : Q) : bool :=
  Qle_bool (Qabs (a - b)) (tol * (if Qle_bool 1 (Qabs a) then Qabs a else 1)).

Close Scope Q_scope.

(* ================================================================== Part 3: caching state machines *)
Open Scope Z_scope.

(* A tensor's content: a shape code and a data identifier (data 0 = the all-zero tensor).  A gaze is a
   point of a finite grid.  Tensors and gaze lists live in a heap so that aliasing is expressible.
   A configuration code stands for the remaining arguments that select the pooling map
   (alpha, real_image_width, real_viewing_distance, mode, equi); code 0 is what an object that has
   never filled its cache falls back to. *)
Definition content := (Z * Z)%type.          (* (shape code, data id) *)
Definition gaze := (Z * Z)%type.
Definition c_shape (c : content) : Z := fst c.
Definition content_eqb (a b : content) : bool := (fst a =? fst b) && (snd a =? snd b).
Definition gaze_eqb (a b : gaze) : bool := (fst a =? fst b) && (snd a =? snd b).

Record env := { e_tensor : list content; e_gaze : list gaze }.
Definition tensor_at (e : env) (t : nat) : content := nth t (e_tensor e) (0, 0).
Definition gaze_at (e : env) (g : nat) : gaze := nth g (e_gaze e) (0, 0).
Fixpoint set_nth {A} (l : list A) (n : nat) (v : A) : list A :=
  match l, n with [], _ => [] | _ :: t, O => v :: t | x :: t, S k => x :: set_nth t k v end.

(* what a caller can do between and with calls *)
Inductive op :=
| Call (img tgt g : nat) (cfg : Z)       (* loss(image, target, gaze = list object g) ; for RadiallyVaryingBlur.blur
                                            itself: blur(image, <cfg arguments>, centre = list object g) *)
| SetGaze (g : nat) (v : gaze)           (* gaze[0], gaze[1] = v    : the list is edited in place *)
| SetData (t : nat) (d : Z).             (* t.copy_(other tensor)   : the tensor is edited in place *)
Definition apply_env (e : env) (o : op) : env :=
  match o with
  | Call _ _ _ _ => e
  | SetGaze g v => {| e_tensor := e_tensor e; e_gaze := set_nth (e_gaze e) g v |}
  | SetData t d => {| e_tensor := set_nth (e_tensor e) t (c_shape (tensor_at e t), d); e_gaze := e_gaze e |}
  end.

(* uninterpreted results: free constructors, so two results are equal only if they were computed from
   the same arguments *)
Inductive lod := Lod (shape cfg : Z) (g : gaze).             (* pooling-size map for a shape, a configuration and a gaze *)
Inductive stats := Stats (c : content) (l : lod).            (* pooled pyramid statistics of a tensor *)
Inductive metamer := Metamer (c : content) (l : lod).        (* generated metamer of a tensor *)
Inductive out :=
| BlurOut (img tgt : content) (l : lod)
| MetOut (img : content) (l : lod) (s : stats)
| MseOut (img : content) (m : metamer)
| RvbOut (img : content) (l : lod)
| Crash.

(* the caching discipline: which arguments the cache keys contain, how they are held, and where the
   arguments that select the map are read from *)
Record disc := {
  lod_copy  : bool;    (* RadiallyVaryingBlur keeps a COPY of the gaze (false: the caller's list object) *)
  key_gaze  : bool;    (* the target cache key contains the gaze *)
  key_shape : bool;    (* the target cache compares shapes before values (false: torch.eq raises on a new shape) *)
  init_none : bool;    (* an empty target cache is tested explicitly (false: zeros placeholder, so a first all-zero target is never analysed) *)
  key_value : bool;    (* MetamerMSELoss compares the target by value (false: by object identity) *)
  cfg_arg   : bool     (* on a miss the map is built from the configuration ARGUMENT of the call (false: from the
                          configuration remembered from the previous fill, e.g. `self.equi` instead of `equi`) *)
}.
Definition repaired : disc := {| lod_copy := true; key_gaze := true; key_shape := true; init_none := true; key_value := true; cfg_arg := true |}.
Definition legacy : disc := {| lod_copy := false; key_gaze := false; key_shape := false; init_none := false; key_value := false; cfg_arg := true |}.
Definition sound_rvb (d : disc) : bool := lod_copy d && cfg_arg d.
Definition sound_blur (d : disc) : bool := lod_copy d && cfg_arg d.
Definition sound_met (d : disc) : bool := lod_copy d && key_gaze d && key_shape d && init_none d && cfg_arg d.
Definition sound_mse (d : disc) : bool := lod_copy d && key_gaze d && key_value d && cfg_arg d.

(* ---- RadiallyVaryingBlur: LOD map cached under (shape, configuration, centre) *)
Inductive gkey := GRef (g : nat) | GVal (v : gaze).
Definition gkey_val (e : env) (k : gkey) : gaze := match k with GRef g => gaze_at e g | GVal v => v end.
Definition rvb_state := option (Z * Z * gkey * lod).
Definition rvb_lookup (d : disc) (e : env) (s : rvb_state) (shape cfg : Z) (g : nat) : rvb_state * lod :=
  let used := if cfg_arg d then cfg else match s with Some (_, c, _, _) => c | None => 0 end in
  let fresh := Lod shape used (gaze_at e g) in
  let miss := (Some (shape, cfg, (if lod_copy d then GVal (gaze_at e g) else GRef g), fresh), fresh) in
  match s with
  | Some (sh, c, k, l) => if (sh =? shape) && (c =? cfg) && gaze_eqb (gkey_val e k) (gaze_at e g) then (s, l) else miss
  | None => miss
  end.
(* RadiallyVaryingBlur.blur itself: the configuration is an argument of every call *)
Definition rvb_step (d : disc) (e : env) (s : rvb_state) (img tgt g : nat) (cfg : Z) : rvb_state * out :=
  let ci := tensor_at e img in
  let '(s1, l) := rvb_lookup d e s (c_shape ci) cfg g in (s1, RvbOut ci l).

(* ---- BlurLoss.__call__ (c0: the configuration the loss object was constructed with) *)
Definition blur_step (d : disc) (c0 : Z) (e : env) (s : rvb_state) (img tgt g : nat) (cfg : Z) : rvb_state * out :=
  let ci := tensor_at e img in let ct := tensor_at e tgt in
  if negb (c_shape ci =? c_shape ct) then (s, Crash) else
  let '(s1, l) := rvb_lookup d e s (c_shape ct) c0 g in
  (s1, BlurOut ci ct l).

(* ---- MetamericLoss.__call__ : target statistics cached *)
Definition met_state := (option (content * gaze * option stats) * rvb_state)%type.
Definition met_step (d : disc) (c0 : Z) (e : env) (s : met_state) (img tgt g : nat) (cfg : Z) : met_state * out :=
  let ci := tensor_at e img in let ct := tensor_at e tgt in let gv := gaze_at e g in
  if negb (c_shape ci =? c_shape ct) then (s, Crash) else
  let '(tc0, rvb) := s in
  let tc := match tc0 with
            | None => if init_none d then None else Some ((c_shape ct, 0), gv, None)
            | Some _ => tc0 end in
  let refresh :=
    let '(rvb1, l) := rvb_lookup d e rvb (c_shape ct) c0 g in
    let st := Stats ct l in
    let '(rvb2, l2) := rvb_lookup d e rvb1 (c_shape ct) c0 g in
    ((Some (ct, gv, Some st), rvb2), MetOut ci l2 st) in
  match tc with
  | None => refresh
  | Some (c, kg, st) =>
      if negb (key_shape d) && negb (c_shape c =? c_shape ct) then ((tc, rvb), Crash)
      else if content_eqb c ct && (negb (key_gaze d) || gaze_eqb kg gv) then
        match st with
        | Some st => let '(rvb2, l2) := rvb_lookup d e rvb (c_shape ct) c0 g in ((tc, rvb2), MetOut ci l2 st)
        | None => let '(rvb2, _) := rvb_lookup d e rvb (c_shape ct) c0 g in ((tc, rvb2), Crash)
        end
      else refresh
  end.

(* ---- MetamerMSELoss.__call__ : target metamer cached *)
Inductive tkey := TRef (t : nat) | TVal (c : content).
Definition tkey_match (e : env) (k : tkey) (t : nat) : bool :=
  match k with TRef r => Nat.eqb r t | TVal c => content_eqb c (tensor_at e t) end.
Definition mse_state := (option (tkey * gaze * metamer) * rvb_state)%type.
Definition mse_step (d : disc) (c0 : Z) (e : env) (s : mse_state) (img tgt g : nat) (cfg : Z) : mse_state * out :=
  let ci := tensor_at e img in let ct := tensor_at e tgt in let gv := gaze_at e g in
  if negb (c_shape ci =? c_shape ct) then (s, Crash) else
  let '(mc, rvb) := s in
  let refresh :=
    let '(rvb1, l) := rvb_lookup d e rvb (c_shape ct) c0 g in
    let m := Metamer ct l in
    ((Some ((if key_value d then TVal ct else TRef tgt), gv, m), rvb1), MseOut ci m) in
  match mc with
  | None => refresh
  | Some (k, kg, m) =>
      if tkey_match e k tgt && (negb (key_gaze d) || gaze_eqb kg gv) then (s, MseOut ci m) else refresh
  end.

(* ---- running a history on ONE object, and the same calls each on a FRESH object *)
Section Run.
Context {S : Type} (step : env -> S -> nat -> nat -> nat -> Z -> S * out) (init : S).
Fixpoint run (e : env) (s : S) (ops : list op) : list out :=
  match ops with
  | [] => []
  | Call i t g c :: r => let '(s1, o) := step e s i t g c in o :: run e s1 r
  | o :: r => run (apply_env e o) s r
  end.
Fixpoint run_fresh (e : env) (ops : list op) : list out :=
  match ops with
  | [] => []
  | Call i t g c :: r => snd (step e init i t g c) :: run_fresh e r
  | o :: r => run_fresh (apply_env e o) r
  end.
Definition history_independent : Prop := forall e ops, run e init ops = run_fresh e ops.
End Run.

Definition blur_init : rvb_state := None.
Definition met_init : met_state := (None, None).
Definition mse_init : mse_state := (None, None).

(* ---- what the object does on a call, beside its result: was the cached target value (statistics /
   metamer) recomputed, was the LOD map recomputed.  Observable on the implementation by counting the calls
   of the expensive helpers; compared with the code by the harness (a cache HIT of the code where the model
   recomputes means that the code's key misses an argument). *)
Definition rvb_hit (e : env) (s : rvb_state) (shape cfg : Z) (g : nat) : bool :=
  match s with Some (sh, c, k, _) => (sh =? shape) && (c =? cfg) && gaze_eqb (gkey_val e k) (gaze_at e g) | None => false end.
Definition b2z (b : bool) : Z := if b then 1 else 0.
(* [target value recomputed; LOD map recomputed] *)
Definition rvb_events (d : disc) (e : env) (s : rvb_state) (img tgt g : nat) (cfg : Z) : list Z :=
  [0; b2z (negb (rvb_hit e s (c_shape (tensor_at e img)) cfg g))].
Definition blur_events (d : disc) (c0 : Z) (e : env) (s : rvb_state) (img tgt g : nat) (cfg : Z) : list Z :=
  if negb (c_shape (tensor_at e img) =? c_shape (tensor_at e tgt)) then [0; 0]
  else [0; b2z (negb (rvb_hit e s (c_shape (tensor_at e tgt)) c0 g))].
Definition met_events (d : disc) (c0 : Z) (e : env) (s : met_state) (img tgt g : nat) (cfg : Z) : list Z :=
  let ct := tensor_at e tgt in let gv := gaze_at e g in
  if negb (c_shape (tensor_at e img) =? c_shape ct) then [0; 0] else
  let '(tc0, rvb) := s in
  let tc := match tc0 with None => if init_none d then None else Some ((c_shape ct, 0), gv, None) | Some _ => tc0 end in
  let lodmiss := b2z (negb (rvb_hit e rvb (c_shape ct) c0 g)) in
  match tc with
  | None => [1; lodmiss]
  | Some (c, kg, st) =>
      if negb (key_shape d) && negb (c_shape c =? c_shape ct) then [0; 0]
      else if content_eqb c ct && (negb (key_gaze d) || gaze_eqb kg gv) then [0; lodmiss] else [1; lodmiss]
  end.
Definition mse_events (d : disc) (c0 : Z) (e : env) (s : mse_state) (img tgt g : nat) (cfg : Z) : list Z :=
  let ct := tensor_at e tgt in let gv := gaze_at e g in
  if negb (c_shape (tensor_at e img) =? c_shape ct) then [0; 0] else
  let '(mc, rvb) := s in
  let lodmiss := b2z (negb (rvb_hit e rvb (c_shape ct) c0 g)) in
  match mc with
  | None => [1; lodmiss]
  | Some (k, kg, m) => if tkey_match e k tgt && (negb (key_gaze d) || gaze_eqb kg gv) then [0; 0] else [1; lodmiss]
  end.
Section RunEvents.
Context {S : Type} (step : env -> S -> nat -> nat -> nat -> Z -> S * out) (events : env -> S -> nat -> nat -> nat -> Z -> list Z).
Fixpoint run_events (e : env) (s : S) (ops : list op) : list (list Z) :=
  match ops with
  | [] => []
  | Call i t g c :: r => events e s i t g c :: run_events e (fst (step e s i t g c)) r
  | o :: r => run_events (apply_env e o) s r
  end.
End RunEvents.
(* which: 1 BlurLoss, 2 MetamericLoss, 3 MetamerMSELoss (constructed with configuration c0), 4 RadiallyVaryingBlur.blur *)
Definition machine_events (which : Z) (d : disc) (c0 : Z) (e : env) (ops : list op) : list (list Z) :=
  if which =? 1 then run_events (blur_step d c0) (blur_events d c0) e blur_init ops
  else if which =? 2 then run_events (met_step d c0) (met_events d c0) e met_init ops
  else if which =? 3 then run_events (mse_step d c0) (mse_events d c0) e mse_init ops
  else run_events (rvb_step d) (rvb_events d) e blur_init ops.

(* ---- flat encodings, for reading the results of vm_compute from the harness *)
Definition enc_lod (l : lod) : list Z := match l with Lod sh c (a, b) => [sh; c; a; b] end.
Definition enc_out (o : out) : list Z :=
  match o with
  | BlurOut (si, di) (st, dt) l => [1; si; di; st; dt] ++ enc_lod l
  | MetOut (si, di) l (Stats (st, dt) l2) => [2; si; di] ++ enc_lod l ++ [st; dt] ++ enc_lod l2
  | MseOut (si, di) (Metamer (st, dt) l) => [3; si; di; st; dt] ++ enc_lod l
  | RvbOut (si, di) l => [4; si; di] ++ enc_lod l
  | Crash => [0]
  end.
Definition machine_run (which : Z) (d : disc) (c0 : Z) (e : env) (ops : list op) : list (list Z) :=
  map enc_out (if which =? 1 then run (blur_step d c0) e blur_init ops
               else if which =? 2 then run (met_step d c0) e met_init ops
               else if which =? 3 then run (mse_step d c0) e mse_init ops
               else run (rvb_step d) e blur_init ops).
Definition machine_fresh (which : Z) (d : disc) (c0 : Z) (e : env) (ops : list op) : list (list Z) :=
  map enc_out (if which =? 1 then run_fresh (blur_step d c0) blur_init e ops
               else if which =? 2 then run_fresh (met_step d c0) met_init e ops
               else if which =? 3 then run_fresh (mse_step d c0) mse_init e ops
               else run_fresh (rvb_step d) blur_init e ops).
Close Scope Z_scope.
